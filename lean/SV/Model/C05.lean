import SV.Model.PolyWire
import SV.Gen.Consts
/-!
Model of `spindalis_core/src/integrals/univariate_definite.rs`:

* `trapezoid`          `trapezoidal_rule`  (private; reached through `definite_integral(…, 1)` and Romberg)
* `simpson13`          `simpson13`   composite 1/3 rule with the accumulating `xi += 2h`
* `simpson38`          `simpson38`   3/8 rule on four given points
* `definiteIntegral`   `definite_integral`  (n = 1 trapezoid; odd n: 3/8 on the last three segments, whose
                        points are built as `end − h·i`, 1/3 on the rest)
* `romberg`            `romberg_definite`   (table = `Vec<Vec<f64>>`, here `Array (Array S)`; every table
                        access is checked and an out-of-range index is the outcome `panic`)

Generic in the scalar `S`; the polynomial enters only through its evaluation function
`f : S → Except PErr S` (`PolynomialTraits::eval_univariate`), whose errors propagate as
`IntegralError::FunctionError`.  No Mathlib import: the same definitions are compiled into the driver
and run at `Float`, where every operation is performed in the order of the source so that the answers
agree bit for bit.  Numeric literals `2_f64`, `3_f64`, … and `usize as f64` casts are `Nat` casts.

Division by zero.  The only unguarded division whose divisor can vanish on ordinary inputs is the
stopping test of Romberg, `|T[1][i+1] − T[2][i]| / T[1][i+1]`.  IEEE gives `±∞` or `NaN` there, and
`∞ ≤ tol`, `NaN ≤ tol` are false for every finite or NaN tolerance: the model therefore says
"not converged" when the divisor is zero (`eqZero`, which at `Float` is also true of NaN — same
answer) instead of using the field convention `x / 0 = 0`.  (A tolerance of `+∞` is outside the
model.)  `(end − start) / segments` with `segments = 0` is not reachable from Romberg (`2^iter ≥ 2`)
and lies outside the property for `definite_integral` (n ≥ 1).
-/
namespace SV.C05
open SV SV.Poly

/-- `IntegralError` -/
inductive IErr where
  | maxIterationsReached
  | functionError (e : PErr)
deriving Repr, DecidableEq

/-- the Romberg table, `Vec<Vec<f64>>` -/
abbrev Table (S : Type) := Array (Array S)

/-- `table[i][j]` as an rvalue: `none` = index out of bounds (Rust panics) -/
def Table.get? {S : Type} (T : Table S) (i j : Nat) : Option S :=
  match T[i]? with
  | none => none
  | some row => row[j]?

/-- `table[i][j] = v`: `none` = index out of bounds (Rust panics) -/
def Table.set? {S : Type} (T : Table S) (i j : Nat) (v : S) : Option (Table S) :=
  match T[i]? with
  | none => none
  | some row => if j < row.size then some (T.setIfInBounds i (row.setIfInBounds j v)) else none

/-- `vec![vec![0.0; dim]; dim]` -/
def Table.zeros {S : Type} [OfNat S 0] (dim : Nat) : Table S :=
  Array.replicate dim (Array.replicate dim 0)

section model
variable {S : Type} [Add S] [Sub S] [Mul S] [Div S] [Neg S] [OfNat S 0] [NatCast S]
  [LT S] [DecidableRel (α := S) (· < ·)] [LE S] [DecidableRel (α := S) (· ≤ ·)]

/-- a float literal `k_f64` / `k.0` or a cast `k as f64` -/
@[reducible] def lit (k : Nat) : S := (k : S)

/-- `x == 0.0` on non-NaN values (true of NaN as well at `Float`, see the header) -/
def eqZero (x : S) : Bool := !(decide (x < 0)) && !(decide (0 < x))

/-- `for _ in 1..segments { xi += h; sum += 2_f64 * f(xi)?; }` — `count` passes from `(xi, sum)` -/
def trapLoop (f : S → Except PErr S) (h : S) : Nat → S → S → Except PErr (S × S)
  | 0, xi, sum => .ok (xi, sum)
  | n + 1, xi, sum =>
    let xi := xi + h
    match f xi with
    | .error e => .error e
    | .ok v => trapLoop f h n xi (sum + lit 2 * v)

/-- `trapezoidal_rule` -/
def trapezoid (f : S → Except PErr S) (a b : S) (n : Nat) : Except PErr S :=
  let h := (b - a) / (n : S)
  match f a with
  | .error e => .error e
  | .ok v0 =>
    match trapLoop f h (n - 1) a v0 with
    | .error e => .error e
    | .ok (_, sum) =>
      match f b with
      | .error e => .error e
      | .ok vb => .ok (h * (sum + vb) / lit 2)

/-- `simpson38`: the four evaluations in order, then `3·h·(f0 + 3 f1 + 3 f2 + f3) / 8` -/
def simpson38 (f : S → Except PErr S) (h p0 p1 p2 p3 : S) : Except PErr S :=
  match f p0 with
  | .error e => .error e
  | .ok f0 =>
    match f p1 with
    | .error e => .error e
    | .ok f1 =>
      match f p2 with
      | .error e => .error e
      | .ok f2 =>
        match f p3 with
        | .error e => .error e
        | .ok f3 => .ok (lit 3 * h * (f0 + lit 3 * f1 + lit 3 * f2 + f3) / lit 8)

/-- `for _ in 1..segments/2 { xi += 2h; sum += 4 f(xi − h)? + 2 f(xi)?; }` -/
def s13Loop (f : S → Except PErr S) (h : S) : Nat → S → S → Except PErr (S × S)
  | 0, xi, sum => .ok (xi, sum)
  | n + 1, xi, sum =>
    let xi := xi + lit 2 * h
    match f (xi - h) with
    | .error e => .error e
    | .ok u =>
      match f xi with
      | .error e => .error e
      | .ok v => s13Loop f h n xi (sum + (lit 4 * u + lit 2 * v))

/-- `simpson13` -/
def simpson13 (f : S → Except PErr S) (h start : S) (segments : Nat) : Except PErr S :=
  match f start with
  | .error e => .error e
  | .ok v0 =>
    match s13Loop f h (segments / 2 - 1) start v0 with
    | .error e => .error e
    | .ok (xi, sum) =>
      let xi := xi + lit 2 * h
      match f (xi - h) with
      | .error e => .error e
      | .ok u =>
        match f xi with
        | .error e => .error e
        | .ok v => .ok (h * (sum + (lit 4 * u + v)) / lit 3)

/-- `?` on a `Result<f64, PolynomialError>` inside a function returning `IntegralError` -/
def liftErr {α : Type} : Except PErr α → Except IErr α
  | .ok v => .ok v
  | .error e => .error (.functionError e)

/-- `definite_integral` -/
def definiteIntegral (f : S → Except PErr S) (a b : S) (n : Nat) : Except IErr S :=
  let h := (b - a) / (n : S)
  if n = 1 then liftErr (trapezoid f a b n)
  else
    -- `sum = 0.0; remaining_segments = segments`
    let first : Except IErr (S × Nat) :=
      if n % 2 ≠ 0 then
        -- points `end − h·3, end − h·2, end − h·1, end` (built for i = 1, 2, 3, then reversed)
        match simpson38 f h (b - h * lit 3) (b - h * lit 2) (b - h * lit 1) b with
        | .error e => .error (.functionError e)
        | .ok s => .ok (0 + s, n - 3)
      else .ok (0, n)
    match first with
    | .error e => .error e
    | .ok (sum, remaining) =>
      if remaining > 1 then
        match simpson13 f h a remaining with
        | .error e => .error (.functionError e)
        | .ok s => .ok (sum + s)
      else .ok sum

/-- the inner `for k in 2..=iter + 1` of Romberg: `count` steps from column `k`;
`none` = panic (table index out of range, or `4_usize.pow(k − 1)` overflowing 64 bits) -/
def rombergRow (iter : Nat) : Nat → Nat → Table S → Option (Table S)
  | 0, _, T => some T
  | n + 1, k, T =>
    if 32 ≤ k - 1 then none
    else
      let j := 2 + iter - k
      let p : S := ((4 ^ (k - 1) : Nat) : S)
      match T.get? (j + 1) (k - 1), T.get? j (k - 1) with
      | some u, some v =>
        match T.set? j k ((p * u - v) / (p - lit 1)) with
        | some T' => rombergRow iter n (k + 1) T'
        | none => none
      | _, _ => none

/-- what one pass of the `loop { … }` of `romberg_definite` leads to: the function returns / panics
(`done`), or the loop goes round again with the updated table (`more`) -/
inductive Pass (S : Type) where
  | done (o : Outcome IErr S)
  | more (T : Table S)

/-- the end of a pass: the relative change in percent, `break` tests and the code after the loop.
`x = table[1][iter+1]`, `y = table[2][iter]`; a zero (or NaN) divisor never counts as converged
(see the header). -/
def rombergStop (tol : S) (cap iter : Nat) (T : Table S) : Pass S :=
  match T.get? 1 (iter + 1), T.get? 2 iter with
  | some x, some y =>
    let approxErr := sabs (sabs (x - y) / x) * lit 100
    let converged : Bool := !(eqZero x) && decide (approxErr ≤ tol)
    if iter ≥ cap ∨ converged = true then
      if iter ≥ cap then .done (.err .maxIterationsReached) else .done (.ok x)
    else .more T
  | _, _ => .done .panic

/-- one pass of the loop with `iter` already incremented -/
def rombergPass (f : S → Except PErr S) (a b tol : S) (cap iter : Nat) (T : Table S) : Pass S :=
  -- `2_u32.pow(iter as u32)` panics on overflow
  if 32 ≤ iter then .done .panic
  else
    match trapezoid f a b (2 ^ iter) with
    | .error e => .done (.err (.functionError e))
    | .ok t =>
      match T.set? (iter + 1) 1 t with
      | none => .done .panic
      | some T1 =>
        match rombergRow iter iter 2 T1 with
        | none => .done .panic
        | some T2 => rombergStop tol cap iter T2

/-- the `loop { … }` of `romberg_definite`; `iter0` is `iter` on entry, `cap` the clamped `maxiter`,
`fuel` the recursion bound: it starts at `cap` and cannot run out before `iter ≥ cap` breaks the loop
(`SV.C05.rombergLoop_fuel`), so the `fuel = 0` answer is never produced. -/
def rombergLoop (f : S → Except PErr S) (a b tol : S) (cap : Nat) :
    Nat → Nat → Table S → Outcome IErr S
  | fuel, iter0, T =>
    match rombergPass f a b tol cap (iter0 + 1) T with
    | .done o => o
    | .more T' =>
      match fuel with
      | 0 => .err .maxIterationsReached
      | fuel + 1 => rombergLoop f a b tol cap fuel (iter0 + 1) T'

/-- `romberg_definite` with a `dim × dim` table -/
def romberg (dim : Nat) (f : S → Except PErr S) (a b : S) (maxiter : Nat) (tol : S) :
    Outcome IErr S :=
  -- `romberg_table.len() - 2` on `usize`
  if dim < 2 then .panic
  else
    let cap := min maxiter (dim - 2)
    match trapezoid f a b 1 with
    | .error e => .err (.functionError e)
    | .ok t =>
      match (Table.zeros dim : Table S).set? 1 1 t with
      | none => .panic
      | some T => rombergLoop f a b tol cap cap 0 T

end model

section poly
variable {S : Type} [Add S] [Sub S] [Mul S] [Div S] [Neg S] [OfNat S 0] [OfNat S 1] [NatCast S]
  [LT S] [DecidableRel (α := S) (· < ·)] [LE S] [DecidableRel (α := S) (· ≤ ·)]

/-- `definite_integral(&poly, start, end, segments)` for either polynomial type -/
def definiteIntegralP (powf : S → S → S) (p : AnyPoly S) (a b : S) (n : Nat) : Except IErr S :=
  definiteIntegral (p.evalUni powf) a b n

/-- `romberg_definite(&poly, start, end, maxiter, tolerance)`; the table dimension is the one the
source declares now (`SV.Gen.rombergTableDim`, regenerated from the source by every run of the check) -/
def rombergP (powf : S → S → S) (p : AnyPoly S) (a b : S) (maxiter : Nat) (tol : S) :
    Outcome IErr S :=
  romberg SV.Gen.rombergTableDim (p.evalUni powf) a b maxiter tol

end poly

end SV.C05

/-! ### driver

    simpson <poly> <a> <b> <n>           → ok f… | err FunctionError <Kind>
    romberg <poly> <a> <b> <cap> <tol>   → ok f… | err MaxIterationsReached | err FunctionError <Kind> | panic
-/
namespace SV.C05.Driver
open SV SV.Wire SV.Poly SV.PolyWire SV.C05

def fmtIErr : IErr → String
  | .maxIterationsReached => "err MaxIterationsReached"
  | .functionError e => "err FunctionError " ++ e.kind

def handleCmd (cmd : String) : P String :=
  match cmd with
  | "simpson" => do
    let p ← anypoly float; let a ← float; let b ← float; let n ← nat
    return match definiteIntegralP Float.pow p a b n with
      | .ok v => "ok " ++ fmtF v
      | .error e => fmtIErr e
  | "romberg" => do
    let p ← anypoly float; let a ← float; let b ← float; let cap ← nat; let tol ← float
    return match rombergP Float.pow p a b cap tol with
      | .ok v => "ok " ++ fmtF v
      | .err e => fmtIErr e
      | .panic => "panic"
  | _ => fail

def handle (line : String) : String :=
  match run (do let cmd ← tok; handleCmd cmd) line with
  | some s => s
  | none => "bad-request"

end SV.C05.Driver
