import Mathlib.Algebra.BigOperators.Ring.Finset
import Mathlib.Algebra.BigOperators.Field
import Mathlib.Algebra.Order.BigOperators.Group.Finset
import Mathlib.Algebra.Order.Field.Basic
import Mathlib.Data.Real.Basic
import Mathlib.Tactic.Ring
import Mathlib.Tactic.FieldSimp
import Mathlib.Tactic.Linarith
import Mathlib.Tactic.NormNum
import Mathlib.Tactic.Positivity
/-!
# C13 accuracy, layer 1 — the Rayleigh-quotient sequence of the power method (pure real analysis)

No matrices here.  `s` is the finite set of *non-dominant* spectral indices, `w a ≥ 0` the squared
coefficient of the start vector on eigenvector `a`, `r a = d a / d₁` the eigenvalue ratio
(`|r a| ≤ 1/2`), `w₁ > 0` the squared coefficient on the dominant eigenvector.  After `k`
multiplications the (scale-free) Rayleigh quotient of the iterate, in units of `d₁`, is

  `rho k = (w₁ + V k) / (w₁ + U k)`,  `U k = Σ_{a∈s} w a · r a ^ (2k)`,  `V k = Σ_{a∈s} w a · r a ^ (2k+1)`

and `eps k = 1 - rho k = Nn k / (w₁ + U k) ≥ 0` is the relative eigenvalue error.  Proved:

* `eps_nonneg`, `eps_le_pow`          a-priori:  `0 ≤ eps k ≤ (3/2)·τ / 4^k` when `U 0 ≤ τ·w₁`
* `eps_succ_le_half`                  contraction `eps (k+1) ≤ eps k / 2` for `k ≥ 2` (`τ ≤ 16`)
* `rho_pos`, `rho_le_one`, `rho_ge`   `1/4 ≤ rho k ≤ 1` for `k ≥ 2`
* `aposteriori`                       a stopping test `|(rho (k+1) - rho k) / rho (k+1)| < tol`
                                      passed at `k ≥ 2` forces `eps (k+1) < tol · rho (k+1) ≤ tol`
* `apriori_stop`                      the test is passed for every `k ≥ 24` and `tol ≥ 1e-12`
* `resid_le`                          the squared relative residual
                                      `(w₁ + U (k+1)) / (w₁ + U k) - rho k ^ 2 ≤ (3/2)·eps k`
-/

set_option linter.unusedSectionVars false

namespace SV.C13.Acc
open Finset

section sums
variable {ι : Type} (s : Finset ι) (w r : ι → ℝ)

/-- `Σ_{a∈s} w a · r a ^ (2k)` -/
def U (k : ℕ) : ℝ := ∑ a ∈ s, w a * r a ^ (2 * k)
/-- `Σ_{a∈s} w a · r a ^ (2k+1)` -/
def V (k : ℕ) : ℝ := ∑ a ∈ s, w a * r a ^ (2 * k + 1)
/-- `Σ_{a∈s} w a · r a ^ (2k) · (1 - r a)` -/
def Nn (k : ℕ) : ℝ := ∑ a ∈ s, w a * r a ^ (2 * k) * (1 - r a)
/-- `Σ_{a∈s} w a · r a ^ (2k) · (1 - r a)²` -/
def Q2 (k : ℕ) : ℝ := ∑ a ∈ s, w a * r a ^ (2 * k) * (1 - r a) ^ 2

theorem Nn_eq (k : ℕ) : Nn s w r k = U s w r k - V s w r k := by
  unfold Nn U V
  rw [← Finset.sum_sub_distrib]
  apply Finset.sum_congr rfl
  intro a _
  ring

theorem Q2_eq (k : ℕ) : Q2 s w r k = U s w r k - 2 * V s w r k + U s w r (k + 1) := by
  unfold Q2 U V
  rw [Finset.mul_sum, ← Finset.sum_sub_distrib, ← Finset.sum_add_distrib]
  apply Finset.sum_congr rfl
  intro a _
  ring

variable (hw : ∀ a ∈ s, 0 ≤ w a) (hr : ∀ a ∈ s, |r a| ≤ 1 / 2)
include hw hr

theorem term_nonneg (k : ℕ) (a : ι) (ha : a ∈ s) : 0 ≤ w a * r a ^ (2 * k) := by
  have : 0 ≤ r a ^ (2 * k) := by rw [pow_mul]; positivity
  exact mul_nonneg (hw a ha) this

theorem U_nonneg (k : ℕ) : 0 ≤ U s w r k :=
  Finset.sum_nonneg fun a ha => term_nonneg s w r hw hr k a ha

theorem U_succ_le (k : ℕ) : U s w r (k + 1) ≤ U s w r k / 4 := by
  unfold U
  rw [Finset.sum_div]
  apply Finset.sum_le_sum
  intro a ha
  have ht := term_nonneg s w r hw hr k a ha
  obtain ⟨h1, h2⟩ := abs_le.mp (hr a ha)
  have hsq : r a ^ 2 ≤ 1 / 4 := by nlinarith
  have e : w a * r a ^ (2 * (k + 1)) = w a * r a ^ (2 * k) * r a ^ 2 := by ring
  rw [e]
  nlinarith

theorem U_le_pow (k : ℕ) : U s w r k ≤ U s w r 0 / 4 ^ k := by
  induction k with
  | zero => simp
  | succ k ih =>
    have h := U_succ_le s w r hw hr k
    have e : U s w r 0 / 4 ^ (k + 1) = U s w r 0 / 4 ^ k / 4 := by
      rw [pow_succ, div_div]
    rw [e]
    linarith

theorem Nn_lower (k : ℕ) : U s w r k / 2 ≤ Nn s w r k := by
  unfold U Nn
  rw [Finset.sum_div]
  apply Finset.sum_le_sum
  intro a ha
  have ht := term_nonneg s w r hw hr k a ha
  obtain ⟨h1, h2⟩ := abs_le.mp (hr a ha)
  nlinarith

theorem Nn_upper (k : ℕ) : Nn s w r k ≤ 3 / 2 * U s w r k := by
  unfold U Nn
  rw [Finset.mul_sum]
  apply Finset.sum_le_sum
  intro a ha
  have ht := term_nonneg s w r hw hr k a ha
  obtain ⟨h1, h2⟩ := abs_le.mp (hr a ha)
  nlinarith

theorem Nn_nonneg (k : ℕ) : 0 ≤ Nn s w r k := by
  have := Nn_lower s w r hw hr k
  have := U_nonneg s w r hw hr k
  linarith

theorem Nn_succ_le (k : ℕ) : Nn s w r (k + 1) ≤ Nn s w r k / 4 := by
  unfold Nn
  rw [Finset.sum_div]
  apply Finset.sum_le_sum
  intro a ha
  have ht := term_nonneg s w r hw hr k a ha
  obtain ⟨h1, h2⟩ := abs_le.mp (hr a ha)
  have hsq : r a ^ 2 ≤ 1 / 4 := by nlinarith
  have h0 : 0 ≤ w a * r a ^ (2 * k) * (1 - r a) := mul_nonneg ht (by linarith)
  have e : w a * r a ^ (2 * (k + 1)) * (1 - r a)
      = w a * r a ^ (2 * k) * (1 - r a) * r a ^ 2 := by ring
  rw [e]
  nlinarith

theorem Q2_le (k : ℕ) : Q2 s w r k ≤ 3 / 2 * Nn s w r k := by
  unfold Q2 Nn
  rw [Finset.mul_sum]
  apply Finset.sum_le_sum
  intro a ha
  have ht := term_nonneg s w r hw hr k a ha
  obtain ⟨h1, h2⟩ := abs_le.mp (hr a ha)
  have h0 : 0 ≤ w a * r a ^ (2 * k) * (1 - r a) := mul_nonneg ht (by linarith)
  have e : w a * r a ^ (2 * k) * (1 - r a) ^ 2
      = w a * r a ^ (2 * k) * (1 - r a) * (1 - r a) := by ring
  rw [e]
  nlinarith

theorem Q2_nonneg (k : ℕ) : 0 ≤ Q2 s w r k :=
  Finset.sum_nonneg fun a ha => mul_nonneg (term_nonneg s w r hw hr k a ha) (sq_nonneg _)

end sums

section quotients
variable {ι : Type} (s : Finset ι) (w r : ι → ℝ) (w₁ : ℝ)

/-- the Rayleigh quotient after `k` multiplications, in units of the dominant eigenvalue -/
noncomputable def rho (k : ℕ) : ℝ := (w₁ + V s w r k) / (w₁ + U s w r k)
/-- the relative eigenvalue error `1 - rho k` -/
noncomputable def eps (k : ℕ) : ℝ := Nn s w r k / (w₁ + U s w r k)

variable (hw : ∀ a ∈ s, 0 ≤ w a) (hr : ∀ a ∈ s, |r a| ≤ 1 / 2) (h₁ : 0 < w₁)
include hw hr h₁

theorem den_pos (k : ℕ) : 0 < w₁ + U s w r k := by
  have := U_nonneg s w r hw hr k
  linarith

theorem rho_eq (k : ℕ) : rho s w r w₁ k = 1 - eps s w r w₁ k := by
  have hd := den_pos s w r w₁ hw hr h₁ k
  unfold rho eps
  rw [Nn_eq]
  field_simp
  ring

theorem eps_nonneg (k : ℕ) : 0 ≤ eps s w r w₁ k :=
  div_nonneg (Nn_nonneg s w r hw hr k) (le_of_lt (den_pos s w r w₁ hw hr h₁ k))

theorem rho_le_one (k : ℕ) : rho s w r w₁ k ≤ 1 := by
  rw [rho_eq s w r w₁ hw hr h₁]
  have := eps_nonneg s w r w₁ hw hr h₁ k
  linarith

/-- `eps k ≤ (3/2)·U k / w₁` -/
theorem eps_le_U (k : ℕ) : eps s w r w₁ k ≤ 3 / 2 * U s w r k / w₁ := by
  have hd := den_pos s w r w₁ hw hr h₁ k
  have hU := U_nonneg s w r hw hr k
  have hN := Nn_upper s w r hw hr k
  unfold eps
  rw [div_le_div_iff₀ hd h₁]
  nlinarith [Nn_nonneg s w r hw hr k]

/-- **a-priori bound**: `eps k ≤ (3/2)·τ / 4^k` -/
theorem eps_le_pow (τ : ℝ) (hτ : U s w r 0 ≤ τ * w₁) (k : ℕ) :
    eps s w r w₁ k ≤ 3 / 2 * τ / 4 ^ k := by
  have h1 := eps_le_U s w r w₁ hw hr h₁ k
  have h2 := U_le_pow s w r hw hr k
  have h4 : (0 : ℝ) < 4 ^ k := by positivity
  have h3 : U s w r k ≤ τ * w₁ / 4 ^ k := le_trans h2 (div_le_div_of_nonneg_right hτ (le_of_lt h4))
  calc eps s w r w₁ k ≤ 3 / 2 * U s w r k / w₁ := h1
    _ ≤ 3 / 2 * (τ * w₁ / 4 ^ k) / w₁ := by
        apply div_le_div_of_nonneg_right _ (le_of_lt h₁)
        linarith
    _ = 3 / 2 * τ / 4 ^ k := by field_simp

/-- for `k ≥ 2` the non-dominant mass is at most the dominant one (`τ ≤ 16`) -/
theorem U_le_w₁ (hτ : U s w r 0 ≤ 16 * w₁) (k : ℕ) (hk : 2 ≤ k) : U s w r k ≤ w₁ := by
  obtain ⟨j, rfl⟩ : ∃ j, k = j + 2 := ⟨k - 2, by omega⟩
  have h1 := U_le_pow s w r hw hr j
  have h2 := U_succ_le s w r hw hr j
  have h3 := U_succ_le s w r hw hr (j + 1)
  have h4 : (1 : ℝ) ≤ 4 ^ j := one_le_pow₀ (by norm_num)
  have h0 : 0 ≤ U s w r 0 := U_nonneg s w r hw hr 0
  have h5 : U s w r 0 / 4 ^ j ≤ U s w r 0 := div_le_self h0 h4
  linarith

/-- one-step contraction of the error: `eps (k+1) ≤ eps k · (w₁ + U k) / (4 w₁)` -/
theorem eps_succ_le (k : ℕ) :
    eps s w r w₁ (k + 1) ≤ eps s w r w₁ k * ((w₁ + U s w r k) / (4 * w₁)) := by
  have hd := den_pos s w r w₁ hw hr h₁ k
  have hd' := den_pos s w r w₁ hw hr h₁ (k + 1)
  have hU' := U_nonneg s w r hw hr (k + 1)
  have hN := Nn_succ_le s w r hw hr k
  have hN0 := Nn_nonneg s w r hw hr (k + 1)
  have e : eps s w r w₁ k * ((w₁ + U s w r k) / (4 * w₁)) = Nn s w r k / 4 / w₁ := by
    unfold eps
    field_simp
  rw [e]
  unfold eps
  calc Nn s w r (k + 1) / (w₁ + U s w r (k + 1)) ≤ Nn s w r (k + 1) / w₁ :=
        div_le_div_of_nonneg_left hN0 h₁ (by linarith)
    _ ≤ Nn s w r k / 4 / w₁ := div_le_div_of_nonneg_right hN (le_of_lt h₁)

/-- **contraction**: from the second multiplication on the error at least halves -/
theorem eps_succ_le_half (hτ : U s w r 0 ≤ 16 * w₁) (k : ℕ) (hk : 2 ≤ k) :
    eps s w r w₁ (k + 1) ≤ eps s w r w₁ k / 2 := by
  have h1 := eps_succ_le s w r w₁ hw hr h₁ k
  have h2 := U_le_w₁ s w r w₁ hw hr h₁ hτ k hk
  have h3 := eps_nonneg s w r w₁ hw hr h₁ k
  have h4 : (w₁ + U s w r k) / (4 * w₁) ≤ 1 / 2 := by
    rw [div_le_div_iff₀ (by linarith) (by norm_num)]
    linarith
  nlinarith

/-- `rho k ≥ 1/4` for `k ≥ 2` -/
theorem rho_ge (hτ : U s w r 0 ≤ 16 * w₁) (k : ℕ) (hk : 2 ≤ k) :
    1 / 4 ≤ rho s w r w₁ k := by
  have hd := den_pos s w r w₁ hw hr h₁ k
  have h2 := U_le_w₁ s w r w₁ hw hr h₁ hτ k hk
  have hU := U_nonneg s w r hw hr k
  have hN := Nn_upper s w r hw hr k
  rw [Nn_eq] at hN
  unfold rho
  rw [div_le_div_iff₀ (by norm_num) hd]
  linarith

theorem rho_pos (hτ : U s w r 0 ≤ 16 * w₁) (k : ℕ) (hk : 2 ≤ k) : 0 < rho s w r w₁ k := by
  have := rho_ge s w r w₁ hw hr h₁ hτ k hk
  linarith

/-- the relative change of two consecutive quotients, written with the errors -/
theorem change_eq (hτ : U s w r 0 ≤ 16 * w₁) (k : ℕ) (hk : 2 ≤ k) :
    |(rho s w r w₁ (k + 1) - rho s w r w₁ k) / rho s w r w₁ (k + 1)|
      = (eps s w r w₁ k - eps s w r w₁ (k + 1)) / rho s w r w₁ (k + 1) := by
  have hp := rho_pos s w r w₁ hw hr h₁ hτ (k + 1) (by omega)
  have hh := eps_succ_le_half s w r w₁ hw hr h₁ hτ k hk
  have h0 := eps_nonneg s w r w₁ hw hr h₁ k
  have e : rho s w r w₁ (k + 1) - rho s w r w₁ k = eps s w r w₁ k - eps s w r w₁ (k + 1) := by
    rw [rho_eq s w r w₁ hw hr h₁, rho_eq s w r w₁ hw hr h₁]
    ring
  rw [e, abs_of_nonneg]
  exact div_nonneg (by linarith) (le_of_lt hp)

/-- **a-posteriori bound**: a stopping test passed after at least three multiplications bounds the
error of the *new* quotient by the tolerance (constant 1) -/
theorem aposteriori (hτ : U s w r 0 ≤ 16 * w₁) (k : ℕ) (hk : 2 ≤ k) (tol : ℝ)
    (h : |(rho s w r w₁ (k + 1) - rho s w r w₁ k) / rho s w r w₁ (k + 1)| < tol) :
    eps s w r w₁ (k + 1) < tol * rho s w r w₁ (k + 1) := by
  have hp := rho_pos s w r w₁ hw hr h₁ hτ (k + 1) (by omega)
  have hh := eps_succ_le_half s w r w₁ hw hr h₁ hτ k hk
  rw [change_eq s w r w₁ hw hr h₁ hτ k hk, div_lt_iff₀ hp] at h
  linarith

/-- **a-priori stop**: after 25 multiplications every tolerance `≥ 1e-12` is met -/
theorem apriori_stop (hτ : U s w r 0 ≤ 16 * w₁) (k : ℕ) (hk : 24 ≤ k) (tol : ℝ)
    (htol : 1 / 10 ^ 12 ≤ tol) :
    |(rho s w r w₁ (k + 1) - rho s w r w₁ k) / rho s w r w₁ (k + 1)| < tol := by
  have hp := rho_pos s w r w₁ hw hr h₁ hτ (k + 1) (by omega)
  have hg := rho_ge s w r w₁ hw hr h₁ hτ (k + 1) (by omega)
  have h0 := eps_nonneg s w r w₁ hw hr h₁ (k + 1)
  have hb := eps_le_pow s w r w₁ hw hr h₁ 16 hτ k
  rw [change_eq s w r w₁ hw hr h₁ hτ k (by omega), div_lt_iff₀ hp]
  have h4 : (4 : ℝ) ^ 24 ≤ 4 ^ k := pow_le_pow_right₀ (by norm_num) hk
  have h5 : (3 / 2 * 16 : ℝ) / 4 ^ k ≤ 3 / 2 * 16 / 4 ^ 24 :=
    div_le_div_of_nonneg_left (by norm_num) (by positivity) h4
  have h6 : (3 / 2 * 16 : ℝ) / 4 ^ 24 < 1 / 10 ^ 12 * (1 / 4) := by norm_num
  nlinarith

/-- **residual**: `S₂/S₀ - rho² ≤ (3/2)·eps` -/
theorem resid_le (k : ℕ) :
    (w₁ + U s w r (k + 1)) / (w₁ + U s w r k) - rho s w r w₁ k ^ 2
      ≤ 3 / 2 * eps s w r w₁ k := by
  have hd := den_pos s w r w₁ hw hr h₁ k
  have hq := Q2_le s w r hw hr k
  have e : (w₁ + U s w r (k + 1)) / (w₁ + U s w r k) - rho s w r w₁ k ^ 2
      = Q2 s w r k / (w₁ + U s w r k) - (1 - rho s w r w₁ k) ^ 2 := by
    rw [Q2_eq]
    unfold rho
    field_simp
    ring
  rw [e]
  have h1 : Q2 s w r k / (w₁ + U s w r k) ≤ 3 / 2 * eps s w r w₁ k := by
    unfold eps
    rw [← mul_div_assoc]
    exact div_le_div_of_nonneg_right hq (le_of_lt hd)
  nlinarith [sq_nonneg (1 - rho s w r w₁ k)]

/-- the squared relative residual is non-negative (Cauchy–Schwarz in disguise) — not needed for the
bound, recorded for completeness of the picture -/
theorem resid_ge (k : ℕ) : -(1 - rho s w r w₁ k) ^ 2 ≤
    (w₁ + U s w r (k + 1)) / (w₁ + U s w r k) - rho s w r w₁ k ^ 2 := by
  have hd := den_pos s w r w₁ hw hr h₁ k
  have hq := Q2_nonneg s w r hw hr k
  have e : (w₁ + U s w r (k + 1)) / (w₁ + U s w r k) - rho s w r w₁ k ^ 2
      = Q2 s w r k / (w₁ + U s w r k) - (1 - rho s w r w₁ k) ^ 2 := by
    rw [Q2_eq]
    unfold rho
    field_simp
    ring
  rw [e]
  have : 0 ≤ Q2 s w r k / (w₁ + U s w r k) := div_nonneg hq (le_of_lt hd)
  linarith

end quotients
end SV.C13.Acc
