import SV.Lemmas.C02Agree
import SV.Lemmas.C02AgreeInv
import Mathlib.Analysis.SpecialFunctions.Pow.Real
/-!
# C02 (companion) — the univariate and the multivariate representation denote the same function

Clause of C02: *"On the common univariate sub-language the univariate and multivariate
representations denote the same function, and evaluating with a missing variable is an error rather
than a number."*  Property theorems only; about the same models as `SV.Props.C01` / `SV.Props.C02`:
`C01.parse` (`parse_simple_polynomial`), `C02.parse` (`parse_intermediate_polynomial`),
`Poly.evalSimple` (`eval_simple_polynomial`), `Poly.evalTerms` (`eval_intermediate_polynomial`) and
`Poly.evalUni` (`IntermediatePolynomial::eval_univariate`).

**The common language.**  The univariate grammar of `SV.Lemmas.C01` —

    polynomial ::= [+|-] term { (+|-) term }          term ::= udec | [udec] v [ '^' digits ]
    udec ::= digits | digits '.' | '.' digits | digits '.' digits        (digits ≤ MAX_POWER after '^')

with an ASCII letter as `v`, in any spacing — *is* the whole common language, not a convenient part of
it: `both_accept_is_common` shows that every text accepted by both parser models has this form.
Coefficient forms `a/b`, and exponents that are negative, fractional or decimal, belong to the
multivariate grammar only (`C01.parse` answers `InvalidCoefficient` / `InvalidExponent`: see the
examples at the end), and a non-ASCII variable letter belongs to the univariate grammar only.

**Numbers.**  Both models return `Text.Num` expressions (decimal literals and the `f64` operations
performed on them).  `numK K` (in `SV.Lemmas.C02Agree`) reads such an expression in a field `K` with
the field's own operations; `instPoly K` applies it to a parsed multivariate polynomial.  The power
function of the sparse evaluation is a parameter `powf`, as in `SV.Props.C02.eval_eq_sum_prod`; the only
fact used is that it is the natural-number power on natural exponents (`powf x n = x ^ n`), which
holds for the real power function (`rpow_is_pow`) — this is why `K` has characteristic 0: in
characteristic `p` the exponent `p` would not be told from `0`.
-/
namespace SV.Props.C02Agree
open SV SV.Text SV.Poly SV.C02Agree

variable {K : Type} [Field K] [CharZero K]

/-! ### vocabulary: one text, two grammars -/

/-- A term list of the univariate grammar with an ASCII letter `v`, translated term by term into the
multivariate grammar (`tr v`: same sign, same coefficient spelling, factor list `[]`, `[v]` or
`[v^digits]`), is well formed there and renders to **the same text**.  So `SV.Props.C01.parse_render`
and `SV.Props.C02.parse_render_inter` speak about the same strings. -/
theorem same_text {cap : Nat} {v : Char} (hv : isAsciiLetter v = true) (lead : Bool)
    {ts : List C01.TermSyn} (hwf : C01.WellFormed cap ts) :
    (∀ u ∈ ts.map (tr v), u.WF) ∧ C02.render lead (ts.map (tr v)) = C01.render v lead ts :=
  ⟨tr_wf_all hv hwf, render_tr v lead ts⟩

/-- … and the same meaning: the signed coefficient value, and the letter with the power written
(no variable at all for a constant term). -/
theorem same_meaning (v : Char) (t : C01.TermSyn) :
    (tr v t).sem =
      (t.value, if t.body.writesVar then [(String.singleton v, (t.pow : ℚ))] else []) :=
  sem_tr v t

/-- In characteristic 0 the field reading of a parsed number is the image of its exact rational
value — the value `SV.Props.C01.parse_render` and `SV.Props.C02.parse_render_inter` speak about (the two
files' value functions `Num.val` and `C02.numVal` are the same function). -/
theorem numK_spec (n : Num) : numK K n = ((n.val : ℚ) : K) ∧ C02.numVal n = n.val :=
  ⟨numK_eq_cast n, numVal_eq_val n⟩

/-- The driver's character classes satisfy every hypothesis the theorems below put on `cc`; and its
alphabetic class contains the ASCII letters. -/
theorem std_class_ok :
    stdClass.Sane ∧ C02.Sane stdClass ∧ stdClass.isAlpha '/' = false ∧
      ∀ c, isAsciiLetter c = true → stdClass.isAlpha c = true :=
  ⟨stdClass_sane, C02.stdClass_sane, by decide, fun c hc => by simp [stdClass, hc]⟩

/-- The real power function (the exact counterpart of `f64::powf`) is the natural-number power on
natural exponents — for every base, also negative ones and 0: the hypothesis `hpow` of the theorems
below is satisfied by the intended power function. -/
theorem rpow_is_pow (x : ℝ) (n : ℕ) : Real.rpow x (n : ℝ) = x ^ n := Real.rpow_natCast x n

/-! ### agreement on the grammar -/

/-- **The two representations denote the same function on the common language.**

For every well-formed term list `ts` of the univariate grammar (any number and order of terms,
repeated powers, optional leading sign, implicit coefficients, coefficient spellings `n`, `n.`, `n.d`,
`.d`, exponents `digits ≤ cap` with leading zeros allowed, constant terms), every ASCII letter `v` and
every text `s` whose non-white-space characters are the rendering of `ts` (so: every spacing):

* `parse_simple_polynomial` accepts `s` (result `p1`) and `parse_intermediate_polynomial` accepts `s`
  (result `p2`);
* the variable information agrees: `p1.var` is `v` and `p2.variables` is `[v]` when some term writes
  the variable, and `none` / `[]` for a constant polynomial — in particular `p2.variables ⊆ [v]`;
* for every field `K` of characteristic 0, every `powf` that is `x ^ n` on natural exponents and
  every point `x : K`: `eval_univariate` of the multivariate polynomial, and
  `eval_intermediate_polynomial` under the binding `v ↦ x`, return **exactly the number**
  `eval_simple_polynomial` computes from the dense coefficient vector — and that number is
  `Σ_t value(t) · x ^ pow(t)` over the terms as written. -/
theorem agree_on_common_language (powf : K → K → K)
    (hpow : ∀ (x : K) (n : ℕ), powf x (n : K) = x ^ n)
    {cc : CharClass} (h1 : cc.Sane) (h2 : C02.Sane cc) (cap : Nat) {v : Char}
    (hv : isAsciiLetter v = true) (hva : cc.isAlpha v = true) (lead : Bool)
    {ts : List C01.TermSyn} (hwf : C01.WellFormed cap ts)
    {s : List Char} (hs : stripWs cc s = C01.render v lead ts) :
    ∃ p1 p2, C01.parse cc cap s = .ok p1 ∧ C02.parse cc s = .ok p2 ∧
      p1.var = (if C01.writesVar ts then some v else none) ∧
      p2.variables = (if C01.writesVar ts then [String.singleton v] else []) ∧
      ∀ x : K,
        evalUni powf (instPoly K p2) x = .ok (evalSimple (p1.coeffs.map (numK K)) x) ∧
        evalTerms powf (instPoly K p2).terms [(String.singleton v, x)] =
          .ok (evalSimple (p1.coeffs.map (numK K)) x) ∧
        evalSimple (p1.coeffs.map (numK K)) x =
          (ts.map fun t => ((t.value : ℚ) : K) * x ^ t.pow).sum := by
  obtain ⟨p1, p2, hp1, hp2, hvar, hvars, hx⟩ :=
    agree_core powf hpow h1 h2 cap hv lead hwf (fun _ => hva) hs
  refine ⟨p1, p2, hp1, hp2, hvar, hvars, fun x => ?_⟩
  obtain ⟨e1, e2, e3⟩ := hx x
  exact ⟨by rw [e3, e1], by rw [e2, e1], e1⟩

/-- The same for the driver's character classes (the configuration K validates against the Rust
parsers), over the reals with the real power function. -/
theorem agree_on_common_language_real (cap : Nat) {v : Char} (hv : isAsciiLetter v = true)
    (lead : Bool) {ts : List C01.TermSyn} (hwf : C01.WellFormed cap ts)
    {s : List Char} (hs : stripWs stdClass s = C01.render v lead ts) :
    ∃ p1 p2, C01.parse stdClass cap s = .ok p1 ∧ C02.parse stdClass s = .ok p2 ∧
      ∀ x : ℝ, evalUni Real.rpow (instPoly ℝ p2) x = .ok (evalSimple (p1.coeffs.map (numK ℝ)) x) := by
  obtain ⟨p1, p2, hp1, hp2, _, _, hx⟩ := agree_on_common_language Real.rpow rpow_is_pow
    std_class_ok.1 std_class_ok.2.1 cap hv (std_class_ok.2.2.2 v hv) lead hwf hs
  exact ⟨p1, p2, hp1, hp2, fun x => (hx x).1⟩

/-! ### agreement without a grammar: every text both parsers accept -/

/-- **The common language is exactly the grammar above**: a text accepted by both parser models is
(a spacing of) the univariate rendering of a well-formed term list with an ASCII variable letter.
(`hslash`: `/` is not alphabetic — true of `char::is_alphabetic`, not listed in either `Sane`.) -/
theorem both_accept_is_common {cc : CharClass} (h1 : cc.Sane) (hslash : cc.isAlpha '/' = false)
    {cap : Nat} {s : List Char} {p1 : C01.SParsed} {p2 : C02.IParsed}
    (hp1 : C01.parse cc cap s = .ok p1) (hp2 : C02.parse cc s = .ok p2) :
    ∃ (v : Char) (lead : Bool) (ts : List C01.TermSyn), isAsciiLetter v = true ∧
      (C01.writesVar ts = true → cc.isAlpha v = true) ∧ C01.WellFormed cap ts ∧
      stripWs cc s = C01.render v lead ts :=
  common_of_both_ok h1 hslash hp1 hp2

/-- **Agreement at full strength: for every text whatsoever.**  Whenever the univariate parser and the
multivariate parser both accept a text `s`, the two results name the same variable (none for a
constant polynomial, so `eval_univariate` applies) and, at every point `x` of every field of
characteristic 0, `eval_univariate` of the multivariate result returns exactly the value
`eval_simple_polynomial` computes from the univariate result. -/
theorem agree_of_both_accept (powf : K → K → K)
    (hpow : ∀ (x : K) (n : ℕ), powf x (n : K) = x ^ n)
    {cc : CharClass} (h1 : cc.Sane) (h2 : C02.Sane cc) (hslash : cc.isAlpha '/' = false)
    {cap : Nat} {s : List Char} {p1 : C01.SParsed} {p2 : C02.IParsed}
    (hp1 : C01.parse cc cap s = .ok p1) (hp2 : C02.parse cc s = .ok p2) :
    (p2.variables = match p1.var with | some v => [String.singleton v] | none => []) ∧
      ∀ x : K, evalUni powf (instPoly K p2) x = .ok (evalSimple (p1.coeffs.map (numK K)) x) := by
  obtain ⟨v, lead, ts, hv, hva, hwf, hs⟩ := common_of_both_ok h1 hslash hp1 hp2
  obtain ⟨q1, q2, hq1, hq2, hvar, hvars, hx⟩ := agree_core powf hpow h1 h2 cap hv lead hwf hva hs
  rw [hp1] at hq1
  rw [hp2] at hq2
  cases hq1
  cases hq2
  refine ⟨?_, fun x => ?_⟩
  · rw [hvar, hvars]
    cases C01.writesVar ts <;> rfl
  · obtain ⟨e1, _, e3⟩ := hx x
    rw [e3, e1]

/-! ### a missing variable is an error, not a number -/

/-- **Evaluating with the variable missing is an error rather than a number** (re-using
`SV.Props.C02.eval_missing_is_error`): if both parsers accept `s` and the univariate result has the
variable `v`, then `eval_intermediate_polynomial` of the multivariate result under any assignment
that does not bind `v` — the empty one, for instance — answers `VariableNotFound` of an unbound
name, whereas the univariate evaluation of the same text is always a number. -/
theorem missing_variable_is_error (powf : K → K → K)
    (hpow : ∀ (x : K) (n : ℕ), powf x (n : K) = x ^ n)
    {cc : CharClass} (h1 : cc.Sane) (h2 : C02.Sane cc) (hslash : cc.isAlpha '/' = false)
    {cap : Nat} {s : List Char} {p1 : C01.SParsed} {p2 : C02.IParsed}
    (hp1 : C01.parse cc cap s = .ok p1) (hp2 : C02.parse cc s = .ok p2)
    {v : Char} (hvar : p1.var = some v) (σ : List (String × K))
    (hσ : lookup σ (String.singleton v) = none) :
    ∃ name, evalTerms powf (instPoly K p2).terms σ = .error (.variableNotFound name) ∧
      lookup σ name = none := by
  have hvars := (agree_of_both_accept powf hpow h1 h2 hslash hp1 hp2).1
  rw [hvar] at hvars
  have hin : String.singleton v ∈ p2.variables := by rw [hvars]; simp
  obtain ⟨t, ht, p, hp, hname⟩ := ((SV.Props.C02.parse_canonical cc s p2 hp2).2.2.2 _).1 hin
  apply SV.Props.C02.eval_missing_is_error
  refine ⟨instTerm K t, List.mem_map.2 ⟨t, ht, rfl⟩, (p.1, numK K p.2), ?_, ?_⟩
  · exact List.mem_map.2 ⟨p, hp, rfl⟩
  · simp only [hname]
    exact hσ

/-! ### non-vacuity -/

/-- a power function on `ℚ` that is the natural power on natural exponents (anything elsewhere) -/
private def qpow (x e : ℚ) : ℚ := x ^ e.num.toNat

private theorem qpow_nat (x : ℚ) (n : ℕ) : qpow x (n : ℚ) = x ^ n := by simp [qpow]

/-- the term list of `"3x^2 - .5x + 4"` -/
private def exTerms : List C01.TermSyn :=
  [⟨false, some ⟨['3'], [], false⟩, .varPow ['2']⟩,
   ⟨true, some ⟨[], ['5'], true⟩, .var⟩,
   ⟨false, some ⟨['4'], [], false⟩, .const⟩]

/-- the hypotheses of `agree_on_common_language` are satisfiable: this text is a spacing of a
well-formed rendering with the ASCII letter `x` … -/
example : C01.WellFormed 65536 exTerms ∧ isAsciiLetter 'x' = true ∧ stdClass.isAlpha 'x' = true ∧
    stripWs stdClass "3x^2 - .5x + 4".toList = C01.render 'x' false exTerms :=
  ⟨C01.wellFormed_of_all (by decide), by decide, by decide, by decide⟩

/-- … both models accept it, as computed by the kernel: dense `[4, -.5, 3]` against the sparse
`3·x^2, -.5·x^1, 4` … -/
example :
    C01.parse stdClass 65536 "3x^2 - .5x + 4".toList =
      .ok ⟨[.add .zero (.dec ⟨false, 4, 0⟩), .add .zero (.dec ⟨true, 5, 1⟩),
            .add .zero (.dec ⟨false, 3, 0⟩)], some 'x'⟩ ∧
    (C02.parse stdClass "3x^2 - .5x + 4".toList).toOption.map
        (fun p => (p.terms.map fun t => (t.coef, t.vars), p.variables)) =
      some ([(.dec ⟨false, 3, 0⟩, [("x", .dec ⟨false, 2, 0⟩)]),
             (.dec ⟨true, 5, 1⟩, [("x", Num.one)]),
             (.dec ⟨false, 4, 0⟩, [])], ["x"]) :=
  ⟨rfl, by decide +kernel⟩

/-- … and the theorem gives: both evaluate to `3x² − x/2 + 4` at every rational point. -/
example : ∃ p1 p2, C01.parse stdClass 65536 "3x^2 - .5x + 4".toList = .ok p1 ∧
    C02.parse stdClass "3x^2 - .5x + 4".toList = .ok p2 ∧ p2.variables = ["x"] ∧
    ∀ x : ℚ, evalUni qpow (instPoly ℚ p2) x = .ok (evalSimple (p1.coeffs.map (numK ℚ)) x) ∧
      evalSimple (p1.coeffs.map (numK ℚ)) x = 3 * x ^ 2 - 1 / 2 * x + 4 := by
  obtain ⟨p1, p2, hp1, hp2, _, hvars, hx⟩ := agree_on_common_language qpow qpow_nat
    std_class_ok.1 std_class_ok.2.1 65536 (v := 'x') (by decide) (by decide) false
    (ts := exTerms) (C01.wellFormed_of_all (by decide)) (s := "3x^2 - .5x + 4".toList) (by decide)
  refine ⟨p1, p2, hp1, hp2, by rw [hvars]; rfl, fun x => ⟨(hx x).1, ?_⟩⟩
  rw [(hx x).2.2]
  have h3 : digitsVal (['3'] ++ []) = 3 := by decide
  have h5 : digitsVal ([] ++ ['5']) = 5 := by decide
  have h4 : digitsVal (['4'] ++ []) = 4 := by decide
  have h2 : digitsVal ['2'] = 2 := by decide
  simp only [exTerms, List.map_cons, List.map_nil, List.sum_cons, List.sum_nil, C01.TermSyn.value,
    C01.TermSyn.pow, C01.Body.pow, C01.coefValue, UDec.value, UDec.mant, h3, h5, h4, h2]
  norm_num
  ring

/-- the general theorem needs no grammar: the two `parse` equations are enough -/
example (p1 : C01.SParsed) (p2 : C02.IParsed)
    (hp1 : C01.parse stdClass 65536 " - y ^ 007 + 2.50y + y".toList = .ok p1)
    (hp2 : C02.parse stdClass " - y ^ 007 + 2.50y + y".toList = .ok p2) (x : ℝ) :
    evalUni Real.rpow (instPoly ℝ p2) x = .ok (evalSimple (p1.coeffs.map (numK ℝ)) x) :=
  (agree_of_both_accept Real.rpow rpow_is_pow std_class_ok.1 std_class_ok.2.1 std_class_ok.2.2.1
    hp1 hp2).2 x

/-- its hypotheses are satisfiable (both models accept that text) -/
example : (∃ p1, C01.parse stdClass 65536 " - y ^ 007 + 2.50y + y".toList = .ok p1) ∧
    (C02.parse stdClass " - y ^ 007 + 2.50y + y".toList).toOption.isSome = true :=
  ⟨⟨_, rfl⟩, by decide +kernel⟩

/-- outside the common language, fraction coefficient: `"3x^2 - 1/2x + 4"` is multivariate only -/
example : C01.parse stdClass 65536 "3x^2 - 1/2x + 4".toList = .error .invalidCoefficient ∧
    (C02.parse stdClass "3x^2 - 1/2x + 4".toList).toOption.isSome = true :=
  ⟨rfl, by decide +kernel⟩

/-- outside the common language, negative exponent: `"2x^-2"` is multivariate only -/
example : C01.parse stdClass 65536 "2x^-2".toList = .error .invalidExponent ∧
    (C02.parse stdClass "2x^-2".toList).toOption.isSome = true :=
  ⟨rfl, by decide +kernel⟩

/-- outside the common language, non-ASCII letter: `"2é^2"` is univariate only -/
example : (∃ p1, C01.parse stdClass 65536 "2é^2".toList = .ok p1) ∧
    C02.parse stdClass "2é^2".toList = .error .unexpectedChar :=
  ⟨⟨_, rfl⟩, rfl⟩

end SV.Props.C02Agree
