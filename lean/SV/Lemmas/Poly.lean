import SV.Model.Poly
import Mathlib.Algebra.Polynomial.Derivative
import Mathlib.Algebra.Polynomial.Eval.Defs
import Mathlib.Algebra.Field.Basic
import Mathlib.Tactic.Ring
/-!
Bridge between the dense coefficient lists of `SV.Model.Poly` and Mathlib's `Polynomial`:

* `powi_eq_zpow`   the square-and-multiply loop of `f64::powi` computes `x ^ n` (any field, `n : ℤ`)
* `evalSimple_eq`  the left-to-right fold of `eval_simple_polynomial` is `Polynomial.eval`
* `ofCoeffs_simpleDeriv`  `simple_derivative` is `Polynomial.derivative`
* `evalSimple_eq_sum`     … and equals `Σ_k c_k x^k`
-/
namespace SV.Poly
open Polynomial

section field
variable {K : Type} [Field K]

theorem powiLoop_eq (fuel : Nat) (a : K) (b : Nat) (r : K) (hb : 0 < b) (hf : b ≤ fuel) :
    powiLoop fuel a b r = r * a ^ b := by
  induction fuel generalizing a b r with
  | zero => omega
  | succ fuel ih =>
    unfold powiLoop
    simp only
    have hdecomp : b = 2 * (b / 2) + b % 2 := (Nat.div_add_mod b 2).symm
    by_cases h2 : b / 2 = 0
    · have hb1 : b = 1 := by omega
      subst hb1
      simp
    · rw [if_neg h2]
      have hlt : b / 2 ≤ fuel := by omega
      rw [ih (a * a) (b / 2) _ (by omega) hlt]
      by_cases hodd : b % 2 = 1
      · rw [if_pos hodd]
        conv_rhs => rw [hdecomp, hodd]
        rw [pow_add, pow_mul, pow_one, pow_two]; ring
      · rw [if_neg hodd]
        have : b % 2 = 0 := by omega
        conv_rhs => rw [hdecomp, this]
        rw [Nat.add_zero, pow_mul, pow_two]

theorem powiLoop_zero (fuel : Nat) (a r : K) (hf : 0 < fuel) : powiLoop fuel a 0 r = r := by
  cases fuel with
  | zero => omega
  | succ f => simp [powiLoop]

theorem powi_nat (x : K) (n : Nat) : powi x (n : Int) = x ^ n := by
  unfold powi
  simp only [Int.natAbs_natCast]
  have hneg : ¬ ((n : Int) < 0) := by omega
  rw [if_neg hneg]
  rcases Nat.eq_zero_or_pos n with h0 | hpos
  · subst h0; rw [powiLoop_zero _ _ _ (by omega)]; simp
  · rw [powiLoop_eq _ _ _ _ hpos (by omega)]; simp

theorem powi_eq_zpow (x : K) (n : Int) : powi x n = x ^ n := by
  rcases Int.eq_nat_or_neg n with ⟨m, rfl | rfl⟩
  · rw [powi_nat]; simp
  · rcases Nat.eq_zero_or_pos m with h0 | hpos
    · subst h0; simpa using powi_nat x 0
    · unfold powi
      have hneg : (-(m : Int)) < 0 := by omega
      rw [if_pos hneg]
      simp only [Int.natAbs_neg, Int.natAbs_natCast]
      rw [powiLoop_eq _ _ _ _ hpos (by omega)]
      simp [zpow_neg]

/-- dense coefficient list, index = power, as a Mathlib polynomial (offset `k`) -/
noncomputable def ofCoeffsFrom : ℕ → List K → K[X]
  | _, [] => 0
  | k, c :: cs => C c * X ^ k + ofCoeffsFrom (k + 1) cs

noncomputable def ofCoeffs (cs : List K) : K[X] := ofCoeffsFrom 0 cs

theorem evalSimpleFrom_eq (x : K) (k : ℕ) (cs : List K) (acc : K) :
    evalSimpleFrom x k cs acc = acc + (ofCoeffsFrom k cs).eval x := by
  induction cs generalizing k acc with
  | nil => simp [evalSimpleFrom, ofCoeffsFrom]
  | cons c cs ih =>
    simp only [evalSimpleFrom, ofCoeffsFrom, ih, powi_nat, eval_add, eval_mul, eval_C, eval_pow,
      eval_X]
    ring

/-- `eval_simple_polynomial` is polynomial evaluation -/
theorem evalSimple_eq (cs : List K) (x : K) : evalSimple cs x = (ofCoeffs cs).eval x := by
  simp [evalSimple, ofCoeffs, evalSimpleFrom_eq]

theorem derivFrom_correct (k : ℕ) (cs : List K) :
    ofCoeffsFrom k (derivFrom (k + 1) cs) = derivative (ofCoeffsFrom (k + 1) cs) := by
  induction cs generalizing k with
  | nil => simp [derivFrom, ofCoeffsFrom]
  | cons c cs ih =>
    simp only [derivFrom, ofCoeffsFrom, derivative_add, derivative_C_mul, derivative_X_pow, ih]
    simp only [Nat.add_sub_cancel, Nat.cast_add, Nat.cast_one, map_mul, map_add, map_natCast, map_one]
    ring

/-- `simple_derivative` is the formal derivative -/
theorem ofCoeffs_simpleDeriv (cs : List K) :
    ofCoeffs (simpleDeriv cs) = derivative (ofCoeffs cs) := by
  cases cs with
  | nil => simp [simpleDeriv, ofCoeffs, ofCoeffsFrom]
  | cons c cs =>
    simp only [simpleDeriv, ofCoeffs, ofCoeffsFrom, derivative_add, derivFrom_correct]
    simp

theorem integFrom_correct [CharZero K] (k : ℕ) (cs : List K) :
    derivative (ofCoeffsFrom (k + 1) (integFrom k cs)) = ofCoeffsFrom k cs := by
  induction cs generalizing k with
  | nil => simp [integFrom, ofCoeffsFrom]
  | cons c cs ih =>
    simp only [integFrom, ofCoeffsFrom, derivative_add, derivative_C_mul, derivative_X_pow, ih]
    simp only [Nat.add_sub_cancel, Nat.cast_add, Nat.cast_one]
    have hne : ((k : K) + 1) ≠ 0 := by exact_mod_cast Nat.succ_ne_zero k
    have : C (c / ((k : K) + 1)) * (C ((k : K) + 1) * X ^ k) = C c * X ^ k := by
      rw [← mul_assoc, ← C_mul, div_mul_cancel₀ _ hne]
    simp only [map_add, map_natCast, map_one] at this ⊢
    rw [this]

/-- differentiating `indefinite_integral_simple` gives the polynomial back (characteristic 0) -/
theorem derivative_ofCoeffs_simpleInteg [CharZero K] (cs : List K) :
    derivative (ofCoeffs (simpleInteg cs)) = ofCoeffs cs := by
  simp only [simpleInteg, ofCoeffs, ofCoeffsFrom, derivative_add]
  rw [integFrom_correct]
  simp

end field

end SV.Poly
