"""C01 plug-in: the model answers `parse` with exact decimal expressions (Text.Num); they are evaluated
in binary64 here and must equal the implementation's f64 results exactly.  The oracle compares the
implementation with the *intended* term list the text was rendered from (exact rationals)."""
from fractions import Fraction
from oracle_util import *

RULE = ("texts rendered from random term lists of the univariate grammar (1-12 terms, powers 0-40 with repeats, all decimal "
        "spellings, implicit coefficients, leading sign, exponents with leading zeros, 13 variable letters incl. non-ASCII, "
        "random Unicode white space between tokens) through both parse entry points; coefficient vectors evaluated through "
        "the three evaluation entry points; character-class table. Non-trivial = an accepted text with at least two terms, "
        "or an evaluation of a polynomial of degree >= 1; distinct = distinct request lines")

def compare(req, impl, model):
    from __main__ import default_compare
    r = req.split()
    if r[0] == "pe":
        return None  # composition of parse and eval: decided by the oracle
    if r[0] == "parse" and model.startswith("ok") and impl.startswith("ok"):
        ti, tm = impl.split(), model.split()
        if ti[:3] != tm[:3] or len(ti) != len(tm):
            return f"variable/length differ: impl {ti[:3]} model {tm[:3]}"
        for k, (x, y) in enumerate(zip(ti[3:], tm[3:])):
            if not same_float(tok_float(x), num_float(y)):
                return f"coefficient {k}: impl {tok_float(x)!r} model {num_float(y)!r} ({y})"
        return None
    return default_compare(req, impl, model)

def _intended(extra):
    n = int(extra[0]); dense = {}; absd = {}; cnt = {}
    for i in range(n):
        neg, mant, scale, pw = (int(v) for v in extra[1 + 4 * i: 5 + 4 * i])
        v = Fraction(mant, 10 ** scale)
        dense[pw] = dense.get(pw, 0) + (-v if neg else v)
        absd[pw] = absd.get(pw, 0) + v
        cnt[pw] = cnt.get(pw, 0) + 1
    return dense, absd, cnt

def oracle(req, impl):
    head, extra = split_req(req)
    cmd = head[0]
    if cmd in ("parse", "pe", "both") and not extra:
        return None  # no intended meaning attached (corpus lines of rejected texts): K only
    if cmd == "parse":
        dense, absd, cnt = _intended(extra)
        t = impl.split()
        if t[0] != "ok":
            return f"a string of the documented grammar was not accepted: {impl}"
        n = int(t[2]); cs = t[3:]
        if n != max(dense, default=0) + 1:
            return f"coefficient vector has length {n}, highest power is {max(dense, default=0)}"
        for k in range(n):
            got = tok_frac(cs[k])
            if got is None:
                return f"coefficient {k} is not finite"
            want = dense.get(k, Fraction(0))
            tol = 2 * U * absd.get(k, 0) * (cnt.get(k, 0) + 1)
            if abs(got - want) > tol:
                return f"coefficient of power {k} is {float(got)!r}, the string says {float(want)!r}"
        return None
    if cmd == "pe":
        dense, absd, cnt = _intended(extra)
        text, i = read_string(head, 1)
        x = frac_of_bits(head[i])
        t = impl.split()
        if t[0] != "ok":
            return f"parse+eval of a grammatical string failed: {impl}"
        got = tok_frac(t[1])
        want = sum(c * x ** k for k, c in dense.items())
        scale = sum(absd[k] * abs(x) ** k for k in absd)
        if got is None:
            # overflow of a term or of a power x^k beyond the binary64 range is not a misreading
            big = max([abs(x) ** k for k in absd] + [scale])
            return None if big > Fraction(2) ** 1000 else "value is not finite"
        tol = 64 * U * (len(extra) + 2) * scale + Fraction(1, 2 ** 1000)
        if abs(got - want) > tol:
            return f"value at {float(x)!r} is {float(got)!r}, the string means {float(want)!r}"
        return None
    if cmd == "eval":
        # eval <entry> S <var> <n> c… <x>
        n = int(head[4]); cs = [frac_of_bits(b) for b in head[5:5 + n]]; x = frac_of_bits(head[5 + n])
        t = impl.split()
        if t[0] != "ok":
            return f"evaluation failed: {impl}"
        got = tok_frac(t[1])
        want = sum(c * x ** k for k, c in enumerate(cs))
        scale = sum(abs(c) * abs(x) ** k for k, c in enumerate(cs))
        if got is None:
            big = max([abs(x) ** k for k in range(len(cs))] + [scale])
            return None if big > Fraction(2) ** 1000 else "value is not finite"
        tol = 64 * U * (n + 2) * scale + Fraction(1, 2 ** 1000)
        if abs(got - want) > tol:
            return f"eval at {float(x)!r} is {float(got)!r}, sum c_k x^k is {float(want)!r}"
        return None
    return None

def nontrivial(req, model):
    r = req.split()
    if r[0] == "parse":
        return model.startswith("ok") and " | " in req and int(req.split(" | ")[1].split()[0]) >= 2
    if r[0] == "eval":
        return int(r[4]) >= 2
    if r[0] == "pe":
        return True
    return False

def tag(req, model):
    r = req.split(); m = model.split()
    return r[0] + ":" + (m[0] if m else "empty") + (":" + m[1] if m and m[0] == "err" else "")
