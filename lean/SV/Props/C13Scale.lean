import SV.Model.C13
import SV.Lemmas.C13
import Mathlib.Algebra.Order.Field.Basic
import Mathlib.Tactic.Ring
import Mathlib.Tactic.FieldSimp
import Mathlib.Tactic.Linarith
/-!
# C13 — the power method is scale-equivariant

Scaling the matrix by a positive constant `c` scales the returned eigenvalue by `c` and leaves the
eigenvector, the error outcome, the panic outcome and the number of passes unchanged:

  `powerCap cap (smul A c) es = (powerCap cap A es).map (λ, v, n ↦ (c·λ, v, n))`

for every linearly ordered field, every matrix (no well-formedness or shape hypothesis: the
non-square and the empty cases are covered, and so are the 1×1 scalar shortcuts of `Arr2D::dot`),
every tolerance and every cap.  `smul` is `SV.C11.smul`, the model of the code's own
`&Arr2D * scalar`.

Consequence: no ABSOLUTE threshold (`largest > f64::EPSILON`, an absolute floor on the change of the
eigenvalue, …) can be part of this algorithm — such a test is not invariant under `A ↦ c·A`, while
every test the algorithm makes (`> 0`, `== 0`, the *relative* change `|(λ' − λ)/λ'| < es`) is.
-/
set_option linter.unusedSectionVars false

namespace SV.Props.C13Scale
open SV SV.C11 SV.C13 Finset

/-- the obvious map on `Outcome`: errors to the same errors, `panic` to `panic` -/
def mapOk {ε α β : Type} (f : α → β) : Outcome ε α → Outcome ε β
  | .ok v => .ok (f v)
  | .err e => .err e
  | .panic => .panic

variable {K : Type} [Field K] [LinearOrder K] [IsStrictOrderedRing K] [Inhabited K]

/-- what scaling the matrix by `c` does to a result of `power_method`: the eigenvalue is scaled,
the eigenvector and the number of passes are unchanged -/
def scaleRes (c : K) : K × Mat K × Nat → K × Mat K × Nat := fun r => (c * r.1, r.2.1, r.2.2)

/-! ### building blocks -/

@[simp] private theorem smul_h (m : Mat K) (c : K) : (smul m c).h = m.h := rfl
@[simp] private theorem smul_w (m : Mat K) (c : K) : (smul m c).w = m.w := rfl

private theorem smul_def (m : Mat K) (c : K) :
    smul m c = Mat.tab m.h m.w fun i j => m.get i j * c := rfl

private theorem tab_congr {h w : Nat} {f g : Nat → Nat → K}
    (hfg : ∀ i j, i < h → j < w → f i j = g i j) : Mat.tab h w f = Mat.tab h w g := by
  apply Mat.ext_get (M := Mat.tab h w f) (N := Mat.tab h w g) (Mat.tab_WF _ _ _) (Mat.tab_WF _ _ _) rfl rfl
  intro i j hi hj
  have hi' : i < h := hi
  have hj' : j < w := hj
  rw [Mat.get_tab _ hi' hj', Mat.get_tab _ hi' hj']
  exact hfg i j hi' hj'

private theorem get_smul (m : Mat K) (c : K) {i j : Nat} (hi : i < m.h) (hj : j < m.w) :
    (smul m c).get i j = m.get i j * c := Mat.get_tab _ hi hj

private theorem smul_empty (c : K) : smul (⟨0, 0, #[]⟩ : Mat K) c = ⟨0, 0, #[]⟩ := by
  simp [smul, Mat.tab]

/-- the buffer of a scaled well-formed array -/
private theorem smul_a (m : Mat K) (c : K) (hm : m.WF) : (smul m c).a = m.a.map (· * c) := by
  have hm' : m.a.size = m.h * m.w := hm
  apply Array.ext
  · simp [smul, Mat.tab, hm']
  · intro k hk1 hk2
    have hk : k < m.a.size := by simpa using hk2
    simp only [smul, Mat.tab, Array.getElem_ofFn, Array.getElem_map, Mat.get,
      Nat.div_add_mod' k m.w, Array.getD_eq_getD_getElem?, Array.getElem?_eq_getElem hk,
      Option.getD_some]

/-- every result of the `*` operator is well-formed -/
private theorem mulOp_WF (a b : Mat K) : (mulOp a b).WF := by
  unfold mulOp dot
  split_ifs
  · exact Mat.tab_WF _ _ _
  · exact Mat.tab_WF _ _ _
  · simp [Mat.WF]
  · exact Mat.tab_WF _ _ _

/-- `(A·c) * x = (A * x)·c`, for all shapes (also through the 1×1 shortcuts and the silent empty
array of a shape mismatch) -/
private theorem mulOp_smul_left (A x : Mat K) (c : K) :
    mulOp (smul A c) x = smul (mulOp A x) c := by
  unfold mulOp dot
  rw [smul_h, smul_w]
  by_cases ha : A.h = 1 ∧ A.w = 1
  · rw [if_pos ha, if_pos ha]
    simp only
    conv_rhs => rw [smul_def]
    simp only [Mat.tab_h, Mat.tab_w]
    apply tab_congr
    intro i j hi hj
    rw [Mat.get_tab _ hi hj, get_smul A c (by omega) (by omega)]
    ring
  rw [if_neg ha, if_neg ha]
  by_cases hb : x.h = 1 ∧ x.w = 1
  · rw [if_pos hb, if_pos hb]
    simp only
    conv_rhs => rw [smul_def]
    simp only [Mat.tab_h, Mat.tab_w]
    apply tab_congr
    intro i j hi hj
    rw [Mat.get_tab _ hi hj, get_smul A c hi hj]
    ring
  rw [if_neg hb, if_neg hb]
  by_cases hc : A.w ≠ x.h
  · rw [if_pos hc, if_pos hc]
    simp only
    rw [smul_empty]
  rw [if_neg hc, if_neg hc]
  simp only
  conv_rhs => rw [smul_def]
  simp only [Mat.tab_h, Mat.tab_w]
  apply tab_congr
  intro i j hi hj
  rw [Mat.get_tab _ hi hj, sumFrom_zero, sumFrom_zero, Finset.sum_mul]
  apply Finset.sum_congr rfl
  intro k hk
  rw [get_smul A c hi (Finset.mem_range.mp hk)]
  ring

/-- `y * (z·c) = (y * z)·c`, for all shapes -/
private theorem mulOp_smul_right (y z : Mat K) (c : K) :
    mulOp y (smul z c) = smul (mulOp y z) c := by
  unfold mulOp dot
  rw [smul_h, smul_w]
  by_cases ha : y.h = 1 ∧ y.w = 1
  · rw [if_pos ha, if_pos ha]
    simp only
    conv_rhs => rw [smul_def]
    simp only [Mat.tab_h, Mat.tab_w]
    apply tab_congr
    intro i j hi hj
    rw [Mat.get_tab _ hi hj, get_smul z c hi hj]
    ring
  rw [if_neg ha, if_neg ha]
  by_cases hb : z.h = 1 ∧ z.w = 1
  · rw [if_pos hb, if_pos hb]
    simp only
    conv_rhs => rw [smul_def]
    simp only [Mat.tab_h, Mat.tab_w]
    apply tab_congr
    intro i j hi hj
    rw [Mat.get_tab _ hi hj, get_smul z c (by omega) (by omega)]
    ring
  rw [if_neg hb, if_neg hb]
  by_cases hc : y.w ≠ z.h
  · rw [if_pos hc, if_pos hc]
    simp only
    rw [smul_empty]
  rw [if_neg hc, if_neg hc]
  simp only
  conv_rhs => rw [smul_def]
  simp only [Mat.tab_h, Mat.tab_w]
  have hc' : y.w = z.h := not_not.mp hc
  apply tab_congr
  intro i j hi hj
  rw [Mat.get_tab _ hi hj, sumFrom_zero, sumFrom_zero, Finset.sum_mul]
  apply Finset.sum_congr rfl
  intro k hk
  rw [get_smul z c (by rw [← hc']; exact Finset.mem_range.mp hk) hj]
  ring

private theorem asScalar_smul (m : Mat K) (c : K) (hm : m.WF) :
    asScalar (smul m c) = (asScalar m).map (· * c) := by
  unfold asScalar
  rw [smul_a m c hm, Array.getElem?_map]

private theorem pickMax_mul (a b c : K) (hc : 0 < c) :
    pickMax (a * c) (b * c) = pickMax a b * c := by
  unfold pickMax
  by_cases h : a > b
  · rw [if_pos h, if_pos (mul_lt_mul_of_pos_right h hc)]
  · rw [if_neg h, if_neg (not_lt.mpr (mul_le_mul_of_nonneg_right (not_lt.mp h) hc.le))]

private theorem pickMin_mul (a b c : K) (hc : 0 < c) :
    pickMin (a * c) (b * c) = pickMin a b * c := by
  unfold pickMin
  by_cases h : a < b
  · rw [if_pos h, if_pos (mul_lt_mul_of_pos_right h hc)]
  · rw [if_neg h, if_neg (not_lt.mpr (mul_le_mul_of_nonneg_right (not_lt.mp h) hc.le))]

private theorem foldl_pickMax_mul (c : K) (hc : 0 < c) (xs : List K) : ∀ x : K,
    (xs.map (· * c)).foldl pickMax (x * c) = xs.foldl pickMax x * c := by
  induction xs with
  | nil => intro x; rfl
  | cons z zs ih =>
    intro x
    rw [List.map_cons, List.foldl_cons, List.foldl_cons, pickMax_mul _ _ _ hc, ih]

private theorem foldl_pickMin_mul (c : K) (hc : 0 < c) (xs : List K) : ∀ x : K,
    (xs.map (· * c)).foldl pickMin (x * c) = xs.foldl pickMin x * c := by
  induction xs with
  | nil => intro x; rfl
  | cons z zs ih =>
    intro x
    rw [List.map_cons, List.foldl_cons, List.foldl_cons, pickMin_mul _ _ _ hc, ih]

/-- `Arr2D::max` of a positively scaled array -/
theorem maxOf_smul (m : Mat K) (c : K) (hc : 0 < c) (hm : m.WF) :
    maxOf (smul m c) = (maxOf m).map (· * c) := by
  unfold maxOf
  rw [smul_h, smul_w]
  by_cases hz : m.h = 0 ∨ m.w = 0
  · rw [if_pos hz, if_pos hz]; rfl
  rw [if_neg hz, if_neg hz, smul_a m c hm, Array.toList_map]
  generalize m.a.toList = l
  cases l with
  | nil => rfl
  | cons x xs =>
    simp only [List.map_cons, Option.map_some]
    rw [foldl_pickMax_mul c hc]

/-- `Arr2D::min` of a positively scaled array -/
theorem minOf_smul (m : Mat K) (c : K) (hc : 0 < c) (hm : m.WF) :
    minOf (smul m c) = (minOf m).map (· * c) := by
  unfold minOf
  rw [smul_h, smul_w]
  by_cases hz : m.h = 0 ∨ m.w = 0
  · rw [if_pos hz, if_pos hz]; rfl
  rw [if_neg hz, if_neg hz, smul_a m c hm, Array.toList_map]
  generalize m.a.toList = l
  cases l with
  | nil => rfl
  | cons x xs =>
    simp only [List.map_cons, Option.map_some]
    rw [foldl_pickMin_mul c hc]

/-- the helper `normaliser` of a positively scaled array (its test is `> 0.0`: scale-invariant) -/
theorem normaliser_smul (m : Mat K) (c : K) (hc : 0 < c) (hm : m.WF) :
    normaliser (smul m c) = (normaliser m).map (· * c) := by
  unfold normaliser
  rw [maxOf_smul m c hc hm, minOf_smul m c hc hm]
  cases maxOf m with
  | none => rfl
  | some l =>
    simp only [Option.map_some]
    by_cases hl : l > 0
    · rw [if_pos hl, if_pos (mul_pos hl hc)]; rfl
    · rw [if_neg hl, if_neg (not_lt.mpr (mul_nonpos_of_nonpos_of_nonneg (not_lt.mp hl) hc.le))]

/-- dividing the scaled array by the scaled scalar gives the same array -/
theorem divS_smul (m : Mat K) (c s : K) (hc : c ≠ 0) :
    divS (smul m c) (s * c) = divS m s := by
  unfold divS
  rw [smul_h, smul_w]
  apply tab_congr
  intro i j hi hj
  rw [get_smul m c hi hj, mul_div_mul_right _ _ hc]

/-- the Rayleigh quotient is linear in the matrix -/
theorem rayleigh_smul (A x : Mat K) (c : K) :
    rayleigh (smul A c) x = (rayleigh A x).map (· * c) := by
  unfold rayleigh
  simp only
  rw [mulOp_smul_left, mulOp_smul_right, asScalar_smul _ _ (mulOp_WF _ _)]
  cases asScalar (mulOp x.transpose (mulOp A x)) with
  | none => rfl
  | some a =>
    cases asScalar (mulOp x.transpose x) with
    | none => rfl
    | some b =>
      simp only [Option.map_some]
      rw [div_mul_eq_mul_div]

/-- what scaling does to the quantities of one pass: the normalisation value and the new
eigenvalue are scaled, the normalised vector and the relative change `ea` are unchanged -/
def scalePass (c : K) (p : Pass K) : Pass K := ⟨p.c * c, p.nv, p.next * c, p.ea⟩

/-- one pass of the loop on the scaled matrix, started from the scaled eigenvalue estimate -/
theorem pass_smul (A ev : Mat K) (lam c : K) (hc : 0 < c) :
    pass (smul A c) ev (lam * c) = (pass A ev lam).map (scalePass c) := by
  unfold pass
  simp only
  rw [mulOp_smul_left, normaliser_smul _ c hc (mulOp_WF _ _)]
  cases normaliser (mulOp A ev) with
  | none => rfl
  | some s =>
    simp only [Option.map_some]
    rw [divS_smul _ _ _ hc.ne', rayleigh_smul]
    cases rayleigh A (divS (mulOp A ev) s) with
    | none => rfl
    | some nx =>
      simp only [Option.map_some, scalePass]
      rw [← sub_mul, mul_div_mul_right _ _ hc.ne']

/-- the loop on the scaled matrix, started from the scaled estimate -/
theorem loop_smul (A : Mat K) (c : K) (hc : 0 < c) (es : K) :
    ∀ fuel done (ev : Mat K) (lam : K),
      loop (smul A c) es fuel done ev (c * lam) = mapOk (scaleRes c) (loop A es fuel done ev lam) := by
  intro fuel
  induction fuel with
  | zero => intro done ev lam; rfl
  | succ fuel ih =>
    intro done ev lam
    rw [loop, loop, mul_comm c lam, pass_smul A ev lam c hc]
    cases pass A ev lam with
    | none => rfl
    | some p =>
      simp only [Option.map_some, scalePass]
      have h1 : (p.c * c == 0) = (p.c == 0) := by simp [hc.ne']
      have h2 : (p.next * c == 0) = (p.next == 0) := by simp [hc.ne']
      rw [h1, h2]
      by_cases hz : (p.c == 0) = true
      · rw [if_pos hz, if_pos hz]; rfl
      rw [if_neg hz, if_neg hz]
      by_cases hstop : 0 < done ∧ ¬(p.next == 0) = true ∧ p.ea < es
      · rw [if_pos hstop, if_pos hstop]
        cases maxOf p.nv with
        | none => rfl
        | some largest =>
          simp only [mapOk, scaleRes, mul_comm c]
      · rw [if_neg hstop, if_neg hstop, mul_comm p.next c]
        exact ih (done + 1) p.nv p.next

/-! ### the theorems -/

/-- **Scale equivariance of the power method.**  For every linearly ordered field, every matrix
`A` (any shape, well-formed or not), every `c > 0`, every tolerance `es` and every cap: running the
method on `A·c` (`SV.C11.smul`, the code's `&Arr2D * scalar`: every entry multiplied by `c`) gives
the outcome of running it on `A`, with the eigenvalue multiplied by `c` and the same eigenvector, the
same number of passes, the same error, the same (unreachable) panic. -/
theorem powerCap_smul (cap : Nat) (A : Mat K) (c : K) (hc : 0 < c) (es : K) :
    powerCap cap (smul A c) es = mapOk (scaleRes c) (powerCap cap A es) := by
  unfold powerCap
  rw [smul_h, smul_w]
  by_cases hb : A.h ≠ A.w ∨ A.h = 0 ∨ A.w = 0
  · rw [if_pos hb, if_pos hb]; rfl
  rw [if_neg hb, if_neg hb]
  simp only
  rw [mulOp_smul_left, normaliser_smul _ c hc (mulOp_WF _ _)]
  cases normaliser (mulOp A (ones A.h)) with
  | none => rfl
  | some lam0 =>
    simp only [Option.map_some]
    have h1 : (lam0 * c == 0) = (lam0 == 0) := by simp [hc.ne']
    rw [h1]
    by_cases hz : (lam0 == 0) = true
    · rw [if_pos hz, if_pos hz]; rfl
    rw [if_neg hz, if_neg hz, divS_smul _ _ _ hc.ne', mul_comm lam0 c]
    exact loop_smul A c hc es cap 0 _ lam0

/-- the same for `power_method` itself (the cap the source declares, `MAX_ITERATIONS`) -/
theorem power_smul (A : Mat K) (c : K) (hc : 0 < c) (es : K) :
    power (smul A c) es = mapOk (scaleRes c) (power A es) :=
  powerCap_smul SV.Gen.powerMethodCap A c hc es

/-- a returned pair of `A` is a returned pair of `A·c` with the eigenvalue scaled -/
theorem power_smul_ok (A : Mat K) (c : K) (hc : 0 < c) (es lam : K) (v : Mat K) (n : Nat)
    (h : power A es = .ok (lam, v, n)) : power (smul A c) es = .ok (c * lam, v, n) := by
  rw [power_smul A c hc, h]; rfl

/-- … and conversely: `A·c` returns `(c·λ, v, n)` exactly when `A` returns `(λ, v, n)` -/
theorem power_smul_ok_iff (A : Mat K) (c : K) (hc : 0 < c) (es lam : K) (v : Mat K) (n : Nat) :
    power (smul A c) es = .ok (c * lam, v, n) ↔ power A es = .ok (lam, v, n) := by
  refine ⟨fun h => ?_, power_smul_ok A c hc es lam v n⟩
  rw [power_smul A c hc] at h
  cases hp : power A es with
  | ok r =>
    rw [hp] at h
    obtain ⟨l, w, m⟩ := r
    simp only [mapOk, scaleRes, Outcome.ok.injEq, Prod.mk.injEq] at h
    obtain ⟨h1, h2, h3⟩ := h
    rw [mul_left_cancel₀ hc.ne' h1, h2, h3]
  | err e => rw [hp] at h; cases h
  | panic => rw [hp] at h; cases h

/-- `NoConvergence` is scale-invariant: no rescaling of the input turns it into a result -/
theorem power_smul_err (A : Mat K) (c : K) (hc : 0 < c) (es : K) (e : PErr)
    (h : power A es = .err e) : power (smul A c) es = .err e := by
  rw [power_smul A c hc, h]; rfl

/-- **No absolute threshold is compatible with the algorithm.**  If the method returns on `A`,
then for every `θ > 0` there is a positive rescaling of `A` on which it returns the same
eigenvector after the same number of passes, with an eigenvalue of magnitude below `θ` (so a test
such as `largest > f64::EPSILON`, or an absolute floor on the eigenvalue or on its change, would
reject an input the algorithm handles exactly as it handles `A`). -/
theorem power_smul_below_any_threshold (A : Mat K) (es lam : K) (v : Mat K) (n : Nat)
    (h : power A es = .ok (lam, v, n)) (θ : K) (hθ : 0 < θ) :
    ∃ c : K, 0 < c ∧ ∃ lam', power (smul A c) es = .ok (lam', v, n) ∧ |lam'| < θ := by
  have hd : 0 < 2 * (|lam| + 1) := by positivity
  refine ⟨θ / (2 * (|lam| + 1)), div_pos hθ hd, _, power_smul_ok A _ (div_pos hθ hd) es lam v n h, ?_⟩
  rw [abs_mul, abs_of_pos (div_pos hθ hd), div_mul_eq_mul_div, div_lt_iff₀ hd]
  have h0 : 0 ≤ |lam| := abs_nonneg lam
  nlinarith

/-! ### non-vacuity, evaluated by the kernel over `ℚ` -/

/-- a 2×2 matrix on which the method returns (pass 2, eigenvalue estimate `129/65`) -/
example : (match powerCap 50 (⟨2, 2, #[2, 0, 0, 1]⟩ : Mat Rat) (1 / 10) with
    | .ok (lam, v, p) => lam == 129 / 65 && v.a == #[1, 1 / 8] && p == 2 | _ => false) = true := by
  decide +kernel

/-- … and the same matrix scaled by 3: eigenvalue `3 · 129/65`, same vector, same pass -/
example : (match powerCap 50 (smul (⟨2, 2, #[2, 0, 0, 1]⟩ : Mat Rat) 3) (1 / 10) with
    | .ok (lam, v, p) => lam == 3 * (129 / 65) && v.a == #[1, 1 / 8] && p == 2 | _ => false) = true := by
  decide +kernel

/-- the theorem instantiated at `ℚ` -/
example : powerCap 50 (smul (⟨2, 2, #[2, 0, 0, 1]⟩ : Mat Rat) 3) (1 / 10)
    = mapOk (scaleRes 3) (powerCap 50 (⟨2, 2, #[2, 0, 0, 1]⟩ : Mat Rat) (1 / 10)) :=
  powerCap_smul 50 _ 3 (by norm_num) _

end SV.Props.C13Scale

