"""C13 plug-in: comparison rule and the property's oracle for the power method.

Request `power <half> <h> <w> <bits…> <es bits>`, observation `ok <λ> <n> 1 <v…>` | `err nonsquare` |
`err noconv` | `panic` | `hang`.  The model additionally reports `passes <p>` (the number of loop passes it
made); the Rust API does not expose it, so the comparison drops it (λ and v bit for bit pin it anyway).

Oracle, written from the statement (the harness already decided the outcome-kind clauses: non-square/empty ⇒
NonSquareMatrix, never a panic or a hang, `acc` cases must succeed, eigenvector n×1):

  accuracy half (`acc`: symmetric Q D Qᵀ, gap ≤ 1/2, either sign of λ₁, tolerance 1e-4 … 1e-12)
    * the largest component of v is exactly 1 and no component exceeds 1          (bit patterns)
    * ‖A v − λ v‖² ≤ C² · tol · λ² · ‖v‖²  with C = 8                               (exact rationals)
    * |λ − λ₁| ≤ C · tol · |λ₁| (+ 1e-13 |λ₁| for the reference's own rounding)
      where λ₁ is the dominant eigenvalue of the matrix *actually passed*, computed independently here
      by cyclic Jacobi rotations in binary64 (accuracy ~ n u ‖A‖, four orders below the tightest bound);
      the same computation re-checks the quantifier (|λ₂| ≤ |λ₁|/2, start vector at cosine ≥ 0.25 to the
      dominant eigenvector) — a case outside it is not judged.
  `sym` requests (small symmetric integer matrices) are judged by the same accuracy oracle when the reference
  computation finds them inside the quantifier (then also a NoConvergence is a failure), otherwise like `term`.
  termination half (`term`): returning at all (Ok or Err) is the property; nothing numeric is required.
"""
import math, struct
from fractions import Fraction

RULE = ("accuracy half: symmetric Q D Q^T (Q = random Givens products, exact symmetrisation), n = 1..8, |l2/l1| <= 0.49, "
        "both signs of l1, magnitudes 2^-20..2^20, tolerances 1e-4..1e-12 (fixed decades and log-uniform), start vector "
        "at cosine >= 0.3 to the dominant eigenvector; symmetric integer matrices (all 2x2 with entries -4..4 in the thorough "
        "tier, random n = 2..4 with entries up to +-9) judged for accuracy when inside the quantifier; termination half: zero, nilpotent, +-lambda pairs, rotation "
        "blocks, NaN/inf entries, zero row sums, random non-symmetric, n = 1..5, tolerances incl. 0, negative, NaN; "
        "shape half: all non-square/empty shapes 0..4 x 0..4; non-trivial = the model answers ok (an eigenpair was "
        "returned) or runs the loop to its cap; distinct = distinct request lines")

C = 8
ONE = 0x3FF0000000000000


def f_of_bits(b):
    return struct.unpack("<d", struct.pack("<Q", b))[0]


def _strip(model):
    t = model.split()
    if len(t) >= 2 and t[-2] == "passes":
        return " ".join(t[:-2]), int(t[-1])
    return model, None


def compare(req, impl, model):
    from __main__ import default_compare
    return default_compare(req, impl, _strip(model)[0])


def parse_req(req):
    t = req.split()
    half = t[1]
    h, w = int(t[2]), int(t[3])
    bits = [int(x) for x in t[4:4 + h * w]]
    es = int(t[4 + h * w])
    return half, h, w, bits, es


def jacobi(a, n):
    """eigenvalues and eigenvectors (columns of v) of the symmetric n×n list-of-lists a (binary64)"""
    a = [row[:] for row in a]
    v = [[1.0 if i == j else 0.0 for j in range(n)] for i in range(n)]
    for _ in range(60):
        off = sum(a[i][j] * a[i][j] for i in range(n) for j in range(n) if i != j)
        tot = sum(a[i][i] * a[i][i] for i in range(n)) + off
        if off <= 1e-32 * tot or tot == 0.0:
            break
        for p in range(n):
            for q in range(p + 1, n):
                if a[p][q] == 0.0:
                    continue
                theta = (a[q][q] - a[p][p]) / (2.0 * a[p][q])
                t = (1.0 if theta >= 0 else -1.0) / (abs(theta) + math.sqrt(theta * theta + 1.0))
                c = 1.0 / math.sqrt(t * t + 1.0)
                s = t * c
                for k in range(n):
                    akp, akq = a[k][p], a[k][q]
                    a[k][p] = c * akp - s * akq
                    a[k][q] = s * akp + c * akq
                for k in range(n):
                    apk, aqk = a[p][k], a[q][k]
                    a[p][k] = c * apk - s * aqk
                    a[q][k] = s * apk + c * aqk
                for k in range(n):
                    vkp, vkq = v[k][p], v[k][q]
                    v[k][p] = c * vkp - s * vkq
                    v[k][q] = s * vkp + c * vkq
    return [a[i][i] for i in range(n)], v


def reference(abits, n):
    """(λ₁, |λ₂|/|λ₁|, cosine of the all-ones vector to the dominant eigenvector) of the matrix passed"""
    a = [[f_of_bits(abits[i * n + j]) for j in range(n)] for i in range(n)]
    ev, vec = jacobi(a, n)
    order = sorted(range(n), key=lambda k: -abs(ev[k]))
    k1 = order[0]
    l1 = ev[k1]
    ratio = (abs(ev[order[1]]) / abs(l1)) if n > 1 and l1 != 0 else 0.0
    col = [vec[i][k1] for i in range(n)]
    nrm = math.sqrt(sum(x * x for x in col))
    cos = abs(sum(col)) / (nrm * math.sqrt(n)) if nrm else 0.0
    return l1, ratio, cos


def first_pass(abits, n, tol, lam):
    """Classification of a failure only (never of a pass): did the call return from its FIRST pass?  There the
    stopping test compares the Rayleigh quotient with max(A·1), a different estimator, and the two can agree to
    < tol by coincidence.  True iff a binary64 replica of that first test fires and reproduces the returned λ."""
    a = [[f_of_bits(abits[i * n + j]) for j in range(n)] for i in range(n)]

    def mul(v):
        out = []
        for i in range(n):
            s = 0.0
            for j in range(n):
                s += a[i][j] * v[j]
            out.append(s)
        return out

    def mx(v):
        acc = v[0]
        for b in v[1:]:
            acc = acc if acc > b else b
        return acc
    try:
        ev = mul([1.0] * n); lam0 = mx(ev); ev = [x / lam0 for x in ev]
        ev = mul(ev); c = mx(ev); nv = [x / c for x in ev]
        av = mul(nv)
        rq = sum(x * y for x, y in zip(nv, av)) / sum(x * x for x in nv)
        ea = abs((rq - lam0) / rq)
    except ZeroDivisionError:
        return None
    if ea < tol and abs(rq - lam) <= 1e-12 * abs(rq):
        return " [stopped by the first-pass test: |RQ − max(A·1)|/|RQ| = %.3e < tol]" % ea
    return None


def accuracy(req, impl):
    """returns (verdict, (ratio_residual, ratio_lambda)) — the ratios to the bounds are for calibration"""
    half, h, w, abits, esb = parse_req(req)
    n = h
    t = impl.split()
    if t[0] != "ok":
        if half == "sym" and t[0] == "err":
            # judged only if the matrix is inside the accuracy quantifier
            l1, ratio, cos = reference(abits, n)
            if ratio > 0.5 + 1e-9 or cos < 0.25 or l1 == 0.0:
                return None, None
        return f"accuracy case did not return an eigenpair: {impl[:40]}", None
    lam_b = int(t[1][1:])
    vh, vw = int(t[2]), int(t[3])
    vb = [int(x[1:]) for x in t[4:4 + vh * vw]]
    if (vh, vw) != (n, 1):
        return f"eigenvector shape {vh}x{vw}, expected {n}x1", None
    lam = f_of_bits(lam_b)
    vs = [f_of_bits(b) for b in vb]
    tol = f_of_bits(esb)
    l1, ratio, cos = reference(abits, n)
    if ratio > 0.5 + 1e-9 or cos < 0.25 or l1 == 0.0:
        return None, None            # outside the quantifier: not judged
    if not all(math.isfinite(x) for x in vs + [lam]):
        return "non-finite eigenpair on a finite symmetric input", None
    if ONE not in vb or any(x > 1.0 for x in vs):
        return "largest component of the eigenvector is not exactly 1 (max %r)" % max(vs), None
    # exact residual:  ‖Av − λv‖² ≤ C² tol λ² ‖v‖²
    F = Fraction
    A = [F(f_of_bits(b)) for b in abits]
    V = [F(x) for x in vs]
    L = F(lam)
    res2 = F(0)
    for i in range(n):
        r = sum(A[i * n + j] * V[j] for j in range(n)) - L * V[i]
        res2 += r * r
    v2 = sum(x * x for x in V)
    bound2 = C * C * F(tol) * L * L * v2
    r_res = math.sqrt(float(res2 / bound2)) if bound2 else float("inf")
    if res2 > bound2:
        return ("residual ‖Av − λv‖ = %.3e exceeds C√tol|λ|‖v‖ = %.3e (tol %.1e)"
                % (math.sqrt(float(res2)), math.sqrt(float(bound2)), tol)
                + (first_pass(abits, n, tol, lam) or "")), (r_res, None)
    err = abs(lam - l1)
    bound = C * tol * abs(l1) + 1e-13 * abs(l1)
    r_lam = err / bound
    if err > bound:
        return ("eigenvalue %.17g is %.3e from the dominant eigenvalue %.17g, more than C·tol·|λ₁| = %.3e (tol %.1e)"
                % (lam, err, l1, C * tol * abs(l1), tol)
                + (first_pass(abits, n, tol, lam) or "")), (r_res, r_lam)
    return None, (r_res, r_lam)


def oracle(req, impl):
    half = req.split()[1]
    if half in ("acc", "sym"):
        return accuracy(req, impl)[0]
    return None


def nontrivial(req, model):
    return model.startswith("ok ") or model == "err noconv"


def tag(req, model):
    t = req.split()
    base, passes = _strip(model)
    kind = "_".join(base.split()[:2]) if not base.startswith("ok") else "ok"
    if passes is None:
        b = "-"
    elif passes == 1:
        b = "1"
    elif passes <= 5:
        b = "2-5"
    elif passes <= 20:
        b = "6-20"
    elif passes <= 100:
        b = "21-100"
    else:
        b = ">100"
    return "power:%s:n%s:%s:passes%s" % (t[1], t[2] if t[2] == t[3] else t[2] + "x" + t[3], kind, b)
