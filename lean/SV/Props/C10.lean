import SV.Model.C10
import SV.Lemmas.Mat
import SV.Lemmas.C10
import SV.Props.C09
import Mathlib.LinearAlgebra.Matrix.NonsingularInverse
import Mathlib.LinearAlgebra.Matrix.ToLinearEquiv
/-!
# C10 — the matrix inverse really inverts, on both sides, or says why it cannot

Property theorems only (helper lemmas: `SV.Lemmas.C10`).  `K` is any linearly ordered field, so
the "to within `n·eps·|A||B|`-scaled rounding" clause of the statement is proved with rounding
error 0: `Arr2D::inverse` is the right algorithm on every input of every size and for every
pivoting pattern.  The same `SV.C10.inverse` runs at `Float` in the driver (`eps = 2^-52 =
f64::EPSILON`) and is compared bit for bit with `Arr2D::inverse` on every run of the check; the
rounding envelope is measured there by two exact oracles.

`SV.C10.inverse` is the composition of the models that C09 and C08 already tie to the code:
`SV.C09.plu`, then per column `j`: `b' = P e_j` (`P.get i j`), `SV.Subst.forwardSubst` with `L`,
`SV.Subst.backSubst` with `U`, the solution stored as column `j`.  `inverse_right` is proved from
`plu_correct` (`L U = P A`, `P` the permutation matrix of `σ`: row `i` is `e_{σ i}`), the two
substitution-soundness theorems of C08 and the bijectivity of `σ`; with `b' = P.get j i` (the
transposed permutation), with the substitutions swapped, with `U` in the forward solve or with
the solution stored as a row, the chain of equalities in `SV.C10.inverse_entries` does not close;
the check's bug-injection runs confirm that each of these changes to `arr2D.rs` is reported with a
concrete matrix (the transposed permutation only on matrices whose pivoting permutation is not an
involution, such as the 3-cycle and the 4-cycle of the non-vacuity examples below).

Reading guide
* `inverse_right`, `inverse_left` (+ entry-wise forms, `inverse_shape`, `inverse_eq_inv`) — what a
  returned matrix is;
* `inverse_involutive`, `inverse_involutive_mat`, `inverse_roundtrip` — the inverse of the inverse;
* `inverse_errors` and its parts `inverse_nonsquare`, `inverse_refuses_singular` (+ kernel / zero
  row / zero column / repeated row), `inverse_never_panics`, `inverse_empty` — what is refused;
* `inverse_accepts_regular`, `inverse_ok_iff_det_ne_zero`, `inverse_threshold_mono` — what is
  accepted (extension).
-/
namespace SV.Props.C10
open SV SV.C09 SV.C10 Finset

variable {K : Type} [Field K] [LinearOrder K] [IsStrictOrderedRing K] [Inhabited K]

/-! ### a returned matrix is the inverse -/

omit [IsStrictOrderedRing K] in
/-- a returned matrix has the shape of the input, which was square -/
theorem inverse_shape {eps : K} {A B : Mat K} (h : inverse eps A = .ok B) :
    A.h = A.w ∧ B.h = A.h ∧ B.w = A.h ∧ B.WF := by
  obtain ⟨h1, h2, h3, h4, _⟩ := inverse_ok_columns h
  exact ⟨h1, h2, h3, h4⟩

/-- **Right inverse.**  Whenever `inverse` returns `B` for `A` (with a positive pivot threshold),
`A B = 1` — for every size and every row permutation the pivoting went through. -/
theorem inverse_right {eps : K} (heps : 0 < eps) {A B : Mat K} (h : inverse eps A = .ok B) :
    A.toMatrix A.h A.h * B.toMatrix A.h A.h = 1 :=
  inverse_toMatrix heps h rfl

/-- `inverse_right` entry by entry: row `r` of `A` times column `j` of `B` is `δ_rj`. -/
theorem inverse_right_entries {eps : K} (heps : 0 < eps) {A B : Mat K}
    (h : inverse eps A = .ok B) (r j : Nat) (hr : r < A.h) (hj : j < A.h) :
    ∑ k ∈ range A.h, A.get r k * B.get k j = if r = j then 1 else 0 := by
  have := (inverse_entries heps h).2.2.2.2 ⟨r, hr⟩ ⟨j, hj⟩
  simpa [Fin.ext_iff] using this

/-- **Left inverse.**  `B A = 1` as well. -/
theorem inverse_left {eps : K} (heps : 0 < eps) {A B : Mat K} (h : inverse eps A = .ok B) :
    B.toMatrix A.h A.h * A.toMatrix A.h A.h = 1 :=
  mul_eq_one_comm.mp (inverse_right heps h)

theorem inverse_left_entries {eps : K} (heps : 0 < eps) {A B : Mat K}
    (h : inverse eps A = .ok B) (r j : Nat) (hr : r < A.h) (hj : j < A.h) :
    ∑ k ∈ range A.h, B.get r k * A.get k j = if r = j then 1 else 0 := by
  have := congrFun (congrFun (inverse_left heps h) ⟨r, hr⟩) ⟨j, hj⟩
  simp only [Mat.toMatrix, Matrix.mul_apply, Matrix.one_apply, Fin.ext_iff] at this
  rw [← this, Finset.sum_range]

/-- the returned matrix is *the* inverse (Mathlib's `⁻¹` of the matrix `A` denotes); in particular
every other one- or two-sided inverse of `A` equals it -/
theorem inverse_eq_inv {eps : K} (heps : 0 < eps) {A B : Mat K} (h : inverse eps A = .ok B) :
    B.toMatrix A.h A.h = (A.toMatrix A.h A.h)⁻¹ :=
  (Matrix.inv_eq_right_inv (inverse_right heps h)).symm

/-- success certifies regularity: `det A · det B = 1` -/
theorem inverse_det {eps : K} (heps : 0 < eps) {A B : Mat K} (h : inverse eps A = .ok B) :
    (A.toMatrix A.h A.h).det * (B.toMatrix A.h A.h).det = 1 := by
  rw [← Matrix.det_mul, inverse_right heps h, Matrix.det_one]

/-! ### the inverse of the inverse -/

/-- **Involution.**  If the inverse `B` of `A` is inverted in turn (with any positive threshold),
the result denotes the matrix `A` (inverses are unique). -/
theorem inverse_involutive {eps eps' : K} (heps : 0 < eps) (heps' : 0 < eps') {A B A' : Mat K}
    (h : inverse eps A = .ok B) (h' : inverse eps' B = .ok A') :
    A'.toMatrix A.h A.h = A.toMatrix A.h A.h := by
  have hAB := inverse_right heps h
  have hBA' := inverse_toMatrix heps' h' (inverse_shape h).2.1
  rw [← Matrix.one_mul (A'.toMatrix A.h A.h), ← hAB, Matrix.mul_assoc, hBA', Matrix.mul_one]

/-- … and for a well-formed input array it *is* `A`, shape and buffer included. -/
theorem inverse_involutive_mat {eps eps' : K} (heps : 0 < eps) (heps' : 0 < eps') {A B A' : Mat K}
    (hA : A.WF) (h : inverse eps A = .ok B) (h' : inverse eps' B = .ok A') : A' = A := by
  obtain ⟨hsq, hBh, _, _⟩ := inverse_shape h
  obtain ⟨_, hA'h, hA'w, hA'wf⟩ := inverse_shape h'
  have hm := inverse_involutive heps heps' h h'
  apply Mat.ext_get hA'wf hA (by omega) (by omega)
  intro i j hi hj
  exact congrFun (congrFun hm ⟨i, by omega⟩) ⟨j, by omega⟩

/-! ### what is refused -/

omit [IsStrictOrderedRing K] in
theorem inverse_nonsquare (eps : K) (A : Mat K) (h : A.h ≠ A.w) :
    inverse eps A = .err .nonSquare :=
  (inverse_outcome eps A).1 h

omit [IsStrictOrderedRing K] in
/-- no input makes `inverse` panic — not even the empty matrix, for which `back_substitution`
(whose `size - 1` would underflow) is never called -/
theorem inverse_never_panics (eps : K) (A : Mat K) : inverse eps A ≠ .panic :=
  inverse_ne_panic eps A

omit [IsStrictOrderedRing K] in
/-- the empty matrix is answered with `Ok` of the empty matrix -/
theorem inverse_empty (eps : K) (A : Mat K) (hh : A.h = 0) (hw : A.w = 0) :
    inverse eps A = .ok ⟨0, 0, #[]⟩ :=
  SV.C10.inverse_empty eps A hh hw

/-- **A singular matrix is never inverted**: zero determinant ⇒ `SingularMatrix`, for every
positive threshold. -/
theorem inverse_refuses_singular {eps : K} (heps : 0 < eps) (A : Mat K) (hsq : A.h = A.w)
    (hdet : (A.toMatrix A.h A.h).det = 0) : inverse eps A = .err .singular :=
  (inverse_outcome eps A).2.1 hsq _ (SV.Props.C09.plu_refuses_singular heps A hsq hdet)

/-- the kernel form: a non-zero vector annihilated by `A` -/
theorem inverse_refuses_kernel {eps : K} (heps : 0 < eps) (A : Mat K) (hsq : A.h = A.w)
    (x : Fin A.h → K) (hx : x ≠ 0) (hker : (A.toMatrix A.h A.h).mulVec x = 0) :
    inverse eps A = .err .singular :=
  inverse_refuses_singular heps A hsq (Matrix.exists_mulVec_eq_zero_iff.1 ⟨x, hx, hker⟩)

theorem inverse_refuses_zero_row {eps : K} (heps : 0 < eps) (A : Mat K) (hsq : A.h = A.w)
    (r : Nat) (hr : r < A.h) (hz : ∀ j, j < A.h → A.get r j = 0) :
    inverse eps A = .err .singular :=
  inverse_refuses_singular heps A hsq
    (Matrix.det_eq_zero_of_row_eq_zero ⟨r, hr⟩ (fun j => hz j.val j.isLt))

theorem inverse_refuses_zero_column {eps : K} (heps : 0 < eps) (A : Mat K) (hsq : A.h = A.w)
    (c : Nat) (hc : c < A.h) (hz : ∀ i, i < A.h → A.get i c = 0) :
    inverse eps A = .err .singular :=
  inverse_refuses_singular heps A hsq
    (Matrix.det_eq_zero_of_column_eq_zero ⟨c, hc⟩ (fun i => hz i.val i.isLt))

theorem inverse_refuses_repeated_row {eps : K} (heps : 0 < eps) (A : Mat K) (hsq : A.h = A.w)
    (r s : Nat) (hr : r < A.h) (hs : s < A.h) (hne : r ≠ s)
    (heq : ∀ j, j < A.h → A.get r j = A.get s j) : inverse eps A = .err .singular := by
  apply inverse_refuses_singular heps A hsq
  apply Matrix.det_zero_of_row_eq (i := ⟨r, hr⟩) (j := ⟨s, hs⟩)
  · intro h; exact hne (Fin.mk.inj_iff.1 h)
  · funext j; exact heq j.val j.isLt

/-- **Error behaviour, complete.**  A non-square input gives `NonSquareMatrix`; a square input gives
`SingularMatrix` or a matrix — exactly as the factorisation decides — and a square input with zero
determinant always gives `SingularMatrix`; nothing panics. -/
theorem inverse_errors {eps : K} (heps : 0 < eps) (A : Mat K) :
    (A.h ≠ A.w → inverse eps A = .err .nonSquare) ∧
    (A.h = A.w → (inverse eps A = .err .singular ∧ plu eps A = .err .singular) ∨
        ∃ B, inverse eps A = .ok B) ∧
    (A.h = A.w → (A.toMatrix A.h A.h).det = 0 → inverse eps A = .err .singular) ∧
    inverse eps A ≠ .panic := by
  refine ⟨inverse_nonsquare eps A, ?_, inverse_refuses_singular heps A, inverse_never_panics eps A⟩
  intro hsq
  rcases SV.Props.C09.plu_square_outcome eps A hsq with hs | ⟨L, U, P, hp⟩
  · exact Or.inl ⟨(inverse_outcome eps A).2.1 hsq _ hs, hs⟩
  · exact Or.inr ((inverse_outcome eps A).2.2 hsq L U P hp)

/-! ### what is accepted (extension) -/

/-- the threshold only decides between success and refusal: an inverse obtained with one threshold
is obtained, unchanged, with every smaller one -/
theorem inverse_threshold_mono {eps eps' : K} (hle : eps' ≤ eps) {A B : Mat K}
    (h : inverse eps A = .ok B) : inverse eps' A = .ok B := by
  obtain ⟨_, L, U, P, xs, hp, _, _⟩ := inverse_ok h
  exact inverse_of_plu_unique hp h (SV.Props.C09.plu_threshold_mono hle hp)

/-- **A regular matrix is always inverted**, provided the threshold is small enough for its pivots:
if `det A ≠ 0` there is a positive `eps0` and one matrix `B` that `inverse` returns for every
threshold `0 < eps ≤ eps0`. -/
theorem inverse_accepts_regular (A : Mat K) (hsq : A.h = A.w)
    (hdet : (A.toMatrix A.h A.h).det ≠ 0) :
    ∃ eps0 : K, 0 < eps0 ∧ ∃ B, ∀ eps, 0 < eps → eps ≤ eps0 → inverse eps A = .ok B := by
  obtain ⟨eps0, h0, L, U, P, hplu⟩ := SV.Props.C09.plu_accepts_regular A hsq hdet
  have hp0 := hplu eps0 h0 (le_refl _)
  obtain ⟨B, hB⟩ := (inverse_outcome eps0 A).2.2 hsq L U P hp0
  exact ⟨eps0, h0, B, fun eps he hle => inverse_of_plu_unique hp0 hB (hplu eps he hle)⟩

/-- below that threshold, `inverse` succeeds exactly on the regular matrices -/
theorem inverse_ok_iff_det_ne_zero (A : Mat K) (hsq : A.h = A.w) :
    ∃ eps0 : K, 0 < eps0 ∧ ∀ eps, 0 < eps → eps ≤ eps0 →
      ((∃ B, inverse eps A = .ok B) ↔ (A.toMatrix A.h A.h).det ≠ 0) := by
  by_cases hdet : (A.toMatrix A.h A.h).det = 0
  · refine ⟨1, one_pos, fun eps he _ => ⟨?_, fun h => absurd hdet h⟩⟩
    rintro ⟨B, hB⟩
    rw [inverse_refuses_singular he A hsq hdet] at hB
    cases hB
  · obtain ⟨eps0, h0, B, hB⟩ := inverse_accepts_regular A hsq hdet
    exact ⟨eps0, h0, fun eps he hle => ⟨fun _ => hdet, fun _ => ⟨B, hB eps he hle⟩⟩⟩

/-- **Round trip.**  The inverse `B` of a well-formed `A` is itself invertible, and for every small
enough threshold `inverse B` returns `A`. -/
theorem inverse_roundtrip {eps : K} (heps : 0 < eps) {A B : Mat K} (hA : A.WF)
    (h : inverse eps A = .ok B) :
    ∃ eps0 : K, 0 < eps0 ∧ ∀ eps', 0 < eps' → eps' ≤ eps0 → inverse eps' B = .ok A := by
  obtain ⟨_, hBh, hBw, _⟩ := inverse_shape h
  have hdetB : (B.toMatrix B.h B.h).det ≠ 0 := by
    rw [hBh]
    intro h0
    have := inverse_det heps h
    rw [h0, mul_zero] at this
    exact zero_ne_one this
  obtain ⟨eps0, h0, A', hA'⟩ := inverse_accepts_regular B (by omega) hdetB
  refine ⟨eps0, h0, fun eps' he hle => ?_⟩
  have := hA' eps' he hle
  rw [this, inverse_involutive_mat heps he hA h this]

/-! ### non-vacuity: the hypotheses above are met by concrete runs over `ℚ`

(`decide +kernel` evaluates the model inside the kernel; no axiom is involved.) -/

section examples

/-- `f64::EPSILON` -/
def epsQ : ℚ := 1 / 4503599627370496

theorem epsQ_pos : 0 < epsQ := by norm_num [epsQ]

/-- the matrix of `plu::tests::test_known_solution`: its pivoting permutation is the 3-cycle with
`P = [[0,0,1],[1,0,0],[0,1,0]] ≠ Pᵀ` -/
def A3 : Mat ℚ := ⟨3, 3, #[0, 1, -2, 1, 0, 2, 3, -2, 2]⟩

/-- a 4×4 matrix whose pivoting permutation is a 4-cycle (each row is dominated by the entry right
of the diagonal, cyclically) -/
def A4 : Mat ℚ := ⟨4, 4, #[1, 4, 0, 0, 0, 1, 4, 0, 0, 0, 1, 4, 4, 0, 0, 1]⟩

def arrayOf : Outcome InvErr (Mat ℚ) → Option (Nat × Nat × Array ℚ)
  | .ok b => some (b.h, b.w, b.a)
  | _ => none

def permOf : Outcome DecompErr (Mat ℚ × Mat ℚ × Mat ℚ) → Option (Array ℚ)
  | .ok (_, _, p) => some p.a
  | _ => none

/-- the permutations are what the comments say: not symmetric -/
example : permOf (plu epsQ A3) = some #[0, 0, 1, 1, 0, 0, 0, 1, 0] := by decide +kernel
example : permOf (plu epsQ A4) = some #[0, 0, 0, 1, 1, 0, 0, 0, 0, 1, 0, 0, 0, 0, 1, 0] := by
  decide +kernel

/-- the model computes the exact inverses (checked by hand: `A3 · B3 = 1`, `255 · A4⁻¹` is the
circulant of `(-1, 4, -16, 64)`) -/
example : arrayOf (inverse epsQ A3) =
    some (3, 3, #[1/2, 1/4, 1/4, 1/2, 3/4, -1/4, -1/4, 3/8, -1/8]) := by decide +kernel
example : arrayOf (inverse epsQ A4) =
    some (4, 4, #[-1/255, 4/255, -16/255, 64/255, 64/255, -1/255, 4/255, -16/255,
                  -16/255, 64/255, -1/255, 4/255, 4/255, -16/255, 64/255, -1/255]) := by
  decide +kernel

/-- so the hypothesis of `inverse_right` / `inverse_left` / `inverse_involutive` is satisfiable … -/
theorem inverse_ok_example : ∃ B, inverse epsQ A3 = .ok B := by
  have h : (arrayOf (inverse epsQ A3)).isSome = true := by decide +kernel
  cases hp : inverse epsQ A3 with
  | ok v => exact ⟨v, rfl⟩
  | err e => rw [hp] at h; simp [arrayOf] at h
  | panic => rw [hp] at h; simp [arrayOf] at h

/-- … the conclusion of `inverse_right` on it … -/
example : ∃ B, inverse epsQ A3 = .ok B ∧ A3.toMatrix 3 3 * B.toMatrix 3 3 = 1 ∧
    B.toMatrix 3 3 * A3.toMatrix 3 3 = 1 := by
  obtain ⟨B, hB⟩ := inverse_ok_example
  exact ⟨B, hB, inverse_right epsQ_pos hB, inverse_left epsQ_pos hB⟩

/-- … the second inversion of `inverse_involutive` succeeds as well and returns `A3` … -/
example : ∃ B, inverse epsQ A3 = .ok B ∧
    (match inverse epsQ B with | .ok A' => A'.a = A3.a | _ => False) := by
  obtain ⟨B, hB⟩ := inverse_ok_example
  refine ⟨B, hB, ?_⟩
  have h2 : arrayOf (inverse epsQ ⟨3, 3, #[1/2, 1/4, 1/4, 1/2, 3/4, -1/4, -1/4, 3/8, -1/8]⟩) =
      some (3, 3, #[0, 1, -2, 1, 0, 2, 3, -2, 2]) := by decide +kernel
  have h1 : arrayOf (inverse epsQ A3) =
      some (3, 3, #[1/2, 1/4, 1/4, 1/2, 3/4, -1/4, -1/4, 3/8, -1/8]) := by decide +kernel
  rw [hB] at h1
  simp only [arrayOf, Option.some.injEq, Prod.mk.injEq] at h1
  obtain ⟨e1, e2, e3⟩ := h1
  have hBeq : B = ⟨3, 3, #[1/2, 1/4, 1/4, 1/2, 3/4, -1/4, -1/4, 3/8, -1/8]⟩ := by
    rcases B with ⟨bh, bw, ba⟩
    simp only at e1 e2 e3
    subst e1 e2 e3
    rfl
  rw [hBeq]
  cases hp : inverse epsQ ⟨3, 3, #[1/2, 1/4, 1/4, 1/2, 3/4, -1/4, -1/4, 3/8, -1/8]⟩ with
  | ok v =>
    rw [hp] at h2
    simp only [arrayOf, Option.some.injEq, Prod.mk.injEq] at h2
    exact h2.2.2
  | err e => rw [hp] at h2; simp [arrayOf] at h2
  | panic => rw [hp] at h2; simp [arrayOf] at h2

/-- … the hypothesis of `inverse_accepts_regular` holds for it … -/
example : (A3.toMatrix A3.h A3.h).det ≠ 0 := by
  obtain ⟨B, hB⟩ := inverse_ok_example
  intro h0
  have := inverse_det epsQ_pos hB
  rw [h0, zero_mul] at this
  exact zero_ne_one this

/-- … and the error branches are reached: a repeated row, a zero column, a non-square shape, the
empty matrix -/
example : inverse epsQ ⟨3, 3, #[1, 2, -1, 2, 0, 1, 1, 2, -1]⟩ = .err .singular :=
  inverse_refuses_repeated_row epsQ_pos _ rfl 0 2 (by decide) (by decide) (by decide)
    (by decide +kernel)
example : inverse epsQ ⟨2, 2, #[0, 1, 0, 2]⟩ = .err .singular :=
  inverse_refuses_zero_column epsQ_pos _ rfl 0 (by decide) (by decide +kernel)
example : inverse epsQ ⟨2, 3, #[1, 2, 3, 4, 5, 6]⟩ = .err .nonSquare :=
  inverse_nonsquare _ _ (by decide)
example : inverse epsQ ⟨0, 3, #[]⟩ = .err .nonSquare := inverse_nonsquare _ _ (by decide)
example : inverse epsQ ⟨0, 0, #[]⟩ = .ok ⟨0, 0, #[]⟩ := inverse_empty _ _ rfl rfl

end examples

end SV.Props.C10
