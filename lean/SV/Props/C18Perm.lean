import SV.Model.C18
import SV.Lemmas.C18
import Mathlib.Data.List.Perm.Basic
import Mathlib.Data.List.Rotate
import Mathlib.Algebra.BigOperators.Group.List.Basic
import Mathlib.Algebra.Order.Field.Basic
import Mathlib.Tactic.Ring
import Mathlib.Tactic.FieldSimp
import Mathlib.Tactic.Linarith
import Mathlib.Tactic.NormNum
/-!
# C18 — the descriptive statistics do not depend on the order of the sample

`arith_mean`, `std_dev` (both kinds) and `geom_mean` read the sample with a left-to-right fold
(`iter().sum()`).  In exact arithmetic the result of each of them is the same for every
rearrangement of the sample: for every `xs` and every permutation `ys` of it (`List.Perm xs ys`) the
whole outcome — the value, or the NaN (`none`) returned by the guards for too short samples — is
equal (`arithMean_perm`, `stdDev_perm`, `geomMean_perm`).  Nothing is assumed about the function
parameters `sqrt`, `exp`, `ln`: the arguments handed to them are already equal.

Consequences: the two halves of a sample can be exchanged (`*_append_comm`), the sample can be
reversed (`*_reverse`), rotated (`*_rotate`).

That is why a version of the code that "loses its first element" (or any element that depends on
the position) cannot be equal to this model: the mean of a strictly decreasing sample is strictly
larger than the mean of the sample without its first element (`mean_tail_lt_of_decreasing`), and the
function `xs ↦ mean (tail xs)` is not order independent (`drop_first_not_perm_invariant`), whereas
`arithMean` is.

Proof: `fsum_eq` (the fold from `-0.0` is `List.sum`), `List.Perm.sum_eq`, `List.Perm.map`,
`List.Perm.length_eq`.
-/
set_option linter.unusedSectionVars false

namespace SV.Props.C18Perm
open SV SV.C18

section field
variable {K : Type} [Field K]

/-! ### the accumulation loop -/

/-- the left-to-right accumulation `iter().sum()` (fold from `-0.0`) gives the same total for every
rearrangement of the summands -/
theorem fsum_perm {xs ys : List K} (h : xs.Perm ys) : fsum xs = fsum ys := by
  rw [fsum_eq, fsum_eq, h.sum_eq]

/-- the same after a function has been applied to every element (`ln x` for the geometric mean,
`(x - mean)²` for the deviation) -/
theorem fsum_map_perm (f : K → K) {xs ys : List K} (h : xs.Perm ys) :
    fsum (xs.map f) = fsum (ys.map f) :=
  fsum_perm (h.map f)

/-- `sum / n` is the same for every rearrangement of the sample -/
theorem meanRaw_perm {xs ys : List K} (h : xs.Perm ys) : meanRaw xs = meanRaw ys := by
  unfold meanRaw
  rw [fsum_perm h, h.length_eq]

/-! ### order independence of the three statistics -/

/-- `arith_mean` returns the same outcome (value, or NaN for the empty sample) on every permutation
of the sample -/
theorem arithMean_perm {xs ys : List K} (h : xs.Perm ys) : arithMean xs = arithMean ys := by
  unfold arithMean
  rw [meanRaw_perm h, h.length_eq]

/-- `std_dev` returns the same outcome on every permutation of the sample, for the population and
the sample kind alike, NaN outcomes (`n = 0`, or `n = 1` with the sample kind) included.  The
square root is an arbitrary function: its argument, the variance, is already the same. -/
theorem stdDev_perm (sqrt : K → K) (k : Kind) {xs ys : List K} (h : xs.Perm ys) :
    stdDev sqrt k xs = stdDev sqrt k ys := by
  unfold stdDev
  simp only
  rw [meanRaw_perm h, h.length_eq, fsum_map_perm _ h]

/-- population standard deviation: order independent -/
theorem stdDev_population_perm (sqrt : K → K) {xs ys : List K} (h : xs.Perm ys) :
    stdDev sqrt .population xs = stdDev sqrt .population ys :=
  stdDev_perm sqrt .population h

/-- sample standard deviation: order independent -/
theorem stdDev_sample_perm (sqrt : K → K) {xs ys : List K} (h : xs.Perm ys) :
    stdDev sqrt .sample xs = stdDev sqrt .sample ys :=
  stdDev_perm sqrt .sample h

/-- the deviation is undefined (NaN) on a sample exactly when it is undefined on each of its
permutations -/
theorem stdDev_none_perm (sqrt : K → K) (k : Kind) {xs ys : List K} (h : xs.Perm ys) :
    stdDev sqrt k xs = none ↔ stdDev sqrt k ys = none := by
  rw [stdDev_perm sqrt k h]

/-- `geom_mean` (`exp (mean (ln x))`) returns the same outcome on every permutation of the sample;
`exp` and `ln` are arbitrary functions, no positivity of the data is needed -/
theorem geomMean_perm (exp ln : K → K) {xs ys : List K} (h : xs.Perm ys) :
    geomMean exp ln xs = geomMean exp ln ys := by
  unfold geomMean
  rw [fsum_map_perm ln h, h.length_eq]

/-- all three statistics at once: a permutation of the sample changes none of the outcomes -/
theorem stats_perm (sqrt exp ln : K → K) {xs ys : List K} (h : xs.Perm ys) :
    arithMean xs = arithMean ys ∧
    stdDev sqrt .population xs = stdDev sqrt .population ys ∧
    stdDev sqrt .sample xs = stdDev sqrt .sample ys ∧
    geomMean exp ln xs = geomMean exp ln ys :=
  ⟨arithMean_perm h, stdDev_perm sqrt _ h, stdDev_perm sqrt _ h, geomMean_perm exp ln h⟩

/-! ### appending in either order -/

/-- the mean of `xs` followed by `ys` is the mean of `ys` followed by `xs` -/
theorem arithMean_append_comm (xs ys : List K) : arithMean (xs ++ ys) = arithMean (ys ++ xs) :=
  arithMean_perm List.perm_append_comm

/-- the deviation of `xs` followed by `ys` is the deviation of `ys` followed by `xs` -/
theorem stdDev_append_comm (sqrt : K → K) (k : Kind) (xs ys : List K) :
    stdDev sqrt k (xs ++ ys) = stdDev sqrt k (ys ++ xs) :=
  stdDev_perm sqrt k List.perm_append_comm

/-- the geometric mean of `xs` followed by `ys` is that of `ys` followed by `xs` -/
theorem geomMean_append_comm (exp ln : K → K) (xs ys : List K) :
    geomMean exp ln (xs ++ ys) = geomMean exp ln (ys ++ xs) :=
  geomMean_perm exp ln List.perm_append_comm

/-- putting a new observation in front of the sample or behind it gives the same mean -/
theorem arithMean_cons_eq_concat (a : K) (xs : List K) :
    arithMean (a :: xs) = arithMean (xs ++ [a]) :=
  arithMean_append_comm [a] xs

/-- putting a new observation in front of the sample or behind it gives the same deviation -/
theorem stdDev_cons_eq_concat (sqrt : K → K) (k : Kind) (a : K) (xs : List K) :
    stdDev sqrt k (a :: xs) = stdDev sqrt k (xs ++ [a]) :=
  stdDev_append_comm sqrt k [a] xs

/-- putting a new observation in front of the sample or behind it gives the same geometric mean -/
theorem geomMean_cons_eq_concat (exp ln : K → K) (a : K) (xs : List K) :
    geomMean exp ln (a :: xs) = geomMean exp ln (xs ++ [a]) :=
  geomMean_append_comm exp ln [a] xs

/-! ### reversal, rotation -/

/-- the mean of the reversed sample is the mean of the sample -/
theorem arithMean_reverse (xs : List K) : arithMean xs.reverse = arithMean xs :=
  arithMean_perm (List.reverse_perm xs)

/-- the deviation of the reversed sample is the deviation of the sample (both kinds) -/
theorem stdDev_reverse (sqrt : K → K) (k : Kind) (xs : List K) :
    stdDev sqrt k xs.reverse = stdDev sqrt k xs :=
  stdDev_perm sqrt k (List.reverse_perm xs)

/-- the geometric mean of the reversed sample is that of the sample -/
theorem geomMean_reverse (exp ln : K → K) (xs : List K) :
    geomMean exp ln xs.reverse = geomMean exp ln xs :=
  geomMean_perm exp ln (List.reverse_perm xs)

/-- the mean of a cyclically rotated sample is the mean of the sample -/
theorem arithMean_rotate (xs : List K) (n : Nat) : arithMean (xs.rotate n) = arithMean xs :=
  arithMean_perm (List.rotate_perm xs n)

/-- the deviation of a cyclically rotated sample is the deviation of the sample -/
theorem stdDev_rotate (sqrt : K → K) (k : Kind) (xs : List K) (n : Nat) :
    stdDev sqrt k (xs.rotate n) = stdDev sqrt k xs :=
  stdDev_perm sqrt k (List.rotate_perm xs n)

/-- the geometric mean of a cyclically rotated sample is that of the sample -/
theorem geomMean_rotate (exp ln : K → K) (xs : List K) (n : Nat) :
    geomMean exp ln (xs.rotate n) = geomMean exp ln xs :=
  geomMean_perm exp ln (List.rotate_perm xs n)

end field

/-! ### a dropped element is visible -/

section ordered
variable {K : Type} [Field K] [LinearOrder K] [IsStrictOrderedRing K]

private theorem sum_lt_length_mul (a : K) (t : List K) (hne : t ≠ []) (hlt : ∀ x ∈ t, x < a) :
    t.sum < (t.length : K) * a := by
  induction t with
  | nil => exact absurd rfl hne
  | cons y t ih =>
    have hy : y < a := hlt y (by simp)
    simp only [List.sum_cons, List.length_cons, Nat.cast_succ]
    by_cases ht : t = []
    · subst ht
      simpa using hy
    · have := ih ht (fun x hx => hlt x (List.mem_cons_of_mem _ hx))
      nlinarith

/-- if the first element of the sample is strictly larger than all the others (in particular: a
strictly decreasing sample of at least two elements), the mean of the sample without its first
element is strictly smaller than the mean of the sample: losing the first element is visible -/
theorem mean_tail_lt_of_first_largest (a : K) (t : List K) (hne : t ≠ [])
    (hlt : ∀ x ∈ t, x < a) (m m' : K)
    (h : arithMean (a :: t) = some m) (h' : arithMean t = some m') : m' < m := by
  have hlen : t.length ≠ 0 := fun e => hne (List.length_eq_zero_iff.mp e)
  unfold arithMean at h h'
  rw [if_neg (by simp)] at h
  rw [if_neg hlen] at h'
  simp only [Option.some.injEq] at h h'
  subst h; subst h'
  rw [meanRaw_eq, meanRaw_eq]
  have hn : (0 : K) < (t.length : K) := length_cast_pos hlen
  have hs := sum_lt_length_mul a t hne hlt
  simp only [List.sum_cons, List.length_cons, Nat.cast_succ]
  rw [div_lt_div_iff₀ hn (by linarith)]
  nlinarith

/-- the same for a strictly decreasing sample (`List.Pairwise (· > ·)`) with at least two elements:
the mean without the first element is strictly smaller -/
theorem mean_tail_lt_of_decreasing (xs : List K) (hdec : xs.Pairwise (· > ·))
    (hlen : 2 ≤ xs.length) (m m' : K)
    (h : arithMean xs = some m) (h' : arithMean xs.tail = some m') : m' < m := by
  match xs, hdec, hlen, h, h' with
  | a :: t, hdec, hlen, h, h' =>
    have hne : t ≠ [] := by
      intro e; subst e; simp at hlen
    exact mean_tail_lt_of_first_largest a t hne
      (fun x hx => (List.pairwise_cons.mp hdec).1 x hx) m m' h h'

end ordered

/-! ### non-vacuity and the dropped-element witness over ℚ -/

/-- the permutation theorem at a concrete sample: 3,1,2 and 1,2,3 have mean 2 -/
example : arithMean ([3, 1, 2] : List ℚ) = some 2 ∧ arithMean ([1, 2, 3] : List ℚ) = some 2 := by
  constructor <;> norm_num [arithMean, meanRaw, fsum]

example : arithMean ([3, 1, 2] : List ℚ) = arithMean ([1, 2, 3] : List ℚ) :=
  arithMean_perm (by decide)

example (sqrt : ℚ → ℚ) :
    stdDev sqrt .sample ([9, 2, 4] : List ℚ) = stdDev sqrt .sample ([2, 4, 9] : List ℚ) :=
  stdDev_perm sqrt .sample (by decide)

/-- the deviation is a defined value there, not a NaN on both sides -/
example (sqrt : ℚ → ℚ) : stdDev sqrt .sample ([9, 2, 4] : List ℚ) = some (sqrt 13) := by
  norm_num [stdDev, denom, meanRaw, fsum, powi, powiGo]

example (exp ln : ℚ → ℚ) :
    geomMean exp ln ([9, 2, 4] : List ℚ) = geomMean exp ln ([2, 4, 9] : List ℚ) :=
  geomMean_perm exp ln (by decide)

/-- dropped-element witness: the strictly decreasing sample 3,2,1 has mean 2; without its first
element the mean is 3/2 -/
theorem drop_first_changes_mean :
    arithMean ([3, 2, 1] : List ℚ) = some 2 ∧
    arithMean ([3, 2, 1] : List ℚ).tail = some (3 / 2) ∧
    arithMean ([3, 2, 1] : List ℚ).tail ≠ arithMean ([3, 2, 1] : List ℚ) := by
  refine ⟨?_, ?_, ?_⟩ <;> norm_num [arithMean, meanRaw, fsum]

/-- a mean that loses the first element of its input is not order independent: on the sample 3,2,1
and its permutation 1,2,3 it gives 3/2 and 5/2.  By `arithMean_perm` the model gives 2 on both, so
such a function is not the model. -/
theorem drop_first_not_perm_invariant :
    ∃ xs ys : List ℚ, xs.Perm ys ∧ arithMean xs = arithMean ys ∧
      arithMean xs.tail ≠ arithMean ys.tail := by
  refine ⟨[3, 2, 1], [1, 2, 3], by decide, arithMean_perm (by decide), ?_⟩
  norm_num [arithMean, meanRaw, fsum]

/-- no function that agrees with "mean of the sample without its first element" on the two samples
3,2,1 and 1,2,3 can be equal to `arithMean` -/
theorem drop_first_ne_model (f : List ℚ → Option ℚ)
    (h1 : f [3, 2, 1] = arithMean ([2, 1] : List ℚ)) : f ≠ arithMean := by
  intro e
  rw [e] at h1
  norm_num [arithMean, meanRaw, fsum] at h1

/-- the same witness for the deviation: the population deviation of 3,2,1 is `sqrt (2/3)`, without
the first element it is `sqrt (1/4)`; the arguments of `sqrt` differ -/
theorem drop_first_changes_variance (sqrt : ℚ → ℚ) :
    stdDev sqrt .population ([3, 2, 1] : List ℚ) = some (sqrt (2 / 3)) ∧
    stdDev sqrt .population ([3, 2, 1] : List ℚ).tail = some (sqrt (1 / 4)) := by
  constructor <;> norm_num [stdDev, denom, meanRaw, fsum, powi, powiGo]

/-- `mean_tail_lt_of_decreasing` at the witness -/
example : (3 / 2 : ℚ) < 2 :=
  mean_tail_lt_of_decreasing ([3, 2, 1] : List ℚ) (by decide) (by decide) 2 (3 / 2)
    drop_first_changes_mean.1 drop_first_changes_mean.2.1

end SV.Props.C18Perm
