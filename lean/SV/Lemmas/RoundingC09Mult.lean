import SV.Lemmas.RoundingC09Plu
/-!
The multiplier bound of partial pivoting at the rounding scalar `Fl M`.

Over a field the pivot search makes every multiplier `|l_ij| ≤ 1` (`SV.C09.PluInv.mult`).  At `Fl M`
the search compares the values `sabs x = if x < 0 then −x else x`, and the model charges the negation
one rounding (it assumes nothing about `rnd` but its relative accuracy), so
`|x|·(1 − u) ≤ sabs x ≤ |x|·(1 + u)`; the comparisons themselves are exact.  Hence after the swap
`|w_ki|·(1 − u) ≤ |w_ii|·(1 + u)` for every `k ≥ i`, and the multiplier `fl(w_ki / w_ii)` is at most

    (1 + u)² / (1 − u)      (`= 1` for `u = 0`; `≤ 1 + 4u` for `u ≤ 1/4`)

in size.  (In IEEE arithmetic negation is exact and rounding is monotone, so there `|l_ij| ≤ 1`
exactly; the model does not know that.)  `PluMult` is the corresponding loop invariant, carried next
to `PluFl`.
-/
set_option linter.unusedSectionVars false

namespace SV.C09
open SV Finset

variable {M : FlModel}

/-- the bound on the multipliers in the model `M` -/
noncomputable def multBound (M : FlModel) : ℝ := (1 + M.u) ^ 2 / (1 - M.u)

theorem multBound_ideal : multBound FlModel.ideal = 1 := by
  simp [multBound, FlModel.ideal]

/-- `|x|·(1 − u) ≤ sabs x ≤ |x|·(1 + u)` -/
theorem sabs_val_bounds (x : Fl M) :
    |x.val| * (1 - M.u) ≤ (sabs x).val ∧ (sabs x).val ≤ |x.val| * (1 + M.u) := by
  unfold sabs
  have hu := M.hu.1
  by_cases hx : x < 0
  · rw [if_pos hx, Fl.neg_val]
    rw [Fl.lt_iff, Fl.zero_val] at hx
    obtain ⟨δ, hδ, hr⟩ := M.hrnd (-x.val)
    obtain ⟨h1, h2⟩ := abs_le.mp hδ
    rw [hr, abs_of_neg hx]
    constructor
    · exact mul_le_mul_of_nonneg_left (by linarith) (by linarith)
    · exact mul_le_mul_of_nonneg_left (by linarith) (by linarith)
  · rw [if_neg hx]
    rw [Fl.lt_iff, Fl.zero_val, not_lt] at hx
    rw [abs_of_nonneg hx]
    constructor <;> nlinarith

/-- the search loop at `Fl M` (comparisons are those of the real values): it keeps a maximum of `v`
over `start :: l` -/
theorem pivot_fold_max (v : ℕ → Fl M) (l : List ℕ) (acc : ℕ × Fl M) (hacc : acc.2 = v acc.1) :
    (l.foldl (fun (acc : ℕ × Fl M) k => if acc.2 < v k then (k, v k) else acc) acc).2
      = v (l.foldl (fun (acc : ℕ × Fl M) k => if acc.2 < v k then (k, v k) else acc) acc).1 ∧
    (v acc.1).val
      ≤ (v (l.foldl (fun (acc : ℕ × Fl M) k => if acc.2 < v k then (k, v k) else acc) acc).1).val ∧
    ∀ k ∈ l, (v k).val
      ≤ (v (l.foldl (fun (acc : ℕ × Fl M) k => if acc.2 < v k then (k, v k) else acc) acc).1).val := by
  induction l generalizing acc with
  | nil => exact ⟨hacc, le_refl _, fun k hk => by simp at hk⟩
  | cons a l ih =>
    simp only [List.foldl_cons]
    by_cases hlt : acc.2 < v a
    · rw [if_pos hlt]
      obtain ⟨h1, h3, h4⟩ := ih (a, v a) rfl
      refine ⟨h1, ?_, ?_⟩
      · rw [hacc, Fl.lt_iff] at hlt
        exact le_trans (le_of_lt hlt) h3
      · intro k hk
        rcases List.mem_cons.1 hk with hk | hk
        · rw [hk]; exact h3
        · exact h4 k hk
    · rw [if_neg hlt]
      obtain ⟨h1, h3, h4⟩ := ih acc hacc
      refine ⟨h1, h3, ?_⟩
      intro k hk
      rcases List.mem_cons.1 hk with hk | hk
      · rw [hk]
        rw [hacc, Fl.lt_iff, not_lt] at hlt
        exact le_trans hlt h3
      · exact h4 k hk

/-- the pivot row maximises `sabs` over the column from the diagonal down -/
theorem pivotRow_max (lu : Mat (Fl M)) (n i : ℕ) :
    ∀ k, i ≤ k → k < n →
      (sabs (lu.get k i)).val ≤ (sabs (lu.get (pivotRow lu n i) i)).val := by
  have := pivot_fold_max (fun k => sabs (lu.get k i)) (List.range' (i+1) (n - (i+1)))
    (i, sabs (lu.get i i)) rfl
  obtain ⟨_, h3, h4⟩ := this
  have hdef : pivotRow lu n i = ((List.range' (i+1) (n - (i+1))).foldl
      (fun (acc : ℕ × Fl M) k => if acc.2 < sabs (lu.get k i) then (k, sabs (lu.get k i)) else acc)
      (i, sabs (lu.get i i))).1 := rfl
  rw [← hdef] at h3 h4
  intro k hik hk
  rcases Nat.eq_or_lt_of_le hik with h | h
  · rw [← h]; exact h3
  · apply h4 k
    rw [List.mem_range'_1]
    omega

/-- after the swap the diagonal entry dominates its column: `|w_ki|·(1 − u) ≤ |w_ii|·(1 + u)` -/
theorem pluSwap_max (n : ℕ) (st : Mat (Fl M) × Mat (Fl M)) (i : ℕ) (hi : i < n)
    (hh : st.1.h = n) (hw : st.1.w = n) (ph : st.2.h = n) (pw : st.2.w = n) :
    ∀ k, i ≤ k → k < n →
      |((pluSwap n st i).1.get k i).val| * (1 - M.u)
        ≤ |((pluSwap n st i).1.get i i).val| * (1 + M.u) := by
  obtain ⟨τ, hτ, _, _, τbound, τmin, hget, _⟩ := pluSwap_get n st i hi hh hw ph pw
  intro k hik hk
  rw [(hget k i hk hi).1, (hget i i hi hi).1]
  have e : τ i = pivotRow st.1 n i := by rw [hτ, Equiv.swap_apply_right]
  have hk' : i ≤ τ k := by
    have := τmin k
    omega
  have hmax := pivotRow_max st.1 n i (τ k) hk' (τbound k hk)
  rw [e]
  exact ((sabs_val_bounds _).1.trans hmax).trans (sabs_val_bounds _).2

/-- the multipliers stored so far are at most `(1+u)²/(1−u)` in size -/
def PluMult (n i : ℕ) (W : Mat (Fl M)) : Prop :=
  ∀ r c, r < n → c < min r i → |(W.get r c).val| ≤ multBound M

theorem pluMult_init (n : ℕ) (W : Mat (Fl M)) : PluMult n 0 W := by
  intro r c _ hc
  simp at hc

theorem pluSwap_mult {n i : ℕ} {st : Mat (Fl M) × Mat (Fl M)} (hi : i < n)
    (hh : st.1.h = n) (hw : st.1.w = n) (ph : st.2.h = n) (pw : st.2.w = n)
    (h : PluMult n i st.1) : PluMult n i (pluSwap n st i).1 := by
  obtain ⟨τ, _, _, _, τbound, τmin, hget, _⟩ := pluSwap_get n st i hi hh hw ph pw
  intro x c hx hc
  rw [(hget x c hx (by omega)).1]
  exact h (τ x) c (τbound x hx) (by rw [τmin]; exact hc)

theorem pluElim_mult {n i : ℕ} {W : Mat (Fl M)} (hi : i < n) (h : PluMult n i W)
    (hd : (W.get i i).val ≠ 0)
    (hmax : ∀ k, i ≤ k → k < n → |(W.get k i).val| * (1 - M.u) ≤ |(W.get i i).val| * (1 + M.u)) :
    PluMult n (i + 1) (pluElim n W i) := by
  intro x c hx hc
  have hcn : c < n := by omega
  rw [pluElim_get' n W i hx hcn]
  by_cases hci : c < i
  · have : (if i < x then
          (if c = i then W.get x i / W.get i i
           else if i < c then W.get x c - W.get x i / W.get i i * W.get i c else W.get x c)
        else W.get x c) = W.get x c := by
      split_ifs <;> first | rfl | omega
    rw [this]
    exact h x c hx (by omega)
  · have hce : c = i := by omega
    subst hce
    have hix : c < x := by omega
    rw [if_pos hix, if_pos rfl, Fl.div_val]
    obtain ⟨δ, hδ, hr⟩ := M.hrnd ((W.get x c).val / (W.get c c).val)
    have hu := M.hu
    have h1u : 0 < 1 - M.u := by linarith
    have hpos : 0 < |(W.get c c).val| := abs_pos.mpr hd
    have hq : |(W.get x c).val / (W.get c c).val| ≤ (1 + M.u) / (1 - M.u) := by
      rw [abs_div, div_le_div_iff₀ hpos h1u]
      have := hmax x (by omega) hx
      linarith
    have hδ' : |1 + δ| ≤ 1 + M.u := by
      obtain ⟨h1, h2⟩ := abs_le.mp hδ
      rw [abs_le]
      constructor <;> linarith
    rw [hr, abs_mul]
    calc |(W.get x c).val / (W.get c c).val| * |1 + δ|
        ≤ (1 + M.u) / (1 - M.u) * (1 + M.u) :=
          mul_le_mul hq hδ' (abs_nonneg _) (div_nonneg (by linarith) h1u.le)
      _ = multBound M := by
          unfold multBound
          field_simp

/-- one pass keeps both invariants -/
theorem pluStep_fl_mult {n : ℕ} {A : Mat (Fl M)} {eps : Fl M} (heps : 0 < eps.val) {i : ℕ}
    {st st' : Mat (Fl M) × Mat (Fl M)} (hi : i < n)
    (h : (∃ σ, PluFl n A eps i st σ) ∧ PluMult n i st.1)
    (hs : pluStep eps n st i = some st') :
    (∃ σ, PluFl n A eps (i+1) st' σ) ∧ PluMult n (i+1) st'.1 := by
  refine ⟨pluStep_fl heps hi h.1 hs, ?_⟩
  obtain ⟨⟨σ, hσ⟩, hm⟩ := h
  have hm' := pluSwap_mult hi hσ.hh hσ.hw hσ.ph hσ.pw hm
  have hmax := pluSwap_max n st i hi hσ.hh hσ.hw hσ.ph hσ.pw
  unfold pluStep at hs
  dsimp only at hs
  split_ifs at hs with hg
  simp only [Option.some.injEq] at hs
  subst hs
  exact pluElim_mult hi hm' (ne_zero_of_not_sabs_lt heps hg) hmax

/-- reading both invariants off a successful run -/
theorem plu_ok_fl_mult {eps : Fl M} (heps : 0 < eps.val) {A L U P : Mat (Fl M)}
    (h : plu eps A = .ok (L, U, P)) :
    ∃ lu, PluMult A.h A.h lu ∧ L = splitL A.h lu ∧ U = splitU A.h lu := by
  unfold plu at h
  split_ifs at h with hsq
  dsimp only at h
  have hsq' : A.h = A.w := not_not.mp hsq
  cases hit : iter (pluStep eps A.h) A.h 0 (A, Mat.ident A.h) with
  | none => simp [hit] at h
  | some st =>
    simp only [hit, Outcome.ok.injEq, Prod.mk.injEq] at h
    obtain ⟨h1, h2, _⟩ := h
    have := iter_inv (pluStep eps A.h)
      (fun i st => (∃ σ, PluFl A.h A eps i st σ) ∧ PluMult A.h i st.1) A.h
      (fun i s s' hi hI hs => pluStep_fl_mult heps hi hI hs) A.h 0 _ _ (by omega)
      ⟨⟨1, pluFl_init A eps A.h rfl hsq'.symm⟩, pluMult_init A.h A⟩ hit
    simp only [Nat.zero_add] at this
    exact ⟨st.1, this.2, h1.symm, h2.symm⟩

end SV.C09
