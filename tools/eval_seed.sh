#!/bin/bash
# eval_seed.sh <Cxx> <worktree> [<id>]: confirm a seeded breaking change and run the check against it.
# Keeps the confirmed seed under /verif/seeded/<id>/ (patch.diff, demo.rs, notes.md, meta.json).
set -u
P=$1; W=$2; ID=${3:-$P}
cd "$W" || exit 2
export CARGO_NET_OFFLINE=true
[ -f seed/patch.diff ] || { echo "no seed/patch.diff"; exit 2; }
mkdir -p /tmp/seedtmp
# where the demonstration lives: spindalis/tests (public API) or spindalis_core/tests (needs the verif hooks)
PKG=spindalis; FLAGS=""
if [ -f spindalis_core/tests/seed_demo.rs ]; then PKG=spindalis_core; FLAGS="--cfg spindalis_verif"; fi
if [ -f spindalis_macros/tests/seed_demo.rs ]; then PKG=spindalis_macros; fi
DEMO=$PKG/tests/seed_demo.rs
cp $DEMO /tmp/seedtmp/$ID.rs 2>/dev/null || cp seed/demo.rs /tmp/seedtmp/$ID.rs
rm -f spindalis/tests/seed_demo.rs spindalis_core/tests/seed_demo.rs spindalis_macros/tests/seed_demo.rs
# 1. suite with the change
SUITE=$(cargo test --workspace --no-fail-fast --offline 2>&1 | grep -E "^test result" | awk '{p+=$4; f+=$6} END {print p" passed "f" failed"}')
echo "suite with change: $SUITE"
# 2. demo with the change
mkdir -p $PKG/tests; cp /tmp/seedtmp/$ID.rs $DEMO
DW=$(RUSTFLAGS="$FLAGS" cargo test -p $PKG --test seed_demo --offline 2>&1 | grep -E "^test result|error" | tail -1)
echo "demo with change: $DW"
# 3. demo without the change
git apply -R seed/patch.diff || { echo "cannot reverse patch"; exit 2; }
DO=$(RUSTFLAGS="$FLAGS" cargo test -p $PKG --test seed_demo --offline 2>&1 | grep -E "^test result|error" | tail -1)
echo "demo without change: $DO"
git apply seed/patch.diff
rm -f $DEMO
# 4. the check
cd /verif
OUT=$(VERIF_REPO=$W ./check $P 2>&1 | tail -4); RC=$?
QUICK=$(echo "$OUT" | grep -c "^VIOLATION")
echo "$OUT"
TH=""
if [ "$QUICK" = "0" ]; then
  TH=$(VERIF_REPO=$W ./check $P --tier thorough 2>&1 | tail -3)
  echo "--- thorough:"; echo "$TH"
fi
REPLAY=$(ls -t replays/$P-*.json 2>/dev/null | head -1)
mkdir -p seeded/$ID
cp $W/seed/patch.diff seeded/$ID/patch.diff; cp /tmp/seedtmp/$ID.rs seeded/$ID/demo.rs; cp $W/seed/notes.md seeded/$ID/notes.md 2>/dev/null
[ -n "$REPLAY" ] && cp $REPLAY seeded/$ID/replay.json
python3 - "$P" "$ID" "$SUITE" "$DW" "$DO" "$QUICK" "$OUT" "$TH" <<'PY'
import sys, json
P, ID, suite, dw, do, quick, out, th = sys.argv[1:9]
caught_quick = quick != "0"
caught_th = "VIOLATION" in th
json.dump({"property": P, "id": ID,
  "confirmed": {"suite_with_change": suite, "demo_with_change": dw, "demo_without_change": do},
  "check_quick": {"caught": caught_quick, "tail": out[-600:]},
  "check_thorough": ({"caught": caught_th, "tail": th[-600:]} if not caught_quick else None),
  "ran": ["cargo test --workspace --no-fail-fast --offline (with the change, demo removed)",
          "cargo test -p spindalis --test seed_demo --offline (with and without the change)",
          f"VERIF_REPO=<worktree> ./check {P} [--tier thorough]"],
  "needs": "see notes.md"}, open(f"/verif/seeded/{ID}/meta.json", "w"), indent=1)
print("caught quick:", caught_quick, " caught thorough:", caught_th)
PY
rm -f replays/$P-*.json
