import SV.Lemmas.C19Num
import SV.Lemmas.C19Chain
import SV.Lemmas.C19Wf
/-!
Lemmas for C19, display part (character level): the lexer reads the text `Display` prints for a
well-formed tree back as the tokens `undot (ri e).1`, and the display power computed on the text is the one
computed on the tokens (`render_spelled`).
-/
namespace SV.C19
open SV SV.Text

/-- `input.replace(' ', "")` -/
def despace (s : List Char) : List Char := s.filter (· ≠ ' ')

@[simp] theorem despace_append (a b : List Char) : despace (a ++ b) = despace a ++ despace b := by
  simp [despace]
@[simp] theorem despace_nil : despace [] = [] := rfl
theorem despace_cons_ne {c : Char} (h : c ≠ ' ') (s : List Char) : despace (c :: s) = c :: despace s := by
  simp [despace, h]
@[simp] theorem despace_space (s : List Char) : despace (' ' :: s) = despace s := by
  simp [despace]

/-- the first character of `rest` (if any) does not satisfy `p` -/
def HeadNot (p : Char → Bool) (rest : List Char) : Prop := ∀ d ds, rest = d :: ds → p d = false

theorem takeWhile_append_stop {p : Char → Bool} {a rest : List Char} (ha : ∀ c ∈ a, p c = true)
    (hr : HeadNot p rest) : (a ++ rest).takeWhile p = a ∧ (a ++ rest).dropWhile p = rest := by
  induction a with
  | nil =>
    cases rest with
    | nil => simp
    | cons d ds =>
      have := hr d ds rfl
      simp [this]
  | cons c a ih =>
    have hc := ha c (by simp)
    have := ih fun c hc => ha c (List.mem_cons_of_mem _ hc)
    simp [hc, this.1, this.2]

def isNumChar (d : Char) : Bool := isAsciiDigit d || d = '.'

/-- the spelling of `t` is not extended by what follows -/
def NoMerge (t : Tok Dec) (rest : List Char) : Prop :=
  (isNumTok t = true → HeadNot isNumChar rest) ∧ (isLetterTok t = true → HeadNot isAsciiLetter rest)

/-- `s` (without spaces) is lexed as the tokens of `is` in every context that does not extend the last one -/
def Spelled (s : List Char) (is : List Item) : Prop :=
  ∀ rest more, Lexed rest more → (∀ x ∈ is.getLast?, NoMerge x.1 rest) → Lexed (s ++ rest) (undot is ++ more)

def CharFits (c : Char) (t : Tok Dec) : Prop :=
  (isNumChar c = true ↔ isNumTok t = true) ∧ (isAsciiLetter c = true → isLetterTok t = true)

/-- the text starts with a non-space character that belongs to the first token -/
def FirstFits (s : List Char) (is : List Item) : Prop :=
  ∃ c s' t b is', s = c :: s' ∧ c ≠ ' ' ∧ is = (t, b) :: is' ∧ CharFits c t

/-- text (with spaces) and the items it is lexed to -/
def SInv (s : List Char) (is : List Item) : Prop := Spelled (despace s) is ∧ FirstFits s is

theorem undot_append (a b : List Item) : undot (a ++ b) = undot a ++ undot b := by simp [undot]

theorem FirstFits.ne_nil {s : List Char} {is : List Item} (h : FirstFits s is) : is ≠ [] := by
  obtain ⟨c, s', t, b, is', -, -, h, -⟩ := h
  rw [h]; simp

theorem sinv_append {s1 s2 : List Char} {i1 i2 : List Item} (h1 : SInv s1 i1) (h2 : SInv s2 i2)
    (hj : ∀ x ∈ i1.getLast?, ∀ y ∈ i2.head?, ¬ Clash x.1 y.1) : SInv (s1 ++ s2) (i1 ++ i2) := by
  obtain ⟨c, s', t, b, is', hs2, hc, hi2, hfit⟩ := h2.2
  refine ⟨?_, ?_⟩
  · intro rest more hL hN
    rw [despace_append, List.append_assoc, undot_append, List.append_assoc]
    apply h1.1
    · apply h2.1 _ _ hL
      intro x hx
      exact hN x (by rw [getLast?_append_ne_nil _ h2.2.ne_nil]; exact hx)
    · intro x hx
      have hcl := hj x hx (t, b) (by rw [hi2]; simp)
      have hds : despace s2 ++ rest = c :: (despace s' ++ rest) := by
        rw [hs2, despace_cons_ne hc]; rfl
      rw [hds]
      refine ⟨fun hn d ds he => ?_, fun hl d ds he => ?_⟩
      · cases he
        cases hcn : isNumChar c with
        | false => rfl
        | true => exact absurd (Or.inl ⟨hn, hfit.1.mp hcn⟩) hcl
      · cases he
        cases hcn : isAsciiLetter c with
        | false => rfl
        | true => exact absurd (Or.inr ⟨hl, hfit.2 hcn⟩) hcl
  · obtain ⟨c1, s1', t1, b1, is1', hs1, hc1, hi1, hfit1⟩ := h1.2
    exact ⟨c1, s1' ++ s2, t1, b1, is1' ++ i2, by rw [hs1]; rfl, hc1, by rw [hi1]; rfl, hfit1⟩

/-- a one-character token that the lexer reads on its own -/
theorem sinv_sym {ch : Char} {t : Tok Dec} (b : Bool) (hstep : ∀ rest, lexStep ch rest = .ok ([t], rest))
    (hsp : ch ≠ ' ') (hnum : isNumChar ch = false) (hlet : isAsciiLetter ch = false)
    (htn : isNumTok t = false) : SInv [ch] [(t, b)] := by
  refine ⟨?_, ⟨ch, [], t, b, [], rfl, hsp, rfl, ?_, ?_⟩⟩
  · intro rest more hL _
    rw [despace_cons_ne hsp]
    exact Lexed.step (hstep rest) hL
  · rw [hnum, htn]
  · rw [hlet]; intro h; cases h

theorem sinv_lp (b : Bool) : SInv ['('] [(.lp, b)] := sinv_sym b (fun _ => rfl) (by decide) rfl rfl rfl
theorem sinv_rp (b : Bool) : SInv [')'] [(.rp, b)] := sinv_sym b (fun _ => rfl) (by decide) rfl rfl rfl

theorem sinv_op (o : Op) (b : Bool) : SInv o.sym.toList [(.op o, b)] := by
  cases o
  · exact sinv_sym (ch := '+') b (fun _ => rfl) (by decide) rfl rfl rfl
  · exact sinv_sym (ch := '-') b (fun _ => rfl) (by decide) rfl rfl rfl
  · exact sinv_sym (ch := '/') b (fun _ => rfl) (by decide) rfl rfl rfl
  · exact sinv_sym (ch := '*') b (fun _ => rfl) (by decide) rfl rfl rfl
  · exact sinv_sym (ch := '·') b (fun _ => rfl) (by decide) rfl rfl rfl
  · exact sinv_sym (ch := '%') b (fun _ => rfl) (by decide) rfl rfl rfl
  · exact sinv_sym (ch := '^') b (fun _ => rfl) (by decide) rfl rfl rfl
  · exact sinv_sym (ch := '!') b (fun _ => rfl) (by decide) rfl rfl rfl

/-- a run of letters followed by a non-letter -/
theorem lexStep_letters {c : Char} {cs rest : List Char} (hrun : ∀ d ∈ c :: cs, isAsciiLetter d = true)
    (hrest : HeadNot isAsciiLetter rest) :
    lexStep c (cs ++ rest) = .ok (runToks (c :: cs), rest) := by
  have hc := hrun c (by simp)
  have hnd : ¬ (isAsciiDigit c = true ∨ c = '.') := by
    have := (isAsciiLetter_iff c).mp hc
    rintro (h | h)
    · have := (isAsciiDigit_iff c).mp h; omega
    · subst h; revert hc; decide
  have := takeWhile_append_stop hrun hrest
  unfold lexStep
  rw [if_neg hnd, if_pos hc]
  rw [← List.cons_append, this.1, this.2]

theorem constOfName_letter (c : Char) (hc : isAsciiLetter c = true) (h1 : c ≠ 'e') (h2 : c ≠ 'E') :
    constOfName [c] = none := by
  have key : ∀ n : Fin 128, isAsciiLetter (Char.ofNat n) = true → Char.ofNat n ≠ 'e' → Char.ofNat n ≠ 'E' →
      constOfName [Char.ofNat n] = none := by decide
  have hlt : c.toNat < 128 := by
    have := (isAsciiLetter_iff c).mp hc; omega
  have hc' : Char.ofNat c.toNat = c := Char.ofNat_toNat c
  have := key ⟨c.toNat, hlt⟩
  simp only [hc'] at this
  exact this hc h1 h2

theorem sinv_var {s : String} (hs : VarName s) (b : Bool) : SInv s.toList [(.var s, b)] := by
  obtain ⟨c, rfl, hc, h1, h2⟩ := hs
  have hsp : c ≠ ' ' := by rintro rfl; revert hc; decide
  have hnd : isNumChar c = false := by
    have := (isAsciiLetter_iff c).mp hc
    unfold isNumChar
    cases hd : isAsciiDigit c with
    | true => have := (isAsciiDigit_iff c).mp hd; omega
    | false =>
      simp only [Bool.false_or, decide_eq_false_iff_not]
      rintro rfl; revert hc; decide
  rw [String.toList_singleton]
  refine ⟨?_, ⟨c, [], _, b, [], rfl, hsp, rfl, ?_, fun _ => rfl⟩⟩
  · intro rest more hL hN
    rw [despace_cons_ne hsp]
    have hrest : HeadNot isAsciiLetter rest := (hN (.var (String.singleton c), b) (by simp)).2 rfl
    have := lexStep_letters (c := c) (cs := []) (by simpa using hc) hrest
    simp only [List.nil_append] at this
    have hrt : runToks [c] = [.var (String.singleton c)] := by
      simp only [runToks, letterTok, constOfName_letter c hc h1 h2]
    rw [hrt] at this
    exact Lexed.step this hL
  · rw [hnd]; simp [isNumTok]

theorem sinv_const (k : Const) (b : Bool) : SInv k.sym.toList [(.const k, b)] := by
  cases k
  · exact sinv_sym (ch := 'π') b (fun _ => rfl) (by decide) rfl rfl rfl
  · -- `e`
    refine ⟨?_, ⟨'e', [], _, b, [], rfl, by decide, rfl, ?_, fun _ => rfl⟩⟩
    · intro rest more hL hN
      have hrest : HeadNot isAsciiLetter rest := (hN (.const .e, b) (by simp)).2 rfl
      have := lexStep_letters (c := 'e') (cs := []) (by decide) hrest
      exact Lexed.step this hL
    · constructor <;> intro h <;> cases h
  · exact sinv_sym (ch := 'τ') b (fun _ => rfl) (by decide) rfl rfl rfl
  · exact sinv_sym (ch := 'ϕ') b (fun _ => rfl) (by decide) rfl rfl rfl

/-- a function name with its opening parenthesis -/
theorem sinv_func (f : Func) : SInv (f.name.toList ++ ['(']) [(.func f, false), (.lp, false)] := by
  have hstop : ∀ rest : List Char, HeadNot isAsciiLetter ('(' :: rest) := by
    intro rest d ds he; cases he; rfl
  have main : ∀ (c : Char) (cs : List Char), f.name.toList = c :: cs →
      (∀ d ∈ c :: cs, isAsciiLetter d = true) → runToks (c :: cs) = [.func f] → c ≠ ' ' →
      isNumChar c = false → SInv (f.name.toList ++ ['(']) [(.func f, false), (.lp, false)] := by
    intro c cs hname hrun hrt hsp hnd
    refine ⟨?_, ⟨c, cs ++ ['('], _, false, _, by rw [hname]; rfl, hsp, rfl, ?_, fun _ => rfl⟩⟩
    · intro rest more hL _
      have hds : despace (f.name.toList ++ ['(']) = c :: (cs ++ '(' :: []) := by
        rw [hname]
        simp only [despace, ne_eq, decide_not]
        rw [List.filter_eq_self.mpr]
        · rfl
        · intro d hd
          rcases List.mem_append.mp hd with hd | hd
          · have := hrun d hd
            simp only [Bool.not_eq_eq_eq_not, Bool.not_true, decide_eq_false_iff_not]
            rintro rfl; revert this; decide
          · simp only [List.mem_singleton] at hd; subst hd; decide
      rw [hds]
      have h1 := lexStep_letters hrun (hstop rest)
      rw [hrt] at h1
      have h2 : Lexed ('(' :: rest) (.lp :: more) := Lexed.step (c := '(') (toks := [.lp]) rfl hL
      have := Lexed.step h1 h2
      simpa [undot] using this
    · rw [hnd]; simp [isNumTok]
  cases f
  · exact main 's' ['i', 'n'] rfl (by decide) (by decide) (by decide) rfl
  · exact main 'c' ['o', 's'] rfl (by decide) (by decide) (by decide) rfl
  · exact main 't' ['a', 'n'] rfl (by decide) (by decide) (by decide) rfl
  · exact main 'c' ['o', 't'] rfl (by decide) (by decide) (by decide) rfl
  · exact main 'l' ['o', 'g'] rfl (by decide) (by decide) (by decide) rfl
  · exact main 'l' ['n'] rfl (by decide) (by decide) (by decide) rfl

/-- a printed literal -/
theorem sinv_num {d : Dec} (hd : d.neg = false) (b : Bool) : SInv (fmtDec d).toList [(.num (canon d), b)] := by
  obtain ⟨u, hu, hipne, hrender, hval⟩ := fmtDec_spec d hd
  obtain ⟨c, ip', hip⟩ := List.exists_cons_of_ne_nil hipne
  have hall : ∀ x ∈ u.render, isNumChar x = true := by
    intro x hx
    rcases UDec.mem_render hu hx with h | h
    · simp [isNumChar, h]
    · simp [isNumChar, h]
  have hcd : isAsciiDigit c = true := hu.ip_digits c (by rw [hip]; simp)
  have hsp : ∀ x ∈ u.render, x ≠ ' ' := by
    intro x hx; rintro rfl; have := hall _ hx; revert this; decide
  have hds : despace u.render = u.render := by
    unfold despace
    rw [List.filter_eq_self]
    intro x hx; simpa using hsp x hx
  have hcons : u.render = c :: (ip' ++ (if u.dot then '.' :: u.fp else [])) := by
    unfold UDec.render; rw [hip]; rfl
  rw [hrender]
  refine ⟨?_, ⟨c, _, _, b, [], hcons, hsp c (by rw [hcons]; simp), rfl, ?_, ?_⟩⟩
  · intro rest more hL hN
    rw [hds]
    have hrest : HeadNot isNumChar rest := (hN (.num (canon d), b) (by simp)).1 rfl
    have htw := takeWhile_append_stop hall hrest
    have hstep : lexStep c ((ip' ++ (if u.dot then '.' :: u.fp else [])) ++ rest) =
        .ok ([.num (canon d)], rest) := by
      unfold lexStep
      rw [if_pos (Or.inl hcd)]
      have e1 : (c :: ((ip' ++ (if u.dot then '.' :: u.fp else [])) ++ rest)) = u.render ++ rest := by
        rw [hcons]; rfl
      rw [e1]
      have htw1 : List.takeWhile (fun d => isAsciiDigit d || decide (d = '.')) (u.render ++ rest) = u.render := htw.1
      have htw2 : List.dropWhile (fun d => isAsciiDigit d || decide (d = '.')) (u.render ++ rest) = rest := htw.2
      rw [htw1, htw2, parseUDec_render hu]
      simp only
      have : canon d = ⟨false, u.mant, u.fp.length⟩ := by
        unfold canon
        rw [← hval, hd]
      rw [this]
    have := Lexed.step hstep hL
    rw [hcons]
    simpa [undot] using this
  · simp [isNumChar, hcd, isNumTok]
  · intro hl
    have := (isAsciiLetter_iff c).mp hl
    have := (isAsciiDigit_iff c).mp hcd
    omega


theorem noClash_sym_left {t : Tok Dec} (ht : isSym t = true) (y : Tok Dec) : ¬ Clash t y := by
  cases t <;> simp_all [isSym, Clash, isNumTok, isLetterTok]

theorem noClash_sym_right (x : Tok Dec) {t : Tok Dec} (ht : isSym t = true) : ¬ Clash x t := by
  cases t <;> simp_all [isSym, Clash, isNumTok, isLetterTok]

theorem sinv_append_symL {s1 s2 : List Char} {i1 i2 : List Item} (h1 : SInv s1 i1) (h2 : SInv s2 i2)
    (hs : ∀ x ∈ i1.getLast?, isSym x.1 = true) : SInv (s1 ++ s2) (i1 ++ i2) :=
  sinv_append h1 h2 fun x hx y _ => noClash_sym_left (hs x hx) y.1

theorem sinv_append_symR {s1 s2 : List Char} {i1 i2 : List Item} (h1 : SInv s1 i1) (h2 : SInv s2 i2)
    (hs : ∀ y ∈ i2.head?, isSym y.1 = true) : SInv (s1 ++ s2) (i1 ++ i2) :=
  sinv_append h1 h2 fun x _ y hy => noClash_sym_right x.1 (hs y hy)

theorem sinv_append_sp {s1 s2 : List Char} {i1 i2 : List Item} (h1 : SInv s1 i1) (h2 : SInv s2 i2)
    (hj : ∀ x ∈ i1.getLast?, ∀ y ∈ i2.head?, ¬ Clash x.1 y.1) : SInv (s1 ++ ' ' :: s2) (i1 ++ i2) := by
  have h := sinv_append h1 h2 hj
  refine ⟨?_, ?_⟩
  · have : despace (s1 ++ ' ' :: s2) = despace (s1 ++ s2) := by simp
    rw [this]; exact h.1
  · obtain ⟨c1, s1', t1, b1, is1', hs1, hc1, hi1, hfit1⟩ := h1.2
    exact ⟨c1, s1' ++ ' ' :: s2, t1, b1, is1' ++ i2, by rw [hs1]; rfl, hc1, by rw [hi1]; rfl, hfit1⟩

theorem sinv_par {s : List Char} {is : List Item} (h : SInv s is) : SInv ('(' :: s ++ [')']) (par is) := by
  have h1 := sinv_append_symL (sinv_lp false) h (by simp [isSym])
  have h2 := sinv_append_symR h1 (sinv_rp false) (by simp [isSym])
  simpa [par] using h2

theorem wrap_toList (t : String) (pw needed : Nat) (strict : Bool) :
    (wrap t pw needed strict).toList =
      if pw < needed ∨ (strict = true ∧ pw = needed) then '(' :: t.toList ++ [')'] else t.toList := by
  unfold wrap
  split
  · simp
  · rfl

theorem sinv_wrap {t : String} {is : List Item} (h : SInv t.toList is) (pw needed : Nat) (strict : Bool) :
    SInv (wrap t pw needed strict).toList (wrapI is pw needed strict) := by
  rw [wrap_toList]
  unfold wrapI
  split
  · exact sinv_par h
  · exact h

theorem sinv_flag {body : String} {bi : List Item} (h : SInv body.toList bi) (p : Bool) :
    SInv (if p then "(" ++ body ++ ")" else body).toList (if p then par bi else bi) := by
  cases p with
  | true =>
    have := sinv_par h
    simpa using this
  | false => simpa using h


theorem startsNumI_of_firstFits {s : List Char} {is : List Item} (h : FirstFits s is) :
    ∃ c s', s = c :: s' ∧ (isNumChar c = true ↔ startsNumI is = true) := by
  obtain ⟨c, s', t, b, is', hs, -, hi, hfit⟩ := h
  refine ⟨c, s', hs, ?_⟩
  rw [hi, hfit.1]
  cases t <;> simp [startsNumI, isNumTok]

/-- the juxtaposed spellings are chosen on the text exactly when they are chosen on the tokens -/
theorem implied_none {o : Op} {l r : Expr Dec} {tr : String} {tri : List Item}
    (hf : FirstFits tr.toList tri) (h : impliedI o l r tri = none) : implied fmtDec o l r tr = none := by
  obtain ⟨c, s', hs, hc⟩ := startsNumI_of_firstFits hf
  unfold implied
  split
  · simp [impliedI] at h
  · simp [impliedI] at h
  · simp only [impliedI] at h
    rw [hs]
    simp only
    have : startsNumI tri = true := by
      cases hsn : startsNumI tri with
      | true => rfl
      | false => simp [hsn] at h
    have hcn := hc.mpr this
    rw [if_pos (by simpa [isNumChar] using hcn)]
  · simp [impliedI] at h
  · simp [impliedI] at h
  · simp [impliedI] at h
  · simp [impliedI] at h
  · rfl

theorem implied_caret {n : Dec} {a b : Expr Dec} {q : Bool} {tr : String} {tri : List Item}
    (hf : FirstFits tr.toList tri) (h : startsNumI tri = false) :
    implied fmtDec .mul (.num n) (.bin .caret a b q) tr = some (fmtDec n ++ tr) := by
  obtain ⟨c, s', hs, hc⟩ := startsNumI_of_firstFits hf
  unfold implied
  simp only
  rw [hs]
  simp only
  have : ¬ (isAsciiDigit c = true ∨ c = '.') := by
    intro hcn
    have := hc.mp (by simpa [isNumChar] using hcn)
    rw [h] at this; cases this
  rw [if_neg this]

theorem render_pre (fmt : Dec → String) (o : Op) (v : Expr Dec) :
    render fmt (.pre o v) =
      (o.sym ++ (if isBin v then wrap (render fmt v).1 (render fmt v).2 (2 * SV.Gen.unaryMinPow) false
        else (render fmt v).1), 5) := by
  cases v <;> rfl

theorem render_bin (fmt : Dec → String) (o : Op) (l r : Expr Dec) (p : Bool) :
    render fmt (.bin o l r p) =
      (if p then "(" ++ (match implied fmt o l r (render fmt r).1 with
          | some s => s
          | none => wrap (render fmt l).1 (render fmt l).2 (2 * bp o) false ++ " " ++ o.sym ++ " " ++
              wrap (render fmt r).1 (render fmt r).2 (2 * bp o) true) ++ ")"
        else (match implied fmt o l r (render fmt r).1 with
          | some s => s
          | none => wrap (render fmt l).1 (render fmt l).2 (2 * bp o) false ++ " " ++ o.sym ++ " " ++
              wrap (render fmt r).1 (render fmt r).2 (2 * bp o) true),
       if p then inf else if (implied fmt o l r (render fmt r).1).isSome ∧ o = .mul then 8 else 2 * bp o) := rfl

/-- **The lexer reads the displayed text of a well-formed tree back as the tokens `undot (ri e).1`**, and the
display power of the text is the one computed on the tokens. -/
theorem render_spelled {e : Expr Dec} (h : Wf e) :
    SInv (render fmtDec e).1.toList (ri e).1 ∧ (render fmtDec e).2 = (ri e).2 := by
  induction h with
  | @num d hd => exact ⟨sinv_num hd false, rfl⟩
  | @var s hs => exact ⟨sinv_var hs false, rfl⟩
  | const c => exact ⟨sinv_const c false, rfl⟩
  | @func f i hi ih =>
    refine ⟨?_, rfl⟩
    have h1 := sinv_append_symL (sinv_func f) ih.1 (by simp [isSym])
    have h2 := sinv_append_symR h1 (sinv_rp false) (by simp [isSym])
    have e1 : (render fmtDec (.func f i)).1.toList =
        f.name.toList ++ ['('] ++ (render fmtDec i).1.toList ++ [')'] := by
      show (f.name ++ "(" ++ (render fmtDec i).1 ++ ")").toList = _
      simp
    rw [e1]
    simpa [ri] using h2
  | @pre v hv ih =>
    rw [render_pre]
    refine ⟨?_, rfl⟩
    have hX : SInv (if isBin v then wrap (render fmtDec v).1 (render fmtDec v).2 (2 * SV.Gen.unaryMinPow) false
        else (render fmtDec v).1).toList
        (if isBin v then wrapI (ri v).1 (ri v).2 (2 * SV.Gen.unaryMinPow) false else (ri v).1) := by
      split
      · rw [ih.2]; exact sinv_wrap ih.1 _ _ _
      · exact ih.1
    have := sinv_append_symL (sinv_op .sub false) hX (by simp [isSym])
    simpa [ri] using this
  | @post v hv ih =>
    refine ⟨?_, rfl⟩
    have hW := sinv_wrap ih.1 (render fmtDec v).2 inf false
    have := sinv_append_symR hW (sinv_op .fac false) (by simp [isSym])
    have e1 : (render fmtDec (.post .fac v)).1.toList =
        (wrap (render fmtDec v).1 (render fmtDec v).2 inf false).toList ++ (Op.sym .fac).toList := by
      show (wrap (render fmtDec v).1 (render fmtDec v).2 inf false ++ Op.sym .fac).toList = _
      simp
    rw [e1, ih.2] at *
    simpa [ri] using this
  | @bin o l r p ho1 ho2 hl hr ihl ihr =>
    rw [render_bin]
    rcases impliedI_cases o l r (ri r).1 with hnone | ⟨n, v, rfl, rfl, rfl⟩ | ⟨n, c, rfl, rfl, rfl⟩ |
        ⟨n, a, b, q, rfl, rfl, rfl, hs⟩ | ⟨v, n, rfl, rfl, rfl⟩ | ⟨c, n, rfl, rfl, rfl⟩ |
        ⟨v, n, rfl, rfl, rfl⟩ | ⟨c, n, rfl, rfl, rfl⟩
    · have himp := implied_none ihr.1.2 hnone
      rw [himp]
      simp only [Option.isSome_none, Bool.false_eq_true, false_and, ↓reduceIte]
      have hWl := sinv_wrap ihl.1 (render fmtDec l).2 (2 * bp o) false
      have hWr := sinv_wrap ihr.1 (render fmtDec r).2 (2 * bp o) true
      have h1 := sinv_append_sp (sinv_op o false) hWr fun x hx y _ =>
        noClash_sym_left (by simp at hx; subst hx; rfl) y.1
      have h2 := sinv_append_sp hWl h1 fun x _ y hy =>
        noClash_sym_right x.1 (by simp at hy; subst hy; rfl)
      have hbody : SInv (wrap (render fmtDec l).1 (render fmtDec l).2 (2 * bp o) false ++ " " ++ o.sym ++ " " ++
          wrap (render fmtDec r).1 (render fmtDec r).2 (2 * bp o) true).toList
          (wrapI (ri l).1 (ri l).2 (2 * bp o) false ++ [(.op o, false)] ++ wrapI (ri r).1 (ri r).2 (2 * bp o) true) := by
        rw [ihl.2, ihr.2] at h2
        simpa [ihl.2, ihr.2] using h2
      have := sinv_flag hbody p
      refine ⟨by simpa [ri, hnone] using this, by simp [ri, hnone]⟩
    · -- `n v`
      cases hl with | num hn =>
      cases hr with | var hv =>
      have hbody : SInv (fmtDec n ++ v).toList [(.num (canon n), true), (.var v, false)] := by
        have := sinv_append (sinv_num hn true) (sinv_var hv false)
          (by simp [Clash, isNumTok, isLetterTok])
        simpa using this
      have := sinv_flag hbody p
      exact ⟨by simpa [ri, impliedI, implied] using this, by simp [ri, impliedI, implied]⟩
    · -- `n c`
      cases hl with | num hn =>
      have hbody : SInv (fmtDec n ++ c.sym).toList [(.num (canon n), true), (.const c, false)] := by
        have := sinv_append (sinv_num hn true) (sinv_const c false)
          (by simp [Clash, isNumTok, isLetterTok])
        simpa using this
      have := sinv_flag hbody p
      exact ⟨by simpa [ri, impliedI, implied] using this, by simp [ri, impliedI, implied]⟩
    · -- `n` next to a power
      cases hl with | num hn =>
      have himp := implied_caret (n := n) (a := a) (b := b) (q := q) ihr.1.2 hs
      have himpI : impliedI .mul (.num n) (.bin .caret a b q) (ri (.bin .caret a b q)).1 =
          some ((.num (canon n), true) :: (ri (.bin .caret a b q)).1) := by
        simp only [impliedI, hs, Bool.false_eq_true, ↓reduceIte]
      have hbody : SInv (fmtDec n ++ (render fmtDec (.bin .caret a b q)).1).toList
          ((.num (canon n), true) :: (ri (.bin .caret a b q)).1) := by
        have := sinv_append (sinv_num hn true) ihr.1 (by
          intro x hx y hy
          simp only [List.getLast?_singleton, Option.mem_def, Option.some.injEq] at hx; subst hx
          obtain ⟨c, s', t, f, is', -, -, hi, -⟩ := ihr.1.2
          rw [hi] at hy hs
          simp only [List.head?_cons, Option.mem_def, Option.some.injEq] at hy; subst hy
          cases t <;> simp_all [Clash, isNumTok, isLetterTok, startsNumI])
        simpa using this
      have := sinv_flag hbody p
      rw [himp]
      refine ⟨?_, ?_⟩
      · rw [ri]; simp only [himpI]; exact this
      · rw [ri]; simp only [himpI, Option.isSome_some, and_self, ↓reduceIte]
    · -- `v n`
      cases hl with | var hv =>
      cases hr with | num hn =>
      have hbody : SInv (v ++ fmtDec n).toList [(.var v, true), (.num (canon n), false)] := by
        have := sinv_append (sinv_var hv true) (sinv_num hn false)
          (by simp [Clash, isNumTok, isLetterTok])
        simpa using this
      have := sinv_flag hbody p
      exact ⟨by simpa [ri, impliedI, implied] using this, by simp [ri, impliedI, implied]⟩
    · -- `c n`
      cases hr with | num hn =>
      have hbody : SInv (c.sym ++ fmtDec n).toList [(.const c, true), (.num (canon n), false)] := by
        have := sinv_append (sinv_const c true) (sinv_num hn false)
          (by simp [Clash, isNumTok, isLetterTok])
        simpa using this
      have := sinv_flag hbody p
      exact ⟨by simpa [ri, impliedI, implied] using this, by simp [ri, impliedI, implied]⟩
    · -- `v^n`
      cases hl with | var hv =>
      cases hr with | num hn =>
      have hbody : SInv (v ++ "^" ++ fmtDec n).toList
          [(.var v, false), (.op .caret, false), (.num (canon n), false)] := by
        have h1 := sinv_append_symR (sinv_var hv false) (sinv_op .caret false) (by simp [isSym])
        have h2 := sinv_append_symL h1 (sinv_num hn false) (by simp [isSym])
        have e1 : (Op.sym .caret).toList = ['^'] := rfl
        have e2 : ("^" : String).toList = ['^'] := rfl
        simpa [e1, e2] using h2
      have := sinv_flag hbody p
      exact ⟨by simpa [ri, impliedI, implied] using this, by simp [ri, impliedI, implied]⟩
    · -- `c^n`
      cases hr with | num hn =>
      have hbody : SInv (c.sym ++ "^" ++ fmtDec n).toList
          [(.const c, false), (.op .caret, false), (.num (canon n), false)] := by
        have h1 := sinv_append_symR (sinv_const c false) (sinv_op .caret false) (by simp [isSym])
        have h2 := sinv_append_symL h1 (sinv_num hn false) (by simp [isSym])
        have e1 : (Op.sym .caret).toList = ['^'] := rfl
        have e2 : ("^" : String).toList = ['^'] := rfl
        simpa [e1, e2] using h2
      have := sinv_flag hbody p
      exact ⟨by simpa [ri, impliedI, implied] using this, by simp [ri, impliedI, implied]⟩

end SV.C19
