import SV.Model.C09
import SV.Model.Subst
/-!
Model of `Arr2D::inverse` (spindalis/src/utils/arr2D.rs), generic in the scalar.

The Rust method, line by line:

```text
if self.height != self.width { return Err(NonSquareMatrix) }          -- shape check first
let coeff_matrix: &Arr2D<f64> = &self.try_into().map_err(ConversionFailed)?;
let size = self.height;
let (l, u, p) = lu_pivot_decomposition(coeff_matrix).map_err(|_| SingularMatrix)?;
let mut inverse_matrix = Arr2D::full(0.0, size, size);
for j in 0..size {
    b_prime[i] = p[i][j]            (i in 0..size)                     -- column j of P
    y = [0.0; size];  forward_substitution(&l, size, &b_prime, &mut y);
    x_j = [0.0; size]; back_substitution(&u, size, &y, &mut x_j);
    inverse_matrix[i][j] = x_j[i]   (i in 0..size)                     -- column j of the result
}
Ok(inverse_matrix)
```

* The bound `Arr2D<f64>: TryFrom<&Arr2D<T>>` is met through `f64: TryFrom<T>`, i.e. by the element
  types with `f64: From<T>` (`f64 f32 i8 i16 i32 u8 u16 u32 bool`): the conversion cannot fail and is
  exact, so the model starts from the converted matrix (the harness passes every element type and
  checks that the request's values are representable in it).
* *Every* error of the factorisation is mapped to `SingularMatrix` (`map_err(|_| …)`).
* `SV.C09.plu`, `SV.Subst.forwardSubst`, `SV.Subst.backSubst` are the existing models of the three
  callees, composed here in the order of the code.  Their panics (`size - 1` underflow in
  `back_substitution` for `size = 0`, indices out of range) are passed on as `Outcome.panic`; the index
  `p[i][j]` panics when `P` has fewer than `size` rows or at most `j` columns.
* The empty matrix (`0 × 0`): the shape check passes, the factorisation returns three empty arrays, the
  column loop `for j in 0..0` does not run — `back_substitution` is **not** called, so its underflow
  is not reached — and the result is `Ok` of the `0 × 0` array.  (`0 × w` and `h × 0` with `h ≠ w` are
  non-square.)
* Each column of the result is written once and never read, so the assembled result is one `Mat.tab`
  over the list of solved columns.
-/
namespace SV.C10
open SV SV.C09 SV.Subst

inductive InvErr where
  | nonSquare
  | singular
deriving Repr, DecidableEq

section
variable {S : Type} [Inhabited S] [Add S] [Sub S] [Mul S] [Div S] [Neg S] [OfNat S 0] [OfNat S 1]
  [LT S] [DecidableRel (α := S) (· < ·)]

/-- one pass of the column loop: `b' = P e_j`, `L y = b'`, `U x = y` -/
def column (L U P : Mat S) (n j : Nat) : Outcome Empty (Array S) :=
  if P.h < n ∨ P.w ≤ j then .panic
  else
    let b' : Array S := vtab n fun i => P.get i j
    match forwardSubst L n b' (vtab n fun _ => 0) with
    | .ok y => backSubst U n y (vtab n fun _ => 0)
    | .err e => nomatch e
    | .panic => .panic

/-- passes `j, j+1, …, j+k-1` of the column loop, in order; the first panic ends the run -/
def colsFrom (L U P : Mat S) (n : Nat) : Nat → Nat → Outcome Empty (List (Array S))
  | 0, _ => .ok []
  | k+1, j =>
    match column L U P n j with
    | .ok x =>
      match colsFrom L U P n k (j+1) with
      | .ok xs => .ok (x :: xs)
      | .err e => nomatch e
      | .panic => .panic
    | .err e => nomatch e
    | .panic => .panic

/-- `inverse_matrix[i][j] = x_j[i]` -/
def assemble (n : Nat) (cols : List (Array S)) : Mat S :=
  let c := cols.toArray
  Mat.tab n n fun i j => vget (c.getD j #[]) i

/-- `Arr2D::inverse` on the converted matrix; `eps` is `f64::EPSILON` -/
def inverse (eps : S) (A : Mat S) : Outcome InvErr (Mat S) :=
  if A.h ≠ A.w then .err .nonSquare
  else
    match plu eps A with
    | .err _ => .err .singular
    | .panic => .panic
    | .ok (L, U, P) =>
      match colsFrom L U P A.h A.h 0 with
      | .ok cols => .ok (assemble A.h cols)
      | .err e => nomatch e
      | .panic => .panic

end
end SV.C10

/-! ### driver -/
namespace SV.C10.Driver
open SV SV.Wire SV.C10

def epsF : Float := SV.C09.Driver.epsF

def fmtInv : Outcome InvErr (Mat Float) → String
  | .ok b => "ok " ++ fmtMat fmtF b
  | .err .nonSquare => "err nonsquare"
  | .err .singular => "err singular"
  | .panic => "panic"

/-- `inv3 a00 … a12`: the 125 integer matrices over −2..2 with these first two rows; per matrix
`ok <digest of B>` or `sing` (the digest is the one of the C09 sweeps) -/
def sweep : P String := do
  let first ← many 6 Wire.int
  let one (c : Nat) : String :=
    let third : List Int := [(c / 25 : Nat) - 2, ((c / 5) % 5 : Nat) - 2, (c % 5 : Nat) - 2]
    let a : Mat Float := ⟨3, 3, ((first ++ third).map fun (x : Int) => Float.ofInt x).toArray⟩
    match inverse epsF a with
    | .ok b => "ok " ++ SV.C09.Driver.digest [b]
    | .err .singular => "sing"
    | .err .nonSquare => "err_nonsquare"
    | .panic => "panic"
  return " ".intercalate ((List.range 125).map one)

/-- requests
* `inverse <elem-type> <h> <w> <bits…>` — the element type only selects the Rust instantiation (the
  conversion to `f64` is exact), the model answers from the converted matrix;
* `inv2 <h> <w> <bits…>` — the inverse and the inverse of the inverse;
* `inv3 …` — the 3×3 sweep. -/
def handle (line : String) : String :=
  let p : P String := do
    let cmd ← tok
    match cmd with
    | "inv3" => sweep
    | "inverse" => do
      let _ty ← tok
      let a ← mat Wire.float
      return fmtInv (inverse epsF a)
    | "inv2" => do
      let a ← mat Wire.float
      match inverse epsF a with
      | .ok b => return "ok " ++ fmtMat fmtF b ++ " back " ++ fmtInv (inverse epsF b)
      | r => return fmtInv r
    | _ => fail
  match run p line with
  | some s => s
  | none => "bad-request"

end SV.C10.Driver
