import SV.Model.PolyWire
/-!
Driver commands for the polynomial operations of `SV.Model.Poly` at `Float` (shared by C03, C04
and by anything else that needs evaluation / differentiation / integration answers):

    eval   <poly> <x>                       → ok f… | err Kind
    evalm  <poly> <n> { <name> <value> }*   → ok f… | err Kind      (eval_multivariate)
    deriv  <poly>                           → ok <poly> | err Kind  (derivate_univariate)
    integ  <poly>                           → ok <poly> | err Kind  (indefinite_integral_univariate)
    pderiv <poly> <name>                    → <poly>                (derivate_multivariate)
    pinteg <poly> <name>                    → <poly>                (indefinite_integral_multivariate)
    chain  <poly> <k> { d | i | D <name> | J <name> }* <x>  → the polynomial after each step, then eval
-/
namespace SV.PolyOps
open SV SV.Wire SV.Poly SV.PolyWire

/-- `SimplePolynomial::eval_multivariate`: exactly one distinct binding, whatever its name -/
def evalMultiSimple (p : SPoly Float) (σ : List (String × Float)) : Except PErr Float :=
  if distinctNames σ ≠ 1 then .error .tooManyVariables
  else
    -- `vars_map.values().next()`: the single value (last binding of that name wins)
    match σ.reverse with
    | (_, x) :: _ => .ok (evalSimple p.coeffs x)
    | [] => .error .tooManyVariables

def evalMulti (p : AnyPoly Float) (σ : List (String × Float)) : Except PErr Float :=
  match p with
  | .simple q => evalMultiSimple q σ
  | .inter q => evalTerms Float.pow q.terms σ

/-- `derivate_multivariate` -/
def derivMulti (p : AnyPoly Float) (var : String) : AnyPoly Float :=
  match p with
  | .simple q =>
    -- `var.chars().next() == self.variable`
    if var.toList.head? = q.var then .simple ⟨simpleDeriv q.coeffs, q.var⟩ else .simple q
  | .inter q => .inter (partialDeriv q.terms var)

/-- `indefinite_integral_multivariate` -/
def integMulti (p : AnyPoly Float) (var : String) : AnyPoly Float :=
  match p with
  | .simple q =>
    if var.toList.head? = q.var then .simple ⟨simpleInteg q.coeffs, q.var⟩ else .simple q
  | .inter q => .inter (integInter q.terms var)

def fmtPolyRes (r : Except PErr (AnyPoly Float)) : String :=
  match r with
  | .ok p => "ok " ++ fmtAny fmtF p
  | .error e => fmtErr e

inductive Step where
  | d | i | D (v : String) | J (v : String)

def step : P Step := do
  let k ← tok
  match k with
  | "d" => return .d
  | "i" => return .i
  | "D" => do let v ← name; return .D v
  | "J" => do let v ← name; return .J v
  | _ => fail

def applyStep (p : AnyPoly Float) : Step → Except PErr (AnyPoly Float)
  | .d => p.derivUni
  | .i => p.integUni
  | .D v => .ok (derivMulti p v)
  | .J v => .ok (integMulti p v)

def runChain (p : AnyPoly Float) (steps : List Step) (x : Float) : String :=
  let rec go (p : AnyPoly Float) (steps : List Step) (acc : List String) : String :=
    match steps with
    | [] => " | ".intercalate (acc.reverse ++ [fmtExceptF (p.evalUni Float.pow x)])
    | s :: rest =>
      match applyStep p s with
      | .ok q => go q rest (("ok " ++ fmtAny fmtF q) :: acc)
      | .error e => " | ".intercalate (acc.reverse ++ [fmtErr e])
  go p steps []

def handleCmd (cmd : String) : P String :=
  match cmd with
  | "eval" => do
    let p ← anypoly float; let x ← float
    return fmtExceptF (p.evalUni Float.pow x)
  | "evalm" => do
    let p ← anypoly float
    let n ← nat
    let σ ← many n (do let v ← name; let x ← float; return (v, x))
    return fmtExceptF (evalMulti p σ)
  | "deriv" => do
    let p ← anypoly float
    return fmtPolyRes p.derivUni
  | "integ" => do
    let p ← anypoly float
    return fmtPolyRes p.integUni
  | "pderiv" => do
    let p ← anypoly float; let v ← name
    return fmtAny fmtF (derivMulti p v)
  | "pinteg" => do
    let p ← anypoly float; let v ← name
    return fmtAny fmtF (integMulti p v)
  | "chain" => do
    let p ← anypoly float
    let k ← nat
    let steps ← many k step
    let x ← float
    return runChain p steps x
  | _ => fail

def handle (line : String) : String :=
  match run (do let cmd ← tok; handleCmd cmd) line with
  | some s => s
  | none => "bad-request"

end SV.PolyOps
