//! C14 — Hessenberg reduction: `hess <h> <w> <bits…>` → `ok <H> <Q>` | `err nonsquare` | `panic`.
//!
//! The observation carries the bit patterns of H and Q; the property's oracle (exact rationals from
//! those bits: QᵀQ = I, Q H Qᵀ = A, zeros below the first sub-diagonal, n ≤ 2 unchanged) lives in
//! tools/props/c14.py.  The verdicts decided here are the ones about the outcome kind, plus: the borrowed input is
//! unchanged after the call and a second call on it returns the same bits (no state between calls); the same numbers
//! as an `Arr2D` with another history (`histories`) and the empty shapes that exist only as `&Arr2D` (`empty_forms`)
//! answer the same.
use crate::util::*;
use spindalis::reduction::matrix::hessenberg_reduction;
use spindalis::solvers::SolverError;
use spindalis::utils::Arr2D;

fn to_arr(h: usize, w: usize, v: &[f64]) -> Arr2D<f64> {
    let mut a = Arr2D::full(0.0f64, h, w);
    for i in 0..h {
        for j in 0..w {
            a[(i, j)] = v[i * w + j];
        }
    }
    a
}

fn show(a: &Arr2D<f64>) -> String {
    let mut s = format!("{} {}", a.height, a.width);
    for i in 0..a.height {
        for j in 0..a.width {
            s.push(' ');
            s.push_str(&fbits(a[(i, j)]));
        }
    }
    s
}

/// canonical observation of one call
fn observe(a: &Arr2D<f64>) -> String {
    match catch(|| hessenberg_reduction(a)) {
        None => "panic".into(),
        Some(Ok((hm, q))) => format!("ok {} {}", show(&hm), show(&q)),
        Some(Err(SolverError::NonSquareMatrix)) => "err nonsquare".into(),
        Some(Err(e)) => format!("err other {e:?}"),
    }
}

/// the same h x w numbers as an `Arr2D` with a different HISTORY: built by `from_flat` from a short slice (the rest
/// padded with NaN, then overwritten) and from the full slice, reshaped from a single row and from a single column,
/// cloned INTO an existing larger / smaller object (`clone_from`), transposed twice (`transpose` + `transpose_mut`),
/// converted from nested vectors, passed through `map`.  The function takes `&Arr2D<f64>`: all of these are the same
/// matrix and must give the same answer bit for bit.
fn histories(h: usize, w: usize, v: &[f64]) -> Vec<(&'static str, Arr2D<f64>)> {
    let mut out: Vec<(&'static str, Arr2D<f64>)> = Vec::new();
    let src = to_arr(h, w, v);
    if h * w > 0 {
        if let Ok(mut a) = Arr2D::from_flat(&v[..(h * w) / 2], f64::NAN, h, w) {
            for i in 0..h {
                for j in 0..w {
                    a[(i, j)] = v[i * w + j];
                }
            }
            out.push(("from_flat of a short slice (padded), then filled", a));
        }
        if let Ok(a) = Arr2D::from_flat(v, f64::NAN, h, w) {
            out.push(("from_flat", a));
        }
        if let Ok(mut a) = Arr2D::from_flat(v, f64::NAN, 1, h * w) {
            if a.reshape(h).is_ok() {
                out.push(("one row reshaped", a));
            }
        }
        if let Ok(mut a) = Arr2D::from_flat(v, f64::NAN, h * w, 1) {
            if a.reshape(h).is_ok() {
                out.push(("one column reshaped", a));
            }
        }
        let nested: Vec<Vec<f64>> = (0..h).map(|i| v[i * w..(i + 1) * w].to_vec()).collect();
        if let Ok(a) = Arr2D::try_from(nested) {
            out.push(("TryFrom<Vec<Vec<f64>>>", a));
        }
    }
    let mut big = Arr2D::full(f64::NAN, h + 3, w + 2);
    big.clone_from(&src);
    out.push(("clone_from into a larger object", big));
    let mut small = Arr2D::full(f64::NAN, 1, 1);
    small.clone_from(&src);
    out.push(("clone_from into a 1x1 object", small));
    let mut t = src.transpose();
    t.transpose_mut();
    out.push(("transpose, then transpose_mut", t));
    out.push(("map(identity)", src.map(|x| *x)));
    out
}

/// degenerate shapes that only exist as `&Arr2D`: N empty rows (N x 0, from an array of empty arrays or from nested
/// empty vectors) and their transposes (0 x N, by `transpose` and by `transpose_mut`)
fn empty_forms(h: usize, w: usize) -> Vec<(&'static str, Arr2D<f64>)> {
    let n = h.max(w);
    if h.min(w) != 0 || n == 0 {
        return Vec::new();
    }
    macro_rules! rows {
        ($($k:literal),*) => {
            match n {
                $($k => Some(Arr2D::from(&[[0f64; 0]; $k])),)*
                _ => None,
            }
        };
    }
    let mut tall: Vec<(&'static str, Arr2D<f64>)> = Vec::new();
    if let Some(a) = rows!(1, 2, 3, 4, 5, 6, 7, 8, 9, 10) {
        tall.push(("an array of N empty arrays", a));
    }
    if let Ok(a) = Arr2D::try_from(vec![Vec::<f64>::new(); n]) {
        tall.push(("N empty nested vectors", a));
    }
    if w == 0 {
        return tall;
    }
    let mut flat = Vec::new();
    for (_, a) in tall {
        flat.push(("N empty rows, transposed", a.transpose()));
        let mut b = a.clone();
        b.transpose_mut();
        flat.push(("N empty rows, transpose_mut", b));
    }
    flat
}

pub fn run(line: &str) -> Obs {
    let mut t = Toks::new(line);
    let cmd = t.tok();
    assert_eq!(cmd, "hess", "unknown C14 request {cmd}");
    let (h, w, v) = t.mat_f64();
    let a = to_arr(h, w, &v);
    let first = observe(&a);
    let mut verdict = if first == "panic" {
        Err("hessenberg_reduction panicked".into())
    } else if first.starts_with("ok") {
        // the input is borrowed: it must still be what was passed, and a second call on it must give the same
        // bits (no state carried from one call to the next)
        let untouched = (0..h).all(|i| (0..w).all(|j| a[(i, j)].to_bits() == v[i * w + j].to_bits()));
        if h != w {
            Err(format!("non-square {h}x{w} input accepted"))
        } else if !untouched {
            Err("the borrowed input matrix was modified".into())
        } else if observe(&a) != first {
            Err("a second call on the same input returned a different result".into())
        } else {
            Ok(())
        }
    } else if h == w {
        // "non-square input is rejected": the statement names no error kind, so any `Err` is a rejection
        Err(format!("square {h}x{w} input rejected: {}", &first[4..]))
    } else {
        Ok(())
    };
    // the same matrix with another history answers the same (two refusals agree whatever their kind)
    if verdict.is_ok() {
        let mut forms = histories(h, w, &v);
        forms.extend(empty_forms(h, w));
        for (name, b) in forms {
            if (b.height, b.width) != (h, w) {
                verdict = Err(format!("harness: the form `{name}` has shape {}x{}, expected {h}x{w}", b.height, b.width));
                break;
            }
            let o = observe(&b);
            if o != first && !(o.starts_with("err") && first.starts_with("err")) {
                verdict = Err(format!("the same {h}x{w} matrix built as `{name}` answers `{}` but the plain one answers `{}`",
                    &o[..o.len().min(60)], &first[..first.len().min(60)]));
                break;
            }
        }
    }
    Obs::with(first, verdict)
}

// ------------------------------------------------------------------------------------ generators

fn emit_mat(emit: &mut dyn FnMut(String), h: usize, w: usize, v: &[f64]) {
    emit(format!("hess {}", req_mat_f(h, w, v)));
}

/// one random entry of the given flavour
fn entry(rng: &mut Rng, flavour: u64) -> f64 {
    match flavour {
        0 => rng.uniform(-1.0, 1.0),
        1 => rng.dyadic(64, 4),
        2 => rng.range(-5, 5) as f64,
        _ => rng.uniform(-10.0, 10.0),
    }
}

fn dense(rng: &mut Rng, n: usize, flavour: u64) -> Vec<f64> {
    (0..n * n).map(|_| entry(rng, flavour)).collect()
}

fn scale(v: &mut [f64], e: i32) {
    let s = 2f64.powi(e);
    for x in v.iter_mut() {
        *x *= s;
    }
}

/// the structured families of the quantifier; `kind` selects one
fn family(rng: &mut Rng, n: usize, kind: u64) -> Vec<f64> {
    let fl = rng.below(4);
    let mut a = dense(rng, n, fl);
    let at = |i: usize, j: usize| i * n + j;
    match kind {
        0 => {} // dense
        1 => {
            // sparse with exact zeros (some of them negative zeros)
            let p = rng.range(3, 8) as u64;
            for x in a.iter_mut() {
                if rng.below(10) < p {
                    *x = if rng.chance(1, 6) { -0.0 } else { 0.0 };
                }
            }
        }
        2 => {
            // some (or all) columns already in Hessenberg form
            let all = rng.chance(1, 3);
            for j in 0..n {
                if all || rng.chance(1, 2) {
                    for i in j + 2..n {
                        a[at(i, j)] = 0.0;
                    }
                }
            }
        }
        3 => {
            // block upper triangular: the sub-column at the block boundary stays exactly zero through
            // the earlier reflectors (their v has exact zeros there), so the skip branch is taken at k > 0
            if n > 0 {
                let cuts = 1 + rng.below(2);
                for _ in 0..cuts {
                    let b = rng.below(n as u64) as usize; // columns 0..=b, rows b+1.. are zero
                    for i in b + 1..n {
                        for j in 0..=b {
                            a[at(i, j)] = 0.0;
                        }
                    }
                }
            }
        }
        4 => {
            // zero sub-columns in isolated columns (the first one is skipped for sure)
            for j in 0..n {
                if j == 0 || rng.chance(1, 3) {
                    for i in j + 1..n {
                        a[at(i, j)] = 0.0;
                    }
                }
            }
        }
        5 => {
            // symmetric
            for i in 0..n {
                for j in 0..i {
                    a[at(i, j)] = a[at(j, i)];
                }
            }
        }
        6 => {
            // leading entry of the first sub-columns negative, zero or negative zero
            for j in 0..n.saturating_sub(1) {
                let x = a[at(j + 1, j)].abs();
                a[at(j + 1, j)] = match rng.below(4) {
                    0 => 0.0,
                    1 => -0.0,
                    2 => -x,
                    _ => -1.0,
                };
            }
        }
        7 => {
            // upper triangular / diagonal / zero: every column is skipped
            let which = rng.below(3);
            for i in 0..n {
                for j in 0..n {
                    if (which == 0 && i > j) || (which == 1 && i != j) || which == 2 {
                        a[at(i, j)] = 0.0;
                    }
                }
            }
        }
        8 => {
            // integer columns with exact norms (3,4 | 5,12 | 8,15 | 2,3,6 | 1,4,8): exact cancellations
            let pat: [&[f64]; 5] = [&[3.0, 4.0], &[5.0, 12.0], &[8.0, 15.0], &[2.0, 3.0, 6.0], &[1.0, 4.0, 8.0]];
            for x in a.iter_mut() {
                *x = (*x * 4.0).round();
            }
            for j in 0..n {
                let p = *rng.pick(&pat);
                for i in j + 1..n {
                    let t = i - j - 1;
                    let s = if rng.chance(1, 2) { -1.0 } else { 1.0 };
                    a[at(i, j)] = if t < p.len() { s * p[t] } else { 0.0 };
                }
            }
        }
        9 => {
            // a single non-zero below the diagonal in each column (permutation-like)
            for j in 0..n {
                let keep = if j + 1 < n { j + 1 + rng.below((n - j - 1) as u64) as usize } else { n };
                for i in j + 1..n {
                    if i != keep {
                        a[at(i, j)] = 0.0;
                    }
                }
            }
        }
        10 | 11 => {
            // graded, nearly reduced columns: the tail of the sub-column is 10^-e (kind 10) or exactly 2^-k (kind 11,
            // k around 26: sqrt(head^2 + tail^2) rounds to |head|, or misses it by one ulp) of its head, both signs of
            // the head.  The columns before the first graded one are exactly reduced (skipped: identity steps), so
            // the graded column reaches its step with exactly the entries chosen here.  A skip test that also fires
            // when the computed norm equals |head| leaves these tails (far above n u |A|) in H.
            if n >= 3 {
                let j0 = rng.below((n - 2) as u64) as usize;
                for j in 0..j0 {
                    for i in j + 2..n {
                        a[at(i, j)] = 0.0;
                    }
                }
                let all_later = rng.chance(1, 2);
                for j in j0..n - 2 {
                    if j > j0 && !(all_later || rng.chance(1, 3)) {
                        continue;
                    }
                    let mag = match rng.below(4) {
                        0 => 1.0,
                        1 => rng.uniform(0.5, 8.0),
                        2 => 2f64.powi(rng.range(-20, 20) as i32),
                        _ => rng.range(1, 9) as f64,
                    };
                    let head = if rng.chance(1, 2) { -mag } else { mag };
                    a[at(j + 1, j)] = head;
                    let single = rng.chance(1, 3);
                    let pos = j + 2 + rng.below((n - j - 2) as u64) as usize;
                    let rel = if kind == 10 {
                        10f64.powi(-*rng.pick(&[6, 7, 8, 9, 9, 10, 11, 12, 12, 14, 16, 20, 30, 100, 170]))
                    } else {
                        2f64.powi(-(rng.range(20, 30) as i32))
                    };
                    for i in j + 2..n {
                        let t = if kind == 10 { rel * rng.uniform(0.5, 1.0) } else { rel };
                        let sg = if rng.chance(1, 2) { -1.0 } else { 1.0 };
                        a[at(i, j)] = if single && i != pos { 0.0 } else { sg * t * mag };
                    }
                }
            }
        }
        _ => {
            // graded matrix D A D^-1 with D = diag(2^(g i)): entries of very different sizes in one matrix
            // (exact scaling, so the quantities the code compares are the same up to powers of two)
            let gs: Vec<i32> = [-12i32, -5, -2, 2, 5, 12].iter().cloned().filter(|g| g.abs() as usize * n <= 100).collect();
            let g = if gs.is_empty() { 1 } else { *rng.pick(&gs) };
            for i in 0..n {
                for j in 0..n {
                    a[at(i, j)] *= 2f64.powi(g * (i as i32 - j as i32));
                }
            }
        }
    }
    a
}

// ------------------------------------------------------------------ hardening 4: near-structure families

/// an exactly structured matrix of order n; `base` selects the structure
fn structured(rng: &mut Rng, n: usize, base: u64) -> Vec<f64> {
    let fl = rng.below(4);
    let mut a = dense(rng, n, fl);
    let at = |i: usize, j: usize| i * n + j;
    // no exact zeros in the dense part: a pair (x, 0) is a structural difference, not a near miss
    for x in a.iter_mut() {
        if *x == 0.0 {
            *x = 1.0;
        }
    }
    match base {
        0 | 1 => {
            // exactly symmetric, dense (1: B + Bᵀ of an integer table, the test-suite style)
            if base == 1 {
                for x in a.iter_mut() {
                    *x = (*x * 3.0).round() + if rng.chance(1, 2) { 0.5 } else { 1.0 };
                }
            }
            for i in 0..n {
                for j in 0..i {
                    a[at(i, j)] = a[at(j, i)];
                }
            }
        }
        2 => {
            // symmetric with a band: tridiagonal or pentadiagonal
            let band = 1 + rng.below(2) as usize;
            for i in 0..n {
                for j in 0..n {
                    if i.abs_diff(j) > band {
                        a[at(i, j)] = 0.0;
                    } else if j < i {
                        a[at(i, j)] = a[at(j, i)];
                    }
                }
            }
        }
        3 => {
            // upper or lower triangular
            let upper = rng.chance(2, 3);
            for i in 0..n {
                for j in 0..n {
                    if (upper && i > j) || (!upper && i < j) {
                        a[at(i, j)] = 0.0;
                    }
                }
            }
        }
        4 => {
            // already upper Hessenberg (every column reduced)
            for i in 0..n {
                for j in 0..n {
                    if i > j + 1 {
                        a[at(i, j)] = 0.0;
                    }
                }
            }
        }
        5 => {
            // c * (exactly orthogonal): 2x2 blocks c/5 [[3,-4],[4,3]] * 5 = integer rotations of length 5, 13, 17 scaled to a
            // common length 5*13*17, a signed permutation applied to the rows
            let c = 5.0 * 13.0 * 17.0;
            let rots = [(3.0, 4.0, 5.0), (5.0, 12.0, 13.0), (8.0, 15.0, 17.0), (4.0, 3.0, 5.0), (12.0, 5.0, 13.0)];
            let mut b = vec![0.0; n * n];
            let mut i = 0;
            while i < n {
                if i + 1 < n && rng.chance(3, 4) {
                    let (x, y, l) = *rng.pick(&rots);
                    let (x, y) = (x * c / l, y * c / l);
                    b[at(i, i)] = x;
                    b[at(i, i + 1)] = -y;
                    b[at(i + 1, i)] = y;
                    b[at(i + 1, i + 1)] = x;
                    i += 2;
                } else {
                    b[at(i, i)] = if rng.chance(1, 2) { -c } else { c };
                    i += 1;
                }
            }
            // random row permutation with signs
            let mut perm: Vec<usize> = (0..n).collect();
            for k in (1..n).rev() {
                let r = rng.below(k as u64 + 1) as usize;
                perm.swap(k, r);
            }
            for i in 0..n {
                let sg = if rng.chance(1, 2) { -1.0 } else { 1.0 };
                for j in 0..n {
                    a[at(i, j)] = sg * b[at(perm[i], j)];
                }
            }
        }
        6 => {
            // c * Householder matrix of an integer vector, exact: (wᵀw) I − 2 w wᵀ  (symmetric AND orthogonal-times-scalar)
            let w: Vec<f64> = (0..n).map(|_| rng.range(-4, 4) as f64).collect();
            let ww: f64 = w.iter().map(|x| x * x).sum::<f64>().max(1.0);
            for i in 0..n {
                for j in 0..n {
                    a[at(i, j)] = (if i == j { ww } else { 0.0 }) - 2.0 * w[i] * w[j];
                }
            }
        }
        7 => {
            // skew-symmetric plus a constant diagonal (normal: Q c Qᵀ-like structure with a_ij = −a_ji)
            let d = entry(rng, fl);
            for i in 0..n {
                a[at(i, i)] = d;
                for j in 0..i {
                    a[at(i, j)] = -a[at(j, i)];
                }
            }
        }
        8 => {
            // symmetric Toeplitz / circulant / Hankel (every anti-diagonal constant: persymmetric)
            let t: Vec<f64> = (0..2 * n).map(|_| { let x = entry(rng, fl); if x == 0.0 { 1.0 } else { x } }).collect();
            let which = rng.below(3);
            for i in 0..n {
                for j in 0..n {
                    a[at(i, j)] = match which {
                        0 => t[i.abs_diff(j)],
                        1 => t[(n + j - i) % n],
                        _ => t[i + j],
                    };
                }
            }
        }
        9 => {
            // rank one u vᵀ with small integers (exact), or all entries equal, or a multiple of the identity plus rank one
            let u: Vec<f64> = (0..n).map(|_| *rng.pick(&[1.0, 2.0, 3.0, -1.0, -2.0, 5.0])).collect();
            let v: Vec<f64> = if rng.chance(1, 2) { u.clone() } else { (0..n).map(|_| *rng.pick(&[1.0, 2.0, 3.0, -1.0, -2.0, 5.0])).collect() };
            let shift = if rng.chance(1, 2) { 0.0 } else { rng.range(-6, 6) as f64 };
            let flat = rng.chance(1, 4);
            for i in 0..n {
                for j in 0..n {
                    a[at(i, j)] = if flat { 3.0 } else { u[i] * v[j] } + if i == j { shift } else { 0.0 };
                }
            }
        }
        11 => {
            // the leading entry of the sub-column (the one the sign choice and u1 are built from) is a tiny fraction
            // (2^-20..2^-52, either sign) of the rest of its column: next to the "zero leading entry" case but not in it
            let big = a.iter().fold(0.0f64, |m, x| m.max(x.abs()));
            for j in 0..n.saturating_sub(1) {
                if j == 0 || rng.chance(1, 2) {
                    a[at(j + 1, j)] = tiny_rel(rng) * big;
                }
            }
        }
        _ => {
            // diagonal / identity multiple
            let same = rng.chance(1, 2);
            let d0 = a[0];
            for i in 0..n {
                for j in 0..n {
                    if i != j {
                        a[at(i, j)] = 0.0;
                    } else if same {
                        a[at(i, j)] = d0;
                    }
                }
            }
        }
    }
    a
}

const BASES: u64 = 12;

/// a relative perturbation 2^-k, k = 20..45 mostly (the window between "clearly different" and "rounding"), sometimes
/// down to one ulp, sometimes a decimal 1e-8..1e-13, either sign
fn tiny_rel(rng: &mut Rng) -> f64 {
    let r = match rng.below(8) {
        0 => 2f64.powi(-(rng.range(46, 52) as i32)),
        1 => 10f64.powi(-(rng.range(8, 13) as i32)) * rng.uniform(1.0, 9.9),
        2 => 2f64.powi(-(rng.range(20, 45) as i32)) * rng.uniform(1.0, 2.0),
        _ => 2f64.powi(-(rng.range(20, 45) as i32)),
    };
    if rng.chance(1, 2) { -r } else { r }
}

/// An exactly structured matrix with ONE entry, ONE mirrored pair, one row/column or (rarely) every entry off its
/// structure by a relative 2^-20..2^-45: within a relative 1e-8 of exact symmetry / triangularity / orthogonality /
/// reduced form, but not within rounding of it.  A structural zero is moved to that fraction of the largest entry.
/// The statement's identities hold for these like for any other matrix (the exact oracle judges them); code that
/// classifies its input "up to rounding" with a tolerance and then takes a structured shortcut does not.
fn near_structure(rng: &mut Rng, n: usize, base: u64) -> Vec<f64> {
    let mut a = structured(rng, n, base);
    if n == 0 {
        return a;
    }
    let at = |i: usize, j: usize| i * n + j;
    let big = a.iter().fold(0.0f64, |m, x| m.max(x.abs())).max(f64::MIN_POSITIVE);
    let bump = |x: f64, rel: f64| if x == 0.0 { rel * big } else { x * (1.0 + rel) };
    let i = rng.below(n as u64) as usize;
    let mut j = rng.below(n as u64) as usize;
    match rng.below(10) {
        0..=3 => {
            // one entry (off the diagonal when there is one: the diagonal carries no structure in most bases)
            if i == j && n > 1 && rng.chance(3, 4) {
                j = (j + 1 + rng.below(n as u64 - 1) as usize) % n;
            }
            let rel = tiny_rel(rng);
            a[at(i, j)] = bump(a[at(i, j)], rel);
        }
        4 | 5 => {
            // one mirrored pair, the two halves moved by different amounts
            if i == j && n > 1 {
                j = (j + 1) % n;
            }
            let (r1, r2) = (tiny_rel(rng), tiny_rel(rng));
            a[at(i, j)] = bump(a[at(i, j)], r1);
            a[at(j, i)] = bump(a[at(j, i)], r2 * 0.5);
        }
        6 => {
            // a far corner: (n-1, 0) or (0, n-1), the entries a band / triangle / Hessenberg shape excludes
            let rel = tiny_rel(rng);
            let (p, q) = if rng.chance(1, 2) { (n - 1, 0) } else { (0, n - 1) };
            a[at(p, q)] = bump(a[at(p, q)], rel);
        }
        7 => {
            // one whole row or column
            let rel = tiny_rel(rng);
            let row = rng.chance(1, 2);
            for k in 0..n {
                let (p, q) = if row { (i, k) } else { (k, i) };
                if p != q {
                    a[at(p, q)] = bump(a[at(p, q)], rel * rng.uniform(0.5, 1.0));
                }
            }
        }
        8 => {
            // the strict lower part: every entry by its own tiny amount (nearly symmetric / nearly triangular everywhere)
            let k = rng.range(24, 44) as i32;
            for p in 0..n {
                for q in 0..p {
                    let rel = 2f64.powi(-k) * rng.uniform(-1.0, 1.0);
                    a[at(p, q)] = bump(a[at(p, q)], rel);
                }
            }
        }
        _ => {
            // two independent single entries
            for _ in 0..2 {
                let (p, q) = (rng.below(n as u64) as usize, rng.below(n as u64) as usize);
                let rel = tiny_rel(rng);
                a[at(p, q)] = bump(a[at(p, q)], rel);
            }
        }
    }
    a
}

const KINDS: u64 = 13;

pub fn generate(seed: u64, thorough: bool, emit: &mut dyn FnMut(String)) {
    let mut rng = Rng::new(seed ^ 0xC14);
    // non-square shapes (all of 0..5 x 0..5, plus a few larger)
    for h in 0..=5usize {
        for w in 0..=5usize {
            if h != w {
                let v: Vec<f64> = (0..h * w).map(|_| entry(&mut rng, 1)).collect();
                emit_mat(emit, h, w, &v);
            }
        }
    }
    for (h, w) in [(10usize, 9usize), (9, 10), (1, 10), (10, 1), (3, 2), (2, 3), (0, 7), (7, 0)] {
        let v: Vec<f64> = (0..h * w).map(|_| entry(&mut rng, 0)).collect();
        emit_mat(emit, h, w, &v);
    }
    // every family at every size, unscaled and scaled.  The statement's bounds are relative to |A|, so every scale
    // at which neither the squares of the entries nor their sums leave the binary64 range is inside it: 2^+-40 as
    // in the quantifier, and far beyond (2^-70, 2^60, 2^+-200, 2^+-300, 2^+-450, random) for thresholds in absolute units
    let reps = if thorough { 800 } else { 12 };
    for n in 0..=10usize {
        for kind in 0..KINDS {
            for r in 0..reps {
                let mut a = family(&mut rng, n, kind);
                rescale(&mut rng, &mut a, r, kind != 12);
                emit_mat(emit, n, n, &a);
            }
        }
    }
    // sizes just beyond: every n = 11..40 (blocked / unrolled loops of 4, 8, 16; "the 9th element" is covered above)
    let per_n = if thorough { 3 * KINDS as usize } else { 3 };
    for n in 11..=40usize {
        for r in 0..per_n {
            let kind = if thorough { (r as u64) % KINDS } else { *rng.pick(&[0u64, 0, 1, 3, 5, 6, 10, 10, 11, 12]) };
            let mut a = family(&mut rng, n, kind);
            rescale(&mut rng, &mut a, r + n, kind != 12);
            emit_mat(emit, n, n, &a);
        }
    }
    // near-structure families (hardening 4): every base structure at every size 3..10 (and a sample of 11..16), at the
    // scales of the quantifier and a little beyond (2^+-30, 2^+-40, random)
    let mut r4 = Rng::new(seed ^ 0xC14_0004);
    let reps = if thorough { 120 } else { 3 };
    for n in 3..=10usize {
        for base in 0..BASES {
            // the symmetric bases carry the widest class of "structured shortcut" (tridiagonal result): more of them
            let reps = if base <= 1 { 2 * reps } else { reps };
            for r in 0..reps {
                let mut a = near_structure(&mut r4, n, base);
                let e = match (r + n + base as usize) % 6 {
                    0 => 30,
                    1 => -30,
                    2 => *r4.pick(&[40, -40]),
                    3 => r4.range(-60, 60) as i32,
                    _ => 0,
                };
                scale(&mut a, e);
                emit_mat(emit, n, n, &a);
            }
        }
    }
    for n in 11..=16usize {
        for _ in 0..(if thorough { 40 } else { 2 }) {
            let base = r4.below(BASES);
            let mut a = near_structure(&mut r4, n, base);
            let e = *r4.pick(&[0, 0, 30, -30]);
            scale(&mut a, e);
            emit_mat(emit, n, n, &a);
        }
    }
    let mut r6 = Rng::new(seed ^ 0xC14_0006);
    block_boundaries(&mut r6, thorough, emit);
    resonant(&mut r6, thorough, emit);
}

/// BLOCK BOUNDARIES (sixth seeded round, category O): a blocked / panelled / unrolled reflector application (rows, columns,
/// accumulation into Q), norm or dot product changes behaviour exactly when the order, the length n-k-1 of a reflector or
/// the column index passes 16, 32, 64 (128 in the thorough tier): every order blk-1, blk, blk+1, blk+2, 2 blk+1 with
/// non-constant NON-symmetric dense data, and (orders up to 34 in the quick tier) the same with the skip branch AT the
/// boundary: the sub-columns k = blk-2, blk-1, blk exactly zero below the sub-diagonal / entirely zero, and a leading
/// block that is already upper Hessenberg up to column blk-1.  Judged by the plug-in's exact identities (Q^T Q = I,
/// Q H Q^T = A, zero pattern, in exact dyadic arithmetic) and the correspondence K.
fn block_boundaries(rng: &mut Rng, thorough: bool, emit: &mut dyn FnMut(String)) {
    for &blk in &[16usize, 32, 64, 128] {
        for n in [blk - 1, blk, blk + 1, blk + 2, 2 * blk + 1] {
            if n > 130 || (n > 66 && !thorough) {
                continue;
            }
            let fl = rng.below(4);
            let a = dense(rng, n, fl);
            emit_mat(emit, n, n, &a);
            if n > 34 && !thorough {
                continue;
            }
            // exact zeros in the sub-columns at the boundary
            let mut b = dense(rng, n, 0);
            for (t, k) in [blk - 2, blk - 1, blk].into_iter().enumerate() {
                if k + 2 >= n {
                    continue;
                }
                let from = if (t + n) % 2 == 0 { k + 1 } else { k + 2 };
                for i in from..n {
                    b[i * n + k] = if rng.chance(1, 5) { -0.0 } else { 0.0 };
                }
            }
            let e = *rng.pick(&[0, 0, 40, -40]);
            scale(&mut b, e);
            emit_mat(emit, n, n, &b);
            // already upper Hessenberg up to the boundary, dense after it
            let mut c = dense(rng, n, 1);
            for k in 0..(blk - 1).min(n) {
                for i in k + 2..n {
                    c[i * n + k] = 0.0;
                }
            }
            emit_mat(emit, n, n, &c);
        }
    }
}

/// RESONANT / EXACT-RELATION DATA (sixth seeded round, category P): small-integer matrices whose sub-columns have an EXACT
/// norm (Pythagorean tuples 3-4, 5-12, 8-15, 1-2-2, 2-3-6, 1-4-8: u1 and tau are exact), a zero first entry (tau exactly 1,
/// either sign of zero), a single non-zero entry (tau exactly 2: the column is already reduced, the reflector only flips a
/// sign) - each with the first entry positive and negative -, so that updates cancel to exactly 0; and the same relations
/// missed by one ulp, 2^-50, 2^-40, 2^-30 relative in one entry of the sub-column; whole matrix scaled by a power of two.
fn resonant(rng: &mut Rng, thorough: bool, emit: &mut dyn FnMut(String)) {
    const TUPLES: [&[f64]; 8] = [&[3.0, 4.0], &[5.0, 12.0], &[8.0, 15.0], &[1.0, 2.0, 2.0], &[2.0, 3.0, 6.0], &[1.0, 4.0, 8.0], &[0.0, 3.0, 4.0], &[4.0, 0.0, 3.0]];
    let reps = if thorough { 20 } else { 1 };
    for k in 0..120 * reps {
        let n = 3 + k % 7;
        let mut a: Vec<f64> = (0..n * n).map(|_| rng.range(-4, 4) as f64).collect();
        let col = if k % 3 == 0 { 0 } else { rng.below(n as u64 - 2) as usize };
        let len = n - col - 1;
        let mut sub = vec![0.0; len];
        match k % 4 {
            0 | 1 => {
                let t = TUPLES[rng.below(8) as usize];
                for (i, x) in t.iter().enumerate() {
                    if i < len {
                        sub[i] = *x;
                    }
                }
                if t.len() > len {
                    sub = vec![0.0; len];
                    sub[0] = 3.0;
                    if len > 1 {
                        sub[len - 1] = 4.0;
                    }
                }
                if rng.chance(1, 2) {
                    // spread the tuple over the sub-column (the norm does not change)
                    let p = 1 + rng.below(len as u64 - 1).min(len as u64 - 1) as usize;
                    if len > 2 {
                        sub[1..].rotate_right(p % (len - 1));
                    }
                }
            }
            2 => {
                // zero first entry: tau = 1
                sub[0] = if rng.chance(1, 2) { -0.0 } else { 0.0 };
                sub[len - 1] = rng.range(1, 4) as f64;
                if len > 2 && rng.chance(1, 2) {
                    sub[1] = 0.0;
                }
            }
            _ => sub[0] = rng.range(1, 5) as f64, // single entry: tau = 2
        }
        for x in sub.iter_mut() {
            if rng.chance(1, 2) {
                *x = -*x;
            }
        }
        for (i, x) in sub.iter().enumerate() {
            a[(col + 1 + i) * n + col] = *x;
        }
        if k % 5 == 1 {
            let i = col + 1 + rng.below(len as u64) as usize;
            let d = *rng.pick(&[f64::EPSILON, -f64::EPSILON / 2.0, 2f64.powi(-50), -(2f64.powi(-40)), 2f64.powi(-40), 2f64.powi(-30)]);
            let x = a[i * n + col];
            a[i * n + col] = if x == 0.0 { d } else { x * (1.0 + d) };
        }
        if k % 5 == 3 {
            let e = *rng.pick(&[40, -40, 30, -70, 60, 1, -1]);
            scale(&mut a, e);
        }
        emit_mat(emit, n, n, &a);
    }
}

/// `extreme`: the entries are within 2^-24..2^24 of 1, so 2^+-450 keeps every square and sum of squares in range
fn rescale(rng: &mut Rng, a: &mut [f64], r: usize, extreme: bool) {
    match r % 12 {
        1 => scale(a, 40),
        2 => scale(a, -40),
        3 => {
            let e = rng.range(-40, 40) as i32;
            scale(a, e)
        }
        5 => scale(a, 60),
        6 => scale(a, -70),
        7 => {
            let e = rng.range(-300, 300) as i32;
            scale(a, e)
        }
        9 => scale(a, *rng.pick(&[200, 300, -200, -300])),
        10 => {
            let e = rng.range(-120, 120) as i32;
            scale(a, e)
        }
        11 if extreme => scale(a, if rng.chance(1, 2) { -450 } else { 450 }),
        _ => {}
    }
}
