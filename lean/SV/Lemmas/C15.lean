import SV.Model.C15
import SV.Lemmas.C18
import SV.Lemmas.Mat
import Mathlib.Algebra.BigOperators.Intervals
import Mathlib.Algebra.BigOperators.Ring.Finset
import Mathlib.Tactic.LinearCombination
/-!
Vocabulary and helper lemmas for C15.

The first section fixes the words the property theorems of `SV.Props.C15` are stated in (sum of
squared residuals, normal equations, the textbook statistics); the rest are the algebraic lemmas
behind them.
-/
namespace SV.C15
open SV SV.C18 Finset

/-! ### vocabulary of the statements -/
section vocabulary
variable {K : Type} [Field K]

/-- sum of squared residuals of the coefficient list `c` on the data `(xᵢ, yᵢ)` -/
def sse (c : List K) (x y : List K) : K :=
  ((x.zip y).map fun p => (p.2 - predict c p.1) ^ 2).sum

/-- the normal equations: the residual is orthogonal to `1, x, …, x^m` (`m + 1 = c.length`) -/
def NormalEqs (c : List K) (x y : List K) : Prop :=
  ∀ j, j < c.length → ((x.zip y).map fun p => (p.2 - predict c p.1) * p.1 ^ j).sum = 0

/-- total sum of squares about the mean response -/
def sst (y : List K) : K := (y.map fun yi => (yi - y.sum / (y.length : K)) ^ 2).sum

/-- textbook `r² = (SST − SSE)/SST` of a coefficient list (undefined when `SST = 0`) -/
def r2Spec [DecidableEq K] (c : List K) (x y : List K) : Option K :=
  if sst y = 0 then none else some ((sst y - sse c x y) / sst y)

/-- what the code reports as standard error: `sqrt (SSE/(n − 2))` (undefined when `n = 2`) -/
def stdErrSpec (sqrt : K → K) (c : List K) (x y : List K) : Option K :=
  if y.length = 2 then none else some (sqrt (sse c x y / ((y.length : K) - 2)))

/-- what is assumed of the linear solver used by the polynomial fit: an answer solves the system
(`M c = r`, with one unknown per column).  C08's `gauss_sound` discharges it for
`gaussian_elimination`. -/
def SolveSound [Inhabited K] (solve : Mat K → List K → Option (List K)) : Prop :=
  ∀ M r c, solve M r = some c →
    c.length = M.w ∧ ∀ i, i < M.h → ∑ j ∈ range M.w, M.get i j * c.getD j 0 = r.getD i 0

/-- closed forms of the line fit: `D = n Σx² − (Σx)²`, slope and intercept -/
def lsD (x : List K) : K := (x.length : K) * (x.map fun xi => xi ^ 2).sum - x.sum * x.sum

def lsSlope (x y : List K) : K :=
  ((x.length : K) * ((x.zip y).map fun p => p.1 * p.2).sum - x.sum * y.sum) / lsD x

def lsIntercept (x y : List K) : K :=
  y.sum / (x.length : K) - lsSlope x y * (x.sum / (x.length : K))

/-- error energy of gradient descent: `eᵀ H e`, `H = [[1, mx], [mx, q]]` (`mx` = mean x,
`q` = mean x²) -/
def energy (mx q : K) (e : K × K) : K := e.1 ^ 2 + 2 * mx * e.1 * e.2 + q * e.2 ^ 2

/-- the error map of one gradient step: `e ↦ (I − αH) e` -/
def stepErr (α mx q : K) (e : K × K) : K × K :=
  (e.1 - α * (e.1 + mx * e.2), e.2 - α * (mx * e.1 + q * e.2))

end vocabulary

/-! ### `predict` is polynomial evaluation -/
section ring
variable {R : Type} [CommRing R]

theorem terms_sum_eq (t : R) (k : Nat) (c : List R) :
    (terms t k c).sum = ∑ j ∈ range c.length, c.getD j 0 * t ^ (k + j) := by
  induction c generalizing k with
  | nil => simp [terms]
  | cons a cs ih =>
    rw [terms, List.sum_cons, ih, powi_eq_pow, List.length_cons, Finset.sum_range_succ']
    simp only [List.getD_cons_succ, List.getD_cons_zero, add_zero]
    rw [add_comm]
    congr 1
    apply Finset.sum_congr rfl
    intro j _
    congr 2
    omega

theorem predict_eq_eval (c : List R) (t : R) :
    predict c t = ∑ j ∈ range c.length, c.getD j 0 * t ^ j := by
  unfold predict
  rw [fsum_eq, terms_sum_eq]
  simp

theorem terms_append (t : R) (k : Nat) (a b : List R) :
    terms t k (a ++ b) = terms t k a ++ terms t (k + a.length) b := by
  induction a generalizing k with
  | nil => simp [terms]
  | cons x xs ih =>
    simp only [List.cons_append, terms, ih, List.length_cons, List.cons.injEq, true_and]
    have : k + 1 + xs.length = k + (xs.length + 1) := by omega
    rw [this]

theorem terms_zeros_sum (t : R) (k m : Nat) : (terms t k (List.replicate m (0 : R))).sum = 0 := by
  induction m generalizing k with
  | zero => simp [terms]
  | succ m ih => simp [List.replicate_succ, terms, ih]

/-- padding a coefficient list with zeros does not change the polynomial -/
theorem predict_append_zeros (c : List R) (m : Nat) (t : R) :
    predict (c ++ List.replicate m 0) t = predict c t := by
  unfold predict
  rw [fsum_eq, fsum_eq, terms_append, List.sum_append, terms_zeros_sum, add_zero]

/-! ### sums over lists -/

theorem sum_map_sub {ι : Type} (l : List ι) (f g : ι → R) :
    (l.map fun p => f p - g p).sum = (l.map f).sum - (l.map g).sum := by
  induction l with
  | nil => simp
  | cons a l ih => simp only [List.map_cons, List.sum_cons, ih]; ring

theorem sum_map_add' {ι : Type} (l : List ι) (f g : ι → R) :
    (l.map fun p => f p + g p).sum = (l.map f).sum + (l.map g).sum := by
  induction l with
  | nil => simp
  | cons a l ih => simp only [List.map_cons, List.sum_cons, ih]; ring

theorem sum_map_const {ι : Type} (l : List ι) (a : R) :
    (l.map fun _ => a).sum = (l.length : R) * a := by
  induction l with
  | nil => simp
  | cons b l ih => simp only [List.map_cons, List.sum_cons, ih, List.length_cons, Nat.cast_succ]; ring

theorem sum_map_mul_right' {ι : Type} (l : List ι) (f : ι → R) (k : R) :
    (l.map fun p => f p * k).sum = (l.map f).sum * k := by
  induction l with
  | nil => simp
  | cons a l ih => simp only [List.map_cons, List.sum_cons, ih]; ring

/-- `Σ_p (r p − d p)² = Σ r² − 2 Σ r d + Σ d²` -/
theorem sum_map_sq_sub {ι : Type} (l : List ι) (r d : ι → R) :
    (l.map fun p => (r p - d p) ^ 2).sum
      = (l.map fun p => r p ^ 2).sum - 2 * (l.map fun p => r p * d p).sum
        + (l.map fun p => d p ^ 2).sum := by
  induction l with
  | nil => simp
  | cons a l ih => simp only [List.map_cons, List.sum_cons, ih]; ring

/-- exchanging a list sum with a finite sum of scaled terms -/
theorem sum_map_mul_finsum {ι : Type} (l : List ι) (s : Finset Nat) (r : ι → R) (e : Nat → R)
    (g : Nat → ι → R) :
    (l.map fun p => r p * ∑ k ∈ s, e k * g k p).sum
      = ∑ k ∈ s, e k * (l.map fun p => r p * g k p).sum := by
  induction l with
  | nil => simp
  | cons a l ih =>
    rw [List.map_cons, List.sum_cons, ih, Finset.mul_sum, ← Finset.sum_add_distrib]
    apply Finset.sum_congr rfl
    intro k _
    rw [List.map_cons, List.sum_cons]
    ring

theorem map_zip_fst {α β γ : Type} (x : List α) (y : List β) (f : α → γ) (h : x.length ≤ y.length) :
    (x.zip y).map (fun p => f p.1) = x.map f := by
  have : (x.zip y).map (fun p => f p.1) = ((x.zip y).map Prod.fst).map f := by
    rw [List.map_map]; rfl
  rw [this, List.map_fst_zip h]

theorem map_zip_snd {α β γ : Type} (x : List α) (y : List β) (f : β → γ) (h : y.length ≤ x.length) :
    (x.zip y).map (fun p => f p.2) = y.map f := by
  have : (x.zip y).map (fun p => f p.2) = ((x.zip y).map Prod.snd).map f := by
    rw [List.map_map]; rfl
  rw [this, List.map_snd_zip h]

theorem map_zip_swap {α β γ : Type} (x : List α) (y : List β) (f : β → α → γ) :
    (y.zip x).map (fun p => f p.1 p.2) = (x.zip y).map (fun p => f p.2 p.1) := by
  rw [← List.zip_swap x y, List.map_map]
  rfl

/-- the triple zip of gradient descent, flattened -/
theorem zip_zip_map {α β γ : Type} (x : List α) (y : List β) (f : α → γ) :
    ((x.map f).zip y).zip x = (x.zip y).map (fun p => ((f p.1, p.2), p.1)) := by
  induction x generalizing y with
  | nil => simp
  | cons a as ih =>
    cases y with
    | nil => simp
    | cons b bs => simp [ih]

end ring


/-! ### optimality algebra -/
section field
variable {K : Type} [Field K]

theorem predict_sub_eq (c c' : List K) (h : c'.length = c.length) (t : K) :
    predict c' t - predict c t = ∑ k ∈ range c.length, (c'.getD k 0 - c.getD k 0) * t ^ k := by
  rw [predict_eq_eval, predict_eq_eval, h, ← Finset.sum_sub_distrib]
  apply Finset.sum_congr rfl
  intro k _
  ring

/-- the cross term vanishes under the normal equations -/
theorem cross_term_zero (c c' : List K) (x y : List K) (hne : NormalEqs c x y)
    (h : c'.length = c.length) :
    ((x.zip y).map fun p => (p.2 - predict c p.1) * (predict c' p.1 - predict c p.1)).sum = 0 := by
  have e1 : ((x.zip y).map fun p => (p.2 - predict c p.1) * (predict c' p.1 - predict c p.1))
      = (x.zip y).map fun p => (p.2 - predict c p.1)
          * ∑ k ∈ range c.length, (c'.getD k 0 - c.getD k 0) * p.1 ^ k := by
    apply List.map_congr_left
    intro p _
    rw [predict_sub_eq c c' h]
  rw [e1, sum_map_mul_finsum (x.zip y) (range c.length) (fun p => p.2 - predict c p.1)
    (fun k => c'.getD k 0 - c.getD k 0) (fun k p => p.1 ^ k)]
  apply Finset.sum_eq_zero
  intro k hk
  rw [hne k (Finset.mem_range.mp hk), mul_zero]

/-- Pythagoras for least squares -/
theorem sse_decomp (c c' : List K) (x y : List K) (hne : NormalEqs c x y)
    (h : c'.length = c.length) :
    sse c' x y = sse c x y
      + ((x.zip y).map fun p => (predict c' p.1 - predict c p.1) ^ 2).sum := by
  have e1 : sse c' x y = ((x.zip y).map fun p =>
      ((p.2 - predict c p.1) - (predict c' p.1 - predict c p.1)) ^ 2).sum := by
    unfold sse
    congr 1
    apply List.map_congr_left
    intro p _
    ring
  rw [e1, sum_map_sq_sub, cross_term_zero c c' x y hne h]
  unfold sse
  ring

/-! ### the moment system is the normal equations -/

/-- row `i` of `M c` for the moment matrix, as a sum over the data -/
theorem moment_row (c : List K) (x y : List K) (hxy : x.length = y.length) (i : Nat) :
    ∑ j ∈ range c.length, (x.map fun xi => xi ^ (i + j)).sum * c.getD j 0
      = ((x.zip y).map fun p => predict c p.1 * p.1 ^ i).sum := by
  have e1 : ((x.zip y).map fun p => predict c p.1 * p.1 ^ i)
      = (x.zip y).map fun p => p.1 ^ i * ∑ j ∈ range c.length, c.getD j 0 * p.1 ^ j := by
    apply List.map_congr_left
    intro p _
    rw [predict_eq_eval, mul_comm]
  rw [e1, sum_map_mul_finsum (x.zip y) (range c.length) (fun p => p.1 ^ i)
    (fun j => c.getD j 0) (fun j p => p.1 ^ j)]
  apply Finset.sum_congr rfl
  intro j _
  rw [mul_comm]
  congr 1
  rw [← map_zip_fst x y (fun xi => xi ^ (i + j)) (le_of_eq hxy)]
  congr 1
  apply List.map_congr_left
  intro p _
  rw [pow_add]

theorem momentMatrix_get [Inhabited K] (order : Nat) (x : List K) {i j : Nat}
    (hi : i < order + 1) (hj : j < order + 1) :
    (momentMatrix order x).get i j = (x.map fun xi => xi ^ (i + j)).sum := by
  unfold momentMatrix
  rw [Mat.get_tab _ hi hj, fsum_eq]
  congr 1
  apply List.map_congr_left
  intro xi _
  rw [powi_eq_pow]

theorem momentRhs_getD (order : Nat) (x y : List K) {i : Nat} (hi : i < order + 1) :
    (momentRhs order x y).getD i 0 = ((x.zip y).map fun p => p.2 * p.1 ^ i).sum := by
  unfold momentRhs
  rw [List.getD_eq_getElem?_getD, List.getElem?_map, List.getElem?_range hi]
  simp only [Option.map_some, Option.getD_some]
  rw [fsum_eq, map_zip_swap x y (fun a b => a * powi b i)]
  congr 1
  apply List.map_congr_left
  intro p _
  rw [powi_eq_pow]

/-- a solution of the moment system satisfies the normal equations -/
theorem normalEqs_of_moment_solution [Inhabited K] (order : Nat) (x y c : List K)
    (hxy : x.length = y.length) (hlen : c.length = order + 1)
    (hsol : ∀ i, i < order + 1 →
      ∑ j ∈ range (order + 1), (momentMatrix order x).get i j * c.getD j 0
        = (momentRhs order x y).getD i 0) :
    NormalEqs c x y := by
  intro i hi
  rw [hlen] at hi
  have h1 := hsol i hi
  rw [momentRhs_getD order x y hi] at h1
  have h2 : ∑ j ∈ range (order + 1), (momentMatrix order x).get i j * c.getD j 0
      = ∑ j ∈ range c.length, (x.map fun xi => xi ^ (i + j)).sum * c.getD j 0 := by
    rw [hlen]
    apply Finset.sum_congr rfl
    intro j hj
    rw [momentMatrix_get order x hi (Finset.mem_range.mp hj)]
  rw [h2, moment_row c x y hxy i] at h1
  have e : ((x.zip y).map fun p => (p.2 - predict c p.1) * p.1 ^ i)
      = (x.zip y).map fun p => p.2 * p.1 ^ i - predict c p.1 * p.1 ^ i := by
    apply List.map_congr_left
    intro p _
    ring
  rw [e, sum_map_sub, h1, sub_self]

/-! ### the line -/

theorem predict_pair (a b t : K) : predict [a, b] t = a + b * t := by
  rw [predict_eq_eval]
  simp [Finset.sum_range_succ]

theorem predict_single (a t : K) : predict [a] t = a := by
  rw [predict_eq_eval]
  simp

/-- `Σ (y − (a + b x))` in closed form -/
theorem res_sum (x y : List K) (a b : K) :
    ((x.zip y).map fun p => p.2 - (a + b * p.1)).sum
      = ((x.zip y).map fun p => p.2).sum - ((x.zip y).length : K) * a
        - b * ((x.zip y).map fun p => p.1).sum := by
  generalize x.zip y = l
  induction l with
  | nil => simp
  | cons p ps ih =>
    simp only [List.map_cons, List.sum_cons, List.length_cons, Nat.cast_succ, ih]
    ring

/-- `Σ (y − (a + b x)) x` in closed form -/
theorem res_x_sum (x y : List K) (a b : K) :
    ((x.zip y).map fun p => (p.2 - (a + b * p.1)) * p.1).sum
      = ((x.zip y).map fun p => p.1 * p.2).sum - a * ((x.zip y).map fun p => p.1).sum
        - b * ((x.zip y).map fun p => p.1 ^ 2).sum := by
  generalize x.zip y = l
  induction l with
  | nil => simp
  | cons p ps ih =>
    simp only [List.map_cons, List.sum_cons, ih]
    ring

end field

/-! ### unfolding the three `fit`s -/
section unfold
set_option linter.unusedSectionVars false
variable {K : Type} [Field K] [DecidableEq K]

theorem sqTotal_eq (y : List K) (m : K) : sqTotal y m = (y.map fun yi => (yi - m) ^ 2).sum := by
  unfold sqTotal
  rw [fsum_eq]
  congr 1
  apply List.map_congr_left
  intro yi _
  rw [powi_eq_pow]

theorem sqResidual_eq (pred : K → K) (x y : List K) :
    sqResidual pred x y = ((x.zip y).map fun p => (p.2 - pred p.1) ^ 2).sum := by
  unfold sqResidual
  rw [fsum_eq]
  congr 1
  apply List.map_congr_left
  intro p _
  rw [powi_eq_pow]

/-- the statistics the three fits attach to their coefficients are the textbook functions of the
coefficients, provided the prediction function used is the coefficient polynomial -/
theorem mkFit_spec (sqrt : K → K) (c : List K) (pred : K → K) (x y : List K)
    (hp : ∀ t, pred t = predict c t) :
    mkFit sqrt c pred x y (y.sum / (y.length : K)) y.length
      = { coeffs := c, stdErr := stdErrSpec sqrt c x y, r2 := r2Spec c x y } := by
  have hs : sqResidual pred x y = sse c x y := by
    rw [sqResidual_eq]
    unfold sse
    congr 1
    apply List.map_congr_left
    intro p _
    rw [hp]
  have ht : sqTotal y (y.sum / (y.length : K)) = sst y := sqTotal_eq y _
  have hse : stdErrOf sqrt (sse c x y) y.length = stdErrSpec sqrt c x y := by
    unfold stdErrOf stdErrSpec
    by_cases h2 : y.length = 2
    · rw [if_pos h2, if_pos h2]
    · rw [if_neg h2, if_neg h2]
      norm_num
  have hr2 : r2Of (sst y) (sse c x y) = r2Spec c x y := by
    unfold r2Of r2Spec
    by_cases h0 : sst y = 0
    · rw [if_pos h0, if_pos (by rw [h0]; exact beq_self_eq_true 0)]
    · rw [if_neg h0, if_neg (by simpa using h0)]
  unfold mkFit
  simp only [hs, ht, hse, hr2]

theorem lsFit_eq (sqrt : K → K) (x y : List K) :
    lsFit sqrt x y =
      if x.length = 0 then none
      else if lsD x = 0 then none
      else some (mkFit sqrt [lsIntercept x y, lsSlope x y]
        (fun xi => lsIntercept x y + lsSlope x y * xi) x y (y.sum / (x.length : K)) x.length) := by
  unfold lsFit
  have hd : (x.length : K) * fsum (x.map fun xi => powi xi 2) - fsum x * fsum x = lsD x := by
    unfold lsD
    rw [fsum_eq, fsum_eq]
    congr 3
    apply List.map_congr_left
    intro xi _
    rw [powi_eq_pow]
  by_cases h0 : x.length = 0
  · simp only [h0, if_true]
  · simp only [h0, if_false]
    rw [hd]
    by_cases hD : lsD x = 0
    · rw [if_pos hD, if_pos (by rw [hD]; exact beq_self_eq_true 0)]
    · rw [if_neg hD, if_neg (by simpa using hD)]
      simp only [fsum_eq]
      rfl

theorem polyFit_eq (sqrt : K → K) (solve : Mat K → List K → Option (List K)) (order : Nat)
    (x y : List K) :
    polyFit sqrt solve order x y =
      match solve (momentMatrix order x) (momentRhs order x y) with
      | none => .panic
      | some c => .ok { coeffs := c, stdErr := stdErrSpec sqrt c x y, r2 := r2Spec c x y } := by
  unfold polyFit
  cases solve (momentMatrix order x) (momentRhs order x y) with
  | none => rfl
  | some c =>
    simp only
    rw [fsum_eq, mkFit_spec sqrt c (predict c) x y (fun _ => rfl)]

theorem gdFit_eq (sqrt : K → K) (steps : Nat) (α : K) (x y : List K) :
    gdFit sqrt steps α x y =
      if y.length = 0 then none
      else
        let w := gdLoop α x y steps (y.sum / (y.length : K), 0)
        some { coeffs := [w.1, w.2], stdErr := stdErrSpec sqrt [w.1, w.2] x y,
               r2 := r2Spec [w.1, w.2] x y } := by
  unfold gdFit
  by_cases h0 : y.length = 0
  · rw [if_pos h0, if_pos h0]
  · rw [if_neg h0, if_neg h0]
    simp only [fsum_eq]
    rw [mkFit_spec sqrt _ _ x y (fun t => (predict_pair _ _ t).symm)]

end unfold

/-! ### gradient descent -/
section gd
variable {K : Type} [Field K]

/-- the two gradients as sums over the data -/
theorem gdStep_eq (α : K) (x y : List K) (w : K × K) :
    gdStep α x y w =
      (w.1 - α * (((x.zip y).map fun p => w.1 + w.2 * p.1 - p.2).sum / (y.length : K)),
       w.2 - α * (((x.zip y).map fun p => (w.1 + w.2 * p.1 - p.2) * p.1).sum / (y.length : K))) := by
  unfold gdStep
  simp only [fsum_eq]
  rw [zip_zip_map, List.zip_map_left, List.map_map, List.map_map]
  rfl

/-- the gradient sums in terms of the error, when `(a, b)` solves the normal equations -/
theorem grad_sums (x y : List K) (hxy : x.length = y.length) (a b : K)
    (h0 : ((x.zip y).map fun p => p.2 - (a + b * p.1)).sum = 0)
    (h1 : ((x.zip y).map fun p => (p.2 - (a + b * p.1)) * p.1).sum = 0) (w : K × K) :
    ((x.zip y).map fun p => w.1 + w.2 * p.1 - p.2).sum
        = (y.length : K) * (w.1 - a) + (w.2 - b) * x.sum ∧
    ((x.zip y).map fun p => (w.1 + w.2 * p.1 - p.2) * p.1).sum
        = (w.1 - a) * x.sum + (w.2 - b) * (x.map fun xi => xi ^ 2).sum := by
  have hx : ((x.zip y).map fun p => p.1).sum = x.sum := by
    have := map_zip_fst x y (fun t => t) (le_of_eq hxy)
    simp only [List.map_id'] at this
    rw [this]
  have hxx : ((x.zip y).map fun p => p.1 ^ 2).sum = (x.map fun xi => xi ^ 2).sum := by
    rw [map_zip_fst x y (fun t => t ^ 2) (le_of_eq hxy)]
  have hlen : ((x.zip y).length : K) = (y.length : K) := by
    rw [List.length_zip, hxy, min_self]
  constructor
  · have e : ((x.zip y).map fun p => w.1 + w.2 * p.1 - p.2)
        = (x.zip y).map fun p => ((w.1 - a) + (w.2 - b) * p.1) - (p.2 - (a + b * p.1)) := by
      apply List.map_congr_left; intro p _; ring
    rw [e, sum_map_sub, h0, sub_zero, sum_map_add', sum_map_const, hlen,
      sum_map_mul_left' (x.zip y) (fun p => p.1) (w.2 - b), hx]
  · have e : ((x.zip y).map fun p => (w.1 + w.2 * p.1 - p.2) * p.1)
        = (x.zip y).map fun p => ((w.1 - a) * p.1 + (w.2 - b) * p.1 ^ 2)
            - (p.2 - (a + b * p.1)) * p.1 := by
      apply List.map_congr_left; intro p _; ring
    rw [e, sum_map_sub, h1, sub_zero, sum_map_add',
      sum_map_mul_left' (x.zip y) (fun p => p.1) (w.1 - a),
      sum_map_mul_left' (x.zip y) (fun p => p.1 ^ 2) (w.2 - b), hx, hxx]

end gd

section gdorder
variable {K : Type} [Field K] [LinearOrder K] [IsStrictOrderedRing K]

/-- a symmetric 2×2 matrix with non-negative diagonal and determinant is positive semidefinite -/
theorem psd2 (a b c u v : K) (ha : 0 ≤ a) (hc : 0 ≤ c) (hdet : b ^ 2 ≤ a * c) :
    0 ≤ a * u ^ 2 + 2 * b * u * v + c * v ^ 2 := by
  rcases ha.eq_or_lt with ha0 | hapos
  · have hb : b = 0 := by
      have : b ^ 2 ≤ 0 := by rw [← ha0, zero_mul] at hdet; exact hdet
      exact pow_eq_zero_iff (two_ne_zero) |>.mp (le_antisymm this (sq_nonneg b))
    rw [← ha0, hb]
    have := mul_nonneg hc (sq_nonneg v)
    linarith
  · have key : a * (a * u ^ 2 + 2 * b * u * v + c * v ^ 2)
        = (a * u + b * v) ^ 2 + (a * c - b ^ 2) * v ^ 2 := by ring
    have hnn : 0 ≤ a * (a * u ^ 2 + 2 * b * u * v + c * v ^ 2) := by
      rw [key]
      have h1 := sq_nonneg (a * u + b * v)
      have h2 := mul_nonneg (sub_nonneg.mpr hdet) (sq_nonneg v)
      linarith
    exact nonneg_of_mul_nonneg_right hnn hapos |> fun h => h

omit [LinearOrder K] [IsStrictOrderedRing K] in
/-- energy after one step: `E(e') = E(e) − 2α |g|² + α² gᵀHg`, `g = He` -/
theorem energy_step (α mx q : K) (e : K × K) :
    energy mx q (stepErr α mx q e)
      = energy mx q e
        - 2 * α * ((e.1 + mx * e.2) ^ 2 + (mx * e.1 + q * e.2) ^ 2)
        + α ^ 2 * energy mx q (e.1 + mx * e.2, mx * e.1 + q * e.2) := by
  unfold energy stepErr
  ring

/-- `H ≤ L·I`: `gᵀHg ≤ L |g|²` -/
theorem energy_le (mx q L : K) (hL : 1 ≤ L) (hLq : q ≤ L) (hdet : mx ^ 2 ≤ (L - 1) * (L - q))
    (g : K × K) : energy mx q g ≤ L * (g.1 ^ 2 + g.2 ^ 2) := by
  have h := psd2 (L - 1) (-mx) (L - q) g.1 g.2 (by linarith) (by linarith)
    (by rw [neg_sq]; exact hdet)
  unfold energy
  linarith

/-- `H ≥ μ·I` gives `|He|² ≥ μ eᵀHe` -/
theorem grad_ge (mx q μ : K) (h0 : 0 ≤ μ) (h1 : μ ≤ 1) (hq : μ ≤ q)
    (hdet : mx ^ 2 ≤ (1 - μ) * (q - μ)) (e : K × K) :
    μ * energy mx q e ≤ (e.1 + mx * e.2) ^ 2 + (mx * e.1 + q * e.2) ^ 2 := by
  have hq0 : 0 ≤ q := le_trans h0 hq
  have hz : mx ^ 2 ≤ q := by
    have h2 : (1 - μ) * (q - μ) ≤ 1 * q := by
      apply mul_le_mul <;> linarith
    linarith
  have hc : 0 ≤ q * (q - μ) + mx ^ 2 := by
    have := mul_nonneg hq0 (sub_nonneg.mpr hq)
    have := sq_nonneg mx
    linarith
  have hd : (mx * (1 + q - μ)) ^ 2 ≤ (1 - μ + mx ^ 2) * (q * (q - μ) + mx ^ 2) := by
    have key : (1 - μ + mx ^ 2) * (q * (q - μ) + mx ^ 2) - (mx * (1 + q - μ)) ^ 2
        = (q - mx ^ 2) * ((1 - μ) * (q - μ) - mx ^ 2) := by ring
    have := mul_nonneg (sub_nonneg.mpr hz) (sub_nonneg.mpr hdet)
    linarith
  have h := psd2 (1 - μ + mx ^ 2) (mx * (1 + q - μ)) (q * (q - μ) + mx ^ 2) e.1 e.2
    (by have := sq_nonneg mx; linarith) hc hd
  unfold energy
  nlinarith [h]

/-- one step contracts the energy by `τ = 1 − αμ(2 − αL)` -/
theorem energy_contracts (α mx q L μ : K) (hL : 1 ≤ L) (hLq : q ≤ L)
    (hLdet : mx ^ 2 ≤ (L - 1) * (L - q)) (h0 : 0 ≤ μ) (h1 : μ ≤ 1) (hq : μ ≤ q)
    (hμdet : mx ^ 2 ≤ (1 - μ) * (q - μ)) (hα : 0 ≤ α) (hαL : α * L ≤ 2) (e : K × K) :
    energy mx q (stepErr α mx q e) ≤ (1 - α * μ * (2 - α * L)) * energy mx q e := by
  rw [energy_step]
  have hg := energy_le mx q L hL hLq hLdet (e.1 + mx * e.2, mx * e.1 + q * e.2)
  have hm := grad_ge mx q μ h0 h1 hq hμdet e
  simp only at hg
  set G := (e.1 + mx * e.2) ^ 2 + (mx * e.1 + q * e.2) ^ 2 with hG
  set E := energy mx q e with hE
  set EG := energy mx q (e.1 + mx * e.2, mx * e.1 + q * e.2) with hEG
  have hα2 : 0 ≤ α ^ 2 := sq_nonneg α
  have hc : 0 ≤ α * (2 - α * L) := mul_nonneg hα (by linarith)
  have s1 : α ^ 2 * EG ≤ α ^ 2 * (L * G) := mul_le_mul_of_nonneg_left hg hα2
  have s2 : α * (2 - α * L) * (μ * E) ≤ α * (2 - α * L) * G := mul_le_mul_of_nonneg_left hm hc
  nlinarith [s1, s2]

theorem tau_nonneg (α L μ : K) (hL : 1 ≤ L) (_h0 : 0 ≤ μ) (h1 : μ ≤ 1) (hα : 0 ≤ α)
    (hαL : α * L ≤ 2) : 0 ≤ 1 - α * μ * (2 - α * L) := by
  have hμL : μ ≤ L := le_trans h1 hL
  have h2 : 0 ≤ 2 - α * L := by linarith
  have h3 : α * μ ≤ α * L := mul_le_mul_of_nonneg_left hμL hα
  have h4 : α * μ * (2 - α * L) ≤ α * L * (2 - α * L) := mul_le_mul_of_nonneg_right h3 h2
  nlinarith [sq_nonneg (1 - α * L)]

end gdorder

end SV.C15
