import SV.Model.C19
/-!
# C19 — expression parser: total, conventional precedence, sound folding and display

Property theorems only.  This file: facts about the binding powers read from the source
(`SV.Gen.bindingPow`, `SV.Gen.unaryMinPow`) that make the precedence conventional — they are re-checked
against what the source says on every run — and totality of the implied-multiplication pass.
`parser_total`, `fold_sound` and the display theorems are in the companion modules `SV.Props.C19*`.
-/
namespace SV.Props.C19
open SV SV.C19

/-- `*` and `/` bind tighter than `+` and `-` (which bind alike), implied multiplication tighter
still, `^` tightest; `!` is never taken as a binary operator above power 0. -/
theorem precedence_order :
    bp .add = bp .sub ∧ bp .mul = bp .div ∧ bp .add < bp .mul ∧ bp .mul < bp .cdot ∧
    bp .cdot < bp .caret ∧ bp .fac = 0 ∧ 0 < bp .add := by
  decide

/-- Unary minus takes an operand that binds strictly tighter than `*` and `/` — so it applies to
the following factor only — but not tighter than implied multiplication or `^` (`-2x`, `-x^2`). -/
theorem unary_minus_power :
    bp .mul < SV.Gen.unaryMinPow ∧ SV.Gen.unaryMinPow ≤ bp .cdot ∧ SV.Gen.unaryMinPow ≤ bp .caret := by
  decide

/-- Left associativity: the right operand of a binary operator is parsed with a minimum power one
above the operator's own, so an operator of equal power ends it. -/
theorem right_operand_stops_at_equal_power (o : Op) : ¬ (bp o + 1 ≤ bp o) := by omega

/-- The implied-multiplication pass only inserts `·` tokens: the input is a sublist of the output
and every other token of the output is a `·`. -/
theorem impliedMul_only_inserts {N : Type} (ts : List (Tok N)) :
    ts.Sublist (impliedMul ts) ∧ ∀ t ∈ impliedMul ts, t ∈ ts ∨ t = .op .cdot := by
  induction ts using impliedMul.induct with
  | case1 a b rest hd ih =>
    rw [impliedMul, if_pos hd]
    refine ⟨(ih.1.cons _).cons_cons _, ?_⟩
    intro t ht
    rcases List.mem_cons.mp ht with rfl | ht
    · left; simp
    · rcases List.mem_cons.mp ht with rfl | ht
      · right; rfl
      · rcases ih.2 t ht with h | h
        · left; exact List.mem_cons_of_mem _ h
        · right; exact h
  | case2 a b rest hd ih =>
    rw [impliedMul, if_neg hd]
    refine ⟨ih.1.cons_cons _, ?_⟩
    intro t ht
    rcases List.mem_cons.mp ht with rfl | ht
    · left; simp
    · rcases ih.2 t ht with h | h
      · left; exact List.mem_cons_of_mem _ h
      · right; exact h
  | case3 l hl =>
    have : impliedMul l = l := by
      unfold impliedMul
      split
      · rename_i a b rest; exact absurd rfl (hl a b rest)
      · rfl
    rw [this]
    exact ⟨List.Sublist.refl _, fun t ht => Or.inl ht⟩

end SV.Props.C19
