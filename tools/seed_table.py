#!/usr/bin/env python3
"""prints the markdown table of seeded changes from seeded/*/meta.json"""
import json, glob, os, re
ROOT = os.path.dirname(os.path.dirname(os.path.abspath(__file__)))
print("| seed | property | what the change is (from notes.md) | quick | thorough | remark |")
print("|---|---|---|---|---|---|")
for d in sorted(glob.glob(os.path.join(ROOT, "seeded", "*"))):
    m = json.load(open(os.path.join(d, "meta.json")))
    notes = open(os.path.join(d, "notes.md")).read() if os.path.exists(os.path.join(d, "notes.md")) else ""
    first = ""
    for line in notes.split("\n"):
        l = line.strip()
        if l and not l.startswith("#") and len(l) > 40:
            first = re.sub(r"\s+", " ", l)[:170]; break
    q = "caught" if m["check_quick"]["caught"] else "missed"
    t = "—" if m.get("check_thorough") is None else ("caught" if m["check_thorough"]["caught"] else "missed")
    print(f"| {m['id']} | {m['property']} | {first} | {q} | {t} | {m.get('history','')[:260]} |")
