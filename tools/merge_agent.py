#!/usr/bin/env python3
"""merge_agent.py <agent copy dir> <prop> [<prop> …]: bring a worker's files into /verif.
New files are copied; registration lines of the shared files are merged line-wise; claims entries copied."""
import sys, os, shutil, json, filecmp
src = sys.argv[1].rstrip("/"); props = sys.argv[2:]
ROOT = os.path.dirname(os.path.dirname(os.path.abspath(__file__)))
SKIP_DIRS = {".lake", "target", ".work", "replays", "evidence", "__pycache__", ".git", "design-notes"}
shared = {"lean/Driver.lean", "lean/SV.lean", "harness/src/main.rs", "tools/claims.json", "MANIFEST.json",
          "known_findings.json", "harness/Cargo.toml", "harness/Cargo.lock", "check"}
copied, differ = [], []
for base, dirs, files in os.walk(src):
    dirs[:] = [d for d in dirs if d not in SKIP_DIRS]
    for f in files:
        p = os.path.join(base, f); rel = os.path.relpath(p, src)
        if rel in shared or rel.endswith(".pyc"):
            continue
        dst = os.path.join(ROOT, rel)
        if not os.path.exists(dst):
            os.makedirs(os.path.dirname(dst), exist_ok=True); shutil.copy2(p, dst); copied.append(rel)
        elif not filecmp.cmp(p, dst, shallow=False):
            differ.append(rel)
def merge_lines(rel, pick):
    a = open(os.path.join(src, rel)).read().split("\n"); b = open(os.path.join(ROOT, rel)).read().split("\n")
    new = [l for l in a if l not in b and pick(l)]
    return new
# SV.lean: imports
new = merge_lines("lean/SV.lean", lambda l: l.startswith("import "))
if new:
    with open(os.path.join(ROOT, "lean/SV.lean"), "a") as f: f.write("\n".join(new) + "\n")
print("SV.lean +", new)
# Driver.lean
p = os.path.join(ROOT, "lean/Driver.lean"); s = open(p).read()
imps = merge_lines("lean/Driver.lean", lambda l: l.startswith("import "))
disp = merge_lines("lean/Driver.lean", lambda l: l.strip().startswith("| \"") and "some" in l)
for l in imps: s = s.replace("import SV.Model.C11\n", "import SV.Model.C11\n" + l + "\n", 1)
for l in disp: s = s.replace('  | "C11" => some C11.Driver.handle\n', '  | "C11" => some C11.Driver.handle\n' + l + "\n", 1)
open(p, "w").write(s); print("Driver.lean +", imps, disp)
# main.rs
p = os.path.join(ROOT, "harness/src/main.rs"); s = open(p).read()
mods = merge_lines("harness/src/main.rs", lambda l: l.startswith("mod "))
tabs = merge_lines("harness/src/main.rs", lambda l: l.strip().startswith('"') and "Some((" in l)
for l in mods: s = s.replace("mod c11;\n", "mod c11;\n" + l + "\n", 1)
for l in tabs: s = s.replace('        "C11" => Some((c11::generate, c11::run)),\n', '        "C11" => Some((c11::generate, c11::run)),\n' + l + "\n", 1)
open(p, "w").write(s); print("main.rs +", mods, tabs)
# claims
ca = json.load(open(os.path.join(src, "tools/claims.json"))); cb = json.load(open(os.path.join(ROOT, "tools/claims.json")))
for pr in props:
    if pr in ca: cb[pr] = ca[pr]
json.dump(cb, open(os.path.join(ROOT, "tools/claims.json"), "w"), indent=1)
print("copied:", copied); print("DIFFER (kept /verif's):", differ)
