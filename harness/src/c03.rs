//! C03 — symbolic derivatives are the derivative, and stay usable polynomials.
//!
//! Requests (lean/SV/Model/C03.lean): the shared `deriv` / `pderiv` / `chain` of polyops.rs, plus
//!
//!     chainm <poly> <k> steps… <n> { <name> <value> }*     chain ended by eval_multivariate
//!     txt <text> <any request>                              the text the polynomial was parsed from
//!                                                           (ignored; documents the replay)
//!
//! Every polynomial on the wire comes out of the REAL parsers (`PolynomialTraits::parse` of both
//! types) applied to texts produced by the grammar generators below.  The value oracle lives in
//! tools/props/c03.py (exact rationals); the closure oracle ("every operation that is Ok on the
//! source is Ok on its derivative") is evaluated here because it needs the implementation.
use crate::polyio::*;
use crate::polyops;
use crate::util::*;
use spindalis_core::polynomials::structs::{IntermediatePolynomial, PolynomialTraits, SimplePolynomial};

// ---------------------------------------------------------------- running one request

/// strips the optional `txt <n> cp…` prefix
pub fn strip_txt(line: &str) -> String {
    let toks: Vec<&str> = line.split_ascii_whitespace().collect();
    if toks.first() == Some(&"txt") {
        let n: usize = toks[1].parse().expect("txt length");
        toks[2 + n..].join(" ")
    } else {
        toks.join(" ")
    }
}

#[derive(Clone)]
pub enum Step {
    D,
    I,
    DV(String),
    JV(String),
}

pub fn read_step(t: &mut Toks) -> Step {
    match t.tok() {
        "d" => Step::D,
        "i" => Step::I,
        "D" => Step::DV(t.string()),
        "J" => Step::JV(t.string()),
        s => panic!("step {s}"),
    }
}

pub fn apply_step(p: &AnyPoly, s: &Step) -> Result<AnyPoly, spindalis_core::polynomials::PolynomialError> {
    match s {
        Step::D => polyops::deriv_uni(p),
        Step::I => polyops::integ_uni(p),
        Step::DV(v) => Ok(polyops::deriv_multi(p, v)),
        Step::JV(v) => Ok(polyops::integ_multi(p, v)),
    }
}

/// `ok` / `err Kind` / `panic` of every entry point on one polynomial (values dropped)
pub fn statuses(p: &AnyPoly, x: f64, names: &[String]) -> Vec<(String, String)> {
    fn st<T>(r: Option<Result<T, spindalis_core::polynomials::PolynomialError>>) -> String {
        match r {
            None => "panic".into(),
            Some(Ok(_)) => "ok".into(),
            Some(Err(e)) => format!("err {}", err_kind(&e)),
        }
    }
    let mut out = Vec::new();
    out.push(("eval_univariate".to_string(), st(catch(|| polyops::eval_uni(p, x)))));
    out.push(("derivate_univariate".to_string(), st(catch(|| polyops::deriv_uni(p)))));
    out.push(("indefinite_integral_univariate".to_string(), st(catch(|| polyops::integ_uni(p)))));
    let binds: Vec<(String, f64)> = names.iter().map(|n| (n.clone(), x)).collect();
    out.push(("eval_multivariate".to_string(), st(catch(|| polyops::eval_multi(p, &binds)))));
    for n in names.iter().take(2) {
        out.push((format!("derivate_multivariate({n})"), st(catch(|| Ok(polyops::deriv_multi(p, n))))));
        out.push((format!("indefinite_integral_multivariate({n})"), st(catch(|| Ok(polyops::integ_multi(p, n))))));
    }
    out
}

/// closure clause: whatever is Ok on the source is Ok on the result of a derivative step
pub fn closure(src: &AnyPoly, res: &AnyPoly, x: f64) -> Result<(), String> {
    // names bound for eval_multivariate: every variable of the source (so the source evaluates)
    let mut names: Vec<String> = match src {
        AnyPoly::S(_) => vec!["x".to_string()],
        AnyPoly::I(q) => {
            let mut v: Vec<String> = q.terms.iter().flat_map(|t| t.variables.iter().map(|v| v.0.clone())).collect();
            v.sort();
            v.dedup();
            v
        }
    };
    if names.is_empty() {
        names.push("x".to_string());
    }
    let a = statuses(src, x, &names);
    let b = statuses(res, x, &names);
    for ((op, sa), (_, sb)) in a.iter().zip(b.iter()) {
        if sa == "ok" && sb != "ok" {
            return Err(format!("closure: {op} is ok on the source but `{sb}` on its derivative"));
        }
    }
    Ok(())
}

fn answer(line: &str) -> (String, Result<(), String>) {
    let mut t = Toks::new(line);
    let cmd = t.tok();
    let x0 = 1.5;
    match cmd {
        "deriv" => {
            let p = read_any(&mut t);
            let ans = polyops::answer(line);
            let verdict = match polyops::deriv_uni(&p) {
                Ok(q) => closure(&p, &q, x0),
                Err(_) => Ok(()),
            };
            (ans, verdict)
        }
        "pderiv" => {
            let p = read_any(&mut t);
            let v = t.string();
            let ans = polyops::answer(line);
            let q = polyops::deriv_multi(&p, &v);
            (ans, closure(&p, &q, x0))
        }
        "chain" | "chainm" => {
            let mut p = read_any(&mut t);
            let k = t.usize();
            let mut out: Vec<String> = Vec::new();
            let mut verdict = Ok(());
            for _ in 0..k {
                let s = read_step(&mut t);
                match apply_step(&p, &s) {
                    Ok(q) => {
                        out.push(format!("ok {}", show_any(&q)));
                        if matches!(s, Step::D | Step::DV(_)) && verdict.is_ok() {
                            verdict = closure(&p, &q, x0);
                        }
                        p = q;
                    }
                    Err(e) => {
                        out.push(format!("err {}", err_kind(&e)));
                        return (out.join(" | "), verdict);
                    }
                }
            }
            if cmd == "chain" {
                let x = t.f64();
                out.push(show_eval(&polyops::eval_uni(&p, x)));
            } else {
                let n = t.usize();
                let binds: Vec<(String, f64)> = (0..n).map(|_| (t.string(), t.f64())).collect();
                out.push(show_eval(&polyops::eval_multi(&p, &binds)));
            }
            (out.join(" | "), verdict)
        }
        _ => (polyops::answer(line), Ok(())),
    }
}

pub fn run(line: &str) -> Obs {
    let line = strip_txt(line);
    match catch(|| answer(&line)) {
        Some((s, v)) => Obs::with(s, v),
        None => Obs::with("panic".into(), Err("the operation panicked".into())),
    }
}

// ---------------------------------------------------------------- text generators (grammar of both parsers)

fn coef_text(rng: &mut Rng, allow_fraction: bool, allow_empty: bool) -> String {
    loop {
        let k = rng.below(9);
        let s = match k {
            0 | 1 => String::new(),
            2 | 3 => format!("{}", rng.range(1, 12)),
            4 => format!("{}.{}", rng.range(0, 9), rng.range(0, 99)),
            5 => format!(".{}", rng.range(1, 99)),
            6 => format!("{}.", rng.range(1, 9)),
            7 => format!("{}/{}", rng.range(1, 9), rng.range(1, 9)),
            _ => "0".to_string(),
        };
        if s.is_empty() && !allow_empty {
            continue;
        }
        if s.contains('/') && !allow_fraction {
            continue;
        }
        return s;
    }
}

fn exponent_text(rng: &mut Rng) -> String {
    match rng.below(12) {
        0 | 1 | 2 => String::new(),
        3 | 4 => format!("^{}", rng.range(1, 6)),
        5 => "^0".to_string(),
        6 => format!("^-{}", rng.range(1, 4)),
        7 => format!("^{}.{}", rng.range(0, 3), *rng.pick(&[5, 25, 75, 5])),
        8 => format!("^{}/{}", rng.range(1, 7), rng.range(2, 4)),
        9 => format!("^-{}/{}", rng.range(1, 5), rng.range(2, 4)),
        10 => "^1".to_string(),
        _ => format!("^{}", rng.range(2, 3)),
    }
}

fn join_terms(rng: &mut Rng, terms: &[(bool, String)]) -> String {
    let mut s = String::new();
    for (i, (neg, body)) in terms.iter().enumerate() {
        let sp = rng.chance(2, 3);
        if i == 0 {
            if *neg {
                s.push('-');
                if rng.chance(1, 4) {
                    s.push(' ');
                }
            }
        } else {
            if sp {
                s.push(' ');
            }
            s.push(if *neg { '-' } else { '+' });
            if sp {
                s.push(' ');
            }
        }
        s.push_str(body);
    }
    if rng.chance(1, 10) {
        s = format!(" {s} ");
    }
    s
}

/// text of the multivariate grammar: terms with 0–3 variables in any order, repeated variables
/// ("xx", "x^2x"), every coefficient and exponent form, constants
pub fn gen_inter_text(rng: &mut Rng) -> String {
    let pools: [&[&str]; 6] = [&["x"], &["x", "y"], &["x", "y", "z"], &["t", "a", "X"], &["y"], &["b", "a"]];
    let pool = *rng.pick(&pools);
    let nterms = match rng.below(10) {
        0 => 0,
        1 | 2 => 1,
        _ => rng.range(1, 5) as usize,
    };
    let mut terms = Vec::new();
    for _ in 0..nterms {
        let nv = match rng.below(8) {
            0 | 1 => 0,
            2 | 3 | 4 => 1,
            5 | 6 => 2,
            _ => 3,
        };
        let mut body = coef_text(rng, true, nv > 0);
        for _ in 0..nv {
            body.push_str(*rng.pick(pool));
            body.push_str(&exponent_text(rng));
        }
        terms.push((rng.chance(1, 3), body));
    }
    join_terms(rng, &terms)
}

/// text of the univariate grammar (dense type): one letter, natural exponents
pub fn gen_simple_text(rng: &mut Rng) -> String {
    let var = *rng.pick(&["x", "x", "y", "t", "z"]);
    let nterms = match rng.below(10) {
        0 => 0,
        1 | 2 => 1,
        _ => rng.range(1, 6) as usize,
    };
    let mut terms = Vec::new();
    for _ in 0..nterms {
        let body = match rng.below(6) {
            0 | 1 => coef_text(rng, false, false),
            2 => format!("{}{}", coef_text(rng, false, true), var),
            _ => format!("{}{}^{}", coef_text(rng, false, true), var, rng.range(0, 9)),
        };
        terms.push((rng.chance(1, 3), body));
    }
    join_terms(rng, &terms)
}

/// texts every run starts from: the inputs of the repaired defects D7–D9 and the corner shapes
pub const FIXED_INTER: &[&str] = &[
    "xx", "5", "x^3 + x^2", "x^0", "x^-1", "x^1/2", "2xy", "", "0", "-x", "xx^-1", "x^2y^2 + y", "3x^2 - 2x + 1",
    "x + y + z", "-7", "1/2x^-1/2", "x^2x^3 + xyx", "yx", "zyx^2", "4x^0.5y^-2 - 3", "x^1.5 + x^2.5", "2.5", "x^1",
    "xy^0", "1/3x^3", "x^-2 + x^-3", "ab + ba", "X + t^2",
];
pub const FIXED_SIMPLE: &[&str] =
    &[
    // the largest exponents the parser accepts (MAX_POWER = 65536) and its neighbours
    "x^65536", "3x^65535 + x", "x^65537", "2y^065536 - y^65535",
    "5", "x^3 + x^2", "x", "", "0", "-x", "3x^2 - 2x + 1", "x^0", "2.5y^4 - y + .5", "t^9", "x^2 + x^2", "7 - 7", "4x^1"];

pub fn parse_inter(text: &str) -> Option<AnyPoly> {
    catch(|| IntermediatePolynomial::parse(text)).and_then(|r| r.ok()).map(AnyPoly::I)
}
pub fn parse_simple(text: &str) -> Option<AnyPoly> {
    catch(|| SimplePolynomial::parse(text)).and_then(|r| r.ok()).map(AnyPoly::S)
}

pub fn poly_names(p: &AnyPoly) -> Vec<String> {
    match p {
        AnyPoly::S(q) => q.variable.map(|c| vec![c.to_string()]).unwrap_or_default(),
        AnyPoly::I(q) => q.variables.clone(),
    }
}

/// a differentiation / integration variable: present, absent, multi-letter, empty
pub fn pick_var(rng: &mut Rng, names: &[String]) -> String {
    match rng.below(10) {
        0 => "q".to_string(),
        1 => format!("{}y", names.first().map(|s| s.as_str()).unwrap_or("x")),
        2 => String::new(),
        3 => "x".to_string(),
        _ => {
            if names.is_empty() {
                "x".to_string()
            } else {
                rng.pick(names).clone()
            }
        }
    }
}

/// an evaluation point; kept positive unless `any` (the oracle decides what the domain allows)
pub fn pick_point(rng: &mut Rng, any: bool) -> f64 {
    match rng.below(8) {
        0 if any => 0.0,
        1 if any => -rng.dyadic(24, 3).abs() - 0.25,
        2 => 1.0,
        _ => rng.dyadic(30, 3).abs() + 0.125,
    }
}

fn step_text(rng: &mut Rng, names: &[String], deriv_bias: bool) -> String {
    let k = if deriv_bias { rng.below(2) * 2 } else { rng.below(4) };
    match k {
        0 => "d".to_string(),
        1 => "i".to_string(),
        2 => format!("D {}", req_string(&pick_var(rng, names))),
        _ => {
            let v = if rng.chance(1, 3) { "w".to_string() } else { pick_var(rng, names) };
            format!("J {}", req_string(&v))
        }
    }
}

fn emit_for(rng: &mut Rng, text: &str, p: &AnyPoly, emit: &mut dyn FnMut(String), all: bool) {
    let ps = req_any(p);
    let names = poly_names(p);
    let pre = format!("txt {}", req_string(text));
    let mut kinds: Vec<u64> = if all { vec![0, 1, 1, 2, 2, 3] } else { vec![rng.below(4), rng.below(4)] };
    kinds.dedup();
    for mut kind in kinds {
        // the univariate entry point on a multivariate polynomial is only an error: keep it rare
        if kind == 0 && names.len() > 1 && !all && rng.chance(3, 4) {
            kind = 1;
        }
        match kind {
            0 => emit(format!("{pre} deriv {ps}")),
            1 => emit(format!("{pre} pderiv {ps} {}", req_string(&pick_var(rng, &names)))),
            2 => {
                let k = rng.range(1, 3) as usize;
                let mut s = format!("{pre} chain {ps} {k}");
                for i in 0..k {
                    s.push(' ');
                    s.push_str(&step_text(rng, &names, i == 0));
                }
                s.push_str(&format!(" {}", rbits(pick_point(rng, true))));
                emit(s)
            }
            _ => {
                let k = rng.range(1, 3) as usize;
                let mut s = format!("{pre} chainm {ps} {k}");
                let mut bound: Vec<String> = names.clone();
                for i in 0..k {
                    let st = step_text(rng, &names, i == 0);
                    if let Some(rest) = st.strip_prefix("J ") {
                        // bind the fresh integration variable as well
                        let mut t = Toks::new(rest);
                        bound.push(t.string());
                    }
                    if st == "i" && names.is_empty() {
                        bound.push("x".to_string());
                    }
                    s.push(' ');
                    s.push_str(&st);
                }
                bound.sort();
                bound.dedup();
                if rng.chance(1, 12) && !bound.is_empty() {
                    bound.remove(rng.below(bound.len() as u64) as usize); // a missing binding
                }
                if bound.is_empty() && matches!(p, AnyPoly::S(_)) {
                    bound.push("x".to_string());
                }
                s.push_str(&format!(" {}", bound.len()));
                for b in &bound {
                    s.push_str(&format!(" {} {}", req_string(b), rbits(pick_point(rng, false))));
                }
                emit(s)
            }
        }
    }
}

pub fn generate(seed: u64, thorough: bool, emit: &mut dyn FnMut(String)) {
    // `Rng::new(s + 1)` is `Rng::new(s)` advanced by one draw; re-seeding from a mixed output makes the
    // streams of neighbouring seeds unrelated
    let mut rng = Rng::new(Rng::new(seed ^ 0xC03).next());
    // (a text the parser refuses is not this property's business: skipped, like the random ones)
    for t in FIXED_INTER {
        if let Some(p) = parse_inter(t) {
            emit_for(&mut rng, t, &p, emit, true);
        }
    }
    for t in FIXED_SIMPLE {
        if let Some(p) = parse_simple(t) {
            emit_for(&mut rng, t, &p, emit, true);
        }
    }
    let n = if thorough { 120000 } else { 1500 };
    for i in 0..n {
        let (text, p) = if i % 3 == 2 {
            let t = gen_simple_text(&mut rng);
            let p = parse_simple(&t);
            (t, p)
        } else {
            let t = gen_inter_text(&mut rng);
            let p = parse_inter(&t);
            (t, p)
        };
        // texts the parser refuses are not this property's business (C16)
        if let Some(p) = p {
            emit_for(&mut rng, &text, &p, emit, false);
        }
    }
}
