import SV.Model.C16
/-!
C20 driver: the compile-time macros call the runtime parsers on the token text of their input, so the
model of a macro invocation is the parser model on that text:

    m1 <text> / bad1 <text>   → answer of the univariate parser model
    m2 <text> / bad2 <text>   → answer of the multivariate parser model
-/
namespace SV.C20
open SV SV.Wire SV.Text

/-- the macro as a function of the text it receives from the token printer `tp` -/
def macroSimple (cc : CharClass) (cap : Nat) (tp : List Char → List Char) (s : List Char) :=
  C01.parse cc cap (tp s)

def macroInter (cc : CharClass) (tp : List Char → List Char) (s : List Char) :=
  C02.parse cc (tp s)

def handle (line : String) : String :=
  let p : P String := do
    let cmd ← tok
    let s ← chars
    match cmd with
    | "m1" | "bad1" => return C16.answer1 Num.show s
    | "m2" | "bad2" => return C16.answer2 Num.show s
    | _ => fail
  match run p line with
  | some s => s
  | none => "bad-request"

end SV.C20
