/-! Import-free executable model pieces (prototype). -/
namespace Proto

structure Mat (S : Type) where
  h : Nat
  w : Nat
  a : Array S
deriving Repr

variable {S : Type}

def Mat.get [Inhabited S] (M : Mat S) (i j : Nat) : S := M.a[i * M.w + j]!

def Mat.tab (h w : Nat) (f : Nat → Nat → S) : Mat S :=
  ⟨h, w, Array.ofFn (n := h * w) fun k => f (k.val / w) (k.val % w)⟩

section
variable [Inhabited S] [Add S] [Sub S] [Mul S] [Div S] [Neg S] [OfNat S 0] [OfNat S 1]
  [LT S] [DecidableRel (α := S) (· < ·)]

def sabs (x : S) : S := if x < 0 then -x else x

/-- sum_{j=lo}^{hi-1} f j, accumulated left to right starting from 0 (as the Rust loops do). -/
def sumRange (lo hi : Nat) (f : Nat → S) : S :=
  (List.range' lo (hi - lo)).foldl (fun acc j => acc + f j) 0

/-- back substitution, returns solution as function materialised in an Array, computed from the last row up. -/
def backSubst (U : Mat S) (n : Nat) (b : Nat → S) : Array S :=
  -- process i = n-1, n-2, ..., 0 ; x stored in array of size n (default 0)
  (List.range n).foldl (fun (x : Array S) t =>
      let i := n - 1 - t
      let s := sumRange (i+1) n (fun j => U.get i j * x[j]!)
      x.set! i ((b i - s) / U.get i i)) (Array.replicate n 0)

def swapRows (M : Mat S) (p q : Nat) : Mat S :=
  Mat.tab M.h M.w fun i j => if i = p then M.get q j else if i = q then M.get p j else M.get i j

/-- argmax of |lu[k][i]| for k in i..n-1, first max wins (strict >). -/
def pivotRow (lu : Mat S) (n i : Nat) : Nat :=
  ((List.range' (i+1) (n - (i+1))).foldl (fun (acc : Nat × S) k =>
      let v := sabs (lu.get k i)
      if acc.2 < v then (k, v) else acc) (i, sabs (lu.get i i))).1

inductive PluOut (S : Type) where
  | ok (L U P : Mat S)
  | singular
  | nonSquare

def pluStep (eps : S) (n : Nat) (st : Mat S × Mat S) (i : Nat) : Option (Mat S × Mat S) :=
  let (lu, p) := st
  let r := pivotRow lu n i
  let lu := if r = i then lu else swapRows lu r i
  let p := if r = i then p else swapRows p r i
  if sabs (lu.get i i) < eps then none
  else
    some (Mat.tab n n fun k j =>
      if i < k then
        let m := lu.get k i / lu.get i i
        if j = i then m else if i < j then lu.get k j - m * lu.get i j else lu.get k j
      else lu.get k j, p)

def plu (eps : S) (A : Mat S) : PluOut S :=
  if A.h ≠ A.w then .nonSquare else
  let n := A.h
  let ident : Mat S := Mat.tab n n fun i j => if i = j then 1 else 0
  let rec go (fuel i : Nat) (st : Mat S × Mat S) : Option (Mat S × Mat S) :=
    match fuel with
    | 0 => some st
    | fuel+1 => match pluStep eps n st i with
      | none => none
      | some st' => go fuel (i+1) st'
  match go n 0 (A, ident) with
  | none => .singular
  | some (lu, p) =>
    .ok (Mat.tab n n fun i j => if i = j then 1 else if j < i then lu.get i j else 0)
        (Mat.tab n n fun i j => if i ≤ j then lu.get i j else 0) p
end
end Proto
