import SV.Model.PolyWire
import SV.Gen.Consts
/-!
Model of `bisection` (spindalis/src/solvers/bisection.rs), generic in the scalar.

The Rust `loop { … break }` is recursion on `rem = itermax - iter` (the code's own bound): a pass
with `rem = 0` is the pass on which `iter >= itermax` breaks the loop, so at most `itermax + 1`
passes run.  Every comparison is written the way the source writes it (`test < 0`,
`else if test > 0`, `else`; `!=`/`==` through `BEq`), so that the `Float` instance takes the
branches of the `f64` code also on NaN.  The residual gate is read from `SV.Gen.bisectionGate`,
which `./check` regenerates from the literal in the source.
-/
namespace SV.C06
open SV SV.Poly

/-- `SolveMode` -/
inductive SolveMode where
  | root | extrema
deriving Repr, DecidableEq

/-- the kinds of `SolverError` the two polynomial solvers can return -/
inductive SErr where
  | maxIterationsReached | noConvergence | xInitOutOfBounds
  | functionError (e : PErr)
deriving Repr, DecidableEq

/-- loop variables of `bisection`: `lower_bound`, `upper_bound`, `x_curr`, `approx_err` -/
structure BState (S : Type) where
  lower : S
  upper : S
  x : S
  aerr : S
deriving Repr

/-- what a call produced: the outcome, the number of loop passes started, and the bracket the
loop ended with (the last two are bookkeeping for the theorems and for the correspondence run) -/
structure Res (S : Type) where
  out : Outcome SErr S
  passes : Nat
  lower : S
  upper : S

variable {S : Type}

section gate
variable [NatCast S] [Div S] [Neg S]

/-- a literal of the source, extracted as an exact fraction `num / den` -/
def ratLit (q : Int × Nat) : S :=
  if q.1 < 0 then -((q.1.natAbs : S) / (q.2 : S)) else (q.1.natAbs : S) / (q.2 : S)

/-- `1e-4` in `poss_sol.abs() < 1e-4` -/
def gate : S := ratLit SV.Gen.bisectionGate

end gate

section solver
variable [Add S] [Sub S] [Mul S] [Div S] [Neg S] [OfNat S 0] [OfNat S 1] [NatCast S] [LT S]
  [DecidableRel (α := S) (· < ·)] [BEq S]

/-- `f64::is_finite`, spelled with the operations every scalar type has: `x - x == 0` holds for every finite value
(and for every element of a field) and fails exactly for `±∞` (`∞ − ∞ = NaN`) and `NaN` -/
def finiteS (x : S) : Bool := (x - x) == 0

/-- the midpoint as the code computes it: `(lower + upper) / 2`, and `lower / 2 + upper / 2` only when the sum
overflows (halving first rounds in the subnormal range and can leave the bracket: D38) -/
def midpoint (l u : S) : S :=
  if finiteS (l + u) then (l + u) / ((2 : Nat) : S) else l / ((2 : Nat) : S) + u / ((2 : Nat) : S)

/-- `f64::signum` on a value that is not `±0` (the caller tests that first): `−1`, `1`, and the value itself when it
is neither negative nor positive (a NaN stays a NaN) -/
def signumS (x : S) : S := if x < 0 then -1 else if 0 < x then 1 else x

/-- the sign test `if f_lower == 0.0 { 0.0 } else { f_lower.signum() * f_curr }`: it has the sign of the product
`f_lower * f_curr` and cannot underflow to zero (D39) -/
def signTest (fl fm : S) : S := if fl == 0 then 0 else signumS fl * fm

/-- one pass of the loop body, up to (not including) the `break` test.
`first` is `iter == 0`; `ev` is `polynomial.eval_univariate`. -/
def bisectPass (ev : S → Except PErr S) (first : Bool) (st : BState S) : Except PErr (BState S) :=
  let old := st.x
  let x : S := midpoint st.lower st.upper
  -- `if iter > 0 && x_curr != 0.0 { approx_err = ((x_curr - old).abs() / x_curr) * 100.0 }`
  let aerr : S := if !first && !(x == 0) then (sabs (x - old) / x) * ((100 : Nat) : S) else st.aerr
  match ev st.lower with
  | .error e => .error e
  | .ok fl =>
    match ev x with
    | .error e => .error e
    | .ok fm =>
      let test := signTest fl fm
      if test < 0 then .ok ⟨st.lower, x, x, aerr⟩
      else if 0 < test then .ok ⟨x, st.upper, x, aerr⟩
      else .ok ⟨st.lower, st.upper, if fl == 0 then st.lower else x, 0⟩

/-- after the loop (when `iter < itermax`): the residual gate -/
def finish (ev : S → Except PErr S) (st : BState S) (passes : Nat) : Res S :=
  match ev st.x with
  | .error e => ⟨.err (.functionError e), passes, st.lower, st.upper⟩
  | .ok v =>
    if sabs v < gate then ⟨.ok st.x, passes, st.lower, st.upper⟩
    else ⟨.err .noConvergence, passes, st.lower, st.upper⟩

/-- the loop; `rem = itermax - iter`, `k = iter` -/
def bisectLoop (ev : S → Except PErr S) (tol : S) : Nat → Nat → BState S → Res S
  | 0, k, st =>
    match bisectPass ev (k == 0) st with
    | .error e => ⟨.err (.functionError e), k + 1, st.lower, st.upper⟩
    | .ok st' => ⟨.err .maxIterationsReached, k + 1, st'.lower, st'.upper⟩
  | rem + 1, k, st =>
    match bisectPass ev (k == 0) st with
    | .error e => ⟨.err (.functionError e), k + 1, st.lower, st.upper⟩
    | .ok st' =>
      if sabs st'.aerr < tol then finish ev st' (k + 1)
      else bisectLoop ev tol rem (k + 1) st'

/-- `bisection` for an arbitrary evaluation function (the polynomial already chosen) -/
def bisectCore (ev : S → Except PErr S) (lo init hi tol : S) (itermax : Nat) : Res S :=
  if init < lo ∨ hi < init then ⟨.err .xInitOutOfBounds, 0, lo, hi⟩
  else bisectLoop ev tol itermax 0 ⟨lo, hi, init, ((100 : Nat) : S)⟩

/-- the polynomial the solvers work on: the input in root mode, its derivative in extrema mode -/
def target (p : AnyPoly S) : SolveMode → Except PErr (AnyPoly S)
  | .root => .ok p
  | .extrema => p.derivUni

/-- `bisection(&polynomial, Bounds { lower, init, upper }, error_tol, itermax, mode)` -/
def bisection (powf : S → S → S) (p : AnyPoly S) (lo init hi tol : S) (itermax : Nat)
    (mode : SolveMode) : Res S :=
  if init < lo ∨ hi < init then ⟨.err .xInitOutOfBounds, 0, lo, hi⟩
  else
    match target p mode with
    | .error e => ⟨.err (.functionError e), 0, lo, hi⟩
    | .ok q => bisectLoop (q.evalUni powf) tol itermax 0 ⟨lo, hi, init, ((100 : Nat) : S)⟩

end solver

end SV.C06

/-! ### driver -/
namespace SV.C06.Driver
open SV SV.Wire SV.Poly SV.PolyWire SV.C06

def mode : P SolveMode := do
  let t ← tok
  match t with
  | "root" => return .root
  | "extrema" => return .extrema
  | _ => fail

def fmtSErr : SErr → String
  | .maxIterationsReached => "MaxIterationsReached"
  | .noConvergence => "NoConvergence"
  | .xInitOutOfBounds => "XInitOutOfBounds"
  | .functionError e => "FunctionError:" ++ e.kind

def fmtOut (o : Outcome SErr Float) (passes : Nat) : String :=
  match o with
  | .ok x => s!"ok {fmtF x} {passes}"
  | .err e => s!"err {fmtSErr e} {passes}"
  | .panic => "panic"

/-- `bisect <poly> <lo> <init> <hi> <tol> <itermax> <mode>` → `ok f<x> <passes>` | `err Kind <passes>` -/
def handle (line : String) : String :=
  let p : P String := do
    let cmd ← tok
    match cmd with
    | "bisect" => do
      let q ← anypoly float
      let lo ← float; let init ← float; let hi ← float; let tol ← float
      let itermax ← nat
      let m ← mode
      let r := bisection Float.pow q lo init hi tol itermax m
      return fmtOut r.out r.passes
    | _ => fail
  match run p line with
  | some s => s
  | none => "bad-request"

end SV.C06.Driver
