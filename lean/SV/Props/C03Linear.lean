import SV.Props.C03
import Mathlib.Algebra.CharZero.Defs
import Mathlib.Tactic.NormNum
import Mathlib.Tactic.Ring
/-!
# C03 — the symbolic derivative is linear and term-wise, for all polynomials

Invariance / equivariance theorems about the shared model `SV.Model.Poly` (`simpleDeriv` =
`simple_derivative`, `derivTerms` / `partialDeriv` = `partial_derivative`).  They say, for **every**
input, what the derivative cannot depend on:

(A) dense coefficient lists
* `simpleDeriv_coeff?` / `simpleDeriv_coeff`  the `k`-th output coefficient is `cs[k+1] * (k+1)` for
  every `k`, without any upper bound on `k` (no wrap-around of the power: `simpleDeriv_coeff_65536`)
* `simpleDeriv_length`, `simpleDeriv_short`   one coefficient fewer; length `≤ 1` gives `[]`
* `simpleDeriv_scale`                         `(c·p)' = c·p'`
* `simpleDeriv_add`                           `(p+q)' = p'+q'` for lists of any two lengths (`addCoeffs`,
  which denotes the sum: `addCoeffs_coeff`, `addCoeffs_denotes`); `simpleDeriv_linear`

(B) sparse term lists
* `derivTerms_append`, `partialDeriv_terms_append`   the derivative of a concatenation is the
  concatenation of the derivatives (no interaction between terms, whatever their exponents)
* `polyVal_derivTerms_append`, `evalTerms_partialDeriv_append`   hence its value is additive
* `derivTerms_scale`                          scaling the coefficients scales the derivative's coefficients
* `derivTerms_eq_filter_map`, `derivTerms_getElem`   the `i`-th output term is the power rule applied to
  the `i`-th input term that contains the variable, and to nothing else
* `derivTerms_powers`                         the list of output (multiplier, exponent) pairs for
  single-variable terms: exponents are never merged
* `merge_changes_value` (`_real`: `Real.rpow`)  merging `x^1.5 + x^0.5 ↦ 2·x^0.5` changes the value of
  the derivative at `x = 4` (`13/4` against `4`)
-/
set_option linter.unusedSectionVars false
namespace SV.Props.C03Linear
open SV SV.Poly SV.C03

/-! ## (A) dense coefficient lists -/
section simple
variable {K : Type} [Field K]

private theorem derivFrom_getElem? (k : ℕ) (cs : List K) (i : ℕ) :
    (derivFrom k cs)[i]? = cs[i]?.map (· * ((k + i : ℕ) : K)) := by
  induction cs generalizing k i with
  | nil => simp [derivFrom]
  | cons c cs ih =>
    cases i with
    | zero => simp [derivFrom]
    | succ i =>
      simp only [derivFrom, List.getElem?_cons_succ]
      rw [ih, show k + 1 + i = k + (i + 1) by omega]

private theorem derivFrom_length (k : ℕ) (cs : List K) : (derivFrom k cs).length = cs.length := by
  induction cs generalizing k with
  | nil => rfl
  | cons c cs ih => simp [derivFrom, ih]

/-- **Every coefficient, no upper bound.**  The `k`-th coefficient `simple_derivative` returns is the
`(k+1)`-th input coefficient times `k+1` (as the code multiplies: coefficient first), and it exists
exactly when the input has a `(k+1)`-th coefficient — for every natural `k`, however large.  The
multiplier is the natural number `k+1` cast into the field, never a reduced or truncated power. -/
theorem simpleDeriv_coeff? (cs : List K) (k : ℕ) :
    (simpleDeriv cs)[k]? = cs[k + 1]?.map (· * ((k + 1 : ℕ) : K)) := by
  cases cs with
  | nil => simp [simpleDeriv]
  | cons c cs =>
    simp only [simpleDeriv, List.getElem?_cons_succ]
    rw [derivFrom_getElem?, Nat.add_comm 1 k]

/-- the same with missing coefficients read as `0`: coefficient `k` of the derivative is
`(k+1) · cs[k+1]`, for every `k` -/
theorem simpleDeriv_coeff (cs : List K) (k : ℕ) :
    (simpleDeriv cs).getD k 0 = ((k + 1 : ℕ) : K) * cs.getD (k + 1) 0 := by
  rw [List.getD_eq_getElem?_getD, List.getD_eq_getElem?_getD, simpleDeriv_coeff?]
  cases cs[k + 1]? with
  | none => simp
  | some x => simp [mul_comm]

/-- `simple_derivative` returns one coefficient fewer than it was given (none for none) -/
theorem simpleDeriv_length (cs : List K) : (simpleDeriv cs).length = cs.length - 1 := by
  cases cs with
  | nil => rfl
  | cons c cs => simp [simpleDeriv, derivFrom_length]

/-- the derivative of the empty polynomial and of a constant is the empty coefficient list (the
model's and the code's zero polynomial), whatever the constant -/
theorem simpleDeriv_short (cs : List K) (h : cs.length ≤ 1) : simpleDeriv cs = [] := by
  apply List.eq_nil_of_length_eq_zero
  rw [simpleDeriv_length]; omega

/-- … and conversely only those: a list with at least two coefficients never differentiates to `[]` -/
theorem simpleDeriv_eq_nil_iff (cs : List K) : simpleDeriv cs = [] ↔ cs.length ≤ 1 := by
  rw [← List.length_eq_zero_iff, simpleDeriv_length]; omega

private theorem derivFrom_scale (c : K) (k : ℕ) (cs : List K) :
    derivFrom k (cs.map (c * ·)) = (derivFrom k cs).map (c * ·) := by
  induction cs generalizing k with
  | nil => rfl
  | cons a cs ih => simp [derivFrom, ih, mul_assoc]

/-- **Homogeneity**: scaling every coefficient by `c` scales every coefficient of the derivative by
`c` — for every list and every `c` (zero, tiny, huge): no coefficient is treated specially. -/
theorem simpleDeriv_scale (c : K) (cs : List K) :
    simpleDeriv (cs.map (c * ·)) = (simpleDeriv cs).map (c * ·) := by
  cases cs with
  | nil => rfl
  | cons a cs => simp only [List.map_cons, simpleDeriv, derivFrom_scale]

/-- coefficient-wise sum of two dense polynomials of any lengths (the shorter one is padded with
zeros: its missing coefficients contribute nothing) -/
def addCoeffs : List K → List K → List K
  | [], ys => ys
  | x :: xs, [] => x :: xs
  | x :: xs, y :: ys => (x + y) :: addCoeffs xs ys

/-- `addCoeffs` is the pointwise sum with missing coefficients read as `0` -/
theorem addCoeffs_coeff (xs ys : List K) (i : ℕ) :
    (addCoeffs xs ys).getD i 0 = xs.getD i 0 + ys.getD i 0 := by
  induction xs generalizing ys i with
  | nil => simp [addCoeffs]
  | cons x xs ih =>
    cases ys with
    | nil => simp [addCoeffs]
    | cons y ys =>
      cases i with
      | zero => simp [addCoeffs]
      | succ i => simpa [addCoeffs] using ih ys i

/-- … and has the length of the longer list -/
theorem addCoeffs_length (xs ys : List K) :
    (addCoeffs xs ys).length = max xs.length ys.length := by
  induction xs generalizing ys with
  | nil => simp [addCoeffs]
  | cons x xs ih =>
    cases ys with
    | nil => simp [addCoeffs]
    | cons y ys => simp [addCoeffs, ih]

private theorem derivFrom_add (k : ℕ) (xs ys : List K) :
    derivFrom k (addCoeffs xs ys) = addCoeffs (derivFrom k xs) (derivFrom k ys) := by
  induction xs generalizing ys k with
  | nil => simp [addCoeffs, derivFrom]
  | cons x xs ih =>
    cases ys with
    | nil => simp [addCoeffs, derivFrom]
    | cons y ys => simp [addCoeffs, derivFrom, ih, add_mul]

/-- **Additivity**: the derivative of the coefficient-wise sum of two dense polynomials — of equal or
different lengths, empty and constant ones included — is the coefficient-wise sum of the
derivatives. -/
theorem simpleDeriv_add (xs ys : List K) :
    simpleDeriv (addCoeffs xs ys) = addCoeffs (simpleDeriv xs) (simpleDeriv ys) := by
  cases xs with
  | nil => simp [addCoeffs, simpleDeriv]
  | cons x xs =>
    cases ys with
    | nil =>
      cases xs <;> simp [addCoeffs, simpleDeriv, derivFrom]
    | cons y ys => simp only [addCoeffs, simpleDeriv, derivFrom_add]

/-- **Linearity** in one statement: `(a·p + b·q)' = a·p' + b·q'` on coefficient lists. -/
theorem simpleDeriv_linear (a b : K) (xs ys : List K) :
    simpleDeriv (addCoeffs (xs.map (a * ·)) (ys.map (b * ·))) =
      addCoeffs ((simpleDeriv xs).map (a * ·)) ((simpleDeriv ys).map (b * ·)) := by
  rw [simpleDeriv_add, simpleDeriv_scale, simpleDeriv_scale]

private theorem ofCoeffsFrom_addCoeffs (k : ℕ) (xs ys : List K) :
    ofCoeffsFrom k (addCoeffs xs ys) = ofCoeffsFrom k xs + ofCoeffsFrom k ys := by
  induction xs generalizing ys k with
  | nil => simp [addCoeffs, ofCoeffsFrom]
  | cons x xs ih =>
    cases ys with
    | nil => simp [addCoeffs, ofCoeffsFrom]
    | cons y ys =>
      simp only [addCoeffs, ofCoeffsFrom, ih, map_add]
      ring

/-- `addCoeffs` denotes the sum of the two polynomials (Mathlib's `Polynomial`), and the code's own
evaluation (`eval_simple_polynomial`, left-to-right `powi` fold) of it is the sum of the two values -/
theorem addCoeffs_denotes (xs ys : List K) (x : K) :
    ofCoeffs (addCoeffs xs ys) = ofCoeffs xs + ofCoeffs ys ∧
    evalSimple (addCoeffs xs ys) x = evalSimple xs x + evalSimple ys x := by
  have h : ofCoeffs (addCoeffs xs ys) = ofCoeffs xs + ofCoeffs ys := ofCoeffsFrom_addCoeffs 0 xs ys
  refine ⟨h, ?_⟩
  rw [evalSimple_eq, evalSimple_eq, evalSimple_eq, h, Polynomial.eval_add]

/-- hence the value of the derivative is additive too, at every point, for lists of any lengths -/
theorem evalSimple_simpleDeriv_add (xs ys : List K) (x : K) :
    evalSimple (simpleDeriv (addCoeffs xs ys)) x =
      evalSimple (simpleDeriv xs) x + evalSimple (simpleDeriv ys) x := by
  rw [simpleDeriv_add, (addCoeffs_denotes _ _ x).2]

/-- **No wrap-around of the power.**  In a field of characteristic 0 the coefficient of `x^65535` in
the derivative is `65536` times the coefficient of `x^65536`, and that factor is not zero: a non-zero
coefficient of `x^65536` gives a non-zero coefficient of `x^65535`.  (A power counter narrowed to 16
bits would multiply by `65536 mod 2^16 = 0` here.) -/
theorem simpleDeriv_coeff_65536 [CharZero K] (cs : List K) :
    (simpleDeriv cs).getD 65535 0 = ((65536 : ℕ) : K) * cs.getD 65536 0 ∧
    ((65536 : ℕ) : K) ≠ 0 ∧
    (cs.getD 65536 0 ≠ 0 → (simpleDeriv cs).getD 65535 0 ≠ 0) := by
  have h := simpleDeriv_coeff cs 65535
  have hne : ((65536 : ℕ) : K) ≠ 0 := Nat.cast_ne_zero.2 (by norm_num)
  refine ⟨h, hne, fun hc => ?_⟩
  rw [h]
  exact mul_ne_zero hne hc

/-- the same at every index: in characteristic 0 the derivative loses no non-zero coefficient of
positive power -/
theorem simpleDeriv_coeff_ne_zero [CharZero K] (cs : List K) (k : ℕ) (h : cs.getD (k + 1) 0 ≠ 0) :
    (simpleDeriv cs).getD k 0 ≠ 0 := by
  rw [simpleDeriv_coeff]
  exact mul_ne_zero (Nat.cast_ne_zero.2 (Nat.succ_ne_zero k)) h

end simple

/-! ## (B) sparse term lists -/
section inter
variable {K : Type} [Field K] [LinearOrder K]

/-- **Append law.**  `partial_derivative` (before sorting each term's variables) of a concatenation
of two term lists is the concatenation of the two derivatives: each term is differentiated on its own,
in place; no term looks at another. -/
theorem derivTerms_append (v : String) (ts₁ ts₂ : List (Term K)) :
    derivTerms v (ts₁ ++ ts₂) = derivTerms v ts₁ ++ derivTerms v ts₂ := by
  induction ts₁ with
  | nil => rfl
  | cons t ts ih =>
    cases hd : derivVars v t.vars with
    | none => simp only [List.cons_append, derivTerms, hd, ih]
    | some r =>
      obtain ⟨m, vs'⟩ := r
      simp only [List.cons_append, derivTerms, hd, ih]

/-- **Homogeneity of the term-list derivative**: scaling every coefficient by `c` scales every
coefficient of the derivative by `c` and changes nothing else (same terms, same exponents, same order;
no term is dropped because its coefficient became small or zero). -/
theorem derivTerms_scale (v : String) (c : K) (ts : List (Term K)) :
    derivTerms v (ts.map fun t => ⟨c * t.coef, t.vars⟩) =
      (derivTerms v ts).map fun t => ⟨c * t.coef, t.vars⟩ := by
  induction ts with
  | nil => rfl
  | cons t ts ih =>
    cases hd : derivVars v t.vars with
    | none => simp only [List.map_cons, derivTerms, hd, ih]
    | some r =>
      obtain ⟨m, vs'⟩ := r
      simp only [List.map_cons, derivTerms, hd, ih, mul_assoc]

/-- the same for the terms `partial_derivative` returns (variables of each term sorted) -/
theorem partialDeriv_terms_append (v : String) (ts₁ ts₂ : List (Term K)) :
    (partialDeriv (ts₁ ++ ts₂) v).terms = (partialDeriv ts₁ v).terms ++ (partialDeriv ts₂ v).terms := by
  simp only [partialDeriv, derivTerms_append, List.map_append]

/-- the value of a term list is additive over concatenation -/
theorem polyVal_append (powf : K → K → K) (σ : String → K) (ts₁ ts₂ : List (Term K)) :
    polyVal powf σ (ts₁ ++ ts₂) = polyVal powf σ ts₁ + polyVal powf σ ts₂ := by
  simp [polyVal]

/-- **The derivative's value is additive**: for every `powf` and every assignment, the value of the
derivative of `ts₁ ++ ts₂` is the sum of the values of the two derivatives. -/
theorem polyVal_derivTerms_append (powf : K → K → K) (σ : String → K) (v : String)
    (ts₁ ts₂ : List (Term K)) :
    polyVal powf σ (partialDeriv (ts₁ ++ ts₂) v).terms =
      polyVal powf σ (partialDeriv ts₁ v).terms + polyVal powf σ (partialDeriv ts₂ v).terms := by
  rw [partialDeriv_terms_append, polyVal_append]

/-- the same through the model of `eval_intermediate_polynomial` itself: whenever the bindings cover
the names of both term lists, the three evaluations succeed and the derivative of the concatenation
evaluates to the sum of the two derivatives' values -/
theorem evalTerms_partialDeriv_append (powf : K → K → K) (v : String) (ts₁ ts₂ : List (Term K))
    (bs : List (String × K)) (h₁ : ∀ w ∈ termNames ts₁, (lookup bs w).isSome)
    (h₂ : ∀ w ∈ termNames ts₂, (lookup bs w).isSome) :
    ∃ a b, evalTerms powf (partialDeriv ts₁ v).terms bs = .ok a ∧
      evalTerms powf (partialDeriv ts₂ v).terms bs = .ok b ∧
      evalTerms powf (partialDeriv (ts₁ ++ ts₂) v).terms bs = .ok (a + b) := by
  have c₁ := fun w hw => h₁ w (partialDeriv_names ts₁ v w hw)
  have c₂ := fun w hw => h₂ w (partialDeriv_names ts₂ v w hw)
  refine ⟨_, _, evalTerms_eq powf _ bs c₁, evalTerms_eq powf _ bs c₂, ?_⟩
  rw [evalTerms_eq powf _ bs, polyVal_derivTerms_append]
  intro w hw
  rw [partialDeriv_terms_append] at hw
  simp only [termNames, List.flatMap_append, List.mem_append] at hw
  rcases hw with hw | hw
  · exact c₁ w hw
  · exact c₂ w hw

/-- the power rule applied to one term that contains the variable (the term itself otherwise; that
case is never used below) -/
def derivTerm (v : String) (t : Term K) : Term K :=
  match derivVars v t.vars with
  | some (m, vs') => ⟨t.coef * m, vs'⟩
  | none => t

/-- **Term-wise.**  The derivative is: keep the terms that contain the variable, in order, and apply
the power rule to each of them separately. -/
theorem derivTerms_eq_filter_map (v : String) (ts : List (Term K)) :
    derivTerms v ts = (ts.filter fun t => decide (v ∈ names t.vars)).map (derivTerm v) := by
  induction ts with
  | nil => rfl
  | cons t ts ih =>
    by_cases hv : v ∈ names t.vars
    · obtain ⟨_, _, _, _, _, hd⟩ := derivVars_split hv
      simp [derivTerms, derivTerm, hd, hv, ih]
    · simp [derivTerms, derivVars_none hv, hv, ih]

/-- **Strengthening of `deriv_term_count`**: the `i`-th term of the derivative is the power rule
applied to the `i`-th input term that contains the variable — it depends on that single term only. -/
theorem derivTerms_getElem (v : String) (ts : List (Term K)) (i : ℕ)
    (hi : i < (derivTerms v ts).length) :
    ∃ hi' : i < (ts.filter fun t => decide (v ∈ names t.vars)).length,
      (derivTerms v ts)[i] = derivTerm v ((ts.filter fun t => decide (v ∈ names t.vars))[i]) := by
  have hlen : (derivTerms v ts).length = (ts.filter fun t => decide (v ∈ names t.vars)).length := by
    rw [derivTerms_eq_filter_map, List.length_map]
  refine ⟨hlen ▸ hi, ?_⟩
  simp only [derivTerms_eq_filter_map, List.getElem_map]

/-- what the power rule does to a term `c · pre · v^p · post` whose first occurrence of `v` carries
`p`: coefficient `c·p`, power `p-1` (the variable is removed when `p-1 = 0`), the rest untouched -/
theorem derivTerm_split (v : String) (c p : K) (pre post : List (String × K)) (hpre : v ∉ names pre) :
    derivTerm v ⟨c, pre ++ (v, p) :: post⟩ =
      ⟨c * p, pre ++ (if isZero (p - 1) then post else (v, p - 1) :: post)⟩ := by
  have hv : v ∈ names (pre ++ (v, p) :: post) := by simp [names]
  obtain ⟨pre', q, post', hvs, hpre', hd⟩ := derivVars_split hv
  -- the split at the first occurrence is unique
  have key : ∀ (a b : List (String × K)) (x y : K) (r s : List (String × K)),
      v ∉ names a → v ∉ names b → a ++ (v, x) :: r = b ++ (v, y) :: s → a = b ∧ x = y ∧ r = s := by
    intro a
    induction a with
    | nil =>
      intro b x y r s _ hb h
      cases b with
      | nil => simp at h; exact ⟨rfl, h.1, h.2⟩
      | cons e b =>
        simp only [List.nil_append, List.cons_append, List.cons.injEq] at h
        exact absurd (by rw [← h.1]; simp [names]) hb
    | cons e a ih =>
      intro b x y r s ha hb h
      cases b with
      | nil =>
        simp only [List.nil_append, List.cons_append, List.cons.injEq] at h
        exact absurd (by rw [h.1]; simp [names]) ha
      | cons e' b =>
        simp only [List.cons_append, List.cons.injEq] at h
        have ha' : v ∉ names a := fun hh => ha (by
          simp only [names, List.map_cons, List.mem_cons] at hh ⊢; exact Or.inr hh)
        have hb' : v ∉ names b := fun hh => hb (by
          simp only [names, List.map_cons, List.mem_cons] at hh ⊢; exact Or.inr hh)
        obtain ⟨h1, h2, h3⟩ := ih b x y r s ha' hb' h.2
        exact ⟨by rw [h.1, h1], h2, h3⟩
  obtain ⟨rfl, rfl, rfl⟩ := key pre pre' p q post post' hpre hpre' hvs
  simp only [derivTerm, hd]

/-- **Exponents are never merged.**  For single-variable terms `cᵢ·v^pᵢ` with every `pᵢ ≠ 1`, the
derivative is the list `cᵢ·pᵢ·v^(pᵢ-1)` — same number of terms, same order, each exponent lowered by
one; two terms with different (or equal) exponents stay two terms. -/
theorem derivTerms_powers (v : String) (cps : List (K × K)) (h : ∀ cp ∈ cps, cp.2 - 1 ≠ 0) :
    derivTerms v (cps.map fun cp => (⟨cp.1, [(v, cp.2)]⟩ : Term K)) =
      cps.map fun cp => (⟨cp.1 * cp.2, [(v, cp.2 - 1)]⟩ : Term K) := by
  induction cps with
  | nil => rfl
  | cons cp cps ih =>
    have hz : ¬ isZero (cp.2 - 1) = true := fun hh =>
      h cp (List.mem_cons_self ..) ((isZero_iff _).1 hh)
    simp only [List.map_cons, derivTerms, derivVars, if_true, hz]
    rw [ih (fun cp' hcp' => h cp' (List.mem_cons_of_mem _ hcp'))]
    simp

end inter

/-! ## non-vacuity and the merging witness -/

/-- `3 + 5x + 7x²` and `1 + x` (different lengths): linearity instance over ℚ -/
example : simpleDeriv (addCoeffs ([3, 5, 7].map ((2 : ℚ) * ·)) ([1, 1].map ((-1 : ℚ) * ·))) = [9, 28] := by
  rw [simpleDeriv_linear]
  norm_num [simpleDeriv, derivFrom, addCoeffs]

example : simpleDeriv ([4] : List ℚ) = [] := simpleDeriv_short _ (by simp)

/-- the factor at power 65536 over ℚ -/
example : ((65536 : ℕ) : ℚ) ≠ 0 := (simpleDeriv_coeff_65536 ([] : List ℚ)).2.1

/-- **Merging terms with different exponents changes the derivative.**  `x^1.5 + x^0.5`
differentiates to the two terms `1.5·x^0.5 + 0.5·x^(-0.5)`; for any `powf` with the true values
`4^0.5 = 2`, `4^(-0.5) = 1/2` its value at `x = 4` is `13/4`, whereas the merged `2·x^0.5` is worth
`4` there (any ordered field). -/
theorem merge_changes_value {K : Type} [Field K] [LinearOrder K] [IsStrictOrderedRing K]
    (powf : K → K → K) (h1 : powf 4 (1 / 2) = 2) (h2 : powf 4 (-1 / 2) = 1 / 2)
    (σ : String → K) (hσ : σ "x" = 4) :
    (partialDeriv [(⟨1, [("x", 3 / 2)]⟩ : Term K), ⟨1, [("x", 1 / 2)]⟩] "x").terms =
        [⟨3 / 2, [("x", 1 / 2)]⟩, ⟨1 / 2, [("x", -1 / 2)]⟩] ∧
    polyVal powf σ (partialDeriv [(⟨1, [("x", 3 / 2)]⟩ : Term K), ⟨1, [("x", 1 / 2)]⟩] "x").terms
        = 13 / 4 ∧
    polyVal powf σ [(⟨2, [("x", 1 / 2)]⟩ : Term K)] = 4 ∧
    (13 / 4 : K) ≠ 4 := by
  have hd : (partialDeriv [(⟨1, [("x", 3 / 2)]⟩ : Term K), ⟨1, [("x", 1 / 2)]⟩] "x").terms =
      [⟨3 / 2, [("x", 1 / 2)]⟩, ⟨1 / 2, [("x", -1 / 2)]⟩] := by
    have := derivTerms_powers (K := K) "x" [(1, 3 / 2), (1, 1 / 2)] (by
      intro cp hcp
      simp only [List.mem_cons, List.not_mem_nil, or_false] at hcp
      rcases hcp with rfl | rfl <;> norm_num)
    simp only [List.map_cons, List.map_nil] at this
    simp only [partialDeriv, this, List.map_cons, List.map_nil, sortVars, List.mergeSort]
    norm_num
  refine ⟨hd, ?_, ?_, by norm_num⟩
  · rw [hd]
    simp only [polyVal_cons, polyVal_nil, termVal, varsVal_cons, varsVal_nil, hσ, h1, h2]
    norm_num
  · simp only [polyVal_cons, polyVal_nil, termVal, varsVal_cons, varsVal_nil, hσ, h1]
    norm_num

/-- the witness over `ℝ` with the real power function (`powf := Real.rpow`): the derivative of
`x^1.5 + x^0.5` is worth `13/4` at `x = 4`, the merged `2·x^0.5` is worth `4` -/
theorem merge_changes_value_real (σ : String → ℝ) (hσ : σ "x" = 4) :
    polyVal Real.rpow σ (partialDeriv [(⟨1, [("x", 3 / 2)]⟩ : Term ℝ), ⟨1, [("x", 1 / 2)]⟩] "x").terms
        = 13 / 4 ∧
    polyVal Real.rpow σ [(⟨2, [("x", 1 / 2)]⟩ : Term ℝ)] = 4 := by
  have h4 : (4 : ℝ) = (2 : ℝ) ^ (2 : ℝ) := by rw [Real.rpow_two]; norm_num
  have h1 : Real.rpow 4 (1 / 2) = 2 := by
    show (4 : ℝ) ^ ((1 : ℝ) / 2) = 2
    rw [h4, ← Real.rpow_mul (by norm_num)]
    norm_num
  have h2 : Real.rpow 4 (-1 / 2) = 1 / 2 := by
    show (4 : ℝ) ^ ((-1 : ℝ) / 2) = 1 / 2
    rw [show ((-1 : ℝ) / 2) = -(1 / 2) by norm_num, Real.rpow_neg (by norm_num)]
    have : (4 : ℝ) ^ ((1 : ℝ) / 2) = 2 := h1
    rw [this]; norm_num
  obtain ⟨_, ha, hb, _⟩ := merge_changes_value Real.rpow h1 h2 σ hσ
  exact ⟨ha, hb⟩

/-- instance over ℚ of the abstract witness (a `powf` with the two stated values exists) -/
example : ∃ powf : ℚ → ℚ → ℚ, powf 4 (1 / 2) = 2 ∧ powf 4 (-1 / 2) = 1 / 2 :=
  ⟨fun _ p => if p = 1 / 2 then 2 else 1 / 2, by norm_num, by norm_num⟩

/-- append law instance over ℚ: `∂/∂x (x² + y) ++ (3·x·y)` -/
example : derivTerms "x" ([(⟨1, [("x", 2)]⟩ : Term ℚ), ⟨1, [("y", 1)]⟩] ++ [⟨3, [("x", 1), ("y", 1)]⟩]) =
    [⟨1 * 2, [("x", 2 - 1)]⟩] ++ [⟨3 * 1, [("y", 1)]⟩] := by
  rw [derivTerms_append]
  norm_num [derivTerms, derivVars, isZero, (by decide : ¬ ("y" : String) = "x")]

end SV.Props.C03Linear
