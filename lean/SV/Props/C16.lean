import SV.Model.C16
/-!
# C16 — parsers are total, and acceptance implies fidelity

Property theorems only.  The parser models are total functions into `ok | err` by construction
(`Except PErr _`, no panic constructor: every index the Rust code uses is produced by `find`/`split`
on the same text, and the dense vector's size is bounded — `simple_total` in `SV.Props.C16Simple`).
This file: normalisation never drops or invents a character other than the `+` it inserts before a
`-` (both parsers), so a rejected or accepted text is judged on exactly its non-white-space characters.
The grammar characterisation (`simple_accepts_only_grammar`) is in `SV.Props.C16Simple`.
-/
namespace SV.Props.C16
open SV SV.Text

/-- the characters of a text other than `+` -/
def noPlus (s : List Char) : List Char := s.filter (fun c => c != '+')

@[simp] private theorem noPlus_nil : noPlus [] = [] := rfl
private theorem noPlus_plus (s : List Char) : noPlus ('+' :: s) = noPlus s := by
  simp [noPlus]
private theorem noPlus_cons (c : Char) (s : List Char) (h : c ≠ '+') :
    noPlus (c :: s) = c :: noPlus s := by
  simp [noPlus, h]

/-- Univariate normalisation only inserts `+`: removing every `+` gives the text (white space
removed) with its `+` removed — no character is dropped or altered. -/
theorem simple_normalize_keeps_text (cc : CharClass) (s : List Char) :
    noPlus (C01.normalize cc s) = noPlus (stripWs cc s) := by
  unfold C01.normalize
  generalize stripWs cc s = t
  induction t with
  | nil => rfl
  | cons c cs ih =>
    have hstep : dashToPlusDash (c :: cs) = (if c = '-' then ['+', '-'] else [c]) ++ dashToPlusDash cs := by
      simp [dashToPlusDash]
    rw [hstep]
    by_cases hc : c = '-'
    · subst hc
      simp only [if_true, List.cons_append, List.nil_append]
      rw [noPlus_plus, noPlus_cons _ _ (by decide), noPlus_cons _ _ (by decide), ih]
    · simp only [hc, if_false, List.cons_append, List.nil_append]
      by_cases hp : c = '+'
      · subst hp; rw [noPlus_plus, noPlus_plus, ih]
      · rw [noPlus_cons _ _ hp, noPlus_cons _ _ hp, ih]

/-- The same for the multivariate normalisation (a `-` directly after `^` is kept as it is). -/
theorem inter_normalize_keeps_text (cc : CharClass) (s : List Char) :
    noPlus (C02.normalize cc s) = noPlus (stripWs cc s) := by
  unfold C02.normalize
  generalize stripWs cc s = t
  generalize (none : Option Char) = prev
  induction t generalizing prev with
  | nil => rfl
  | cons c cs ih =>
    unfold C02.protectDash
    by_cases hc : c = '-' ∧ prev ≠ some '^'
    · rw [if_pos hc]
      obtain ⟨rfl, _⟩ := hc
      rw [noPlus_plus, noPlus_cons _ _ (by decide), noPlus_cons _ _ (by decide), ih]
    · rw [if_neg hc]
      by_cases hp : c = '+'
      · subst hp; rw [noPlus_plus, noPlus_plus, ih]
      · rw [noPlus_cons _ _ hp, noPlus_cons _ _ hp, ih]

/-- Both parsers ignore white space completely: texts with the same non-white-space characters
get the same answer. -/
theorem parse_ws_insensitive (cc : CharClass) (cap : Nat) (s s' : List Char)
    (h : stripWs cc s = stripWs cc s') :
    C01.parse cc cap s = C01.parse cc cap s' ∧ C02.parse cc s = C02.parse cc s' := by
  simp [C01.parse, C01.normalize, C02.parse, C02.normalize, h]

end SV.Props.C16
