import SV.Lemmas.RoundingC09
import SV.Lemmas.RoundingC09Plu
/-!
Two concrete runs of `SV.C09.lu` / `SV.C09.plu` at `Fl M` in a model with `u > 0` whose rounding is
not the identity (`rnd t = t·(1 + 1/16)`, `u = 1/8`): the support of the non-vacuity examples of
`SV.Props.C09Rounding`.  In both the computed `L U` really differs from `A` resp. `P A`, so the
backward-error theorems are not statements about exact arithmetic, and in the second one the pivot
search really swaps the rows.
-/
namespace SV.C09.Ex
open SV SV.C09 Finset

theorem h8 : (0 : ℝ) ≤ 1 / 8 ∧ (1 / 8 : ℝ) < 1 := by norm_num

/-- `rnd t = t·(1 + 1/16)`, `u = 1/8` -/
noncomputable abbrev M8 : FlModel := FlModel.skew (1 / 8) h8

/-- `[[1, 1], [1, 2]]` -/
noncomputable def Aex : Mat (Fl M8) := ⟨2, 2, #[1, 1, 1, ⟨2⟩]⟩

/-- the threshold `1/4` -/
noncomputable def epsx : Fl M8 := ⟨1 / 4⟩

/-- the Doolittle run on `Aex` succeeds -/
theorem lu_ex_ok : ∃ L U, lu epsx Aex = .ok (L, U) := by
  have hg : ¬ (0 + 1 < 2 ∧ sabs ((luUpper 2 Aex (Mat.tab 2 2 fun _ _ => 0)
      (Mat.tab 2 2 fun _ _ => 0) 0).get 0 0) < epsx) := by
    rw [luUpper_get' 2 _ _ _ 0 (by omega) (by omega), if_pos ⟨rfl, le_refl 0⟩]
    norm_num [sabs, Fl.lt_iff, sumFrom, Aex, epsx, Mat.get, FlModel.skew]
  refine Exists.intro ?_ (Exists.intro ?_ ?_)
  pick_goal 3
  unfold lu
  rw [if_neg (by decide)]
  simp only [show Aex.h = 2 from rfl, iter, luStep]
  rw [if_neg hg]
  dsimp only
  rw [if_neg (fun h => absurd h.1 (by decide))]

/-- … and whatever it returns, `(L U)₁₁ ≠ a₁₁`: with `r = 17/16`, `u₀₀ = u₀₁ = l₁₀ = r`,
`u₁₁ = (2 − r⁴)·r` and `(L U)₁₁ = r² + (2 − r⁴)·r ≠ 2` -/
theorem lu_ex_differs {L U : Mat (Fl M8)} (h : lu epsx Aex = .ok (L, U)) :
    ∑ k ∈ range Aex.h, (L.get 1 k).val * (U.get k 1).val ≠ (Aex.get 1 1).val := by
  obtain ⟨_, inv⟩ := lu_ok_ent h
  have e00 := inv.Ueq 0 0 (by decide) (le_refl 0) (by decide)
  have e01 := inv.Ueq 0 1 (by decide) (by decide) (by decide)
  have e11 := inv.Ueq 1 1 (by decide) (le_refl 1) (by decide)
  have l10 := inv.Leq 1 0 (by decide) (by decide) (by decide)
  have l11 := inv.Ld 1 (by decide) (by decide)
  simp only at e00 e01 e11 l10 l11
  show ∑ k ∈ range 2, (L.get 1 k).val * (U.get k 1).val ≠ (Aex.get 1 1).val
  rw [Finset.sum_range_succ, Finset.sum_range_one, l11, e11]
  simp only [sumFrom, List.range', List.foldl]
  rw [l10, e01, e00]
  norm_num [sumFrom, Aex, Mat.get, FlModel.skew]

/-- `[[1, 1], [2, 1]]`: the pivot search swaps the two rows -/
noncomputable def Bex : Mat (Fl M8) := ⟨2, 2, #[1, 1, ⟨2⟩, 1]⟩

theorem piv0 : pivotRow Bex 2 0 = 1 := by
  norm_num [pivotRow, List.range', sabs, Fl.lt_iff, Bex, Mat.get]

theorem swap0 :
    pluSwap 2 (Bex, Mat.ident 2) 0 = (Bex.swapRows 1 0, (Mat.ident 2).swapRows 1 0) := by
  unfold pluSwap
  simp only [piv0]
  rw [if_neg (by decide)]

theorem piv1 (X : Mat (Fl M8)) : pivotRow X 2 1 = 1 := by
  simp [pivotRow]

theorem swap1 (X Y : Mat (Fl M8)) : pluSwap 2 (X, Y) 1 = (X, Y) := by
  unfold pluSwap
  simp only [piv1, if_true]

theorem Wget : (Bex.swapRows 1 0).get 0 0 = ⟨2⟩ ∧ (Bex.swapRows 1 0).get 0 1 = 1 ∧
    (Bex.swapRows 1 0).get 1 0 = 1 ∧ (Bex.swapRows 1 0).get 1 1 = 1 := by
  refine ⟨?_, ?_, ?_, ?_⟩ <;>
  · rw [swapRows_get' Bex (n := 2) rfl rfl 1 0 (by decide) (by decide)]
    simp [Bex, Mat.get]

/-- the packed array and the permutation the run on `Bex` ends with -/
noncomputable def Wfin : Mat (Fl M8) := pluElim 2 (pluElim 2 (Bex.swapRows 1 0) 0) 1
noncomputable def Pfin : Mat (Fl M8) := (Mat.ident 2).swapRows 1 0

/-- the pivoting run on `Bex` succeeds, with these results -/
theorem plu_ex_ok : plu epsx Bex = .ok (splitL 2 Wfin, splitU 2 Wfin, Pfin) := by
  have g0 : ¬ (sabs ((Bex.swapRows 1 0).get 0 0) < epsx) := by
    rw [Wget.1]
    norm_num [sabs, Fl.lt_iff, epsx]
  have g1 : ¬ (sabs ((pluElim 2 (Bex.swapRows 1 0) 0).get 1 1) < epsx) := by
    rw [pluElim_get' 2 _ 0 (by decide) (by decide), if_pos (by decide), if_neg (by decide),
      if_pos (by decide), Wget.1, Wget.2.1, Wget.2.2.1, Wget.2.2.2]
    norm_num [sabs, Fl.lt_iff, epsx, FlModel.skew]
  unfold plu
  rw [if_neg (by decide)]
  simp only [show Bex.h = 2 from rfl, iter, pluStep]
  rw [swap0]
  dsimp only
  rw [if_neg g0]
  dsimp only
  rw [swap1]
  dsimp only
  rw [if_neg g1]
  rfl

/-- `(L U)₁₀ = l₁₀·u₀₀ = (r/2)·2 = r ≠ 1 = (P A)₁₀` -/
theorem plu_ex_differs :
    ∑ k ∈ range Bex.h, ((splitL 2 Wfin).get 1 k).val * ((splitU 2 Wfin).get k 0).val
      ≠ ∑ k ∈ range Bex.h, (Pfin.get 1 k).val * (Bex.get k 0).val := by
  have l10 : (splitL 2 Wfin).get 1 0 = (1 : Fl M8) / ⟨2⟩ := by
    rw [splitL_get' 2 _ (by decide) (by decide), if_neg (by decide), if_pos (by decide), Wfin,
      pluElim_get' 2 _ 1 (by decide) (by decide), if_neg (by decide),
      pluElim_get' 2 _ 0 (by decide) (by decide), if_pos (by decide), if_pos rfl, Wget.1,
      Wget.2.2.1]
  have l11 : (splitL 2 Wfin).get 1 1 = 1 := by
    rw [splitL_get' 2 _ (by decide) (by decide), if_pos rfl]
  have u00 : (splitU 2 Wfin).get 0 0 = ⟨2⟩ := by
    rw [splitU_get' 2 _ (by decide) (by decide), if_pos (le_refl 0), Wfin,
      pluElim_get' 2 _ 1 (by decide) (by decide), if_neg (by decide),
      pluElim_get' 2 _ 0 (by decide) (by decide), if_neg (by decide), Wget.1]
  have u10 : (splitU 2 Wfin).get 1 0 = 0 := by
    rw [splitU_get' 2 _ (by decide) (by decide), if_neg (by decide)]
  have p10 : Pfin.get 1 0 = 1 := by
    rw [Pfin, swapRows_get' _ (n := 2) rfl rfl 1 0 (by decide) (by decide)]
    simp [Mat.get_ident]
  have p11 : Pfin.get 1 1 = 0 := by
    rw [Pfin, swapRows_get' _ (n := 2) rfl rfl 1 0 (by decide) (by decide)]
    simp [Mat.get_ident]
  show ∑ k ∈ range 2, ((splitL 2 Wfin).get 1 k).val * ((splitU 2 Wfin).get k 0).val
      ≠ ∑ k ∈ range 2, (Pfin.get 1 k).val * (Bex.get k 0).val
  rw [Finset.sum_range_succ, Finset.sum_range_one, Finset.sum_range_succ, Finset.sum_range_one,
    l10, l11, u00, u10, p10, p11]
  norm_num [Bex, Mat.get, FlModel.skew]

end SV.C09.Ex
