import SV.Model.C18
import SV.Lemmas.Rounding
import Mathlib.Algebra.BigOperators.Field
/-!
Helper lemmas for the rounding analysis of `SV.C18` (`fsum`, `meanRaw`, the squared deviations of
`stdDev`) at the rounding scalar `Fl M`: componentwise weight forms.  The property theorems are in
`SV.Props.C18Rounding`.
-/
namespace SV.C18
open SV Finset

variable {M : FlModel}

/-- `iter().sum()` at `Fl M` (fold from `-0.0`, which is `0`): `Σ xᵢ·tᵢ`, the weight of the `i`-th
sample carrying the `n − i` additions it takes part in -/
theorem fsum_weights (xs : List (Fl M)) :
    ∃ t : ℕ → ℝ, (∀ i, i < xs.length → M.Fac (xs.length - i) (t i)) ∧
      (fsum xs).val = ∑ i ∈ range xs.length, (xs.getD i 0).val * t i := by
  obtain ⟨t0, t, _, ht, hval⟩ := foldl_add_rounding xs (-(0 : Fl M))
  refine ⟨t, ht, ?_⟩
  unfold fsum
  rw [hval]
  simp

/-- `fsum xs / (dn as f64)` when the cast of the denominator carries `c` roundings (`c = 1` in
general, `c = 0` when `dn` is representable): weights with `n − i + 1 + c` roundings -/
theorem fsum_div_weights (xs : List (Fl M)) (dn c : ℕ) (s : ℝ) (hs : M.Fac c s)
    (hcast : ((dn : ℕ) : Fl M).val = (dn : ℝ) * s) :
    ∃ t : ℕ → ℝ, (∀ i, i < xs.length → M.Fac (xs.length + 1 + c - i) (t i)) ∧
      (fsum xs / (dn : Fl M)).val = ∑ i ∈ range xs.length, (xs.getD i 0).val / (dn : ℝ) * t i := by
  obtain ⟨t, ht, hval⟩ := fsum_weights xs
  obtain ⟨d, hd, hdiv⟩ := Fl.div_fac (fsum xs) (dn : Fl M)
  refine ⟨fun i => t i * d / s, fun i hi => ?_, ?_⟩
  · exact (((ht i hi).mul hd).div hs).mono (by omega)
  · rw [hdiv, hval, hcast, Finset.sum_div, Finset.sum_mul]
    refine Finset.sum_congr rfl fun i _ => ?_
    simp only [div_eq_mul_inv, mul_inv]
    ring

/-- `powi y 2` at `Fl M` is `1 * (y * y)`: two roundings -/
theorem powi_two_fac (y : Fl M) : ∃ t, M.Fac 2 t ∧ (powi y 2).val = y.val ^ 2 * t := by
  have h : powi y 2 = 1 * (y * y) := by simp [powi, powiGo]
  obtain ⟨d1, hd1, h1⟩ := Fl.mul_fac y y
  obtain ⟨d2, hd2, h2⟩ := Fl.mul_fac (1 : Fl M) (y * y)
  refine ⟨d1 * d2, hd1.mul hd2, ?_⟩
  rw [h, h2, h1]
  simp only [Fl.one_val]
  ring

/-- one squared deviation `powi (x - μ) 2`: a subtraction (squared) and two multiplications,
four roundings -/
theorem sqdev_fac (x μ : Fl M) :
    ∃ t, M.Fac 4 t ∧ (powi (x - μ) 2).val = (x.val - μ.val) ^ 2 * t := by
  obtain ⟨e, he, hsub⟩ := Fl.sub_fac x μ
  obtain ⟨p, hp, hpow⟩ := powi_two_fac (x - μ)
  refine ⟨e ^ 2 * p, (he.pow 2).mul hp, ?_⟩
  rw [hpow, hsub]
  ring

/-- the variance expression of `stdDev` about any centre `μ`, denominator `dn` whose cast carries
`c` roundings: `Σ (xᵢ − μ)²/dn · tᵢ` with `n − i + 5 + c` roundings in `tᵢ` -/
theorem variance_weights (xs : List (Fl M)) (μ : Fl M) (dn c : ℕ) (s : ℝ) (hs : M.Fac c s)
    (hcast : ((dn : ℕ) : Fl M).val = (dn : ℝ) * s) :
    ∃ t : ℕ → ℝ, (∀ i, i < xs.length → M.Fac (xs.length + 5 + c - i) (t i)) ∧
      (fsum (xs.map fun x => powi (x - μ) 2) / (dn : Fl M)).val
        = ∑ i ∈ range xs.length, ((xs.getD i 0).val - μ.val) ^ 2 / (dn : ℝ) * t i := by
  obtain ⟨t, ht, hval⟩ := fsum_div_weights (xs.map fun x => powi (x - μ) 2) dn c s hs hcast
  rw [List.length_map] at ht hval
  choose p hp hpv using fun x : Fl M => sqdev_fac x μ
  refine ⟨fun i => p (xs.getD i 0) * t i, fun i hi => ?_, ?_⟩
  · exact ((hp _).mul (ht i hi)).mono (by omega)
  · rw [hval]
    refine Finset.sum_congr rfl fun i hi => ?_
    rw [getD_map_of_lt xs _ 0 0 (by simpa using hi), hpv]
    ring

/-- shift of the centre of a sum of squares (any centre `μ`) -/
theorem sum_sq_shift {α : Type} (xs : List α) (g : α → ℝ) (c μ : ℝ) :
    (xs.map fun x => (g x - c) ^ 2).sum
      = (xs.map fun x => (g x - μ) ^ 2).sum
        + 2 * (μ - c) * ((xs.map g).sum - (xs.length : ℝ) * μ) + (xs.length : ℝ) * (μ - c) ^ 2 := by
  induction xs with
  | nil => simp
  | cons x xs ih =>
    simp only [List.map_cons, List.sum_cons, List.length_cons, Nat.cast_succ]
    rw [ih]
    ring

/-- … about the mean the cross term vanishes: `Σ (x−c)² = Σ (x−μ)² + n·(μ−c)²` -/
theorem sum_sq_about_mean {α : Type} (xs : List α) (g : α → ℝ) (c : ℝ) (hn : xs.length ≠ 0) :
    (xs.map fun x => (g x - c) ^ 2).sum
      = (xs.map fun x => (g x - (xs.map g).sum / (xs.length : ℝ)) ^ 2).sum
        + (xs.length : ℝ) * ((xs.map g).sum / (xs.length : ℝ) - c) ^ 2 := by
  have hne : (xs.length : ℝ) ≠ 0 := Nat.cast_ne_zero.mpr hn
  rw [sum_sq_shift xs g c ((xs.map g).sum / (xs.length : ℝ)), mul_div_cancel₀ _ hne, sub_self,
    mul_zero, add_zero]

end SV.C18
