import SV.Model.C01
import SV.Model.C02
import SV.Model.C11
import SV.Model.C10
import SV.Model.C07
import SV.Model.C06
import SV.Model.C05
import SV.Model.C14
import SV.Model.C13
import SV.Model.C04
import SV.Model.C03
import SV.Model.C09
import SV.Model.C12
import SV.Model.C15
import SV.Model.C18
import SV.Model.C08
import SV.Model.C16
import SV.Model.C17
import SV.Model.C19
import SV.Model.C20
import SV.Model.PolyOps
/-!
`svdriver <property>`: reads one request per line on stdin, prints the model's response.
Imports only the import-free `SV.Model.*` modules, so it links as a native executable.
-/
open SV

def dispatch (prop : String) : Option (String → String) :=
  match prop with
  | "C01" => some C01.Driver.handle
  | "C02" => some C02.Driver.handle
  | "C11" => some C11.Driver.handle
  | "C10" => some C10.Driver.handle
  | "C07" => some C07.Driver.handle
  | "C06" => some C06.Driver.handle
  | "C05" => some C05.Driver.handle
  | "C14" => some C14.Driver.handle
  | "C13" => some C13.Driver.handle
  | "C04" => some C04.Driver.handle
  | "C03" => some C03.Driver.handle
  | "C09" => some C09.Driver.handle
  | "C12" => some C12.Driver.handle
  | "C15" => some C15.Driver.handle
  | "C18" => some C18.Driver.handle
  | "C08" => some C08.Driver.handle
  | "C16" => some C16.handle
  | "C17" => some C17.Driver.handle
  | "C19" => some C19.Driver.handle
  | "C20" => some C20.handle
  | "POLY" => some PolyOps.handle
  | _ => none

partial def loop (h : IO.FS.Stream) (out : IO.FS.Stream) (f : String → String) : IO Unit := do
  let line ← h.getLine
  if line.isEmpty then return ()
  out.putStrLn (f line)
  loop h out f

def main (args : List String) : IO UInt32 := do
  match args with
  | [prop] =>
    match dispatch prop with
    | some f =>
      let out ← IO.getStdout
      loop (← IO.getStdin) out f
      out.flush
      return 0
    | none => IO.eprintln s!"unknown property {prop}"; return 2
  | _ => IO.eprintln "usage: svdriver <property>"; return 2
