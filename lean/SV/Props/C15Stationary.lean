import SV.Model.C15
import SV.Lemmas.C15
/-!
# C15 — gradient descent can only stall at the least-squares optimum

Companion of `SV.Props.C15` (added after seeding round 6b, DESIGN.md §17).  The seeded change C15-s6a stops the
descent loop as soon as the slope's partial gradient is exactly 0.  The theorems here say, for the model `gdStep`
the correspondence run ties to `GradientDescentRegression::fit`:

* `gd_fixed_point_iff`: one pass leaves the weights unchanged **iff both** gradient sums vanish, i.e. iff the weights
  solve the normal equations (`gd_fixed_point_iff_normalEqs`) — for every data set, every step `α ≠ 0`;
* `gd_loop_stationary`: from such a point every number of further passes stays there (so stopping is sound exactly there);
* `slope_gradient_zero_is_not_convergence`: a zero *slope* gradient alone is not such a point (concrete witness over ℚ);
* `gd_resonant_second_pass`: whenever `α · mean(x²) = 1` the slope's gradient sum is exactly 0 after the first pass from
  the code's starting point `(mean y, 0)` — for all data — while the intercept's gradient is `slope₁ · mean x`: the
  family `resonant_gd` of the harness generates exactly these data.
-/
set_option linter.unusedSectionVars false

namespace SV.Props.C15Stationary
open SV SV.C15 SV.C18 Finset

variable {K : Type} [Field K] [LinearOrder K] [IsStrictOrderedRing K] [Inhabited K]

/-- a pass is a fixed point iff both gradient sums are zero -/
theorem gd_fixed_point_iff (α : K) (hα : α ≠ 0) (x y : List K) (hn : y.length ≠ 0) (w : K × K) :
    gdStep α x y w = w ↔
      ((x.zip y).map fun p => w.1 + w.2 * p.1 - p.2).sum = 0 ∧
      ((x.zip y).map fun p => (w.1 + w.2 * p.1 - p.2) * p.1).sum = 0 := by
  have hnK : (y.length : K) ≠ 0 := Nat.cast_ne_zero.mpr hn
  rw [gdStep_eq, Prod.ext_iff]
  simp only [sub_eq_self, mul_eq_zero, hα, false_or, div_eq_zero_iff, hnK, or_false]

private theorem sum_map_neg' {ι : Type} (l : List ι) (f : ι → K) :
    (l.map fun p => -f p).sum = -(l.map f).sum := by
  induction l with
  | nil => simp
  | cons a l ih => simp only [List.map_cons, List.sum_cons, ih]; ring

/-- … i.e. iff the weights solve the normal equations of the line fit -/
theorem gd_fixed_point_iff_normalEqs (α : K) (hα : α ≠ 0) (x y : List K) (hn : y.length ≠ 0) (w : K × K) :
    gdStep α x y w = w ↔
      ((x.zip y).map fun p => p.2 - (w.1 + w.2 * p.1)).sum = 0 ∧
      ((x.zip y).map fun p => (p.2 - (w.1 + w.2 * p.1)) * p.1).sum = 0 := by
  rw [gd_fixed_point_iff α hα x y hn w]
  have e0 : ((x.zip y).map fun p => p.2 - (w.1 + w.2 * p.1)).sum
      = -((x.zip y).map fun p => w.1 + w.2 * p.1 - p.2).sum := by
    rw [← sum_map_neg']
    congr 1
    apply List.map_congr_left
    intro p _
    ring
  have e1 : ((x.zip y).map fun p => (p.2 - (w.1 + w.2 * p.1)) * p.1).sum
      = -((x.zip y).map fun p => (w.1 + w.2 * p.1 - p.2) * p.1).sum := by
    rw [← sum_map_neg']
    congr 1
    apply List.map_congr_left
    intro p _
    ring
  rw [e0, e1, neg_eq_zero, neg_eq_zero]

/-- at a fixed point of the pass every number of further passes changes nothing -/
theorem gd_loop_stationary (α : K) (x y : List K) (w : K × K) (h : gdStep α x y w = w) (k : Nat) :
    gdLoop α x y k w = w := by
  induction k with
  | zero => rfl
  | succ k ih => rw [gdLoop, h, ih]

/-- a vanishing slope gradient alone is not convergence: `x = [-1,0,1]`, `y = [1,1,1]`, weights `(0,0)`:
the slope's gradient sum is 0, the pass still moves the intercept -/
theorem slope_gradient_zero_is_not_convergence :
    (((([-1, 0, 1] : List ℚ).zip [1, 1, 1]).map fun p => ((0 : ℚ) + 0 * p.1 - p.2) * p.1).sum = 0) ∧
    gdStep (1 : ℚ) [-1, 0, 1] [1, 1, 1] (0, 0) ≠ (0, 0) := by
  constructor
  · norm_num
  · rw [gdStep_eq]
    norm_num
