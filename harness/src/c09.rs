//! C09 — `lu_decomposition` and `lu_pivot_decomposition`: factors have the advertised shape and
//! multiply back to the input.
//!
//! Requests
//!   `lu|plu <kind> <h> <w> <bits…>`            kind ∈ vv (Vec<Vec<f64>>), rvv (&Vec<Vec<f64>>),
//!                                              rvi (&Vec<Vec<i32>>), ra (&Arr2D<f64>), rai (&Arr2D<i32>),
//!                                              rvs / ras (f32 elements), rvu / rau (u8 elements)
//!   `lu|plu vvj|rvvj <nrows> (<len> <bits…>)*`  jagged nested vectors (owned / borrowed)
//!   `lu3|plu3 <a00> … <a12>`                   the 125 integer 3×3 matrices over −2..2 whose first two rows
//!                                              are given (one answer token group per third row)
//! Observation: `ok L <h w f…> U <h w f…> [P <h w f…>]` | `err nonsquare|singular|invalid` | `panic`.
//!
//! The oracle here (exact dyadic arithmetic, `Big`) is written from the property's statement and is
//! independent of the Lean model; tools/props/c09.py evaluates the same clauses a second time with
//! Python `fractions` on every per-matrix request.
use crate::util::*;
use spindalis::decomposition::{lu_decomposition, lu_pivot_decomposition};
use spindalis::solvers::SolverError;
use spindalis::utils::{Arr2D, Arr2DError};
use std::cmp::Ordering;

// ------------------------------------------------------------------------------------------------
// exact arithmetic on dyadic rationals: value = (-1)^neg * mag * 2^exp, `mag` little-endian u64 limbs

#[derive(Clone, Debug)]
pub struct Big {
    neg: bool,
    mag: Vec<u64>,
    exp: i64,
}

fn mag_trim(v: &mut Vec<u64>) {
    while let Some(&0) = v.last() {
        v.pop();
    }
}
fn mag_cmp(a: &[u64], b: &[u64]) -> Ordering {
    if a.len() != b.len() {
        return a.len().cmp(&b.len());
    }
    for k in (0..a.len()).rev() {
        if a[k] != b[k] {
            return a[k].cmp(&b[k]);
        }
    }
    Ordering::Equal
}
fn mag_add(a: &[u64], b: &[u64]) -> Vec<u64> {
    let n = a.len().max(b.len());
    let mut out = Vec::with_capacity(n + 1);
    let mut carry = 0u128;
    for k in 0..n {
        let s = carry + *a.get(k).unwrap_or(&0) as u128 + *b.get(k).unwrap_or(&0) as u128;
        out.push(s as u64);
        carry = s >> 64;
    }
    if carry > 0 {
        out.push(carry as u64);
    }
    out
}
/// a - b, requires a >= b
fn mag_sub(a: &[u64], b: &[u64]) -> Vec<u64> {
    let mut out = Vec::with_capacity(a.len());
    let mut borrow = 0i128;
    for k in 0..a.len() {
        let mut d = a[k] as i128 - *b.get(k).unwrap_or(&0) as i128 - borrow;
        if d < 0 {
            d += 1i128 << 64;
            borrow = 1;
        } else {
            borrow = 0;
        }
        out.push(d as u64);
    }
    mag_trim(&mut out);
    out
}
fn mag_mul(a: &[u64], b: &[u64]) -> Vec<u64> {
    if a.is_empty() || b.is_empty() {
        return vec![];
    }
    let mut out = vec![0u64; a.len() + b.len()];
    for i in 0..a.len() {
        let mut carry = 0u128;
        for j in 0..b.len() {
            let t = out[i + j] as u128 + a[i] as u128 * b[j] as u128 + carry;
            out[i + j] = t as u64;
            carry = t >> 64;
        }
        let mut k = i + b.len();
        while carry > 0 {
            let t = out[k] as u128 + carry;
            out[k] = t as u64;
            carry = t >> 64;
            k += 1;
        }
    }
    mag_trim(&mut out);
    out
}
fn mag_shl(a: &[u64], s: u64) -> Vec<u64> {
    if a.is_empty() {
        return vec![];
    }
    let (limbs, bits) = ((s / 64) as usize, (s % 64) as u32);
    let mut out = vec![0u64; limbs];
    if bits == 0 {
        out.extend_from_slice(a);
    } else {
        let mut carry = 0u64;
        for &x in a {
            out.push((x << bits) | carry);
            carry = x >> (64 - bits);
        }
        if carry > 0 {
            out.push(carry);
        }
    }
    out
}

impl Big {
    pub fn zero() -> Big {
        Big { neg: false, mag: vec![], exp: 0 }
    }
    pub fn int(k: i64) -> Big {
        let mut mag = vec![k.unsigned_abs()];
        mag_trim(&mut mag);
        Big { neg: k < 0, mag, exp: 0 }
    }
    pub fn pow2(e: i64) -> Big {
        Big { neg: false, mag: vec![1], exp: e }
    }
    /// exact value of a finite f64
    pub fn of_f64(x: f64) -> Big {
        assert!(x.is_finite());
        let bits = x.to_bits();
        let e = ((bits >> 52) & 0x7ff) as i64;
        let frac = bits & ((1u64 << 52) - 1);
        let (m, exp) = if e == 0 { (frac, -1074) } else { (frac | (1u64 << 52), e - 1075) };
        let mut mag = vec![m];
        mag_trim(&mut mag);
        Big { neg: bits >> 63 == 1 && m != 0, mag, exp }
    }
    pub fn is_zero(&self) -> bool {
        self.mag.is_empty()
    }
    pub fn abs(&self) -> Big {
        Big { neg: false, mag: self.mag.clone(), exp: self.exp }
    }
    pub fn neg(&self) -> Big {
        Big { neg: !self.neg && !self.is_zero(), mag: self.mag.clone(), exp: self.exp }
    }
    pub fn mul(&self, o: &Big) -> Big {
        let mag = mag_mul(&self.mag, &o.mag);
        let z = mag.is_empty();
        Big { neg: (self.neg != o.neg) && !z, mag, exp: if z { 0 } else { self.exp + o.exp } }
    }
    pub fn add(&self, o: &Big) -> Big {
        if self.is_zero() {
            return o.clone();
        }
        if o.is_zero() {
            return self.clone();
        }
        let e = self.exp.min(o.exp);
        let a = mag_shl(&self.mag, (self.exp - e) as u64);
        let b = mag_shl(&o.mag, (o.exp - e) as u64);
        if self.neg == o.neg {
            return Big { neg: self.neg, mag: mag_add(&a, &b), exp: e };
        }
        match mag_cmp(&a, &b) {
            Ordering::Equal => Big::zero(),
            Ordering::Greater => Big { neg: self.neg, mag: mag_sub(&a, &b), exp: e },
            Ordering::Less => Big { neg: o.neg, mag: mag_sub(&b, &a), exp: e },
        }
    }
    pub fn sub(&self, o: &Big) -> Big {
        self.add(&o.neg())
    }
    pub fn cmp(&self, o: &Big) -> Ordering {
        let d = self.sub(o);
        if d.is_zero() {
            Ordering::Equal
        } else if d.neg {
            Ordering::Less
        } else {
            Ordering::Greater
        }
    }
    pub fn le(&self, o: &Big) -> bool {
        self.cmp(o) != Ordering::Greater
    }
}

// ------------------------------------------------------------------------------------------------
// requests, observations

#[derive(Clone, Debug)]
pub struct G {
    pub h: usize,
    pub w: usize,
    pub v: Vec<f64>,
}
impl G {
    fn at(&self, i: usize, j: usize) -> f64 {
        self.v[i * self.w + j]
    }
    fn of_arr(a: &Arr2D<f64>) -> G {
        let (h, w) = (a.height, a.width);
        let mut v = Vec::with_capacity(h * w);
        for i in 0..h {
            for j in 0..w {
                v.push(a[(i, j)]);
            }
        }
        G { h, w, v }
    }
    fn show(&self) -> String {
        let mut s = format!("{} {}", self.h, self.w);
        for x in &self.v {
            s.push(' ');
            s.push_str(&fbits(*x));
        }
        s
    }
    fn rows(&self) -> Vec<Vec<f64>> {
        (0..self.h).map(|i| (0..self.w).map(|j| self.at(i, j)).collect()).collect()
    }
}

fn arr_f(g: &G) -> Arr2D<f64> {
    let mut a = Arr2D::full(0.0, g.h, g.w);
    for i in 0..g.h {
        for j in 0..g.w {
            a[(i, j)] = g.at(i, j);
        }
    }
    a
}
fn arr_i(g: &G) -> Arr2D<i32> {
    let mut a = Arr2D::full(0i32, g.h, g.w);
    for i in 0..g.h {
        for j in 0..g.w {
            a[(i, j)] = g.at(i, j) as i32;
        }
    }
    a
}

fn arr_t<T: Copy>(g: &G, zero: T, f: impl Fn(f64) -> T) -> Arr2D<T> {
    let mut a = Arr2D::full(zero, g.h, g.w);
    for i in 0..g.h {
        for j in 0..g.w {
            a[(i, j)] = f(g.at(i, j));
        }
    }
    a
}
fn rows_t<T>(g: &G, f: impl Fn(f64) -> T) -> Vec<Vec<T>> {
    g.rows().iter().map(|r| r.iter().map(|x| f(*x)).collect()).collect()
}
fn fits_f32(v: &[f64]) -> bool {
    v.iter().all(|x| ((*x as f32) as f64).to_bits() == x.to_bits())
}
fn fits_u8(v: &[f64]) -> bool {
    v.iter().all(|x| (0.0..=255.0).contains(x) && ((*x as u8) as f64).to_bits() == x.to_bits())
}
fn fits_i32(v: &[f64]) -> bool {
    v.iter().all(|x| x.abs() < 2e9 && ((*x as i32) as f64).to_bits() == x.to_bits())
}

pub enum Out {
    Lu(Arr2D<f64>, Arr2D<f64>),
    Plu(Arr2D<f64>, Arr2D<f64>, Arr2D<f64>),
    NonSquare,
    Singular,
    Invalid,
    OtherErr(String),
    Panic,
}

fn of_err(e: SolverError) -> Out {
    match e {
        SolverError::NonSquareMatrix => Out::NonSquare,
        SolverError::SingularMatrix => Out::Singular,
        SolverError::InvalidVector(Arr2DError::InconsistentRowLengths) => Out::Invalid,
        other => Out::OtherErr(format!("{other:?}")),
    }
}

/// the generic entry point, once per accepted container type
fn call<M>(plu: bool, m: M) -> Out
where
    M: TryInto<Arr2D<f64>, Error = Arr2DError>,
{
    let r = catch(move || {
        if plu {
            match lu_pivot_decomposition(m) {
                Ok((l, u, p)) => Out::Plu(l, u, p),
                Err(e) => of_err(e),
            }
        } else {
            match lu_decomposition(m) {
                Ok((l, u)) => Out::Lu(l, u),
                Err(e) => of_err(e),
            }
        }
    });
    r.unwrap_or(Out::Panic)
}

fn show(o: &Out) -> String {
    match o {
        Out::Lu(l, u) => format!("ok L {} U {}", G::of_arr(l).show(), G::of_arr(u).show()),
        Out::Plu(l, u, p) => {
            format!("ok L {} U {} P {}", G::of_arr(l).show(), G::of_arr(u).show(), G::of_arr(p).show())
        }
        Out::NonSquare => "err nonsquare".into(),
        Out::Singular => "err singular".into(),
        Out::Invalid => "err invalid".into(),
        Out::OtherErr(e) => format!("err other {}", e.replace(' ', "_")),
        Out::Panic => "panic".into(),
    }
}

// ------------------------------------------------------------------------------------------------
// the oracle (from the statement; exact)

fn is_small_int(a: &G) -> bool {
    a.v.iter().all(|x| x.fract() == 0.0 && x.abs() <= 2.0)
}

/// exact determinant of an integer matrix (Bareiss, i128)
fn det_int(n: usize, v: &[i128]) -> i128 {
    if n == 0 {
        return 1;
    }
    let mut m = v.to_vec();
    let mut sign = 1i128;
    let mut prev = 1i128;
    for k in 0..n - 1 {
        if m[k * n + k] == 0 {
            let Some(r) = (k + 1..n).find(|&r| m[r * n + k] != 0) else { return 0 };
            for c in 0..n {
                m.swap(k * n + c, r * n + c);
            }
            sign = -sign;
        }
        for i in k + 1..n {
            for j in k + 1..n {
                m[i * n + j] = (m[i * n + j] * m[k * n + k] - m[i * n + k] * m[k * n + j]) / prev;
            }
        }
        prev = m[k * n + k];
    }
    sign * m[n * n - 1]
}

fn leading_minor_int(a: &G, k: usize) -> i128 {
    let mut v = Vec::with_capacity(k * k);
    for i in 0..k {
        for j in 0..k {
            v.push(a.at(i, j) as i128);
        }
    }
    det_int(k, &v)
}

/// what the statement demands of the outcome *kind* for this input: Some(true) = must succeed,
/// Some(false) = must be refused as singular, None = either (then only the Ok-clauses apply)
fn expectation(plu: bool, a: &G) -> (Option<bool>, &'static str) {
    let n = a.h;
    if n == 0 {
        return (None, "");
    }
    let zero_row = (0..n).any(|i| (0..n).all(|j| a.at(i, j) == 0.0));
    let zero_col = (0..n).any(|j| (0..n).all(|i| a.at(i, j) == 0.0));
    let rep_row = (0..n).any(|i| (0..i).any(|k| (0..n).all(|j| a.at(i, j) == a.at(k, j))));
    if plu {
        if zero_row {
            return (Some(false), "zero row");
        }
        if zero_col {
            return (Some(false), "zero column");
        }
        if rep_row {
            return (Some(false), "repeated row");
        }
        if is_small_int(a) {
            let d = leading_minor_int(a, n);
            if d == 0 && n <= 3 {
                return (Some(false), "singular matrix with entries in -2..2");
            }
            if d == 0 {
                return (Some(false), "singular matrix with entries in -2..2 of order >= 4 (rounding hides the singularity from the absolute pivot test)");
            }
            if d != 0 {
                return (Some(true), "non-singular matrix with entries in -2..2");
            }
        }
    } else if is_small_int(a) && n >= 4 && (1..n).any(|k| leading_minor_int(a, k) == 0) {
        return (Some(false), "vanishing leading minor in a matrix with entries in -2..2 of order >= 4 (rounding hides it from the absolute pivot test)");
    } else if is_small_int(a) && n <= 3 {
        // every operation before the pivot test is exact for these
        let vanishing = (1..n).any(|k| leading_minor_int(a, k) == 0);
        return if vanishing {
            (Some(false), "vanishing leading minor")
        } else if leading_minor_int(a, n) != 0 {
            (Some(true), "non-singular, all leading minors non-zero, entries in -2..2")
        } else {
            // singular with non-zero leading minors of order < n: can be factored (u_nn = 0); either outcome
            (None, "")
        };
    } else if a.v.iter().all(|x| x.fract() == 0.0 && x.abs() <= 64.0) && a.at(0, 0) == 0.0 && n > 1 {
        return (Some(false), "vanishing leading minor (a00 = 0)");
    }
    if diag_dominant(a) {
        return (Some(true), "strictly diagonally dominant, well scaled");
    }
    (None, "")
}

/// strictly diagonally dominant by rows or by columns with margin ≥ 1/4 and entries in [2^-8, 2^8] on the
/// diagonal — both algorithms must factor such a matrix (pivots stay ≥ margin/n)
fn diag_dominant(a: &G) -> bool {
    let n = a.h;
    if !a.v.iter().all(|x| x.is_finite() && x.abs() <= 256.0) {
        return false;
    }
    let by_rows = (0..n).all(|i| {
        let off: f64 = (0..n).filter(|&j| j != i).map(|j| a.at(i, j).abs()).sum();
        a.at(i, i).abs() >= off * 1.0000001 + 0.25
    });
    let by_cols = (0..n).all(|j| {
        let off: f64 = (0..n).filter(|&i| i != j).map(|i| a.at(i, j).abs()).sum();
        a.at(j, j).abs() >= off * 1.0000001 + 0.25
    });
    by_rows || by_cols
}

fn check_factors(a: &G, l: &G, u: &G, p: Option<&G>, finite_owed: bool) -> Result<(), String> {
    let n = a.h;
    for (name, m) in [("L", l), ("U", u)].into_iter().chain(p.map(|p| ("P", p))) {
        if m.h != n || m.w != n {
            return Err(format!("{name} is {}x{} for a {n}x{n} input", m.h, m.w));
        }
    }
    for (name, m) in [("L", l), ("U", u)].into_iter().chain(p.map(|p| ("P", p))) {
        if let Some(k) = m.v.iter().position(|x| !x.is_finite()) {
            // outside the safe range an overflow may be the correct answer of the formula: the plug-in decides there
            // (it has a certificate for "nothing can overflow"); here the factors are then not judged
            return if finite_owed { Err(format!("{name}[{}][{}] is not finite", k / n.max(1), k % n.max(1))) } else { Ok(()) };
        }
    }
    for i in 0..n {
        for j in 0..n {
            if i == j && l.at(i, j) != 1.0 {
                return Err(format!("L[{i}][{i}] is not 1"));
            }
            if i < j && l.at(i, j) != 0.0 {
                return Err(format!("L[{i}][{j}] above the diagonal is not 0"));
            }
            if i > j && u.at(i, j) != 0.0 {
                return Err(format!("U[{i}][{j}] below the diagonal is not 0"));
            }
            if p.is_some() && i > j && l.at(i, j).abs() > 1.0 {
                return Err(format!("multiplier |L[{i}][{j}]| > 1 with pivoting"));
            }
        }
    }
    // sigma: row i of P has its single 1 in column sigma[i]
    let mut sigma: Vec<usize> = (0..n).collect();
    if let Some(p) = p {
        let mut used = vec![false; n];
        for i in 0..n {
            let ones: Vec<usize> = (0..n).filter(|&j| p.at(i, j) == 1.0).collect();
            let zeros = (0..n).filter(|&j| p.at(i, j) == 0.0).count();
            if ones.len() != 1 || zeros != n - 1 {
                return Err(format!("row {i} of P is not a unit vector"));
            }
            if used[ones[0]] {
                return Err("P is not a permutation matrix (a column is used twice)".into());
            }
            used[ones[0]] = true;
            sigma[i] = ones[0];
        }
    }
    // |L U - P A| <= 2^6 n u |L||U| componentwise, exactly (u = 2^-53)
    let lb: Vec<Big> = l.v.iter().map(|x| Big::of_f64(*x)).collect();
    let ub: Vec<Big> = u.v.iter().map(|x| Big::of_f64(*x)).collect();
    let tol = Big::int(n as i64).mul(&Big::pow2(6 - 53));
    // gradual underflow (tiny and huge entries in one matrix): a product l_ik u_kj or a quotient below 2^-1022 is rounded to a
    // multiple of 2^-1074, an absolute error of at most 2^-1075 each: 2^6 2^-1075 (min(i,j) + 1 + [i > j] |u_jj|) is allowed on
    // top of the relative bound (negligible everywhere else); an entry whose bound |L||U| reaches 2^1024 is not judged
    let eta = Big::pow2(6 - 1075);
    let top = Big::pow2(1024);
    for i in 0..n {
        for j in 0..n {
            let mut s = Big::zero();
            let mut sa = Big::zero();
            for k in 0..=i.min(j) {
                let t = lb[i * n + k].mul(&ub[k * n + j]);
                sa = sa.add(&t.abs());
                s = s.add(&t);
            }
            if top.le(&sa) {
                continue;
            }
            let target = a.at(sigma[i], j);
            if !target.is_finite() {
                return Err("input entry not finite".into());
            }
            let mut steps = Big::int(i.min(j) as i64 + 1);
            if i > j {
                steps = steps.add(&ub[j * n + j].abs());
            }
            let r = s.sub(&Big::of_f64(target)).abs();
            if !r.le(&tol.mul(&sa).add(&eta.mul(&steps))) {
                return Err(format!(
                    "|L U - {}A| exceeds 2^6 n u |L||U| at ({i},{j})",
                    if p.is_some() { "P " } else { "" }
                ));
            }
        }
    }
    Ok(())
}

const SAFE_LO: f64 = 4.464794497196387e-103; // 2^-340
const SAFE_HI: f64 = 2.2397447421778042e102; // 2^340

fn oracle(plu: bool, input: &Input, out: &Out) -> Result<(), String> {
    // The statement says "reported as an error" / "rejected" and names no error kind: for the property every error is
    // a refusal (the comparison with the model, tools/props/c09.py `compare`, does not distinguish kinds either).
    let refused = matches!(out, Out::NonSquare | Out::Singular | Out::Invalid | Out::OtherErr(_));
    let a = match input {
        Input::Jagged(rows) => {
            let w = rows.first().map(|r| r.len()).unwrap_or(0);
            if rows.iter().any(|r| r.len() != w) {
                return if refused { Ok(()) } else { Err("rows of different lengths were not rejected".into()) };
            }
            G { h: rows.len(), w: if rows.is_empty() { 0 } else { w }, v: rows.concat() }
        }
        Input::Rect(g, nested) => {
            if *nested && g.h == 0 {
                G { h: 0, w: 0, v: vec![] }
            } else {
                g.clone()
            }
        }
    };
    if let Out::Panic = out {
        return Err("the decomposition panicked".into());
    }
    if a.h != a.w {
        return if refused { Ok(()) } else { Err(format!("non-square {}x{} input was not rejected", a.h, a.w)) };
    }
    // NaN / infinite entries are outside the property; entries outside 2^-340 .. 2^340 can under- or overflow in a
    // product of three, where the (purely relative) rounding model of the clauses below does not apply: such inputs
    // are generated, but only compared with the model
    if !a.v.iter().all(|x| x.is_finite()) {
        return Ok(());
    }
    if !a.v.iter().all(|x| *x == 0.0 || (x.abs() >= SAFE_LO && x.abs() <= SAFE_HI)) {
        // MIXED EXTREMES: returned factors are judged at every magnitude (structure, |l_ij| <= 1, the exact reconstruction
        // bound with its underflow allowance) as long as they are finite; what must be refused / factored / finite there
        // is decided by the plug-in (exact rational elimination)
        return match out {
            Out::Lu(l, u) if !plu => check_factors(&a, &G::of_arr(l), &G::of_arr(u), None, false),
            Out::Plu(l, u, p) if plu => check_factors(&a, &G::of_arr(l), &G::of_arr(u), Some(&G::of_arr(p)), false),
            Out::Lu(..) | Out::Plu(..) => Err("wrong result arity".into()),
            _ => Ok(()),
        };
    }
    let (expect, why) = expectation(plu, &a);
    match out {
        Out::NonSquare | Out::Invalid | Out::Singular | Out::OtherErr(_) => {
            if expect == Some(true) {
                Err(format!("refused ({}): {why}", show(out)))
            } else {
                Ok(())
            }
        }
        Out::Lu(l, u) => {
            if plu {
                return Err("wrong result arity".into());
            }
            if expect == Some(false) {
                return Err(format!("factored although it cannot be: {why}"));
            }
            check_factors(&a, &G::of_arr(l), &G::of_arr(u), None, true)
        }
        Out::Plu(l, u, p) => {
            if !plu {
                return Err("wrong result arity".into());
            }
            if expect == Some(false) {
                return Err(format!("factored although it cannot be: {why}"));
            }
            check_factors(&a, &G::of_arr(l), &G::of_arr(u), Some(&G::of_arr(p)), true)
        }
        Out::Panic => unreachable!(),
    }
}

pub enum Input {
    Rect(G, bool),
    Jagged(Vec<Vec<f64>>),
}

fn run_one(plu: bool, kind: &str, input: &Input) -> Out {
    match (kind, input) {
        ("vv", Input::Rect(g, _)) => call(plu, g.rows()),
        ("rvv", Input::Rect(g, _)) => {
            let v = g.rows();
            call(plu, &v)
        }
        ("rvi", Input::Rect(g, _)) => {
            let v: Vec<Vec<i32>> = g.rows().iter().map(|r| r.iter().map(|x| *x as i32).collect()).collect();
            call(plu, &v)
        }
        ("ra", Input::Rect(g, _)) => {
            let a = arr_f(g);
            call(plu, &a)
        }
        ("rai", Input::Rect(g, _)) => {
            let a = arr_i(g);
            call(plu, &a)
        }
        ("rvs", Input::Rect(g, _)) => {
            assert!(fits_f32(&g.v), "request values not representable in f32");
            let v = rows_t(g, |x| x as f32);
            call(plu, &v)
        }
        ("ras", Input::Rect(g, _)) => {
            assert!(fits_f32(&g.v), "request values not representable in f32");
            let a = arr_t(g, 0f32, |x| x as f32);
            call(plu, &a)
        }
        ("rvu", Input::Rect(g, _)) => {
            assert!(fits_u8(&g.v), "request values not representable in u8");
            let v = rows_t(g, |x| x as u8);
            call(plu, &v)
        }
        ("rau", Input::Rect(g, _)) => {
            assert!(fits_u8(&g.v), "request values not representable in u8");
            let a = arr_t(g, 0u8, |x| x as u8);
            call(plu, &a)
        }
        ("vvj", Input::Jagged(rows)) => call(plu, rows.clone()),
        ("rvvj", Input::Jagged(rows)) => call(plu, rows),
        _ => panic!("unknown container kind {kind}"),
    }
}

/// weighted sum of magnitudes + mask of negative entries: a compact, order-sensitive digest of a result
/// that still compares numerically (used only by the `lu3`/`plu3` sweeps)
fn digest(ms: &[&Arr2D<f64>]) -> String {
    // entries below 2^-30 of the largest one do not enter the sign mask (an entry whose exact value is 0 comes out as
    // 0 or as +-1e-17 depending on the order of the floating-point sums); the Lean driver computes the same digest
    let mut big = 0.0f64;
    for m in ms {
        for x in &G::of_arr(m).v {
            if big < x.abs() {
                big = x.abs();
            }
        }
    }
    let thr = big * 2f64.powi(-30);
    let mut s = 0.0f64;
    let mut mask = 0u64;
    let mut k = 0u32;
    for m in ms {
        let g = G::of_arr(m);
        for x in &g.v {
            k += 1;
            s += (k as f64) * x.abs();
            if *x < 0.0 && thr <= x.abs() {
                mask |= 1u64 << (k - 1);
            }
        }
    }
    format!("{} {}", fbits(s), mask)
}

fn run_sweep(plu: bool, t: &mut Toks) -> Obs {
    let first: Vec<f64> = (0..6).map(|_| t.i64() as f64).collect();
    let mut obs = String::new();
    let mut verdict: Result<(), String> = Ok(());
    for c in 0..125 {
        let third = [(c / 25) as i64 - 2, ((c / 5) % 5) as i64 - 2, (c % 5) as i64 - 2];
        let mut v = first.clone();
        v.extend(third.iter().map(|x| *x as f64));
        let g = G { h: 3, w: 3, v };
        let input = Input::Rect(g.clone(), false);
        let out = if c % 2 == 0 { run_one(plu, "rai", &input) } else { run_one(plu, "ra", &input) };
        if verdict.is_ok() {
            if let Err(e) = oracle(plu, &input, &out) {
                verdict = Err(format!("third row {} {} {}: {e}", third[0], third[1], third[2]));
            }
        }
        if !obs.is_empty() {
            obs.push(' ');
        }
        match &out {
            Out::Lu(l, u) => obs.push_str(&format!("ok {}", digest(&[l, u]))),
            Out::Plu(l, u, p) => obs.push_str(&format!("ok {}", digest(&[l, u, p]))),
            Out::Singular => obs.push_str("sing"),
            other => obs.push_str(&show(other).replace(' ', "_")),
        }
    }
    Obs::with(obs, verdict)
}

pub fn run(line: &str) -> Obs {
    let mut t = Toks::new(line);
    let cmd = t.tok();
    match cmd {
        "lu3" => return run_sweep(false, &mut t),
        "plu3" => return run_sweep(true, &mut t),
        _ => {}
    }
    let plu = match cmd {
        "lu" => false,
        "plu" => true,
        _ => panic!("unknown C09 request {cmd}"),
    };
    let kind = t.tok();
    let input = if kind.ends_with('j') {
        let r = t.usize();
        Input::Jagged((0..r).map(|_| t.vec_f64()).collect())
    } else {
        let (h, w, v) = t.mat_f64();
        Input::Rect(G { h, w, v }, kind.contains('v'))
    };
    let out = run_one(plu, kind, &input);
    let verdict = oracle(plu, &input, &out);
    Obs::with(show(&out), verdict)
}

// ------------------------------------------------------------------------------------------------
// generators

const KINDS: [&str; 5] = ["ra", "vv", "rvv", "rai", "rvi"];
const FKINDS: [&str; 3] = ["ra", "vv", "rvv"];

fn emit_mat(emit: &mut dyn FnMut(String), cmd: &str, kind: &str, n: usize, w: usize, v: &[f64]) {
    emit(format!("{cmd} {kind} {}", req_mat_f(n, w, v)));
}

fn both(emit: &mut dyn FnMut(String), kind: &str, n: usize, v: &[f64]) {
    emit_mat(emit, "lu", kind, n, n, v);
    emit_mat(emit, "plu", kind, n, n, v);
}

fn int_mat(rng: &mut Rng, n: usize, lo: i64, hi: i64) -> Vec<f64> {
    (0..n * n).map(|_| rng.range(lo, hi) as f64).collect()
}

fn matmul(n: usize, a: &[f64], b: &[f64]) -> Vec<f64> {
    let mut c = vec![0.0; n * n];
    for i in 0..n {
        for j in 0..n {
            for k in 0..n {
                c[i * n + j] += a[i * n + k] * b[k * n + j];
            }
        }
    }
    c
}

fn shuffle(rng: &mut Rng, n: usize) -> Vec<usize> {
    let mut p: Vec<usize> = (0..n).collect();
    for i in (1..n).rev() {
        let j = rng.below(i as u64 + 1) as usize;
        p.swap(i, j);
    }
    p
}

pub fn generate(seed: u64, thorough: bool, emit: &mut dyn FnMut(String)) {
    let mut rng = Rng::new(seed ^ 0xC09);

    // 1. every 2x2 with entries -2..2, both algorithms; every container kind (thorough) or a rotating one
    for c in 0..625usize {
        let v: Vec<f64> = [c / 125, (c / 25) % 5, (c / 5) % 5, c % 5].iter().map(|x| *x as f64 - 2.0).collect();
        if thorough {
            for kind in KINDS {
                both(emit, kind, 2, &v);
            }
        } else {
            emit_mat(emit, "lu", KINDS[c % 5], 2, 2, &v);
            emit_mat(emit, "plu", KINDS[(c + 2) % 5], 2, 2, &v);
        }
    }
    // every 1x1 with entry -2..2 and around the pivot threshold; the empty matrix
    for kind in KINDS {
        both(emit, kind, 0, &[]);
        for x in -2..=2 {
            both(emit, kind, 1, &[x as f64]);
        }
    }
    let e = f64::EPSILON;
    for x in [e, -e, e * (1.0 - e / 2.0), e / 2.0, e * (1.0 + e), 5e-324, -0.0, 1e300, -1e-300] {
        for kind in FKINDS {
            both(emit, kind, 1, &[x]);
            // as first pivot of a 2x2, and as last pivot
            both(emit, kind, 2, &[x, 1.0, x / 2.0, 1.0]);
            both(emit, kind, 2, &[1.0, 1.0, 1.0, 1.0 + x]);
            both(emit, kind, 2, &[1.0, 0.5, x, 1.0]);
        }
    }

    // 2. 3x3 with entries -2..2: a sample as full per-matrix requests; the thorough tier also sweeps all
    // 5^9 of them (requests lu3/plu3: first two rows given, 125 third rows each)
    let n3 = if thorough { 40000 } else { 2500 };
    for k in 0..n3 {
        let v = int_mat(&mut rng, 3, -2, 2);
        both(emit, KINDS[k % 5], 3, &v);
    }
    if thorough {
        for c in 0..15625usize {
            let mut d = Vec::new();
            let mut x = c;
            for _ in 0..6 {
                d.push((x % 5) as i64 - 2);
                x /= 5;
            }
            let s: Vec<String> = d.iter().map(|x| x.to_string()).collect();
            emit(format!("lu3 {}", s.join(" ")));
            emit(format!("plu3 {}", s.join(" ")));
        }
    } else {
        // a slice of the sweep so that the quick tier exercises the path
        for _ in 0..40 {
            let s: Vec<String> = (0..6).map(|_| rng.range(-2, 2).to_string()).collect();
            emit(format!("lu3 {}", s.join(" ")));
            emit(format!("plu3 {}", s.join(" ")));
        }
    }

    let scale = if thorough { 25 } else { 1 };

    // 3. random dense, n <= 10
    for k in 0..400 * scale {
        let n = 1 + rng.below(10) as usize;
        let v: Vec<f64> = match k % 4 {
            0 => (0..n * n).map(|_| rng.uniform(-1.0, 1.0)).collect(),
            1 => (0..n * n).map(|_| rng.dyadic(64, 6)).collect(),
            2 => int_mat(&mut rng, n, -2, 2),
            _ => (0..n * n).map(|_| rng.uniform(-1.0, 1.0) * 2f64.powi(rng.range(-8, 8) as i32)).collect(),
        };
        let kind = if k % 4 == 2 { KINDS[k % 5] } else { FKINDS[k % 3] };
        both(emit, kind, n, &v);
    }

    // 4. vanishing leading minors: A = L0*U0 in small integers (every operation of the plain algorithm up to
    // the zero pivot is exact), U0[z][z] = 0; z = n-1 gives a singular matrix that plain LU *does* factor
    for k in 0..150 * scale {
        let n = 2 + rng.below(6) as usize;
        let z = rng.below(n as u64) as usize;
        let mut l0 = vec![0.0; n * n];
        let mut u0 = vec![0.0; n * n];
        for i in 0..n {
            for j in 0..n {
                if i == j {
                    l0[i * n + j] = 1.0;
                    u0[i * n + j] = if i == z { 0.0 } else { *rng.pick(&[-3.0, -2.0, -1.0, 1.0, 2.0, 3.0]) };
                } else if i > j {
                    l0[i * n + j] = rng.range(-2, 2) as f64;
                } else {
                    u0[i * n + j] = rng.range(-3, 3) as f64;
                }
            }
        }
        let a = matmul(n, &l0, &u0);
        both(emit, KINDS[k % 5], n, &a);
        // the same with the rows reversed: usually needs every swap
        let mut b = a.clone();
        for i in 0..n {
            for j in 0..n {
                b[i * n + j] = a[(n - 1 - i) * n + j];
            }
        }
        both(emit, KINDS[(k + 1) % 5], n, &b);
    }
    // 4b. the same with pivots p for which p * (1/p) != 1 in binary64 (49, 98, 103, 107, ...: a multiplier formed as
    // numerator * reciprocal instead of a division leaves a rounding residue where the exact pivot is 0 — seed C09-s5),
    // pivots up to 1000, exactly proportional leading rows (L0 entry 1 or 2 under the first pivot)
    {
        let odd: Vec<f64> = (2..=1000u32).map(|a| a as f64).filter(|a| a * (1.0 / a) != 1.0).collect();
        for k in 0..80 * scale {
            let n = 2 + rng.below(5) as usize;
            let z = 1 + rng.below(n as u64 - 1) as usize;
            let mut l0 = vec![0.0; n * n];
            let mut u0 = vec![0.0; n * n];
            for i in 0..n {
                for j in 0..n {
                    if i == j {
                        l0[i * n + j] = 1.0;
                        let p = if rng.chance(2, 3) { *rng.pick(&odd) } else { rng.range(2, 1000) as f64 };
                        u0[i * n + j] = if i == z { 0.0 } else if rng.chance(1, 2) { p } else { -p };
                    } else if i > j {
                        l0[i * n + j] = if j + 1 == i && rng.chance(1, 2) { *rng.pick(&[1.0, 2.0]) } else { rng.range(-3, 3) as f64 };
                    } else {
                        u0[i * n + j] = rng.range(-9, 9) as f64;
                    }
                }
            }
            let a = matmul(n, &l0, &u0);
            both(emit, KINDS[k % 5], n, &a);
        }
    }
    // zero in the corner, otherwise dense integers
    for k in 0..60 * scale {
        let n = 2 + rng.below(9) as usize;
        let mut v = int_mat(&mut rng, n, -9, 9);
        v[0] = 0.0;
        both(emit, KINDS[k % 5], n, &v);
    }

    // 5. permutation-heavy: scaled permutation matrices plus noise; ties in the pivot column
    for k in 0..300 * scale {
        let n = 1 + rng.below(10) as usize;
        let p = shuffle(&mut rng, n);
        let mut v = vec![0.0; n * n];
        let noise = [0.0, 2f64.powi(-30), 2f64.powi(-10), 0.125][k % 4];
        for i in 0..n {
            for j in 0..n {
                v[i * n + j] = if p[i] == j {
                    let s = *rng.pick(&[0.5, 1.0, 2.0, 1.5, 3.0]);
                    if rng.chance(1, 2) { -s } else { s }
                } else if noise == 0.0 {
                    0.0
                } else {
                    rng.uniform(-noise, noise) / n as f64
                };
            }
        }
        both(emit, FKINDS[k % 3], n, &v);
    }
    for k in 0..100 * scale {
        // entries ±1 (and a few zeros): every pivot search meets ties, first maximum must win
        let n = 2 + rng.below(7) as usize;
        let v: Vec<f64> = (0..n * n).map(|_| *rng.pick(&[-1.0, 1.0, 1.0, -1.0, 0.0])).collect();
        both(emit, KINDS[k % 5], n, &v);
    }

    // 6. row-scaled
    for k in 0..200 * scale {
        let n = 2 + rng.below(9) as usize;
        let mut v: Vec<f64> = (0..n * n).map(|_| rng.uniform(-1.0, 1.0)).collect();
        for i in 0..n {
            let s = 2f64.powi(rng.range(-20, 20) as i32);
            for j in 0..n {
                v[i * n + j] *= s;
            }
        }
        both(emit, FKINDS[k % 3], n, &v);
    }

    // 7. rank-deficient: zero row, zero column, repeated row, integer products of thin factors
    for k in 0..300 * scale {
        let n = 2 + rng.below(9) as usize;
        let mut v: Vec<f64> = if k % 2 == 0 {
            int_mat(&mut rng, n, -5, 5)
        } else {
            (0..n * n).map(|_| rng.uniform(-1.0, 1.0)).collect()
        };
        let r = rng.below(n as u64) as usize;
        match k % 5 {
            0 => (0..n).for_each(|j| v[r * n + j] = 0.0),
            1 => (0..n).for_each(|i| v[i * n + r] = 0.0),
            2 | 3 => {
                let q = (r + 1 + rng.below(n as u64 - 1) as usize) % n;
                for j in 0..n {
                    v[q * n + j] = v[r * n + j];
                }
            }
            _ => {
                let rk = 1 + rng.below(n as u64 - 1) as usize;
                let b: Vec<f64> = (0..n * rk).map(|_| rng.range(-2, 2) as f64).collect();
                let c: Vec<f64> = (0..rk * n).map(|_| rng.range(-2, 2) as f64).collect();
                for i in 0..n {
                    for j in 0..n {
                        v[i * n + j] = (0..rk).map(|t| b[i * rk + t] * c[t * n + j]).sum();
                    }
                }
            }
        }
        let ints = v.iter().all(|x| x.fract() == 0.0);
        both(emit, if ints { KINDS[k % 5] } else { FKINDS[k % 3] }, n, &v);
    }

    // 8. diagonally dominant (must be factored by both)
    for k in 0..150 * scale {
        let n = 1 + rng.below(10) as usize;
        let mut v: Vec<f64> = (0..n * n).map(|_| rng.uniform(-1.0, 1.0)).collect();
        for i in 0..n {
            let off: f64 = (0..n).filter(|&j| j != i).map(|j| if k % 2 == 0 { v[i * n + j].abs() } else { v[j * n + i].abs() }).sum();
            let d = off + rng.uniform(0.5, 2.0);
            v[i * n + i] = if rng.chance(1, 2) { -d } else { d };
        }
        both(emit, FKINDS[k % 3], n, &v);
    }

    // 9. non-square shapes, every container kind; jagged nested vectors
    for h in 0..=4usize {
        for w in 0..=4usize {
            if h == w {
                continue;
            }
            for kind in KINDS {
                let v: Vec<f64> = (0..h * w).map(|_| rng.range(-2, 2) as f64).collect();
                emit_mat(emit, "lu", kind, h, w, &v);
                emit_mat(emit, "plu", kind, h, w, &v);
            }
        }
    }
    for (h, w) in [(10usize, 9usize), (9, 10), (1, 10), (10, 1), (7, 3)] {
        let v: Vec<f64> = (0..h * w).map(|_| rng.uniform(-1.0, 1.0)).collect();
        emit_mat(emit, "lu", "ra", h, w, &v);
        emit_mat(emit, "plu", "vv", h, w, &v);
    }
    for k in 0..40 * scale {
        let r = 1 + rng.below(4) as usize;
        let w = 1 + rng.below(4) as usize;
        let mut s = format!("{r}");
        for i in 0..r {
            let len = if i > 0 && rng.chance(1, 3) { rng.below(5) as usize } else { w };
            let row: Vec<f64> = (0..len).map(|_| rng.range(-2, 2) as f64).collect();
            s.push(' ');
            s.push_str(&req_vec_f(&row));
        }
        let kind = if k % 2 == 0 { "vvj" } else { "rvvj" };
        emit(format!("lu {kind} {s}"));
        emit(format!("plu {kind} {s}"));
    }
    // ragged rows whose lengths add up to rows x len(first row) (a length check on the flattened data alone would
    // re-cut them into a grid): every composition of the total for 2..4 rows of first-row length 1..4
    for r in 2..=4usize {
        for w in 1..=4usize {
            let total = r * w;
            // remaining rows share total - w
            let rest = total - w;
            let mut lens_list: Vec<Vec<usize>> = Vec::new();
            fn comps(left: usize, rows: usize, cur: &mut Vec<usize>, out: &mut Vec<Vec<usize>>) {
                if rows == 1 {
                    cur.push(left);
                    out.push(cur.clone());
                    cur.pop();
                    return;
                }
                for a in 0..=left {
                    cur.push(a);
                    comps(left - a, rows - 1, cur, out);
                    cur.pop();
                }
            }
            comps(rest, r - 1, &mut vec![], &mut lens_list);
            for (j, rest_lens) in lens_list.iter().enumerate() {
                if rest_lens.iter().all(|l| *l == w) {
                    continue; // the rectangular one
                }
                // keep the quick tier small: every composition for r <= 3, a sample for r = 4
                if r == 4 && scale == 1 && j % 7 != 0 {
                    continue;
                }
                let mut s = format!("{r}");
                let mut lens = vec![w];
                lens.extend(rest_lens.iter().copied());
                for len in lens {
                    let row: Vec<f64> = (0..len).map(|_| rng.range(1, 5) as f64).collect();
                    s.push(' ');
                    s.push_str(&req_vec_f(&row));
                }
                let kind = if j % 2 == 0 { "vvj" } else { "rvvj" };
                emit(format!("lu {kind} {s}"));
                emit(format!("plu {kind} {s}"));
            }
        }
    }
    harden(&mut rng, thorough, emit);
}

// ------------------------------------------------------------------------------------------------
// families added after the seeded-change rounds (scale, size, zeros/signs/ties, rare paths, NaN)

/// a container kind that can hold these values, rotating with `k` over all that can
fn kind_for(v: &[f64], k: usize) -> &'static str {
    let mut kinds: Vec<&'static str> = FKINDS.to_vec();
    if fits_i32(v) {
        kinds.extend(["rai", "rvi"]);
    }
    if fits_f32(v) {
        kinds.extend(["ras", "rvs"]);
    }
    if fits_u8(v) {
        kinds.extend(["rau", "rvu"]);
    }
    kinds[k % kinds.len()]
}

fn dense(rng: &mut Rng, n: usize) -> Vec<f64> {
    (0..n * n).map(|_| rng.uniform(-1.0, 1.0)).collect()
}

fn sgn(rng: &mut Rng) -> f64 {
    if rng.chance(1, 2) { -1.0 } else { 1.0 }
}

fn p2(e: i64) -> f64 {
    // exact for every exponent: `powi` computes the positive power first, so it gives 0 below 2^-1023
    let e = e as i32;
    if e > 1023 {
        f64::INFINITY
    } else if e >= -1022 {
        f64::from_bits(((e + 1023) as u64) << 52)
    } else if e >= -1074 {
        f64::from_bits(1u64 << (e + 1074))
    } else {
        0.0
    }
}

fn shuffle_rows(rng: &mut Rng, n: usize, v: &mut [f64]) {
    for i in (1..n).rev() {
        let j = rng.below(i as u64 + 1) as usize;
        for c in 0..n {
            v.swap(i * n + c, j * n + c);
        }
    }
}

/// `L0 U0` in small integers (every operation of the plain algorithm is exact); `U0[z][z] = 0` when `z < n`
fn int_product(rng: &mut Rng, n: usize, z: usize) -> Vec<f64> {
    let mut l0 = vec![0.0; n * n];
    let mut u0 = vec![0.0; n * n];
    for i in 0..n {
        for j in 0..n {
            if i == j {
                l0[i * n + j] = 1.0;
                u0[i * n + j] = if i == z { 0.0 } else { *rng.pick(&[-2.0, -1.0, 1.0, 2.0, 3.0]) };
            } else if i > j {
                l0[i * n + j] = rng.range(-1, 1) as f64;
            } else {
                u0[i * n + j] = rng.range(-2, 2) as f64;
            }
        }
    }
    matmul(n, &l0, &u0)
}

fn harden(rng: &mut Rng, thorough: bool, emit: &mut dyn FnMut(String)) {
    let reps = if thorough { 20 } else { 1 };

    // ---- RARE PATHS: nested vectors of EVERY row-length tuple 0..4 for 2..4 rows (owned and borrowed)
    for r in 2..=4usize {
        let mut lens = vec![0usize; r];
        let mut k = 0usize;
        loop {
            let mut s = format!("{r}");
            for l in &lens {
                let row: Vec<f64> = (0..*l).map(|_| rng.range(1, 5) as f64).collect();
                s.push(' ');
                s.push_str(&req_vec_f(&row));
            }
            let kind = if k % 2 == 0 { "vvj" } else { "rvvj" };
            k += 1;
            emit(format!("lu {kind} {s}"));
            emit(format!("plu {kind} {s}"));
            let mut i = 0;
            while i < r {
                lens[i] += 1;
                if lens[i] <= 4 {
                    break;
                }
                lens[i] = 0;
                i += 1;
            }
            if i == r {
                break;
            }
        }
    }
    // every element type: f32 and u8 containers (dyadic / byte matrices), all orders up to 10
    for k in 0..160 * reps {
        let n = 1 + rng.below(10) as usize;
        let v: Vec<f64> = if k % 2 == 0 {
            (0..n * n).map(|_| rng.dyadic(64, 6)).collect()
        } else {
            (0..n * n).map(|_| if rng.chance(1, 4) { rng.range(0, 255) } else { rng.range(0, 4) } as f64).collect()
        };
        let kind = if k % 2 == 0 { ["ras", "rvs"][k / 2 % 2] } else { ["rau", "rvu"][k / 2 % 2] };
        both(emit, kind, n, &v);
    }

    // ---- SIZE: every order 11..=40 once (48, 64 in the thorough tier): dense, diagonally dominant, and integer
    // products with a vanishing leading minor somewhere (exact at every order)
    for n in (11..=40usize).chain([48, 64]) {
        if n > 40 && !thorough {
            continue;
        }
        let mut v = dense(rng, n);
        if n % 2 == 0 {
            for i in 0..n {
                let off: f64 = (0..n).filter(|&j| j != i).map(|j| v[i * n + j].abs()).sum();
                v[i * n + i] = (off + rng.uniform(0.5, 2.0)) * sgn(rng);
            }
        }
        both(emit, FKINDS[n % 3], n, &v);
        let z = if n % 3 == 0 { n } else { rng.below(n as u64) as usize };
        let a = int_product(rng, n, z);
        both(emit, kind_for(&a, n), n, &a);
    }

    for (h, w) in [(17usize, 16usize), (16, 17), (40, 39), (39, 40), (1, 40), (40, 1)] {
        let v: Vec<f64> = (0..h * w).map(|_| rng.uniform(-1.0, 1.0)).collect();
        emit_mat(emit, "lu", FKINDS[h % 3], h, w, &v);
        emit_mat(emit, "plu", FKINDS[w % 3], h, w, &v);
    }

    // ---- SCALE
    for k in 0..500 * reps {
        let n = 1 + rng.below(10) as usize;
        let mut v = dense(rng, n);
        if k % 4 == 0 {
            // diagonally dominant by rows: plain LU has to succeed whatever the scaling below does to the magnitudes
            for i in 0..n {
                let off: f64 = (0..n).filter(|&j| j != i).map(|j| v[i * n + j].abs()).sum();
                v[i * n + i] = (off + rng.uniform(0.5, 2.0)) * sgn(rng);
            }
        }
        match k % 8 {
            // the whole matrix at magnitude 2^e: e = -70..60, and around the absolute pivot threshold 2^-52
            0 => {
                let e = rng.range(-70, 60);
                v.iter_mut().for_each(|x| *x *= p2(e));
            }
            1 => {
                let e = rng.range(-56, -46);
                v.iter_mut().for_each(|x| *x *= p2(e));
            }
            // rows / columns / both scaled by 2^-60..2^60
            2 | 3 | 4 => {
                for i in 0..n {
                    let (sr, sc) = (p2(rng.range(-60, 60)), p2(rng.range(-60, 60)));
                    for j in 0..n {
                        if k % 8 != 3 {
                            v[i * n + j] *= sr;
                        }
                        if k % 8 != 2 {
                            v[j * n + i] *= sc;
                        }
                    }
                }
            }
            // one huge row or column (2^40 .. 2^60, i.e. 1e12 .. 1e18), the rest of order 1
            5 => {
                let t = rng.below(n as u64) as usize;
                let s = p2(rng.range(40, 60));
                for j in 0..n {
                    if k % 16 < 8 {
                        v[t * n + j] *= s;
                    } else {
                        v[j * n + t] *= s;
                    }
                }
            }
            // single entries 2^-60 .. 2^-20 below the rest: an absolute "negligible entry" test
            6 => {
                for x in v.iter_mut() {
                    if rng.chance(1, 3) {
                        *x *= p2(-rng.range(20, 60));
                    }
                }
            }
            // the whole matrix huge: 2^60 .. 2^300
            _ => {
                let e = rng.range(60, 300);
                v.iter_mut().for_each(|x| *x *= p2(e));
            }
        }
        both(emit, FKINDS[k % 3], n, &v);
    }
    // graded columns: the part of a column below the diagonal is 10^-t (t = 1..17) of its head, or exactly zero
    // (already reduced); with the rows in order and shuffled
    for k in 0..170 * reps {
        let n = 2 + rng.below(9) as usize;
        let t = (k % 17 + 1) as i32;
        let mut v = dense(rng, n);
        for j in 0..n {
            let mode = rng.below(3);
            for i in j + 1..n {
                match mode {
                    0 => v[i * n + j] *= 10f64.powi(-t),
                    1 => v[i * n + j] = if rng.chance(1, 2) { 0.0 } else { -0.0 },
                    _ => {}
                }
            }
            v[j * n + j] = rng.uniform(0.5, 1.0) * sgn(rng);
        }
        if k % 2 == 1 {
            shuffle_rows(rng, n, &mut v);
        }
        if k % 5 == 0 {
            let e = rng.range(10, 60);
            v.iter_mut().for_each(|x| *x *= p2(e));
        }
        both(emit, FKINDS[k % 3], n, &v);
    }
    // the last pivot at every relative distance 10^-1 .. 10^-17 above and below the absolute threshold EPSILON, and a
    // small last pivot d = 10^-1 .. 10^-17 in a matrix of order-1 entries
    for k in 0..136 * reps {
        let n = 1 + rng.below(4) as usize;
        let t = (k % 17 + 1) as i32;
        let d = if k % 4 < 2 { f64::EPSILON * (1.0 + sgn(rng) * 10f64.powi(-t)) } else { 10f64.powi(-t) } * sgn(rng);
        let mut l0 = vec![0.0; n * n];
        let mut u0 = vec![0.0; n * n];
        for i in 0..n {
            for j in 0..n {
                if i == j {
                    l0[i * n + j] = 1.0;
                    u0[i * n + j] = if i == n - 1 { d } else { *rng.pick(&[-2.0, -1.0, 1.0, 2.0]) };
                } else if i > j {
                    l0[i * n + j] = rng.range(-1, 1) as f64 * 0.5;
                } else {
                    u0[i * n + j] = rng.range(-2, 2) as f64;
                }
            }
        }
        let a = matmul(n, &l0, &u0);
        both(emit, FKINDS[k % 3], n, &a);
    }
    // subnormal and near-overflow matrices (outside the oracle's rounding model: compared with the model only)
    for k in 0..30 * reps {
        let n = 1 + rng.below(4) as usize;
        let e = if k % 2 == 0 { -rng.range(1000, 1070) } else { rng.range(900, 1020) };
        let v: Vec<f64> = dense(rng, n).iter().map(|x| x * p2(e)).collect();
        both(emit, FKINDS[k % 3], n, &v);
    }

    // ---- ZEROS / SIGNS / TIES
    for k in 0..400 * reps {
        let n = 1 + rng.below(9) as usize;
        let mut v = dense(rng, n);
        match k % 10 {
            // every entry negative
            0 => v.iter_mut().for_each(|x| *x = -x.abs() - 0.01),
            // in every column the entry of largest magnitude is negative and the others are small and positive
            // (a pivot search without the absolute value takes a small positive one: multipliers above 1)
            1 | 2 => {
                let mut p: Vec<usize> = (0..n).collect();
                for i in (1..n).rev() {
                    let j = rng.below(i as u64 + 1) as usize;
                    p.swap(i, j);
                }
                for j in 0..n {
                    for i in 0..n {
                        v[i * n + j] = if p[j] == i { -rng.uniform(2.0, 4.0) } else { rng.uniform(0.01, 0.4) / n as f64 };
                    }
                }
            }
            // integers: negative dominant column entries, zero otherwise the maximum of the column
            3 => {
                for j in 0..n {
                    let i0 = rng.below(n as u64) as usize;
                    for i in 0..n {
                        v[i * n + j] = if i == i0 { -rng.range(2, 9) as f64 } else if rng.chance(1, 2) { 0.0 } else { rng.range(-1, 1) as f64 };
                    }
                }
            }
            // upper triangular, lower triangular, diagonal (with signed zeros)
            4 => (0..n * n).for_each(|t| if t / n > t % n { v[t] = 0.0 }),
            5 => (0..n * n).for_each(|t| if t / n < t % n { v[t] = 0.0 }),
            6 => (0..n * n).for_each(|t| if t / n != t % n { v[t] = if t % 2 == 0 { 0.0 } else { -0.0 } }),
            // a zero diagonal entry that only pivoting can repair; zero leading entry
            7 => {
                let t = rng.below(n as u64) as usize;
                v[t * n + t] = 0.0;
            }
            // zero first column below the first row
            8 => (1..n).for_each(|i| v[i * n] = 0.0),
            // exact ties in every pivot column: +-1 and +-1/2 only
            _ => v.iter_mut().for_each(|x| *x = if x.abs() < 0.5 { 0.5 } else { 1.0 } * x.signum()),
        }
        if (4..=6).contains(&(k % 10)) && rng.chance(1, 2) {
            shuffle_rows(rng, n, &mut v);
        }
        both(emit, kind_for(&v, k), n, &v);
    }
    // near ties in the pivot column: candidates 1 +- 10^-t (t = 1..17) of each other, the largest not first
    for k in 0..170 * reps {
        let n = 2 + rng.below(7) as usize;
        let d = 10f64.powi(-((k % 17) as i32 + 1));
        let mut v = dense(rng, n);
        for j in 0..n {
            for i in 0..n {
                if rng.chance(2, 3) {
                    v[i * n + j] = (1.0 + d * rng.range(-2, 2) as f64) * sgn(rng);
                }
            }
        }
        both(emit, FKINDS[k % 3], n, &v);
    }

    // ---- NaN / infinities in the input (correspondence only)
    for k in 0..60 * reps {
        let n = 1 + rng.below(4) as usize;
        let mut v = dense(rng, n);
        let t = rng.below((n * n) as u64) as usize;
        v[t] = [f64::NAN, f64::INFINITY, f64::NEG_INFINITY, 1e308, -1.7e308, 5e-324][k % 6];
        both(emit, FKINDS[k % 3], n, &v);
    }
    mixed_extremes(rng, thorough, emit);
    block_boundaries(rng, thorough, emit);
    resonant(rng, thorough, emit);
}

/// MIXED EXTREMES INSIDE ONE OBJECT (fourth seeded round): entries near the bottom of the range (subnormal, down to the
/// last bit 2^-1074) and near the top (2^900 .. 2^1020) in the SAME matrix, placed so that their product is an ordinary
/// number: `[[P, H], [E, D]]` with an ordinary diagonally dominant block `P` (magnitude 2^-6 .. 2^6), `q x m` huge entries `H`
/// in the rows of `P`, `m x q` tiny entries `E` below `P`, and `D` of the magnitude of `E P^-1 H` times 2^delta, delta =
/// 0 .. 20: the elimination multiplies a tiny multiplier `e / p` by a huge pivot-row entry and subtracts an ordinary number
/// from an ordinary number, and every pivot stays far above EPSILON.  Orders 2..6, 1..n-1 tiny rows, rows in order (plain
/// LU factors them too) or shuffled, exact zeros among the tiny entries, real and small-dyadic units, all three f64
/// container kinds; the same with the tiny entries in the normal range (2^-1022 .. 2^-60) and huge ones to match.  The
/// reconstruction clause is judged exactly (with the underflow allowance) by both oracles.
fn mixed_extremes(rng: &mut Rng, thorough: bool, emit: &mut dyn FnMut(String)) {
    let reps = if thorough { 10 } else { 1 };
    let unit = |rng: &mut Rng, exact: bool| -> f64 {
        if exact { *rng.pick(&[1.0, -1.0, 0.5, -0.5, 1.5, -1.5, 0.75, 1.25]) } else { rng.uniform(0.5, 1.0) * sgn(rng) }
    };
    for k in 0..300 * reps {
        let n = 2 + k % 5;
        let m = 1 + rng.below(n as u64 - 1) as usize;
        let q = n - m;
        let exact = k % 4 == 3;
        let e_eps = match k % 6 {
            0 | 1 => -rng.range(1023, 1040),
            2 | 3 => -rng.range(1040, 1074),
            4 => -rng.range(960, 1022),
            _ => -rng.range(60, 960),
        };
        let delta = if rng.chance(1, 4) { rng.range(0, 20) } else { rng.range(0, 6) };
        let e_p = rng.range(-6, 6);
        // e_d = e_eps + e_h - e_p + delta within -44 .. 30, e_h <= 1020 (and >= 900 whenever the tiny side allows it)
        let e_d_hi = (1020 + e_eps - e_p + delta).min(30);
        let e_d = rng.range((-44i64).min(e_d_hi), e_d_hi);
        let e_h = e_d - e_eps + e_p - delta;
        let mut v = vec![0.0; n * n];
        for i in 0..q {
            let mut off = 0.0;
            for j in 0..q {
                if i != j {
                    let x = if exact { rng.range(-2, 2) as f64 * 0.5 } else { rng.uniform(-1.0, 1.0) };
                    v[i * n + j] = x * p2(e_p);
                    off += x.abs();
                }
            }
            let d = if exact { off.max(1.0) + 1.0 } else { off + rng.uniform(0.5, 1.0) };
            v[i * n + i] = d * sgn(rng) * p2(e_p);
            for j in q..n {
                v[i * n + j] = if rng.chance(1, 6) && m * q > 1 { 0.0 } else { unit(rng, exact) * p2(e_h) };
            }
        }
        let mut any = false;
        for i in q..n {
            for j in 0..q {
                let x = if rng.chance(1, 4) { 0.0 } else { unit(rng, exact) * p2(e_eps) };
                any |= x != 0.0;
                v[i * n + j] = x;
            }
            for j in q..n {
                v[i * n + j] = if i == j { (2 * n) as f64 * sgn(rng) } else { unit(rng, exact) } * p2(e_d);
            }
        }
        if !any {
            v[q * n] = p2(e_eps);
        }
        if (0..q).all(|i| (q..n).all(|j| v[i * n + j] == 0.0)) {
            v[q] = p2(e_h);
        }
        if k % 3 == 2 {
            shuffle_rows(rng, n, &mut v);
        }
        both(emit, FKINDS[k % 3], n, &v);
    }
    // the smallest instances, spelled out: [[1, c h], [e, d]] and the 3 x 3 with an ordinary row in between, every tiny
    // exponent -1022 .. -1074, rows in order and exchanged
    for t in 0..=52i64 {
        let e_eps = -1022 - t;
        for (c, delta) in [(1.0, 1i64), (-1.5, 0), (0.75, 4)] {
            let e_h = 1020 - t / 8;
            let e_d = (e_eps + e_h + delta).max(-44);
            let v = [1.0, c * p2(e_h), p2(e_eps), 2.0 * p2(e_d)];
            both(emit, FKINDS[(t as usize) % 3], 2, &v);
            emit_mat(emit, "plu", FKINDS[(t as usize + 1) % 3], 2, 2, &[v[2], v[3], v[0], v[1]]);
            let w = [2.0, 0.5, c * p2(e_h), 0.25, 1.0, 0.0, p2(e_eps), -p2(e_eps), 2.0 * p2(e_d)];
            both(emit, FKINDS[(t as usize + 2) % 3], 3, &w);
        }
    }
    // decimal spellings around the bottom of the normal range (2.2250738585072014e-308) and the top
    for (k, (e, h, d)) in [(2e-308, 1e300, 4e-8), (2.3e-308, 1e300, 4e-8), (1.5e-308, 3e299, 1e-8), (1e-310, 1e302, 1e-5), (5e-309, 1.5e300, 1e-7), (5e-324, 1e307, 1e-15), (1e-300, 1e292, 2e-8), (1e-200, 1e192, 2e-8)]
        .into_iter()
        .enumerate()
    {
        both(emit, FKINDS[k % 3], 2, &[1.0, h, e, d]);
        both(emit, FKINDS[(k + 1) % 3], 3, &[1.0, 0.0, h, 0.0, 2.0, -h, e, -e, d]);
    }
}

/// BLOCK BOUNDARIES (sixth seeded round, category O): a blocked / panelled / unrolled factorisation, pivot search, row swap
/// or L/U split changes behaviour exactly when the order passes 16, 32, 64, 128, 256: every order blk-1, blk, blk+1, blk+2,
/// 2 blk+1 (up to order 66 in the quick tier, up to 258 in the thorough tier) with
/// non-constant, NON-symmetric data: exact small-integer row-dominant matrices (lu and plu), the same with shuffled rows
/// scaled by powers of two (plu: a row exchange at nearly every step, across blocks), real dense matrices, and exact integer
/// products L0 U0 whose leading minor vanishes exactly AT the block boundary (lu must refuse; plu decides by its pivots).
/// Judged by the exact reconstruction / shape / multiplier clauses of `check_factors`.
fn block_boundaries(rng: &mut Rng, thorough: bool, emit: &mut dyn FnMut(String)) {
    for &blk in &[16usize, 32, 64, 128, 256] {
        for n in [blk - 1, blk, blk + 1, blk + 2, 2 * blk + 1] {
            if n > 258 || (n > 66 && !thorough) {
                continue;
            }
            let mut v = int_mat(rng, n, -2, 2);
            for i in 0..n {
                let off: f64 = (0..n).filter(|&j| j != i).map(|j| v[i * n + j].abs()).sum();
                v[i * n + i] = (off + 1.0 + rng.below(3) as f64) * sgn(rng);
            }
            both(emit, kind_for(&v, n), n, &v);
            let mut w = v.clone();
            shuffle_rows(rng, n, &mut w);
            for i in 0..n {
                let s = p2(rng.range(-6, 6));
                for j in 0..n {
                    w[i * n + j] *= s;
                }
            }
            emit_mat(emit, "plu", kind_for(&w, n + 1), n, n, &w);
            let d = dense(rng, n);
            both(emit, FKINDS[n % 3], n, &d);
            for z in [blk.min(n - 1), blk - 1, n] {
                let a = int_product(rng, n, z);
                both(emit, kind_for(&a, n + z), n, &a);
            }
        }
    }
}

/// RESONANT / EXACT-RELATION DATA (sixth seeded round, category P): A = (P) L0 U0 with multipliers exactly +-1, +-1/2, 0 and
/// exact zeros in U0, so that every update a_ij - l_ik u_kj is exact and many cancel to exactly 0 (also on the diagonal: an
/// exactly vanishing pivot); column-maximum TIES (|l| = 1) at every step; a last pivot exactly equal to EPSILON (the pivot
/// test is `<`), one ulp below / above it; and each of these relations missed by one ulp, 2^-50, 2^-40, 2^-30 relative in
/// one entry.
fn resonant(rng: &mut Rng, thorough: bool, emit: &mut dyn FnMut(String)) {
    let reps = if thorough { 10 } else { 1 };
    for k in 0..500 * reps {
        let n = rng.range(2, 8) as usize;
        let mut l0 = vec![0.0; n * n];
        let mut u0 = vec![0.0; n * n];
        for i in 0..n {
            for j in 0..n {
                if i == j {
                    l0[i * n + j] = 1.0;
                    u0[i * n + j] = *rng.pick(&[-4.0, -2.0, -1.0, 1.0, 2.0, 4.0]);
                } else if i > j {
                    l0[i * n + j] = *rng.pick(&[-1.0, 1.0, 0.0, -1.0, 1.0, 0.5, -0.5]);
                } else {
                    u0[i * n + j] = if rng.chance(1, 3) { 0.0 } else { rng.range(-3, 3) as f64 };
                }
            }
        }
        if k % 6 == 5 {
            let z = if rng.chance(1, 2) { n - 1 } else { rng.below(n as u64) as usize };
            u0[z * n + z] = 0.0;
        }
        if k % 7 == 3 {
            // last pivot exactly EPSILON, or one ulp off
            u0[n * n - 1] = f64::EPSILON * *rng.pick(&[1.0, 1.0 + f64::EPSILON, 1.0 - f64::EPSILON / 2.0, -1.0]);
        }
        let mut v = matmul(n, &l0, &u0);
        if k % 2 == 1 {
            shuffle_rows(rng, n, &mut v);
        }
        if k % 5 == 1 {
            let t = rng.below((n * n) as u64) as usize;
            let d = *rng.pick(&[f64::EPSILON, -f64::EPSILON / 2.0, p2(-50), -p2(-40), p2(-40), p2(-30), -p2(-45)]);
            v[t] = if v[t] == 0.0 { d } else { v[t] * (1.0 + d) };
        }
        if k % 5 == 3 {
            let s = p2(rng.range(-40, 40));
            for x in v.iter_mut() {
                *x *= s;
            }
        }
        both(emit, kind_for(&v, k), n, &v);
    }
}
