//! C04 — indefinite integrals are antiderivatives; the analytical definite integral is F(b) − F(a).
//!
//! Requests (lean/SV/Model/C04.lean): the shared `integ` / `pinteg` / `chain` of polyops.rs, `chainm`
//! and the `txt <text>` prefix of c03.rs, plus
//!
//!     analytical <poly> <a> <b>        → ok f… | err Kind
//!     additive   <poly> <a> <c> <b>    → I(a,c) | I(c,b) | I(a,b)
//!     swap       <poly> <a> <b>        → I(a,b) | I(b,a)
//!
//! all through `spindalis_core::integrals::analytical_integral` on both polynomial types.  The
//! polynomials come out of the real parsers (text generators of c03.rs).  The oracles are exact
//! rationals in tools/props/c04.py; the verdicts produced here are "the operation panicked" and the
//! agreement of the duplicated entry points (free functions against trait methods) on every step.
use crate::c03::{self, gen_inter_text, gen_simple_text, parse_inter, parse_simple, pick_var, poly_names, strip_txt};
use crate::polyio::*;
use crate::util::*;
use spindalis_core::integrals::intermediate_indefinite::indefinite_integral_intermediate;
use spindalis_core::integrals::simple_indefinite::indefinite_integral_simple;
use spindalis_core::integrals::{IntegralError, analytical_integral};

fn show_integral(r: Result<f64, IntegralError>) -> String {
    match r {
        Ok(v) => format!("ok {}", fbits(v)),
        Err(IntegralError::FunctionError(e)) => format!("err {}", err_kind(&e)),
        Err(IntegralError::MaxIterationsReached) => "err MaxIterationsReached".to_string(),
    }
}

pub fn analytical(p: &AnyPoly, a: f64, b: f64) -> String {
    show_integral(with_poly!(p, q => analytical_integral(q, a, b)))
}

/// the free functions `indefinite_integral_simple` / `indefinite_integral_intermediate` (owned and borrowed variable
/// name, slice and Deref forms) and the trait methods duplicate each other: the result `res` of an integration step
/// must be what the free function gives
pub fn integ_agrees(src: &AnyPoly, s: &c03::Step, res: &AnyPoly) -> Result<(), String> {
    use c03::Step;
    match (src, s, res) {
        (AnyPoly::S(q), Step::I, AnyPoly::S(r)) => {
            let f = catch(|| indefinite_integral_simple(q)).ok_or("indefinite_integral_simple panicked")?;
            if !c03::same_coeffs(&f.coefficients, &r.coefficients) || f.variable != r.variable {
                return Err("indefinite_integral_univariate differs from indefinite_integral_simple on the same polynomial".into());
            }
        }
        (AnyPoly::S(q), Step::JV(v), AnyPoly::S(r)) => {
            if v.chars().next() == q.variable {
                let f = catch(|| indefinite_integral_simple(q)).ok_or("indefinite_integral_simple panicked")?;
                if !c03::same_coeffs(&f.coefficients, &r.coefficients) || f.variable != r.variable {
                    return Err(format!("indefinite_integral_multivariate({v:?}) differs from indefinite_integral_simple"));
                }
            }
        }
        (AnyPoly::I(q), Step::I, AnyPoly::I(r)) => {
            let var = q.variables.first().cloned().unwrap_or_else(|| "x".to_string());
            let f = catch(|| indefinite_integral_intermediate(&q.terms, &var)).ok_or("indefinite_integral_intermediate panicked")?;
            if !c03::same_terms(&f.terms, &r.terms) || f.variables != r.variables {
                return Err(format!("indefinite_integral_univariate differs from indefinite_integral_intermediate(terms, {var:?})"));
            }
        }
        (AnyPoly::I(q), Step::JV(v), AnyPoly::I(r)) => {
            let f = catch(|| indefinite_integral_intermediate(&q.terms, v.as_str())).ok_or("indefinite_integral_intermediate panicked")?;
            let g = catch(|| indefinite_integral_intermediate(&**q, v.clone())).ok_or("indefinite_integral_intermediate panicked")?;
            if !c03::same_terms(&f.terms, &r.terms) || f.variables != r.variables || !c03::same_terms(&g.terms, &r.terms) || g.variables != r.variables {
                return Err(format!("indefinite_integral_multivariate({v:?}) differs from indefinite_integral_intermediate(terms, {v:?})"));
            }
        }
        _ => {}
    }
    Ok(())
}

/// replays the steps of a shared request and compares every integration step with the free functions
fn free_verdict(line: &str) -> Result<(), String> {
    use c03::Step;
    let mut t = Toks::new(line);
    let cmd = t.tok();
    let mut p = read_any(&mut t);
    let steps: Vec<Step> = match cmd {
        "integ" => vec![Step::I],
        "pinteg" => vec![Step::JV(t.string())],
        "chain" | "chainm" => {
            let k = t.usize();
            (0..k).map(|_| c03::read_step(&mut t)).collect()
        }
        _ => vec![],
    };
    for s in &steps {
        match c03::apply_step(&p, s) {
            Ok(q) => {
                match s {
                    Step::I | Step::JV(_) => integ_agrees(&p, s, &q)?,
                    _ => c03::free_agrees(&p, s, &q)?,
                }
                p = q;
            }
            Err(_) => break,
        }
    }
    Ok(())
}

fn answer(line: &str) -> (String, Result<(), String>) {
    let mut t = Toks::new(line);
    match t.tok() {
        "analytical" => {
            let p = read_any(&mut t);
            let (a, b) = (t.f64(), t.f64());
            (analytical(&p, a, b), Ok(()))
        }
        "additive" => {
            let p = read_any(&mut t);
            let (a, c, b) = (t.f64(), t.f64(), t.f64());
            (format!("{} | {} | {}", analytical(&p, a, c), analytical(&p, c, b), analytical(&p, a, b)), Ok(()))
        }
        "swap" => {
            let p = read_any(&mut t);
            let (a, b) = (t.f64(), t.f64());
            (format!("{} | {}", analytical(&p, a, b), analytical(&p, b, a)), Ok(()))
        }
        _ => {
            // shared commands (integ, pinteg, chain, chainm): C03's runner without its closure verdict, with the
            // agreement of the duplicated entry points instead
            let obs = c03::run(line).obs;
            let v = if obs == "panic" { Ok(()) } else { catch(|| free_verdict(line)).unwrap_or_else(|| Err("replaying the steps panicked".into())) };
            (obs, v)
        }
    }
}

pub fn run(line: &str) -> Obs {
    let line = strip_txt(line);
    match catch(|| answer(&line)) {
        Some((s, v)) if s != "panic" => Obs::with(s, v),
        _ => Obs::with("panic".into(), Err("the operation panicked".into())),
    }
}

// ---------------------------------------------------------------- generators

/// every exponent of the polynomial is a natural number (so every real bound is in the domain)
fn natural_exponents(p: &AnyPoly) -> bool {
    match p {
        AnyPoly::S(_) => true,
        AnyPoly::I(q) => q.terms.iter().all(|t| t.variables.iter().all(|(_, e)| *e >= 0.0 && e.fract() == 0.0)),
    }
}

fn bound(rng: &mut Rng, any: bool) -> f64 {
    // one bound in eight of an extreme magnitude (2^-70..2^-34, either sign, or 2^8..2^14): intervals far
    // narrower or wider than 1
    if rng.chance(1, 8) {
        let m = if rng.chance(2, 3) { 2f64.powi(-(rng.range(34, 70) as i32)) } else { 2f64.powi(rng.range(8, 14) as i32) };
        let m = m * rng.range(1, 3) as f64;
        return if any && rng.chance(1, 2) { -m } else { m };
    }
    if any {
        match rng.below(8) {
            0 => 0.0,
            1 => 1.0,
            2 => -1.0,
            _ => rng.dyadic(32, 3),
        }
    } else {
        rng.dyadic(30, 3).abs() + 0.25
    }
}

/// a pair of bounds: independent (as before), or one of the relations a subtle guard needs - a narrow interval away
/// from 0 (relative width 2^-1..2^-50), both bounds tiny with a tiny gap, equal, symmetric, a zero (of either sign)
fn bounds_pair(rng: &mut Rng, any: bool) -> (f64, f64) {
    let sign = |rng: &mut Rng, v: f64| if any && rng.chance(1, 3) { -v } else { v };
    let (a, b) = match rng.below(12) {
        0 | 1 => {
            let a = rng.range(1, 8) as f64 * 2f64.powi(rng.range(-40, 10) as i32);
            let b = a * (1.0 + 2f64.powi(-(rng.range(1, 50) as i32)));
            let s = sign(rng, 1.0);
            (a * s, b * s)
        }
        2 => {
            // both tiny (or both around 2^-20), gap far below f64::EPSILON in absolute terms
            let a = rng.range(0, 8) as f64 * 2f64.powi(-(rng.range(20, 80) as i32));
            let g = rng.range(1, 5) as f64 * 2f64.powi(-(rng.range(54, 100) as i32));
            let s = sign(rng, 1.0);
            let a = if !any && a == 0.0 { g } else { a };
            (a * s, (a + g) * s)
        }
        3 => {
            let a = bound(rng, any);
            (a, a)
        }
        4 if any => {
            let a = bound(rng, false);
            (-a, a)
        }
        5 if any => (if rng.chance(1, 2) { 0.0 } else { -0.0 }, bound(rng, any)),
        6 => {
            // wide: one bound small, the other large
            let lo = 2f64.powi(-(rng.range(1, 60) as i32));
            let hi = 2f64.powi(rng.range(1, 12) as i32);
            (sign(rng, lo), sign(rng, hi))
        }
        _ => (bound(rng, any), bound(rng, any)),
    };
    if rng.chance(1, 2) { (a, b) } else { (b, a) }
}

/// a split point for the additivity clause: inside, outside, on a bound, anywhere
fn split_point(rng: &mut Rng, a: f64, b: f64, any: bool) -> f64 {
    match rng.below(6) {
        0 => a,
        1 => b,
        2 => a + (b - a) * *rng.pick(&[0.5, 0.25, 0.75, 0.125]),
        3 => {
            let c = b + (b - a);
            if any || c > 0.0 { c } else { b }
        }
        _ => bound(rng, any),
    }
}

pub const FIXED_INTER: &[&str] = &[
    "xx", "5", "x^3 + x^2", "x^0", "x^1/2", "2xy", "", "0", "-x", "xx^-1", "x^2y^2 + y", "3x^2 - 2x + 1", "x + y + z",
    "-7", "1/2x^-1/2", "yx", "zyx^2", "4x^0.5 - 3", "x^1.5 + x^2.5", "2.5", "1/3x^3", "x^-2 + x^-3", "y^2", "t^2 + 1",
    "b + a", "x^-1",
    // hardening: powers next to -1 (the divisor p + 1 next to 0), powers that meet -1 / 0 after merging, case pairs,
    // extreme exponents and coefficients, many terms
    "x^-0.9999999999999999", "x^-1.0000000000000002 + x", "x^-0.999999999", "x^-1.000000001y", "x^-0.99 + x^-1.01", "x^-2x + x", "x^-1/2x^-1/2 + 2",
    "x^1/3x^2/3", "xX", "Xx^2 + x", "aA^2b", "x^300", "x^-300", "x^65536", "x^4294967296", "x^255 + x^256",
    "0.0000000000000000000000000000000000000001x^2", "1000000000000000000000000000000000000000x^3", "0x^2 + 0", "-0x",
    "x + x + x + x + x + x + x + x + x", "abcdefghij", "x^0.0000001", "x^-0 + 1",
];
pub const FIXED_SIMPLE: &[&str] =
    &[
    // the largest exponents the parser accepts (MAX_POWER = 65536) and its neighbours
    "x^65536", "3x^65535 + x", "x^65537", "2y^065536 - y^65535",
    "5", "x^3 + x^2", "x", "", "0", "-x", "3x^2 - 2x + 1", "x^0", "2.5y^4 - y + .5", "t^9", "x^2 + x^2", "7 - 7",
    // hardening: lengths around the powers of two, cancelled leading terms, extreme coefficients, other letters
    "x^255 + x^256 + x^257", "2x^15 - x^16 + x^17 + x^8 + x^9", "x^31 + x^32 + x^33 + 1", "x^64 - x^63 + x^65", "x^1000 + x",
    "x^5 - x^5", "0.0000000000000000000000000000000000000001x^3 + x", "1000000000000000000000000000000000000000x^2",
    "X^3 + X", "é^4 - é", "0x^7", "-0x^3 + x"];

fn emit_for(rng: &mut Rng, text: &str, p: &AnyPoly, emit: &mut dyn FnMut(String), all: bool) {
    let ps = req_any(p);
    let names = poly_names(p);
    let pre = format!("txt {}", req_string(text));
    let any = natural_exponents(p);
    let mut kinds: Vec<u64> = if all { vec![0, 1, 2, 3, 4, 5, 6] } else { vec![rng.below(7), rng.below(7)] };
    kinds.dedup();
    if all && ps.len() < 100_000 {
        // the fixed texts see every pair family
        kinds.extend_from_slice(&[2, 2, 3, 4, 2, 3]);
    }
    for mut kind in kinds {
        // the univariate entry points on a multivariate polynomial are only an error: keep that rare
        if names.len() > 1 && !all && matches!(kind, 0 | 2 | 3 | 4) && rng.chance(4, 5) {
            kind = if rng.chance(1, 2) { 1 } else { 6 };
        }
        match kind {
            0 => emit(format!("{pre} integ {ps}")),
            1 => {
                let v = if rng.chance(1, 4) { rng.pick(&["w", "w", "m", "A", "Z", "zz", "B"]).to_string() } else { pick_var(rng, &names) };
                emit(format!("{pre} pinteg {ps} {}", req_string(&v)))
            }
            2 => {
                let (a, b) = bounds_pair(rng, any);
                emit(format!("{pre} analytical {ps} {} {}", rbits(a), rbits(b)))
            }
            3 => {
                let (a, b) = bounds_pair(rng, any);
                let c = split_point(rng, a, b, any);
                emit(format!("{pre} additive {ps} {} {} {}", rbits(a), rbits(c), rbits(b)))
            }
            4 => {
                let (a, b) = bounds_pair(rng, any);
                emit(format!("{pre} swap {ps} {} {}", rbits(a), rbits(b)))
            }
            5 => {
                // integrate, then differentiate again through the univariate interface (and variants)
                let steps = *rng.pick(&["2 i d", "3 i i d", "3 i d d", "1 i", "2 i i"]);
                emit(format!("{pre} chain {ps} {steps} {}", rbits(bound(rng, any))))
            }
            _ => {
                // by name: ∂/∂v ∫ dv, possibly in a fresh variable
                let v = if rng.chance(1, 4) { rng.pick(&["w", "w", "m", "A", "Z", "zz", "B"]).to_string() } else { pick_var(rng, &names) };
                let vs = req_string(&v);
                let mut bound_names = names.clone();
                bound_names.push(v.clone());
                bound_names.sort();
                bound_names.dedup();
                let steps = if rng.chance(2, 3) { format!("2 J {vs} D {vs}") } else { format!("1 J {vs}") };
                let mut s = format!("{pre} chainm {ps} {steps} {}", bound_names.len());
                for b in &bound_names {
                    s.push_str(&format!(" {} {}", req_string(b), rbits(bound(rng, false))));
                }
                emit(s)
            }
        }
    }
}

pub fn generate(seed: u64, thorough: bool, emit: &mut dyn FnMut(String)) {
    // `Rng::new(s + 1)` is `Rng::new(s)` advanced by one draw; re-seeding from a mixed output makes the
    // streams of neighbouring seeds unrelated
    let mut rng = Rng::new(Rng::new(seed ^ 0xC04).next());
    // (a text the parser refuses is not this property's business: skipped, like the random ones)
    for t in FIXED_INTER {
        if let Some(p) = parse_inter(t) {
            emit_for(&mut rng, t, &p, emit, true);
        }
    }
    for t in FIXED_SIMPLE {
        if let Some(p) = parse_simple(t) {
            emit_for(&mut rng, t, &p, emit, true);
        }
    }
    let n = if thorough { 120000 } else { 1500 };
    for i in 0..n {
        let (text, p) = if i % 3 == 2 {
            let t = gen_simple_text(&mut rng);
            let p = parse_simple(&t);
            (t, p)
        } else {
            let t = gen_inter_text(&mut rng);
            let p = parse_inter(&t);
            (t, p)
        };
        if let Some(p) = p {
            emit_for(&mut rng, &text, &p, emit, false);
        }
    }
    // hardening families (own stream)
    let mut rng = Rng::new(Rng::new(seed ^ 0xC04_0002).next());
    for len in 6..=70usize {
        let t = format!("{}x^{} + {}x^{} - x + {}", rng.range(1, 9), len - 1, rng.range(1, 9), len / 2, rng.range(0, 9));
        if let Some(p) = parse_simple(&t) {
            emit_for(&mut rng, &t, &p, emit, false);
        }
    }
    let m = if thorough { 40000 } else { 900 };
    for i in 0..m {
        let (text, p) = if i % 3 == 2 {
            let t = c03::gen_simple_text_hard(&mut rng);
            let p = parse_simple(&t);
            (t, p)
        } else {
            let t = c03::gen_inter_text_hard(&mut rng);
            let p = parse_inter(&t);
            (t, p)
        };
        if let Some(p) = p {
            emit_for(&mut rng, &text, &p, emit, false);
        }
    }
    round6(seed, thorough, emit);
}

/// SIXTH SEEDED ROUND (DESIGN.md section 17).
/// (O) BLOCK BOUNDARIES: dense univariate polynomials of degree blk-1, blk, blk+1, blk+2, 2 blk+1 (blk = 16 .. 256) with
///     all coefficients non-zero, non-constant, non-symmetric, through both parsers (degree / number of terms): the
///     antiderivative coefficient-wise (`integ`, `pinteg`), the definite integral over bounds at and next to +-1 (every
///     coefficient of the antiderivative contributes), additivity, swap, integrate-then-differentiate; one exponent at
///     the block values (the divisor k + 1) in two variables.
/// (P) EXACT RELATIONS: a coefficient exactly equal to the divisor k + 1 (the antiderivative's coefficient is exactly 1),
///     bounds with F(a) == F(b) exactly (odd integrand about 0 on [-c, c]; (x - 1)^2-type antiderivatives), a == b, a or b
///     exactly 0, the split point equal to a bound, and the same bounds missed by one ulp / by 2^-40.
fn round6(seed: u64, thorough: bool, emit: &mut dyn FnMut(String)) {
    let mut rng = Rng::new(Rng::new(seed ^ 0xC04_0006).next());
    let near_one = [1.0, -1.0, 1.0 + 2f64.powi(-7), -(1.0 - 2f64.powi(-8)), 0.9375, 0.0, 0.5, 1.0 + 2f64.powi(-52)];
    let join = |terms: &[(bool, String)]| -> String {
        let mut s = String::new();
        for (i, (neg, body)) in terms.iter().enumerate() {
            if i == 0 {
                if *neg {
                    s.push('-');
                }
            } else {
                s.push_str(if *neg { " - " } else { " + " });
            }
            s.push_str(body);
        }
        s
    };
    let mut blocks: Vec<usize> = vec![16, 32, 64, 128, 256];
    if thorough {
        blocks.push(1024);
    }
    for &blk in &blocks {
        for deg in [blk - 1, blk, blk + 1, blk + 2, 2 * blk + 1] {
            let s0 = rng.below(17) as usize;
            let mut order: Vec<usize> = (0..=deg).collect();
            if rng.chance(1, 2) {
                order.reverse();
            }
            let terms: Vec<(bool, String)> = order
                .iter()
                .map(|&k| {
                    let c = ((k * k * 3 + 5 * k + s0) % 17) as i64 - 8;
                    let c = if c == 0 { 9 } else { c };
                    (c < 0, format!("{}x^{}", c.abs(), k))
                })
                .collect();
            let text = join(&terms);
            let pre = format!("txt {}", req_string(&text));
            for parser in 0..2 {
                if parser == 1 && deg > 258 && !thorough {
                    continue;
                }
                let Some(p) = (if parser == 0 { parse_simple(&text) } else { parse_inter(&text) }) else { continue };
                let ps = req_any(&p);
                emit(format!("{pre} integ {ps}"));
                emit(format!("{pre} pinteg {ps} 1 120"));
                for _ in 0..3 {
                    let a = *rng.pick(&near_one);
                    let b = *rng.pick(&near_one[..5]);
                    emit(format!("{pre} analytical {ps} {} {}", rbits(a), rbits(b)));
                }
                let (a, c, b) = (*rng.pick(&near_one), *rng.pick(&near_one), *rng.pick(&near_one[..5]));
                emit(format!("{pre} additive {ps} {} {} {}", rbits(a), rbits(c), rbits(b)));
                emit(format!("{pre} swap {ps} {} {}", rbits(*rng.pick(&near_one)), rbits(*rng.pick(&near_one[..5]))));
                emit(format!("{pre} chain {ps} 2 i d {}", rbits(*rng.pick(&near_one[..5]))));
                emit(format!("{pre} chain {ps} 1 i {}", rbits(*rng.pick(&near_one[..5]))));
            }
        }
    }
    // one exponent at the block values
    for &blk in &[16usize, 32, 64, 128, 256, 1024] {
        for e in [blk - 2, blk - 1, blk, blk + 1, 2 * blk] {
            let t = format!("{}x^{e}y - {}x^{}y^{e} + x", rng.range(2, 9), rng.range(2, 9), e - 1);
            if let Some(p) = parse_inter(&t) {
                let ps = req_any(&p);
                let pre = format!("txt {}", req_string(&t));
                emit(format!("{pre} pinteg {ps} 1 120"));
                emit(format!("{pre} pinteg {ps} 1 121"));
                emit(format!("{pre} chainm {ps} 2 J 1 120 D 1 120 2 1 120 {} 1 121 {}", rbits(*rng.pick(&near_one[..4])), rbits(*rng.pick(&near_one[..4]))));
            }
            let t = format!("{}x^{e} - {}x^{} + x - 4", e + 1, rng.range(2, 9), e - 1);
            if let Some(p) = parse_simple(&t) {
                let ps = req_any(&p);
                let pre = format!("txt {}", req_string(&t));
                emit(format!("{pre} integ {ps}"));
                emit(format!("{pre} analytical {ps} {} {}", rbits(*rng.pick(&near_one)), rbits(*rng.pick(&near_one[..5]))));
            }
        }
    }
    // (P) exact relations
    let nudges = |x: f64| -> Vec<f64> {
        if x == 0.0 {
            vec![0.0, -0.0, 5e-324, 2f64.powi(-40)]
        } else {
            vec![x, f64::from_bits(x.to_bits() + 1), f64::from_bits(x.to_bits() - 1), x * (1.0 + 2f64.powi(-40))]
        }
    };
    let cases: Vec<(&str, f64, f64)> = vec![
        ("3x^2 + 2x + 1", -1.0, 2.0),
        ("4x^3 - 3x^2 + 2x - 1", 0.0, 1.0),
        ("8x^7 + 16x^15", -1.0, 1.0),
        ("x^3 - x", -1.5, 1.5),
        ("x^3 - x", -1.0, 1.0),
        ("2x - 2", 0.0, 2.0),
        ("2x - 2", -3.0, 5.0),
        ("3x^2 - 6x + 2", 0.0, 1.0),
        ("3x^2 - 6x + 2", 0.0, 2.0),
        ("5x^4 - 1", 0.0, 1.0),
        ("x^5 - x^3 + x", -2.0, 2.0),
        ("0.5x + 0.25", 1.0, 1.0),
        ("6x^5 + 5x^4 + 4x^3", -1.0, 0.0),
        ("x^2 + 0x + 3", 0.0, 3.0),
        ("17x^16 - 33x^32", 0.0, 1.0),
    ];
    for (text, a, b) in &cases {
        for parser in 0..2 {
            let Some(p) = (if parser == 0 { parse_simple(text) } else { parse_inter(text) }) else { continue };
            let ps = req_any(&p);
            let pre = format!("txt {}", req_string(text));
            emit(format!("{pre} integ {ps}"));
            for (i, bb) in nudges(*b).iter().enumerate() {
                emit(format!("{pre} analytical {ps} {} {}", rbits(*a), rbits(*bb)));
                emit(format!("{pre} swap {ps} {} {}", rbits(*a), rbits(*bb)));
                let aa = nudges(*a)[i];
                emit(format!("{pre} analytical {ps} {} {}", rbits(aa), rbits(*b)));
            }
            // split point at a bound, at the middle, at 0
            for c in [*a, *b, a / 2.0 + b / 2.0, 0.0] {
                emit(format!("{pre} additive {ps} {} {} {}", rbits(*a), rbits(c), rbits(*b)));
            }
            emit(format!("{pre} chain {ps} 2 i d {}", rbits(*b)));
        }
    }
}
