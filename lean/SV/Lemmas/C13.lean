import SV.Model.C13
import SV.Lemmas.Mat
import SV.Props.C11
import Mathlib.Algebra.Order.Field.Basic
import Mathlib.Tactic.Ring
import Mathlib.Tactic.FieldSimp
import Mathlib.Tactic.Linarith
/-!
Helper lemmas for C13 (power method).

* Part A is about shapes only and holds for *every* scalar type with the operations the model uses
  (no algebraic law is needed — so it covers the `Float` instance the driver runs as well): every
  product of the loop is conforming, `max` and the scalar extraction are defined, the loop returns.
* Part B is over a linearly ordered field: `Arr2D::max` is the maximum, the value of the Rayleigh
  quotient, and the description of the pass the loop returns from.
-/
set_option linter.unusedSectionVars false

namespace SV.C13
open SV SV.C11 Finset

/-! ### Part A — shapes, any scalar -/
section total
variable {S : Type} [Inhabited S] [Add S] [Sub S] [Mul S] [Div S] [Neg S] [OfNat S 0] [OfNat S 1]
  [LT S] [DecidableRel (α := S) (· < ·)] [BEq S]

/-- an `n × 1` well-formed array -/
def ColVec (n : Nat) (x : Mat S) : Prop := x.h = n ∧ x.w = 1 ∧ x.WF

/-- an `n × n` well-formed array -/
def Square (n : Nat) (A : Mat S) : Prop := A.h = n ∧ A.w = n ∧ A.WF

/-- a conforming product succeeds with the expected shape (also through the 1×1 shortcuts) -/
theorem dot_conform (a b : Mat S) (hc : a.w = b.h) :
    ∃ m, dot a b = .ok m ∧ m.h = a.h ∧ m.w = b.w ∧ m.WF := by
  unfold dot
  by_cases ha : a.h = 1 ∧ a.w = 1
  · simp only [ha, and_self, if_true]
    exact ⟨_, rfl, by simp [← hc, ha.2], by simp, Mat.tab_WF _ _ _⟩
  · by_cases hb : b.h = 1 ∧ b.w = 1
    · simp only [ha, if_false, hb, and_self, if_true]
      exact ⟨_, rfl, by simp, by simp [hc, hb.1], Mat.tab_WF _ _ _⟩
    · rw [if_neg ha, if_neg hb, if_neg (not_not.mpr hc)]
      exact ⟨_, rfl, by simp, by simp, Mat.tab_WF _ _ _⟩

theorem mulOp_of_ok (a b m : Mat S) (h : dot a b = .ok m) : mulOp a b = m := by
  unfold mulOp
  rw [h]

/-- the `*` operator on conforming operands is the checked product (no silent empty array) -/
theorem mulOp_conform (a b : Mat S) (hc : a.w = b.h) :
    dot a b = .ok (mulOp a b) ∧ (mulOp a b).h = a.h ∧ (mulOp a b).w = b.w ∧ (mulOp a b).WF := by
  obtain ⟨m, hm, h1, h2, h3⟩ := dot_conform a b hc
  have : mulOp a b = m := mulOp_of_ok a b m hm
  rw [this]
  exact ⟨hm, h1, h2, h3⟩

theorem maxOf_some (m : Mat S) (hwf : m.WF) (hh : 0 < m.h) (hw : 0 < m.w) :
    ∃ c, maxOf m = some c := by
  unfold maxOf
  rw [if_neg (by omega)]
  split
  · rename_i hl
    exfalso
    have h0 : m.a.size = 0 := by
      have := congrArg List.length hl
      simpa using this
    rw [hwf] at h0
    have := Nat.mul_pos hh hw
    omega
  · exact ⟨_, rfl⟩

theorem minOf_some (m : Mat S) (hwf : m.WF) (hh : 0 < m.h) (hw : 0 < m.w) :
    ∃ c, minOf m = some c := by
  unfold minOf
  rw [if_neg (by omega)]
  split
  · rename_i hl
    exfalso
    have h0 : m.a.size = 0 := by
      have := congrArg List.length hl
      simpa using this
    rw [hwf] at h0
    have := Nat.mul_pos hh hw
    omega
  · exact ⟨_, rfl⟩

/-- the helper `normaliser` never hits an `unwrap` panic on a non-empty array -/
theorem normaliser_some (m : Mat S) (hwf : m.WF) (hh : 0 < m.h) (hw : 0 < m.w) :
    ∃ c, normaliser m = some c := by
  obtain ⟨l, hl⟩ := maxOf_some m hwf hh hw
  obtain ⟨t, ht⟩ := minOf_some m hwf hh hw
  unfold normaliser
  rw [hl]
  simp only
  split_ifs
  · exact ⟨l, rfl⟩
  · exact ⟨t, ht⟩

theorem divS_colVec (n : Nat) (x : Mat S) (c : S) (hx : ColVec n x) : ColVec n (divS x c) :=
  ⟨hx.1, hx.2.1, Mat.tab_WF _ _ _⟩

theorem asScalar_some (m : Mat S) (hwf : m.WF) (hh : m.h = 1) (hw : m.w = 1) :
    asScalar m = some (m.get 0 0) := by
  have hs : m.a.size = 1 := by rw [hwf, hh, hw]
  unfold asScalar Mat.get
  rw [Array.getElem?_eq_getElem (by omega)]
  simp [Array.getD_eq_getD_getElem?, Array.getElem?_eq_getElem (show 0 < m.a.size by omega)]

theorem transpose_shape (n : Nat) (x : Mat S) (hx : ColVec n x) :
    x.transpose.h = 1 ∧ x.transpose.w = n ∧ x.transpose.WF :=
  ⟨hx.2.1, hx.1, Mat.transpose_WF _⟩

/-- the three products of the Rayleigh quotient are conforming and the two scalar extractions are
applied to 1×1 arrays -/
theorem rayleigh_shapes (n : Nat) (A x : Mat S) (hA : Square n A) (hx : ColVec n x) :
    (∃ ax, dot A x = .ok ax ∧ ColVec n ax) ∧
    (∃ num, dot x.transpose (mulOp A x) = .ok num ∧ num.h = 1 ∧ num.w = 1 ∧ num.WF) ∧
    (∃ den, dot x.transpose x = .ok den ∧ den.h = 1 ∧ den.w = 1 ∧ den.WF) := by
  obtain ⟨t1, t2, _⟩ := transpose_shape n x hx
  obtain ⟨e1, h1, w1, f1⟩ := mulOp_conform A x (by rw [hA.2.1, hx.1])
  obtain ⟨e2, h2, w2, f2⟩ := mulOp_conform x.transpose (mulOp A x) (by rw [t2, h1, hA.1])
  obtain ⟨e3, h3, w3, f3⟩ := mulOp_conform x.transpose x (by rw [t2, hx.1])
  exact ⟨⟨_, e1, by rw [h1, hA.1], by rw [w1, hx.2.1], f1⟩,
    ⟨_, e2, by rw [h2, t1], by rw [w2, w1, hx.2.1], f2⟩,
    ⟨_, e3, by rw [h3, t1], by rw [w3, hx.2.1], f3⟩⟩

theorem rayleigh_some (n : Nat) (A x : Mat S) (hA : Square n A) (hx : ColVec n x) :
    rayleigh A x = some ((mulOp x.transpose (mulOp A x)).get 0 0 / (mulOp x.transpose x).get 0 0) := by
  obtain ⟨_, ⟨num, e2, h2, w2, f2⟩, ⟨den, e3, h3, w3, f3⟩⟩ := rayleigh_shapes n A x hA hx
  have m2 : mulOp x.transpose (mulOp A x) = num := mulOp_of_ok _ _ _ e2
  have m3 : mulOp x.transpose x = den := mulOp_of_ok _ _ _ e3
  unfold rayleigh
  simp only [m2, m3, asScalar_some num f2 h2 w2, asScalar_some den f3 h3 w3]

/-- what a successful pass consists of -/
theorem pass_spec (A ev : Mat S) (lam : S) (p : Pass S) (h : pass A ev lam = some p) :
    normaliser (mulOp A ev) = some p.c ∧ p.nv = divS (mulOp A ev) p.c ∧
      rayleigh A p.nv = some p.next ∧ p.ea = sabs ((p.next - lam) / p.next) := by
  unfold pass at h
  simp only at h
  split at h
  · cases h
  · rename_i c hc
    split at h
    · cases h
    · rename_i next hn
      cases h
      exact ⟨hc, rfl, hn, rfl⟩

theorem pass_some (n : Nat) (hn : 0 < n) (A ev : Mat S) (lam : S) (hA : Square n A)
    (hev : ColVec n ev) : ∃ p, pass A ev lam = some p ∧ ColVec n p.nv := by
  obtain ⟨_, h1, w1, f1⟩ := mulOp_conform A ev (by rw [hA.2.1, hev.1])
  obtain ⟨c, hc⟩ := normaliser_some (mulOp A ev) f1 (by rw [h1, hA.1]; exact hn)
    (by rw [w1, hev.2.1]; omega)
  have hnv : ColVec n (divS (mulOp A ev) c) :=
    divS_colVec n _ c ⟨by rw [h1, hA.1], by rw [w1, hev.2.1], f1⟩
  have hr := rayleigh_some n A _ hA hnv
  unfold pass
  simp only [hc, hr]
  exact ⟨_, rfl, hnv⟩

/-- the loop never panics, and a returned pair comes from a pass `2 ≤ p ≤ done + fuel` -/
theorem loop_total (n : Nat) (hn : 0 < n) (A : Mat S) (es : S) (hA : Square n A) :
    ∀ fuel done (ev : Mat S) (lam : S), ColVec n ev →
      (∃ lam' v p, loop A es fuel done ev lam = .ok (lam', v, p) ∧ ColVec n v ∧
          done < p ∧ p ≤ done + fuel ∧ 2 ≤ p) ∨
        loop A es fuel done ev lam = .err .noConvergence := by
  intro fuel
  induction fuel with
  | zero => intro done ev lam _; right; rfl
  | succ fuel ih =>
    intro done ev lam hev
    obtain ⟨p, hp, hnv⟩ := pass_some n hn A ev lam hA hev
    rw [loop, hp]
    simp only
    by_cases hz : (p.c == 0) = true
    · rw [if_pos hz]; right; rfl
    rw [if_neg hz]
    by_cases hstop : 0 < done ∧ ¬(p.next == 0) = true ∧ p.ea < es
    · rw [if_pos hstop]
      obtain ⟨c, hc⟩ := maxOf_some p.nv hnv.2.2 (by rw [hnv.1]; exact hn) (by rw [hnv.2.1]; omega)
      simp only [hc]
      left
      exact ⟨_, _, _, rfl, divS_colVec n _ c hnv, by omega, by omega, by omega⟩
    · rw [if_neg hstop]
      rcases ih (done + 1) p.nv p.next hnv with ⟨l, v, q, hq, hv, h1, h2, h3⟩ | hq
      · left; exact ⟨l, v, q, hq, hv, by omega, by omega, h3⟩
      · right; exact hq

theorem ones_colVec (n : Nat) : ColVec n (ones n : Mat S) := ⟨rfl, rfl, Mat.tab_WF _ _ _⟩

end total

/-! ### Part B — ordered field -/
section field
variable {K : Type} [Field K] [LinearOrder K] [IsStrictOrderedRing K] [Inhabited K]

theorem sabs_eq_abs (x : K) : sabs x = |x| := by
  unfold sabs
  split_ifs with h
  · rw [abs_of_neg h]
  · rw [abs_of_nonneg (not_lt.mp h)]

theorem pickMax_eq (a b : K) : pickMax a b = max a b := by
  unfold pickMax
  split_ifs with h
  · rw [max_eq_left (le_of_lt h)]
  · rw [max_eq_right (not_lt.mp h)]

/-- the `reduce` of `Arr2D::max` returns an element of the buffer that bounds all of them -/
theorem foldl_pickMax (xs : List K) : ∀ x : K,
    xs.foldl pickMax x ∈ x :: xs ∧ ∀ y ∈ x :: xs, y ≤ xs.foldl pickMax x := by
  induction xs with
  | nil => intro x; simp
  | cons z zs ih =>
    intro x
    rw [List.foldl_cons]
    obtain ⟨hm, hb⟩ := ih (pickMax x z)
    have hx : x ≤ pickMax x z := by rw [pickMax_eq]; exact le_max_left _ _
    have hz : z ≤ pickMax x z := by rw [pickMax_eq]; exact le_max_right _ _
    have hp : pickMax x z = x ∨ pickMax x z = z := by
      unfold pickMax; split_ifs <;> simp
    constructor
    · rcases List.mem_cons.mp hm with h | h
      · rcases hp with e | e
        · rw [h, e]; simp
        · rw [h, e]; simp
      · simp [h]
    · intro y hy
      have hpm := hb (pickMax x z) (by simp)
      rcases List.mem_cons.mp hy with h | h
      · rw [h]; exact le_trans hx hpm
      · rcases List.mem_cons.mp h with h' | h'
        · rw [h']; exact le_trans hz hpm
        · exact hb y (by simp [h'])

theorem pickMin_eq (a b : K) : pickMin a b = min a b := by
  unfold pickMin
  split_ifs with h
  · rw [min_eq_left (le_of_lt h)]
  · rw [min_eq_right (not_lt.mp h)]

/-- the `reduce` of `Arr2D::min` returns an element of the buffer below all of them -/
theorem foldl_pickMin (xs : List K) : ∀ x : K,
    xs.foldl pickMin x ∈ x :: xs ∧ ∀ y ∈ x :: xs, xs.foldl pickMin x ≤ y := by
  induction xs with
  | nil => intro x; simp
  | cons z zs ih =>
    intro x
    rw [List.foldl_cons]
    obtain ⟨hm, hb⟩ := ih (pickMin x z)
    have hx : pickMin x z ≤ x := by rw [pickMin_eq]; exact min_le_left _ _
    have hz : pickMin x z ≤ z := by rw [pickMin_eq]; exact min_le_right _ _
    have hp : pickMin x z = x ∨ pickMin x z = z := by
      unfold pickMin; split_ifs <;> simp
    constructor
    · rcases List.mem_cons.mp hm with h | h
      · rcases hp with e | e
        · rw [h, e]; simp
        · rw [h, e]; simp
      · simp [h]
    · intro y hy
      have hpm := hb (pickMin x z) (by simp)
      rcases List.mem_cons.mp hy with h | h
      · rw [h]; exact le_trans hpm hx
      · rcases List.mem_cons.mp h with h' | h'
        · rw [h']; exact le_trans hpm hz
        · exact hb y (by simp [h'])

theorem colVec_get (n : Nat) (x : Mat K) (hx : ColVec n x) (i : Nat) (hi : i < n) :
    ∃ h : i < x.a.size, x.get i 0 = x.a[i] := by
  have hs : x.a.size = n := by rw [hx.2.2, hx.1, hx.2.1, Nat.mul_one]
  refine ⟨by omega, ?_⟩
  unfold Mat.get
  rw [hx.2.1, Nat.mul_one, Nat.add_zero, Array.getD_eq_getD_getElem?,
    Array.getElem?_eq_getElem (by omega)]
  rfl

/-- `Arr2D::max` of a column vector: attained and an upper bound -/
theorem maxOf_col (n : Nat) (x : Mat K) (hx : ColVec n x) (c : K) (h : maxOf x = some c) :
    (∃ i, i < n ∧ x.get i 0 = c) ∧ ∀ i, i < n → x.get i 0 ≤ c := by
  have hs : x.a.size = n := by rw [hx.2.2, hx.1, hx.2.1, Nat.mul_one]
  unfold maxOf at h
  split at h
  · cases h
  · split at h
    · cases h
    · rename_i y ys hl
      cases h
      obtain ⟨hm, hb⟩ := foldl_pickMax ys y
      rw [← hl] at hm hb
      constructor
      · obtain ⟨k, hk, e⟩ := List.getElem_of_mem hm
        have hk' : k < n := by simpa [hs] using hk
        obtain ⟨_, hg⟩ := colVec_get n x hx k hk'
        exact ⟨k, hk', by rw [hg, ← e]; simp⟩
      · intro i hi
        obtain ⟨hlt, hg⟩ := colVec_get n x hx i hi
        rw [hg]
        exact hb _ (by simp)

/-- `Arr2D::min` of a column vector: attained and a lower bound -/
theorem minOf_col (n : Nat) (x : Mat K) (hx : ColVec n x) (c : K) (h : minOf x = some c) :
    (∃ i, i < n ∧ x.get i 0 = c) ∧ ∀ i, i < n → c ≤ x.get i 0 := by
  have hs : x.a.size = n := by rw [hx.2.2, hx.1, hx.2.1, Nat.mul_one]
  unfold minOf at h
  split at h
  · cases h
  · split at h
    · cases h
    · rename_i y ys hl
      cases h
      obtain ⟨hm, hb⟩ := foldl_pickMin ys y
      rw [← hl] at hm hb
      constructor
      · obtain ⟨k, hk, e⟩ := List.getElem_of_mem hm
        have hk' : k < n := by simpa [hs] using hk
        obtain ⟨_, hg⟩ := colVec_get n x hx k hk'
        exact ⟨k, hk', by rw [hg, ← e]; simp⟩
      · intro i hi
        obtain ⟨hlt, hg⟩ := colVec_get n x hx i hi
        rw [hg]
        exact hb _ (by simp)

/-- the helper `normaliser` on a column vector: a non-zero result is an entry of the vector and
dividing by it makes every entry `≤ 1` (and that entry `= 1`) — also when no entry is positive -/
theorem normaliser_col (n : Nat) (x : Mat K) (hx : ColVec n x) (c : K)
    (h : normaliser x = some c) (hc : c ≠ 0) :
    (∃ i, i < n ∧ x.get i 0 = c) ∧ ∀ i, i < n → x.get i 0 / c ≤ 1 := by
  unfold normaliser at h
  split at h
  · cases h
  · rename_i largest hl
    obtain ⟨hatt, hub⟩ := maxOf_col n x hx largest hl
    split_ifs at h with hpos
    · cases h
      exact ⟨hatt, fun i hi => (div_le_one hpos).mpr (hub i hi)⟩
    · obtain ⟨hmatt, hlb⟩ := minOf_col n x hx c h
      have hle : largest ≤ 0 := not_lt.mp hpos
      obtain ⟨i1, hi1, e1⟩ := hmatt
      have hcneg : c < 0 := lt_of_le_of_ne (by rw [← e1]; exact le_trans (hub i1 hi1) hle) hc
      exact ⟨⟨i1, hi1, e1⟩, fun i hi => (div_le_one_of_neg hcneg).mpr (hlb i hi)⟩

/-- the value of the code's Rayleigh quotient: `(Σᵢ xᵢ (A x)ᵢ) / (Σᵢ xᵢ²)` -/
theorem rayleigh_value (n : Nat) (A x : Mat K) (hA : Square n A) (hx : ColVec n x) :
    rayleigh A x = some ((∑ i ∈ range n, x.get i 0 * ∑ k ∈ range n, A.get i k * x.get k 0)
      / (∑ i ∈ range n, x.get i 0 * x.get i 0)) := by
  rw [rayleigh_some n A x hA hx]
  obtain ⟨t1, t2, _⟩ := transpose_shape n x hx
  obtain ⟨e1, h1, w1, _⟩ := mulOp_conform A x (by rw [hA.2.1, hx.1])
  obtain ⟨e2, _, _, _⟩ := mulOp_conform x.transpose (mulOp A x) (by rw [t2, h1, hA.1])
  obtain ⟨e3, _, _, _⟩ := mulOp_conform x.transpose x (by rw [t2, hx.1])
  have hT : ∀ k, k < n → x.transpose.get 0 k = x.get k 0 := fun k hk =>
    Mat.get_transpose x (by rw [hx.2.1]; omega) (by rw [hx.1]; exact hk)
  have hAx : ∀ i, i < n → (mulOp A x).get i 0 = ∑ k ∈ range n, A.get i k * x.get k 0 := by
    intro i hi
    have := SV.Props.C11.dot_entry A x _ (by rw [hA.2.1, hx.1]) e1 i 0 (by rw [hA.1]; exact hi)
      (by rw [hx.2.1]; omega)
    rw [this, hA.2.1]
  congr 2
  · rw [SV.Props.C11.dot_entry _ _ _ (by rw [t2, h1, hA.1]) e2 0 0 (by rw [t1]; omega)
      (by rw [w1, hx.2.1]; omega), t2]
    apply Finset.sum_congr rfl
    intro k hk
    have hk' := Finset.mem_range.mp hk
    rw [hT k hk', hAx k hk']
  · rw [SV.Props.C11.dot_entry _ _ _ (by rw [t2, hx.1]) e3 0 0 (by rw [t1]; omega)
      (by rw [hx.2.1]; omega), t2]
    apply Finset.sum_congr rfl
    intro k hk
    rw [hT k (Finset.mem_range.mp hk)]

/-- the pass the loop returned from: `x` is the previous normalised iterate with Rayleigh
quotient `lamPrev`, `ps` the last pass (which passed the stopping test), `largest` the final
normaliser -/
theorem loop_ok (n : Nat) (hn : 0 < n) (A : Mat K) (es : K) (hA : Square n A) :
    ∀ fuel done (ev : Mat K) (lam0 : K), ColVec n ev → (0 < done → rayleigh A ev = some lam0) →
      ∀ lam v p, loop A es fuel done ev lam0 = .ok (lam, v, p) →
        ∃ (x : Mat K) (lamPrev : K) (ps : Pass K) (largest : K),
          ColVec n x ∧ rayleigh A x = some lamPrev ∧ pass A x lamPrev = some ps ∧ ps.c ≠ 0 ∧
            ps.next ≠ 0 ∧ ps.ea < es ∧
            maxOf ps.nv = some largest ∧ lam = ps.next ∧ v = divS ps.nv largest := by
  intro fuel
  induction fuel with
  | zero => intro done ev lam0 _ _ lam v p h; cases h
  | succ fuel ih =>
    intro done ev lam0 hev hray lam v p h
    obtain ⟨ps, hps, hnv⟩ := pass_some n hn A ev lam0 hA hev
    rw [loop, hps] at h
    simp only at h
    by_cases hz : (ps.c == 0) = true
    · rw [if_pos hz] at h; cases h
    rw [if_neg hz] at h
    by_cases hstop : 0 < done ∧ ¬(ps.next == 0) = true ∧ ps.ea < es
    · rw [if_pos hstop] at h
      obtain ⟨c, hc⟩ := maxOf_some ps.nv hnv.2.2 (by rw [hnv.1]; exact hn) (by rw [hnv.2.1]; omega)
      simp only [hc] at h
      cases h
      exact ⟨ev, lam0, ps, c, hev, hray hstop.1, hps, fun e => hz (beq_iff_eq.mpr e),
        fun e => hstop.2.1 (beq_iff_eq.mpr e), hstop.2.2, hc, rfl, rfl⟩
    · rw [if_neg hstop] at h
      exact ih (done + 1) ps.nv ps.next hnv (fun _ => (pass_spec A ev lam0 ps hps).2.2.1) lam v p h

end field
end SV.C13
