import SV.Lemmas.C16InterNorm
/-!
Converse of the grammar half of C02, part 4: **characters and the end of an accepted text**, and the
size bounds behind totality.

* `mem_render'`        every character of a rendering is an ASCII digit, an ASCII letter or one of
                       `. / ^ + -`
* `endsOK_render`      a non-empty rendering ends in an ASCII digit, `.` or an ASCII letter — never in an
                       operator
* `parseParts_length`, `length_splitOn`, `length_protectDash_le`   one term per part; the number of
                       parts is the number of `+` plus one; normalisation at most doubles the length
-/
namespace SV.C16Inter
open SV SV.Text SV.C02

/-! ### characters -/

theorem bodyChar_body' {t : TermSyn} (ht : t.WF') {c : Char} (hc : c ∈ t.body) : BodyChar c := by
  unfold TermSyn.body renderFactors at hc
  rcases List.mem_append.1 hc with h | h
  · exact bodyChar_coef ht.coef_wf h
  · obtain ⟨f, hf, hcf⟩ := List.mem_flatMap.1 h
    exact bodyChar_factor (ht.letters f hf) (ht.exps_wf f hf) hcf

/-- every character of a rendering is `+`, `-` or a body character -/
theorem mem_render' {lead : Bool} {ts : List TermSyn} (hwf : ∀ t ∈ ts, t.WF') {c : Char}
    (hc : c ∈ render lead ts) : c = '+' ∨ BodyChar c := by
  cases ts with
  | nil => simp [render] at hc
  | cons t ts =>
    simp only [render, List.mem_append, List.mem_flatMap, List.mem_cons] at hc
    rcases hc with (h | h) | ⟨u, hu, h | h⟩
    · by_cases hn : t.neg = true
      · rw [if_pos hn] at h
        have : c = '-' := by simpa using h
        exact Or.inr (Or.inr (Or.inr (Or.inr (Or.inr (Or.inl this)))))
      · rw [if_neg hn] at h
        cases lead with
        | false => simp at h
        | true => exact Or.inl (by simpa using h)
    · exact Or.inr (bodyChar_body' (hwf t (by simp)) h)
    · by_cases hn : u.neg = true
      · rw [if_pos hn] at h
        exact Or.inr (Or.inr (Or.inr (Or.inr (Or.inr (Or.inl h)))))
      · rw [if_neg hn] at h
        exact Or.inl h
    · exact Or.inr (bodyChar_body' (hwf u (by simp [hu])) h)

/-! ### the last character -/

/-- a character an accepted text can end in -/
def EndChar (c : Char) : Prop := isAsciiDigit c = true ∨ c = '.' ∨ isAsciiLetter c = true

theorem EndChar.not_op {c : Char} (h : EndChar c) : c ≠ '+' ∧ c ≠ '-' ∧ c ≠ '^' ∧ c ≠ '/' := by
  rcases h with h | rfl | h
  · exact ⟨digit_ne_plus h, digit_ne_dash h, digit_ne_caret h, digit_ne_slash h⟩
  · decide
  · exact ⟨letter_ne_plus h, letter_ne_dash h, letter_ne_caret h, letter_ne_slash h⟩

/-- the text is not empty and ends in an `EndChar` -/
def EndsOK (l : List Char) : Prop := l ≠ [] ∧ ∀ c, l.getLast? = some c → EndChar c

theorem EndsOK.append_left (a : List Char) {b : List Char} (h : EndsOK b) : EndsOK (a ++ b) := by
  refine ⟨by simp [h.1], fun c hc => h.2 c ?_⟩
  rw [List.getLast?_append] at hc
  cases hb : b.getLast? with
  | none => exact absurd (List.getLast?_eq_none_iff.1 hb) h.1
  | some x =>
    rw [hb] at hc
    simpa using hc

theorem endsOK_of_all {l : List Char} (hne : l ≠ []) (h : ∀ c ∈ l, EndChar c) : EndsOK l :=
  ⟨hne, fun c hc => h c (List.mem_of_getLast? hc)⟩

theorem endsOK_udec {u : UDec} (hu : u.WF) : EndsOK u.render :=
  endsOK_of_all (UDec.render_ne_nil hu) (fun c hc => by
    rcases UDec.mem_render hu hc with h | h
    · exact Or.inl h
    · exact Or.inr (Or.inl h))

theorem endsOK_expo {e : Expo} (he : e.WF) : EndsOK e.render := by
  cases e with
  | dec neg u => exact (endsOK_udec he).append_left _
  | frac neg a b =>
    have : (Expo.frac neg a b).render = (signChars neg ++ a.render ++ ['/']) ++ b.render := by
      simp [Expo.render]
    rw [this]
    exact (endsOK_udec he.2.1).append_left _

theorem endsOK_factor {f : Factor} (hl : isAsciiLetter f.letter = true)
    (he : ∀ e, f.exp = some e → e.WF) : EndsOK f.render := by
  unfold Factor.render
  cases hx : f.exp with
  | none =>
    exact endsOK_of_all (by simp) (fun c hc => by
      have : c = f.letter := by simpa using hc
      subst this
      exact Or.inr (Or.inr hl))
  | some e =>
    have : f.letter :: '^' :: e.render = [f.letter, '^'] ++ e.render := rfl
    simp only
    rw [this]
    exact (endsOK_expo (he e hx)).append_left _

theorem endsOK_factors {fs : List Factor} (hl : ∀ f ∈ fs, isAsciiLetter f.letter = true)
    (he : ∀ f ∈ fs, ∀ e, f.exp = some e → e.WF) (hne : fs ≠ []) : EndsOK (renderFactors fs) := by
  induction fs with
  | nil => exact absurd rfl hne
  | cons f fs ih =>
    rw [renderFactors_cons]
    cases fs with
    | nil =>
      have : renderFactors [] = [] := rfl
      rw [this, List.append_nil]
      exact endsOK_factor (hl f (by simp)) (he f (by simp))
    | cons g gs =>
      exact (ih (fun x hx => hl x (by simp [hx])) (fun x hx => he x (by simp [hx]))
        (by simp)).append_left _

theorem endsOK_coef {k : Coef} (hk : k.WF) (hne : k ≠ .none) : EndsOK k.render := by
  cases k with
  | none => exact absurd rfl hne
  | dec u => exact endsOK_udec hk
  | frac a b =>
    have : (Coef.frac a b).render = (a.render ++ ['/']) ++ b.render := by simp [Coef.render]
    rw [this]
    exact (endsOK_udec hk.2.1).append_left _

theorem endsOK_body {t : TermSyn} (ht : t.WF') : EndsOK t.body := by
  unfold TermSyn.body
  by_cases hf : t.factors = []
  · have hk : t.coef ≠ .none := by
      rcases ht.nonempty with h | h
      · exact h
      · exact absurd hf h
    rw [hf]
    have : renderFactors [] = [] := rfl
    rw [this, List.append_nil]
    exact endsOK_coef ht.coef_wf hk
  · exact (endsOK_factors ht.letters ht.exps_wf hf).append_left _

theorem endsOK_tail {ts : List TermSyn} (hwf : ∀ t ∈ ts, t.WF') (hne : ts ≠ []) :
    EndsOK (ts.flatMap fun u => (if u.neg then '-' else '+') :: u.body) := by
  induction ts with
  | nil => exact absurd rfl hne
  | cons u us ih =>
    rw [List.flatMap_cons]
    cases us with
    | nil =>
      simp only [List.flatMap_nil, List.append_nil]
      have : (if u.neg then '-' else '+') :: u.body = [if u.neg then '-' else '+'] ++ u.body := rfl
      rw [this]
      exact (endsOK_body (hwf u (by simp))).append_left _
    | cons v vs =>
      exact (ih (fun x hx => hwf x (by simp [hx])) (by simp)).append_left _

/-- **A non-empty rendering ends in a digit, `.` or a letter.** -/
theorem endsOK_render (lead : Bool) {ts : List TermSyn} (hwf : ∀ t ∈ ts, t.WF') (hne : ts ≠ []) :
    EndsOK (render lead ts) := by
  cases ts with
  | nil => exact absurd rfl hne
  | cons t ts =>
    unfold render
    cases ts with
    | nil =>
      simp only [List.flatMap_nil, List.append_nil]
      exact (endsOK_body (hwf t (by simp))).append_left _
    | cons u us =>
      exact (endsOK_tail (fun x hx => hwf x (by simp [hx])) (by simp)).append_left _

/-! ### sizes -/

theorem parseParts_length {cc : CharClass} : ∀ (ps : List (List Char)) (its : List ITerm),
    parseParts cc ps = .ok its → its.length = ps.length := by
  intro ps
  induction ps with
  | nil =>
    intro its h
    unfold parseParts at h
    cases h
    rfl
  | cons part ps ih =>
    intro its h
    unfold parseParts at h
    cases hp : parsePart cc part with
    | error e => rw [hp] at h; cases h
    | ok it =>
      rw [hp] at h
      simp only at h
      cases hr : parseParts cc ps with
      | error e => rw [hr] at h; cases h
      | ok its' =>
        rw [hr] at h
        simp only [Except.ok.injEq] at h
        rw [← h, List.length_cons, List.length_cons, ih its' hr]

theorem length_splitOn (sep : Char) (s : List Char) :
    (splitOn sep s).length = s.count sep + 1 := by
  induction s with
  | nil => rfl
  | cons c cs ih =>
    unfold splitOn
    split
    · rename_i hc
      subst hc
      simp [ih]
    · rename_i hc
      have hcount : (c :: cs).count sep = cs.count sep := by
        rw [List.count_cons]
        simp [hc]
      split
      · rename_i p ps hs
        rw [hs] at ih
        simp only [List.length_cons] at ih ⊢
        omega
      · rename_i hs
        exact absurd hs (splitOn_ne_nil sep cs)

theorem length_parts_le (n : List Char) : (parts n).length ≤ (splitOn '+' n).length := by
  unfold parts
  split
  · rename_i rest hs
    rw [hs]
    simp
  · exact Nat.le_refl _

theorem length_protectDash_le (w : List Char) : ∀ p, (protectDash p w).length ≤ 2 * w.length := by
  induction w with
  | nil => intro p; simp [protectDash]
  | cons c cs ih =>
    intro p
    unfold protectDash
    split
    · have := ih (some c)
      simp only [List.length_cons]
      omega
    · have := ih (some c)
      simp only [List.length_cons]
      omega

end SV.C16Inter
