import SV.Model.C19
/-!
Lemmas for C19 (expression parser): unfolding of the fuel recursion, a fuel-free big-step relation
`R` for `parse_expr` with soundness and completeness, length facts, fuel independence.
-/
namespace SV.C19
variable {N : Type}

abbrev PRes (N : Type) := Except PErr (Expr N × List (Tok N))

def closeParen (k : Expr N → Expr N) : PRes N → PRes N
  | .error e => .error e
  | .ok (e, .rp :: r'') => .ok (k e, r'')
  | .ok (_, _ :: _) => .error .unexpectedToken
  | .ok (_, []) => .error .eot

def prefixPart (pe : List (Tok N) → Nat → PRes N) (t : Tok N) (rest : List (Tok N)) (minBp : Nat) :
    PRes N :=
  match t with
  | .num n => .ok (.num n, rest)
  | .var c => .ok (.var c, rest)
  | .const k => .ok (.const k, rest)
  | .lp => closeParen setParen (pe rest 0)
  | .rp => .error .unexpectedToken
  | .func f =>
    match rest with
    | .lp :: rest1 => closeParen (fun i => .func f (setParen i)) (pe rest1 0)
    | _ :: _ => .error .unexpectedToken
    | [] => .error .eot
  | .op o =>
    if o ≠ .sub then .error .unexpectedToken else
    match pe rest (max SV.Gen.unaryMinPow minBp) with
    | .error e => .error e
    | .ok (v, r') => .ok (.pre .sub v, r')

def afterPrefix (bl : Expr N → List (Tok N) → Nat → PRes N) (minBp : Nat) : PRes N → PRes N
  | .error e => .error e
  | .ok (l, r) => bl (postfixLoop l r).1 (postfixLoop l r).2 minBp

theorem parseExpr_zero (ts : List (Tok N)) (m : Nat) : parseExpr 0 ts m = .error .syntaxErr := by
  rw [parseExpr]

theorem parseExpr_nil (fuel : Nat) (m : Nat) : parseExpr fuel ([] : List (Tok N)) m = .error .syntaxErr := by
  cases fuel with
  | zero => exact parseExpr.eq_1 _ _
  | succ n => exact parseExpr.eq_2 _ _

theorem parseExpr_cons (fuel : Nat) (t : Tok N) (rest : List (Tok N)) (m : Nat) :
    parseExpr (fuel + 1) (t :: rest) m
      = afterPrefix (binLoop fuel) m (prefixPart (parseExpr fuel) t rest m) := by
  rw [parseExpr.eq_def]
  simp only
  cases t with
  | num n => rfl
  | var c => rfl
  | const k => rfl
  | rp => rfl
  | lp =>
    simp only [prefixPart]
    cases h : parseExpr fuel rest 0 with
    | error e => rfl
    | ok p =>
      obtain ⟨e, r⟩ := p
      cases r with
      | nil => rfl
      | cons a r => cases a <;> rfl
  | func f =>
    simp only [prefixPart]
    cases rest with
    | nil => rfl
    | cons a rest1 =>
      cases a <;> try rfl
      simp only
      cases h : parseExpr fuel rest1 0 with
      | error e => rfl
      | ok p =>
        obtain ⟨e, r⟩ := p
        cases r with
        | nil => rfl
        | cons a r => cases a <;> rfl
  | op o =>
    simp only [prefixPart]
    by_cases ho : o = .sub
    · subst ho
      simp only [ne_eq, not_true_eq_false, ↓reduceIte]
      cases h : parseExpr fuel rest (max SV.Gen.unaryMinPow m) with
      | error e => rfl
      | ok p => rfl
    · simp only [ne_eq, ho, not_false_eq_true, ↓reduceIte]; rfl

theorem binLoop_zero_op (l : Expr N) (o : Op) (rest : List (Tok N)) (m : Nat) :
    binLoop 0 l (.op o :: rest) m = .error .syntaxErr := by rw [binLoop]

theorem binLoop_not_op (fuel : Nat) (l : Expr N) (ts : List (Tok N)) (m : Nat)
    (h : ∀ o rest, ts ≠ .op o :: rest) : binLoop fuel l ts m = .ok (l, ts) := by
  cases fuel with
  | zero => rw [binLoop]; exact fun o tail e => h o tail e
  | succ n => rw [binLoop]; exact fun o tail e => h o tail e

theorem binLoop_succ_op (fuel : Nat) (l : Expr N) (o : Op) (rest : List (Tok N)) (m : Nat) :
    binLoop (fuel + 1) l (.op o :: rest) m =
      if bp o < m then .ok (l, .op o :: rest) else
      match parseExpr fuel rest (bp o + 1) with
      | .error e => .error e
      | .ok (rhs, r') => binLoop fuel (.bin (if o = .cdot then .mul else o) l rhs false) r' m := by
  rw [binLoop]; rfl


/-! ### the postfix loop -/

theorem postfixLoop_not_fac (l : Expr N) (ts : List (Tok N)) (h : ∀ r, ts ≠ .op .fac :: r) :
    postfixLoop l ts = (l, ts) := by
  rw [postfixLoop.eq_def]
  split
  · rename_i r; exact absurd rfl (h r)
  · rfl

theorem postfixLoop_fac (l : Expr N) (r : List (Tok N)) :
    postfixLoop l (.op .fac :: r) = postfixLoop (.post .fac l) r := by
  rw [postfixLoop]

theorem postfixLoop_length (l : Expr N) (ts : List (Tok N)) : (postfixLoop l ts).2.length ≤ ts.length := by
  induction ts generalizing l with
  | nil => rw [postfixLoop_not_fac _ _ (by simp)]; exact Nat.le_refl _
  | cons t ts ih =>
    by_cases h : t = .op .fac
    · subst h; rw [postfixLoop_fac]; exact Nat.le_succ_of_le (ih _)
    · rw [postfixLoop_not_fac _ _ (by intro r hr; exact h (List.cons.inj hr).1)]; exact Nat.le_refl _

/-! ### big-step relation -/

/-- which part of `parse_expr` a judgement speaks about: the prefix form, the whole call, or the
binary-operator loop entered with the left operand `l` -/
inductive Mode (N : Type) where
  | pre | full | loop (l : Expr N)

/-- `R mode ts m e r`: on the tokens `ts` with minimum binding power `m`, the part `mode` of
`parse_expr` returns the tree `e` and leaves `r`.  No fuel. -/
inductive R : Mode N → List (Tok N) → Nat → Expr N → List (Tok N) → Prop where
  | num (n : N) (rest : List (Tok N)) (m : Nat) : R .pre (.num n :: rest) m (.num n) rest
  | var (s : String) (rest : List (Tok N)) (m : Nat) : R .pre (.var s :: rest) m (.var s) rest
  | const (c : Const) (rest : List (Tok N)) (m : Nat) : R .pre (.const c :: rest) m (.const c) rest
  | paren {rest : List (Tok N)} (m : Nat) {e : Expr N} {r : List (Tok N)} :
      R .full rest 0 e (.rp :: r) → R .pre (.lp :: rest) m (setParen e) r
  | func (f : Func) {rest : List (Tok N)} (m : Nat) {e : Expr N} {r : List (Tok N)} :
      R .full rest 0 e (.rp :: r) → R .pre (.func f :: .lp :: rest) m (.func f (setParen e)) r
  | neg {rest : List (Tok N)} {m : Nat} {v : Expr N} {r : List (Tok N)} :
      R .full rest (max SV.Gen.unaryMinPow m) v r → R .pre (.op .sub :: rest) m (.pre .sub v) r
  | full {ts : List (Tok N)} {m : Nat} {l : Expr N} {r : List (Tok N)} {e : Expr N} {r' : List (Tok N)} :
      R .pre ts m l r → R (.loop (postfixLoop l r).1) (postfixLoop l r).2 m e r' → R .full ts m e r'
  | stop (l : Expr N) (ts : List (Tok N)) (m : Nat) (h : ∀ o rest, ts ≠ .op o :: rest) :
      R (.loop l) ts m l ts
  | low (l : Expr N) (o : Op) (rest : List (Tok N)) {m : Nat} (h : bp o < m) :
      R (.loop l) (.op o :: rest) m l (.op o :: rest)
  | step {l : Expr N} {o : Op} {rest : List (Tok N)} {m : Nat} {rhs : Expr N} {r' : List (Tok N)}
      {e : Expr N} {r : List (Tok N)} (h : ¬ bp o < m) :
      R .full rest (bp o + 1) rhs r' →
      R (.loop (.bin (if o = .cdot then .mul else o) l rhs false)) r' m e r →
      R (.loop l) (.op o :: rest) m e r

theorem closeParen_ok {k : Expr N → Expr N} {x : PRes N} {e : Expr N} {r : List (Tok N)}
    (h : closeParen k x = .ok (e, r)) : ∃ e0, x = .ok (e0, .rp :: r) ∧ e = k e0 := by
  unfold closeParen at h
  split at h <;> simp_all

/-- soundness of the prefix part, given soundness of the recursive call -/
theorem prefixPart_sound {pe : List (Tok N) → Nat → PRes N}
    (hpe : ∀ ts m e r, pe ts m = .ok (e, r) → R .full ts m e r)
    {t : Tok N} {rest : List (Tok N)} {m : Nat} {l : Expr N} {r : List (Tok N)}
    (h : prefixPart pe t rest m = .ok (l, r)) : R .pre (t :: rest) m l r := by
  cases t with
  | num n => simp only [prefixPart, Except.ok.injEq, Prod.mk.injEq] at h; obtain ⟨rfl, rfl⟩ := h; exact .num _ _ _
  | var c => simp only [prefixPart, Except.ok.injEq, Prod.mk.injEq] at h; obtain ⟨rfl, rfl⟩ := h; exact .var _ _ _
  | const k => simp only [prefixPart, Except.ok.injEq, Prod.mk.injEq] at h; obtain ⟨rfl, rfl⟩ := h; exact .const _ _ _
  | rp => simp [prefixPart] at h
  | lp =>
    simp only [prefixPart] at h
    obtain ⟨e0, h0, rfl⟩ := closeParen_ok h
    exact .paren _ (hpe _ _ _ _ h0)
  | func f =>
    simp only [prefixPart] at h
    split at h
    · obtain ⟨e0, h0, rfl⟩ := closeParen_ok h
      exact .func _ _ (hpe _ _ _ _ h0)
    · simp at h
    · simp at h
  | op o =>
    simp only [prefixPart] at h
    split at h
    · simp at h
    · rename_i ho
      have ho : o = .sub := by simpa using ho
      subst ho
      split at h
      · simp at h
      · rename_i v r' hv
        simp only [Except.ok.injEq, Prod.mk.injEq] at h
        obtain ⟨rfl, rfl⟩ := h
        exact .neg (hpe _ _ _ _ hv)

theorem parse_sound (fuel : Nat) :
    (∀ (ts : List (Tok N)) m e r, parseExpr fuel ts m = .ok (e, r) → R .full ts m e r) ∧
    (∀ (l : Expr N) ts m e r, binLoop fuel l ts m = .ok (e, r) → R (.loop l) ts m e r) := by
  induction fuel with
  | zero =>
    refine ⟨fun ts m e r h => ?_, fun l ts m e r h => ?_⟩
    · rw [parseExpr_zero] at h; simp at h
    · by_cases hop : ∃ o rest, ts = .op o :: rest
      · obtain ⟨o, rest, rfl⟩ := hop
        rw [binLoop_zero_op] at h; simp at h
      · have hop' : ∀ o rest, ts ≠ .op o :: rest := fun o rest he => hop ⟨o, rest, he⟩
        rw [binLoop_not_op _ _ _ _ hop'] at h
        simp only [Except.ok.injEq, Prod.mk.injEq] at h
        obtain ⟨rfl, rfl⟩ := h
        exact .stop _ _ _ hop'
  | succ n ih =>
    refine ⟨fun ts m e r h => ?_, fun l ts m e r h => ?_⟩
    · cases ts with
      | nil => rw [parseExpr_nil] at h; simp at h
      | cons t rest =>
        rw [parseExpr_cons] at h
        cases hp : prefixPart (parseExpr n) t rest m with
        | error x => rw [hp] at h; simp [afterPrefix] at h
        | ok p =>
          obtain ⟨l, r0⟩ := p
          rw [hp] at h
          simp only [afterPrefix] at h
          exact .full (prefixPart_sound ih.1 hp) (ih.2 _ _ _ _ _ h)
    · by_cases hop : ∃ o rest, ts = .op o :: rest
      · obtain ⟨o, rest, rfl⟩ := hop
        rw [binLoop_succ_op] at h
        split at h
        · rename_i hlt
          simp only [Except.ok.injEq, Prod.mk.injEq] at h
          obtain ⟨rfl, rfl⟩ := h
          exact .low _ _ _ hlt
        · rename_i hlt
          split at h
          · simp at h
          · rename_i rhs r' hr
            exact .step hlt (ih.1 _ _ _ _ hr) (ih.2 _ _ _ _ _ h)
      · have hop' : ∀ o rest, ts ≠ .op o :: rest := fun o rest he => hop ⟨o, rest, he⟩
        rw [binLoop_not_op _ _ _ _ hop'] at h
        simp only [Except.ok.injEq, Prod.mk.injEq] at h
        obtain ⟨rfl, rfl⟩ := h
        exact .stop _ _ _ hop'


/-! ### every part consumes tokens -/

/-- the prefix form and the whole call consume at least one token, the loop possibly none -/
def Mode.slack : Mode N → Nat
  | .loop _ => 0
  | _ => 1

theorem R_length {mode : Mode N} {ts : List (Tok N)} {m : Nat} {e : Expr N} {r : List (Tok N)}
    (h : R mode ts m e r) : r.length + mode.slack ≤ ts.length := by
  induction h with
  | num | var | const => simp [Mode.slack]
  | paren m h ih => simp only [Mode.slack, List.length_cons] at ih ⊢; omega
  | func f m h ih => simp only [Mode.slack, List.length_cons] at ih ⊢; omega
  | neg h ih => simp only [Mode.slack, List.length_cons] at ih ⊢; omega
  | @full ts m l r e r' h1 h2 ih1 ih2 =>
    have := postfixLoop_length l r
    simp only [Mode.slack] at ih1 ih2 ⊢; omega
  | stop | low => simp [Mode.slack]
  | step h h1 h2 ih1 ih2 => simp only [Mode.slack, List.length_cons] at ih1 ih2 ⊢; omega

theorem R_full_length {ts : List (Tok N)} {m : Nat} {e : Expr N} {r : List (Tok N)}
    (h : R .full ts m e r) : r.length < ts.length := R_length h

theorem R_pre_length {ts : List (Tok N)} {m : Nat} {e : Expr N} {r : List (Tok N)}
    (h : R .pre ts m e r) : r.length < ts.length := R_length h

theorem R_loop_length {l : Expr N} {ts : List (Tok N)} {m : Nat} {e : Expr N} {r : List (Tok N)}
    (h : R (.loop l) ts m e r) : r.length ≤ ts.length := R_length h

/-! ### fuel independence -/

theorem closeParen_congr (k : Expr N → Expr N) {x y : PRes N} (h : x = y) :
    closeParen k x = closeParen k y := by rw [h]

/-- the prefix part only calls the recursive function on shorter inputs -/
theorem prefixPart_congr {pe pe' : List (Tok N) → Nat → PRes N} (t : Tok N) (rest : List (Tok N)) (m : Nat)
    (h : ∀ ts m', ts.length ≤ rest.length → pe ts m' = pe' ts m') :
    prefixPart pe t rest m = prefixPart pe' t rest m := by
  cases t with
  | num n => rfl
  | var c => rfl
  | const k => rfl
  | rp => rfl
  | lp => simp only [prefixPart]; rw [h _ _ (Nat.le_refl _)]
  | func f =>
    cases rest with
    | nil => rfl
    | cons a rest1 =>
      cases a <;> try rfl
      simp only [prefixPart]
      rw [h _ _ (by simp)]
  | op o => simp only [prefixPart]; rw [h _ _ (Nat.le_refl _)]

/-- Fuel beyond `tokens + 1` changes nothing — neither a result nor an error. -/
theorem parse_fuel_succ (fuel : Nat) :
    (∀ (ts : List (Tok N)) m, ts.length + 1 ≤ fuel → parseExpr (fuel + 1) ts m = parseExpr fuel ts m) ∧
    (∀ (l : Expr N) ts m, ts.length + 1 ≤ fuel → binLoop (fuel + 1) l ts m = binLoop fuel l ts m) := by
  induction fuel with
  | zero => exact ⟨fun ts m h => by omega, fun l ts m h => by omega⟩
  | succ n ih =>
    refine ⟨fun ts m hlen => ?_, fun l ts m hlen => ?_⟩
    · cases ts with
      | nil => rw [parseExpr_nil, parseExpr_nil]
      | cons t rest =>
        simp only [List.length_cons] at hlen
        rw [parseExpr_cons, parseExpr_cons]
        have hpp : prefixPart (parseExpr (n + 1)) t rest m = prefixPart (parseExpr n) t rest m :=
          prefixPart_congr t rest m fun ts m' hts => ih.1 ts m' (by omega)
        rw [hpp]
        cases hp : prefixPart (parseExpr n) t rest m with
        | error x => rfl
        | ok p =>
          obtain ⟨l, r⟩ := p
          simp only [afterPrefix]
          have h1 := R_pre_length (prefixPart_sound (parse_sound n).1 hp)
          have h2 := postfixLoop_length l r
          simp only [List.length_cons] at h1
          exact ih.2 _ _ _ (by omega)
    · by_cases hop : ∃ o rest, ts = .op o :: rest
      · obtain ⟨o, rest, rfl⟩ := hop
        simp only [List.length_cons] at hlen
        rw [binLoop_succ_op, binLoop_succ_op, ih.1 _ _ (by omega)]
        split
        · rfl
        · cases hr : parseExpr n rest (bp o + 1) with
          | error x => rfl
          | ok p =>
            obtain ⟨rhs, r'⟩ := p
            simp only
            have h1 := R_full_length ((parse_sound n).1 _ _ _ _ hr)
            exact ih.2 _ _ _ (by omega)
      · have hop' : ∀ o rest, ts ≠ .op o :: rest := fun o rest he => hop ⟨o, rest, he⟩
        rw [binLoop_not_op _ _ _ _ hop', binLoop_not_op _ _ _ _ hop']

theorem parseExpr_fuel_irrelevant (ts : List (Tok N)) (m : Nat) {fuel : Nat} (h : ts.length + 1 ≤ fuel) :
    parseExpr fuel ts m = parseExpr (ts.length + 1) ts m := by
  induction fuel with
  | zero => omega
  | succ n ih =>
    by_cases hn : ts.length + 1 ≤ n
    · rw [(parse_fuel_succ n).1 ts m hn]; exact ih hn
    · have : n = ts.length := by omega
      subst this; rfl

theorem binLoop_fuel_irrelevant (l : Expr N) (ts : List (Tok N)) (m : Nat) {fuel : Nat}
    (h : ts.length + 1 ≤ fuel) : binLoop fuel l ts m = binLoop (ts.length + 1) l ts m := by
  induction fuel with
  | zero => omega
  | succ n ih =>
    by_cases hn : ts.length + 1 ≤ n
    · rw [(parse_fuel_succ n).2 l ts m hn]; exact ih hn
    · have : n = ts.length := by omega
      subst this; rfl


/-! ### fuel-free error semantics -/

/-- `E mode ts m x`: the part `mode` of `parse_expr` fails with `x` on `ts` — as the Rust code does,
without any fuel.  `PolynomialSyntaxError` has a single source: `parse_expr` called on no tokens. -/
inductive E : Mode N → List (Tok N) → Nat → PErr → Prop where
  | empty (m : Nat) : E .full [] m .syntaxErr
  | rp (rest : List (Tok N)) (m : Nat) : E .pre (.rp :: rest) m .unexpectedToken
  | badOp {o : Op} (h : o ≠ .sub) (rest : List (Tok N)) (m : Nat) : E .pre (.op o :: rest) m .unexpectedToken
  | parenIn {rest : List (Tok N)} (m : Nat) {x : PErr} : E .full rest 0 x → E .pre (.lp :: rest) m x
  | parenTok {rest : List (Tok N)} (m : Nat) {e : Expr N} {t : Tok N} {r : List (Tok N)} (h : t ≠ .rp) :
      R .full rest 0 e (t :: r) → E .pre (.lp :: rest) m .unexpectedToken
  | parenEnd {rest : List (Tok N)} (m : Nat) {e : Expr N} :
      R .full rest 0 e [] → E .pre (.lp :: rest) m .eot
  | funcEnd (f : Func) (m : Nat) : E .pre [.func f] m .eot
  | funcTok (f : Func) {t : Tok N} (h : t ≠ .lp) (rest : List (Tok N)) (m : Nat) :
      E .pre (.func f :: t :: rest) m .unexpectedToken
  | funcIn (f : Func) {rest : List (Tok N)} (m : Nat) {x : PErr} :
      E .full rest 0 x → E .pre (.func f :: .lp :: rest) m x
  | funcArgTok (f : Func) {rest : List (Tok N)} (m : Nat) {e : Expr N} {t : Tok N} {r : List (Tok N)}
      (h : t ≠ .rp) : R .full rest 0 e (t :: r) → E .pre (.func f :: .lp :: rest) m .unexpectedToken
  | funcArgEnd (f : Func) {rest : List (Tok N)} (m : Nat) {e : Expr N} :
      R .full rest 0 e [] → E .pre (.func f :: .lp :: rest) m .eot
  | negIn {rest : List (Tok N)} {m : Nat} {x : PErr} :
      E .full rest (max SV.Gen.unaryMinPow m) x → E .pre (.op .sub :: rest) m x
  | fullPre {ts : List (Tok N)} {m : Nat} {x : PErr} : E .pre ts m x → E .full ts m x
  | fullLoop {ts : List (Tok N)} {m : Nat} {l : Expr N} {r : List (Tok N)} {x : PErr} :
      R .pre ts m l r → E (.loop (postfixLoop l r).1) (postfixLoop l r).2 m x → E .full ts m x
  | stepRhs {l : Expr N} {o : Op} {rest : List (Tok N)} {m : Nat} {x : PErr} (h : ¬ bp o < m) :
      E .full rest (bp o + 1) x → E (.loop l) (.op o :: rest) m x
  | stepLoop {l : Expr N} {o : Op} {rest : List (Tok N)} {m : Nat} {rhs : Expr N} {r' : List (Tok N)}
      {x : PErr} (h : ¬ bp o < m) :
      R .full rest (bp o + 1) rhs r' →
      E (.loop (.bin (if o = .cdot then .mul else o) l rhs false)) r' m x →
      E (.loop l) (.op o :: rest) m x

theorem closeParen_error {k : Expr N → Expr N} {y : PRes N} {x : PErr}
    (h : closeParen k y = .error x) :
    y = .error x ∨ (∃ e t r, t ≠ .rp ∧ y = .ok (e, t :: r) ∧ x = .unexpectedToken) ∨
      (∃ e, y = .ok (e, []) ∧ x = .eot) := by
  unfold closeParen at h
  split at h
  · left; simpa using h
  · simp at h
  · rename_i e t r hne
    right; left
    refine ⟨e, t, r, ?_, rfl, by simpa using h.symm⟩
    rintro rfl; exact hne rfl
  · rename_i e
    right; right
    exact ⟨e, rfl, by simpa using h.symm⟩

theorem prefixPart_error {pe : List (Tok N) → Nat → PRes N}
    {t : Tok N} {rest : List (Tok N)} {m : Nat} {x : PErr}
    (hok : ∀ ts m e r, pe ts m = .ok (e, r) → R .full ts m e r)
    (herr : ∀ ts m' x, ts.length ≤ rest.length → pe ts m' = .error x → E .full ts m' x)
    (h : prefixPart pe t rest m = .error x) : E .pre (t :: rest) m x := by
  cases t with
  | num n => simp [prefixPart] at h
  | var c => simp [prefixPart] at h
  | const k => simp [prefixPart] at h
  | rp => simp only [prefixPart, Except.error.injEq] at h; subst h; exact .rp _ _
  | lp =>
    simp only [prefixPart] at h
    rcases closeParen_error h with h0 | ⟨e, t, r, ht, h0, rfl⟩ | ⟨e, h0, rfl⟩
    · exact .parenIn _ (herr _ _ _ (Nat.le_refl _) h0)
    · exact .parenTok _ ht (hok _ _ _ _ h0)
    · exact .parenEnd _ (hok _ _ _ _ h0)
  | func f =>
    cases rest with
    | nil => simp only [prefixPart, Except.error.injEq] at h; subst h; exact .funcEnd _ _
    | cons a rest1 =>
      by_cases ha : a = .lp
      · subst ha
        simp only [prefixPart] at h
        rcases closeParen_error h with h0 | ⟨e, t, r, ht, h0, rfl⟩ | ⟨e, h0, rfl⟩
        · exact .funcIn _ _ (herr _ _ _ (by simp) h0)
        · exact .funcArgTok _ _ ht (hok _ _ _ _ h0)
        · exact .funcArgEnd _ _ (hok _ _ _ _ h0)
      · have : prefixPart pe (.func f) (a :: rest1) m = .error .unexpectedToken := by
          cases a <;> first | rfl | exact absurd rfl ha
        rw [this] at h
        simp only [Except.error.injEq] at h; subst h
        exact .funcTok _ ha _ _
  | op o =>
    simp only [prefixPart] at h
    split at h
    · rename_i ho
      simp only [Except.error.injEq] at h; subst h
      exact .badOp ho _ _
    · rename_i ho
      have ho : o = .sub := by simpa using ho
      subst ho
      split at h
      · rename_i x' hx
        simp only [Except.error.injEq] at h; subst h
        exact .negIn (herr _ _ _ (Nat.le_refl _) hx)
      · simp at h

/-- With fuel `tokens + 1` (or more) every error of the model is an error of the fuel-free semantics. -/
theorem parse_error_sound (fuel : Nat) :
    (∀ (ts : List (Tok N)) m x, ts.length + 1 ≤ fuel → parseExpr fuel ts m = .error x → E .full ts m x) ∧
    (∀ (l : Expr N) ts m x, ts.length + 1 ≤ fuel → binLoop fuel l ts m = .error x → E (.loop l) ts m x) := by
  induction fuel with
  | zero => exact ⟨fun ts m x h => by omega, fun l ts m x h => by omega⟩
  | succ n ih =>
    refine ⟨fun ts m x hlen h => ?_, fun l ts m x hlen h => ?_⟩
    · cases ts with
      | nil => rw [parseExpr_nil] at h; simp only [Except.error.injEq] at h; subst h; exact .empty _
      | cons t rest =>
        simp only [List.length_cons] at hlen
        rw [parseExpr_cons] at h
        cases hp : prefixPart (parseExpr n) t rest m with
        | error x' =>
          rw [hp] at h
          simp only [afterPrefix, Except.error.injEq] at h; subst h
          exact .fullPre (prefixPart_error (parse_sound n).1
            (fun ts m' x hts hx => ih.1 ts m' x (by omega) hx) hp)
        | ok p =>
          obtain ⟨l, r⟩ := p
          rw [hp] at h
          simp only [afterPrefix] at h
          have hpre := prefixPart_sound (parse_sound n).1 hp
          have h1 := R_pre_length hpre
          have h2 := postfixLoop_length l r
          simp only [List.length_cons] at h1
          exact .fullLoop hpre (ih.2 _ _ _ _ (by omega) h)
    · by_cases hop : ∃ o rest, ts = .op o :: rest
      · obtain ⟨o, rest, rfl⟩ := hop
        simp only [List.length_cons] at hlen
        rw [binLoop_succ_op] at h
        split at h
        · simp at h
        · rename_i hlt
          split at h
          · rename_i x' hx
            simp only [Except.error.injEq] at h; subst h
            exact .stepRhs hlt (ih.1 _ _ _ (by omega) hx)
          · rename_i rhs r' hr
            have hR := (parse_sound n).1 _ _ _ _ hr
            have h1 := R_full_length hR
            exact .stepLoop hlt hR (ih.2 _ _ _ _ (by omega) h)
      · have hop' : ∀ o rest, ts ≠ .op o :: rest := fun o rest he => hop ⟨o, rest, he⟩
        rw [binLoop_not_op _ _ _ _ hop'] at h
        simp at h


/-! ### what is left is a suffix -/

theorem postfixLoop_suffix (l : Expr N) (ts : List (Tok N)) : (postfixLoop l ts).2 <:+ ts := by
  induction ts generalizing l with
  | nil => rw [postfixLoop_not_fac _ _ (by simp)]; exact List.suffix_refl _
  | cons t ts ih =>
    by_cases h : t = .op .fac
    · subst h; rw [postfixLoop_fac]; exact (ih _).trans (List.suffix_cons _ _)
    · rw [postfixLoop_not_fac _ _ (by intro r hr; exact h (List.cons.inj hr).1)]; exact List.suffix_refl _

theorem R_suffix {mode : Mode N} {ts : List (Tok N)} {m : Nat} {e : Expr N} {r : List (Tok N)}
    (h : R mode ts m e r) : r <:+ ts := by
  induction h with
  | num | var | const => exact List.suffix_cons _ _
  | paren m h ih => exact ((List.suffix_cons _ _).trans ih).trans (List.suffix_cons _ _)
  | func f m h ih =>
    exact (((List.suffix_cons _ _).trans ih).trans (List.suffix_cons _ _)).trans (List.suffix_cons _ _)
  | neg h ih => exact ih.trans (List.suffix_cons _ _)
  | @full ts m l r e r' h1 h2 ih1 ih2 => exact (ih2.trans (postfixLoop_suffix l r)).trans ih1
  | stop | low => exact List.suffix_refl _
  | step h h1 h2 ih1 ih2 => exact (ih2.trans ih1).trans (List.suffix_cons _ _)

/-! ### where `PolynomialSyntaxError` comes from -/

/-- the token list ends with `(` or an operator: the parser is asked for an operand at the end of input -/
def OpenEnd (ts : List (Tok N)) : Prop := ∃ p t, ts = p ++ [t] ∧ (t = .lp ∨ ∃ o, t = .op o)

theorem OpenEnd.cons {ts : List (Tok N)} (h : OpenEnd ts) (t : Tok N) : OpenEnd (t :: ts) := by
  obtain ⟨p, t', rfl, ht⟩ := h
  exact ⟨t :: p, t', rfl, ht⟩

theorem OpenEnd.of_suffix {r ts : List (Tok N)} (h : OpenEnd r) (hs : r <:+ ts) : OpenEnd ts := by
  obtain ⟨p, t', rfl, ht⟩ := h
  obtain ⟨q, rfl⟩ := hs
  exact ⟨q ++ p, t', by simp, ht⟩

theorem OpenEnd.cons_of {ts : List (Tok N)} {t : Tok N} (h : ts = [] ∨ OpenEnd ts)
    (ht : t = .lp ∨ ∃ o, t = .op o) : OpenEnd (t :: ts) := by
  rcases h with rfl | h
  · exact ⟨[], t, rfl, ht⟩
  · exact h.cons t

theorem E_syntaxErr {mode : Mode N} {ts : List (Tok N)} {m : Nat} {x : PErr} (h : E mode ts m x)
    (hx : x = .syntaxErr) :
    match mode with
    | .full => ts = [] ∨ OpenEnd ts
    | _ => OpenEnd ts := by
  induction h with
  | empty => exact Or.inl rfl
  | rp | badOp | parenTok | parenEnd | funcEnd | funcTok | funcArgTok | funcArgEnd => cases hx
  | parenIn m h ih => exact OpenEnd.cons_of (ih hx) (Or.inl rfl)
  | funcIn f m h ih => exact (OpenEnd.cons_of (ih hx) (Or.inl rfl)).cons _
  | negIn h ih => exact OpenEnd.cons_of (ih hx) (Or.inr ⟨_, rfl⟩)
  | fullPre h ih => exact Or.inr (ih hx)
  | @fullLoop ts m l r x h1 h2 ih =>
    exact Or.inr ((ih hx).of_suffix ((postfixLoop_suffix l r).trans (R_suffix h1)))
  | stepRhs h h1 ih => exact OpenEnd.cons_of (ih hx) (Or.inr ⟨_, rfl⟩)
  | stepLoop h h1 h2 ih => exact ((ih hx).of_suffix (R_suffix h1)).cons _

/-! ### completeness: the relation is computed by the model with fuel `tokens + 1` -/

theorem parse_complete {mode : Mode N} {ts : List (Tok N)} {m : Nat} {e : Expr N} {r : List (Tok N)}
    (h : R mode ts m e r) :
    match mode with
    | .pre => ∀ fuel t rest, ts = t :: rest → rest.length + 1 ≤ fuel →
        prefixPart (parseExpr fuel) t rest m = .ok (e, r)
    | .full => ∀ fuel, ts.length + 1 ≤ fuel → parseExpr fuel ts m = .ok (e, r)
    | .loop l => ∀ fuel, ts.length + 1 ≤ fuel → binLoop fuel l ts m = .ok (e, r) := by
  induction h with
  | num n rest m => intro fuel t rest' h _; cases h; rfl
  | var n rest m => intro fuel t rest' h _; cases h; rfl
  | const n rest m => intro fuel t rest' h _; cases h; rfl
  | paren m h ih =>
    intro fuel t rest' h hf; cases h
    simp only [prefixPart, ih fuel hf, closeParen]
  | func f m h ih =>
    intro fuel t rest' h hf; cases h
    simp only [List.length_cons] at hf
    simp only [prefixPart, ih fuel (by omega), closeParen]
  | neg h ih =>
    intro fuel t rest' h hf; cases h
    simp only [prefixPart, ne_eq, not_true_eq_false, ↓reduceIte, ih fuel hf]
  | @full ts m l r e r' h1 h2 ih1 ih2 =>
    intro fuel hf
    cases ts with
    | nil => cases h1
    | cons t rest =>
      simp only [List.length_cons] at hf
      obtain ⟨n, rfl⟩ : ∃ n, fuel = n + 1 := ⟨fuel - 1, by omega⟩
      rw [parseExpr_cons, ih1 n t rest rfl (by omega)]
      simp only [afterPrefix]
      have hl1 := R_pre_length h1
      have hl2 := postfixLoop_length l r
      simp only [List.length_cons] at hl1
      exact ih2 n (by omega)
  | stop l ts m h => intro fuel _; exact binLoop_not_op _ _ _ _ h
  | low l o rest h =>
    intro fuel hf
    obtain ⟨n, rfl⟩ : ∃ n, fuel = n + 1 := ⟨fuel - 1, by omega⟩
    rw [binLoop_succ_op, if_pos h]
  | @step l o rest m rhs r' e r h h1 h2 ih1 ih2 =>
    intro fuel hf
    simp only [List.length_cons] at hf
    obtain ⟨n, rfl⟩ : ∃ n, fuel = n + 1 := ⟨fuel - 1, by omega⟩
    rw [binLoop_succ_op, if_neg h, ih1 n (by omega)]
    have hl := R_full_length h1
    exact ih2 n (by omega)

theorem parseExpr_iff_R (ts : List (Tok N)) (m : Nat) (e : Expr N) (r : List (Tok N)) :
    parseExpr (ts.length + 1) ts m = .ok (e, r) ↔ R .full ts m e r :=
  ⟨(parse_sound _).1 ts m e r, fun h => parse_complete h _ (Nat.le_refl _)⟩

theorem parseTokens_iff_R (ts : List (Tok N)) (e : Expr N) :
    parseTokens ts = .ok e ↔ R .full (impliedMul ts) 0 e [] := by
  rw [← parseExpr_iff_R]
  unfold parseTokens
  simp only
  constructor
  · intro h
    split at h
    · simp at h
    · rename_i e' he
      simp only [Except.ok.injEq] at h; subst h; exact he
    · simp at h
  · intro h
    simp only [h]


/-! ### implied multiplication keeps the ends -/

theorem impliedMul_nil_iff (ts : List (Tok N)) : impliedMul ts = [] ↔ ts = [] := by
  cases ts with
  | nil => simp [impliedMul]
  | cons a rest =>
    cases rest with
    | nil => simp [impliedMul]
    | cons b rest => simp only [impliedMul]; split <;> simp

theorem impliedMul_getLast? (ts : List (Tok N)) : (impliedMul ts).getLast? = ts.getLast? := by
  induction ts using impliedMul.induct with
  | case1 a b rest hd ih =>
    rw [impliedMul, if_pos hd]
    have hne : impliedMul (b :: rest) ≠ [] := by rw [Ne, impliedMul_nil_iff]; simp
    obtain ⟨c, cs, hc⟩ := List.exists_cons_of_ne_nil hne
    rw [hc] at ih ⊢
    simp only [List.getLast?_cons_cons] at ih ⊢
    exact ih
  | case2 a b rest hd ih =>
    rw [impliedMul, if_neg hd]
    have hne : impliedMul (b :: rest) ≠ [] := by rw [Ne, impliedMul_nil_iff]; simp
    obtain ⟨c, cs, hc⟩ := List.exists_cons_of_ne_nil hne
    rw [hc] at ih ⊢
    simp only [List.getLast?_cons_cons] at ih ⊢
    exact ih
  | case3 l hl =>
    have : impliedMul l = l := by
      unfold impliedMul
      split
      · rename_i a b rest; exact absurd rfl (hl a b rest)
      · rfl
    rw [this]

theorem openEnd_iff_getLast? (ts : List (Tok N)) :
    OpenEnd ts ↔ ∃ t, ts.getLast? = some t ∧ (t = .lp ∨ ∃ o, t = .op o) := by
  constructor
  · rintro ⟨p, t, rfl, ht⟩; exact ⟨t, by simp, ht⟩
  · rintro ⟨t, hl, ht⟩
    obtain ⟨p, rfl⟩ := List.getLast?_eq_some_iff.mp hl
    exact ⟨p, t, rfl, ht⟩

theorem openEnd_impliedMul (ts : List (Tok N)) : OpenEnd (impliedMul ts) ↔ OpenEnd ts := by
  rw [openEnd_iff_getLast?, openEnd_iff_getLast?, impliedMul_getLast?]


/-! ### `fold` -/
section
variable {N : Type}

theorem fold_num (nt : NumTests N) (x : N) : fold nt (.num x) = .num x := by
  rw [fold]; simp
theorem fold_var (nt : NumTests N) (s : String) : fold nt (.var s) = .var s := by
  rw [fold]; simp
theorem fold_const (nt : NumTests N) (c : Const) : fold nt (.const c) = .const c := by
  rw [fold]; simp
theorem fold_func (nt : NumTests N) (f : Func) (i : Expr N) : fold nt (.func f i) = .func f i := by
  rw [fold]; simp
theorem fold_pre (nt : NumTests N) (o : Op) (v : Expr N) : fold nt (.pre o v) = .pre o v := by
  rw [fold]; simp
theorem fold_post (nt : NumTests N) (o : Op) (v : Expr N) : fold nt (.post o v) = .post o v := by
  rw [fold]; simp

/-- one step of `fold_operations` on a binary node whose operands are already folded -/
def foldStep (nt : NumTests N) (o : Op) (l r : Expr N) (p : Bool) : Expr N :=
  if o = .mul ∧ isNumZero nt l then .num nt.zero
  else if o = .mul ∧ isNumZero nt r then .num nt.zero
  else if o = .caret ∧ isNumZero nt r then .num nt.one
  else if o = .caret ∧ isNumZero nt l ∧ isNumPos nt r then .num nt.zero
  else if o = .add ∧ isNumZero nt l then r
  else if o = .add ∧ isNumZero nt r then l
  else if o = .sub ∧ isNumZero nt r then l
  else if o = .sub ∧ isNumZero nt l then .pre .sub r
  else if o = .div ∧ isNumOne nt r then l
  else .bin o l r p

theorem fold_bin (nt : NumTests N) (o : Op) (l r : Expr N) (p : Bool) :
    fold nt (.bin o l r p) = foldStep nt o (fold nt l) (fold nt r) p := by
  rw [fold]; rfl

/-- the results of a fold step: a literal, one of the operands, the negated right operand, or the node -/
theorem foldStep_cases (nt : NumTests N) (o : Op) (l r : Expr N) (p : Bool) :
    foldStep nt o l r p = .num nt.zero ∨ foldStep nt o l r p = .num nt.one ∨ foldStep nt o l r p = l ∨
    foldStep nt o l r p = r ∨ foldStep nt o l r p = .pre .sub r ∨ foldStep nt o l r p = .bin o l r p := by
  unfold foldStep
  repeat' split
  all_goals simp

/-- A fold step on folded operands is stable: `fold_operations` of its result is the result.  (This is
why the model's `0 - r ⇒ -r` rule may keep `r` where the source folds `r` once more.) -/
theorem fold_idem (nt : NumTests N) (e : Expr N) : fold nt (fold nt e) = fold nt e := by
  induction e with
  | num | var | const | func | pre | post => simp only [fold_num, fold_var, fold_const, fold_func, fold_pre, fold_post]
  | bin o l r p ihl ihr =>
    rw [fold_bin]
    rcases foldStep_cases nt o (fold nt l) (fold nt r) p with h | h | h | h | h | h
    · rw [h, fold_num]
    · rw [h, fold_num]
    · rw [h, ihl]
    · rw [h, ihr]
    · rw [h, fold_pre]
    · rw [h, fold_bin, ihl, ihr, h]

end


end SV.C19
