-- Root of the `SV` library: models (import-free), lemmas and property theorems.
import SV.Model.Basic
import SV.Model.Wire
import SV.Model.C11
import SV.Model.Poly
import SV.Model.PolyWire
import SV.Model.PolyOps
import SV.Lemmas.Mat
import SV.Lemmas.Poly
import SV.Props.C11
