import SV.Model.C05
import SV.Lemmas.C05
import Mathlib.Algebra.Order.Field.Rat
/-!
# C05 — Simpson / trapezoid / Romberg meet textbook accuracy for every segment count and cap

Property theorems only (lemmas: `SV.Lemmas.C05`, `SV.Lemmas.Poly`).  They are about the model
`SV.C05.definiteIntegralP` / `SV.C05.rombergP` — the same generic definitions that the driver runs at
`Float` and that every run of the check compares with `definite_integral` / `romberg_definite`.

Reading guide.
* `K` is any field of characteristic 0 (linearly ordered where `|·|` or Romberg's stopping test
  appear), so rounding error is 0 here: "exact to rounding" is proved as *exact*.
* The polynomial is `p : AnyPoly K` — a `SimplePolynomial` or an `IntermediatePolynomial` — together
  with the Mathlib polynomial `q` it evaluates like (`Evaluates powf p q`:
  `eval_univariate` never fails and returns `q.eval x`).  `both_types_evaluate` shows that every
  `SimplePolynomial` (`q = ofCoeffs cs`, coefficient `i` is `cs.getD i 0`) and every univariate
  `IntermediatePolynomial` with terms `c·x^k` (`Denotes`) is of this kind.
  "degree ≤ d" is `q.natDegree ≤ d`.
* "The integral" is `P.eval b − P.eval a` for **any** antiderivative `P` (`derivative P = q`); the
  library's own `indefinite_integral` is one (`antiderivative_exists`).  `h = (b − a)/n`,
  `f⁗ = derivative^[4] q`.
* Nothing is assumed about the order of `a` and `b` (reversed and empty intervals are included), about
  the cap or the tolerance.
-/
namespace SV.Props.C05
open SV SV.Poly SV.C05 Polynomial

/-! ## Panel identities -/
section panels
variable {K : Type} [Field K] [CharZero K]

/-- Simpson 1/3 on one pair of segments, symbolic quartic `c₀ + c₁x + … + c₄x⁴` with antiderivative
`c₀x + c₁x²/2 + … + c₄x⁵/5`: exact up to `(h⁵/90)·f⁗`, `f⁗ = 24c₄`. -/
theorem simpson13_panel (c0 c1 c2 c3 c4 x h : K) :
    h / 3 * (quart c0 c1 c2 c3 c4 x + 4 * quart c0 c1 c2 c3 c4 (x + h)
        + quart c0 c1 c2 c3 c4 (x + 2 * h))
      = quartInt c0 c1 c2 c3 c4 (x + 2 * h) - quartInt c0 c1 c2 c3 c4 x
        + h ^ 5 / 90 * (24 * c4) := by
  unfold quart quartInt; ring

/-- Simpson 3/8 on three segments: exact up to `(3h⁵/80)·f⁗`. -/
theorem simpson38_panel (c0 c1 c2 c3 c4 x h : K) :
    3 * h / 8 * (quart c0 c1 c2 c3 c4 x + 3 * quart c0 c1 c2 c3 c4 (x + h)
        + 3 * quart c0 c1 c2 c3 c4 (x + 2 * h) + quart c0 c1 c2 c3 c4 (x + 3 * h))
      = quartInt c0 c1 c2 c3 c4 (x + 3 * h) - quartInt c0 c1 c2 c3 c4 x
        + 3 * h ^ 5 / 80 * (24 * c4) := by
  unfold quart quartInt; ring

/-- Trapezoid on one segment, cubic: exact up to `(h²/12)·(f'(x+h) − f'(x))`. -/
theorem trapezoid_panel (c0 c1 c2 c3 x h : K) :
    h / 2 * (quart c0 c1 c2 c3 0 x + quart c0 c1 c2 c3 0 (x + h))
      = quartInt c0 c1 c2 c3 0 (x + h) - quartInt c0 c1 c2 c3 0 x
        + h ^ 2 / 12 * (quartDer c1 c2 c3 0 (x + h) - quartDer c1 c2 c3 0 x) := by
  unfold quart quartInt quartDer; ring

/-- The same three identities for the model's evaluation `evalSimple cs` of a coefficient list of
degree ≤ 4 (resp. ≤ 3) and any antiderivative `P`. -/
theorem panels_evalSimple (cs : List K) (P : K[X]) (hP : derivative P = ofCoeffs cs) (x h : K) :
    ((ofCoeffs cs).natDegree ≤ 4 →
      h / 3 * (evalSimple cs x + 4 * evalSimple cs (x + h) + evalSimple cs (x + 2 * h))
        = P.eval (x + 2 * h) - P.eval x + h ^ 5 / 90 * (24 * cs.getD 4 0)) ∧
    ((ofCoeffs cs).natDegree ≤ 4 →
      3 * h / 8 * (evalSimple cs x + 3 * evalSimple cs (x + h) + 3 * evalSimple cs (x + 2 * h)
          + evalSimple cs (x + 3 * h))
        = P.eval (x + 3 * h) - P.eval x + 3 * h ^ 5 / 80 * (24 * cs.getD 4 0)) ∧
    ((ofCoeffs cs).natDegree ≤ 3 →
      h / 2 * (evalSimple cs x + evalSimple cs (x + h))
        = P.eval (x + h) - P.eval x
          + h ^ 2 / 12 * ((derivative (ofCoeffs cs)).eval (x + h)
              - (derivative (ofCoeffs cs)).eval x)) := by
  simp only [evalSimple_eq, ← coeff_ofCoeffs]
  exact ⟨fun hd => poly_panel13 _ P hP hd x h, fun hd => poly_panel38 _ P hP hd x h,
    fun hd => poly_panel_trap _ P hP hd x h⟩

/-- Degree ≤ 8: the error of a 1/3 panel (resp. 3/8 panel) is a combination of values of `f⁗` at
points *inside the panel* with *positive* weights summing to `h⁵/90` (resp. `3h⁵/80`).  (These are
Gauss-type rules for the Peano kernels; they turn the textbook bound into algebra.) -/
theorem panels_degree8 (q P : K[X]) (hP : derivative P = q) (hq : q.natDegree ≤ 8) (x h : K) :
    (h / 3 * (q.eval x + 4 * q.eval (x + h) + q.eval (x + 2 * h))
      = P.eval (x + 2 * h) - P.eval x
        + h ^ 5 * (13 / 1890 * (derivative^[4] q).eval (x + h)
          + 2 / 945 * ((derivative^[4] q).eval (x + h / 2)
              + (derivative^[4] q).eval (x + 3 * h / 2)))) ∧
    (3 * h / 8 * (q.eval x + 3 * q.eval (x + h) + 3 * q.eval (x + 2 * h) + q.eval (x + 3 * h))
      = P.eval (x + 3 * h) - P.eval x
        + h ^ 5 * (13 / 1120 * (derivative^[4] q).eval (x + 3 * h / 2)
          + 1 / 96 * ((derivative^[4] q).eval (x + h) + (derivative^[4] q).eval (x + 2 * h))
          + 17 / 6720 * ((derivative^[4] q).eval (x + h / 2)
              + (derivative^[4] q).eval (x + 5 * h / 2)))) ∧
    ((13 : K) / 1890 + 2 * (2 / 945) = 1 / 90 ∧ (13 : K) / 1120 + 2 * (1 / 96) + 2 * (17 / 6720) = 3 / 80) :=
  ⟨poly_panel13_gen q P hP hq x h, poly_panel38_gen q P hP hq x h, by norm_num, by norm_num⟩

/-- The library's own `indefinite_integral` of `cs` is an antiderivative, so the hypothesis
`derivative P = q` of the theorems below is satisfiable; and the fourth derivative of a polynomial of
degree ≤ 4 is the constant `24·c₄`. -/
theorem antiderivative_exists (cs : List K) :
    derivative (ofCoeffs (simpleInteg cs)) = ofCoeffs cs ∧
    (∀ x, (ofCoeffs (simpleInteg cs)).eval x = evalSimple (simpleInteg cs) x) ∧
    ((ofCoeffs cs).natDegree ≤ 4 → derivative^[4] (ofCoeffs cs) = C (24 * cs.getD 4 0)) := by
  refine ⟨derivative_ofCoeffs_simpleInteg cs, fun x => (evalSimple_eq _ x).symm, fun hd => ?_⟩
  rw [← coeff_ofCoeffs]
  exact iterate_derivative_four _ hd

omit [CharZero K] in
/-- **Both polynomial types.**  A `SimplePolynomial` with coefficient list `cs` evaluates like
`ofCoeffs cs` (whose coefficients are the entries of `cs`, so at most `d + 1` entries give degree
≤ `d`); an `IntermediatePolynomial` with variable list `[v]` whose terms are `c` or `c·v^k` (`Denotes`;
any order, repeated exponents and zero coefficients allowed) evaluates like the polynomial those terms
denote, provided `powf` is the power function at natural exponents; a constant one (no variables)
like the constant. -/
theorem both_types_evaluate (powf : K → K → K) :
    (∀ (var : Option Char) (cs : List K),
      Evaluates powf (.simple ⟨cs, var⟩) (ofCoeffs cs) ∧ (∀ i, (ofCoeffs cs).coeff i = cs.getD i 0) ∧
      ∀ d, cs.length ≤ d + 1 → (ofCoeffs cs).natDegree ≤ d) ∧
    ((∀ (x : K) (k : ℕ), powf x (k : K) = x ^ k) → ∀ (v : String) (ts : List (Term K)) (q : K[X]),
      Denotes v ts q → Evaluates powf (.inter ⟨ts, [v]⟩) q) ∧
    (∀ ts : List (Term K), (∀ t ∈ ts, t.vars = []) →
      Evaluates powf (.inter ⟨ts, []⟩) (C (ts.map (·.coef)).sum)) :=
  ⟨fun var cs => ⟨simple_evaluates powf var cs, coeff_ofCoeffs cs,
      fun d hd => natDegree_ofCoeffs_le cs d hd⟩,
    fun hpow v ts q h => inter_evaluates powf hpow v ts q h,
    fun ts hts => inter_const_evaluates powf ts hts⟩

end panels

/-! ## `definite_integral` -/
section simpson
variable {K : Type} [Field K] [CharZero K]

omit [CharZero K] in
/-- With one segment the integrator is the trapezoid rule `(b − a)·(f(a) + f(b))/2`, whatever the
degree. -/
theorem one_segment_is_trapezoid (powf : K → K → K) (p : AnyPoly K) (q : K[X])
    (hev : Evaluates powf p q) (a b : K) :
    definiteIntegralP powf p a b 1 = .ok ((b - a) * (q.eval a + q.eval b) / 2) := by
  have ha := hev a
  have hb := hev b
  simp [definiteIntegralP, definiteIntegral, trapezoid, trapLoop, liftErr, ha, hb, lit]

/-- … and the trapezoid rule is exact for degree ≤ 1. -/
theorem trapezoid_exact_linear (powf : K → K → K) (p : AnyPoly K) (q : K[X])
    (hev : Evaluates powf p q) (hdeg : q.natDegree ≤ 1) (P : K[X]) (hP : derivative P = q)
    (a b : K) :
    definiteIntegralP powf p a b 1 = .ok (P.eval b - P.eval a) := by
  have c2 : q.coeff 2 = 0 := coeff_eq_zero_of_natDegree_lt (by omega)
  have c3 : q.coeff 3 = 0 := coeff_eq_zero_of_natDegree_lt (by omega)
  have c4 : q.coeff 4 = 0 := coeff_eq_zero_of_natDegree_lt (by omega)
  have hd : ∀ x, (derivative q).eval x = q.coeff 1 := fun x => by
    rw [eval_derivative_of_natDegree_le_four _ (by omega)]; simp [quartDer, c2, c3, c4]
  have ht := trapezoid_spec hev a b 1 (le_refl 1)
    (fun x => P.eval x + ((b - a) / (1 : ℕ)) ^ 2 / 12 * (derivative q).eval x)
    (fun x => by
      have := poly_panel_trap _ P hP (show q.natDegree ≤ 3 by omega) x ((b - a) / (1 : ℕ))
      linear_combination this)
  unfold definiteIntegralP definiteIntegral
  rw [if_pos rfl, ht]
  simp [liftErr, hd]

/-- **Exactness.**  For every segment count `n ≥ 2` — even, odd, or 3 — every interval and every
polynomial of degree ≤ 3 of either type, the composite Simpson integrator returns the integral. -/
theorem simpson_exact_cubic (powf : K → K → K) (p : AnyPoly K) (q : K[X])
    (hev : Evaluates powf p q) (hdeg : q.natDegree ≤ 3) (P : K[X]) (hP : derivative P = q)
    (a b : K) (n : ℕ) (hn : 2 ≤ n) :
    definiteIntegralP powf p a b n = .ok (P.eval b - P.eval a) := by
  have c4 : q.coeff 4 = 0 := coeff_eq_zero_of_natDegree_lt (by omega)
  have h13 := fun x h => poly_panel13 _ P hP (show q.natDegree ≤ 4 by omega) x h
  have h38 := fun x h => poly_panel38 _ P hP (show q.natDegree ≤ 4 by omega) x h
  simp only [c4, mul_zero, add_zero] at h13 h38
  unfold definiteIntegralP
  rw [definiteIntegral_spec hev a b n hn (fun x => P.eval x) 0 0
    (fun x => by rw [h13]; ring) (fun x => by rw [h38]; ring)]
  simp

/-- **Exact error for degree ≤ 4.**  `rule − integral` is `(b−a)·h⁴·f⁗/180` for even `n` and
`(b−a−3h)·h⁴·f⁗/180 + 3h⁵·f⁗/80` for odd `n` (the 3/8 panel on the last three segments), where
`f⁗ = 24·c₄` is constant. -/
theorem simpson_error_quartic_exact (powf : K → K → K) (p : AnyPoly K) (q : K[X])
    (hev : Evaluates powf p q) (hdeg : q.natDegree ≤ 4) (P : K[X]) (hP : derivative P = q)
    (a b : K) (n : ℕ) (hn : 2 ≤ n) :
    ∃ v, definiteIntegralP powf p a b n = .ok v ∧
      v - (P.eval b - P.eval a) =
        if n % 2 = 0 then (b - a) * ((b - a) / n) ^ 4 * (24 * q.coeff 4) / 180
        else (b - a - 3 * ((b - a) / n)) * ((b - a) / n) ^ 4 * (24 * q.coeff 4) / 180
          + 3 * ((b - a) / n) ^ 5 * (24 * q.coeff 4) / 80 := by
  have hn0 : (n : K) ≠ 0 := by exact_mod_cast (by omega : n ≠ 0)
  refine ⟨_, definiteIntegral_spec hev a b n hn (fun x => P.eval x) _ _
    (fun x => poly_panel13 _ P hP hdeg x _) (fun x => poly_panel38 _ P hP hdeg x _), ?_⟩
  by_cases hpar : n % 2 = 0
  · have hnq : ((n / 2 : ℕ) : K) * 2 = n := by
      have : n / 2 * 2 = n := by omega
      exact_mod_cast this
    simp only [hpar, if_true]
    have e : (b - a) = n * ((b - a) / n) := by field_simp
    generalize (b - a) / (n : K) = h at e ⊢
    rw [e, ← hnq]
    ring
  · have hnq : (((n - 3) / 2 : ℕ) : K) * 2 + 3 = n := by
      have : (n - 3) / 2 * 2 + 3 = n := by omega
      exact_mod_cast this
    simp only [hpar, if_false]
    have e : (b - a) = n * ((b - a) / n) := by field_simp
    generalize (b - a) / (n : K) = h at e ⊢
    rw [e, ← hnq]
    ring

end simpson

section bounds
variable {K : Type} [Field K] [LinearOrder K] [IsStrictOrderedRing K]

/-- **Error bound, degree ≤ 4**, in terms of the coefficient: for every `n ≥ 2`,
`|rule − integral| ≤ |b−a|·h⁴·|f⁗|/80` with `f⁗ = 24·c₄`.  (For `n = 3` this is an equality.) -/
theorem simpson_error_quartic_partial (powf : K → K → K) (p : AnyPoly K) (q : K[X])
    (hev : Evaluates powf p q) (hdeg : q.natDegree ≤ 4) (P : K[X]) (hP : derivative P = q)
    (a b : K) (n : ℕ) (hn : 2 ≤ n) :
    ∃ v, definiteIntegralP powf p a b n = .ok v ∧
      |v - (P.eval b - P.eval a)| ≤ |b - a| * ((b - a) / n) ^ 4 * |24 * q.coeff 4| / 80 := by
  have hM : ∀ x, min a b ≤ x → x ≤ max a b → |(derivative^[4] q).eval x| ≤ |24 * q.coeff 4| :=
    fun x _ _ => by rw [iterate_derivative_four _ hdeg, eval_C]
  exact definiteIntegral_error_bound q P hP (by omega) hev a b _ n hn hM

/-- **The error bound of the statement, every degree 0 … 8**, every `n ≥ 2` (even, odd, 3), every
interval, both polynomial types: if `M` bounds `|f⁗|` on the interval then
`|rule − integral| ≤ |b−a|·h⁴·M/80`.  Holds over every ordered field (no analysis: `panels_degree8`). -/
theorem simpson_error_bound (powf : K → K → K) (p : AnyPoly K) (q : K[X])
    (hev : Evaluates powf p q) (hdeg : q.natDegree ≤ 8) (P : K[X]) (hP : derivative P = q)
    (a b M : K) (n : ℕ) (hn : 2 ≤ n)
    (hM : ∀ x, min a b ≤ x → x ≤ max a b → |(derivative^[4] q).eval x| ≤ M) :
    ∃ v, definiteIntegralP powf p a b n = .ok v ∧
      |v - (P.eval b - P.eval a)| ≤ |b - a| * ((b - a) / n) ^ 4 * M / 80 :=
  definiteIntegral_error_bound q P hP hdeg hev a b M n hn hM

/-- The same bound with no restriction on the degree — **outside the property** (whose polynomials
have degree 0 … 8; the identities of `panels_degree8` hold up to degree 9 and fail at 10) and **not
proved**: it needs the Peano-kernel argument over ℝ.  Kept visible only to mark where the proof stops. -/
def simpson_error_bound_any_degree (K : Type) [Field K] [LinearOrder K] [IsStrictOrderedRing K] :
    Prop :=
  ∀ (powf : K → K → K) (p : AnyPoly K) (q P : K[X]) (a b M : K) (n : ℕ),
    Evaluates powf p q → derivative P = q → 2 ≤ n →
    (∀ x, min a b ≤ x → x ≤ max a b → |(derivative^[4] q).eval x| ≤ M) →
    ∃ v, definiteIntegralP powf p a b n = .ok v ∧
      |v - (P.eval b - P.eval a)| ≤ |b - a| * ((b - a) / n) ^ 4 * M / 80

end bounds

/-! ## `romberg_definite` -/
section romberg_total
variable {S : Type} [Add S] [Sub S] [Mul S] [Div S] [Neg S] [OfNat S 0] [OfNat S 1] [NatCast S]
  [LT S] [DecidableRel (α := S) (· < ·)] [LE S] [DecidableRel (α := S) (· ≤ ·)]

/-- **Never a panic.**  For every scalar type (so for `Float` itself), polynomial of either type,
interval, iteration cap and tolerance, the outcome is a value or an error — never `panic`: every
table index stays below the dimension the source declares (`SV.Gen.rombergTableDim`, regenerated from
`vec![vec![0.0; N]; N]` on every run, so this re-checks against what the source says now), `2^iter`
fits `u32` and `4^(k−1)` fits `usize`.  The error is `MaxIterationsReached` or an evaluation error the
polynomial really produced. -/
theorem romberg_no_panic (powf : S → S → S) (p : AnyPoly S) (a b : S) (cap : ℕ) (tol : S) :
    (∃ v, rombergP powf p a b cap tol = .ok v) ∨
    rombergP powf p a b cap tol = .err .maxIterationsReached ∨
    (∃ e x, p.evalUni powf x = .error e ∧ rombergP powf p a b cap tol = .err (.functionError e)) := by
  have h := romberg_allowed (dim := SV.Gen.rombergTableDim) (by decide) (by decide)
    (p.evalUni powf) a b cap tol
  unfold rombergP
  cases hr : romberg SV.Gen.rombergTableDim (p.evalUni powf) a b cap tol with
  | ok v => exact Or.inl ⟨v, rfl⟩
  | err e =>
    rw [hr] at h
    cases e with
    | maxIterationsReached => exact Or.inr (Or.inl rfl)
    | functionError e =>
      obtain ⟨x, hx⟩ := h
      exact Or.inr (Or.inr ⟨e, x, hx, rfl⟩)
  | panic => rw [hr] at h; exact absurd h (by simp [Allowed])

/-- For a polynomial whose evaluation cannot fail (every `SimplePolynomial`, every univariate
`IntermediatePolynomial`): a value or `MaxIterationsReached`, nothing else. -/
theorem romberg_total_outcomes (powf : S → S → S) (p : AnyPoly S)
    (htot : ∀ x, ∃ y, p.evalUni powf x = .ok y) (a b : S) (cap : ℕ) (tol : S) :
    (∃ v, rombergP powf p a b cap tol = .ok v) ∨
    rombergP powf p a b cap tol = .err .maxIterationsReached := by
  rcases romberg_no_panic powf p a b cap tol with h | h | ⟨e, x, hx, _⟩
  · exact Or.inl h
  · exact Or.inr h
  · obtain ⟨y, hy⟩ := htot x
    rw [hy] at hx
    cases hx

omit [OfNat S 1] in
/-- The model's recursion bound (`fuel`, started at the clamped cap) is never what ends the loop:
any bound of at least `cap − iter` passes gives the same answer. -/
theorem romberg_fuel_irrelevant (f : S → Except PErr S) (a b tol : S) (cap fuel fuel' iter0 : ℕ)
    (T : Table S) (h1 : cap ≤ fuel + iter0) (h2 : cap ≤ fuel' + iter0) :
    rombergLoop f a b tol cap fuel iter0 T = rombergLoop f a b tol cap fuel' iter0 T :=
  rombergLoop_fuel f a b tol cap fuel fuel' iter0 T h1 h2

end romberg_total

section romberg_value
variable {K : Type} [Field K] [LinearOrder K] [IsStrictOrderedRing K]

/-- **Romberg is exact for degree ≤ 3** (extension): whenever it returns a value — whatever the cap
and the tolerance, converged or not in any sense — that value is the integral.  (The trapezoid sums
are `I + C/n²` exactly; the first extrapolation `(4T₂ₙ − Tₙ)/3` removes `C`, and the higher columns
are `(p·I − I)/(p − 1) = I`.) -/
theorem romberg_exact_cubic (powf : K → K → K) (p : AnyPoly K) (q : K[X])
    (hev : Evaluates powf p q) (hdeg : q.natDegree ≤ 3) (P : K[X]) (hP : derivative P = q)
    (a b : K) (cap : ℕ) (tol v : K) (h : rombergP powf p a b cap tol = .ok v) :
    v = P.eval b - P.eval a := by
  refine romberg_exact (P.eval b - P.eval a)
    ((b - a) ^ 2 / 12 * ((derivative q).eval b - (derivative q).eval a))
    _ _ a b tol cap ?_ v h
  intro m
  have hm : 1 ≤ 2 ^ m := Nat.one_le_two_pow
  rw [trapezoid_spec hev a b (2 ^ m) hm
    (fun x => P.eval x + ((b - a) / ((2 ^ m : ℕ) : K)) ^ 2 / 12 * (derivative q).eval x)
    (fun x => by
      have := poly_panel_trap _ P hP hdeg x ((b - a) / ((2 ^ m : ℕ) : K))
      linear_combination this)]
  congr 1
  have h2 : ((2 ^ m : ℕ) : K) ^ 2 = 4 ^ m := by
    push_cast
    rw [← pow_mul, mul_comm, pow_mul]
    norm_num
  have h4 : (4 : K) ^ m ≠ 0 := by positivity
  rw [div_pow, h2]
  field_simp
  ring

end romberg_value

/-! ## Non-vacuity -/

/-- the hypotheses of the exactness and error theorems are satisfiable: a cubic over `ℚ` as a
`SimplePolynomial`, its antiderivative from the library's own `indefinite_integral`, and the conclusion
instantiated for an odd segment count -/
example : ∃ (cs : List ℚ) (P : ℚ[X]), (ofCoeffs cs).natDegree ≤ 3 ∧ derivative P = ofCoeffs cs ∧
    definiteIntegralP (fun x _ => x) (.simple ⟨cs, some 'x'⟩) 0 2 5 = .ok (P.eval 2 - P.eval 0) :=
  ⟨[1, 2, 3, 4], ofCoeffs (simpleInteg [1, 2, 3, 4]), natDegree_ofCoeffs_le _ 3 (by simp),
    derivative_ofCoeffs_simpleInteg _,
    simpson_exact_cubic _ _ _ (simple_evaluates _ _ _) (natDegree_ofCoeffs_le _ 3 (by simp)) _
      (derivative_ofCoeffs_simpleInteg _) 0 2 5 (by norm_num)⟩

/-- … and an `IntermediatePolynomial` `1 + 2x + 4x³` with a `powf` over `ℚ` that is the power function
at natural exponents: it `Evaluates`, and the model integrates it exactly with 5 segments -/
example : ∃ powf : ℚ → ℚ → ℚ, (∀ (x : ℚ) (k : ℕ), powf x (k : ℚ) = x ^ k) ∧
    Evaluates powf (.inter ⟨[⟨1, []⟩, ⟨2, [("x", ((1 : ℕ) : ℚ))]⟩, ⟨4, [("x", ((3 : ℕ) : ℚ))]⟩], ["x"]⟩)
      (C 1 + (C 2 * X ^ 1 + (C 4 * X ^ 3 + 0))) ∧
    definiteIntegralP powf
      (.inter ⟨[⟨1, []⟩, ⟨2, [("x", ((1 : ℕ) : ℚ))]⟩, ⟨4, [("x", ((3 : ℕ) : ℚ))]⟩], ["x"]⟩) 0 2 5
      = .ok 22 := by
  refine ⟨fun x y => if y.den = 1 then x ^ y.num.toNat else 0, fun x k => by simp, ?_, by decide +kernel⟩
  exact inter_evaluates _ (fun x k => by simp) "x" _ _
    (Denotes.const 1 (Denotes.pow 2 1 (Denotes.pow 4 3 Denotes.nil)))

/-- the model really computes: Simpson with 3 segments on `x³` over `[0, 3]` is `81/4`, and on `x⁴`
over `[0, 3]` it is `243/5 + 3·24/80` (the exact error term of `simpson_error_quartic_exact`) -/
example : definiteIntegralP (fun x _ => x) (.simple ⟨[0, 0, 0, (1 : ℚ)], some 'x'⟩) 0 3 3
    = .ok (81 / 4) := by decide +kernel
example : definiteIntegralP (fun x _ => x) (.simple ⟨[0, 0, 0, 0, (1 : ℚ)], some 'x'⟩) 0 3 3
    = .ok (243 / 5 + 3 * 24 / 80) := by decide +kernel

/-- Romberg does return values (so `romberg_exact_cubic` is not vacuous), and does return its
non-convergence error on the integral-zero input of D11 with a cap far beyond the table -/
example : rombergP (fun x _ => x) (.simple ⟨[1, 2, 3, (4 : ℚ)], some 'x'⟩) 0 2 5 1 = .ok 30 := by
  decide +kernel
example : rombergP (fun x _ => x) (.simple ⟨[0, 0, 0, (1 : ℚ)], some 'x'⟩) (-1) 1 1000 (-1)
    = .err .maxIterationsReached := by
  decide +kernel

end SV.Props.C05
