//! C16 — parsers are total, and acceptance implies fidelity.
//!
//!   parse1 <text>                     univariate parser on arbitrary text
//!   parse2 <text>                     multivariate parser on arbitrary text
//!   enum <parser> <maxlen> <prefix>   every string over the 15-symbol alphabet extending <prefix> up to
//!                                     <maxlen> characters: `<strings> <accepted> <fnv64 of the answers>`
//!
//!   enumx <parser> <maxlen> <alphabet> <prefix>   the same over any alphabet (letters of both cases, deeper sub-alphabets)
//!   o1 <text> / o2 <text>             arbitrary Unicode text (any character class), judged by the oracle alone
//!   long <parser> <kind> <n>          a text of up to 10^6 characters built from (kind, n); totality + exact meaning
//!   long <parser> <100+site> <char>   every long fragment (1..80, 130, 200, 260 bytes) at `site` (exponent, coefficient, constant,
//!                                     variable run, fraction ...) with multi-byte character number <char> at every byte offset:
//!                                     never a panic, an accepted text means what it says
//!   long <parser> <200+site> <code>   one case of such a sweep, code = ((twin * 100 + char) * 1000 + bytes) * 1000 + offset
//!
//! Oracle (independent of the Lean model): a *conventional-reading* evaluator.  Whenever a parser accepts a
//! text, the text (white space removed) must have a reading as an arithmetic expression over numbers,
//! single-letter variables, + - * / ^, parentheses, juxtaposition and unary signs, and the returned
//! polynomial must take the reading's value at three points (allowance 1e-9 of the largest magnitude met) and at the two
//! exact points "every variable = 1" and "every variable = 2" (allowance: a few units in the last place, `tight_points`);
//! a text with no reading must be rejected.
use crate::c01::show_parsed as show1;
use crate::c02::show_parsed as show2;
use crate::util::*;
use spindalis_core::polynomials::intermediate::parse_intermediate_polynomial;
use spindalis_core::polynomials::simple::parse_simple_polynomial;
use spindalis_core::polynomials::structs::{IntermediatePolynomial, PolynomialTraits, SimplePolynomial};

pub const ALPHABET: &[char] = &['x', 'y', '2', '3', '0', '.', '^', '+', '-', '/', '*', '(', ')', ' ', '#'];
/// letters of both cases, a third letter, non-ASCII letters (in the model's class table) with the core operators
pub const LETTER_ALPHABET: &[char] = &['x', 'X', 'y', 'k', 'é', 'Ω', '2', '^', '+', '-', '.', ' '];
pub const ALL52_ALPHABET: &str = "abcdefghijklmnopqrstuvwxyzABCDEFGHIJKLMNOPQRSTUVWXYZ2^+-. /é";
pub const DEEP_ALPHABET: &[char] = &['x', 'y', '2', '^', '+', '-', '.', '/'];
/// characters next to the accepted ones in Unicode order, and look-alikes of the accepted ones
pub const CONFUSABLES: &[char] = &[
    '/', ':', ',', '*', ')', '(', ']', '_', '`', '@', '[', '{', '~', '!', '$', '%', '&', '=', '<', '>', '?', '|', '\\', '"', '\'', ';', '#',
    '\u{2212}', '\u{2010}', '\u{2011}', '\u{2012}', '\u{2013}', '\u{2014}', '\u{ad}', '\u{fe63}', '\u{ff0d}', // minus / hyphen look-alikes
    '\u{ff0b}', '\u{207a}', '\u{2795}', '\u{fe62}', // plus
    '\u{ff3e}', '\u{2c6}', '\u{2c4}', '\u{302}', // caret
    '\u{2044}', '\u{2215}', '\u{ff0f}', '\u{f7}', // slash / division
    '\u{b7}', '\u{d7}', '\u{22c5}', '\u{2217}', '\u{ff0a}', // multiplication
    '\u{ff0e}', '\u{2024}', '\u{66b}', '\u{66c}', '\u{201a}', // decimal point / separators
    '\u{200b}', '\u{200c}', '\u{200d}', '\u{2060}', '\u{feff}', '\u{180e}', '\u{0}', '\u{7f}', '\u{1b}', '\u{1c}', '\u{1f}', // invisible, not white space
    '\u{fffd}', '\u{10ffff}', '\u{e000}', '\u{1f600}', '\u{d7ff}',
];
/// numeric characters that are not ASCII digits (decimal digits of other scripts, superscripts, fractions, letter numbers)
pub const NUMERICS: &[char] = &[
    '²', '³', '¹', '⁰', '⁴', '₂', '½', '¼', '٣', '۲', '०', '২', '０', '１', '２', '９', '𝟐', '𝟚', 'Ⅳ', 'ⅷ', '①', '㊀', '〇', '零', '𐄇',
];

// ---------------------------------------------------------------- conventional reading

#[derive(Clone, Debug, PartialEq)]
enum Tk {
    Num(f64),
    Var(char),
    Op(char),
}

fn tokenize(s: &[char]) -> Option<Vec<Tk>> {
    let mut out = Vec::new();
    let mut i = 0;
    while i < s.len() {
        let c = s[i];
        if c.is_ascii_digit() || c == '.' {
            let st = i;
            let mut dots = 0;
            let mut digits = 0;
            while i < s.len() && (s[i].is_ascii_digit() || s[i] == '.') {
                if s[i] == '.' {
                    dots += 1;
                } else {
                    digits += 1;
                }
                i += 1;
            }
            if dots > 1 || digits == 0 {
                return None;
            }
            let text: String = s[st..i].iter().collect();
            out.push(Tk::Num(text.parse::<f64>().ok()?));
        } else if c.is_alphabetic() {
            out.push(Tk::Var(c));
            i += 1;
        } else if "+-*/^()".contains(c) {
            out.push(Tk::Op(c));
            i += 1;
        } else {
            return None; // a symbol with no arithmetic meaning
        }
    }
    Some(out)
}

#[derive(Debug)]
enum Ex {
    Num(f64),
    Var(char),
    Neg(Box<Ex>),
    Bin(char, Box<Ex>, Box<Ex>),
}

struct Rd<'a> {
    t: &'a [Tk],
    i: usize,
    /// multivariate documented grammar: after '^' an exponent `[-] num [/ num]` binds as a whole
    frac_exp: bool,
}

impl<'a> Rd<'a> {
    fn peek(&self) -> Option<&Tk> {
        self.t.get(self.i)
    }
    fn expr(&mut self) -> Option<Ex> {
        let mut l = self.term()?;
        while let Some(Tk::Op(c)) = self.peek().cloned() {
            if c == '+' || c == '-' {
                self.i += 1;
                let r = self.term()?;
                l = Ex::Bin(c, Box::new(l), Box::new(r));
            } else {
                break;
            }
        }
        Some(l)
    }
    fn term(&mut self) -> Option<Ex> {
        let mut l = self.unary()?;
        loop {
            match self.peek().cloned() {
                Some(Tk::Op(c)) if c == '*' || c == '/' => {
                    self.i += 1;
                    let r = self.unary()?;
                    l = Ex::Bin(c, Box::new(l), Box::new(r));
                }
                Some(Tk::Num(_)) | Some(Tk::Var(_)) | Some(Tk::Op('(')) => {
                    // juxtaposition
                    let r = self.power()?;
                    l = Ex::Bin('*', Box::new(l), Box::new(r));
                }
                _ => break,
            }
        }
        Some(l)
    }
    fn unary(&mut self) -> Option<Ex> {
        match self.peek().cloned() {
            Some(Tk::Op('-')) => {
                self.i += 1;
                Some(Ex::Neg(Box::new(self.unary()?)))
            }
            Some(Tk::Op('+')) => {
                self.i += 1;
                self.unary()
            }
            _ => self.power(),
        }
    }
    fn power(&mut self) -> Option<Ex> {
        let base = self.atom()?;
        if let Some(Tk::Op('^')) = self.peek() {
            self.i += 1;
            let e = self.exponent()?;
            return Some(Ex::Bin('^', Box::new(base), Box::new(e)));
        }
        Some(base)
    }
    fn exponent(&mut self) -> Option<Ex> {
        let neg = if let Some(Tk::Op('-')) = self.peek() {
            self.i += 1;
            true
        } else {
            false
        };
        let mut e = if self.frac_exp {
            match self.peek().cloned() {
                Some(Tk::Num(a)) => {
                    self.i += 1;
                    if let (Some(Tk::Op('/')), Some(Tk::Num(b))) = (self.t.get(self.i).cloned(), self.t.get(self.i + 1).cloned()) {
                        self.i += 2;
                        Ex::Bin('/', Box::new(Ex::Num(a)), Box::new(Ex::Num(b)))
                    } else {
                        Ex::Num(a)
                    }
                }
                _ => self.power()?,
            }
        } else {
            self.power()?
        };
        if neg {
            e = Ex::Neg(Box::new(e));
        }
        Some(e)
    }
    fn atom(&mut self) -> Option<Ex> {
        match self.peek().cloned() {
            Some(Tk::Num(v)) => {
                self.i += 1;
                Some(Ex::Num(v))
            }
            Some(Tk::Var(c)) => {
                self.i += 1;
                Some(Ex::Var(c))
            }
            Some(Tk::Op('(')) => {
                self.i += 1;
                let e = self.expr()?;
                if let Some(Tk::Op(')')) = self.peek() {
                    self.i += 1;
                    Some(e)
                } else {
                    None
                }
            }
            _ => None,
        }
    }
}

thread_local! {
    /// set when the reading divides by exactly zero (the text has no value, whatever the point)
    static DIV_BY_ZERO: std::cell::Cell<bool> = const { std::cell::Cell::new(false) };
}

/// value of the reading; `big` records the largest magnitude met on the way (points where the reading itself
/// leaves the comfortable range of binary64 are not used for the comparison)
fn eval(e: &Ex, env: &dyn Fn(char) -> f64, big: &mut f64) -> f64 {
    let v = match e {
        Ex::Num(v) => *v,
        Ex::Var(c) => env(*c),
        Ex::Neg(a) => -eval(a, env, big),
        Ex::Bin(op, a, b) => {
            let (x, y) = (eval(a, env, big), eval(b, env, big));
            match op {
                '+' => x + y,
                '-' => x - y,
                '*' => x * y,
                '/' => {
                    if y == 0.0 {
                        DIV_BY_ZERO.with(|f| f.set(true));
                    }
                    x / y
                }
                _ => x.powf(y),
            }
        }
    };
    if !(v.abs() <= *big) {
        *big = if v.is_nan() { f64::INFINITY } else { v.abs() };
    }
    v
}

/// `None` = no conventional reading; `Some(None)` = the empty text (reads as 0)
fn reading(text: &str, frac_exp: bool) -> Option<Option<Ex>> {
    let chars: Vec<char> = text.chars().filter(|c| !c.is_whitespace()).collect();
    if chars.is_empty() {
        return Some(None);
    }
    let toks = tokenize(&chars)?;
    let mut rd = Rd { t: &toks, i: 0, frac_exp };
    let e = rd.expr()?;
    if rd.i != toks.len() {
        return None;
    }
    Some(Some(e))
}

fn env_at(k: usize) -> impl Fn(char) -> f64 {
    move |c: char| {
        let base = [[1.7, 0.6], [0.9, 2.3], [2.5, 1.2]][k];
        match c {
            'x' => base[0],
            'y' => base[1],
            _ => 0.5 + ((c as u32 as f64 * 0.37 + k as f64 * 0.11) % 1.9),
        }
    }
}

/// `big` = largest magnitude met while evaluating the reading: both evaluations round at that scale
fn close(a: f64, b: f64, big: f64) -> bool {
    if !b.is_finite() {
        return true; // the reading itself has no value here (division by zero …)
    }
    a.is_finite() && (a - b).abs() <= 1e-9 * big.max(1.0)
}

const EPS: f64 = 2.220446049250313e-16;

/// sum of |exponent| over the powers of the reading: the rounding of an exponent (and of a merged exponent of a repeated
/// variable) is amplified by |exponent| * |ln x| in the value
fn exponent_mass(e: &Ex, env: &dyn Fn(char) -> f64) -> f64 {
    match e {
        Ex::Num(_) | Ex::Var(_) => 0.0,
        Ex::Neg(a) => exponent_mass(a, env),
        Ex::Bin('^', a, b) => {
            let mut big = 0.0;
            exponent_mass(a, env) + eval(b, env, &mut big).abs()
        }
        Ex::Bin(_, a, b) => exponent_mass(a, env) + exponent_mass(b, env),
    }
}

/// "takes EXACTLY the values of that reading": two points where both evaluations are exact up to a few roundings, so that
/// a coefficient or an exponent that was read a relative 1e-9 .. 1e-14 off what the text says (a value next to a whole
/// number "tidied" to it, a ratio of huge integers taken for its neighbour) is seen, which the three general points with
/// their 1e-9 allowance cannot.  Every variable = 1: whatever the exponents, the value is the sum of the coefficients in
/// the order written.  Every variable = 2: every whole power is exact, a fractional one is one correctly rounded `powf`.
/// Allowance: a few units in the last place of the largest magnitude met, per character and per pair of terms (the
/// univariate parser adds like terms first and sums by ascending power), plus the rounding of the exponents amplified by
/// |exponent| * ln 2.  Abstains where the reading leaves the comfortable range, as the general points do.
fn tight_points(text: &str, e: &Ex, got_at: &dyn Fn(f64) -> Result<f64, String>) -> Result<(), String> {
    let chars = text.chars().filter(|c| !c.is_whitespace()).count() as f64;
    let terms = 1.0 + text.chars().filter(|c| *c == '+' || *c == '-').count() as f64;
    for x in [1.0f64, 2.0] {
        let env = move |_c: char| x;
        let mut big = 0.0;
        let want = eval(e, &env, &mut big);
        if !want.is_finite() || !(1e-200..=1e100).contains(&big) {
            continue;
        }
        let mass = exponent_mass(e, &env);
        if !mass.is_finite() {
            continue;
        }
        let got = got_at(x)?;
        let tol = EPS * big * (16.0 + 4.0 * chars + 2.0 * terms * terms + 8.0 * mass * x.ln().abs());
        if !(got.is_finite() && (got - want).abs() <= tol) {
            return Err(format!(
                "misread: with every variable = {x:?} the polynomial gives {got:?}, the text reads as {want:?} (beyond the rounding of either evaluation)"
            ));
        }
    }
    Ok(())
}

pub fn fidelity1(text: &str, r: &Result<SimplePolynomial, spindalis_core::polynomials::PolynomialError>) -> Result<(), String> {
    let Ok(p) = r else { return Ok(()) };
    match reading(text, false) {
        None => Err("the univariate parser accepted a text with no conventional reading".into()),
        Some(None) => {
            if p.coefficients.iter().all(|c| *c == 0.0) { Ok(()) } else { Err("empty text read as a non-zero polynomial".into()) }
        }
        Some(Some(e)) => {
            let mut div0 = 0;
            for k in 0..3 {
                DIV_BY_ZERO.with(|f| f.set(false));
                let env = env_at(k);
                let x = p.variable.map(|c| env(c)).unwrap_or(1.0);
                let got = p.eval_univariate(x).map_err(|e| format!("eval failed {e:?}"))?;
                let mut big = 0.0;
                let want = eval(&e, &env, &mut big);
                if DIV_BY_ZERO.with(|f| f.get()) {
                    div0 += 1;
                }
                if big > 1e100 {
                    continue; // overflow territory: exponents are merged/ordered differently
                }
                if !close(got, want, big) {
                    return Err(format!("misread: the polynomial gives {got:?}, the text reads as {want:?}"));
                }
            }
            if div0 == 3 {
                return Err("accepted a text whose reading divides by zero at every point (it has no value)".into());
            }
            tight_points(text, &e, &|x| p.eval_univariate(x).map_err(|e| format!("eval failed {e:?}")))
        }
    }
}

pub fn fidelity2(text: &str, r: &Result<IntermediatePolynomial, spindalis_core::polynomials::PolynomialError>) -> Result<(), String> {
    let Ok(p) = r else { return Ok(()) };
    match reading(text, true) {
        None => Err("the multivariate parser accepted a text with no conventional reading".into()),
        Some(None) => {
            if p.terms.is_empty() { Ok(()) } else { Err("empty text read as a non-zero polynomial".into()) }
        }
        Some(Some(e)) => {
            let mut div0 = 0;
            for k in 0..3 {
                DIV_BY_ZERO.with(|f| f.set(false));
                let env = env_at(k);
                let binds: Vec<(String, f64)> =
                    p.variables.iter().map(|v| (v.clone(), env(v.chars().next().unwrap_or('x')))).collect();
                let got = p.eval_multivariate(&binds).map_err(|e| format!("eval failed {e:?}"))?;
                let mut big = 0.0;
                let want = eval(&e, &env, &mut big);
                if DIV_BY_ZERO.with(|f| f.get()) {
                    div0 += 1;
                }
                if big > 1e100 {
                    continue; // overflow territory: exponents are merged/ordered differently
                }
                if !close(got, want, big) {
                    return Err(format!("misread: the polynomial gives {got:?}, the text reads as {want:?}"));
                }
            }
            if div0 == 3 {
                return Err("accepted a text whose reading divides by zero at every point (it has no value)".into());
            }
            tight_points(text, &e, &|x| {
                let binds: Vec<(String, f64)> = p.variables.iter().map(|v| (v.clone(), x)).collect();
                p.eval_multivariate(&binds).map_err(|e| format!("eval failed {e:?}"))
            })
        }
    }
}

// ---------------------------------------------------------------- requests

fn fnv_str(mut h: u64, s: &str) -> u64 {
    for b in s.bytes().chain(std::iter::once(10u8)) {
        h = (h ^ b as u64).wrapping_mul(0x100000001b3);
    }
    h
}

struct Acc {
    n: u64,
    ok: u64,
    h: u64,
    first_fail: Option<(String, String)>,
}

/// `f<bits>` tokens -> `g<bits rounded to 24 significant bits>` (lean/SV/Model/C16.lean `fmtNumCoarse`)
fn coarse_floats(a: &str) -> String {
    a.split(' ')
        .map(|t| match t.strip_prefix('f').and_then(|d| d.parse::<u64>().ok()) {
            Some(b) => format!("g{}", b.wrapping_add(1 << 28) >> 29),
            None => t.to_string(),
        })
        .collect::<Vec<_>>()
        .join(" ")
}

/// two entry points tell the same story: the same value, or both an error (of whichever kind)
fn same_story(a: &str, b: &str) -> bool {
    a == b || (a.starts_with("err") && b.starts_with("err"))
}

fn answer(parser: usize, text: &str) -> (String, Result<(), String>) {
    if parser == 1 {
        match catch(|| SimplePolynomial::parse(text)) {
            Some(r) => {
                let a = show1(&r);
                // every entry point of the univariate parser tells the same story
                let verdict = fidelity1(text, &r).and_then(|_| match catch(|| (parse_simple_polynomial(text), parse_simple_polynomial(text.to_string()))) {
                    None => Err("parse_simple_polynomial panicked".to_string()),
                    Some((f, g)) => {
                        if same_story(&show1(&f), &a) && same_story(&show1(&g), &a) {
                            Ok(())
                        } else {
                            Err(format!("entry points differ: trait `{a}`, free function `{}` / `{}`", show1(&f), show1(&g)))
                        }
                    }
                });
                (a, verdict)
            }
            None => ("panic".into(), Err("the parser panicked".into())),
        }
    } else {
        match catch(|| IntermediatePolynomial::parse(text)) {
            Some(r) => {
                let a = show2(&r);
                let verdict = fidelity2(text, &r).and_then(|_| match catch(|| (parse_intermediate_polynomial(text), parse_intermediate_polynomial(text.to_string()))) {
                    None => Err("parse_intermediate_polynomial panicked".to_string()),
                    Some((f, g)) => {
                        if same_story(&show2(&f), &a) && same_story(&show2(&g), &a) {
                            Ok(())
                        } else {
                            Err(format!("entry points differ: trait `{a}`, free function `{}` / `{}`", show2(&f), show2(&g)))
                        }
                    }
                });
                (a, verdict)
            }
            None => ("panic".into(), Err("the parser panicked".into())),
        }
    }
}

fn enum_from(parser: usize, alphabet: &[char], budget: usize, s: &mut String, acc: &mut Acc) {
    let (a, v) = answer(parser, s);
    acc.n += 1;
    if a.starts_with("ok") {
        acc.ok += 1;
    }
    // "a value or an error": which error variant a rejected text gets is not part of the property - the digest hashes
    // `err` for every rejection (the model's driver does the same), the accepted values in full
    // Coefficients of a univariate text with two or more sign characters (only such a text can have three or more like
    // terms, whose sum depends - in the last bits - on the order in which the parser adds them, which no property fixes)
    // are hashed rounded to 24 significant bits; everything else with all 64 bits.
    let coarse = parser == 1 && s.chars().filter(|c| *c == '+' || *c == '-').count() >= 2;
    let hashed = if a.starts_with("err") { "err".to_string() } else if coarse { coarse_floats(&a) } else { a.clone() };
    acc.h = fnv_str(acc.h, &hashed);
    if let Err(e) = v {
        let better = match &acc.first_fail {
            None => true,
            Some((t, _)) => s.chars().count() < t.chars().count(),
        };
        if better {
            acc.first_fail = Some((s.clone(), e));
        }
    }
    if budget > 0 {
        for c in alphabet {
            s.push(*c);
            enum_from(parser, alphabet, budget - 1, s, acc);
            s.pop();
        }
    }
}

pub fn run(line: &str) -> Obs {
    let mut t = Toks::new(line);
    match t.tok() {
        cmd @ ("parse1" | "parse2") => {
            let text = t.string();
            let (a, v) = answer(if cmd == "parse1" { 1 } else { 2 }, &text);
            Obs::with(a, v)
        }
        cmd @ ("enum" | "enumx") => {
            let parser = t.usize();
            let maxlen = t.usize();
            let alphabet: Vec<char> = if cmd == "enumx" { t.string().chars().collect() } else { ALPHABET.to_vec() };
            let mut prefix = t.string();
            let mut acc = Acc { n: 0, ok: 0, h: 0xcbf29ce484222325, first_fail: None };
            let budget = maxlen.saturating_sub(prefix.chars().count());
            enum_from(parser, &alphabet, budget, &mut prefix, &mut acc);
            let verdict = match acc.first_fail {
                None => Ok(()),
                Some((s, e)) => Err(format!("on {:?} [{}]: {e}", s, req_string(&s))),
            };
            Obs::with(format!("{} {} {}", acc.n, acc.ok, acc.h), verdict)
        }
        cmd @ ("o1" | "o2") => {
            let text = t.string();
            let (a, v) = answer(if cmd == "o1" { 1 } else { 2 }, &text);
            Obs::with(a, v)
        }
        "long" => {
            let parser = t.usize();
            let kind = t.usize();
            let n = t.usize();
            let (a, v) = if kind == 300 { codepoint_sweep(parser, n) } else if kind >= 200 { frag_single(parser, kind - 200, n) } else if kind >= 100 { frag_sweep(parser, kind - 100, n) } else { long_case(parser, kind, n) };
            Obs::with(a, v)
        }
        other => panic!("unknown C16 request {other}"),
    }
}

// ---------------------------------------------------------------- every code point in a sign / operand position

/// `long <parser> 300 <plane>`: EVERY code point of Unicode plane `plane` (0..=16) is placed where a sign, a digit or a
/// letter could stand — `x^2 + C3`, `4x^C2`, `Cx`, `xC`, `2Cx`, `x^2C+ 1`.  White space (char::is_whitespace) must make
/// no difference; a character that is neither alphanumeric nor an arithmetic symbol (ASCII or look-alike) has no arithmetic meaning
/// and must make the parser refuse the text (never a panic, never a polynomial: a code point silently read as `-`, the
/// placeholder of a normalisation pass, is found here whatever it is — D32 was `@`, seed C16-s5 U+E02D).
fn codepoint_sweep(parser: usize, plane: usize) -> (String, Result<(), String>) {
    let parse_ok = |text: &str| -> Option<bool> {
        if parser == 1 {
            catch(|| parse_simple_polynomial(text).is_ok())
        } else {
            catch(|| parse_intermediate_polynomial(text).is_ok())
        }
    };
    let templates: [(&str, &str); 6] = [("x^2 + ", "3"), ("4x^", "2"), ("", "x"), ("x", ""), ("2", "x"), ("x^2", "+ 1")];
    let mut tried = 0usize;
    let mut verdict: Result<(), String> = Ok(());
    'outer: for cp in (plane as u32 * 0x10000)..((plane as u32 + 1) * 0x10000) {
        let Some(c) = char::from_u32(cp) else { continue };
        // symbols WITH an arithmetic meaning are not judged here (accepting `2*x` as 2x is a conventional reading; the
        // reference reader judges accepted texts over the enumeration alphabet): ASCII operators and brackets and their
        // Unicode look-alikes
        if c.is_alphanumeric() || "+-./^*()[]{}·×⋅∙−∕÷⁄∗".contains(c) {
            continue;
        }
        for (pre, post) in templates {
            let text = format!("{pre}{c}{post}");
            tried += 1;
            match parse_ok(&text) {
                None => {
                    verdict = Err(format!("panic on `{pre}<U+{cp:04X}>{post}`"));
                    break 'outer;
                }
                Some(ok) => {
                    if c.is_whitespace() {
                        let plain = format!("{pre}{post}");
                        if parse_ok(&plain) != Some(ok) {
                            verdict = Err(format!("the white-space character U+{cp:04X} changes the answer for `{pre}{post}`"));
                            break 'outer;
                        }
                    } else if ok {
                        verdict = Err(format!(
                            "`{pre}<U+{cp:04X}>{post}` is accepted although U+{cp:04X} is neither alphanumeric, white space nor a symbol of the grammar: a character without arithmetic meaning was dropped or read as something else"
                        ));
                        break 'outer;
                    }
                }
            }
        }
    }
    (format!("swept {tried}"), verdict)
}

// ---------------------------------------------------------------- very long texts

const LETTERS52: &str = "abcdefghijklmnopqrstuvwxyzABCDEFGHIJKLMNOPQRSTUVWXYZ";

/// what a long text must mean
enum Expect {
    /// accepted, with this value at each listed point (single variable `x`; exact small integers / dyadics)
    Values(Vec<(f64, f64)>),
    /// rejected (a value would be a misreading), never a panic
    Reject,
    /// either, but never a panic; if accepted the value at the points must be these
    RejectOr(Vec<(f64, f64)>),
    /// accepted: multivariate structure count checks (terms, distinct variables) and value with every variable = 1
    Multi { terms: usize, variables: usize, at_ones: f64 },
}

fn long_text(kind: usize, n: usize) -> (String, Expect) {
    let nf = n as f64;
    match kind {
        // n copies of "3x^2-2x+1" joined by '+': like powers are summed over thousands of terms
        0 => {
            let mut s = String::with_capacity(10 * n);
            for i in 0..n {
                if i > 0 {
                    s.push('+');
                }
                s.push_str("3x^2-2x+1");
            }
            (s, Expect::Values(vec![(2.0, 9.0 * nf), (-1.0, 6.0 * nf), (0.5, 0.75 * nf), (0.0, nf)]))
        }
        // an exponent with n leading zeros
        1 => (format!("2x^{}7+1", "0".repeat(n)), Expect::Values(vec![(2.0, 257.0), (-1.0, -1.0), (1.0, 3.0)])),
        // n white-space characters of every kind inside and around "2x+1"
        2 => {
            let ws = crate::c01::ALL_SPACES;
            let run = |k: usize| -> String { (0..k).map(|i| ws[i % ws.len()]).collect() };
            (format!("{}2{}x{}+{}1{}", run(n / 4), run(n / 4), run(n / 4), run(n / 4), run(n / 8)), Expect::Values(vec![(2.0, 5.0), (-3.0, -5.0)]))
        }
        // x repeated n times: x^n for the multivariate parser, not in the univariate grammar
        3 => ("x".repeat(n), Expect::RejectOr(vec![(1.0, 1.0), (-1.0, if n % 2 == 0 { 1.0 } else { -1.0 })])),
        // n minus signs in front of x (doubled operators)
        4 => (format!("{}x", "-".repeat(n)), if n <= 1 { Expect::Values(vec![(2.0, if n == 1 { -2.0 } else { 2.0 })]) } else { Expect::RejectOr(vec![(2.0, if n % 2 == 0 { 2.0 } else { -2.0 })]) }),
        // n nested parentheses
        5 => (format!("{}x{}", "(".repeat(n), ")".repeat(n)), Expect::RejectOr(vec![(2.0, 2.0), (-1.5, -1.5)])),
        // a tower of n exponents x^2^2^...: x^(2^(2^...)), an even power for n >= 2 (no parser of this library models it)
        6 => (
            format!("x{}", "^2".repeat(n)),
            if n <= 1 { Expect::Values(vec![(3.0, if n == 1 { 9.0 } else { 3.0 })]) } else { Expect::RejectOr(vec![(1.0, 1.0), (-1.0, 1.0)]) },
        ),
        // n dots / n carets in a row
        7 => (format!("{}x", ".".repeat(n)), if n == 0 { Expect::Values(vec![(2.0, 2.0)]) } else { Expect::Reject }),
        8 => (
            format!("x{}2", "^".repeat(n)),
            match n {
                0 => Expect::RejectOr(vec![(3.0, 6.0)]),
                1 => Expect::Values(vec![(3.0, 9.0)]),
                _ => Expect::Reject,
            },
        ),
        // a dangling operator after n terms
        9 => (format!("{}+", "x+".repeat(n)), Expect::Reject),
        // x^0 + x^1 + ... + x^(n-1): a dense vector of n ones (n up to the exponent cap + 1)
        10 => {
            let mut s = String::with_capacity(8 * n);
            for i in 0..n {
                if i > 0 {
                    s.push('+');
                }
                s.push_str(&format!("x^{i}"));
            }
            (s, Expect::Values(vec![(1.0, nf), (-1.0, if n % 2 == 0 { 0.0 } else { 1.0 }), (0.0, 1.0)]))
        }
        // n terms cycling through all 52 letters: "a+b+...+Z+a+..."  (multivariate only)
        11 => {
            let l: Vec<char> = LETTERS52.chars().collect();
            let mut s = String::with_capacity(2 * n);
            for i in 0..n {
                if i > 0 {
                    s.push('+');
                }
                s.push(l[i % 52]);
            }
            (s, Expect::Multi { terms: n, variables: n.min(52), at_ones: nf })
        }
        // one term: all 52 letters, the whole run repeated n times (every exponent is n)
        12 => (format!("3{}", LETTERS52.repeat(n)), Expect::Multi { terms: 1, variables: 52, at_ones: 3.0 }),
        // n non-ASCII letters / n symbols without meaning / n non-ASCII digits
        13 => ("é".repeat(n), Expect::RejectOr(vec![(1.0, 1.0), (-1.0, if n % 2 == 0 { 1.0 } else { -1.0 })])),
        14 => (format!("x+{}", "😀".repeat(n)), Expect::Reject),
        15 => (format!("{}x", "²".repeat(n)), Expect::Reject),
        // a coefficient of n digits (beyond 308 digits the value is not a finite binary64: accepted or not, no panic)
        16 => {
            let digits = "7".repeat(n);
            let pts = if n <= 300 { vec![(1.0, digits.parse::<f64>().unwrap()), (0.0, 0.0)] } else { vec![] };
            (format!("{digits}x"), Expect::RejectOr(pts))
        }
        // a coefficient with n fractional digits
        17 => (format!("0.{}5x+1", "0".repeat(n)), Expect::Values(vec![(0.0, 1.0)])),
        // n copies of "-x^3" with no separator: every '-' starts a term
        18 => ("-x^3".repeat(n), Expect::Values(vec![(1.0, -nf), (-1.0, nf), (2.0, -8.0 * nf)])),
        // n alternating variables in one term (multivariate): (xy)^n
        _ => ("xy".repeat(n), Expect::RejectOr(vec![(1.0, 1.0)])),
    }
}

fn long_case(parser: usize, kind: usize, n: usize) -> (String, Result<(), String>) {
    let (text, expect) = long_text(kind, n);
    let close = |a: f64, b: f64| a == b || (a - b).abs() <= 1e-9 * b.abs().max(1e-300);
    // value of the accepted polynomial with x = the point (and every other variable = the point as well)
    let (shown, accepted, values, structure): (String, bool, Result<Vec<f64>, String>, Option<(usize, usize)>) = if parser == 1 {
        match catch(|| parse_simple_polynomial(&text)) {
            None => return ("panic".into(), Err(format!("the univariate parser panicked on a text of {} characters", text.chars().count()))),
            Some(Err(e)) => (format!("err {}", crate::polyio::err_kind(&e)), false, Ok(vec![]), None),
            Some(Ok(p)) => {
                let pts: Vec<f64> = match &expect {
                    Expect::Values(v) | Expect::RejectOr(v) => v.iter().map(|q| q.0).collect(),
                    Expect::Multi { .. } => vec![1.0],
                    Expect::Reject => vec![],
                };
                let vals = catch(|| pts.iter().map(|x| p.eval_univariate(*x).map_err(|e| format!("{e:?}"))).collect::<Result<Vec<f64>, String>>());
                (format!("ok {}", p.coefficients.len()), true, vals.unwrap_or(Err("evaluation panicked".into())), None)
            }
        }
    } else {
        match catch(|| parse_intermediate_polynomial(&text)) {
            None => return ("panic".into(), Err(format!("the multivariate parser panicked on a text of {} characters", text.chars().count()))),
            Some(Err(e)) => (format!("err {}", crate::polyio::err_kind(&e)), false, Ok(vec![]), None),
            Some(Ok(p)) => {
                let pts: Vec<f64> = match &expect {
                    Expect::Values(v) | Expect::RejectOr(v) => v.iter().map(|q| q.0).collect(),
                    Expect::Multi { .. } => vec![1.0],
                    Expect::Reject => vec![],
                };
                let vals = catch(|| {
                    pts.iter()
                        .map(|x| {
                            let binds: Vec<(String, f64)> = p.variables.iter().map(|v| (v.clone(), *x)).collect();
                            p.eval_multivariate(&binds).map_err(|e| format!("{e:?}"))
                        })
                        .collect::<Result<Vec<f64>, String>>()
                });
                (format!("ok {} {}", p.terms.len(), p.variables.len()), true, vals.unwrap_or(Err("evaluation panicked".into())), Some((p.terms.len(), p.variables.len())))
            }
        }
    };
    let what = format!("long text (kind {kind}, n = {n}, {} characters)", text.chars().count());
    let check_values = |want: &[(f64, f64)]| -> Result<(), String> {
        let got = values.clone().map_err(|e| format!("{what}: accepted but evaluation failed: {e}"))?;
        for ((x, w), g) in want.iter().zip(got) {
            if w.is_finite() && !close(g, *w) {
                return Err(format!("{what}: the polynomial gives {g:?} at {x:?}, the text means {w:?}"));
            }
        }
        Ok(())
    };
    let verdict = match &expect {
        Expect::Values(v) => {
            // kinds outside a parser's grammar are not demanded of it
            let outside = parser == 1 && matches!(kind, 11 | 12 | 19);
            if !accepted {
                if outside { Ok(()) } else { Err(format!("{what}: a text of the documented grammar was rejected ({shown})")) }
            } else {
                check_values(v)
            }
        }
        Expect::Reject => {
            if accepted { Err(format!("{what}: accepted ({shown}) although it has no reading as a polynomial")) } else { Ok(()) }
        }
        Expect::RejectOr(v) => {
            if accepted { check_values(v) } else { Ok(()) }
        }
        Expect::Multi { terms, variables, at_ones } => {
            if parser == 1 && *variables >= 2 {
                if accepted { Err(format!("{what}: the univariate parser accepted a text in several variables ({shown})")) } else { Ok(()) }
            } else if !accepted {
                Err(format!("{what}: a text of the documented grammar was rejected ({shown})"))
            } else if parser == 1 {
                check_values(&[(1.0, *at_ones)])
            } else if !accepted {
                Err(format!("{what}: a text of the documented grammar was rejected ({shown})"))
            } else if structure != Some((*terms, *variables)) {
                Err(format!("{what}: {structure:?} (terms, variables), expected ({terms}, {variables})"))
            } else {
                check_values(&[(1.0, *at_ones)])
            }
        }
    };
    (shown, verdict)
}

// ---------------------------------------------------------------- long rejected fragments with multi-byte characters
//
// "never panics, whatever the characters, lengths ...": an error value may quote the rejected piece of text, and code that
// shortens, pads or splits such a quotation by BYTE offsets panics when a multi-byte character lies across the offset.  So
// every place of a term where a parser collects text (exponent, coefficient, fraction parts, constant, the run of letters,
// junk after the variable) is filled with a fragment of every byte length 1..80 (and 130, 200, 260) that contains one
// character of 2, 3 or 4 bytes at every byte offset - characters of every class the parsers consult (letter, number,
// white space, none), so that the character lands inside the collected text whatever stops the collection.

/// multi-byte characters: (2, 3, 4 bytes) x (alphabetic, numeric, symbol, white space, no class)
pub const MB_CHARS: &[char] = &[
    'é', '²', '×', '٣', '\u{85}', 'ℝ', '€', '२', '０', '中', '\u{2028}', '\u{200b}', '😀', '𝟐', '𝑥', '\u{e0001}',
];

/// (text before the fragment, the ASCII character the fragment is filled with, text after it)
pub const FRAG_SITES: &[(&str, char, &str)] = &[
    ("3x^", '9', ""),        // exponent
    ("3x^", '1', "+1"),      // exponent, another term follows
    ("", '7', "x"),          // coefficient
    ("2x+", '7', "x^2"),     // coefficient of a later term
    ("x+", '5', ""),         // constant beside a variable
    ("", '5', ""),           // constant alone (the whole text)
    ("x", 'x', ""),          // run of the same letter
    ("2", 'y', "+1"),        // run of letters after a coefficient
    ("x^1/", '2', ""),       // denominator of a fractional exponent
    ("1/", '3', "x"),        // denominator of a fractional coefficient
    ("x^-", '4', "y"),       // negative exponent
    ("x^2.", '0', "y"),      // decimals of an exponent
    ("1.", '0', "x"),        // decimals of a coefficient
    ("x", '.', ""),          // junk after the variable
    ("", '/', "x"),          // slashes where the coefficient stands
    ("x^", '/', ""),         // slashes where the exponent stands
    ("x^", '.', "+x"),       // dots where the exponent stands
    ("2", ' ', "x"),         // white space inside a term (offsets of the text as written)
    ("-", '-', "x"),         // a run of signs
    ("xy", '^', "2"),        // a run of carets
    ("x^2+", '1', "#"),      // a symbol without meaning after the fragment
    ("2", '7', "#x"),        // ... inside the coefficient
    ("x", ' ', "# + 1"),     // ... after white space (offsets of the text as written)
    ("x^2+y", ' ', "z"),     // white space in front of a second variable
];

/// byte lengths of the fragments of a sweep (tools/props/c16.py `FRAG_LENGTHS` must list the same)
fn frag_lengths() -> Vec<usize> {
    (1..=80).chain([130, 200, 260]).collect()
}

/// the text with a fragment of `len` bytes at `site` whose character at byte offset `pos` is `ch` (None: it does not fit);
/// `twin` = 1: the fragment also begins with `ch`, 2: it also ends with `ch` (a window cut around one character meets the other)
fn frag_text(site: usize, ch: char, len: usize, pos: usize, twin: usize) -> Option<String> {
    let (pre, fill, post) = *FRAG_SITES.get(site)?;
    let w = ch.len_utf8();
    if pos + w > len || (twin == 1 && pos < w) || (twin == 2 && pos + 2 * w > len) || twin > 2 {
        return None;
    }
    let mut s = String::with_capacity(pre.len() + len + post.len());
    s.push_str(pre);
    let mut at = 0;
    while at < len {
        if at == pos || (twin == 1 && at == 0) || (twin == 2 && at == len - w) {
            s.push(ch);
            at += w;
        } else {
            s.push(fill);
            at += 1;
        }
    }
    s.push_str(post);
    Some(s)
}

/// the cheap part of `answer`: both entry points return (no panic); an accepted text gets the full verdict
fn frag_verdict(parser: usize, text: &str) -> Result<bool, String> {
    let accepted = if parser == 1 {
        let a = catch(|| SimplePolynomial::parse(text)).ok_or("the parser panicked")?;
        let b = catch(|| parse_simple_polynomial(text.to_string())).ok_or("parse_simple_polynomial panicked")?;
        if a.is_ok() != b.is_ok() {
            return Err("entry points differ: the trait method and the free function do not both accept / reject".into());
        }
        a.is_ok()
    } else {
        let a = catch(|| IntermediatePolynomial::parse(text)).ok_or("the parser panicked")?;
        let b = catch(|| parse_intermediate_polynomial(text.to_string())).ok_or("parse_intermediate_polynomial panicked")?;
        if a.is_ok() != b.is_ok() {
            return Err("entry points differ: the trait method and the free function do not both accept / reject".into());
        }
        a.is_ok()
    };
    if accepted {
        answer(parser, text).1?;
    }
    Ok(accepted)
}

fn frag_sweep(parser: usize, site: usize, ci: usize) -> (String, Result<(), String>) {
    let Some(&ch) = MB_CHARS.get(ci) else { return ("-".into(), Ok(())) };
    let (mut n, mut ok) = (0u64, 0u64);
    let mut first: Option<(String, String)> = None;
    for len in frag_lengths() {
        for pos in 0..len {
            for twin in 0..3 {
                if twin > 0 && len > 80 {
                    continue;
                }
                let Some(text) = frag_text(site, ch, len, pos, twin) else { continue };
                n += 1;
                match frag_verdict(parser, &text) {
                    Ok(true) => ok += 1,
                    Ok(false) => {}
                    Err(e) => {
                        if first.is_none() || first.as_ref().is_some_and(|(t, _)| t.len() > text.len()) {
                            first = Some((text, e));
                        }
                    }
                }
            }
        }
    }
    let verdict = match first {
        None => Ok(()),
        Some((t, e)) => Err(format!("on {:?} [{}] ({} bytes): {e}", t, req_string(&t), t.len())),
    };
    (format!("swept {n} {ok}"), verdict)
}

fn frag_single(parser: usize, site: usize, code: usize) -> (String, Result<(), String>) {
    let (twin, ci, len, pos) = (code / 100_000_000, code / 1_000_000 % 100, code / 1000 % 1000, code % 1000);
    let Some(text) = MB_CHARS.get(ci).and_then(|ch| frag_text(site, *ch, len, pos, twin)) else { return ("-".into(), Ok(())) };
    let (a, v) = answer(parser, &text);
    (a, v.map_err(|e| format!("on {:?} [{}] ({} bytes): {e}", text, req_string(&text), text.len())))
}

// ---------------------------------------------------------------- generators

/// a character the Lean model classifies like Rust does: ASCII, a table character, or a character that is in
/// none of the three Unicode classes the parsers consult
fn safe_char(rng: &mut Rng) -> char {
    match rng.below(10) {
        0..=3 => *rng.pick(ALPHABET),
        4 | 5 => char::from_u32(rng.range(32, 126) as u32).unwrap(),
        6 => *rng.pick(crate::c01::TABLE_CHARS),
        7 => *rng.pick(&['@', '_', '=', '!', '~', '$', '%', '&', '|', '"', '\'', ',', ';', ':', '<', '>', '?', '[', ']', '{', '}', '\\', '`']),
        _ => loop {
            let cp = match rng.below(4) {
                0 => rng.range(0x80, 0x7ff),
                1 => rng.range(0x800, 0xffff),
                2 => rng.range(0x10000, 0x10ffff),
                _ => rng.range(0, 0x7f),
            } as u32;
            if let Some(c) = char::from_u32(cp) {
                let classless = !c.is_whitespace() && !c.is_alphabetic() && !c.is_numeric();
                if c.is_ascii() || classless {
                    break c;
                }
            }
        },
    }
}

/// any Unicode scalar value, biased towards the characters next to / resembling the accepted ones
fn any_char(rng: &mut Rng) -> char {
    match rng.below(12) {
        0 | 1 => *rng.pick(CONFUSABLES),
        2 => *rng.pick(NUMERICS),
        3 => *rng.pick(crate::c01::WIDE_LETTERS),
        4 => *rng.pick(crate::c01::ALL_SPACES),
        5 => *rng.pick(ALPHABET),
        6 => char::from_u32(rng.range(0, 0x7f) as u32).unwrap(),
        7 => *rng.pick(&LETTERS52.chars().collect::<Vec<char>>()),
        _ => loop {
            let cp = match rng.below(5) {
                0 => rng.range(0x80, 0x7ff),
                1 => rng.range(0x800, 0xffff),
                2 => rng.range(0x10000, 0x1ffff),
                3 => rng.range(0x20000, 0x10ffff),
                _ => rng.range(0x2000, 0x2bff), // punctuation, super/subscripts, letterlike, number forms, operators
            } as u32;
            if let Some(c) = char::from_u32(cp) {
                break c;
            }
        },
    }
}

fn mutate(rng: &mut Rng, text: &str) -> String {
    let mut cs: Vec<char> = text.chars().collect();
    let k = 1 + rng.below(3);
    for _ in 0..k {
        let pos = rng.below(cs.len() as u64 + 1) as usize;
        match rng.below(4) {
            0 if !cs.is_empty() => {
                cs.remove(pos.min(cs.len() - 1));
            }
            1 if !cs.is_empty() => {
                let p = pos.min(cs.len() - 1);
                cs[p] = safe_char(rng);
            }
            2 if cs.len() >= 2 => {
                let p = pos.min(cs.len() - 2);
                cs.swap(p, p + 1);
            }
            _ => cs.insert(pos, safe_char(rng)),
        }
    }
    cs.truncate(64);
    cs.into_iter().collect()
}

pub fn generate(seed: u64, thorough: bool, emit: &mut dyn FnMut(String)) {
    let mut rng = Rng::new(seed ^ 0xC16);
    // exhaustive strings: one request per 2-symbol prefix (plus the shorter strings themselves)
    let maxlen = if thorough { 6 } else { 5 };
    for parser in [1usize, 2] {
        emit(format!("parse{parser} 0"));
        for a in ALPHABET {
            emit(format!("parse{parser} {}", req_string(&a.to_string())));
            for b in ALPHABET {
                let p: String = [*a, *b].iter().collect();
                emit(format!("enum {parser} {maxlen} {}", req_string(&p)));
            }
        }
    }
    // long fragments with a multi-byte character at every byte offset: one sweep per (parser, site, character), spread
    // over the cheap requests below so that the batches of the parallel run stay balanced
    let mut sweeps: Vec<String> = Vec::new();
    for parser in [1usize, 2] {
        for site in 0..FRAG_SITES.len() {
            for ci in 0..MB_CHARS.len() {
                sweeps.push(format!("long {parser} {} {ci}", 100 + site));
            }
        }
    }
    sweeps.reverse();
    // mutated grammatical strings with arbitrary (model-classifiable) Unicode
    let n = if thorough { 200_000 } else { 6000 };
    let every = (n / (sweeps.len() + 1)).max(1);
    for i in 0..n {
        if i % every == 0 {
            if let Some(l) = sweeps.pop() {
                emit(l);
            }
        }
        let base = if i % 2 == 0 {
            crate::c01::gen_poly_text(&mut rng).0
        } else {
            let pool = ['x', 'y', 'z'];
            let nt = 1 + rng.below(3) as usize;
            let terms: Vec<crate::c02::GenITerm> = (0..nt).map(|_| crate::c02::gen_iterm(&mut rng, &pool, false)).collect();
            crate::c02::render(&mut rng, &terms, 2)
        };
        let text = mutate(&mut rng, &base);
        let parser = 1 + rng.below(2);
        emit(format!("parse{parser} {}", req_string(&text)));
    }
    for l in sweeps.drain(..) {
        emit(l);
    }
    // the same fragments as single texts where the character lies across byte 16, 32 or 64 - counted from the start of
    // the fragment, from the start of the text, and from the end of the text
    for (site, (pre, _, post)) in FRAG_SITES.iter().enumerate() {
        for &ch in &['é', '٣', '€', '२', '😀', '𝟐'] {
            let w = ch.len_utf8();
            for b in [16usize, 32, 64] {
                for inside in 1..w {
                    // the character starts `inside` bytes before the boundary
                    let mut cases: Vec<(usize, usize)> = Vec::new(); // (len, pos)
                    let long = b + 40;
                    cases.push((long, b - inside)); // boundary counted from the start of the fragment
                    if b > pre.len() + inside {
                        cases.push((long, b - inside - pre.len())); // from the start of the text
                    }
                    if long >= b + inside + post.len() {
                        cases.push((long, long + post.len() - b - inside)); // from the end of the text
                    }
                    for (len, pos) in cases {
                        if let Some(text) = frag_text(site, ch, len, pos, 0) {
                            emit(format!("o1 {}", req_string(&text)));
                            emit(format!("o2 {}", req_string(&text)));
                        }
                    }
                }
            }
        }
    }
    // (a) letters of both cases, a third letter and non-ASCII letters, exhaustively with the operators of the grammar
    let letters: String = LETTER_ALPHABET.iter().collect();
    let lmax = if thorough { 6 } else { 5 };
    // (b) all 52 ASCII letters (every ordered pair and triple of letters in one text)
    let all52: String = ALL52_ALPHABET.chars().collect();
    let amax = if thorough { 4 } else { 3 };
    // (c) the eight symbols of the core grammar, deeper than the full alphabet allows
    let deep: String = DEEP_ALPHABET.iter().collect();
    let dmax = if thorough { 7 } else { 6 };
    for parser in [1usize, 2] {
        for a in LETTER_ALPHABET {
            for b in LETTER_ALPHABET {
                let p: String = [*a, *b].iter().collect();
                emit(format!("enumx {parser} {lmax} {} {}", req_string(&letters), req_string(&p)));
            }
        }
        for a in ALL52_ALPHABET.chars() {
            if thorough {
                for b in ALL52_ALPHABET.chars() {
                    let p: String = [a, b].iter().collect();
                    emit(format!("enumx {parser} {amax} {} {}", req_string(&all52), req_string(&p)));
                }
            } else {
                emit(format!("enumx {parser} {amax} {} {}", req_string(&all52), req_string(&a.to_string())));
            }
        }
        for a in DEEP_ALPHABET {
            for b in DEEP_ALPHABET {
                if thorough {
                    for c in DEEP_ALPHABET {
                        let p: String = [*a, *b, *c].iter().collect();
                        emit(format!("enumx {parser} {dmax} {} {}", req_string(&deep), req_string(&p)));
                    }
                } else {
                    let p: String = [*a, *b].iter().collect();
                    emit(format!("enumx {parser} {dmax} {} {}", req_string(&deep), req_string(&p)));
                }
            }
        }
    }
    // (d) two and three different letters in longer grammatical shapes (repeated and merged variables, either case)
    let l52: Vec<char> = LETTERS52.chars().collect();
    for i in 0..(if thorough { 6000 } else { 400 }) {
        let a = *rng.pick(&l52);
        let b = match i % 4 {
            0 => a.to_ascii_uppercase(),
            1 => a.to_ascii_lowercase(),
            2 => char::from_u32((a as u32) ^ 0x20).unwrap(), // the same letter in the other case
            _ => *rng.pick(&l52),
        };
        let c = *rng.pick(&l52);
        let texts = [
            format!("2{a}^2{b}^3{a}"),
            format!("{a}{b} + {b}{a}"),
            format!("{a}^2{b} - {b}^2{a} + {c}"),
            format!("{a}{b}{c}{a}{b}"),
            format!("3{a}^2 + 2{b} - 1"),
            format!("{a}^3 - {a} + {b}^0"),
            format!("{b}{a}^2/3"),
            format!("1/2{a}{b}^-1{c}^1/2"),
        ];
        for t in texts.iter().skip(i % 2).step_by(2) {
            emit(format!("parse1 {}", req_string(t)));
            emit(format!("parse2 {}", req_string(t)));
        }
    }
    // (e) arbitrary Unicode of every character class (judged by the oracle alone: the model's class table does not cover it)
    let n = if thorough { 100_000 } else { 5000 };
    for i in 0..n {
        let base = match i % 3 {
            0 => crate::c01::gen_poly_text(&mut rng).0,
            1 => {
                let pool = ['x', 'y', 'z'];
                let nt = 1 + rng.below(3) as usize;
                let terms: Vec<crate::c02::GenITerm> = (0..nt).map(|_| crate::c02::gen_iterm(&mut rng, &pool, false)).collect();
                crate::c02::render(&mut rng, &terms, 2)
            }
            _ => {
                // a short text around one character
                let pre = *rng.pick(&["", "2", "x", "2x", "x^", "x^2", "2x^2+", "-", "1/", "x^1/"]);
                let post = *rng.pick(&["", "2", "x", "^2", "+1", "x^2", "/2", ".5"]);
                format!("{pre}{}{post}", any_char(&mut rng))
            }
        };
        let mut cs: Vec<char> = base.chars().collect();
        if i % 3 != 2 {
            for _ in 0..1 + rng.below(3) {
                let pos = rng.below(cs.len() as u64 + 1) as usize;
                match rng.below(3) {
                    0 if !cs.is_empty() => {
                        let p = pos.min(cs.len() - 1);
                        cs[p] = any_char(&mut rng);
                    }
                    1 if !cs.is_empty() => {
                        // replace a letter by a letter of another width / a digit by a non-ASCII digit
                        let p = pos.min(cs.len() - 1);
                        cs[p] = if cs[p].is_alphabetic() {
                            *rng.pick(crate::c01::WIDE_LETTERS)
                        } else if cs[p].is_ascii_digit() {
                            *rng.pick(NUMERICS)
                        } else if cs[p].is_whitespace() {
                            *rng.pick(crate::c01::ALL_SPACES)
                        } else {
                            *rng.pick(CONFUSABLES)
                        };
                    }
                    _ => cs.insert(pos, any_char(&mut rng)),
                }
            }
        }
        cs.truncate(64);
        let text: String = cs.into_iter().collect();
        emit(format!("o{} {}", 1 + i % 2, req_string(&text)));
    }
    // every listed character alone, after a variable, after a coefficient, inside an exponent
    for c in CONFUSABLES.iter().chain(NUMERICS).chain(crate::c01::WIDE_LETTERS).chain(crate::c01::ALL_SPACES) {
        for t in [format!("{c}"), format!("x{c}"), format!("2{c}x"), format!("x^{c}2"), format!("x^2{c}"), format!("2x{c}3"), format!("x {c} 1"), format!("{c}x^2+{c}")] {
            emit(format!("o1 {}", req_string(&t)));
            emit(format!("o2 {}", req_string(&t)));
            // characters in none of the three classes the parsers consult are within the model's reach too
            if !c.is_whitespace() && !c.is_alphabetic() && !c.is_numeric() {
                emit(format!("parse1 {}", req_string(&t)));
                emit(format!("parse2 {}", req_string(&t)));
            }
        }
    }
    // (f) very long texts: totality and exact meaning
    let big = thorough;
    let sizes: Vec<(usize, Vec<usize>)> = vec![
        (0, vec![255, 256, 257, 1000, 4096, 10000]),
        (1, vec![19, 20, 21, 39, 40, 100, 1000, 100000]),
        (2, vec![100, 100000]),
        (3, vec![2, 255, 256, 257, 1000, 65536, 100000]),
        (4, vec![0, 1, 2, 3, 1000, 100000]),
        (5, vec![1, 2, 1000, 100000]),
        (6, vec![0, 1, 2, 3, 5, 1000, 50000]),
        (7, vec![1, 2, 1000, 100000]),
        (8, vec![1, 2, 3, 100000]),
        (9, vec![0, 1, 1000, 50000]),
        (10, vec![2, 255, 256, 257, 1000, 4096, 65536, 65537]),
        (11, vec![1, 52, 53, 1000, 100000]),
        (12, vec![1, 2, 255, 256, 1000, 2000]),
        (13, vec![1, 2, 3, 1000, 100000]),
        (14, vec![1, 1000, 100000]),
        (15, vec![1, 1000, 100000]),
        (16, vec![17, 18, 19, 20, 21, 300, 308, 309, 310, 400, 1000, 100000]),
        (17, vec![17, 19, 21, 300, 323, 324, 325, 400, 1000, 100000]),
        (18, vec![1, 2, 255, 256, 257, 1000, 25000]),
        (19, vec![1, 2, 1000, 50000]),
    ];
    for (kind, ns) in &sizes {
        for n in ns {
            emit(format!("long 1 {kind} {n}"));
            emit(format!("long 2 {kind} {n}"));
        }
    }
    // every code point of every plane in sign / operand positions (oracle only)
    for plane in 0..=16usize {
        emit(format!("long 1 300 {plane}"));
        emit(format!("long 2 300 {plane}"));
    }
    if big {
        for (kind, n) in [(0usize, 65536usize), (0, 100000), (3, 1000000), (11, 1000000), (18, 250000), (2, 1000000)] {
            emit(format!("long 1 {kind} {n}"));
            emit(format!("long 2 {kind} {n}"));
        }
    }
    // words and literal forms that OTHER number parsers understand (f64::from_str: inf, infinity, nan in any case, 1e5, 1E-5;
    // other languages: 0x10, 0b1, 1_000, 1f, 1u8, 3j ...): in a polynomial they are products of single-letter variables
    // (i*n*f) or not polynomials at all - accepted only with exactly that meaning, wherever they stand
    {
        let mut words: Vec<String> = Vec::new();
        for w in ["inf", "nan", "e"] {
            for m in 0..(1u32 << w.len()) {
                words.push(w.chars().enumerate().map(|(k, c)| if m >> k & 1 == 1 { c.to_ascii_uppercase() } else { c }).collect());
            }
        }
        for w in ["infinity", "INFINITY", "Infinity", "iNFINITY", "infinitY", "InFiNiTy", "pi", "PI", "Pi", "tau", "ln", "exp", "NaN", "nil", "true"] {
            words.push(w.to_string());
        }
        for w in &words {
            for t in [
                format!("{w}"), format!("-{w}"), format!("+{w}"), format!("x+{w}"), format!("x - {w}"), format!("{w}+x"), format!("{w}x"), format!("x{w}"), format!("2{w}"),
                format!("x^{w}"), format!("x^-{w}"), format!("{w}^2"), format!("1/{w}"), format!("{w}/2"), format!("2x + {w} + 1"), format!("x^2 - {w}x"), format!("{w}{w}"),
                format!("1.5{w}"), format!("{w}.5"), format!(" {w} "),
            ] {
                emit(format!("parse1 {}", req_string(&t)));
                emit(format!("parse2 {}", req_string(&t)));
            }
        }
        for lit in [
            "1e5", "1E5", "1e+5", "1e-5", "1E+5", "1E-5", "2.5e3", ".5e1", "5.e1", "1e", "1e+", "1e5x", "x1e5", "xe5", "x^1e2", "x^1e+2", "x^2e", "1e5x^2", "2x+1e3", "2x + 1e-3", "1e+5e",
            "1e400", "1e-400", "-1e5", "0x10", "0x1f", "0xf", "0XF", "0x", "0b1", "0b", "0o7", "0o", "1_000", "1_000x", "x^1_0", "1f", "1f32", "1.0f", "2d", "1L", "1u8", "1u", "3j", "3i",
            "1.5j", "+.5", "1.", ".5", ".", "1..2", "1.2.3", "0e0", "0e", "00", "-0", "+0", "1,5", "1,000", "1 000", "1'000", "1e5 x", "x e5", "1 e 5", "1 e + 5", "x^+2", "x^ 2", "x ^2",
            "x**2", "x^^2", "2^x", "2^2", "2^2x", "10^3x", "x^2^3", "√x", "x²", "2·x", "x×2", "∞", "-∞", "x+∞", "π", "2π", "πx", "1/2", "1/2x", "x/2", "x^1/2", "1/x", "%", "50%", "x%", "$1", "1$",
        ] {
            let ascii_or_table = lit.chars().all(|c| c.is_ascii() || crate::c01::TABLE_CHARS.contains(&c) || (!c.is_whitespace() && !c.is_alphabetic() && !c.is_numeric()));
            for parser in [1, 2] {
                emit(format!("{}{parser} {}", if ascii_or_table { "parse" } else { "o" }, req_string(lit)));
            }
        }
    }
    generate_near(seed, thorough, emit);
    // exponent magnitudes
    for e in ["65535", "65536", "65537", "99999999999", "18446744073709551615", "18446744073709551616",
              "340282366920938463463374607431768211456", "00000000000000000000000000000000000000007"] {
        emit(format!("parse1 {}", req_string(&format!("2x^{e}"))));
        emit(format!("parse2 {}", req_string(&format!("2x^{e}"))));
        emit(format!("parse2 {}", req_string(&format!("2x^-{e}"))));
    }
}

// ---------------------------------------------------------------- numbers next to special values, in particular spellings
//
// "No text is silently misread": a coefficient or an exponent spelled a relative 1e-1 .. 1e-17 next to a whole number, to
// 1/2, 1/3 or 2/3 - as a decimal (`0.9999999999`, `2.0000000001`), as a ratio of huge integers (`2000000001/2000000000`),
// or arising as the merged exponent of a repeated variable (`x^0.5000000001x^0.5`, `x^0.6x^0.3x^0.1`) - means what it says,
// not the round number next to it.  Compared with the model (which reads the digits exactly) and judged by the oracle at
// the two exact points of `tight_points`.

/// the decimal spelling of `num/den * 10^k + delta` units of 10^-k (k digits after the point)
fn decimal_near(num: u128, den: u128, k: usize, delta: i128) -> String {
    let scaled = (num * 10u128.pow(k as u32) / den) as i128 + delta;
    let digits = format!("{:0>width$}", scaled.max(0), width = k + 1);
    let (int, frac) = digits.split_at(digits.len() - k);
    format!("{int}.{frac}")
}

/// both parsers on the shapes of the univariate grammar, the multivariate parser on all (the univariate one on a sample of
/// the others: it must reject them)
fn put_near(emit: &mut dyn FnMut(String), shape: &str, n: &str, j: &mut usize) {
    let t = shape.replace("{}", n);
    *j += 1;
    emit(format!("parse2 {}", req_string(&t)));
    let univariate = !shape.contains('y') && !shape.contains("x^{}") && !shape.contains("^-") && !shape.contains("^0.5") && !shape.contains("^1/2") && !shape.contains("xx");
    if univariate || *j % 8 == 0 {
        emit(format!("parse1 {}", req_string(&t)));
    }
}

fn generate_near(seed: u64, thorough: bool, emit: &mut dyn FnMut(String)) {
    let mut rng = Rng::new(seed ^ 0xC16_0EA2);
    let specials: &[(u128, u128)] = &[(1, 1), (2, 1), (3, 1), (10, 1), (1, 2), (1, 3), (2, 3), (5, 2), (100, 1), (0, 1)];
    let mut numbers: Vec<String> = Vec::new(); // decimal spellings
    let mut ratios: Vec<String> = Vec::new(); // a/b spellings
    for &(num, den) in specials {
        for k in 1..=17usize {
            for delta in [-1i128, 1] {
                if num == 0 && delta < 0 {
                    continue;
                }
                numbers.push(decimal_near(num, den, k, delta));
            }
        }
        // ratios of huge integers: (v * b +- 1) / b
        for b in [1_000_000u128, 1_000_000_000, 2_000_000_000, 3_000_000_000, 1u128 << 31, 1u128 << 40, 10u128.pow(12), 3 * 10u128.pow(14), 1u128 << 53, 10u128.pow(17)] {
            if b % den != 0 {
                continue;
            }
            for delta in [-1i128, 1] {
                let a = (num * b / den) as i128 + delta;
                if a > 0 {
                    ratios.push(format!("{a}/{b}"));
                }
            }
        }
    }
    // a point without a leading zero, trailing zeros, leading zeros
    for extra in [".9999999999", ".99999999999999", "1.00000000010", "01.0000000001", "0.50000000001", ".49999999999", "0.33333333333", "0.333333333333333333", "0.1", "0.2", "0.3", "0.7"] {
        numbers.push(extra.to_string());
    }
    let coefficient_shapes: &[&str] = &["{}x", "{}x^2 + 1", "3y - {}x^2y", "{}", "x + {}", "-{}x^3", "x^2 - {}x + {}", "{}xy^2z", "2x^3 + {}x^3", "{}x - x"];
    let exponent_shapes: &[&str] = &[
        "x^{}", "2x^{}y", "x^-{}", "3x^{}y^2 + 1", "x^{}x", "x^{}x^-1", "x^{}x^0.5", "x^{}yx^-2", "x^{}x^{}", "x^-{}x^2", "y^2x^{}y^{}", "x^0.5x^{}",
        "x^1/2x^{}", "xx^{}", "x^{}x^-{}x",
    ];
    let mut j = 0usize;
    for (i, n) in numbers.iter().chain(ratios.iter()).enumerate() {
        if thorough {
            for sh in coefficient_shapes.iter().chain(exponent_shapes.iter()) {
                put_near(emit, sh, n, &mut j);
            }
        } else {
            // three coefficient shapes and four exponent shapes per spelling, every shape every few spellings
            for q in 0..3 {
                put_near(emit, coefficient_shapes[(i + 3 * q) % coefficient_shapes.len()], n, &mut j);
            }
            for q in 0..4 {
                put_near(emit, exponent_shapes[(i + 4 * q) % exponent_shapes.len()], n, &mut j);
            }
        }
    }
    // merged exponents of repeated variables that land on or next to a special value
    for t in [
        "x^0.6x^0.3x^0.1", "x^0.7x^0.2x^0.1", "x^-0.6x^-0.3x^-0.1", "x^0.1x^0.2", "x^.1x^.2x^.7", "x^1/3x^1/3x^1/3", "x^1/3x^2/3", "x^1/4x^1/4", "x^1/6x^1/3", "x^1/6x^1/6x^1/6",
        "x^0.25x^0.25", "x^2.5x^-1.5", "x^1/8x^3/8", "x^0.3x^0.2", "x^1.5x^.5", "x^3x^-1", "x^-1/2x^-1/2", "x^-0.5x^-0.5", "x^-1/3x^-2/3", "x^0.1x^0.1x^0.1x^0.1x^0.1x^0.1x^0.1x^0.1x^0.1x^0.1",
        "x^0.9x^0.1", "x^1.1x^-0.1", "x^2.2x^-0.2", "x^1/7x^6/7", "x^1/3x^1/3x^1/3y^0.6y^0.3y^0.1", "2x^0.6yx^0.3y^-1x^0.1", "x^1/2x^1/2 - x", "x^0.6x^0.3x^0.1 - x", "x^1/4x^1/4 - x^1/2",
        "xxxxxxxxxx", "x^0.5xx^0.5", "x^65535x", "x^-65536x^65536",
    ] {
        emit(format!("parse2 {}", req_string(t)));
        emit(format!("parse1 {}", req_string(t)));
    }
    // random: a special value, a distance, a spelling, a place
    let m = if thorough { 20_000 } else { 600 };
    for _ in 0..m {
        let &(num, den) = rng.pick(specials);
        let k = 3 + rng.below(15) as usize;
        let delta = if num == 0 { 1 + rng.below(9) as i128 } else { rng.range(-9, 9) as i128 };
        let n = if rng.chance(1, 3) && num > 0 {
            let b = match rng.below(3) {
                0 => 10u128.pow(k as u32),
                1 => (1 + rng.below(9) as u128) * 10u128.pow(k as u32 - 1) * den,
                _ => (1u128 << (10 + rng.below(44))) * den,
            };
            if b % den != 0 {
                continue;
            }
            format!("{}/{b}", (num * b / den) as i128 + if delta == 0 { 1 } else { delta })
        } else {
            decimal_near(num, den, k, delta)
        };
        let sh = if rng.chance(1, 2) { *rng.pick(coefficient_shapes) } else { *rng.pick(exponent_shapes) };
        put_near(emit, sh, &n, &mut j);
    }
}
