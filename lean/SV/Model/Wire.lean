import SV.Model.Basic
/-!
Line protocol helpers for the driver: a request is a list of space-separated tokens;
floats cross the boundary as the decimal `u64` of their IEEE bit pattern (written `f<bits>`
in responses so the comparator knows to compare numerically), strings as code points.
-/
namespace SV.Wire

/-- A little token-stream parser monad (`StateT` over `Option`, written out). -/
abbrev P (α : Type) := List String → Option (α × List String)

@[inline] def P.pure {α} (a : α) : P α := fun ts => some (a, ts)
@[inline] def P.bind {α β} (p : P α) (f : α → P β) : P β := fun ts =>
  match p ts with
  | none => none
  | some (a, ts') => f a ts'
instance : Monad P where
  pure := P.pure
  bind := P.bind

def tok : P String := fun ts => match ts with | [] => none | t :: r => some (t, r)
def nat : P Nat := fun ts => match ts with
  | [] => none
  | t :: r => match t.toNat? with | some n => some (n, r) | none => none
def int : P Int := fun ts => match ts with
  | [] => none
  | t :: r => match t.toInt? with | some n => some (n, r) | none => none
def float : P Float := fun ts => match ts with
  | [] => none
  | t :: r => match t.toNat? with | some n => some (Float.ofBits n.toUInt64, r) | none => none
def fail {α} : P α := fun _ => none
def atEnd : P Bool := fun ts => some (ts.isEmpty, ts)

def many {α} (n : Nat) (p : P α) : P (List α) := fun ts =>
  let rec go (k : Nat) (acc : List α) (ts : List String) : Option (List α × List String) :=
    match k with
    | 0 => some (acc.reverse, ts)
    | k+1 => match p ts with
      | none => none
      | some (a, ts') => go k (a :: acc) ts'
  go n [] ts

/-- `h w a₀ a₁ …` (row-major) -/
def mat {S} (p : P S) : P (Mat S) := do
  let h ← nat
  let w ← nat
  let xs ← many (h * w) p
  return ⟨h, w, xs.toArray⟩

/-- `n x₀ … x_{n-1}` -/
def vec {S} (p : P S) : P (List S) := do
  let n ← nat
  many n p

def run {α} (p : P α) (line : String) : Option α :=
  let ts := (line.trimAscii.toString.splitOn " ").filter (· ≠ "")
  match p ts with
  | some (a, []) => some a
  | _ => none

def fmtF (x : Float) : String := "f" ++ toString x.toBits.toNat
def fmtI (x : Int) : String := toString x

def fmtMat {S} (f : S → String) (M : Mat S) : String :=
  " ".intercalate ([toString M.h, toString M.w] ++ M.a.toList.map f)

def fmtList {S} (f : S → String) (xs : List S) : String :=
  " ".intercalate (toString xs.length :: xs.map f)

/-- code points → string -/
def fmtStr (s : List Char) : String :=
  " ".intercalate (toString s.length :: s.map fun c => toString c.toNat)

def chars : P (List Char) := do
  let n ← nat
  let cs ← many n nat
  return cs.map Char.ofNat

end SV.Wire
