import SV.Lemmas.Rounding
import Mathlib.Data.Int.Log
import Mathlib.Algebra.Order.Round
import Mathlib.Algebra.Order.Archimedean.Real.Basic
import Mathlib.Tactic.FieldSimp
/-!
The standard model is satisfied by a genuine round-to-nearest: `FlModel.nearest p` rounds every
real to a nearest number of the form `m·2^e` with a `p`-bit significand `|m| ≤ 2^p` and
**unbounded exponent** `e`; its unit roundoff is `u = 2⁻ᵖ`.  `FlModel.binary64 = nearest 53` is
IEEE binary64 round-to-nearest without its exponent limits (`u = 2⁻⁵³`): for every real whose
magnitude lies in the normal range (at least `2⁻¹⁰²²`, below the overflow threshold) it returns a
binary64 number nearest to it.  Ties are resolved by Mathlib's `round` (half-way cases of the scaled
significand go up), not to even as in IEEE; nothing in the error analysis depends on the tie rule,
and the tie rule changes no bound.  `rn_fixed`: representable numbers are fixed points, so `0 + x`,
`1 * x`, `n as f64` (`n < 2⁵³`) are exact in this model as they are in IEEE.  Every rounding theorem
of this layer therefore applies to `f64` computations whose intermediate results all stay in the
normal range.
-/
namespace SV.FlModel

/-- a rounding function with `|rnd x − x| ≤ u·|x|` is a model -/
noncomputable def ofAbsBound (u : ℝ) (hu : 0 ≤ u ∧ u < 1) (rnd : ℝ → ℝ)
    (h : ∀ x, |rnd x - x| ≤ u * |x|) : FlModel where
  u := u
  hu := hu
  rnd := rnd
  hrnd := by
    intro x
    by_cases hx : x = 0
    · subst hx
      have h0 := h 0
      rw [abs_zero, mul_zero, sub_zero] at h0
      exact ⟨0, by simpa using hu.1, by rw [abs_nonpos_iff.mp h0]; ring⟩
    · refine ⟨(rnd x - x) / x, ?_, by field_simp; ring⟩
      rw [abs_div, div_le_iff₀ (abs_pos.mpr hx)]
      exact h x

/-- spacing of the `p`-bit numbers around `x`: `2^(e − p + 1)` with `2^e ≤ |x| < 2^(e+1)` -/
noncomputable def ulp (p : ℕ) (x : ℝ) : ℝ := (2 : ℝ) ^ (Int.log 2 |x| - (p : ℤ) + 1)

/-- round to nearest multiple of the local spacing -/
noncomputable def rn (p : ℕ) (x : ℝ) : ℝ := (round (x / ulp p x) : ℝ) * ulp p x

theorem ulp_pos (p : ℕ) (x : ℝ) : 0 < ulp p x := zpow_pos (by norm_num) _

/-- half a unit in the last place is at most `2⁻ᵖ·|x|` -/
theorem half_ulp_le (p : ℕ) {x : ℝ} (hx : x ≠ 0) : ulp p x / 2 ≤ (2⁻¹ : ℝ) ^ p * |x| := by
  have hlog : ((2 : ℕ) : ℝ) ^ Int.log 2 |x| ≤ |x| :=
    Int.zpow_log_le_self (by norm_num) (abs_pos.mpr hx)
  rw [Nat.cast_ofNat] at hlog
  have h2 : (2 : ℝ) ≠ 0 := by norm_num
  have e : ulp p x / 2 = (2⁻¹ : ℝ) ^ p * (2 : ℝ) ^ Int.log 2 |x| := by
    unfold ulp
    rw [zpow_add₀ h2, zpow_sub₀ h2, zpow_one, zpow_natCast, inv_pow]
    field_simp
  rw [e]
  exact mul_le_mul_of_nonneg_left hlog (by positivity)

theorem abs_rn_sub_le (p : ℕ) (x : ℝ) : |rn p x - x| ≤ (2⁻¹ : ℝ) ^ p * |x| := by
  by_cases hx : x = 0
  · subst hx; simp [rn]
  · have hq := ulp_pos p x
    have h1 : rn p x - x = ((round (x / ulp p x) : ℝ) - x / ulp p x) * ulp p x := by
      unfold rn; field_simp
    rw [h1, abs_mul, abs_of_pos hq, abs_sub_comm]
    calc |x / ulp p x - round (x / ulp p x)| * ulp p x
        ≤ 1 / 2 * ulp p x := mul_le_mul_of_nonneg_right (abs_sub_round _) hq.le
      _ = ulp p x / 2 := by ring
      _ ≤ _ := half_ulp_le p hx

/-- round to nearest with a `p`-bit significand (`p ≥ 1`) and unbounded exponent: a model with
`u = 2⁻ᵖ` -/
noncomputable def nearest (p : ℕ) (hp : 0 < p) : FlModel :=
  ofAbsBound ((2⁻¹ : ℝ) ^ p)
    ⟨by positivity, pow_lt_one₀ (by norm_num) (by norm_num) (Nat.pos_iff_ne_zero.mp hp)⟩
    (rn p) (abs_rn_sub_le p)

/-- binary64 round-to-nearest without exponent limits -/
noncomputable def binary64 : FlModel := nearest 53 (by norm_num)

theorem binary64_u : binary64.u = (2⁻¹ : ℝ) ^ 53 := rfl

/-- every binary64-representable value `m·2^e`, `2⁵² ≤ m < 2⁵³`, is a fixed point: the model's
rounding is a projection onto the (unbounded-exponent) binary64 numbers -/
theorem rn_fixed (p : ℕ) (m : ℤ) (e : ℤ) (hm : (2 : ℝ) ^ (p - 1 : ℤ) ≤ |(m : ℝ)|)
    (hm' : |(m : ℝ)| < (2 : ℝ) ^ (p : ℤ)) :
    rn p ((m : ℝ) * (2 : ℝ) ^ e) = (m : ℝ) * (2 : ℝ) ^ e := by
  have h2 : (2 : ℝ) ≠ 0 := by norm_num
  have hpos : (0 : ℝ) < (2 : ℝ) ^ e := zpow_pos (by norm_num) _
  have habs : |(m : ℝ) * (2 : ℝ) ^ e| = |(m : ℝ)| * (2 : ℝ) ^ e := by
    rw [abs_mul, abs_of_pos hpos]
  -- the binade of `m·2^e` is `e + p − 1`
  have hlog : Int.log 2 |(m : ℝ) * (2 : ℝ) ^ e| = e + p - 1 := by
    have hx0 : 0 < |(m : ℝ) * (2 : ℝ) ^ e| := by
      rw [habs]
      exact mul_pos (lt_of_lt_of_le (zpow_pos (by norm_num) _) hm) hpos
    apply le_antisymm
    · have := (Int.lt_zpow_iff_log_lt (b := 2) (by norm_num) hx0 (x := e + p)).mp (by
        rw [habs, Nat.cast_ofNat, add_comm, zpow_add₀ h2]
        exact mul_lt_mul_of_pos_right hm' hpos)
      omega
    · apply (Int.zpow_le_iff_le_log (b := 2) (by norm_num) hx0).mp
      rw [habs, Nat.cast_ofNat, show e + (p : ℤ) - 1 = ((p : ℤ) - 1) + e by ring, zpow_add₀ h2]
      exact mul_le_mul_of_nonneg_right hm hpos.le
  unfold rn ulp
  rw [hlog, show e + (p : ℤ) - 1 - p + 1 = e by ring, mul_div_assoc, div_self hpos.ne', mul_one,
    round_intCast]

/-- for binary64 and up to `2⁵²` roundings the hypothesis `n·u < 1` holds and
`γ_n ≤ n·2⁻⁵²` (`= 2·n·u`) -/
theorem binary64_gamma_le {n : ℕ} (hn : n ≤ 2 ^ 52) :
    (n : ℝ) * binary64.u < 1 ∧ binary64.gamma n ≤ (n : ℝ) * (2⁻¹ : ℝ) ^ 52 := by
  have hn' : (n : ℝ) ≤ 2 ^ 52 := by exact_mod_cast hn
  have hu : binary64.u = (2⁻¹ : ℝ) ^ 53 := rfl
  have hhalf : (n : ℝ) * binary64.u ≤ 1 / 2 := by
    rw [hu]
    calc (n : ℝ) * (2⁻¹ : ℝ) ^ 53 ≤ 2 ^ 52 * (2⁻¹ : ℝ) ^ 53 :=
          mul_le_mul_of_nonneg_right hn' (by positivity)
      _ = 1 / 2 := by norm_num
  refine ⟨by linarith, (binary64.gamma_le_two_mul hhalf).trans (le_of_eq ?_)⟩
  rw [hu, pow_succ]
  ring

end SV.FlModel
