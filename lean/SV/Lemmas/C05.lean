import SV.Model.C05
import SV.Lemmas.Poly
import Mathlib.Algebra.Polynomial.Derivative
import Mathlib.Algebra.Polynomial.Eval.Degree
import Mathlib.Algebra.Polynomial.Degree.Lemmas
import Mathlib.Tactic.Ring
import Mathlib.Tactic.LinearCombination
import Mathlib.Tactic.FieldSimp
import Mathlib.Tactic.Linarith
import Mathlib.Algebra.Order.Field.Basic
import Mathlib.Algebra.Order.BigOperators.Group.Finset
import Mathlib.Algebra.Order.BigOperators.Ring.Finset
/-!
Lemmas behind `SV.Props.C05` (the model is `SV.Model.C05`):

* `Table.*`            reads and writes of the Romberg table; `Table.Sq dim` = "is `dim × dim`"
* `romberg_allowed`    index bookkeeping: with a table of side 3 … 33 no access is out of range and no
                       integer power overflows, for any scalar type and any evaluation function
* `rombergLoop_fuel`   the recursion bound of the model's loop is never what stops it
* `*_spec`             the loops of `trapezoidal_rule`, `simpson13`, `simpson38`, `definite_integral` in
                       exact arithmetic, for any integrand whose panels telescope
* `poly_panel*`        the panel identities for a polynomial of degree ≤ 4 and any antiderivative
* `romberg_exact`      Richardson extrapolation of sums `I + C/n²` returns `I`
* `poly_panel13_gen`, `poly_panel38_gen`, `definiteIntegral_error_bound`
                       degree ≤ 8: each panel error is a positive combination of values of `f⁗` at
                       rational nodes inside the panel (weights summing to `h⁵/90`, `3h⁵/80`), hence the
                       textbook bound `|b−a|·h⁴·max|f⁗|/80` over any ordered field, no analysis needed
* `Evaluates`, `Denotes`, `simple_evaluates`, `inter_evaluates`
                       both polynomial types evaluate like a Mathlib polynomial
-/
set_option linter.unusedSectionVars false
namespace SV.C05
open SV SV.Poly Polynomial

namespace Table
variable {S : Type}

/-- square of side `dim` (what `vec![vec![0.0; dim]; dim]` builds and element assignment keeps) -/
def Sq (dim : Nat) (T : Table S) : Prop :=
  T.size = dim ∧ ∀ (i : Nat) (row : Array S), T[i]? = some row → row.size = dim

theorem zeros_sq [OfNat S 0] (dim : Nat) : Sq dim (zeros dim : Table S) := by
  refine ⟨by simp [zeros], ?_⟩
  intro i row h
  simp only [zeros, Array.getElem?_replicate] at h
  split at h
  · cases h; simp
  · cases h

theorem get?_of_sq {dim : Nat} {T : Table S} (h : Sq dim T) {i j : Nat} (hi : i < dim)
    (hj : j < dim) : ∃ v, T.get? i j = some v := by
  have hi' : i < T.size := h.1 ▸ hi
  have hrow := h.2 i _ (Array.getElem?_eq_getElem hi')
  unfold get?
  rw [Array.getElem?_eq_getElem hi']
  exact ⟨_, Array.getElem?_eq_getElem (hrow ▸ hj)⟩

theorem set?_spec {T T' : Table S} {i j : Nat} {v : S} (h : T.set? i j v = some T') :
    T'.get? i j = some v ∧ ∀ i' j', (i' ≠ i ∨ j' ≠ j) → T'.get? i' j' = T.get? i' j' := by
  unfold set? at h
  split at h
  · cases h
  · rename_i row hrow
    split at h
    · rename_i hj
      cases h
      have hi : i < T.size := by
        rcases Array.getElem?_eq_some_iff.mp hrow with ⟨hi, _⟩
        exact hi
      constructor
      · unfold get?
        rw [Array.getElem?_setIfInBounds_self, if_pos hi]
        simp only
        rw [Array.getElem?_setIfInBounds_self, if_pos hj]
      · intro i' j' hne
        unfold get?
        by_cases hii : i' = i
        · subst hii
          have hjj : j' ≠ j := by
            rcases hne with h | h
            · exact absurd rfl h
            · exact h
          rw [Array.getElem?_setIfInBounds_self, if_pos hi, hrow]
          simp only
          rw [Array.getElem?_setIfInBounds_ne (Ne.symm hjj)]
        · rw [Array.getElem?_setIfInBounds_ne (Ne.symm hii)]
    · cases h

theorem set?_of_sq {dim : Nat} {T : Table S} (h : Sq dim T) {i j : Nat} (hi : i < dim)
    (hj : j < dim) (v : S) : ∃ T', T.set? i j v = some T' ∧ Sq dim T' := by
  have hi' : i < T.size := h.1 ▸ hi
  have hrow := h.2 i _ (Array.getElem?_eq_getElem hi')
  unfold set?
  rw [Array.getElem?_eq_getElem hi']
  simp only
  rw [if_pos (hrow ▸ hj)]
  refine ⟨_, rfl, ?_, ?_⟩
  · rw [Array.size_setIfInBounds]; exact h.1
  · intro i' row' hr
    rw [Array.getElem?_setIfInBounds] at hr
    split at hr
    · cases hr
      rw [Array.size_setIfInBounds]; exact hrow
    · exact h.2 i' row' hr

end Table

section nopanic
variable {S : Type} [Add S] [Sub S] [Mul S] [Div S] [Neg S] [OfNat S 0] [NatCast S]
  [LT S] [DecidableRel (α := S) (· < ·)] [LE S] [DecidableRel (α := S) (· ≤ ·)]

/-- the inner loop stays inside a `dim × dim` table as long as row `iter + 1` exists -/
theorem rombergRow_sq {dim iter : Nat} (hit : iter + 1 < dim) (h32 : iter < 32) :
    ∀ (n k : Nat) (T : Table S), Table.Sq dim T → 2 ≤ k → k + n = iter + 2 →
      ∃ T', rombergRow iter n k T = some T' ∧ Table.Sq dim T' := by
  intro n
  induction n with
  | zero => intro k T hsq _ _; exact ⟨T, rfl, hsq⟩
  | succ n ih =>
    intro k T hsq hk hkn
    unfold rombergRow
    rw [if_neg (by omega)]
    obtain ⟨u, hu⟩ := Table.get?_of_sq hsq (i := 2 + iter - k + 1) (j := k - 1) (by omega) (by omega)
    obtain ⟨v, hv⟩ := Table.get?_of_sq hsq (i := 2 + iter - k) (j := k - 1) (by omega) (by omega)
    simp only [hu, hv]
    obtain ⟨T', hT', hsq'⟩ := Table.set?_of_sq hsq (i := 2 + iter - k) (j := k) (by omega) (by omega)
      ((((4 ^ (k - 1) : Nat) : S) * u - v) / (((4 ^ (k - 1) : Nat) : S) - lit 1))
    simp only [hT']
    exact ih (k + 1) T' hsq' (by omega) (by omega)

theorem trapLoop_error (f : S → Except PErr S) (h : S) (e : PErr) :
    ∀ (n : Nat) (xi sum : S), trapLoop f h n xi sum = .error e → ∃ x, f x = .error e := by
  intro n
  induction n with
  | zero => intro xi sum hh; simp [trapLoop] at hh
  | succ n ih =>
    intro xi sum hh
    unfold trapLoop at hh
    simp only at hh
    split at hh
    · rename_i e' he; cases hh; exact ⟨_, he⟩
    · exact ih _ _ hh

/-- an error of `trapezoidal_rule` is an evaluation error of the integrand -/
theorem trapezoid_error (f : S → Except PErr S) (a b : S) (n : Nat) (e : PErr)
    (hh : trapezoid f a b n = .error e) : ∃ x, f x = .error e := by
  unfold trapezoid at hh
  simp only at hh
  split at hh
  · rename_i e' he; cases hh; exact ⟨_, he⟩
  · split at hh
    · rename_i e' he; cases hh; exact trapLoop_error f _ e _ _ _ he
    · split at hh
      · rename_i e' he; cases hh; exact ⟨_, he⟩
      · cases hh

/-- the outcomes `romberg_definite` may have: a value, its non-convergence error, or an evaluation
error that the integrand really produced — not a panic -/
def Allowed (f : S → Except PErr S) : Outcome IErr S → Prop
  | .ok _ => True
  | .err .maxIterationsReached => True
  | .err (.functionError e) => ∃ x, f x = .error e
  | .panic => False

/-- what a pass may lead to when nothing goes wrong -/
def Pass.Safe (f : S → Except PErr S) (dim cap iter : Nat) : Pass S → Prop
  | .done o => Allowed f o
  | .more T' => Table.Sq dim T' ∧ iter < cap

theorem rombergStop_safe {dim : Nat} (f : S → Except PErr S) (tol : S) (cap iter : Nat)
    (T : Table S) (hsq : Table.Sq dim T) (h3 : 3 ≤ dim) (hit : iter + 1 < dim) :
    Pass.Safe f dim cap iter (rombergStop tol cap iter T) := by
  obtain ⟨x, hx⟩ := Table.get?_of_sq hsq (i := 1) (j := iter + 1) (by omega) hit
  obtain ⟨y, hy⟩ := Table.get?_of_sq hsq (i := 2) (j := iter) (by omega) (by omega)
  unfold rombergStop
  simp only [hx, hy]
  split
  · split
    · simp [Pass.Safe, Allowed]
    · simp [Pass.Safe, Allowed]
  · rename_i hne
    refine ⟨hsq, ?_⟩
    have : ¬ iter ≥ cap := fun h => hne (Or.inl h)
    omega

theorem rombergPass_safe {dim : Nat} (f : S → Except PErr S) (a b tol : S) (cap iter : Nat)
    (T : Table S) (hsq : Table.Sq dim T) (h3 : 3 ≤ dim) (h1 : 1 ≤ iter) (hit : iter + 1 < dim)
    (h32 : iter < 32) : Pass.Safe f dim cap iter (rombergPass f a b tol cap iter T) := by
  unfold rombergPass
  rw [if_neg (by omega)]
  split
  · rename_i e he
    exact trapezoid_error f a b _ e he
  · rename_i t _
    obtain ⟨T1, hT1, hsq1⟩ := Table.set?_of_sq hsq (i := iter + 1) (j := 1) hit (by omega) t
    simp only [hT1]
    obtain ⟨T2, hT2, hsq2⟩ := rombergRow_sq hit h32 iter 2 T1 hsq1 (by omega) (by omega)
    simp only [hT2]
    exact rombergStop_safe f tol cap iter T2 hsq2 h3 hit

theorem rombergLoop_allowed {dim : Nat} (f : S → Except PErr S) (a b tol : S) (cap : Nat)
    (h3 : 3 ≤ dim) (h33 : dim ≤ 33) (hcap : cap ≤ dim - 2) :
    ∀ (fuel iter0 : Nat) (T : Table S), Table.Sq dim T → (iter0 = 0 ∨ iter0 < cap) →
      Allowed f (rombergLoop f a b tol cap fuel iter0 T) := by
  intro fuel
  induction fuel with
  | zero =>
    intro iter0 T hsq hi
    unfold rombergLoop
    have hs := rombergPass_safe f a b tol cap (iter0 + 1) T hsq h3 (by omega) (by omega) (by omega)
    split
    · rename_i o ho; rw [ho] at hs; exact hs
    · simp [Allowed]
  | succ fuel ih =>
    intro iter0 T hsq hi
    unfold rombergLoop
    have hs := rombergPass_safe f a b tol cap (iter0 + 1) T hsq h3 (by omega) (by omega) (by omega)
    split
    · rename_i o ho; rw [ho] at hs; exact hs
    · rename_i T' hT'
      rw [hT'] at hs
      exact ih (iter0 + 1) T' hs.1 (Or.inr hs.2)

/-- `romberg_definite` with a table of side 3 … 33 never panics: whatever the scalar type, evaluation
function, interval, cap and tolerance are, every table index stays below the dimension, `2^iter` fits
`u32` and `4^(k−1)` fits `usize`; and an error it returns is `MaxIterationsReached` or an evaluation
error of the integrand. -/
theorem romberg_allowed {dim : Nat} (h3 : 3 ≤ dim) (h33 : dim ≤ 33) (f : S → Except PErr S)
    (a b : S) (maxiter : Nat) (tol : S) : Allowed f (romberg dim f a b maxiter tol) := by
  unfold romberg
  rw [if_neg (by omega)]
  split
  · rename_i e he
    exact trapezoid_error f a b _ e he
  · rename_i t _
    obtain ⟨T, hT, hsq⟩ := Table.set?_of_sq (Table.zeros_sq (S := S) dim) (i := 1) (j := 1)
      (by omega) (by omega) t
    simp only [hT]
    exact rombergLoop_allowed f a b tol _ h3 h33 (Nat.min_le_right _ _) _ 0 T hsq (Or.inl rfl)

theorem rombergStop_more_lt (tol : S) (cap iter : Nat) (T T' : Table S)
    (h : rombergStop tol cap iter T = .more T') : iter < cap := by
  unfold rombergStop at h
  split at h
  · simp only at h
    split at h
    · split at h <;> cases h
    · rename_i hne
      have : ¬ iter ≥ cap := fun h => hne (Or.inl h)
      omega
  · cases h

theorem rombergPass_more_lt (f : S → Except PErr S) (a b tol : S) (cap iter : Nat) (T T' : Table S)
    (h : rombergPass f a b tol cap iter T = .more T') : iter < cap := by
  unfold rombergPass at h
  split at h
  · cases h
  · split at h
    · cases h
    · split at h
      · cases h
      · split at h
        · cases h
        · exact rombergStop_more_lt tol cap iter _ T' h

/-- the loop goes round again only while `iter < cap`, so a recursion bound of at least
`cap − iter` passes is never what ends it: the answer does not depend on the bound -/
theorem rombergLoop_fuel (f : S → Except PErr S) (a b tol : S) (cap : Nat) :
    ∀ (fuel fuel' iter0 : Nat) (T : Table S), cap ≤ fuel + iter0 → cap ≤ fuel' + iter0 →
      rombergLoop f a b tol cap fuel iter0 T = rombergLoop f a b tol cap fuel' iter0 T := by
  intro fuel
  induction fuel with
  | zero =>
    intro fuel' iter0 T h1 h2
    unfold rombergLoop
    cases hp : rombergPass f a b tol cap (iter0 + 1) T with
    | done o => rfl
    | more T' =>
      have := rombergPass_more_lt f a b tol cap (iter0 + 1) T T' hp
      omega
  | succ fuel ih =>
    intro fuel' iter0 T h1 h2
    unfold rombergLoop
    cases hp : rombergPass f a b tol cap (iter0 + 1) T with
    | done o => rfl
    | more T' =>
      have hlt := rombergPass_more_lt f a b tol cap (iter0 + 1) T T' hp
      cases fuel' with
      | zero => omega
      | succ fuel' =>
        simp only
        exact ih fuel' (iter0 + 1) T' (by omega) (by omega)

end nopanic
section exact
variable {K : Type} [Field K] {f : K → Except PErr K} {g : K → K}

theorem trapLoop_spec (hf : ∀ x, f x = .ok (g x)) (h : K) (Gt : K → K)
    (hpanel : ∀ x, h / 2 * (g x + g (x + h)) = Gt (x + h) - Gt x) :
    ∀ (n : Nat) (xi sum : K), ∃ sum', trapLoop f h n xi sum = .ok (xi + n * h, sum') ∧
      h / 2 * (sum' - g (xi + n * h)) = h / 2 * (sum - g xi) + (Gt (xi + n * h) - Gt xi) := by
  intro n
  induction n with
  | zero =>
    intro xi sum
    refine ⟨sum, ?_, ?_⟩
    · simp [trapLoop]
    · simp
  | succ n ih =>
    intro xi sum
    obtain ⟨sum', h1, h2⟩ := ih (xi + h) (sum + lit 2 * g (xi + h))
    have e : xi + h + (n : K) * h = xi + ((n + 1 : ℕ) : K) * h := by push_cast; ring
    rw [e] at h1 h2
    refine ⟨sum', ?_, ?_⟩
    · unfold trapLoop
      simp only [hf]
      exact h1
    · simp only [lit, Nat.cast_ofNat] at h2
      linear_combination h2 + hpanel xi

theorem trapezoid_spec [CharZero K] (hf : ∀ x, f x = .ok (g x)) (a b : K) (n : Nat) (hn : 1 ≤ n)
    (Gt : K → K)
    (hpanel : ∀ x, (b - a) / n / 2 * (g x + g (x + (b - a) / n)) = Gt (x + (b - a) / n) - Gt x) :
    trapezoid f a b n = .ok (Gt b - Gt a) := by
  obtain ⟨sum', h1, h2⟩ := trapLoop_spec hf ((b - a) / n) Gt hpanel (n - 1) a (g a)
  have hn0 : (n : K) ≠ 0 := by exact_mod_cast (by omega : n ≠ 0)
  have e : a + ((n - 1 : ℕ) : K) * ((b - a) / n) + (b - a) / n = b := by
    rw [Nat.cast_sub hn]; field_simp; ring
  have hp := hpanel (a + ((n - 1 : ℕ) : K) * ((b - a) / n))
  rw [e] at hp
  unfold trapezoid
  simp only [hf, h1]
  congr 1
  simp only [lit, Nat.cast_ofNat]
  linear_combination h2 + hp

theorem s13Loop_spec (hf : ∀ x, f x = .ok (g x)) (h : K) (G E : K → K)
    (hpanel : ∀ x, h / 3 * (g x + 4 * g (x + h) + g (x + 2 * h)) = G (x + 2 * h) - G x + E x) :
    ∀ (n : Nat) (xi sum : K), ∃ sum', s13Loop f h n xi sum = .ok (xi + n * (2 * h), sum') ∧
      h / 3 * (sum' - g (xi + n * (2 * h)))
        = h / 3 * (sum - g xi) + (G (xi + n * (2 * h)) - G xi)
          + ∑ i ∈ Finset.range n, E (xi + i * (2 * h)) := by
  intro n
  induction n with
  | zero =>
    intro xi sum
    refine ⟨sum, ?_, ?_⟩
    · simp [s13Loop]
    · simp
  | succ n ih =>
    intro xi sum
    obtain ⟨sum', h1, h2⟩ := ih (xi + 2 * h) (sum + (4 * g (xi + h) + 2 * g (xi + 2 * h)))
    have e : xi + 2 * h + (n : K) * (2 * h) = xi + ((n + 1 : ℕ) : K) * (2 * h) := by
      push_cast; ring
    have e' : xi + 2 * h - h = xi + h := by ring
    have es : ∑ i ∈ Finset.range (n + 1), E (xi + (i : K) * (2 * h))
        = E xi + ∑ i ∈ Finset.range n, E (xi + 2 * h + (i : K) * (2 * h)) := by
      rw [Finset.sum_range_succ', add_comm]
      congr 1
      · simp
      · apply Finset.sum_congr rfl
        intro i _
        congr 1
        push_cast
        ring
    rw [e] at h1 h2
    refine ⟨sum', ?_, ?_⟩
    · unfold s13Loop
      simp only [hf, lit, Nat.cast_ofNat, e']
      exact h1
    · generalize xi + ((n + 1 : ℕ) : K) * (2 * h) = X at h2 ⊢
      rw [es]
      linear_combination h2 + hpanel xi

theorem simpson13_spec (hf : ∀ x, f x = .ok (g x)) (h s : K) (m : Nat) (hm : 1 ≤ m / 2)
    (G E : K → K)
    (hpanel : ∀ x, h / 3 * (g x + 4 * g (x + h) + g (x + 2 * h)) = G (x + 2 * h) - G x + E x) :
    simpson13 f h s m = .ok (G (s + ((m / 2 : ℕ) : K) * (2 * h)) - G s
      + ∑ i ∈ Finset.range (m / 2), E (s + i * (2 * h))) := by
  obtain ⟨sum', h1, h2⟩ := s13Loop_spec hf h G E hpanel (m / 2 - 1) s (g s)
  have e : s + ((m / 2 - 1 : ℕ) : K) * (2 * h) + 2 * h = s + ((m / 2 : ℕ) : K) * (2 * h) := by
    rw [Nat.cast_sub hm]; push_cast; ring
  have e' : s + ((m / 2 - 1 : ℕ) : K) * (2 * h) + 2 * h - h
      = s + ((m / 2 - 1 : ℕ) : K) * (2 * h) + h := by ring
  have es : ∑ i ∈ Finset.range (m / 2), E (s + (i : K) * (2 * h))
      = ∑ i ∈ Finset.range (m / 2 - 1), E (s + (i : K) * (2 * h))
        + E (s + ((m / 2 - 1 : ℕ) : K) * (2 * h)) := by
    obtain ⟨r, hr⟩ : ∃ r, m / 2 = r + 1 := ⟨m / 2 - 1, by omega⟩
    rw [hr, Finset.sum_range_succ]
    simp
  have hp := hpanel (s + ((m / 2 - 1 : ℕ) : K) * (2 * h))
  unfold simpson13
  simp only [hf, h1, lit, Nat.cast_ofNat, e']
  rw [← e, es]
  congr 1
  generalize s + ((m / 2 - 1 : ℕ) : K) * (2 * h) = X at h2 hp ⊢
  linear_combination h2 + hp

theorem simpson38_spec (hf : ∀ x, f x = .ok (g x)) (h x : K) (G : K → K) (E : K)
    (hpanel : 3 * h / 8 * (g x + 3 * g (x + h) + 3 * g (x + 2 * h) + g (x + 3 * h))
      = G (x + 3 * h) - G x + E) :
    simpson38 f h x (x + h) (x + 2 * h) (x + 3 * h) = .ok (G (x + 3 * h) - G x + E) := by
  unfold simpson38
  simp only [hf, lit, Nat.cast_ofNat]
  congr 1
  linear_combination hpanel

/-- `definite_integral` with `n ≥ 2` segments in exact arithmetic, for any integrand `g` whose
1/3- and 3/8-panels starting at `x` integrate `G' = g` up to `E13 x`, `E38 x`: the result is
`G b − G a` plus the panel errors — 1/3 panels start at `a + 2ih`, the 3/8 panel (odd `n`) at `b − 3h` -/
theorem definiteIntegral_spec_sum [CharZero K] (hf : ∀ x, f x = .ok (g x)) (a b : K) (n : Nat)
    (hn : 2 ≤ n) (G E13 E38 : K → K)
    (h13 : ∀ x, (b - a) / n / 3 * (g x + 4 * g (x + (b - a) / n) + g (x + 2 * ((b - a) / n)))
      = G (x + 2 * ((b - a) / n)) - G x + E13 x)
    (h38 : ∀ x, 3 * ((b - a) / n) / 8 * (g x + 3 * g (x + (b - a) / n)
        + 3 * g (x + 2 * ((b - a) / n)) + g (x + 3 * ((b - a) / n)))
      = G (x + 3 * ((b - a) / n)) - G x + E38 x) :
    definiteIntegral f a b n = .ok (G b - G a +
      (if n % 2 = 0 then ∑ i ∈ Finset.range (n / 2), E13 (a + i * (2 * ((b - a) / n)))
       else ∑ i ∈ Finset.range ((n - 3) / 2), E13 (a + i * (2 * ((b - a) / n)))
          + E38 (b - 3 * ((b - a) / n)))) := by
  have hn0 : (n : K) ≠ 0 := by exact_mod_cast (by omega : n ≠ 0)
  unfold definiteIntegral
  rw [if_neg (by omega)]
  by_cases hpar : n % 2 = 0
  · -- even
    have hq : 1 ≤ n / 2 := by omega
    have hnq : ((n / 2 : ℕ) : K) * 2 = n := by
      have : n / 2 * 2 = n := by omega
      exact_mod_cast this
    have e : a + ((n / 2 : ℕ) : K) * (2 * ((b - a) / n)) = b := by
      rw [← mul_assoc, hnq]; field_simp; ring
    simp only [hpar, ne_eq, not_true_eq_false, if_false, if_true]
    rw [if_pos (by omega), simpson13_spec hf _ a n hq G E13 h13, e]
    simp
  · -- odd, n ≥ 3
    have hn3 : 3 ≤ n := by omega
    set h := (b - a) / (n : K) with hh
    have e3 : b - 3 * h + 3 * h = b := by ring
    have p0 : b - h * lit 3 = b - 3 * h := by simp only [lit, Nat.cast_ofNat]; ring
    have p1 : b - h * lit 2 = b - 3 * h + h := by simp only [lit, Nat.cast_ofNat]; ring
    have p2 : b - h * lit 1 = b - 3 * h + 2 * h := by simp only [lit, Nat.cast_one]; ring
    have s38 := simpson38_spec hf h (b - 3 * h) G (E38 (b - 3 * h)) (h38 (b - 3 * h))
    rw [e3] at s38
    simp only [hpar, ne_eq, not_false_eq_true, if_true, if_false]
    rw [p0, p1, p2, s38]
    simp only
    by_cases hrem : n - 3 > 1
    · have hq : 1 ≤ (n - 3) / 2 := by omega
      have hnq : (((n - 3) / 2 : ℕ) : K) * 2 = n - 3 := by
        have : (n - 3) / 2 * 2 + 3 = n := by omega
        have h' : ((((n - 3) / 2 * 2 + 3 : ℕ)) : K) = n := by exact_mod_cast this
        push_cast at h'
        linear_combination h'
      have e : a + (((n - 3) / 2 : ℕ) : K) * (2 * h) = b - 3 * h := by
        rw [← mul_assoc, hnq, hh]; field_simp; ring
      rw [if_pos hrem, simpson13_spec hf h a (n - 3) hq G E13 h13, e]
      simp only [Except.ok.injEq]
      ring
    · have hn3' : n = 3 := by omega
      have e : b - 3 * h = a := by
        rw [hh, hn3']; push_cast; field_simp; ring
      rw [if_neg hrem]
      have : (n - 3) / 2 = 0 := by omega
      rw [this, Finset.sum_range_zero]
      simp only [Except.ok.injEq]
      rw [e]
      ring

/-- the same with constant panel errors -/
theorem definiteIntegral_spec [CharZero K] (hf : ∀ x, f x = .ok (g x)) (a b : K) (n : Nat)
    (hn : 2 ≤ n) (G : K → K) (E13 E38 : K)
    (h13 : ∀ x, (b - a) / n / 3 * (g x + 4 * g (x + (b - a) / n) + g (x + 2 * ((b - a) / n)))
      = G (x + 2 * ((b - a) / n)) - G x + E13)
    (h38 : ∀ x, 3 * ((b - a) / n) / 8 * (g x + 3 * g (x + (b - a) / n)
        + 3 * g (x + 2 * ((b - a) / n)) + g (x + 3 * ((b - a) / n)))
      = G (x + 3 * ((b - a) / n)) - G x + E38) :
    definiteIntegral f a b n = .ok (G b - G a +
      (if n % 2 = 0 then ((n / 2 : ℕ) : K) * E13 else (((n - 3) / 2 : ℕ) : K) * E13 + E38)) := by
  rw [definiteIntegral_spec_sum hf a b n hn G (fun _ => E13) (fun _ => E38) h13 h38]
  simp [Finset.sum_const, Finset.card_range]

end exact
section polyfacts
variable {K : Type} [Field K]

theorem coeff_ofCoeffsFrom (k : ℕ) (cs : List K) (i : ℕ) :
    (ofCoeffsFrom k cs).coeff i = if k ≤ i then cs.getD (i - k) 0 else 0 := by
  induction cs generalizing k with
  | nil => simp [ofCoeffsFrom]
  | cons c cs ih =>
    simp only [ofCoeffsFrom, coeff_add, coeff_C_mul, coeff_X_pow, ih]
    by_cases h1 : i = k
    · subst h1; simp
    · by_cases h2 : k ≤ i
      · have h3 : k + 1 ≤ i := by omega
        have h4 : i - k = (i - (k + 1)) + 1 := by omega
        rw [if_neg h1, if_pos h3, if_pos h2, h4, List.getD_cons_succ]; simp
      · have h3 : ¬ k + 1 ≤ i := by omega
        rw [if_neg h1, if_neg h3, if_neg h2]; simp

/-- coefficient `i` of the polynomial denoted by a coefficient list -/
theorem coeff_ofCoeffs (cs : List K) (i : ℕ) : (ofCoeffs cs).coeff i = cs.getD i 0 := by
  simp [ofCoeffs, coeff_ofCoeffsFrom]

/-- a list of at most `n + 1` coefficients denotes a polynomial of degree at most `n` -/
theorem natDegree_ofCoeffs_le (cs : List K) (n : ℕ) (h : cs.length ≤ n + 1) :
    (ofCoeffs cs).natDegree ≤ n := by
  rw [natDegree_le_iff_coeff_eq_zero]
  intro N hN
  rw [coeff_ofCoeffs, List.getD_eq_getElem?_getD, List.getElem?_eq_none (by omega)]; rfl

/-- an explicit quartic, its antiderivative and its derivative -/
def quart (c0 c1 c2 c3 c4 x : K) : K := c0 + c1 * x + c2 * x ^ 2 + c3 * x ^ 3 + c4 * x ^ 4
def quartInt (c0 c1 c2 c3 c4 x : K) : K :=
  c0 * x + c1 * x ^ 2 / 2 + c2 * x ^ 3 / 3 + c3 * x ^ 4 / 4 + c4 * x ^ 5 / 5
def quartDer (c1 c2 c3 c4 x : K) : K := c1 + 2 * c2 * x + 3 * c3 * x ^ 2 + 4 * c4 * x ^ 3

theorem eval_of_natDegree_le_four (p : K[X]) (hp : p.natDegree ≤ 4) (x : K) :
    p.eval x = quart (p.coeff 0) (p.coeff 1) (p.coeff 2) (p.coeff 3) (p.coeff 4) x := by
  rw [eval_eq_sum_range' (show p.natDegree < 5 by omega)]
  simp [Finset.sum_range_succ, quart]

theorem eval_derivative_of_natDegree_le_four (p : K[X]) (hp : p.natDegree ≤ 4) (x : K) :
    (derivative p).eval x = quartDer (p.coeff 1) (p.coeff 2) (p.coeff 3) (p.coeff 4) x := by
  have hd : (derivative p).natDegree < 4 := by
    have := natDegree_derivative_le p
    omega
  rw [eval_eq_sum_range' hd]
  simp [Finset.sum_range_succ, quartDer, coeff_derivative]
  ring

variable [CharZero K]

theorem natDegree_antiderivative_le (p P : K[X]) (hP : derivative P = p) (n : ℕ)
    (hp : p.natDegree ≤ n) : P.natDegree ≤ n + 1 := by
  rw [natDegree_le_iff_coeff_eq_zero]
  intro N hN
  obtain ⟨i, rfl⟩ : ∃ i, N = i + 1 := ⟨N - 1, by omega⟩
  have h0 : p.coeff i = 0 := coeff_eq_zero_of_natDegree_lt (by omega)
  rw [← hP, coeff_derivative] at h0
  have hne : ((i : K) + 1) ≠ 0 := by exact_mod_cast Nat.succ_ne_zero i
  exact (mul_eq_zero.mp h0).resolve_right hne

/-- differences of any antiderivative of a polynomial of degree ≤ 4, explicitly -/
theorem antiderivative_eval_sub (p P : K[X]) (hP : derivative P = p) (hp : p.natDegree ≤ 4)
    (x y : K) :
    P.eval y - P.eval x
      = quartInt (p.coeff 0) (p.coeff 1) (p.coeff 2) (p.coeff 3) (p.coeff 4) y
        - quartInt (p.coeff 0) (p.coeff 1) (p.coeff 2) (p.coeff 3) (p.coeff 4) x := by
  have hd : P.natDegree < 6 := by
    have := natDegree_antiderivative_le p P hP 4 hp
    omega
  rw [eval_eq_sum_range' hd, eval_eq_sum_range' hd]
  simp only [← hP, coeff_derivative]
  simp [Finset.sum_range_succ, quartInt]
  ring

/-- Simpson 1/3 panel for a polynomial of degree ≤ 4 and any antiderivative `P` -/
theorem poly_panel13 (p P : K[X]) (hP : derivative P = p) (hp : p.natDegree ≤ 4) (x h : K) :
    h / 3 * (p.eval x + 4 * p.eval (x + h) + p.eval (x + 2 * h))
      = P.eval (x + 2 * h) - P.eval x + h ^ 5 / 90 * (24 * p.coeff 4) := by
  rw [antiderivative_eval_sub p P hP hp]
  simp only [eval_of_natDegree_le_four p hp, quart, quartInt]
  ring

/-- Simpson 3/8 panel -/
theorem poly_panel38 (p P : K[X]) (hP : derivative P = p) (hp : p.natDegree ≤ 4) (x h : K) :
    3 * h / 8 * (p.eval x + 3 * p.eval (x + h) + 3 * p.eval (x + 2 * h) + p.eval (x + 3 * h))
      = P.eval (x + 3 * h) - P.eval x + 3 * h ^ 5 / 80 * (24 * p.coeff 4) := by
  rw [antiderivative_eval_sub p P hP hp]
  simp only [eval_of_natDegree_le_four p hp, quart, quartInt]
  ring

/-- trapezoid panel for a polynomial of degree ≤ 3 (Euler–Maclaurin with exact remainder) -/
theorem poly_panel_trap (p P : K[X]) (hP : derivative P = p) (hp : p.natDegree ≤ 3) (x h : K) :
    h / 2 * (p.eval x + p.eval (x + h))
      = P.eval (x + h) - P.eval x
        + h ^ 2 / 12 * ((derivative p).eval (x + h) - (derivative p).eval x) := by
  have h4 : p.coeff 4 = 0 := coeff_eq_zero_of_natDegree_lt (by omega)
  rw [antiderivative_eval_sub p P hP (by omega)]
  simp only [eval_of_natDegree_le_four p (show p.natDegree ≤ 4 by omega),
    eval_derivative_of_natDegree_le_four p (show p.natDegree ≤ 4 by omega), quart, quartInt,
    quartDer, h4]
  ring

/-- the fourth derivative of a polynomial of degree ≤ 4 is the constant `24·c₄` -/
theorem iterate_derivative_four (p : K[X]) (hp : p.natDegree ≤ 4) :
    derivative^[4] p = C (24 * p.coeff 4) := by
  ext m
  rw [coeff_iterate_derivative, coeff_C]
  by_cases hm : m = 0
  · subst hm
    simp [Nat.descFactorial]
  · have h0 : p.coeff (m + 4) = 0 := coeff_eq_zero_of_natDegree_lt (by omega)
    rw [if_neg hm, h0, smul_zero]

end polyfacts
section romberg_exact
variable {K : Type} [Field K] [LinearOrder K] [IsStrictOrderedRing K]

/-- state of the table while pass `iter` fills column `k`: column 1 holds the trapezoid sums
`I + C/4^(j−1)` in rows `1 … iter+1`; every entry of a column `≥ 2` written so far holds `I` -/
def RInv (I C : K) (iter k : Nat) (T : Table K) : Prop :=
  (∀ j, 1 ≤ j → j ≤ iter + 1 → T.get? j 1 = some (I + C / 4 ^ (j - 1))) ∧
  (∀ j k', 1 ≤ j → 2 ≤ k' → (j + k' ≤ iter + 1 ∨ (j + k' = iter + 2 ∧ k' < k)) →
    T.get? j k' = some I)

theorem richardson_first (I C : K) (m : ℕ) :
    ((4 : K) * (I + C / 4 ^ (m + 1)) - (I + C / 4 ^ m)) / (4 - 1) = I := by
  field_simp
  ring

theorem richardson_higher (I p : K) (hp : p ≠ 1) : (p * I - I) / (p - 1) = I := by
  have : p - 1 ≠ 0 := sub_ne_zero.mpr hp
  field_simp

theorem rombergRow_exact (I C : K) (iter : Nat) :
    ∀ (n k : Nat) (T T' : Table K), RInv I C iter k T → 2 ≤ k → k + n = iter + 2 →
      rombergRow iter n k T = some T' → RInv I C iter (iter + 2) T' := by
  intro n
  induction n with
  | zero =>
    intro k T T' hinv hk hkn hrow
    simp only [rombergRow, Option.some.injEq] at hrow
    subst hrow
    have : k = iter + 2 := by omega
    subst this
    exact hinv
  | succ n ih =>
    intro k T T' hinv hk hkn hrow
    unfold rombergRow at hrow
    split at hrow
    · cases hrow
    · -- the value written is `I`
      have hval : ∃ u v, T.get? (2 + iter - k + 1) (k - 1) = some u ∧
          T.get? (2 + iter - k) (k - 1) = some v ∧
          (((4 ^ (k - 1) : ℕ) : K) * u - v) / (((4 ^ (k - 1) : ℕ) : K) - lit 1) = I := by
        by_cases hk2 : k = 2
        · subst hk2
          obtain ⟨m, rfl⟩ : ∃ m, iter = m + 1 := ⟨iter - 1, by omega⟩
          refine ⟨_, _, hinv.1 (2 + (m + 1) - 2 + 1) (by omega) (by omega),
            hinv.1 (2 + (m + 1) - 2) (by omega) (by omega), ?_⟩
          have e1 : 2 + (m + 1) - 2 + 1 - 1 = m + 1 := by omega
          have e2 : 2 + (m + 1) - 2 - 1 = m := by omega
          rw [e1, e2]
          simp only [lit, Nat.cast_one]
          have := richardson_first I C m
          norm_num at this ⊢
          exact this
        · refine ⟨_, _, hinv.2 (2 + iter - k + 1) (k - 1) (by omega) (by omega) (Or.inr ⟨by omega, by omega⟩),
            hinv.2 (2 + iter - k) (k - 1) (by omega) (by omega) (Or.inl (by omega)), ?_⟩
          have h4 : 4 ≤ 4 ^ (k - 1) := by
            calc 4 = 4 ^ 1 := by norm_num
              _ ≤ 4 ^ (k - 1) := Nat.pow_le_pow_right (by norm_num) (by omega)
          have hp : ((4 ^ (k - 1) : ℕ) : K) ≠ 1 := by
            intro h
            have : (4 ^ (k - 1) : ℕ) = 1 := by exact_mod_cast h
            omega
          simp only [lit, Nat.cast_one]
          exact richardson_higher I _ hp
      obtain ⟨u, v, hu, hv, hI⟩ := hval
      simp only [hu, hv, hI] at hrow
      cases hset : T.set? (2 + iter - k) k I with
      | none => rw [hset] at hrow; cases hrow
      | some T1 =>
        rw [hset] at hrow
        simp only at hrow
        obtain ⟨hnew, hold⟩ := Table.set?_spec hset
        refine ih (k + 1) T1 T' ⟨?_, ?_⟩ (by omega) (by omega) hrow
        · intro j hj1 hj2
          rw [hold j 1 (Or.inr (by omega))]
          exact hinv.1 j hj1 hj2
        · intro j k' hj hk' hc
          by_cases hsame : j = 2 + iter - k ∧ k' = k
          · rw [hsame.1, hsame.2]; exact hnew
          · have hne : j ≠ 2 + iter - k ∨ k' ≠ k := by
              by_cases h1 : j = 2 + iter - k
              · exact Or.inr (fun h2 => hsame ⟨h1, h2⟩)
              · exact Or.inl h1
            rw [hold j k' hne]
            apply hinv.2 j k' hj hk'
            rcases hc with hc | ⟨hc1, hc2⟩
            · exact Or.inl hc
            · refine Or.inr ⟨hc1, ?_⟩
              rcases hne with h1 | h2
              · by_contra hlt
                have : k' = k := by omega
                subst this
                omega
              · omega

theorem rombergStop_more (tol : K) (cap iter : Nat) (T T' : Table K)
    (h : rombergStop tol cap iter T = .more T') : T' = T := by
  unfold rombergStop at h
  split at h
  · simp only at h
    split at h
    · split at h <;> cases h
    · cases h; rfl
  · cases h

theorem rombergStop_exact (I C tol : K) (cap iter : Nat) (T : Table K) (h1 : 1 ≤ iter)
    (hinv : RInv I C iter (iter + 2) T) (v : K)
    (h : rombergStop tol cap iter T = .done (.ok v)) : v = I := by
  have hx := hinv.2 1 (iter + 1) (by omega) (by omega) (Or.inr ⟨by omega, by omega⟩)
  unfold rombergStop at h
  rw [hx] at h
  cases hy : T.get? 2 iter with
  | none => rw [hy] at h; cases h
  | some y =>
    rw [hy] at h
    simp only at h
    split at h
    · split at h
      · cases h
      · cases h; rfl
    · cases h

theorem rombergPass_exact (I C : K) (f : K → Except PErr K) (a b tol : K) (cap it : Nat)
    (htrap : ∀ m, trapezoid f a b (2 ^ m) = .ok (I + C / 4 ^ m)) (T : Table K)
    (hinv : RInv I C it (it + 2) T) :
    (∀ v, rombergPass f a b tol cap (it + 1) T = .done (.ok v) → v = I) ∧
    (∀ T', rombergPass f a b tol cap (it + 1) T = .more T' → RInv I C (it + 1) (it + 1 + 2) T') := by
  unfold rombergPass
  split
  · exact ⟨fun v h => (by cases h), fun T' h => (by cases h)⟩
  · rw [htrap (it + 1)]
    simp only
    cases hset : T.set? (it + 1 + 1) 1 (I + C / 4 ^ (it + 1)) with
    | none => simp only; exact ⟨fun v h => (by cases h), fun T' h => (by cases h)⟩
    | some T1 =>
      simp only
      obtain ⟨hnew, hold⟩ := Table.set?_spec hset
      have hinv1 : RInv I C (it + 1) 2 T1 := by
        constructor
        · intro j hj1 hj2
          by_cases hj : j = it + 1 + 1
          · subst hj; exact hnew
          · rw [hold j 1 (Or.inl hj)]
            exact hinv.1 j hj1 (by omega)
        · intro j k' hj hk' hc
          rw [hold j k' (Or.inr (by omega))]
          apply hinv.2 j k' hj hk'
          rcases hc with hc | ⟨_, hc2⟩
          · by_cases hle : j + k' ≤ it + 1
            · exact Or.inl hle
            · exact Or.inr ⟨by omega, by omega⟩
          · omega
      cases hrow : rombergRow (it + 1) (it + 1) 2 T1 with
      | none => simp only; exact ⟨fun v h => (by cases h), fun T' h => (by cases h)⟩
      | some T2 =>
        simp only
        have hinv2 := rombergRow_exact I C (it + 1) (it + 1) 2 T1 T2 hinv1 (by omega) (by omega) hrow
        refine ⟨fun v h => rombergStop_exact I C tol cap (it + 1) T2 (by omega) hinv2 v h, ?_⟩
        intro T' h
        rw [rombergStop_more tol cap (it + 1) T2 T' h]
        exact hinv2

theorem rombergLoop_exact (I C : K) (f : K → Except PErr K) (a b tol : K) (cap : Nat)
    (htrap : ∀ m, trapezoid f a b (2 ^ m) = .ok (I + C / 4 ^ m)) :
    ∀ (fuel it : Nat) (T : Table K), RInv I C it (it + 2) T → ∀ v,
      rombergLoop f a b tol cap fuel it T = .ok v → v = I := by
  intro fuel
  induction fuel with
  | zero =>
    intro it T hinv v h
    obtain ⟨hdone, _⟩ := rombergPass_exact I C f a b tol cap it htrap T hinv
    unfold rombergLoop at h
    cases hp : rombergPass f a b tol cap (it + 1) T with
    | done o => rw [hp] at h; simp only at h; subst h; exact hdone v hp
    | more T' => rw [hp] at h; cases h
  | succ fuel ih =>
    intro it T hinv v h
    obtain ⟨hdone, hmore⟩ := rombergPass_exact I C f a b tol cap it htrap T hinv
    unfold rombergLoop at h
    cases hp : rombergPass f a b tol cap (it + 1) T with
    | done o => rw [hp] at h; simp only at h; subst h; exact hdone v hp
    | more T' =>
      rw [hp] at h
      exact ih (it + 1) T' (hmore T' hp) v h

/-- Romberg in exact arithmetic: if the trapezoid sums are `I + C/n²` (which is what they are for
a polynomial of degree ≤ 3), every value the function can return is `I` — for every table size,
cap and tolerance -/
theorem romberg_exact (I C : K) (dim : Nat) (f : K → Except PErr K) (a b tol : K) (maxiter : Nat)
    (htrap : ∀ m, trapezoid f a b (2 ^ m) = .ok (I + C / 4 ^ m)) (v : K)
    (h : romberg dim f a b maxiter tol = .ok v) : v = I := by
  unfold romberg at h
  split at h
  · cases h
  · have h0 := htrap 0
    rw [pow_zero] at h0
    rw [h0] at h
    simp only at h
    cases hset : (Table.zeros dim : Table K).set? 1 1 (I + C / 4 ^ 0) with
    | none => rw [hset] at h; cases h
    | some T0 =>
      rw [hset] at h
      simp only at h
      obtain ⟨hnew, _⟩ := Table.set?_spec hset
      refine rombergLoop_exact I C f a b tol _ htrap _ 0 T0 ⟨?_, ?_⟩ v h
      · intro j hj1 hj2
        have : j = 1 := by omega
        subst this
        exact hnew
      · intro j k' hj hk' hc
        omega

end romberg_exact
section gen
variable {K : Type} [Field K] [CharZero K]

/-- Simpson 1/3 panel, any polynomial of degree ≤ 8 (indeed ≤ 9): the error is a *positive*
combination of three values of `f⁗` inside the panel, with weights summing to `h⁵/90` — the Gauss
rule of the Peano kernel, which makes the textbook bound an algebraic identity -/
theorem poly_panel13_gen (p P : K[X]) (hP : derivative P = p) (hp : p.natDegree ≤ 8) (x h : K) :
    h / 3 * (p.eval x + 4 * p.eval (x + h) + p.eval (x + 2 * h))
      = P.eval (x + 2 * h) - P.eval x
        + h ^ 5 * (13 / 1890 * (derivative^[4] p).eval (x + h)
          + 2 / 945 * ((derivative^[4] p).eval (x + h / 2)
              + (derivative^[4] p).eval (x + 3 * h / 2))) := by
  have hd : P.natDegree < 10 := by
    have := natDegree_antiderivative_le p P hP 8 hp
    omega
  have h4 : (derivative^[4] p).natDegree < 5 := by
    have := natDegree_iterate_derivative p 4
    omega
  have h9 : p.natDegree < 9 := by omega
  simp only [eval_eq_sum_range' hd, eval_eq_sum_range' h4, eval_eq_sum_range' h9]
  subst hP
  simp only [Finset.sum_range_succ, Finset.sum_range_zero, coeff_iterate_derivative,
    coeff_derivative, nsmul_eq_mul]
  simp [Nat.descFactorial]
  ring

/-- Simpson 3/8 panel, degree ≤ 8: positive combination of five values of `f⁗` inside the panel,
weights summing to `3h⁵/80` -/
theorem poly_panel38_gen (p P : K[X]) (hP : derivative P = p) (hp : p.natDegree ≤ 8) (x h : K) :
    3 * h / 8 * (p.eval x + 3 * p.eval (x + h) + 3 * p.eval (x + 2 * h) + p.eval (x + 3 * h))
      = P.eval (x + 3 * h) - P.eval x
        + h ^ 5 * (13 / 1120 * (derivative^[4] p).eval (x + 3 * h / 2)
          + 1 / 96 * ((derivative^[4] p).eval (x + h) + (derivative^[4] p).eval (x + 2 * h))
          + 17 / 6720 * ((derivative^[4] p).eval (x + h / 2)
              + (derivative^[4] p).eval (x + 5 * h / 2))) := by
  have hd : P.natDegree < 10 := by
    have := natDegree_antiderivative_le p P hP 8 hp
    omega
  have h4 : (derivative^[4] p).natDegree < 5 := by
    have := natDegree_iterate_derivative p 4
    omega
  have h9 : p.natDegree < 9 := by omega
  simp only [eval_eq_sum_range' hd, eval_eq_sum_range' h4, eval_eq_sum_range' h9]
  subst hP
  simp only [Finset.sum_range_succ, Finset.sum_range_zero, coeff_iterate_derivative,
    coeff_derivative, nsmul_eq_mul]
  simp [Nat.descFactorial]
  ring

end gen

section bound
variable {K : Type} [Field K] [LinearOrder K] [IsStrictOrderedRing K]

theorem abs_pow_five (h : K) : |h ^ 5| = h ^ 4 * |h| := by
  have h4 : |h| ^ 4 = h ^ 4 := by
    rw [← abs_pow]; exact abs_of_nonneg (by positivity)
  rw [abs_pow, pow_succ, h4]

theorem quad13_bound (h d1 d2 d3 M : K) (h1 : |d1| ≤ M) (h2 : |d2| ≤ M) (h3 : |d3| ≤ M) :
    |h ^ 5 * (13 / 1890 * d1 + 2 / 945 * (d2 + d3))| ≤ h ^ 4 * |h| * (M / 90) := by
  have a1 := abs_le.mp h1
  have a2 := abs_le.mp h2
  have a3 := abs_le.mp h3
  rw [abs_mul, abs_pow_five]
  apply mul_le_mul_of_nonneg_left _ (by positivity)
  rw [abs_le]
  constructor <;> linarith [a1.1, a1.2, a2.1, a2.2, a3.1, a3.2]

theorem quad38_bound (h d1 d2 d3 d4 d5 M : K) (h1 : |d1| ≤ M) (h2 : |d2| ≤ M) (h3 : |d3| ≤ M)
    (h4 : |d4| ≤ M) (h5 : |d5| ≤ M) :
    |h ^ 5 * (13 / 1120 * d1 + 1 / 96 * (d2 + d3) + 17 / 6720 * (d4 + d5))|
      ≤ h ^ 4 * |h| * (3 * M / 80) := by
  have a1 := abs_le.mp h1
  have a2 := abs_le.mp h2
  have a3 := abs_le.mp h3
  have a4 := abs_le.mp h4
  have a5 := abs_le.mp h5
  rw [abs_mul, abs_pow_five]
  apply mul_le_mul_of_nonneg_left _ (by positivity)
  rw [abs_le]
  constructor <;> linarith [a1.1, a1.2, a2.1, a2.2, a3.1, a3.2, a4.1, a4.2, a5.1, a5.2]

/-- the abscissa `a + s·h`, `0 ≤ s ≤ n`, lies in the interval whatever the order of `a` and `b` -/
theorem node_mem (a b : K) (n : ℕ) (hn : 0 < n) (s : K) (h0 : 0 ≤ s) (h1 : s ≤ n) :
    min a b ≤ a + s * ((b - a) / n) ∧ a + s * ((b - a) / n) ≤ max a b := by
  have hnpos : (0 : K) < n := by exact_mod_cast hn
  have e : a + s * ((b - a) / n) = a + (s / n) * (b - a) := by field_simp
  have t0 : 0 ≤ s / n := div_nonneg h0 hnpos.le
  have t1 : s / n ≤ 1 := by rw [div_le_one hnpos]; exact h1
  rw [e]
  generalize s / (n : K) = t at t0 t1
  rcases le_total a b with hab | hab
  · rw [min_eq_left hab, max_eq_right hab]; constructor <;> nlinarith
  · rw [min_eq_right hab, max_eq_left hab]; constructor <;> nlinarith

/-- **The textbook error bound for every degree ≤ 8**, any integrand function that evaluates the
polynomial `p`, any interval (reversed, empty), any `n ≥ 2` (even, odd, 3) -/
theorem definiteIntegral_error_bound {f : K → Except PErr K} (p P : K[X])
    (hP : derivative P = p) (hp : p.natDegree ≤ 8) (hf : ∀ x, f x = .ok (p.eval x)) (a b M : K)
    (n : ℕ) (hn : 2 ≤ n)
    (hM : ∀ x, min a b ≤ x → x ≤ max a b → |(derivative^[4] p).eval x| ≤ M) :
    ∃ v, definiteIntegral f a b n = .ok v ∧
      |v - (P.eval b - P.eval a)| ≤ |b - a| * ((b - a) / n) ^ 4 * M / 80 := by
  have hn0 : (n : K) ≠ 0 := by exact_mod_cast (by omega : n ≠ 0)
  have hnpos : 0 < n := by omega
  have hM0 : 0 ≤ M := le_trans (abs_nonneg _) (hM a (min_le_left a b) (le_max_left a b))
  refine ⟨_, definiteIntegral_spec_sum hf a b n hn (fun x => P.eval x) _ _
    (fun x => poly_panel13_gen p P hP hp x _) (fun x => poly_panel38_gen p P hP hp x _), ?_⟩
  have e : (b - a) = n * ((b - a) / n) := by field_simp
  -- membership of the nodes
  have hnode : ∀ s : K, 0 ≤ s → s ≤ n →
      |(derivative^[4] p).eval (a + s * ((b - a) / n))| ≤ M := fun s h0 h1 =>
    hM _ (node_mem a b n hnpos s h0 h1).1 (node_mem a b n hnpos s h0 h1).2
  generalize hh : (b - a) / (n : K) = h at e hnode ⊢
  have hA : 0 ≤ h ^ 4 * |h| := by positivity
  -- a 1/3 panel starting at `a + i·2h` with `2i + 2 ≤ m ≤ n`
  have h13b : ∀ i : ℕ, 2 * i + 2 ≤ n →
      |h ^ 5 * (13 / 1890 * (derivative^[4] p).eval (a + ↑i * (2 * h) + h)
        + 2 / 945 * ((derivative^[4] p).eval (a + ↑i * (2 * h) + h / 2)
            + (derivative^[4] p).eval (a + ↑i * (2 * h) + 3 * h / 2)))|
        ≤ h ^ 4 * |h| * (M / 90) := by
    intro i hi
    have hiK : (2 : K) * i + 2 ≤ n := by exact_mod_cast hi
    have hi0 : (0 : K) ≤ i := Nat.cast_nonneg i
    apply quad13_bound
    · have := hnode (2 * i + 1) (by linarith) (by linarith)
      have e1 : a + (2 * (i : K) + 1) * h = a + ↑i * (2 * h) + h := by ring
      rwa [e1] at this
    · have := hnode (2 * i + 1 / 2) (by linarith) (by linarith)
      have e1 : a + (2 * (i : K) + 1 / 2) * h = a + ↑i * (2 * h) + h / 2 := by ring
      rwa [e1] at this
    · have := hnode (2 * i + 3 / 2) (by linarith) (by linarith)
      have e1 : a + (2 * (i : K) + 3 / 2) * h = a + ↑i * (2 * h) + 3 * h / 2 := by ring
      rwa [e1] at this
  have habs : |(n : K) * h| = n * |h| := by rw [abs_mul, abs_of_nonneg (Nat.cast_nonneg n)]
  have hsum : ∀ q : ℕ, 2 * q ≤ n →
      |∑ i ∈ Finset.range q, h ^ 5 * (13 / 1890 * (derivative^[4] p).eval (a + ↑i * (2 * h) + h)
        + 2 / 945 * ((derivative^[4] p).eval (a + ↑i * (2 * h) + h / 2)
            + (derivative^[4] p).eval (a + ↑i * (2 * h) + 3 * h / 2)))|
        ≤ q * (h ^ 4 * |h| * (M / 90)) := by
    intro q hq
    refine (Finset.abs_sum_le_sum_abs _ _).trans ?_
    have := Finset.sum_le_card_nsmul (Finset.range q) (fun i => |h ^ 5 * (13 / 1890 *
        (derivative^[4] p).eval (a + ↑i * (2 * h) + h)
        + 2 / 945 * ((derivative^[4] p).eval (a + ↑i * (2 * h) + h / 2)
            + (derivative^[4] p).eval (a + ↑i * (2 * h) + 3 * h / 2)))|) (h ^ 4 * |h| * (M / 90))
      (fun i hi => h13b i (by have := Finset.mem_range.mp hi; omega))
    simpa [nsmul_eq_mul] using this
  rw [e, habs]
  by_cases hpar : n % 2 = 0
  · have hnq : ((n / 2 : ℕ) : K) * 2 = n := by
      have : n / 2 * 2 = n := by omega
      exact_mod_cast this
    simp only [hpar, if_true]
    have : P.eval b - P.eval a + ∑ i ∈ Finset.range (n / 2),
        h ^ 5 * (13 / 1890 * (derivative^[4] p).eval (a + ↑i * (2 * h) + h)
        + 2 / 945 * ((derivative^[4] p).eval (a + ↑i * (2 * h) + h / 2)
            + (derivative^[4] p).eval (a + ↑i * (2 * h) + 3 * h / 2))) - (P.eval b - P.eval a)
        = ∑ i ∈ Finset.range (n / 2),
        h ^ 5 * (13 / 1890 * (derivative^[4] p).eval (a + ↑i * (2 * h) + h)
        + 2 / 945 * ((derivative^[4] p).eval (a + ↑i * (2 * h) + h / 2)
            + (derivative^[4] p).eval (a + ↑i * (2 * h) + 3 * h / 2))) := by ring
    rw [this]
    refine (hsum (n / 2) (by omega)).trans ?_
    have hAM : 0 ≤ h ^ 4 * |h| * M := mul_nonneg hA hM0
    have hn' : (0 : K) ≤ n := Nat.cast_nonneg n
    have : ((n / 2 : ℕ) : K) = n / 2 := by rw [← hnq]; ring
    rw [this]
    nlinarith
  · have hn3 : 3 ≤ n := by omega
    have hnq : (((n - 3) / 2 : ℕ) : K) * 2 + 3 = n := by
      have : (n - 3) / 2 * 2 + 3 = n := by omega
      exact_mod_cast this
    simp only [hpar, if_false]
    have h38b : |h ^ 5 * (13 / 1120 * (derivative^[4] p).eval (b - 3 * h + 3 * h / 2)
          + 1 / 96 * ((derivative^[4] p).eval (b - 3 * h + h)
              + (derivative^[4] p).eval (b - 3 * h + 2 * h))
          + 17 / 6720 * ((derivative^[4] p).eval (b - 3 * h + h / 2)
              + (derivative^[4] p).eval (b - 3 * h + 5 * h / 2)))|
        ≤ h ^ 4 * |h| * (3 * M / 80) := by
      have hb : b = a + n * h := by linear_combination e
      have hn3K : (3 : K) ≤ n := by exact_mod_cast hn3
      apply quad38_bound
      · have := hnode (n - 3 + 3 / 2) (by linarith) (by linarith)
        have e1 : a + ((n : K) - 3 + 3 / 2) * h = b - 3 * h + 3 * h / 2 := by rw [hb]; ring
        rwa [e1] at this
      · have := hnode (n - 3 + 1) (by linarith) (by linarith)
        have e1 : a + ((n : K) - 3 + 1) * h = b - 3 * h + h := by rw [hb]; ring
        rwa [e1] at this
      · have := hnode (n - 3 + 2) (by linarith) (by linarith)
        have e1 : a + ((n : K) - 3 + 2) * h = b - 3 * h + 2 * h := by rw [hb]; ring
        rwa [e1] at this
      · have := hnode (n - 3 + 1 / 2) (by linarith) (by linarith)
        have e1 : a + ((n : K) - 3 + 1 / 2) * h = b - 3 * h + h / 2 := by rw [hb]; ring
        rwa [e1] at this
      · have := hnode (n - 3 + 5 / 2) (by linarith) (by linarith)
        have e1 : a + ((n : K) - 3 + 5 / 2) * h = b - 3 * h + 5 * h / 2 := by rw [hb]; ring
        rwa [e1] at this
    have hs := hsum ((n - 3) / 2) (by omega)
    generalize (∑ i ∈ Finset.range ((n - 3) / 2),
        h ^ 5 * (13 / 1890 * (derivative^[4] p).eval (a + ↑i * (2 * h) + h)
        + 2 / 945 * ((derivative^[4] p).eval (a + ↑i * (2 * h) + h / 2)
            + (derivative^[4] p).eval (a + ↑i * (2 * h) + 3 * h / 2)))) = S13 at hs ⊢
    generalize (h ^ 5 * (13 / 1120 * (derivative^[4] p).eval (b - 3 * h + 3 * h / 2)
          + 1 / 96 * ((derivative^[4] p).eval (b - 3 * h + h)
              + (derivative^[4] p).eval (b - 3 * h + 2 * h))
          + 17 / 6720 * ((derivative^[4] p).eval (b - 3 * h + h / 2)
              + (derivative^[4] p).eval (b - 3 * h + 5 * h / 2)))) = E38 at h38b ⊢
    have : P.eval b - P.eval a + (S13 + E38) - (P.eval b - P.eval a) = S13 + E38 := by ring
    rw [this]
    refine (abs_add_le _ _).trans ?_
    have hAM : 0 ≤ h ^ 4 * |h| * M := mul_nonneg hA hM0
    have hq : (((n - 3) / 2 : ℕ) : K) = ((n : K) - 3) / 2 := by rw [← hnq]; ring
    rw [hq] at hs
    have hn3K : (3 : K) ≤ n := by exact_mod_cast hn3
    nlinarith

end bound
section repr
variable {K : Type} [Field K]

/-- `p` (of either polynomial type) evaluates, without error, like the Mathlib polynomial `q` -/
def Evaluates (powf : K → K → K) (p : AnyPoly K) (q : K[X]) : Prop :=
  ∀ x, p.evalUni powf x = .ok (q.eval x)

theorem simple_evaluates (powf : K → K → K) (var : Option Char) (cs : List K) :
    Evaluates powf (.simple ⟨cs, var⟩) (ofCoeffs cs) := fun x => by
  simp [AnyPoly.evalUni, evalSimple_eq]

/-- the terms of a univariate `IntermediatePolynomial` in the variable `v` — each `c` or `c·v^k`
with a natural exponent stored as a scalar, in any order, repetitions and zero coefficients allowed —
and the polynomial they denote -/
inductive Denotes (v : String) : List (Term K) → K[X] → Prop
  | nil : Denotes v [] 0
  | const (c : K) {ts : List (Term K)} {q : K[X]} :
      Denotes v ts q → Denotes v (⟨c, []⟩ :: ts) (C c + q)
  | pow (c : K) (k : ℕ) {ts : List (Term K)} {q : K[X]} :
      Denotes v ts q → Denotes v (⟨c, [(v, (k : K))]⟩ :: ts) (C c * X ^ k + q)

theorem evalTermsFrom_denotes (powf : K → K → K) (hpow : ∀ (x : K) (k : ℕ), powf x (k : K) = x ^ k)
    (v : String) (σ : String → Option K) (x : K) (hσ : σ v = some x) {ts : List (Term K)}
    {q : K[X]} (h : Denotes v ts q) :
    ∀ acc, evalTermsFrom powf σ acc ts = .ok (acc + q.eval x) := by
  induction h with
  | nil => intro acc; simp [evalTermsFrom]
  | const c _ ih =>
    intro acc
    simp only [evalTermsFrom, termValue, ih, eval_add, eval_C]
    congr 1; ring
  | pow c k _ ih =>
    intro acc
    simp only [evalTermsFrom, termValue, hσ, hpow, ih, eval_add, eval_mul, eval_C, eval_pow, eval_X]
    congr 1; ring

/-- an `IntermediatePolynomial` whose terms are `c` or `c·v^k` and whose variable list is `[v]`
evaluates like the polynomial its terms denote, provided `powf` is the power function at natural
exponents (as `f64::powf` is) -/
theorem inter_evaluates (powf : K → K → K) (hpow : ∀ (x : K) (k : ℕ), powf x (k : K) = x ^ k)
    (v : String) (ts : List (Term K)) (q : K[X]) (h : Denotes v ts q) :
    Evaluates powf (.inter ⟨ts, [v]⟩) q := fun x => by
  have hσ : lookup [(v, x)] v = some x := by simp [lookup]
  have := evalTermsFrom_denotes powf hpow v (lookup [(v, x)]) x hσ h 0
  simpa [AnyPoly.evalUni, Poly.evalUni, evalTerms] using this

theorem evalTermsFrom_const (powf : K → K → K) (σ : String → Option K) (ts : List (Term K))
    (hts : ∀ t ∈ ts, t.vars = []) :
    ∀ acc, evalTermsFrom powf σ acc ts = .ok (acc + (ts.map (·.coef)).sum) := by
  induction ts with
  | nil => intro acc; simp [evalTermsFrom]
  | cons t ts ih =>
    intro acc
    have ht : t.vars = [] := hts t (by simp)
    have ih' := ih (fun t' h' => hts t' (by simp [h']))
    simp only [evalTermsFrom, ht, termValue, ih', List.map_cons, List.sum_cons]
    congr 1; ring

/-- a constant `IntermediatePolynomial` (no term has a variable; the variable list is empty, as the
parser leaves it) evaluates like the constant polynomial -/
theorem inter_const_evaluates (powf : K → K → K) (ts : List (Term K))
    (hts : ∀ t ∈ ts, t.vars = []) :
    Evaluates powf (.inter ⟨ts, []⟩) (C (ts.map (·.coef)).sum) := fun x => by
  have := evalTermsFrom_const powf (lookup ([] : List (String × K))) ts hts 0
  simpa [AnyPoly.evalUni, Poly.evalUni, evalTerms] using this

end repr
end SV.C05
