import Proto.Mat
namespace Proto
variable {S : Type} [Inhabited S] [Add S] [Sub S] [Mul S] [Div S] [OfNat S 0]

/-- dot of row `i` of `U` from column `c` on, with the list `xs` (left-to-right accumulation from 0). -/
def rowDot (U : Mat S) (i c : Nat) (xs : List S) : S :=
  (xs.zipIdx).foldl (fun acc (p : S × Nat) => acc + U.get i (c + p.2) * p.1) 0

/-- returns `[x_{n-t}, …, x_{n-1}]` -/
def backSubstL (U : Mat S) (b : Nat → S) (n : Nat) : Nat → List S
  | 0 => []
  | t+1 =>
    let xs := backSubstL U b n t
    let i := n - (t+1)
    ((b i - rowDot U i (i+1) xs) / U.get i i) :: xs

def backSubst' (U : Mat S) (b : Nat → S) (n : Nat) : List S := backSubstL U b n n
end Proto
