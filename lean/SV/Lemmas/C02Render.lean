import SV.Lemmas.C02Grammar
/-!
Proof of the grammar-completeness half of C02, step by step along the parser:

* `protectDash_render`   normalising a rendered term list yields the terms' pieces (`-` + body for a
                         negative term) joined by `+`; a `-` directly after `^` stays inside its exponent
* `parts_render`         the split at `+` gives back exactly one part per term
* `parsePart_render`     one piece parses to the term it spells
* `parse_render`         the whole parser on any text whose non-white-space characters are a rendering
-/
namespace SV.C02
open SV SV.Text

/-! ### `protectDash`: a transducer with the previous character as state -/

theorem protectDash_dash {p : Option Char} (h : p ≠ some '^') (cs : List Char) :
    protectDash p ('-' :: cs) = '+' :: '-' :: protectDash (some '-') cs := by
  rw [protectDash, if_pos ⟨rfl, h⟩]

theorem protectDash_ne {c : Char} (h : c ≠ '-') (p : Option Char) (cs : List Char) :
    protectDash p (c :: cs) = c :: protectDash (some c) cs := by
  rw [protectDash, if_neg (fun e => h e.1)]

theorem protectDash_caret_dash (cs : List Char) :
    protectDash (some '^') ('-' :: cs) = '-' :: protectDash (some '-') cs := by
  rw [protectDash, if_neg (fun e => e.2 rfl)]

/-- `a` passes through unchanged from state `p` and leaves state `p'` -/
def Passes (p : Option Char) (a : List Char) (p' : Option Char) : Prop :=
  ∀ rest, protectDash p (a ++ rest) = a ++ protectDash p' rest

theorem passes_nil (p : Option Char) : Passes p [] p := fun _ => rfl

theorem passes_cons {c : Char} (hc : c ≠ '-') {a : List Char} {p p' : Option Char}
    (h : Passes (some c) a p') : Passes p (c :: a) p' := by
  intro rest
  rw [List.cons_append, protectDash_ne hc, h rest]
  rfl

theorem passes_caret_dash {a : List Char} {p p' : Option Char} (h : Passes (some '-') a p') :
    Passes p ('^' :: '-' :: a) p' := by
  intro rest
  rw [List.cons_append, List.cons_append, protectDash_ne (by decide), protectDash_caret_dash, h rest]
  rfl

theorem passes_append {a b : List Char} {p p' p'' : Option Char} (h1 : Passes p a p')
    (h2 : Passes p' b p'') : Passes p (a ++ b) p'' := by
  intro rest
  rw [List.append_assoc, h1, h2]
  exact (List.append_assoc _ _ _).symm

/-- passes from every state, and the state left is never "just after `^`" -/
def Trans (a : List Char) : Prop := ∀ p, ∃ p', p' ≠ some '^' ∧ Passes p a p'

/-- passes from every state, and a good state stays good (for possibly empty text) -/
def Trans0 (a : List Char) : Prop := ∀ p, ∃ p', (p ≠ some '^' → p' ≠ some '^') ∧ Passes p a p'

theorem Trans.trans0 {a : List Char} (h : Trans a) : Trans0 a := fun p =>
  let ⟨p', h1, h2⟩ := h p
  ⟨p', fun _ => h1, h2⟩

theorem trans0_nil : Trans0 [] := fun p => ⟨p, id, passes_nil p⟩

theorem Trans.append {a b : List Char} (ha : Trans a) (hb : Trans0 b) : Trans (a ++ b) := by
  intro p
  obtain ⟨p', h1, h2⟩ := ha p
  obtain ⟨p'', h3, h4⟩ := hb p'
  exact ⟨p'', h3 h1, passes_append h2 h4⟩

theorem Trans0.append_trans {a b : List Char} (ha : Trans0 a) (hb : Trans b) : Trans (a ++ b) := by
  intro p
  obtain ⟨p', _, h2⟩ := ha p
  obtain ⟨p'', h3, h4⟩ := hb p'
  exact ⟨p'', h3, passes_append h2 h4⟩

theorem Trans0.append {a b : List Char} (ha : Trans0 a) (hb : Trans0 b) : Trans0 (a ++ b) := by
  intro p
  obtain ⟨p', h1, h2⟩ := ha p
  obtain ⟨p'', h3, h4⟩ := hb p'
  exact ⟨p'', fun h => h3 (h1 h), passes_append h2 h4⟩

/-- text without `-` and `^` -/
def Plain (a : List Char) : Prop := ∀ c ∈ a, c ≠ '-' ∧ c ≠ '^'

theorem plain_passes {a : List Char} (ha : Plain a) :
    ∀ p, p ≠ some '^' → ∃ p', p' ≠ some '^' ∧ Passes p a p' := by
  induction a with
  | nil => exact fun p hp => ⟨p, hp, passes_nil p⟩
  | cons c cs ih =>
    intro p _
    have hc := ha c (by simp)
    obtain ⟨p', h1, h2⟩ := ih (fun d hd => ha d (by simp [hd])) (some c)
      (fun e => hc.2 (Option.some.inj e))
    exact ⟨p', h1, passes_cons hc.1 h2⟩

theorem trans_plain {a : List Char} (ha : Plain a) (hne : a ≠ []) : Trans a := by
  cases a with
  | nil => exact absurd rfl hne
  | cons c cs =>
    intro p
    have hc := ha c (by simp)
    obtain ⟨p', h1, h2⟩ := plain_passes (a := cs) (fun d hd => ha d (by simp [hd])) (some c)
      (fun e => hc.2 (Option.some.inj e))
    exact ⟨p', h1, passes_cons hc.1 h2⟩

theorem plain_udec {u : UDec} (hu : u.WF) : Plain u.render := fun _ hc =>
  ⟨fun e => UDec.dash_not_mem hu (e ▸ hc), fun e => UDec.caret_not_mem hu (e ▸ hc)⟩

theorem trans_udec {u : UDec} (hu : u.WF) : Trans u.render :=
  trans_plain (plain_udec hu) (UDec.render_ne_nil hu)

theorem plain_frac {a b : UDec} (ha : a.WF) (hb : b.WF) : Plain (a.render ++ '/' :: b.render) := by
  intro c hc
  simp only [List.mem_append, List.mem_cons] at hc
  rcases hc with h | h | h
  · exact plain_udec ha c h
  · subst h; decide
  · exact plain_udec hb c h

theorem trans_frac {a b : UDec} (ha : a.WF) (hb : b.WF) : Trans (a.render ++ '/' :: b.render) :=
  trans_plain (plain_frac ha hb) (by simp)

theorem trans0_coef {k : Coef} (hk : k.WF) : Trans0 k.render := by
  cases k with
  | none => exact trans0_nil
  | dec u => exact (trans_udec hk).trans0
  | frac a b => exact (trans_frac hk.1 hk.2.1).trans0

theorem trans_coef {k : Coef} (hk : k.WF) (hne : k ≠ .none) : Trans k.render := by
  cases k with
  | none => exact absurd rfl hne
  | dec u => exact trans_udec hk
  | frac a b => exact trans_frac hk.1 hk.2.1

/-- `^` followed by an exponent: the sign stays where it is -/
theorem trans_caret_signed {neg : Bool} {a : List Char} (ha : Trans a) :
    Trans ('^' :: (signChars neg ++ a)) := by
  intro p
  cases neg with
  | true =>
    obtain ⟨p', h1, h2⟩ := ha (some '-')
    exact ⟨p', h1, by simpa [signChars] using passes_caret_dash (p := p) h2⟩
  | false =>
    obtain ⟨p', h1, h2⟩ := ha (some '^')
    exact ⟨p', h1, by simpa [signChars] using passes_cons (p := p) (by decide) h2⟩

theorem trans_caret_expo {e : Expo} (he : e.WF) : Trans ('^' :: e.render) := by
  cases e with
  | dec neg u => exact trans_caret_signed (trans_udec he)
  | frac neg a b =>
    have := trans_caret_signed (neg := neg) (trans_frac he.1 he.2.1)
    simpa [Expo.render, List.append_assoc] using this

theorem trans_factor {f : Factor} (hl : isAsciiLetter f.letter = true)
    (he : ∀ e, f.exp = some e → e.WF) : Trans f.render := by
  unfold Factor.render
  have h1 : Trans [f.letter] :=
    trans_plain (fun c hc => by
      have : c = f.letter := by simpa using hc
      subst this
      exact ⟨letter_ne_dash hl, letter_ne_caret hl⟩) (by simp)
  cases hx : f.exp with
  | none => simpa using h1
  | some e => exact h1.append (trans_caret_expo (he e hx)).trans0

theorem trans0_factors {fs : List Factor} (hl : ∀ f ∈ fs, isAsciiLetter f.letter = true)
    (he : ∀ f ∈ fs, ∀ e, f.exp = some e → e.WF) : Trans0 (renderFactors fs) := by
  induction fs with
  | nil => exact trans0_nil
  | cons f fs ih =>
    have h1 := trans_factor (hl f (by simp)) (he f (by simp))
    have h2 := ih (fun g hg => hl g (by simp [hg])) (fun g hg => he g (by simp [hg]))
    simpa [renderFactors] using h1.trans0.append h2

theorem trans_factors {fs : List Factor} (hl : ∀ f ∈ fs, isAsciiLetter f.letter = true)
    (he : ∀ f ∈ fs, ∀ e, f.exp = some e → e.WF) (hne : fs ≠ []) : Trans (renderFactors fs) := by
  cases fs with
  | nil => exact absurd rfl hne
  | cons f fs =>
    have h1 := trans_factor (hl f (by simp)) (he f (by simp))
    have h2 := trans0_factors (fs := fs) (fun g hg => hl g (by simp [hg]))
      (fun g hg => he g (by simp [hg]))
    simpa [renderFactors] using h1.append h2

/-- a term body passes through the normalisation unchanged, whatever precedes it, and the next
character is never taken for "directly after `^`" -/
theorem trans_body {t : TermSyn} (ht : t.WF) : Trans t.body := by
  unfold TermSyn.body
  rcases ht.nonempty with h | h
  · exact (trans_coef ht.coef_wf h).append (trans0_factors ht.letters ht.exps_wf)
  · exact (trans0_coef ht.coef_wf).append_trans (trans_factors ht.letters ht.exps_wf h)

/-- the later terms: every separator becomes `+`, a `-` moves into the piece -/
theorem protectDash_tail (ts : List TermSyn) (hwf : ∀ t ∈ ts, t.WF) (p : Option Char)
    (hp : p ≠ some '^') :
    protectDash p (ts.flatMap fun u => (if u.neg then '-' else '+') :: u.body) =
      ts.flatMap fun u => '+' :: u.piece := by
  induction ts generalizing p with
  | nil => rfl
  | cons u us ih =>
    have hus : ∀ t ∈ us, t.WF := fun t ht => hwf t (by simp [ht])
    simp only [List.flatMap_cons, List.cons_append]
    cases hn : u.neg with
    | true =>
      obtain ⟨p', h1, h2⟩ := trans_body (hwf u (by simp)) (some '-')
      simp only [if_true]
      rw [protectDash_dash hp, h2, ih hus p' h1]
      simp [TermSyn.piece, signChars, hn]
    | false =>
      obtain ⟨p', h1, h2⟩ := trans_body (hwf u (by simp)) (some '+')
      simp only [Bool.false_eq_true, if_false]
      rw [protectDash_ne (by decide), h2, ih hus p' h1]
      simp [TermSyn.piece, signChars, hn]

/-- **Normalisation of a rendering**: the pieces joined by `+`, with a leading `+` exactly when the
first term is written with a sign.  Every `-` that is the sign of an exponent stays inside its piece. -/
theorem protectDash_render (lead : Bool) (t : TermSyn) (ts : List TermSyn)
    (hwf : ∀ u ∈ t :: ts, u.WF) :
    protectDash none (render lead (t :: ts)) =
      (if t.neg = true ∨ lead = true then ['+'] else []) ++ t.piece ++
        ts.flatMap fun u => '+' :: u.piece := by
  have hts : ∀ u ∈ ts, u.WF := fun u hu => hwf u (by simp [hu])
  have ht := hwf t (by simp)
  unfold render
  by_cases hn : t.neg = true
  · obtain ⟨p', h1, h2⟩ := trans_body ht (some '-')
    simp only [hn, if_true, true_or, List.cons_append, List.nil_append]
    rw [protectDash_dash (by simp), h2, protectDash_tail ts hts p' h1]
    simp [TermSyn.piece, signChars, hn]
  · cases lead with
    | true =>
      obtain ⟨p', h1, h2⟩ := trans_body ht (some '+')
      simp only [hn, Bool.false_eq_true, if_false, if_true, or_true, List.cons_append,
        List.nil_append]
      rw [protectDash_ne (by decide), h2, protectDash_tail ts hts p' h1]
      simp [TermSyn.piece, signChars, hn]
    | false =>
      obtain ⟨p', h1, h2⟩ := trans_body ht none
      simp only [hn, Bool.false_eq_true, if_false, or_self, List.nil_append]
      rw [h2, protectDash_tail ts hts p' h1]
      simp [TermSyn.piece, signChars, hn]

/-! ### the split at `+` -/

theorem piece_ne_nil {t : TermSyn} (ht : t.WF) : t.piece ≠ [] := by
  unfold TermSyn.piece
  intro e
  exact body_ne_nil ht (List.append_eq_nil_iff.1 e).2

theorem piece_ne_dash {t : TermSyn} (ht : t.WF) : t.piece ≠ ['-'] := by
  unfold TermSyn.piece
  have hb := body_ne_nil ht
  cases hn : t.neg with
  | true =>
    simp only [signChars, if_true, List.cons_append, List.nil_append]
    intro e
    exact hb (List.cons.inj e).2
  | false =>
    simp only [signChars, Bool.false_eq_true, if_false, List.nil_append]
    intro e
    have : '-' ∈ t.body := by rw [e]; simp
    -- a body never starts with '-': its first character is a digit, '.', or a letter
    have hpass := trans_body ht none
    obtain ⟨p', _, h2⟩ := hpass
    have h3 := h2 []
    rw [List.append_nil, e, protectDash_dash (by simp)] at h3
    simp at h3

/-- **The split**: one part per term, each the term's piece. -/
theorem parts_render (lead : Bool) (ts : List TermSyn) (hne : ts ≠ []) (hwf : ∀ u ∈ ts, u.WF) :
    parts (protectDash none (render lead ts)) = ts.map TermSyn.piece := by
  cases ts with
  | nil => exact absurd rfl hne
  | cons t ts =>
    rw [protectDash_render lead t ts hwf]
    have hsep : ∀ r ∈ (ts.map TermSyn.piece), '+' ∉ r := by
      intro r hr
      obtain ⟨u, hu, rfl⟩ := List.mem_map.1 hr
      exact plus_not_mem_piece (hwf u (by simp [hu]))
    have ht := hwf t (by simp)
    have hflat : (ts.flatMap fun u => '+' :: u.piece) =
        (ts.map TermSyn.piece).flatMap fun r => '+' :: r := by
      rw [List.flatMap_map]
    unfold parts
    by_cases hc : t.neg = true ∨ lead = true
    · rw [if_pos hc]
      have : ['+'] ++ t.piece ++ (ts.flatMap fun u => '+' :: u.piece) =
          [] ++ ((t :: ts).map TermSyn.piece).flatMap fun r => '+' :: r := by
        simp [List.flatMap_map]
      rw [this, splitOn_join [] _ (by simp) (by
        intro r hr
        rcases List.mem_cons.1 hr with rfl | hr
        · exact plus_not_mem_piece ht
        · exact hsep r hr)]
    · rw [if_neg hc, List.nil_append, hflat, splitOn_join _ _ (plus_not_mem_piece ht) hsep]
      split
      · rename_i rest heq
        exact absurd (List.cons.inj heq).1 (piece_ne_nil ht)
      · rfl

/-! ### the coefficient scan -/

/-- the text is empty or starts with an ASCII letter -/
def LetterHead (r : List Char) : Prop := r = [] ∨ ∃ c cs, r = c :: cs ∧ isAsciiLetter c = true

theorem letterHead_factors {fs : List Factor} (hl : ∀ f ∈ fs, isAsciiLetter f.letter = true) :
    LetterHead (renderFactors fs) := by
  cases fs with
  | nil => exact Or.inl rfl
  | cons f fs =>
    right
    refine ⟨f.letter, f.render.tail ++ renderFactors fs, ?_, hl f (by simp)⟩
    simp [renderFactors, Factor.render]

theorem scanCoeff_append {cc : CharClass} (hcc : Sane cc) (a rest : List Char)
    (ha : ∀ c ∈ a, isAsciiDigit c = true ∨ c = '.' ∨ c = '/') (hr : LetterHead rest) (first : Bool) :
    scanCoeff cc first (a ++ rest) = (a, rest) := by
  induction a generalizing first with
  | nil =>
    rcases hr with rfl | ⟨c, cs, rfl, hc⟩
    · rfl
    · rw [List.nil_append, scanCoeff, if_neg]
      rintro (h | h | h | h)
      · rw [hcc.letter_not_numeric c hc] at h; cases h
      · exact letter_ne_dot hc h
      · exact letter_ne_dash hc h.2
      · exact letter_ne_slash hc h
  | cons c cs ih =>
    have hc : cc.isNumeric c = true ∨ c = '.' ∨ (first = true ∧ c = '-') ∨ c = '/' := by
      rcases ha c (by simp) with h | h | h
      · exact Or.inl (hcc.digit_numeric c h)
      · exact Or.inr (Or.inl h)
      · exact Or.inr (Or.inr (Or.inr h))
    rw [List.cons_append, scanCoeff, if_pos hc, ih (fun d hd => ha d (by simp [hd]))]

theorem scanCoeff_signed {cc : CharClass} (hcc : Sane cc) (neg : Bool) (a rest : List Char)
    (ha : ∀ c ∈ a, isAsciiDigit c = true ∨ c = '.' ∨ c = '/') (hr : LetterHead rest) :
    scanCoeff cc true (signChars neg ++ a ++ rest) = (signChars neg ++ a, rest) := by
  cases neg with
  | false => simpa [signChars] using scanCoeff_append hcc a rest ha hr true
  | true =>
    simp only [signChars, if_true, List.cons_append, List.nil_append]
    rw [scanCoeff, if_pos (Or.inr (Or.inr (Or.inl ⟨rfl, rfl⟩))), scanCoeff_append hcc a rest ha hr]

theorem coefChars {k : Coef} (hk : k.WF) :
    ∀ c ∈ k.render, isAsciiDigit c = true ∨ c = '.' ∨ c = '/' := by
  intro c hc
  cases k with
  | none => simp [Coef.render] at hc
  | dec u => rcases UDec.mem_render hk hc with h | h <;> simp [h]
  | frac a b =>
    simp only [Coef.render, List.mem_append, List.mem_cons] at hc
    rcases hc with h | h | h
    · rcases UDec.mem_render hk.1 h with h | h <;> simp [h]
    · simp [h]
    · rcases UDec.mem_render hk.2.1 h with h | h <;> simp [h]

/-! ### coefficient and exponent values -/

theorem signed_udec_ne_nil {u : UDec} (hu : u.WF) (neg : Bool) (x : List Char) :
    signChars neg ++ u.render ++ x ≠ [] := by
  intro e
  exact UDec.render_ne_nil hu (List.append_eq_nil_iff.1 (List.append_eq_nil_iff.1 e).1).2

theorem signed_udec_ne_dash {u : UDec} (hu : u.WF) (neg : Bool) (x : List Char) :
    signChars neg ++ u.render ++ x ≠ ['-'] := by
  have hne := UDec.render_ne_nil hu
  cases neg with
  | true =>
    simp only [signChars, if_true, List.cons_append, List.nil_append]
    intro e
    exact hne (List.append_eq_nil_iff.1 (List.cons.inj e).2).1
  | false =>
    simp only [signChars, Bool.false_eq_true, if_false, List.nil_append]
    intro e
    cases hr : u.render with
    | nil => exact hne hr
    | cons c cs =>
      rw [hr] at e
      have hc : c = '-' := (List.cons.inj e).1
      exact UDec.dash_not_mem hu (by rw [hr, hc]; simp)

theorem contains_slash_signed {u : UDec} (hu : u.WF) (neg : Bool) :
    (signChars neg ++ u.render).contains '/' = false := by
  rw [List.contains_eq_mem, decide_eq_false_iff_not]
  intro h
  rcases List.mem_append.1 h with h | h
  · cases neg <;> simp [signChars] at h
  · exact UDec.slash_not_mem hu h

theorem coeffValue_dec {s : List Char} {d : Dec} (h0 : s ≠ []) (h1 : s ≠ ['-'])
    (h2 : s.contains '/' = false) (h3 : parseSignedDec s = some d) :
    coeffValue s = .ok (.dec d) := by
  unfold coeffValue
  rw [if_neg h0, if_neg h1, if_neg (by rw [h2]; decide), h3]

theorem coeffValue_frac {s : List Char} {v : Num} (h0 : s ≠ []) (h1 : s ≠ ['-'])
    (h2 : s.contains '/' = true) (h3 : parseFraction s = some v) :
    coeffValue s = .ok v := by
  unfold coeffValue
  rw [if_neg h0, if_neg h1, if_pos h2, h3]

theorem expValue_dec {s : List Char} {d : Dec}
    (h2 : s.contains '/' = false) (h3 : parseSignedDec s = some d) :
    expValue s = .ok (.dec d) := by
  unfold expValue
  rw [if_neg (by rw [h2]; decide), h3]

theorem expValue_frac {s : List Char} {v : Num}
    (h2 : s.contains '/' = true) (h3 : parseFraction s = some v) :
    expValue s = .ok v := by
  unfold expValue
  rw [if_pos h2, h3]

theorem coeffValue_render {k : Coef} (hk : k.WF) (neg : Bool) :
    coeffValue (signChars neg ++ k.render) = .ok (k.num neg) := by
  cases k with
  | none =>
    cases neg <;> simp [coeffValue, signChars, Coef.render, Coef.num]
  | dec u =>
    have h0 := signed_udec_ne_nil hk neg []
    have h1 := signed_udec_ne_dash hk neg []
    rw [List.append_nil] at h0 h1
    exact coeffValue_dec h0 h1 (contains_slash_signed hk neg) (parseSignedDec_render hk neg)
  | frac a b =>
    have h0 := signed_udec_ne_nil hk.1 neg ('/' :: b.render)
    have h1 := signed_udec_ne_dash hk.1 neg ('/' :: b.render)
    have h2 : (signChars neg ++ a.render ++ '/' :: b.render).contains '/' = true := by
      simp
    have h3 := parseFraction_render hk.1 hk.2.1 hk.2.2 neg
    have e : signChars neg ++ (Coef.frac a b).render = signChars neg ++ a.render ++ '/' :: b.render := by
      simp [Coef.render]
    rw [e]
    exact coeffValue_frac h0 h1 h2 h3

theorem expValue_render {e : Expo} (he : e.WF) : expValue e.render = .ok e.num := by
  cases e with
  | dec neg u =>
    exact expValue_dec (contains_slash_signed he neg) (parseSignedDec_render he neg)
  | frac neg a b =>
    have h2 : (signChars neg ++ a.render ++ '/' :: b.render).contains '/' = true := by
      simp
    exact expValue_frac h2 (parseFraction_render he.1 he.2.1 he.2.2 neg)

/-! ### the exponent scan -/

theorem scanExp_append (a rest : List Char)
    (ha : ∀ c ∈ a, isAsciiDigit c = true ∨ c = '.' ∨ c = '/' ∨ c = '-') (hr : LetterHead rest) :
    scanExp (a ++ rest) = (a, rest) := by
  induction a with
  | nil =>
    rcases hr with rfl | ⟨c, cs, rfl, hc⟩
    · rfl
    · rw [List.nil_append, scanExp, if_neg]
      rintro (h | h | h | h)
      · rw [letter_not_digit hc] at h; cases h
      · exact letter_ne_dot hc h
      · exact letter_ne_slash hc h
      · exact letter_ne_dash hc h
  | cons c cs ih =>
    rw [List.cons_append, scanExp, if_pos (ha c (by simp)), ih (fun d hd => ha d (by simp [hd]))]

theorem expoChars {e : Expo} (he : e.WF) :
    ∀ c ∈ e.render, isAsciiDigit c = true ∨ c = '.' ∨ c = '/' ∨ c = '-' := by
  intro c hc
  have sign : ∀ neg, c ∈ signChars neg → c = '-' := by
    intro neg h
    cases neg <;> simp [signChars] at h
    exact h
  cases e with
  | dec neg u =>
    simp only [Expo.render, List.mem_append] at hc
    rcases hc with h | h
    · simp [sign neg h]
    · rcases UDec.mem_render he h with h | h <;> simp [h]
  | frac neg a b =>
    simp only [Expo.render, List.mem_append, List.mem_cons] at hc
    rcases hc with (h | h) | h | h
    · simp [sign neg h]
    · rcases UDec.mem_render he.1 h with h | h <;> simp [h]
    · simp [h]
    · rcases UDec.mem_render he.2.1 h with h | h <;> simp [h]

/-! ### the variable loop -/

theorem scanVars_nil (fuel : Nat) (vars : List (String × Num)) : scanVars fuel [] vars = .ok vars := by
  cases fuel <;> rfl

theorem scanVars_caret {c : Char} (hc : isAsciiLetter c = true) (fuel : Nat) (rest : List Char)
    (vars : List (String × Num)) :
    scanVars (fuel + 1) (c :: '^' :: rest) vars =
      match expValue (scanExp rest).1 with
      | .error e => .error e
      | .ok p => scanVars fuel (scanExp rest).2 (addVar vars (String.singleton c) p) := by
  rw [scanVars, if_pos hc]
  cases scanExp rest with
  | mk a b => rfl

theorem scanVars_plain {c : Char} (hc : isAsciiLetter c = true) (fuel : Nat) (cs : List Char)
    (hcs : LetterHead cs) (vars : List (String × Num)) :
    scanVars (fuel + 1) (c :: cs) vars = scanVars fuel cs (addVar vars (String.singleton c) Num.one) := by
  rw [scanVars, if_pos hc]
  intro rest h
  rcases hcs with h' | ⟨d, ds, h', hd⟩
  · rw [h'] at h; cases h
  · rw [h'] at h; cases h; exact letter_ne_caret hd rfl

/-- the variable loop on rendered factors adds one entry per factor, in order -/
theorem scanVars_render (fs : List Factor) (hl : ∀ f ∈ fs, isAsciiLetter f.letter = true)
    (he : ∀ f ∈ fs, ∀ e, f.exp = some e → e.WF) (fuel : Nat)
    (hf : (renderFactors fs).length ≤ fuel) (acc : List (String × Num)) :
    scanVars fuel (renderFactors fs) acc =
      .ok (fs.foldl (fun acc f => addVar acc (String.singleton f.letter) f.num) acc) := by
  induction fs generalizing fuel acc with
  | nil => exact scanVars_nil fuel acc
  | cons f fs ih =>
    have hl' : ∀ g ∈ fs, isAsciiLetter g.letter = true := fun g hg => hl g (by simp [hg])
    have he' : ∀ g ∈ fs, ∀ e, g.exp = some e → e.WF := fun g hg => he g (by simp [hg])
    have hlf := hl f (by simp)
    have hhead := letterHead_factors hl'
    have hrender : renderFactors (f :: fs) = f.render ++ renderFactors fs := by
      simp [renderFactors]
    rw [hrender] at hf ⊢
    cases fuel with
    | zero => simp [Factor.render] at hf
    | succ fuel =>
      simp only [List.foldl_cons]
      cases hx : f.exp with
      | none =>
        have hr : f.render = [f.letter] := by simp [Factor.render, hx]
        rw [hr] at hf ⊢
        simp only [List.cons_append, List.nil_append, List.length_cons] at hf ⊢
        rw [scanVars_plain hlf fuel _ hhead, ih hl' he' fuel (by omega)]
        simp [Factor.num, hx]
      | some e =>
        have hwe := he f (by simp) e hx
        have hr : f.render = f.letter :: '^' :: e.render := by simp [Factor.render, hx]
        rw [hr] at hf ⊢
        simp only [List.cons_append, List.length_cons, List.length_append] at hf ⊢
        rw [scanVars_caret hlf, scanExp_append _ _ (expoChars hwe) hhead]
        simp only [expValue_render hwe]
        rw [ih hl' he' fuel (by omega)]
        simp [Factor.num, hx]

theorem foldl_addVar_distinct (fs : List Factor) (acc : List (String × Num))
    (hd : (fs.map (·.letter)).Nodup)
    (hdis : ∀ f ∈ fs, String.singleton f.letter ∉ names acc) :
    fs.foldl (fun acc f => addVar acc (String.singleton f.letter) f.num) acc =
      acc ++ fs.map Factor.entry := by
  induction fs generalizing acc with
  | nil => simp
  | cons f fs ih =>
    simp only [List.map_cons, List.nodup_cons] at hd
    simp only [List.foldl_cons, List.map_cons]
    rw [addVar_fresh _ _ _ (hdis f (by simp)), ih _ hd.2]
    · simp [Factor.entry]
    · intro g hg hmem
      simp only [names, List.map_append, List.map_cons, List.map_nil, List.mem_append,
        List.mem_singleton] at hmem
      rcases hmem with h | h
      · exact hdis g (by simp [hg]) h
      · have : g.letter = f.letter := String.singleton_inj.1 h
        exact hd.1 (this ▸ List.mem_map.2 ⟨g, hg, rfl⟩)

/-! ### one part -/

/-- **One piece parses to the term it spells.** -/
theorem parsePart_render {cc : CharClass} (hcc : Sane cc) {t : TermSyn} (ht : t.WF) :
    parsePart cc t.piece = .ok t.toITerm := by
  have hhead := letterHead_factors ht.letters
  unfold parsePart TermSyn.piece TermSyn.body
  rw [← List.append_assoc, scanCoeff_signed hcc t.neg _ _ (coefChars ht.coef_wf) hhead]
  simp only [coeffValue_render ht.coef_wf t.neg]
  rw [scanVars_render t.factors ht.letters ht.exps_wf _ (Nat.le_succ _) [],
    foldl_addVar_distinct t.factors [] ht.distinct (fun f _ h => by simp [names] at h)]
  simp only [List.nil_append, TermSyn.toITerm]
  rfl

theorem parseParts_render {cc : CharClass} (hcc : Sane cc) (ts : List TermSyn)
    (hwf : ∀ t ∈ ts, t.WF) :
    parseParts cc (ts.map TermSyn.piece) = .ok (ts.map TermSyn.toITerm) := by
  induction ts with
  | nil => rfl
  | cons t ts ih =>
    simp only [List.map_cons, parseParts, parsePart_render hcc (hwf t (by simp)),
      ih (fun u hu => hwf u (by simp [hu]))]

/-! ### the whole parser -/

/-- the sorted set of the names used -/
def variablesOf (ts : List ITerm) : List String :=
  ((ts.flatMap fun t => t.vars.map (·.1)).eraseDups).mergeSort (fun a b => decide (a ≤ b))

/-- **Every text whose non-white-space characters are a rendering of a well-formed non-empty term
list is accepted, one parsed term per written term.** -/
theorem parse_render {cc : CharClass} (hcc : Sane cc) (lead : Bool) (ts : List TermSyn)
    (hne : ts ≠ []) (hwf : ∀ t ∈ ts, t.WF) (s : List Char) (hs : stripWs cc s = render lead ts) :
    parse cc s = .ok ⟨ts.map TermSyn.toITerm, variablesOf (ts.map TermSyn.toITerm)⟩ := by
  unfold parse normalize
  rw [hs, parts_render lead ts hne hwf]
  have hany : ((ts.map TermSyn.piece).any fun p => decide (p = [] ∨ p = ['-'])) = false := by
    rw [List.any_eq_false]
    intro p hp
    obtain ⟨t, ht, rfl⟩ := List.mem_map.1 hp
    have h1 := piece_ne_nil (hwf t ht)
    have h2 := piece_ne_dash (hwf t ht)
    simp [h1, h2]
  simp only [hany, Bool.false_eq_true, if_false, parseParts_render hcc ts hwf]
  rfl

/-- the variable list of the result: exactly the letters written -/
theorem mem_variablesOf_render (ts : List TermSyn) (n : String) :
    n ∈ variablesOf (ts.map TermSyn.toITerm) ↔
      ∃ t ∈ ts, ∃ f ∈ t.factors, n = String.singleton f.letter := by
  unfold variablesOf
  rw [List.mem_mergeSort, List.mem_eraseDups, List.mem_flatMap]
  constructor
  · rintro ⟨it, hit, hn⟩
    obtain ⟨t, ht, rfl⟩ := List.mem_map.1 hit
    obtain ⟨v, hv, rfl⟩ := List.mem_map.1 hn
    simp only [TermSyn.toITerm, List.mem_mergeSort] at hv
    obtain ⟨f, hf, rfl⟩ := List.mem_map.1 hv
    exact ⟨t, ht, f, hf, rfl⟩
  · rintro ⟨t, ht, f, hf, rfl⟩
    refine ⟨t.toITerm, List.mem_map.2 ⟨t, ht, rfl⟩, List.mem_map.2 ⟨f.entry, ?_, rfl⟩⟩
    simp only [TermSyn.toITerm, List.mem_mergeSort]
    exact List.mem_map.2 ⟨f, hf, rfl⟩

end SV.C02
