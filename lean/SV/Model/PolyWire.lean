import SV.Model.Poly
import SV.Model.Wire
/-!
Wire format of polynomials (shared by every property that takes a polynomial as input):

    S <var code point | -> <n> c₀ … c_{n-1}
    I <nterms> { <coef> <nvars> { <name> <pow> }* }* <nvariables> { <name> }*

with `<name>` = `len cp₁ … cp_len`, floats as u64 bit patterns in requests and `f<bits>` in answers.
-/
namespace SV.PolyWire
open SV SV.Wire SV.Poly

instance : NatCast Float := ⟨Float.ofNat⟩

def name : P String := do
  let cs ← chars
  return String.ofList cs

def term {S} (p : P S) : P (Term S) := do
  let c ← p
  let n ← nat
  let vs ← many n (do let v ← name; let e ← p; return (v, e))
  return ⟨c, vs⟩

def spoly {S} (p : P S) : P (SPoly S) := do
  let v ← tok
  let var : Option Char := match v.toNat? with | some n => some (Char.ofNat n) | none => none
  let n ← nat
  let cs ← many n p
  return ⟨cs, var⟩

def ipoly {S} (p : P S) : P (IPoly S) := do
  let n ← nat
  let ts ← many n (term p)
  let m ← nat
  let vs ← many m name
  return ⟨ts, vs⟩

def anypoly {S} (p : P S) : P (AnyPoly S) := do
  let k ← tok
  match k with
  | "S" => do let q ← spoly p; return .simple q
  | "I" => do let q ← ipoly p; return .inter q
  | _ => fail

def fmtName (s : String) : String := fmtStr s.toList

def fmtTerm {S} (f : S → String) (t : Term S) : String :=
  " ".intercalate ([f t.coef, toString t.vars.length] ++ t.vars.map fun (v, e) => fmtName v ++ " " ++ f e)

def fmtSPoly {S} (f : S → String) (p : SPoly S) : String :=
  " ".intercalate (["S", match p.var with | some c => toString c.toNat | none => "-",
    toString p.coeffs.length] ++ p.coeffs.map f)

def fmtIPoly {S} (f : S → String) (p : IPoly S) : String :=
  " ".intercalate (["I", toString p.terms.length] ++ p.terms.map (fmtTerm f)
    ++ [toString p.variables.length] ++ p.variables.map fmtName)

def fmtAny {S} (f : S → String) : AnyPoly S → String
  | .simple p => fmtSPoly f p
  | .inter p => fmtIPoly f p

def fmtErr (e : PErr) : String := "err " ++ e.kind

def fmtExceptF (r : Except PErr Float) : String :=
  match r with | .ok v => "ok " ++ fmtF v | .error e => fmtErr e

end SV.PolyWire
