"""C17 plug-in.  K compares the printed text only (the part before '#').  The oracle reads the real parser's
answer on the printed text (after '#') and compares it with the original numbers carried by the request:
identical for default formatting, within half a unit of the last requested decimal otherwise (exact
rationals; + one ulp for the final decimal-to-binary rounding)."""
from fractions import Fraction
from oracle_util import *

RULE = ("(round 4, duplicates - identity vs equality: term lists of 2..6 terms with a later term equal to the first / to its neighbour / to another later term, all terms equal, p + p, a repeated negative / unit / zero / constant term, parser output of x + y + x; coefficient vectors of 2..8 entries over a two- or three-value alphabet [constant = leading, two highest equal, all equal] through the dense printer and the fitted-model string; each at precision None and 0..17) (hardening: exponents next to 1 and 0 at every distance, negative exponents x every precision, rounding carries x every "
        "precision, lists of 9..257 coefficients / up to 60 terms, subnormal..largest magnitudes, precisions beyond 17, formatter "
        "flags other than the precision [model comparison only], Term with a precision) coefficient vectors of length 0..8 (signs, +-1, 0, integers, dyadics, 1e+-21 scale, rounding-boundary values) and term "
        "lists with 0..4 variables and integer/negative/fractional exponents, through Display of SimplePolynomial / "
        "IntermediatePolynomial at precision None and 0..17, Display of Term, and LinearModel::to_polynomial_string; every "
        "printed text is parsed back by the real parser. Non-trivial = a printed text with at least one non-zero term that is "
        "not a bare constant; distinct = distinct request lines")

def compare(req, impl, model):
    from __main__ import default_compare
    return default_compare(req, impl.split(" # ")[0], model)

def _strings(tokens, i):
    s, i = read_string(tokens, i)
    return s, i

def _half_unit(prec):
    return Fraction(1, 2 * 10 ** prec)

def _close(back, orig, prec):
    """back, orig: Fractions"""
    if prec is None:
        return back == orig
    return abs(back - orig) <= _half_unit(prec) + 2 * U * abs(orig) + Fraction(1, 2 ** 1074)

def _parse_ds_req(r):
    prec = None if r[1] == "-" else int(r[1])
    n = int(r[3]); i = 4; cs = []
    for _ in range(n):
        cs.append(frac_of_bits(r[i])); i += 1
        _, i = read_string(r, i)
    return prec, cs

def _back_simple(back):
    t = back.split()
    if t[0] != "ok":
        return None
    n = int(t[2])
    return [tok_frac(x) for x in t[3:3 + n]]

def _parse_inter_tokens(tokens, numconv, with_text):
    i = 0
    nt = int(tokens[i]); i += 1
    terms = []
    for _ in range(nt):
        c = numconv(tokens[i]); i += 1
        if with_text:
            _, i = read_string(tokens, i)
        nv = int(tokens[i]); i += 1
        vs = []
        for _ in range(nv):
            name, i = read_string(tokens, i)
            e = numconv(tokens[i]); i += 1
            if with_text:
                _, i = read_string(tokens, i)
            vs.append((name, e))
        terms.append((c, vs))
    return terms

def _cmp_terms(orig, back, prec, what):
    if not orig:
        if all(c == 0 for c, _ in back):
            return None
        return f"{what}: the zero polynomial read back as {back}"
    if len(orig) != len(back):
        return f"{what}: {len(orig)} terms printed, {len(back)} read back"
    for k, ((c, vs), (bc, bvs)) in enumerate(zip(orig, back)):
        if bc is None or not _close(bc, c, prec):
            return f"{what}: term {k} coefficient {float(c)!r} read back as {bc if bc is None else float(bc)!r}"
        if [v for v, _ in vs] != [v for v, _ in bvs]:
            return f"{what}: term {k} variables {[v for v, _ in vs]} read back as {[v for v, _ in bvs]}"
        for (v, e), (_, be) in zip(vs, bvs):
            if be is None or not _close(be, e, prec):
                return f"{what}: term {k} exponent of {v} {float(e)!r} read back as {be if be is None else float(be)!r}"
    return None

def oracle(req, impl):
    r, suffix = split_req(req)
    if " # " not in impl:
        return f"no parse-back: {impl}"
    text_part, back = impl.split(" # ", 1)
    text, _ = read_string(text_part.split(), 0)
    cmd = r[0]
    # ` | fmt <flags> [<prec>]`: formatter flags other than the precision (sign, width, fill, alternate) are not part of
    # the statement: those requests are compared with the model only.  flags 0 = a precision alone (Term requests).
    term_prec = None
    if suffix and suffix[0] == "fmt":
        if int(suffix[1]) != 0:
            return None
        if len(suffix) > 2 and suffix[2] != "-":
            term_prec = int(suffix[2])
    if cmd in ("ds", "dm"):
        if cmd == "ds":
            prec, cs = _parse_ds_req(r)
        else:
            prec = 5
            n = int(r[1]); i = 2; cs = []
            for _ in range(n):
                cs.append(frac_of_bits(r[i])); i += 1
                _, i = read_string(r, i)
        b = _back_simple(back)
        if b is None:
            return f"printed text {text!r} is rejected by the parser: {back}"
        # the zero polynomial is printed as 0
        if all(c == 0 for c in cs) and text != "0":
            return f"the zero polynomial is printed as {text!r}, not as 0"
        # the variable letter comes back (when the original names one and the printed text mentions it)
        if cmd == "ds" and r[2] != "-" and any(c != 0 for c in cs[1:]):
            bv = back.split()[1]
            if bv != r[2]:
                return f"{text!r}: variable {chr(int(r[2]))!r} read back as {bv if bv == '-' else chr(int(bv))!r}"
        m = max(len(cs), len(b))
        cs2 = cs + [Fraction(0)] * (m - len(cs)); b2 = b + [Fraction(0)] * (m - len(b))
        for k, (o, x) in enumerate(zip(cs2, b2)):
            if x is None:
                return f"{text!r}: coefficient {k} read back non-finite"
            # coefficients exactly +-1 are printed without digits: they must come back exactly
            if not _close(x, o, prec):
                return f"{text!r}: coefficient of power {k} is {float(o)!r}, read back {float(x)!r}"
        return None
    if cmd in ("di", "dt"):
        if cmd == "di":
            prec = None if r[1] == "-" else int(r[1])
            orig = _parse_inter_tokens(r[2:], frac_of_bits, True)
        else:
            prec = term_prec
            orig = _parse_inter_tokens(["1"] + r[1:], frac_of_bits, True)
        t = back.split()
        if t[:2] != ["ok", "I"]:
            return f"printed text {text!r} is rejected by the parser: {back}"
        if cmd == "di" and not orig and text != "0":
            return f"the zero polynomial is printed as {text!r}, not as 0"
        b = _parse_inter_tokens(t[2:], tok_frac, False)
        return _cmp_terms(orig, b, prec, repr(text))
    return None

def nontrivial(req, model):
    try:
        text, _ = read_string(model.split(), 0)
    except Exception:
        return False
    return any(c.isalpha() for c in text)

def tag(req, model):
    r, suffix = split_req(req)
    fl = ""
    if suffix and suffix[0] == "fmt":
        fl = ":flags" if int(suffix[1]) != 0 else (":termprec" if len(suffix) > 2 and suffix[2] != "-" else "")
    return r[0] + ":" + ("prec" if len(r) > 1 and r[0] in ("ds", "di") and r[1] != "-" else "default") + fl
