import SV.Model.C03
/-!
C04 — indefinite integrals and the analytical definite integral.  The indefinite integrals are the
shared model `SV.Model.Poly` (`simpleInteg`, `integInter`, `integUni`); this file adds the model of
`analytical_integral` (spindalis_core/src/integrals/univariate_definite.rs) and the request handler.
-/
namespace SV.C04
open SV SV.Poly

section analytical
variable {S : Type} [Add S] [Sub S] [Mul S] [Div S] [OfNat S 0] [OfNat S 1] [NatCast S] [LT S]
  [DecidableRel (α := S) (· < ·)]

/-- `analytical_integral(poly, a, b)`:
`F = poly.indefinite_integral_univariate()?; fa = F.eval_univariate(a)?; fb = F.eval_univariate(b)?;
Ok(fb - fa)` — every `?` forwards the `PolynomialError` (wrapped in `IntegralError::FunctionError`). -/
def analytical (powf : S → S → S) (p : AnyPoly S) (a b : S) : Except PErr S :=
  match p.integUni with
  | .error e => .error e
  | .ok F =>
    match F.evalUni powf a with
    | .error e => .error e
    | .ok fa =>
      match F.evalUni powf b with
      | .error e => .error e
      | .ok fb => .ok (fb - fa)

end analytical

end SV.C04

/-! ### driver -/
namespace SV.C04.Driver
open SV SV.Wire SV.Poly SV.PolyWire SV.PolyOps SV.C04

/-- requests: the shared polynomial commands, `chainm` (C03), and

    analytical <poly> <a> <b>        → ok f… | err Kind
    additive   <poly> <a> <c> <b>    → I(a,c) | I(c,b) | I(a,b)
    swap       <poly> <a> <b>        → I(a,b) | I(b,a)                                        -/
def handleCmd (cmd : String) : P String :=
  match cmd with
  | "analytical" => do
    let p ← anypoly float; let a ← float; let b ← float
    return fmtExceptF (analytical Float.pow p a b)
  | "additive" => do
    let p ← anypoly float; let a ← float; let c ← float; let b ← float
    return " | ".intercalate [fmtExceptF (analytical Float.pow p a c),
      fmtExceptF (analytical Float.pow p c b), fmtExceptF (analytical Float.pow p a b)]
  | "swap" => do
    let p ← anypoly float; let a ← float; let b ← float
    return " | ".intercalate [fmtExceptF (analytical Float.pow p a b),
      fmtExceptF (analytical Float.pow p b a)]
  | _ => C03.Driver.handleCmd cmd

def handle (line : String) : String :=
  let p : P String := do
    let cmd ← tok
    if cmd = "txt" then
      let _ ← chars
      let cmd ← tok
      handleCmd cmd
    else handleCmd cmd
  match run p line with
  | some s => s
  | none => "bad-request"

end SV.C04.Driver
