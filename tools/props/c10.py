"""C10 plug-in: the property's oracle for `Arr2D::inverse` in exact rational arithmetic (Python `fractions`
from the f64 bit patterns), written from the statement and independent of the Lean model and of the harness's
own (dyadic big-integer) oracle.

Clauses checked on the implementation's answer to `inverse <elem-type> <A>` (and to both halves of `inv2 <A>`):

 1. shape and errors: a non-square input (also 0 x w, h x 0) => NonSquareMatrix; a square input is never
    rejected for its shape; the 0 x 0 matrix => Ok(0 x 0); any other error kind and every panic is a failure.
 2. must be refused (SingularMatrix): a zero row, a zero column, a repeated row (exact in floating point at every
    order: the pivot column becomes exactly 0), every exactly singular integer matrix with entries in -2..2 (exact
    rational determinant).  For order <= 3 every operation before the pivot test is exact.  For order >= 4 the
    reason string says "of order >= 4 (rounding hides ...": the recorded open finding F-C09-eps4 (absolute pivot
    test |pivot| < EPSILON on a computed pivot) lets some of these through, and `inverse` then returns a finite
    matrix with entries ~1e15; known_findings.json carries an entry for C10 matching that reason.
 3. must be inverted: non-singular integer matrices with entries in -2..2 (|det| >= 1: every pivot is far above
    EPSILON), strictly diagonally dominant well-scaled matrices, and matrices of order <= 12 that carry one of the
    certificates of `well_conditioned` (exact rational inverse):
      (a) entries <= 2^8 and ||A^-1||_inf <= 1000;
      (b) AT EVERY SCALE: kappa_inf(A) <= 1000 and 1/||A^-1||_inf >= 2 EPSILON.  Every pivot a row-pivoted elimination
          can meet is >= 1/||A^-1||_inf (see `well_conditioned`), so the code's documented refusal rule
          (|pivot| < EPSILON, an ABSOLUTE threshold) cannot be the reason for a refusal;
      (c) ON THE THRESHOLD: kappa_inf(A) <= 1000 and the elimination with partial pivoting (first maximum of the column)
          is EXACT in binary64 - every multiplier, product and difference of the exact rational elimination is a
          binary64 number, so the computed pivots are the exact ones - and every pivot is >= EPSILON in magnitude
          (e.g. 2^-52 times a permutation matrix: each pivot is exactly EPSILON, which the rule `< EPSILON` accepts).
    A well-conditioned matrix BELOW these scales (e.g. 2^-53 times a permutation, kappa = 1) is refused by the unmodified
    code because its refusal rule is absolute; that is reported in the notes of each run (count and an example), not as
    a failure: it is the other face of the recorded finding F-C10-eps4 (see the final report of the hardening pass).
 4. a returned B is n x n with finite entries, and BOTH products are the identity to within rounding,
    componentwise, exactly evaluated (u = 2^-53):
        |A B - I|_ij <= 2^8 n u   max( (|A||B|)_ij , max|A| * max_k |B_kj| )
        |B A - I|_ij <= 2^8 n u k max( (|B||A|)_ij , max_k |B_ik| * max|A| ),   k = max(1, |A|_inf |B|_inf)
    Justification.  Column j of B is computed by forward/back substitution with the PLU factors, so it solves
    (A + E_j) b_j = e_j exactly with |E_j| <= 3 gamma_n P^T|L||U| (Higham, Accuracy and Stability, Thm 9.4);
    with partial pivoting |l_ik| <= 1 and |u_kj| <= rho max|A|, so |A b_j - e_j|_i <= 3 gamma_n n rho max|A|
    |b_j|_1: the second argument of the max (the growth factor rho is ~1 on everything generated; n |b_j|_inf
    bounds |b_j|_1).  The pure componentwise scale (|A||B|)_ij of the statement is kept as first argument of the
    max, but alone it is NOT satisfied by any LU-based inverse: fill-in makes |L||U| non-zero where A is zero.
    Witness on the unmodified code: A = [[1,-1,-2],[2,2,-1],[-2,0,0]]: the entry (0,0) of the exact inverse is 0 and is
    computed as -5.6e-17; row 2 of A is (-2,0,0), so (A B)_20 = 1.1e-16 = (|A||B|)_20 (ratio 1/(n u) = 3e15).
    The left product inherits a factor kappa: B A - I = B (A B - I) B^-1, which is why its tolerance carries
    k (measured without it: ratios up to 21 at kappa = 1.9e3, i.e. only 12x below 2^8).
    Largest ratios measured on the unmodified code (14 667 inverted matrices, kappa up to 1e12):
    right 1.00, left 0.85 — the constant 2^8 leaves a factor > 250; a transposed permutation, a swapped
    substitution order, L/U confused or a transposed result give residuals of order 1 (ratio ~1e13).
    The ratios of each run are printed in the notes.
 4b. MIXED EXTREMES (fourth seeded round; `sharp_right`): the right product against the scale that the rounding analysis of the
    algorithm itself gives, at EVERY magnitude - also with subnormal and near-overflow entries in one matrix, where clause 4
    does not apply (its floor max|A| max_k|B_kj| is astronomically large there and its relative model knows no underflow):
        |A B - I|_ij <= 2^8 n u (P^T|L||U| |B|)_ij + 2^6 2^-1075 ( n^2 + sum_k |u_kk| + sum_t (n + |u_tt|) |B_tj| )
    with L, U, P the factors of partial pivoting (first maximum of the column) computed here in exact rationals (`exact_plu`;
    orders <= 12).  The second term is the absolute allowance for gradual underflow (a multiplier or a product below 2^-1022 is
    rounded to a multiple of 2^-1074; derivation at `sharp_right`); it is below 2^-44 whenever the entries of A stay below
    2^1018.  The exact factors stand for the computed ones only when the pivot order is certain and every pivot significant
    (`exact_plu`: candidates compared beyond the uncertainty of the computed entries); otherwise the scale is the rigorous
    column-growth bound (|L||U|)_it <= n max_s|a_st| outside the safe range, and the clause is not applied inside it.  An entry
    whose scale reaches 2^1024 is not judged (the statement's formula leaves the number range), a non-finite entry of B is a
    failure when `_must_be_finite` certifies that nothing in the algorithm can overflow.  The left product keeps the norm-wise
    form of clause 4 there (it follows from the right one up to the condition number).  Largest ratio measured on the
    unmodified code: 0.71 on the mixed families, 0.47 inside the safe range (bound 256).
    Clause 3 (d) (`solid_pivots`): when the pivot order is certain and every exact pivot, its uncertainty taken off, is >= 2^10
    EPSILON (and |L||U| < 2^1000), a refusal is a failure at every magnitude.
 5. reference: for kappa_inf(A) <= 1e3 (computed exactly from the exact rational inverse)
        |B - A^-1|_ij <= 2^8 n u kappa_inf max_k |A^-1_kj|          (measured: 0.85)
 6. `inv2`: the second call is an `inverse` call like any other (clauses 1, 4 on (B, A'')).  If kappa_inf(A) <= 1e3
    and the absolute pivot test cannot be the reason for refusing B (A, B well scaled: largest entries within
    2^-20 .. 2^20; or B carries a certificate (b) / (c) of clause 3 with kappa <= 2000, e.g. A = 2^52 times a
    permutation, whose inverse has pivots exactly EPSILON) the second call must succeed and return to A:
        |A'' - A|_ij <= 2^9 n u kappa_inf max|A|                      (measured: 1.24; two inversions)
 7. `inv3` sweeps (all 5^9 integer 3x3 matrices in the thorough tier): the answer carries only the outcome kind and
    a digest per matrix; the kinds are checked here against the exact integer determinant (singular <=> refused),
    the matrices themselves by the harness's exact oracle (clause 4).

The harness's oracle evaluates clauses 1-4 on every matrix, including each matrix of a sweep.
"""
import struct, math
from fractions import Fraction

RULE = ("generated by `svharness C10 gen`: every 2x2 over -2..2 (x every element type that can hold it in the thorough "
        "tier), the empty matrix and every 1x1 x 9 element types, pivot-threshold cases, a sample (quick 2500 / thorough "
        "40000) of 3x3 over -2..2 as full requests and (thorough) all 5^9 of them in 15625 sweep requests of 125 matrices, "
        "random matrices with 2-norm condition 1..1000 by construction (Q1 D Q2, n <= 8, f64 and f32), random dense / "
        "dyadic / small-integer n <= 8, diagonally dominant, pivoting patterns (all cyclic row shifts n = 3..8, every "
        "permutation of 3 and 4 rows, random permutations n <= 8, with and without noise, integer versions through every "
        "element type), +-1 tie matrices, mild row scalings, singular (zero row / zero column / repeated row / thin "
        "integer products, n <= 8), every non-square shape 0..4 x 0..4 x 9 element types, inv2 (inverse of the inverse) on "
        "a third of the well-conditioned ones. Hardening families: every order 9..40 (48, 64 thorough: conditioned, permutation + "
        "noise, integers through integer element types); conditioned matrices at magnitude 2^-70..2^60, around 2^-52, up to "
        "2^300, norm 2^40..2^70 (every entry of the inverse below 1e-12, crossing EPSILON), one huge row / column, rows / "
        "columns scaled by 2^+-40, single entries 2^-60..2^-20; graded / already reduced columns; subnormal / near-overflow "
        "(correspondence only); sign patterns (all negative, negative column maxima, also in integers), triangular / diagonal "
        "with signed zeros, exact and near ties in the pivot column; NaN / inf entries f64 and f32 (outside the domain: square ones are compared with the model for returns-vs-panics only); "
        "larger non-square shapes; threshold scales (third seeded round): permutations (cyclic shifts, random), signed / scaled "
        "permutations, permutations plus integer or real noise, small integers with a zero diagonal, dense dyadic with off-diagonal "
        "column maxima, n = 2..8, times EVERY power of two 2^-60..2^60 (18 per exponent at 2^+-50..2^+-54, 5 elsewhere), two thirds as "
        "inv2, f32 where representable; every cyclic shift of 2..5 rows at 2^+-51, 2^+-52, 2^+-53; one ulp on either side of EPSILON "
        "and 1/EPSILON; mixed extremes inside one matrix (fourth seeded round): [[P, H], [E, D]] with an ordinary block P, huge entries H "
        "(up to 2^1018) in its rows, tiny entries E (subnormal 2^-1023..2^-1052, the bottom of the normal range, anywhere down to 2^-960 "
        "with H to match) below it and D of the magnitude of E P^-1 H, n = 2..6, 1..n-1 tiny rows, rows in order / shuffled, exact zeros "
        "among the tiny entries, a sixth (rows in order) as inv2; the 2x2 / 3x3 instances for every tiny exponent -1022..-1074, decimal spellings around "
        "2.2e-308 (judged by clause 4b); non-trivial = the model returns a matrix of order >= 1 (for a sweep: "
        "for at least one of its 125 matrices); distinct = distinct request lines")

U53 = Fraction(1, 2 ** 53)
C_RES = 2 ** 8
C_INV2 = 2 ** 9
KAPPA_MAX = 1000
# Clauses 3-6 use a purely relative rounding model, valid while nothing under- or overflows: every non-zero input
# magnitude within 2^-340 .. 2^340.  Matrices outside (subnormal, near-overflow) are generated too and only compared
# with the model.
SAFE_LO = 2.0 ** -340
N_EXACT = 12            # largest order for which the exact rational inverse / exact pivoting order is computed
SAFE_HI = 2.0 ** 340
# MIXED EXTREMES (fourth seeded round): outside the safe range the products are judged too - clause 4b below, with the
# exact |L||U| of partial pivoting as scale and an absolute allowance for gradual underflow
MAXF = Fraction(2) ** 1024          # the statement's formula "leaves the range" when a scale reaches this
ETA = Fraction(1, 2 ** 1075)        # absolute rounding error of a product / quotient that underflows (half a subnormal step)
C_ABS = 2 ** 6                      # slack on the underflow allowance (theory: 1)
BIG_OK = Fraction(2) ** 1000        # "far from overflow"
PLU_CU = 2 ** 10                    # uncertainty of a computed entry of the elimination: PLU_CU n u (|L||U|)_ik
PLU_TIE = Fraction(1, 2 ** 20)      # pivot candidates this close (relative) are not told apart
PLU_SIGNIF = 2 ** 10                # a pivot below PLU_SIGNIF times its own uncertainty is not trusted


def _f(tok):
    return struct.unpack("<d", struct.pack("<Q", int(tok)))[0]


def _fl(q):
    """float(q) for a rational that may lie outside the binary64 range (only for messages)"""
    try:
        return float(q)
    except OverflowError:
        return float("inf") if q > 0 else float("-inf")


def _bits(x):
    return str(struct.unpack("<Q", struct.pack("<d", float(x)))[0])


def _parse_request(req):
    t = req.split()
    if t[0] == "inverse":
        ty, h, w, vals = t[1], int(t[2]), int(t[3]), t[4:]
    else:
        ty, h, w, vals = "f64", int(t[1]), int(t[2]), t[3:]
    v = [_f(x) for x in vals[:h * w]]
    return t[0], ty, h, w, [v[i * w:(i + 1) * w] for i in range(h)]


def _parse_obs(tokens):
    """one observation at the head of `tokens` -> (kind, matrix or None, rest)"""
    if not tokens:
        return "empty", None, []
    if tokens[0] == "ok":
        h, w = int(tokens[1]), int(tokens[2])
        vals = [_f(x[1:]) for x in tokens[3:3 + h * w]]
        return "ok", (h, w, [vals[i * w:(i + 1) * w] for i in range(h)]), tokens[3 + h * w:]
    if tokens[0] == "err":
        return "err " + tokens[1], None, tokens[2:]
    return tokens[0], None, tokens[1:]


def _finite(M):
    return all(not (math.isnan(x) or math.isinf(x)) for r in M for x in r)


def exact_inverse(A):
    """Gauss-Jordan over the rationals; None if singular"""
    n = len(A)
    M = [[Fraction(x) for x in r] + [Fraction(int(i == j)) for j in range(n)] for i, r in enumerate(A)]
    for k in range(n):
        p = next((r for r in range(k, n) if M[r][k] != 0), None)
        if p is None:
            return None
        M[k], M[p] = M[p], M[k]
        d = M[k][k]
        M[k] = [x / d for x in M[k]]
        for i in range(n):
            if i != k and M[i][k] != 0:
                f = M[i][k]
                M[i] = [x - f * y for x, y in zip(M[i], M[k])]
    return [r[n:] for r in M]


def _norm_inf(M):
    return max((sum(abs(x) for x in r) for r in M), default=Fraction(0))


def pivot_perm(A):
    """the row permutation of exact partial pivoting (first maximum of the column), as the list sigma with
    (P A)_i = A_sigma(i); None if a pivot column vanishes"""
    n = len(A)
    M = [[Fraction(x) for x in r] for r in A]
    sigma = list(range(n))
    for k in range(n):
        p = k
        for r in range(k + 1, n):
            if abs(M[r][k]) > abs(M[p][k]):
                p = r
        if M[p][k] == 0:
            return None
        if p != k:
            M[k], M[p] = M[p], M[k]
            sigma[k], sigma[p] = sigma[p], sigma[k]
        for i in range(k + 1, n):
            f = M[i][k] / M[k][k]
            if f:
                M[i] = [x - f * y for x, y in zip(M[i], M[k])]
    return sigma


def perm_class(sigma):
    if sigma is None:
        return "none"
    n = len(sigma)
    if all(sigma[i] == i for i in range(n)):
        return "identity"
    if all(sigma[sigma[i]] == i for i in range(n)):
        return "involution"
    return "non-involution"


def _small_int(A):
    return all(abs(x) <= 2 and x == int(x) for r in A for x in r)


def _diag_dominant(A):
    n = len(A)
    if any(abs(x) > 256 for r in A for x in r):
        return False
    F = [[Fraction(x) for x in r] for r in A]
    q = Fraction(1, 4) + Fraction(1, 10 ** 6); m = Fraction(10000001, 10000000)
    rows = all(abs(F[i][i]) >= m * sum(abs(F[i][j]) for j in range(n) if j != i) + q for i in range(n))
    cols = all(abs(F[j][j]) >= m * sum(abs(F[i][j]) for i in range(n) if i != j) + q for j in range(n))
    return rows or cols


EPS = 2.0 ** -52


def _representable(q):
    """the rational q is a binary64 number (no rounding when it is the result of an operation)"""
    try:
        return Fraction(float(q)) == q
    except OverflowError:
        return False


def exact_pivots(A):
    """Elimination with partial pivoting (first maximum of the column, rows exchanged, multipliers l = a_ik/a_kk, updates
    a_ij - l a_kj) in exact rationals.  Returns the list of pivots when EVERY intermediate quantity (multiplier, product,
    difference) is a binary64 number - the floating-point elimination then performs the same operations without any
    rounding and meets exactly these pivots - and None otherwise (or when a pivot column vanishes)."""
    n = len(A)
    M = [[Fraction(x) for x in r] for r in A]
    piv = []
    for k in range(n):
        p = k
        for r in range(k + 1, n):
            if abs(M[r][k]) > abs(M[p][k]):
                p = r
        if M[p][k] == 0:
            return None
        if p != k:
            M[k], M[p] = M[p], M[k]
        d = M[k][k]
        piv.append(d)
        for i in range(k + 1, n):
            if M[i][k] == 0:
                continue
            l = M[i][k] / d
            if not _representable(l):
                return None
            for j in range(k + 1, n):
                if M[k][j] != 0:
                    t = l * M[k][j]
                    v = M[i][j] - t
                    if not (_representable(t) and _representable(v)):
                        return None
                    M[i][j] = v
            M[i][k] = Fraction(0)
    return piv


def well_conditioned(A, kappa_max=None):
    """certificate (exact arithmetic) that the code's refusal rule |pivot| < EPSILON cannot be the reason for refusing A, so
    that the matrix must be inverted; returns the reason or None.  Order <= 12.
    In exact arithmetic the active block S of a row-pivoted elimination is a Schur complement of a row permutation of A,
    S^-1 is a sub-block of the permuted inverse, so the first column c of S has max|c_i| >= 1/||S^-1||_inf >=
    1/||A^-1||_inf; the computed factors are exact for A + E with |E| <= gamma_n |L||U| <= n 2^(n-1) max|A| gamma_n, and
    ||A^-1|| ||E|| <= kappa n^2 2^(n-1) n u < 1e-6 for kappa <= 2000, n <= 12: every computed pivot is >=
    (1 - 1e-6) / ||A^-1||_inf.
      (a) entries <= 2^8 and ||A^-1||_inf <= 1000: pivots >= 1e-3 (1 - 1e-6);
      (b) kappa_inf(A) <= kappa_max and 1/||A^-1||_inf >= 2 EPSILON: pivots >= 2 EPSILON (1 - 1e-6) > EPSILON;
      (c) kappa_inf(A) <= kappa_max, the elimination is exact in binary64 (`exact_pivots`) and every pivot is >= EPSILON
          in magnitude (the refusal rule is `<`)."""
    n = len(A)
    if n == 0 or n > 12:
        return None
    Ainv = exact_inverse(A)
    if Ainv is None:
        return None
    ninv = _norm_inf(Ainv)
    if all(abs(x) <= 256 for r in A for x in r) and ninv <= KAPPA_MAX:
        return "well scaled (entries <= 2^8) with ||A^-1||_inf <= 1000"
    if kappa_max is None:
        kappa_max = KAPPA_MAX
    kap = _norm_inf([[Fraction(x) for x in r] for r in A]) * ninv
    if kap > kappa_max:
        return None
    if 1 / ninv >= 2 * Fraction(EPS):
        return "kappa_inf = %.3g and every pivot >= 1/||A^-1||_inf = %.3g >= 2 EPSILON" % (float(kap), float(1 / ninv))
    piv = exact_pivots(A)
    if piv is not None and all(abs(d) >= Fraction(EPS) for d in piv):
        return ("kappa_inf = %.3g, the elimination is exact in binary64 and its smallest pivot is %.17g >= EPSILON"
                % (float(kap), float(min(abs(d) for d in piv))))
    return None


def solid_pivots(A):
    """clause 3 (d), at every magnitude (tiny and huge entries in one matrix included): order <= 12, the pivot order of the
    computed elimination is certain (`exact_plu`) and every pivot it can meet is >= 2^10 EPSILON after its uncertainty is
    taken off, every entry of |L||U| stays below 2^1000: the refusal rule |pivot| < EPSILON cannot fire."""
    n = len(A)
    if n == 0 or n > N_EXACT:
        return None
    f = exact_plu([[Fraction(x) for x in r] for r in A])
    if f is None or not f["certain"] or f["margin"] < 2 ** 10 * Fraction(EPS):
        return None
    if any(w >= BIG_OK for r in f["W"] for w in r):
        return None
    return ("the pivot order of partial pivoting is certain in exact arithmetic and every pivot is >= %.3g >= 2^10 EPSILON"
            % _fl(f["margin"]))


def _small_scale_well_conditioned(A):
    """A well-conditioned matrix (order <= 8, exact kappa_inf <= KAPPA_MAX, entries in the safe range) whose scale is
    below the ABSOLUTE refusal threshold: no certificate of `well_conditioned` applies because a pivot can be < EPSILON
    although the matrix is perfectly regular (2^-53 times a permutation).  The statement promises the inverse (and the
    return of the inverse of the inverse) for well-conditioned matrices at every scale, so a refusal here is a failure
    of its own class: open finding F-C10-abs-scale."""
    n = len(A)
    if not (1 <= n <= 8) or any(len(r) != n for r in A):
        return None
    if any(x != 0 and not (SAFE_LO <= abs(x) <= SAFE_HI) for r in A for x in r):
        return None
    Ainv = exact_inverse(A)
    if Ainv is None:
        return None
    kap = _norm_inf([[Fraction(x) for x in r] for r in A]) * _norm_inf(Ainv)
    if kap > KAPPA_MAX:
        return None
    return ("the absolute pivot threshold refuses a well-conditioned matrix of small scale (kappa_inf = %.3g, "
            "1/||A^-1||_inf = %.3g < 2 EPSILON)" % (float(kap), float(1 / _norm_inf(Ainv))))


def expectation(A):
    """(True = must be inverted | False = must be refused | None, reason)"""
    n = len(A)
    if n == 0:
        return True, "the empty matrix (its inverse is the empty matrix)"
    if any(all(x == 0 for x in r) for r in A):
        return False, "zero row"
    if any(all(A[i][j] == 0 for i in range(n)) for j in range(n)):
        return False, "zero column"
    if any(A[i] == A[k] for i in range(n) for k in range(i)):
        return False, "repeated row"
    if _small_int(A):
        if exact_inverse(A) is None:
            if n <= 3:
                return False, "singular matrix with entries in -2..2"
            return False, ("singular matrix with entries in -2..2 of order >= 4 (rounding hides the singularity from the "
                           "absolute pivot test)")
        return True, "non-singular matrix with entries in -2..2"
    if _diag_dominant(A):
        return True, "strictly diagonally dominant, well scaled"
    return None, ""


def _to_ints(M):
    """the dyadic matrix M as (integer matrix, D) with M = ints / D, D a power of two"""
    F = [[Fraction(x) for x in r] for r in M]
    D = max((x.denominator for r in F for x in r), default=1)
    return [[x.numerator * (D // x.denominator) for x in r] for r in F], D


def product_ratios(A, B):
    """largest ratios residual / (n u scale) of the two products (Fractions); clause 4.  Everything is a dyadic
    rational, so the sums are formed in integers (units 1/(DA*DB)) - exact, and much faster than Fractions."""
    n = len(A)
    AI, DA = _to_ints(A)
    BI, DB = _to_ints(B)
    one = DA * DB
    BT = [list(c) for c in zip(*BI)]          # columns of B
    AT = [list(c) for c in zip(*AI)]          # columns of A
    amax = max(abs(x) for r in AI for x in r)
    ninf = lambda M: max(sum(abs(x) for x in r) for r in M)
    kap = max(Fraction(1), Fraction(ninf(AI) * ninf(BI), one))
    nu = n * U53
    worst_r = (Fraction(0), 0, 0); worst_l = (Fraction(0), 0, 0)
    bcols = [max(abs(x) for x in c) for c in BT]
    for i in range(n):
        brow = max(abs(x) for x in BI[i])
        Ai = AI[i]; Bi = BI[i]
        for j in range(n):
            d = one if i == j else 0
            Bj = BT[j]
            s = sum(x * y for x, y in zip(Ai, Bj)) - d
            if s != 0:
                sa = sum(abs(x * y) for x, y in zip(Ai, Bj))
                sc = max(sa, amax * bcols[j])
                q = Fraction(abs(s), sc) / nu if sc != 0 else Fraction(10 ** 30)
                if q > worst_r[0]:
                    worst_r = (q, i, j)
            Aj = AT[j]
            s = sum(x * y for x, y in zip(Bi, Aj)) - d
            if s != 0:
                sa = sum(abs(x * y) for x, y in zip(Bi, Aj))
                sc = max(sa, amax * brow)
                q = Fraction(abs(s), sc) / (nu * kap) if sc != 0 else Fraction(10 ** 30)
                if q > worst_l[0]:
                    worst_l = (q, i, j)
    return worst_r, worst_l


def _in_safe(M):
    return all(x == 0 or SAFE_LO <= abs(x) <= SAFE_HI for r in M for x in r)


def exact_plu(AF):
    """Elimination with partial pivoting (first maximum of the column, as the code does it) in exact rationals on the
    matrix of Fractions AF.  Returns None when a pivot column vanishes (exactly singular), else the dict
      W        P^T |L||U| with the rows in the order of A (row i of W belongs to row i of A), exact
      piv      the exact pivots u_kk in the order they are met
      certain  True when the computed elimination provably takes the same rows as pivots and every pivot is significantly
               non-zero: at each step the chosen candidate beats every other one beyond the uncertainty of the computed
               entries (PLU_CU n u + eta)(|L||U|)_ik + Q_k (eta: accumulated relative uncertainty of the pivots used so
               far; Q_k: the absolute effect of gradual underflow, ETA (1 + |u_tk|) per elimination step t < k - a
               multiplier and a product each rounded to a multiple of 2^-1074) and by 2^-20 relative, and is at least
               PLU_SIGNIF times its own uncertainty.  Only then are the exact factors a faithful picture of the computed ones.
      margin   min_k (|u_kk| - uncertainty of u_kk): a lower bound for every computed pivot (meaningful when certain)."""
    n = len(AF)
    M = [r[:] for r in AF]
    zero = Fraction(0)
    W = [[zero] * n for _ in range(n)]
    orig = list(range(n))
    cu = PLU_CU * n * U53
    eta = zero
    Q = [zero] * n
    certain = True
    piv = []
    margin = None
    for k in range(n):
        p = k
        for r in range(k + 1, n):
            if abs(M[r][k]) > abs(M[p][k]):
                p = r
        m = abs(M[p][k])
        if m == 0:
            return None
        unc = lambda i: (cu + eta) * (W[i][k] + abs(M[i][k])) + Q[k]
        dp = unc(p)
        lo = m * (1 - PLU_TIE) - dp
        for i in range(k, n):
            if i != p and abs(M[i][k]) * (1 + PLU_TIE) + unc(i) >= lo:
                certain = False
        if m < PLU_SIGNIF * dp:
            certain = False
        if margin is None or m - dp < margin:
            margin = m - dp
        if p != k:
            M[k], M[p] = M[p], M[k]
            W[k], W[p] = W[p], W[k]
            orig[k], orig[p] = orig[p], orig[k]
        Mk = M[k]
        d = Mk[k]
        piv.append(d)
        absk = [abs(v) for v in Mk]
        Wk = W[k]
        for j in range(k, n):
            Wk[j] += absk[j]                  # l_kk = 1 times row k of U
            if j > k:
                Q[j] += ETA * (1 + absk[j])
        for i in range(k + 1, n):
            a = M[i][k]
            if a == 0:
                continue
            l = a / d
            al = abs(l)
            Mi = M[i]; Wi = W[i]
            Wi[k] += abs(a)                   # |l_ik| |u_kk|
            Mi[k] = zero
            for j in range(k + 1, n):
                u = Mk[j]
                if u != 0:
                    Mi[j] -= l * u
                    Wi[j] += al * absk[j]
        eta += dp / m
    Wo = [None] * n
    for i in range(n):
        Wo[orig[i]] = W[i]
    return {"W": Wo, "piv": piv, "certain": certain, "margin": margin, "orig": orig}


def sharp_right(A, B, want=None):
    """clause 4b: the right product against the scale the rounding analysis of the algorithm actually gives (Higham, Thm
    9.4: (A + E_j) b_j = e_j with |E_j| <= 3 gamma_n P^T|L||U|), at EVERY magnitude - tiny and huge entries in one matrix:
        |A B - I|_ij  <=  2^8 n u (P^T|L||U| |B|)_ij  +  2^6 ETA ( n^2 + sum_k |u_kk| + sum_t (n + |u_tt|) |B_tj| )
    L, U, P: the factors of partial pivoting computed HERE in exact rationals (`exact_plu`); ETA = 2^-1075: a multiplier
    or a product that underflows is rounded to a multiple of 2^-1074, an absolute error that the relative model does not
    know (the reconstruction L U = P A is then off by ETA |u_jj| below the diagonal and by ETA per step elsewhere; the two
    substitutions add ETA per product and ETA |u_kk| per division).  When the pivot order of the computed elimination is not
    certain (`exact_plu`), the scale falls back to the column-wise growth bound (|L||U|)_it <= n max_s |a_st|.  An entry
    whose scale reaches 2^1024 is not judged (the statement's own formula leaves the range there), and nothing is judged when
    an entry of |L||U| itself reaches 2^1023 (the elimination may have overflowed).
    -> None (exactly singular / overflow possible: not judged) | (ratio, i, j, mode) with ratio = (|A B - I|_ij - allowance) / (n u scale_ij)"""
    n = len(A)
    AF = [[Fraction(x) for x in r] for r in A]
    BF = [[Fraction(x) for x in r] for r in B]
    f = exact_plu(AF)
    if f is None:
        return None
    absB = [[abs(x) for x in r] for r in BF]
    # an entry of |L||U| at 2^1023 or beyond: a partial sum of the elimination may have overflowed (an infinite u_kk then gives
    # finite but meaningless components y / inf = 0): the formula of the statement has left the number range, nothing is judged
    if any(w >= MAXF / 2 for r in f["W"] for w in r):
        return None
    if f["certain"]:
        W = f["W"]; diag = [abs(d) for d in f["piv"]]; mode = "|L||U|"
    else:
        if want == "certain":
            return None
        colmax = [max(abs(AF[s][t]) for s in range(n)) for t in range(n)]
        if any(2 ** n * c >= MAXF / 2 for c in colmax):
            return None
        W = [[n * c for c in colmax]] * n
        diag = [n * c for c in colmax]; mode = "column growth bound"
    sdiag = sum(diag)
    nu = n * U53
    worst = (Fraction(0), 0, 0, mode)
    BT = [list(c) for c in zip(*BF)]
    aBT = [list(c) for c in zip(*absB)]
    for j in range(n):
        bj = BT[j]; abj = aBT[j]
        allow = C_ABS * ETA * (n * n + sdiag + sum((n + diag[t]) * abj[t] for t in range(n)))
        for i in range(n):
            r = abs(sum(x * y for x, y in zip(AF[i], bj) if x and y) - (1 if i == j else 0))
            if r <= allow:
                continue
            sc = sum(w * y for w, y in zip(W[i], abj) if w and y)
            if sc >= MAXF:
                continue
            q = (r - allow) / (nu * sc) if sc != 0 else Fraction(10 ** 30)
            if q > worst[0]:
                worst = (q, i, j, mode)
    return worst


def _must_be_finite(A):
    """certificate (exact) that nothing in PLU + substitutions can overflow on A, so that a non-finite entry of the returned
    matrix is a failure even outside the safe range: order <= 12, pivot order certain, |L||U|, the exact inverse X and
    |L||U||X| all below 2^1000, and || |X| |L||U| ||_inf 2^8 n u <= 2^-10 (every matrix A + E with |E| <= 2^8 n u |L||U| - the
    matrices whose exact inverse columns the computed ones are - then has an inverse within a factor 2 of X)."""
    n = len(A)
    if n == 0 or n > N_EXACT:
        return False
    AF = [[Fraction(x) for x in r] for r in A]
    f = exact_plu(AF)
    if f is None or not f["certain"]:
        return False
    X = exact_inverse(A)
    if X is None:
        return False
    W = f["W"]
    aX = [[abs(x) for x in r] for r in X]
    if any(w >= BIG_OK for r in W for w in r) or any(x >= BIG_OK for r in aX for x in r):
        return False
    for i in range(n):
        for j in range(n):
            if sum(W[i][t] * aX[t][j] for t in range(n)) >= BIG_OK:
                return False
    rowsum = max(sum(sum(aX[i][t] * W[t][j] for t in range(n)) for j in range(n)) for i in range(n))
    return rowsum * C_RES * n * U53 <= Fraction(1, 2 ** 10)


def check_returned(A, Bt, what="", stats=None):
    """clauses 4 and 4b on a returned matrix"""
    n = len(A)
    h, w, B = Bt
    if h != n or w != n:
        return f"{what}the inverse of a {n}x{n} matrix is {h}x{w}"
    if n == 0 or not _finite(A):
        if not _finite(B):
            return f"{what}the returned matrix has a non-finite entry"
        return None
    safe = _in_safe(A)
    if not _finite(B):
        if safe or _must_be_finite(A):
            return f"{what}the returned matrix has a non-finite entry" + (
                "" if safe else " although nothing in the exact elimination and substitutions comes near the overflow threshold")
        return None
    if safe:
        (qr, i, j), (ql, i2, j2) = product_ratios(A, B)
        if stats is not None:
            stats["right"] = qr; stats["left"] = ql
        if qr > C_RES:
            return f"{what}|A B - I| exceeds 2^8 n u |A||B|-scaled rounding at ({i},{j}) (ratio {_fl(qr):.3g})"
        if ql > C_RES:
            return f"{what}|B A - I| exceeds 2^8 n u |B||A|-scaled rounding at ({i2},{j2}) (ratio {_fl(ql):.3g})"
    if n > N_EXACT:
        return None
    # clause 4b: inside the safe range only with the exact factors (the column bound is weaker than clause 4 there)
    s = sharp_right(A, B, want="certain" if safe else None)
    if s is not None:
        q, i, j, mode = s
        if stats is not None:
            stats["sharp" if safe else "mixed"] = q
        if q > C_RES:
            return (f"{what}|A B - I| exceeds 2^8 n u (|L||U||B|)-scaled rounding (+ the underflow allowance) at ({i},{j}) "
                    f"(scale: {mode} of exact partial pivoting; ratio {_fl(q):.3g})")
    if not safe and s is not None:
        # the left product: the norm-wise form of clause 4 (it follows from the right one up to the condition number); not
        # judged when the right one is not (exactly singular, or the elimination may have overflowed)
        (qr, i, j), (ql, i2, j2) = product_ratios(A, B)
        if ql > C_RES:
            return f"{what}|B A - I| exceeds 2^8 n u |B||A|-scaled rounding at ({i2},{j2}) (ratio {_fl(ql):.3g})"
    return None


def _judgeable(A):
    """is a returned inverse of A judged by `check_returned` at all?"""
    return _finite(A) and (_in_safe(A) or len(A) <= N_EXACT)


def check_reference(A, Ainv, B, stats=None):
    """clause 5; returns (message or None, kappa_inf)"""
    n = len(A)
    AF = [[Fraction(x) for x in r] for r in A]
    kap = _norm_inf(AF) * _norm_inf(Ainv)
    if kap > KAPPA_MAX:
        return None, kap
    nu = n * U53
    worst = Fraction(0)
    for j in range(n):
        col = max(abs(Ainv[k][j]) for k in range(n))
        for i in range(n):
            d = abs(Fraction(B[i][j]) - Ainv[i][j])
            if d != 0:
                q = d / (nu * kap * col)
                if q > worst:
                    worst = q
                if q > C_RES:
                    return (f"B[{i}][{j}] differs from the exact rational inverse by more than 2^8 n u kappa |A^-1| "
                            f"(kappa_inf = {float(kap):.3g}, ratio {_fl(q):.3g})"), kap
    if stats is not None:
        stats["ref"] = worst
    return None, kap


def _well_scaled(M):
    m = max((abs(x) for r in M for x in r), default=0.0)
    return 2.0 ** -20 <= m <= 2.0 ** 20


def judge(A, h, w, kind, Bt, stats=None):
    """clauses 1-5 for one call `inverse(A)` answered with (kind, Bt)"""
    if kind in ("panic", "harness-panic", "process-abort"):
        return "inverse panicked"
    if kind.startswith("err other"):
        return "unexpected error " + kind
    if h != w:
        return None if kind == "err nonsquare" else f"non-square {h}x{w} input was not rejected as NonSquareMatrix"
    if kind == "err nonsquare":
        return "square input rejected as NonSquareMatrix"
    if kind not in ("ok", "err singular"):
        return "unrecognised answer " + kind
    if not _finite(A):
        return None
    safe = _in_safe(A)
    if not safe and h > N_EXACT:
        return None                      # mixed extremes are judged with exact factors: order <= 12 only
    if safe or all(abs(x) <= BIG_OK for r in A for x in r):
        exp, why = expectation(A)
    else:
        exp, why = None, ""              # near the overflow threshold an exact zero column need not stay one (inf - inf)
    if exp is None and kind == "err singular":
        cert = well_conditioned(A) if safe else None
        if cert is None:
            cert = solid_pivots(A)
        if cert:
            exp, why = True, cert
    if kind == "err singular":
        if exp is True:
            return f"refused as singular: {why}"
        if exp is None and safe:
            small = _small_scale_well_conditioned(A)
            if small:
                return "refused as singular: " + small
        return None
    if exp is False:
        return f"inverted although it cannot be: {why}"
    r = check_returned(A, Bt, stats=stats)
    if r is not None or h == 0 or h > N_EXACT or not safe:
        return r
    Ainv = exact_inverse(A)
    if Ainv is None:
        # exactly singular, but not one of the kinds of clause 2: rounding may hide it (e.g. thin integer products
        # with larger entries); the statement makes no demand beyond clause 4
        return None
    r, kap = check_reference(A, Ainv, Bt[2], stats=stats)
    if stats is not None:
        stats["kappa"] = kap
    return r


def _sweep_oracle(t, impl):
    first = [int(x) for x in t[1:7]]
    toks = impl.split()
    p = 0
    for c in range(125):
        third = [c // 25 - 2, (c // 5) % 5 - 2, c % 5 - 2]
        a = first + third
        d = (a[0] * (a[4] * a[8] - a[5] * a[7]) - a[1] * (a[3] * a[8] - a[5] * a[6]) + a[2] * (a[3] * a[7] - a[4] * a[6]))
        if p >= len(toks):
            return "sweep answer truncated"
        if toks[p] == "ok":
            got_ok = True; p += 3
        elif toks[p] == "sing":
            got_ok = False; p += 1
        else:
            return f"third row {third}: unexpected outcome {toks[p]}"
        if got_ok != (d != 0):
            return (f"first rows {first}, third row {third}: " +
                    ("inverted although it cannot be: singular matrix with entries in -2..2" if got_ok
                     else "refused as singular: non-singular matrix with entries in -2..2") + f" (det {d})")
    return None


def oracle(req, impl, stats=None):
    t = req.split()
    if t[0] == "inv3":
        return _sweep_oracle(t, impl)
    cmd, ty, h, w, A = _parse_request(req)
    toks = impl.split()
    if not toks:
        return "empty answer"
    kind, Bt, rest = _parse_obs(toks)
    r = judge(A, h, w, kind, Bt, stats=stats)
    if r is not None or cmd != "inv2":
        return r
    if kind != "ok":
        return None
    if not rest or rest[0] != "back":
        return "inv2: the answer lacks the second inversion"
    kind2, A2t, _ = _parse_obs(rest[1:])
    B = Bt[2]
    if kind2 in ("panic", "harness-panic"):
        return "inverse of the inverse panicked"
    if kind2 == "err nonsquare" or kind2.startswith("err other"):
        return "inverse of the inverse: " + kind2
    n = h
    kap = None
    if 0 < n <= N_EXACT and _finite(A) and _finite(B):
        Ainv = exact_inverse(A)
        if Ainv is not None:
            kap = _norm_inf([[Fraction(x) for x in r] for r in A]) * _norm_inf(Ainv)
    conditioned = kap is not None and kap <= KAPPA_MAX and (
        (_well_scaled(A) and _well_scaled(B)) or
        (all(x == 0 or SAFE_LO <= abs(x) <= SAFE_HI for r_ in A for x in r_) and
         all(x == 0 or SAFE_LO <= abs(x) <= SAFE_HI for r_ in B for x in r_) and
         well_conditioned(B, kappa_max=2 * KAPPA_MAX) is not None))
    if kind2 == "err singular":
        if n == 0:
            return "inverse of the inverse of the empty matrix refused"
        if conditioned:
            return f"inverse of the inverse refused as singular although kappa_inf(A) = {float(kap):.3g}"
        small = _small_scale_well_conditioned(B) if _finite(B) else None
        if small:
            return "inverse of the inverse refused as singular: " + small
        solid = solid_pivots(B) if _finite(B) else None
        if solid:
            return "inverse of the inverse refused as singular: " + solid
        return None
    if kind2 != "ok":
        return "unrecognised answer " + kind2
    r = check_returned(B, A2t, what="inverse of the inverse: ")
    if r is not None or n == 0:
        return r
    if conditioned:
        amax = max(abs(Fraction(x)) for r_ in A for x in r_)
        tol = C_INV2 * n * U53 * kap * amax
        worst = Fraction(0)
        for i in range(n):
            for j in range(n):
                d = abs(Fraction(A2t[2][i][j]) - Fraction(A[i][j]))
                if d > worst:
                    worst = d
                if d > tol:
                    return (f"inverse of the inverse differs from A at ({i},{j}) by more than 2^9 n u kappa max|A| "
                            f"(kappa_inf = {float(kap):.3g}, ratio {_fl(d / (n * U53 * kap * amax)):.3g})")
        if stats is not None:
            stats["back"] = worst / (n * U53 * kap * amax)
    return None


def probe(req, impl):
    """measurement aid (not used by ./check): the ratios of the clauses on one answer"""
    t = req.split()
    if t[0] == "inv3":
        return {}
    cmd, ty, h, w, A = _parse_request(req)
    kind, Bt, rest = _parse_obs(impl.split())
    st = {}
    if kind == "ok" and h == w and 0 < h <= N_EXACT and _finite(A) and _finite(Bt[2]):
        check_returned(A, Bt, stats=st)
    return st


# ------------------------------------------------------------------ correspondence

def _close(a, b, scale):
    if a == b or (a != a and b != b):
        return True
    if a != a or b != b or abs(a) == float("inf") or abs(b) == float("inf"):
        return False
    return abs(a - b) <= 1e-9 * max(abs(a), abs(b), scale)


def _tokens_close(ti, tm):
    if len(ti) != len(tm):
        return "different number of fields"
    for k, (x, y) in enumerate(zip(ti, tm)):
        if x == y:
            continue
        if x[:1] == "f" and y[:1] == "f":
            try:
                if _close(_f(x[1:]), _f(y[1:]), 1e-300):
                    continue
            except ValueError:
                pass
        return f"field {k}: impl {x} model {y}"
    return None


def _cmp_matrix(A, Bi, Bm, what):
    """two answers to inverse(A): entries IEEE-equal or within 1e-9 of max(|a|, |b|, largest entry of the matrix); larger
    differences are accepted when BOTH matrices pass the property's exact product test for A (clause 4): they are then
    two inverses of A up to its conditioning"""
    (h1, w1, M1), (h2, w2, M2) = Bi, Bm
    if (h1, w1) != (h2, w2):
        return f"{what}shapes differ"
    fin = [abs(x) for r in M1 + M2 for x in r if x == x and abs(x) != float("inf")]
    scale = max(fin, default=0.0)
    worst = None
    for i in range(h1):
        for j in range(w1):
            if not _close(M1[i][j], M2[i][j], scale):
                worst = worst or f"{what}B[{i}][{j}]: impl {M1[i][j]!r} model {M2[i][j]!r}"
    if worst is None:
        return None
    try:
        if A is not None and _judgeable(A) and _finite(Bi[2]) and _finite(Bm[2]) \
                and check_returned(A, Bi) is None and check_returned(A, Bm) is None:
            return None
    except Exception:
        pass
    return worst


_NO_RETURN = ("panic", "harness-panic", "process-abort", "timeout")


def compare(req, impl, model):
    """Relation between the implementation's and the model's answer (DESIGN 4.1): outcome and error kind exactly (the
    statement names both kinds: "the singular-matrix error", "the non-square error"), shapes exactly (a refusal
    threshold that moves shows here even where the oracle's failures are a recorded finding), numeric fields as
    described at `_cmp_matrix`.  On the unchanged tree every answer is bit-identical; the refinement keeps a harmless
    re-association of floating-point sums from breaking the correspondence.
    Outside the quantified domain - a SQUARE matrix with a NaN or infinite entry (the statement ranges over matrices
    of numbers; every listed family is finite, and no clause says what the inverse of such a matrix is: a NaN-filled
    `Ok` and an error are equally (un)justified) - only "returns" against "panics / aborts / hangs" is compared.  A
    non-square matrix with such entries stays fully compared: the non-square error is owed whatever the entries are."""
    if impl == model:
        return None
    t = req.split()
    ti, tm = impl.split(), model.split()
    if t[0] == "inv3" or not ti or not tm:
        return _tokens_close(ti, tm)
    try:
        cmd, ty, h, w, A = _parse_request(req)
        ki, Bi, resti = _parse_obs(ti)
        km, Bm, restm = _parse_obs(tm)
    except Exception:
        return _tokens_close(ti, tm)
    if h == w and not _finite(A):
        if (ki in _NO_RETURN) != (km in _NO_RETURN):
            return f"outcome: impl `{ki}` model `{km}`"
        return None
    if ki != km:
        return f"outcome: impl `{ki}` model `{km}`"
    if ki != "ok":
        return None
    r = _cmp_matrix(A, Bi, Bm, "")
    if r is not None:
        return r
    if cmd != "inv2":
        return None
    if not resti or not restm or resti[0] != "back" or restm[0] != "back":
        return _tokens_close(resti, restm)
    try:
        k2i, A2i, _ = _parse_obs(resti[1:])
        k2m, A2m, _ = _parse_obs(restm[1:])
    except Exception:
        return _tokens_close(resti, restm)
    if k2i != k2m:
        return f"inverse of the inverse: impl `{k2i}` model `{k2m}`"
    if k2i != "ok":
        return None
    # the second inversions start from (slightly) different matrices: each is judged against its own input
    (h1, w1, M1), (h2, w2, M2) = A2i, A2m
    if (h1, w1) != (h2, w2):
        return "inverse of the inverse: shapes differ"
    fin = [abs(x) for r in M1 + M2 for x in r if x == x and abs(x) != float("inf")]
    scale = max(fin, default=0.0)
    if all(_close(M1[i][j], M2[i][j], scale) for i in range(h1) for j in range(w1)):
        return None
    try:
        if _finite(Bi[2]) and _finite(Bm[2]) and _judgeable(Bi[2]) and _judgeable(Bm[2]) and _finite(A2i[2]) and _finite(A2m[2]) \
                and check_returned(Bi[2], A2i) is None and check_returned(Bm[2], A2m) is None:
            return None
    except Exception:
        pass
    return "inverse of the inverse: entries differ by more than 1e-9 of the largest entry"


def nontrivial(req, model):
    m = model.split()
    if req.startswith("inv3"):
        return "ok" in m
    return len(m) > 2 and m[0] == "ok" and m[1] != "0"


_perm_cache = {}


def tag(req, model):
    r = req.split(); m = model.split()
    if r[0] == "inv3":
        k = m.count("ok")
        return f"inv3:{'all-ok' if k == 125 else 'none-ok' if k == 0 else 'mixed'}"
    kind = " ".join(m[:2]) if m and m[0] == "err" else (m[0] if m else "empty")
    if kind != "ok":
        return f"{r[0]}:{kind}"
    cmd, ty, h, w, A = _parse_request(req)
    if h == 0:
        return f"{r[0]}:ok:empty"
    try:
        cls = "large" if h > N_EXACT else perm_class(pivot_perm(A)) if _finite(A) else "none"
    except Exception:
        cls = "none"
    back = ""
    if r[0] == "inv2" and "back" in m:
        k = m.index("back")
        back = ":back-" + ("ok" if m[k + 1] == "ok" else "refused")
    return f"{r[0]}:ok:pivoting-{cls}{back}"


def finish(rows, tier):
    """whole-run obligations: completeness of the exhaustive spaces, element types, pivoting patterns reached,
    and the observed rounding margins"""
    notes = []
    if len(rows) < 1000:
        return notes
    seen2, sweeps = set(), set()
    types = {}
    perms = {"identity": 0, "involution": 0, "non-involution": 0, "none": 0}
    cyc = {}
    worst = {"right": Fraction(0), "left": Fraction(0), "ref": Fraction(0), "back": Fraction(0), "sharp": Fraction(0), "mixed": Fraction(0)}
    nmixed = 0
    nstat = 0
    step = max(1, len(rows) // 2000)
    for idx, (req, impl, horc, model) in enumerate(rows):
        t = req.split()
        if t[0] == "inv3":
            if all(-2 <= int(x) <= 2 for x in t[1:7]):
                sweeps.add(tuple(t[1:7]))
            continue
        if t[0] == "inverse":
            types[t[1]] = types.get(t[1], 0) + 1
            if t[2] == "2" and t[3] == "2":
                v = [_f(x) for x in t[4:8]]
                if all(math.isfinite(x) and x == int(x) and abs(x) <= 2 for x in v):
                    seen2.add(tuple(v))
        if impl.startswith("ok") and idx % step == 0:
            cmd, ty, h, w, A = _parse_request(req)
            if h == 0 or h > N_EXACT or not _finite(A):
                continue
            try:
                sg = pivot_perm(A)
            except Exception:
                sg = None
            perms[perm_class(sg)] += 1
            if sg is not None:
                # longest cycle of the permutation
                seen, longest = set(), 1
                for s in range(len(sg)):
                    k, x = 0, s
                    while x not in seen:
                        seen.add(x); x = sg[x]; k += 1
                    longest = max(longest, k)
                cyc[longest] = cyc.get(longest, 0) + 1
            st = {}
            try:
                oracle(req, impl, stats=st)
            except Exception:
                st = {}
            if st:
                nstat += 1
                if "mixed" in st:
                    nmixed += 1
                for k in worst:
                    if k in st and st[k] > worst[k]:
                        worst[k] = st[k]
    # well-conditioned matrices (order <= 8, kappa_inf <= 1000, exact) that were refused as singular: possible only
    # through the absolute refusal rule |pivot| < EPSILON (everything with a certificate of clause 3 is a failure, not a note)
    refused = []
    cands = [(req, impl) for (req, impl, horc, model) in rows
             if (req.startswith("inverse ") or req.startswith("inv2 ")) and "err singular" in impl]
    rstep = max(1, len(cands) // 3000)
    for (req, impl) in cands[::rstep]:
        try:
            cmd, ty, h, w, A = _parse_request(req)
            ti = impl.split()
            if ti[0] == "ok":
                kind, Bt, rest = _parse_obs(ti)
                A = Bt[2]                  # the refused matrix is the computed inverse
                what = "inverse of the inverse of"
            else:
                what = "inverse of"
            if h != w or not (1 <= h <= 8) or not _finite(A):
                continue
            if any(x != 0 and not (SAFE_LO <= abs(x) <= SAFE_HI) for r in A for x in r):
                continue
            Ainv = exact_inverse(A)
            if Ainv is None:
                continue
            kap = _norm_inf([[Fraction(x) for x in r] for r in A]) * _norm_inf(Ainv)
            if kap <= KAPPA_MAX:
                refused.append((float(kap), float(1 / _norm_inf(Ainv)), what, req))
        except Exception:
            continue
    if refused:
        refused.sort(key=lambda z: -z[1])
        k, piv, what, rq = refused[0]
        notes.append(f"{len(refused)} well-conditioned matrices (order <= 8, exact kappa_inf <= 1000) among every {rstep}-th of the "
                     f"{len(cands)} refused ones were refused as singular: all have "
                     f"1/||A^-1||_inf < 2 EPSILON (largest: {piv:.3g}, kappa_inf {k:.3g}, {what} `{rq[:400]}`): the refusal rule "
                     "|pivot| < EPSILON is absolute (the other face of F-C10-eps4); no such matrix at or above the threshold "
                     "scale is refused (that would be an oracle failure, clause 3 / 6)")
    notes.append(f"exhaustive 2x2 over -2..2: {len(seen2)}/625 matrices")
    if len(seen2) != 625:
        notes.append("INCOMPLETE: the 2x2 space was not covered")
    notes.append(f"3x3 over -2..2: {len(sweeps)} sweep requests of 125 matrices ({len(sweeps) * 125}/1953125)")
    if tier == "thorough" and len(sweeps) != 15625:
        notes.append("INCOMPLETE: the 3x3 space was not covered")
    notes.append("element types: " + ", ".join(f"{k} {v}" for k, v in sorted(types.items())))
    notes.append(f"pivoting permutations (exact arithmetic) of a 1-in-{step} sample of the inverted matrices: "
                 + ", ".join(f"{k} {v}" for k, v in perms.items() if v)
                 + "; longest cycle length: " + ", ".join(f"{k}: {v}" for k, v in sorted(cyc.items())))
    if perms["none"]:
        notes.append(f"{perms['none']} of the sampled inverted matrices are exactly singular (exact rational elimination meets a "
                     "zero pivot column): integer matrices of order >= 4 whose singularity rounding hides from the absolute "
                     "pivot test (entries in -2..2: known finding F-C10-eps4; larger entries: outside the statement's list)")
    notes.append(f"largest ratios over {nstat} sampled inverted matrices (bound 2^8 = 256; 2^9 for the return to A): "
                 f"|AB-I| {_fl(worst['right']):.3g}, |BA-I| {_fl(worst['left']):.3g}, "
                 f"|B-A^-1| (kappa<=1e3) {_fl(worst['ref']):.3g}, |inverse(inverse(A))-A| (kappa<=1e3) {_fl(worst['back']):.3g}; "
                 f"clause 4b, |AB-I| against the exact |L||U||B| of partial pivoting: {_fl(worst['sharp']):.3g} inside the safe "
                 f"range, {_fl(worst['mixed']):.3g} on the {nmixed} sampled matrices with entries outside 2^-340..2^340 (mixed extremes)")
    return notes


def shrink(f, rerun):
    """a failing sweep request becomes the failing 3x3 matrix as an ordinary request; a failing square matrix loses
    row/column pairs greedily while it still fails"""
    import re
    req, impl, model, reason = f
    t = req.split()
    if t[0] == "inv3":
        m = re.search(r"third row \[?(-?\d+),? (-?\d+),? (-?\d+)\]?", reason or "")
        if not m:
            return f
        a = [int(x) for x in t[1:7]] + [int(m.group(k)) for k in (1, 2, 3)]
        cand = "inverse i32 3 3 " + " ".join(_bits(x) for x in a)
        i2, m2, k2, s2 = rerun(cand)
        if s2 is None:
            return f
        req, impl, model, reason = cand, i2, m2, s2
        t = req.split()
    head = 2 if t[0] == "inverse" else 1
    h, w = int(t[head]), int(t[head + 1])
    if h != w:
        return (req, impl, model, reason)
    vals = t[head + 2:head + 2 + h * w]
    n = h
    changed = True
    while changed and n > 1:
        changed = False
        for d in range(n - 1, -1, -1):
            sub = [vals[i * n + j] for i in range(n) if i != d for j in range(n) if j != d]
            cand = " ".join(t[:head]) + f" {n - 1} {n - 1} " + " ".join(sub)
            i2, m2, k2, s2 = rerun(cand)
            if s2 is not None:
                vals, n = sub, n - 1
                req, impl, model, reason = cand, i2, m2, s2
                changed = True
                break
    return (req, impl, model, reason)


SWEEP_TYPES = ["i32", "f64", "i8", "f32", "i16"]


def refine(req):
    """a sweep request splits into its 125 single-matrix requests (used by ./check to narrow a failing sweep, oracle
    or correspondence, down to one matrix); other requests are not composite"""
    t = req.split()
    if t[0] != "inv3":
        return []
    first = [int(x) for x in t[1:7]]
    out = []
    for c in range(125):
        third = [c // 25 - 2, (c // 5) % 5 - 2, c % 5 - 2]
        out.append(f"inverse {SWEEP_TYPES[c % 5]} 3 3 " + " ".join(_bits(x) for x in first + third))
    return out
