"""C14 plug-in: the property's oracle in exact rational arithmetic, written from the statement.

For a request `hess <h> <w> <bits…>` and the implementation's observation `ok <H> <Q>`:

  * non-square input must be refused (`err …`, any kind: the statement names none), square input must be `ok`;
  * n <= 2: H is A bit for bit and Q is the identity bit for bit;
  * n >= 3: every entry finite and, computed exactly from the bit patterns (every binary64 value is a
    dyadic rational m*2^e; the matrices are kept as integer matrices with one common exponent, so the
    products below are integer products — no rounding, and no square root is needed to *check*):
        max |QᵀQ − I|            <= 2^6 n u
        max |Q H Qᵀ − A|         <= 2^6 n u max(‖A‖_F, tiny)
        |H_ij| for i > j+1       <= 2^6 n u max(‖A‖_F, tiny)
    with u = 2^-53.  The last two are compared as squares (‖A‖_F² is rational, ‖A‖_F is not).
    The orthogonality bound does not scale with A (Q does not).
  * the two consequences the statement names, with the slack the three bounds above imply (so they cannot fail
    unless one of those is close to failing; they are judged separately so that each clause of the statement has
    its own verdict): with b = 2^6 n u, E1 = QᵀQ − I, E2 = Q H Qᵀ − A,
        tr A = tr(H QᵀQ) − tr E2 = tr H + tr(H E1) − tr E2   ⇒  |tr H − tr A| <= n b ‖A‖_F + n b ‖H‖_F
        ‖A + E2‖_F = ‖Q H Qᵀ‖_F and ‖Q‖_2² <= 1 + n b            ⇒  ‖H‖_F within a factor (1 ± 4 n b) of ‖A‖_F,
    checked as |tr H − tr A|² <= (4 n b)² ‖A‖_F² and |‖H‖_F² − ‖A‖_F²| <= 16 n b ‖A‖_F² (exact rationals).

Tolerance: Householder reduction is backward stable with a constant of a few n u ‖A‖_F per reflector
and n−2 reflectors; the largest observed value of any of the three quantities over the 110 000
thorough cases of seed 0 and the 36 000 of an earlier generator version (n <= 10, scalings 2^±40) is 0.063 of
its bound (QᵀQ − I: 0.046, Q H Qᵀ − A: 0.063, zeros of H: 0.016), so correct code has a margin of about 15x, while
a wrong sign, a wrong phase range or a missing accumulation gives errors of order 1 (relative), twelve orders of
magnitude above the bound.
"""
import math, struct

RULE = ("every family of the quantifier (dense, sparse with exact zeros incl. -0.0, already-Hessenberg columns, "
        "block-triangular (skip branch at k>0), zero sub-columns, symmetric, negative/zero leading sub-column entries, "
        "all-skip (triangular/diagonal/zero), integer columns with exact norms, single sub-diagonal entries, graded nearly "
        "reduced columns (tail 1e-6..1e-170 or exactly 2^-20..2^-30 of the head, both signs of the head, after exactly "
        "reduced columns), graded matrices D A D^-1) at every size n = 0..10 and a sample of them at every n = 11..40, "
        "unscaled and scaled by 2^+-40, 2^60, 2^-70, 2^+-200, 2^+-300 and random powers in between, plus all non-square "
        "shapes 0..5 x 0..5; near-structure families: exactly symmetric (dense, B+B^T, banded), triangular, already-Hessenberg, "
        "scalar times exactly orthogonal (integer rotations, signed permutations, Householder), skew-symmetric, Toeplitz/circulant/"
        "Hankel, rank one, diagonal, tiny leading sub-column entries -- each with ONE entry, one mirrored pair, a far corner, one "
        "row/column, the strict lower part or two entries off the structure by a relative 2^-20..2^-52 (structural zeros moved to "
        "that fraction of the largest entry), n = 3..16, scales 2^+-30, 2^+-40, random; every call repeated on the same borrowed "
        "input and on the same numbers with another object history (from_flat padded/full, reshape of a row/column, clone_from "
        "into larger/smaller objects, transpose+transpose_mut, TryFrom<Vec<Vec>>, map), empty shapes as N empty rows and their transposes; "
        "non-trivial = the model answers ok with n >= 3 and Q is not the identity (at least one reflector "
        "was applied); distinct = distinct request lines")

U_EXP = -53          # u = 2^-53
C_EXP = 6            # 2^6
TINY_EXP = -2000     # tiny^2 = 2^-2000
ONE = 0x3FF0000000000000


def f_of_bits(b):
    return struct.unpack("<d", struct.pack("<Q", b))[0]


def dyadic(b):
    """bits -> (m, e) with value m * 2^e exactly (m integer); None for inf/nan"""
    x = f_of_bits(b)
    if math.isinf(x) or math.isnan(x):
        return None
    if x == 0.0:
        return (0, 0)
    m, e = math.frexp(x)            # x = m * 2^e, 0.5 <= |m| < 1
    return (int(m * (1 << 53)), e - 53)


class IM:
    """integer matrix times 2^e"""
    __slots__ = ("h", "w", "a", "e")

    def __init__(self, h, w, a, e):
        self.h, self.w, self.a, self.e = h, w, a, e

    @staticmethod
    def of_bits(h, w, bits):
        ds = [dyadic(b) for b in bits]
        if any(d is None for d in ds):
            return None
        nz = [e for (m, e) in ds if m != 0]
        e0 = min(nz) if nz else 0
        return IM(h, w, [m << (e - e0) if m else 0 for (m, e) in ds], e0)

    def at(self, i, j):
        return self.a[i * self.w + j]

    def T(self):
        return IM(self.w, self.h, [self.at(i, j) for j in range(self.w) for i in range(self.h)], self.e)

    def mul(self, o):
        n, m, p = self.h, self.w, o.w
        a, b = self.a, o.a
        out = []
        for i in range(n):
            row = a[i * m:(i + 1) * m]
            for j in range(p):
                s = 0
                for k in range(m):
                    s += row[k] * b[k * p + j]
                out.append(s)
        return IM(n, p, out, self.e + o.e)

    def sub(self, o):
        e = min(self.e, o.e)
        sa, sb = self.e - e, o.e - e
        return IM(self.h, self.w, [(x << sa) - (y << sb) for x, y in zip(self.a, o.a)], e)

    def maxabs(self):
        return max((abs(x) for x in self.a), default=0)

    def frob2(self):
        """‖·‖_F² as (integer, exponent)"""
        return (sum(x * x for x in self.a), 2 * self.e)


def le2(am, ae, bm, be):
    """am*2^ae <= bm*2^be for integers am, bm >= 0"""
    e = min(ae, be)
    return (am << (ae - e)) <= (bm << (be - e))


def show(m, e):
    """m * 2^e for a message (the value may be outside the binary64 range)"""
    try:
        return "%.3e" % (m * 2.0 ** e)
    except OverflowError:
        bl = abs(m).bit_length()
        return "%.3f*2^%d" % (m / (1 << (bl - 1)), e + bl - 1)


def ident(n):
    return IM(n, n, [1 if i == j else 0 for i in range(n) for j in range(n)], 0)


def parse_req(req):
    t = req.split()
    h, w = int(t[1]), int(t[2])
    return h, w, [int(x) for x in t[3:3 + h * w]]


def parse_ok(impl):
    """'ok h w f.. h w f..' -> (n, Hbits, Qbits)"""
    t = impl.split()
    p = 1
    mats = []
    for _ in range(2):
        h, w = int(t[p]), int(t[p + 1]); p += 2
        bits = [int(x[1:]) for x in t[p:p + h * w]]; p += h * w
        mats.append((h, w, bits))
    if p != len(t):
        raise ValueError("trailing tokens")
    return mats


def measure(req, impl):
    """the three exact quantities as floats relative to their bounds (for calibration only)"""
    h, w, abits = parse_req(req)
    (hh, hw, hbits), (qh, qw, qbits) = parse_ok(impl)
    n = h
    A, H, Q = IM.of_bits(n, n, abits), IM.of_bits(n, n, hbits), IM.of_bits(n, n, qbits)
    e1 = Q.T().mul(Q).sub(ident(n))
    e2 = Q.mul(H).mul(Q.T()).sub(A)
    f2m, f2e = A.frob2()
    fro = math.sqrt(f2m) * 2.0 ** (f2e / 2) if f2m else 0.0
    bound = 2.0 ** C_EXP * n * 2.0 ** U_EXP
    r1 = e1.maxabs() * 2.0 ** e1.e / bound
    r2 = (e2.maxabs() * 2.0 ** e2.e / (bound * fro)) if fro else 0.0
    low = max((abs(H.at(i, j)) for i in range(n) for j in range(n) if i > j + 1), default=0)
    r3 = (low * 2.0 ** H.e / (bound * fro)) if fro else 0.0
    return r1, r2, r3


def compare(req, impl, model):
    """Exact (`default_compare`) wherever the statement is exact: accepted vs rejected, shapes, sizes <= 2 (H = A and
    Q = I bit for bit), non-finite entries.  Two refusals agree whatever their kind ("non-square input is rejected").

    For n >= 3 the statement fixes (H, Q) only "to within n*eps*||A|| rounding" and only up to the signs of the
    reflectors: for every diagonal D of +-1 with D_00 = 1, (D H D, Q D) satisfies every clause that (H, Q) satisfies
    (Q^T Q = I, Q H Q^T = A, the zeros, trace, Frobenius norm), and the statement says itself that already reduced
    columns may be skipped (a skipped column is a reflector replaced by the identity: D_kk = -1 against a code that
    reflects it).  So the two answers agree when, with D read off the columns of the two Q (sign of the largest entry)
    and b = 2^6 n u (the oracle's own bound), column by column
        |Q_impl - Q_model D|_col j <= b amp_j      and      |H_impl - D H_model D|_col j <= b amp_j ||A||_F .
    amp_j is the conditioning of the part of the reduction that column j depends on (the reflectors 0..j-1): a
    perturbation of relative size e of the working matrix turns reflector k by about e ||A|| / ||x_k||, and ||x_k|| is
    the sub-diagonal entry |H[k+1][k]|:   amp_j = 1 + 2^6 sum_{k<j} ||A||_F / |H_model[k+1][k]|   (first order, the
    factors of successive steps not multiplied; calibrated on the re-associated reflector update of seeded/C14-b2:
    largest observed difference 0.4 of this allowance).  A backward stable reduction is not forward stable where a
    sub-column is tiny (graded, nearly reducible matrices) -- the statement's own bounds are backward bounds, and the
    oracle judges the same answer against them with no amplification.
    Where the model's sub-column k0 is zero to rounding (|H[k0+1][k0]| <= b ||A||_F: the reduction breaks down, the
    reflector is either skipped or built from rounding noise) the columns after k0 are not determined by the input:
    if the full comparison (which takes an exact zero for a structural one) fails, only the columns 0..k0 are compared.
    Likewise the columns whose allowance b amp_j exceeds 2^-10 are not compared (seeded/C14-b2, thorough tier, 115 636
    requests: the two answers differ by O(1) there, in 2 requests by more than the first-order estimate)."""
    from __main__ import default_compare
    why = default_compare(req, impl, model)
    if why is None:
        return None
    if impl.split()[:1] == ["err"] and model.split()[:1] == ["err"]:
        return None
    if not (impl.startswith("ok ") and model.startswith("ok ")):
        return why
    try:
        h, w, abits = parse_req(req)
        (hh, hw, hb), (qh, qw, qb) = parse_ok(impl)
        (mh, mw, mhb), (mqh, mqw, mqb) = parse_ok(model)
    except Exception:
        return why
    n = h
    if h != w or n <= 2 or (hh, hw, qh, qw) != (n, n, n, n) or (mh, mw, mqh, mqw) != (n, n, n, n):
        return why
    A = [f_of_bits(b) for b in abits]
    Hi, Qi, Hm, Qm = ([f_of_bits(b) for b in x] for x in (hb, qb, mhb, mqb))
    if not all(math.isfinite(x) for x in A + Hi + Qi + Hm + Qm):
        return why
    # exact power-of-two normalisation: the squares below stay in range for entries of any magnitude
    e = math.frexp(max((abs(x) for x in A), default=0.0))[1]
    A, Hi, Hm = ([math.ldexp(x, -e) for x in M] for M in (A, Hi, Hm))
    fro = math.sqrt(sum(x * x for x in A))
    if fro == 0.0:
        return why
    worst = deviation(n, fro, Hi, Qi, Hm, Qm)
    if worst is None:
        return why + " (first column of Q)"
    if worst[0] <= 1.0:
        return None
    return why + " (up to reflector signs, column %d: Q differs by %.2e, H by %.2e*|A|_F; allowed %.2e = 2^6 n u * conditioning %.1e)" % (
        worst[1], worst[2], worst[3], worst[4], worst[4] / (2.0 ** (C_EXP + U_EXP) * n))


def deviation(n, fro, Hi, Qi, Hm, Qm):
    """(largest difference / allowance, column, dQ, dH/|A|_F, allowance) of the comparison described in `compare`
    (the full one, or the one restricted to the columns before the first breakdown when the full one fails);
    None when the first columns of the two Q differ in sign (both are e_1)."""
    d = []
    for j in range(n):
        r = max(range(n), key=lambda i: abs(Qm[i * n + j]))
        d.append(1.0 if Qm[r * n + j] * Qi[r * n + j] >= 0.0 else -1.0)
    if d[0] != 1.0:
        return None
    b = 2.0 ** (C_EXP + U_EXP) * n
    sub = [abs(Hm[(k + 1) * n + k]) for k in range(n - 2)]
    amp = [1.0]
    for k in range(n - 1):
        amp.append(amp[-1] + (2.0 ** 6 * fro / sub[k] if k < n - 2 and sub[k] > b * fro else 0.0))
    broken = [k for k in range(n - 2) if sub[k] <= b * fro]
    # an allowance beyond 2^-10 compares nothing (|Q_ij| <= 1): from there on the columns are not determined either
    jmax = max(j for j in range(n) if b * amp[j] <= 2.0 ** -10 or j == 0)
    worst = None
    for last in ([jmax] + [min(jmax, k) for k in broken[:1]]):
        worst = (0.0, 0, 0.0, 0.0, b)
        for j in range(last + 1):
            tol = b * amp[j]
            for i in range(n):
                dq = abs(Qi[i * n + j] - d[j] * Qm[i * n + j])
                dh = abs(Hi[i * n + j] - d[i] * d[j] * Hm[i * n + j]) / fro
                # below the first sub-diagonal both entries are rounding noise of either sign
                r = max(dq, dh / 2.0 if i > j + 1 else dh) / tol
                if r > worst[0]:
                    worst = (r, j, dq, dh, tol)
        if worst[0] <= 1.0:
            return worst
    return worst


def oracle(req, impl):
    h, w, abits = parse_req(req)
    if h != w:
        # "non-square input is rejected": any error is a rejection, the statement names no kind
        return None if impl.split()[:1] == ["err"] else f"non-square {h}x{w} input: expected a rejection, got {impl[:40]}"
    if not impl.startswith("ok "):
        return f"square {h}x{w} input: expected Ok, got {impl[:40]}"
    n = h
    try:
        (hh, hw, hbits), (qh, qw, qbits) = parse_ok(impl)
    except Exception as ex:  # malformed observation
        return f"unreadable observation: {ex}"
    if (hh, hw, qh, qw) != (n, n, n, n):
        return f"shapes H {hh}x{hw}, Q {qh}x{qw} for an input of size {n}"
    if n <= 2:
        if hbits != abits:
            return "n <= 2: H is not the input unchanged"
        if qbits != [ONE if i == j else 0 for i in range(n) for j in range(n)]:
            return "n <= 2: Q is not the identity"
        return None
    A, H, Q = IM.of_bits(n, n, abits), IM.of_bits(n, n, hbits), IM.of_bits(n, n, qbits)
    if A is None:
        return None  # non-finite input is outside the property
    if H is None or Q is None:
        return "non-finite entry in H or Q for a finite input"
    # bound = 2^6 n u ; squared bound times max(‖A‖_F², tiny²)
    bexp = C_EXP + U_EXP
    f2m, f2e = A.frob2()
    if not le2(1, TINY_EXP, f2m, f2e):
        f2m, f2e = 1, TINY_EXP
    e1 = Q.T().mul(Q).sub(ident(n))
    if not le2(e1.maxabs(), e1.e, n, bexp):
        return "QᵀQ − I exceeds 2^6 n u (max entry %s)" % show(e1.maxabs(), e1.e)
    e2 = Q.mul(H).mul(Q.T()).sub(A)
    m2 = e2.maxabs()
    if not le2(m2 * m2, 2 * e2.e, n * n * f2m, 2 * bexp + f2e):
        return "Q H Qᵀ − A exceeds 2^6 n u ‖A‖_F (max entry %s)" % show(m2, e2.e)
    for i in range(n):
        for j in range(n):
            if i > j + 1:
                x = abs(H.at(i, j))
                if x and not le2(x * x, 2 * H.e, n * n * f2m, 2 * bexp + f2e):
                    return "H[%d][%d] = %s is not zero to rounding (below the first sub-diagonal; bound 2^6 n u ‖A‖_F)" % (
                        i, j, show(x, H.e))
    # consequences: trace and Frobenius norm preserved (slack implied by the three bounds above, see the docstring)
    trd = IM(1, 1, [sum(H.at(i, i) for i in range(n))], H.e).sub(IM(1, 1, [sum(A.at(i, i) for i in range(n))], A.e))
    t = abs(trd.a[0])
    if t and not le2(t * t, 2 * trd.e, 16 * n * n * n * n * f2m, 2 * bexp + f2e):
        return "trace not preserved: tr H − tr A = %s" % show(trd.a[0], trd.e)
    hm, he = H.frob2()
    am, ae = A.frob2()
    fd = IM(1, 1, [hm], he).sub(IM(1, 1, [am], ae))
    if fd.a[0] and not le2(abs(fd.a[0]), fd.e, 16 * n * n * f2m, bexp + f2e):
        return "Frobenius norm not preserved: ‖H‖_F² − ‖A‖_F² = %s" % show(fd.a[0], fd.e)
    return None


def nontrivial(req, model):
    if not model.startswith("ok "):
        return False
    try:
        (hh, hw, hbits), (qh, qw, qbits) = parse_ok(model)
    except Exception:
        return False
    return hh >= 3 and qbits != [ONE if i == j else 0 for i in range(qh) for j in range(qh)]


def tag(req, model):
    t = req.split()
    h, w = t[1], t[2]
    if not model.startswith("ok "):
        return "hess:%sx%s:%s" % (h, w, "_".join(model.split()[:2]))
    n = int(h)
    if n <= 2:
        return "hess:n%d:unchanged" % n
    return "hess:n%d:%s" % (n, "reflect" if nontrivial(req, model) else "all-skipped")
