import SV.Model.C11
import SV.Model.C14
import SV.Lemmas.C14
import Mathlib.Algebra.Order.Field.Basic
import Mathlib.Analysis.Real.Sqrt
import Mathlib.Tactic.Ring
import Mathlib.Tactic.FieldSimp
import Mathlib.Tactic.Linarith
/-!
# C14 — the Hessenberg reduction is scale-equivariant

Scaling the matrix by a positive constant `c` scales the returned `H` by `c` and leaves the
orthogonal factor `Q` and the error outcome unchanged:

  `hessenberg sqrt (smul A c) = (hessenberg sqrt A).map fun (H, Q) => (smul H c, Q)`

for every linearly ordered field, every matrix `A` (every shape: non-square, order 0, 1, 2 and the
general loop; no well-formedness hypothesis on the buffer), every `c > 0` and every `sqrt` with the
hypothesis the other C14 theorems use (`∀ x ≥ 0, sqrt x * sqrt x = x ∧ 0 ≤ sqrt x`, satisfiable by
`Real.sqrt`).  `smul` is `SV.C11.smul`, the model of the code's own `&Arr2D * scalar`.

Consequence: no ABSOLUTE threshold (`norm_x < 1e-12 { continue }`, a floor on `|u1|`, …) can be part
of this algorithm — such a test is not invariant under `A ↦ c·A`, while every test the algorithm
makes (`norm_x == 0.0`, `h_first >= 0.0`) is.  The reflector `(tau, v)` is scale-free, the norm and
`u1` are homogeneous of degree 1.
-/
set_option linter.unusedSectionVars false

namespace SV.Props.C14Scale
open SV SV.C11 SV.C14 Finset

variable {K : Type} [Field K] [LinearOrder K] [IsStrictOrderedRing K] [Inhabited K]

/-- what scaling the input by `c` does to a result `(H, Q)`: `H` is scaled, `Q` is unchanged -/
def scaleRes (c : K) : Mat K × Mat K → Mat K × Mat K := fun r => (smul r.1 c, r.2)

/-- the hypothesis on the `sqrt` parameter (the one of `SV.Props.C14`) is satisfiable -/
example : ∀ x : ℝ, 0 ≤ x → Real.sqrt x * Real.sqrt x = x ∧ 0 ≤ Real.sqrt x :=
  fun x hx => ⟨Real.mul_self_sqrt hx, Real.sqrt_nonneg x⟩

/-! ### building blocks -/

@[simp] private theorem smul_h (m : Mat K) (c : K) : (smul m c).h = m.h := rfl
@[simp] private theorem smul_w (m : Mat K) (c : K) : (smul m c).w = m.w := rfl

private theorem tab_congr {h w : Nat} {f g : Nat → Nat → K}
    (hfg : ∀ i j, i < h → j < w → f i j = g i j) : Mat.tab h w f = Mat.tab h w g := by
  apply Mat.ext_get (M := Mat.tab h w f) (N := Mat.tab h w g) (Mat.tab_WF _ _ _) (Mat.tab_WF _ _ _) rfl rfl
  intro i j hi hj
  have hi' : i < h := hi
  have hj' : j < w := hj
  rw [Mat.get_tab _ hi' hj', Mat.get_tab _ hi' hj']
  exact hfg i j hi' hj'

private theorem get_smul (m : Mat K) (c : K) {i j : Nat} (hi : i < m.h) (hj : j < m.w) :
    (smul m c).get i j = m.get i j * c := Mat.get_tab _ hi hj

/-- **The square root is positively homogeneous of degree 1/2** — a consequence of the two
hypotheses on `sqrt` alone: `sqrt (c·c·x) = c·sqrt x` for `x ≥ 0`, `c > 0`. -/
theorem sqrt_scale (sqrt : K → K)
    (hs : ∀ x : K, 0 ≤ x → sqrt x * sqrt x = x ∧ 0 ≤ sqrt x) (x c : K) (hx : 0 ≤ x) (hc : 0 < c) :
    sqrt (c * c * x) = c * sqrt x := by
  have h1 := hs x hx
  have h2 := hs (c * c * x) (mul_nonneg (mul_nonneg hc.le hc.le) hx)
  have hb : 0 ≤ c * sqrt x := mul_nonneg hc.le h1.2
  have hsq : sqrt (c * c * x) * sqrt (c * c * x) = (c * sqrt x) * (c * sqrt x) := by
    rw [h2.1, mul_mul_mul_comm, h1.1]
  exact (mul_self_inj h2.2 hb).mp hsq

/-- the squared norm of a sub-column is homogeneous of degree 2 -/
theorem colNormSq_smul (n k : Nat) (hk : k < n) (H : Mat K) (hh : H.h = n) (hw : H.w = n) (c : K) :
    colNormSq n k (smul H c) = c * c * colNormSq n k H := by
  rw [colNormSq_eq, colNormSq_eq, Finset.mul_sum]
  apply Finset.sum_congr rfl
  intro t ht
  have := Finset.mem_range.mp ht
  rw [get_smul H c (by omega) (by omega)]
  ring

/-- `sign` only looks at the sign of the pivot entry: unchanged by a positive factor -/
theorem signOf_scale (x c : K) (hc : 0 < c) : signOf (x * c) = signOf x := by
  unfold signOf
  by_cases h : x ≥ 0
  · rw [if_pos h, if_pos (mul_nonneg h hc.le)]
  · rw [if_neg h, if_neg]
    intro h'
    exact h (le_of_not_gt fun hlt => absurd h' (not_le.mpr (mul_neg_of_neg_of_pos hlt hc)))

/-- **The reflector quantities of the scaled matrix**: `norm_x` and `u1` are multiplied by `c`,
`sign` and `tau` are unchanged. -/
theorem reflOf_smul (sqrt : K → K)
    (hs : ∀ x : K, 0 ≤ x → sqrt x * sqrt x = x ∧ 0 ≤ sqrt x)
    (n k : Nat) (hk : k + 1 < n) (H : Mat K) (hh : H.h = n) (hw : H.w = n) (c : K) (hc : 0 < c) :
    (reflOf sqrt n k (smul H c)).norm = (reflOf sqrt n k H).norm * c ∧
    (reflOf sqrt n k (smul H c)).sign = (reflOf sqrt n k H).sign ∧
    (reflOf sqrt n k (smul H c)).u1 = (reflOf sqrt n k H).u1 * c ∧
    (reflOf sqrt n k (smul H c)).tau = (reflOf sqrt n k H).tau := by
  have hn : sqrt (colNormSq n k (smul H c)) = sqrt (colNormSq n k H) * c := by
    rw [colNormSq_smul n k (by omega) H hh hw c,
      sqrt_scale sqrt hs _ c (colNormSq_nonneg n k H) hc, mul_comm]
  have hg : (smul H c).get (k + 1) k = H.get (k + 1) k * c :=
    get_smul H c (by omega) (by omega)
  simp only [reflOf]
  rw [hn, hg, signOf_scale _ _ hc]
  refine ⟨rfl, rfl, by ring, ?_⟩
  rw [show H.get (k + 1) k * c - signOf (H.get (k + 1) k) * (sqrt (colNormSq n k H) * c)
      = (H.get (k + 1) k - signOf (H.get (k + 1) k) * sqrt (colNormSq n k H)) * c by ring,
    ← mul_assoc, mul_div_mul_right _ _ hc.ne']

/-- the Householder vector `v` of the scaled matrix (with the scaled `u1`) is the same vector -/
theorem vvec_smul (n k : Nat) (H : Mat K) (hh : H.h = n) (hw : H.w = n) (u1 c : K) (hc : c ≠ 0)
    (t : Nat) (ht : k + 1 + t < n) :
    vvec k (smul H c) (u1 * c) t = vvec k H u1 t := by
  unfold vvec
  by_cases h0 : t = 0
  · rw [if_pos h0, if_pos h0]
  · rw [if_neg h0, if_neg h0, get_smul H c (by omega) (by omega), mul_div_mul_right _ _ hc]

/-- **Left phase** (`H_k * A`) is linear in the matrix; only the entries `v t`, `t < n-(k+1)`, of
the vector are read -/
theorem leftPhase_smul (n k : Nat) (tau : K) (v v' : Nat → K)
    (hv : ∀ t, k + 1 + t < n → v' t = v t) (H : Mat K) (hh : H.h = n) (hw : H.w = n) (c : K) :
    leftPhase n k tau v' (smul H c) = smul (leftPhase n k tau v H) c := by
  unfold leftPhase
  conv_rhs => rw [smul]
  simp only [Mat.tab_h, Mat.tab_w]
  apply tab_congr
  intro i j hi hj
  rw [Mat.get_tab _ hi hj, get_smul H c (by omega) (by omega)]
  by_cases hb : k + 1 ≤ i ∧ k ≤ j
  · rw [if_pos hb, if_pos hb, sumFrom_zero, sumFrom_zero, hv _ (by omega)]
    have : ∑ t ∈ range (n - (k + 1)), v' t * (smul H c).get (k + 1 + t) j
        = (∑ t ∈ range (n - (k + 1)), v t * H.get (k + 1 + t) j) * c := by
      rw [Finset.sum_mul]
      apply Finset.sum_congr rfl
      intro t ht
      have := Finset.mem_range.mp ht
      rw [get_smul H c (by omega) (by omega), hv _ (by omega)]
      ring
    rw [this]
    ring
  · rw [if_neg hb, if_neg hb]

/-- **Right phase** (`A * H_k`) is linear in the matrix -/
theorem rightPhase_smul (n k : Nat) (tau : K) (v v' : Nat → K)
    (hv : ∀ t, k + 1 + t < n → v' t = v t) (H : Mat K) (hh : H.h = n) (hw : H.w = n) (c : K) :
    rightPhase n k tau v' (smul H c) = smul (rightPhase n k tau v H) c := by
  unfold rightPhase
  conv_rhs => rw [smul]
  simp only [Mat.tab_h, Mat.tab_w]
  apply tab_congr
  intro i j hi hj
  rw [Mat.get_tab _ hi hj, get_smul H c (by omega) (by omega)]
  by_cases hb : k + 1 ≤ j
  · rw [if_pos hb, if_pos hb, sumFrom_zero, sumFrom_zero, hv _ (by omega)]
    have : ∑ t ∈ range (n - (k + 1)), v' t * (smul H c).get i (k + 1 + t)
        = (∑ t ∈ range (n - (k + 1)), v t * H.get i (k + 1 + t)) * c := by
      rw [Finset.sum_mul]
      apply Finset.sum_congr rfl
      intro t ht
      have := Finset.mem_range.mp ht
      rw [get_smul H c (by omega) (by omega), hv _ (by omega)]
      ring
    rw [this]
    ring
  · rw [if_neg hb, if_neg hb]

/-- the right phase on `q` does not see the scaling at all: same `tau`, same `v` on the indices read -/
theorem rightPhase_congr (n k : Nat) (tau : K) (v v' : Nat → K)
    (hv : ∀ t, k + 1 + t < n → v' t = v t) (Q : Mat K) :
    rightPhase n k tau v' Q = rightPhase n k tau v Q := by
  unfold rightPhase
  apply tab_congr
  intro i j hi hj
  by_cases hb : k + 1 ≤ j
  · rw [if_pos hb, if_pos hb, sumFrom_zero, sumFrom_zero, hv _ (by omega)]
    congr 2
    apply Finset.sum_congr rfl
    intro t ht
    have := Finset.mem_range.mp ht
    rw [hv _ (by omega)]
  · rw [if_neg hb, if_neg hb]

/-- the pass keeps the shape `n × n` of `h` -/
theorem step_dims (sqrt : K → K) (n k : Nat) (s : Mat K × Mat K) (hh : s.1.h = n) (hw : s.1.w = n) :
    (step sqrt n k s).1.h = n ∧ (step sqrt n k s).1.w = n := by
  unfold step
  simp only
  split
  · exact ⟨hh, hw⟩
  · exact ⟨rfl, rfl⟩

/-- the pass on `(h·c, q)` when the reflector quantities of `h·c` are known to be `norm·d`, `u1·c`
and the same `tau` (`c, d ≠ 0`): same branch, result `(h'·c, q')` -/
private theorem step_of_refl (sqrt : K → K) (n k : Nat) (s : Mat K × Mat K) (hh : s.1.h = n)
    (hw : s.1.w = n) (c d : K) (hc : c ≠ 0) (hd : d ≠ 0)
    (h1 : (reflOf sqrt n k (smul s.1 c)).norm = (reflOf sqrt n k s.1).norm * d)
    (h3 : (reflOf sqrt n k (smul s.1 c)).u1 = (reflOf sqrt n k s.1).u1 * c)
    (h4 : (reflOf sqrt n k (smul s.1 c)).tau = (reflOf sqrt n k s.1).tau) :
    step sqrt n k (smul s.1 c, s.2) = scaleRes c (step sqrt n k s) := by
  unfold step
  simp only
  rw [h1, h3, h4]
  have hz : ((reflOf sqrt n k s.1).norm * d == 0) = ((reflOf sqrt n k s.1).norm == 0) := by
    simp [hd]
  rw [hz]
  by_cases h0 : ((reflOf sqrt n k s.1).norm == 0) = true
  · rw [if_pos h0, if_pos h0]; rfl
  · rw [if_neg h0, if_neg h0]
    have hv : ∀ t, k + 1 + t < n →
        vvec k (smul s.1 c) ((reflOf sqrt n k s.1).u1 * c) t = vvec k s.1 (reflOf sqrt n k s.1).u1 t :=
      fun t ht => vvec_smul n k s.1 hh hw _ c hc t ht
    simp only [scaleRes]
    rw [leftPhase_smul n k _ _ _ hv s.1 hh hw c,
      rightPhase_smul n k _ _ _ hv _ rfl rfl c, rightPhase_congr n k _ _ _ hv s.2]

/-- **One pass of the outer loop is scale-equivariant**: on `(h·c, q)` it takes the same branch
(skip or reflect) as on `(h, q)` and produces `(h'·c, q')`. -/
theorem step_smul (sqrt : K → K)
    (hs : ∀ x : K, 0 ≤ x → sqrt x * sqrt x = x ∧ 0 ≤ sqrt x)
    (n k : Nat) (hk : k + 1 < n) (s : Mat K × Mat K) (hh : s.1.h = n) (hw : s.1.w = n)
    (c : K) (hc : 0 < c) :
    step sqrt n k (smul s.1 c, s.2) = scaleRes c (step sqrt n k s) := by
  obtain ⟨h1, _, h3, h4⟩ := reflOf_smul sqrt hs n k hk s.1 hh hw c hc
  exact step_of_refl sqrt n k s hh hw c c hc.ne' hc.ne' h1 h3 h4

/-! ### negative factors (one pass) -/

/-- `sign` flips under a negative factor, except at a pivot entry that is exactly `0`
(`0 >= 0.0` on both sides) -/
theorem signOf_scale_neg (x c : K) (hc : c < 0) (hx : x ≠ 0) : signOf (x * c) = -signOf x := by
  unfold signOf
  by_cases h : x ≥ 0
  · have hpos : 0 < x := lt_of_le_of_ne h (Ne.symm hx)
    rw [if_pos h, if_neg (not_le.mpr (mul_neg_of_pos_of_neg hpos hc)), neg_neg]
  · rw [if_neg h, if_pos (mul_nonneg_of_nonpos_of_nonpos (le_of_not_ge h) hc.le)]

/-- **The reflector quantities under a negative factor `c`**, pivot entry `h[k+1][k] ≠ 0`:
`norm_x` is multiplied by `-c = |c|`, `sign` flips, `u1` is multiplied by `c`, `tau` is unchanged. -/
theorem reflOf_smul_neg (sqrt : K → K)
    (hs : ∀ x : K, 0 ≤ x → sqrt x * sqrt x = x ∧ 0 ≤ sqrt x)
    (n k : Nat) (hk : k + 1 < n) (H : Mat K) (hh : H.h = n) (hw : H.w = n) (c : K) (hc : c < 0)
    (hp : H.get (k + 1) k ≠ 0) :
    (reflOf sqrt n k (smul H c)).norm = (reflOf sqrt n k H).norm * (-c) ∧
    (reflOf sqrt n k (smul H c)).sign = -(reflOf sqrt n k H).sign ∧
    (reflOf sqrt n k (smul H c)).u1 = (reflOf sqrt n k H).u1 * c ∧
    (reflOf sqrt n k (smul H c)).tau = (reflOf sqrt n k H).tau := by
  have hn : sqrt (colNormSq n k (smul H c)) = sqrt (colNormSq n k H) * (-c) := by
    rw [colNormSq_smul n k (by omega) H hh hw c, show c * c = (-c) * (-c) by ring,
      sqrt_scale sqrt hs _ (-c) (colNormSq_nonneg n k H) (neg_pos.mpr hc), mul_comm]
  have hg : (smul H c).get (k + 1) k = H.get (k + 1) k * c :=
    get_smul H c (by omega) (by omega)
  simp only [reflOf]
  rw [hn, hg, signOf_scale_neg _ _ hc hp]
  refine ⟨rfl, rfl, by ring, ?_⟩
  rw [show - -signOf (H.get (k + 1) k)
        * (H.get (k + 1) k * c - -signOf (H.get (k + 1) k) * (sqrt (colNormSq n k H) * -c))
      = (-signOf (H.get (k + 1) k)
        * (H.get (k + 1) k - signOf (H.get (k + 1) k) * sqrt (colNormSq n k H))) * (-c) by ring,
    mul_div_mul_right _ _ (neg_ne_zero.mpr hc.ne)]

/-- **One pass under a negative factor.**  If the pivot entry `h[k+1][k]` is not zero, the pass on
`(h·c, q)` with `c < 0` still gives `(h'·c, q')`: `sign` flips, `norm_x` is multiplied by `|c|`,
and the two changes cancel in `u1 = h_first - sign·norm_x`, so `v` and `tau` are the same.
(For `h[k+1][k] = 0` this fails: `sign` is `-1` on both sides — `0 >= 0.0` — and `v` becomes
`(1, -v₁, -v₂, …)`, a different reflector and a different `Q`; see the example at the end.) -/
theorem step_smul_neg (sqrt : K → K)
    (hs : ∀ x : K, 0 ≤ x → sqrt x * sqrt x = x ∧ 0 ≤ sqrt x)
    (n k : Nat) (hk : k + 1 < n) (s : Mat K × Mat K) (hh : s.1.h = n) (hw : s.1.w = n)
    (c : K) (hc : c < 0) (hp : s.1.get (k + 1) k ≠ 0) :
    step sqrt n k (smul s.1 c, s.2) = scaleRes c (step sqrt n k s) := by
  obtain ⟨h1, _, h3, h4⟩ := reflOf_smul_neg sqrt hs n k hk s.1 hh hw c hc hp
  exact step_of_refl sqrt n k s hh hw c (-c) hc.ne (neg_ne_zero.mpr hc.ne) h1 h3 h4

/-- the whole loop, by simulation: the states of the two runs are related by `scaleRes c` after
every pass -/
theorem fold_smul (sqrt : K → K)
    (hs : ∀ x : K, 0 ≤ x → sqrt x * sqrt x = x ∧ 0 ≤ sqrt x)
    (n : Nat) (c : K) (hc : 0 < c) : ∀ (m : Nat), m + 2 ≤ n → ∀ (s : Mat K × Mat K),
      s.1.h = n → s.1.w = n →
      (List.range m).foldl (fun s k => step sqrt n k s) (smul s.1 c, s.2)
        = scaleRes c ((List.range m).foldl (fun s k => step sqrt n k s) s) ∧
      ((List.range m).foldl (fun s k => step sqrt n k s) s).1.h = n ∧
      ((List.range m).foldl (fun s k => step sqrt n k s) s).1.w = n := by
  intro m
  induction m with
  | zero => intro _ s hh hw; exact ⟨rfl, hh, hw⟩
  | succ m ih =>
    intro hm s hh hw
    obtain ⟨e, dh, dw⟩ := ih (by omega) s hh hw
    rw [List.range_succ, List.foldl_append, List.foldl_append, e]
    simp only [List.foldl_cons, List.foldl_nil]
    refine ⟨?_, step_dims sqrt n m _ dh dw⟩
    exact step_smul sqrt hs n m (by omega) _ dh dw c hc

/-! ### the theorems -/

/-- **Scale equivariance of the Hessenberg reduction.**  For every linearly ordered field, every
`sqrt` with `sqrt x * sqrt x = x ∧ 0 ≤ sqrt x` on `x ≥ 0`, every matrix `A` (any shape, any order
including 0, 1, 2; well-formed buffer or not) and every `c > 0`: running the reduction on `A·c`
(`SV.C11.smul`, the code's `&Arr2D * scalar`) gives the outcome of running it on `A` with `H`
multiplied entrywise by `c` and the SAME `Q`; a non-square input gives the same error. -/
theorem hessenberg_smul (sqrt : K → K)
    (hs : ∀ x : K, 0 ≤ x → sqrt x * sqrt x = x ∧ 0 ≤ sqrt x) (A : Mat K) (c : K) (hc : 0 < c) :
    hessenberg sqrt (smul A c) = (hessenberg sqrt A).map (scaleRes c) := by
  unfold hessenberg
  rw [smul_h, smul_w]
  by_cases hsq : A.h ≠ A.w
  · rw [if_pos hsq, if_pos hsq]; rfl
  rw [if_neg hsq, if_neg hsq]
  by_cases h2 : A.h ≤ 2
  · rw [if_pos h2, if_pos h2]; rfl
  rw [if_neg h2, if_neg h2]
  have h := (fold_smul sqrt hs A.h c hc (A.h - 2) (by omega) (A, Mat.ident A.h) rfl
    (not_not.mp hsq).symm).1
  simp only at h
  rw [h]
  rfl

/-- a returned pair of `A` is a returned pair of `A·c` with `H` scaled and the same `Q` -/
theorem hessenberg_smul_ok (sqrt : K → K)
    (hs : ∀ x : K, 0 ≤ x → sqrt x * sqrt x = x ∧ 0 ≤ sqrt x) (A H Q : Mat K) (c : K) (hc : 0 < c)
    (h : hessenberg sqrt A = .ok (H, Q)) : hessenberg sqrt (smul A c) = .ok (smul H c, Q) := by
  rw [hessenberg_smul sqrt hs A c hc, h]; rfl

/-- the error outcome is scale-invariant -/
theorem hessenberg_smul_err (sqrt : K → K)
    (hs : ∀ x : K, 0 ≤ x → sqrt x * sqrt x = x ∧ 0 ≤ sqrt x) (A : Mat K) (c : K) (hc : 0 < c)
    (e : HErr) (h : hessenberg sqrt A = .error e) : hessenberg sqrt (smul A c) = .error e := by
  rw [hessenberg_smul sqrt hs A c hc, h]; rfl

/-- **No absolute skip threshold is compatible with the algorithm.**  If the pass for column `k`
reflects on `h` (its `norm_x ≠ 0`), then for every `θ > 0` there is a positive rescaling of `h` on
which `norm_x < θ` and the pass still reflects, with the same `tau`, and produces the scaled result
with the same update of `q` — so a test such as `norm_x < 1e-12 { continue }` would skip an input
the algorithm handles exactly as it handles `h`. -/
theorem step_smul_below_any_threshold (sqrt : K → K)
    (hs : ∀ x : K, 0 ≤ x → sqrt x * sqrt x = x ∧ 0 ≤ sqrt x)
    (n k : Nat) (hk : k + 1 < n) (s : Mat K × Mat K) (hh : s.1.h = n) (hw : s.1.w = n)
    (hne : (reflOf sqrt n k s.1).norm ≠ 0) (θ : K) (hθ : 0 < θ) :
    ∃ c : K, 0 < c ∧ (reflOf sqrt n k (smul s.1 c)).norm < θ ∧
      (reflOf sqrt n k (smul s.1 c)).norm ≠ 0 ∧
      (reflOf sqrt n k (smul s.1 c)).tau = (reflOf sqrt n k s.1).tau ∧
      step sqrt n k (smul s.1 c, s.2) = scaleRes c (step sqrt n k s) := by
  have hnn : 0 ≤ (reflOf sqrt n k s.1).norm := (hs _ (colNormSq_nonneg n k s.1)).2
  have hpos : 0 < (reflOf sqrt n k s.1).norm := lt_of_le_of_ne hnn (Ne.symm hne)
  have hd : 0 < 2 * (reflOf sqrt n k s.1).norm := by positivity
  have hc : 0 < θ / (2 * (reflOf sqrt n k s.1).norm) := div_pos hθ hd
  obtain ⟨h1, _, _, h4⟩ := reflOf_smul sqrt hs n k hk s.1 hh hw _ hc
  refine ⟨_, hc, ?_, ?_, h4, step_smul sqrt hs n k hk s hh hw _ hc⟩
  · rw [h1, mul_div_assoc', div_lt_iff₀ hd]
    nlinarith
  · rw [h1]
    exact mul_ne_zero hne hc.ne'

/-! ### non-vacuity, evaluated by the kernel over `ℚ`

`sq` is an exact square root on the perfect squares that occur (and `0` elsewhere); the matrix is
chosen so that every `colNormSq` of both runs is one of them. -/

/-- a rational "square root" exact on `0, 25, 225` -/
private def sq (x : Rat) : Rat := if x = 25 then 5 else if x = 225 then 15 else 0

/-- the 3×3 matrix with first column `(1, 3, 4)ᵀ`: one reflecting pass, `norm_x = 5` -/
private def A0 : Mat Rat := ⟨3, 3, #[1, 2, 3, 3, 1, 0, 4, 0, 1]⟩

/-- the run on `A0` reflects: `H[1][0] = -5` (that is `sign·norm_x`), `H[2][0] = 0`, and `Q ≠ I` -/
example : (match hessenberg sq A0 with
    | .ok (H, Q) => H.get 1 0 == -5 && H.get 2 0 == 0 && Q.get 1 1 == -3 / 5 | _ => false) = true := by
  decide +kernel

/-- … and the run on `3·A0` (`norm_x = 15`): `H` is 3 times the `H` of `A0`, `Q` is the same -/
example : (match hessenberg sq (smul A0 3), hessenberg sq A0 with
    | .ok (H', Q'), .ok (H, Q) => H'.a == (smul H 3).a && Q'.a == Q.a && H'.get 1 0 == -15
    | _, _ => false) = true := by
  decide +kernel

/-- the non-square error is kept -/
example : (match hessenberg sq (smul (⟨1, 2, #[1, 2]⟩ : Mat Rat) 3) with
    | .error .nonSquare => true | _ => false) = true := by
  decide +kernel

/-- negative factor, pivot `3 ≠ 0`: `H` of `(-3)·A0` is `-3` times the `H` of `A0`, same `Q`
(an instance of `step_smul_neg`: order 3 has a single pass) -/
example : (match hessenberg sq (smul A0 (-3)), hessenberg sq A0 with
    | .ok (H', Q'), .ok (H, Q) => H'.a == (smul H (-3)).a && Q'.a == Q.a
    | _, _ => false) = true := by
  decide +kernel

/-- negative factor, pivot `= 0` (first column `(1, 0, 5)ᵀ`): the hypothesis of `step_smul_neg`
cannot be dropped — the two runs return different `Q` -/
example : (match hessenberg sq (smul (⟨3, 3, #[1, 2, 3, 0, 1, 0, 5, 0, 1]⟩ : Mat Rat) (-1)),
      hessenberg sq (⟨3, 3, #[1, 2, 3, 0, 1, 0, 5, 0, 1]⟩ : Mat Rat) with
    | .ok (_, Q'), .ok (_, Q) => Q'.a != Q.a && Q.get 1 2 == -1 && Q'.get 1 2 == 1
    | _, _ => false) = true := by
  decide +kernel

/-- the theorem instantiated at `ℝ` with `Real.sqrt` -/
example (A : Mat ℝ) (c : ℝ) (hc : 0 < c) :
    hessenberg Real.sqrt (smul A c) = (hessenberg Real.sqrt A).map (scaleRes c) :=
  hessenberg_smul Real.sqrt (fun x hx => ⟨Real.mul_self_sqrt hx, Real.sqrt_nonneg x⟩) A c hc

end SV.Props.C14Scale
