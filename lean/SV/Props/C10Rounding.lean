import SV.Model.C10
import SV.Lemmas.C10
import SV.Lemmas.Rounding
import SV.Lemmas.RoundingNearest
import SV.Lemmas.RoundingC08
import SV.Props.C08Rounding
/-!
# C10, rounding half — the column solve of `Arr2D::inverse` in floating-point arithmetic

`Arr2D::inverse` factors `P A = L U` and then, for every column `j`, solves `L y = P e_j` by
`forward_substitution` and `U x = y` by `back_substitution` (`SV.C10.column`).  Over a field the
solved column satisfies `L (U x) = P e_j` exactly (`SV.C10.column_solves`).  Here **the same
definition** `SV.C10.column` is run at the rounding scalar `Fl M` and the two backward-error
theorems of `SV.Props.C08Rounding` are composed (Higham, *Accuracy and Stability*, Thm 9.4, second
half): for **given** triangular factors `L`, `U` (the values the factorisation produced, whatever
their own error) with non-zero diagonals, and `m = max(n, 2)`, `m·u < 1`,

    (L + ΔL)(U + ΔU) x = P e_j   exactly,   |ΔL| ≤ γ_m|L|,  |ΔU| ≤ γ_m|U|,

hence `|P e_j − L U x| ≤ (2γ_m + γ_m²)·|L||U||x|` componentwise.  `inverse_column_residual`
transfers this to the columns of the matrix `Arr2D::inverse` returns.

NOT covered: the error of the factorisation itself (`P A − L U`, which involves the growth factor of
partial pivoting) — so this is the residual with respect to `L U`, not `A`; overflow, underflow,
NaN/∞ — see the header of `SV.Lemmas.Rounding`.
-/
namespace SV.Props.C10Rounding
open SV SV.C09 SV.C10 SV.Subst Finset

variable {M : FlModel}

/-- the models elaborate at the rounding scalar with no change -/
noncomputable example (L U P : Mat (Fl M)) (n j : ℕ) : Outcome Empty (Array (Fl M)) :=
  column L U P n j
noncomputable example (eps : Fl M) (A : Mat (Fl M)) : Outcome InvErr (Mat (Fl M)) := inverse eps A

/-- a solved column is the backward sweep of the forward sweep of column `j` of `P` -/
theorem column_ok (L U P : Mat (Fl M)) (n j : ℕ) (x : Array (Fl M))
    (hx : column L U P n j = .ok x) :
    ∃ y, forwardSubst L n (vtab n fun i => P.get i j) (vtab n fun _ => 0) = .ok y ∧
      backSubst U n y (vtab n fun _ => 0) = .ok x := by
  unfold column at hx
  split at hx
  · cases hx
  · dsimp only at hx
    split at hx
    · rename_i y hy
      exact ⟨y, hy, hx⟩
    · rename_i e _
      exact nomatch e
    · cases hx

/-- **Backward error of the column solve.**  `L` lower, `U` upper triangular of order `n`, non-zero
diagonals, `max(n,2)·u < 1`: the computed column `x` solves **exactly** the system with perturbed
factors, `(L + ΔL)(U + ΔU) x = P e_j`, `|ΔL_ik| ≤ γ_m|L_ik|`, `|ΔU_km| ≤ γ_m|U_km|`,
`m = max(n, 2)`. -/
theorem column_backward (L U P : Mat (Fl M)) (n j : ℕ) (x : Array (Fl M))
    (hx : column L U P n j = .ok x)
    (hdL : ∀ i, i < n → (L.get i i).val ≠ 0) (hdU : ∀ i, i < n → (U.get i i).val ≠ 0)
    (htL : ∀ i k, i < n → i < k → k < n → (L.get i k).val = 0)
    (htU : ∀ i k, i < n → k < i → (U.get i k).val = 0)
    (hu : ((max n 2 : ℕ) : ℝ) * M.u < 1) :
    ∃ ΔL ΔU : ℕ → ℕ → ℝ,
      (∀ i k, |ΔL i k| ≤ M.gamma (max n 2) * |(L.get i k).val|) ∧
      (∀ k m, |ΔU k m| ≤ M.gamma (max n 2) * |(U.get k m).val|) ∧
      ∀ i, i < n →
        ∑ k ∈ range n, ((L.get i k).val + ΔL i k)
          * ∑ m ∈ range n, ((U.get k m).val + ΔU k m) * (vget x m).val = (P.get i j).val := by
  obtain ⟨y, hy, hxy⟩ := column_ok L U P n j x hx
  obtain ⟨ΔL, hΔL, _, hrowL⟩ :=
    SV.Props.C08Rounding.forwardSubst_backward L n _ _ y hy hdL htL hu
  obtain ⟨ΔU, hΔU, _, hrowU⟩ :=
    SV.Props.C08Rounding.backSubst_backward U n y _ x hxy hdU htU hu
  refine ⟨ΔL, ΔU, hΔL, hΔU, fun i hi => ?_⟩
  have := hrowL i hi
  rw [vget_vtab _ hi] at this
  rw [← this]
  refine Finset.sum_congr rfl fun k hk => ?_
  rw [hrowU k (by simpa using hk)]

/-- **Componentwise residual of the column solve**:
`|P_ij − Σ_k l_ik Σ_m u_km x_m| ≤ (2γ_m + γ_m²)·Σ_k |l_ik| Σ_m |u_km||x_m|`, `m = max(n, 2)`. -/
theorem column_residual (L U P : Mat (Fl M)) (n j : ℕ) (x : Array (Fl M))
    (hx : column L U P n j = .ok x)
    (hdL : ∀ i, i < n → (L.get i i).val ≠ 0) (hdU : ∀ i, i < n → (U.get i i).val ≠ 0)
    (htL : ∀ i k, i < n → i < k → k < n → (L.get i k).val = 0)
    (htU : ∀ i k, i < n → k < i → (U.get i k).val = 0)
    (hu : ((max n 2 : ℕ) : ℝ) * M.u < 1) :
    ∀ i, i < n →
      |(P.get i j).val
          - ∑ k ∈ range n, (L.get i k).val * ∑ m ∈ range n, (U.get k m).val * (vget x m).val|
        ≤ (2 * M.gamma (max n 2) + M.gamma (max n 2) ^ 2)
          * ∑ k ∈ range n, |(L.get i k).val|
            * ∑ m ∈ range n, |(U.get k m).val| * |(vget x m).val| := by
  obtain ⟨y, hy, hxy⟩ := column_ok L U P n j x hx
  have hrL := SV.Props.C08Rounding.forwardSubst_residual L n _ _ y hy hdL htL hu
  have hrU := SV.Props.C08Rounding.backSubst_residual U n y _ x hxy hdU htU hu
  have hg := M.gamma_nonneg hu
  intro i hi
  set γ := M.gamma (max n 2) with hγ
  have hL := hrL i hi
  rw [vget_vtab _ hi] at hL
  -- `a k = Σ_m |u_km||x_m|`, `s k = Σ_m u_km x_m`
  have hs : ∀ k, |∑ m ∈ range n, (U.get k m).val * (vget x m).val|
      ≤ ∑ m ∈ range n, |(U.get k m).val| * |(vget x m).val| := fun k =>
    (Finset.abs_sum_le_sum_abs _ _).trans (le_of_eq (Finset.sum_congr rfl fun m _ => abs_mul _ _))
  have ha0 : ∀ k, 0 ≤ ∑ m ∈ range n, |(U.get k m).val| * |(vget x m).val| := fun k =>
    Finset.sum_nonneg fun m _ => by positivity
  -- `|y_k| ≤ (1 + γ)·a k`
  have hy' : ∀ k, k < n → |(vget y k).val|
      ≤ (1 + γ) * ∑ m ∈ range n, |(U.get k m).val| * |(vget x m).val| := by
    intro k hk
    have h1 := hrU k hk
    have h2 := hs k
    have h3 := abs_sub_abs_le_abs_sub (vget y k).val
      (∑ m ∈ range n, (U.get k m).val * (vget x m).val)
    linarith
  -- split the residual
  have e : (P.get i j).val
        - ∑ k ∈ range n, (L.get i k).val * ∑ m ∈ range n, (U.get k m).val * (vget x m).val
      = ((P.get i j).val - ∑ k ∈ range n, (L.get i k).val * (vget y k).val)
        + ∑ k ∈ range n, (L.get i k).val
            * ((vget y k).val - ∑ m ∈ range n, (U.get k m).val * (vget x m).val) := by
    simp only [mul_sub, Finset.sum_sub_distrib]
    ring
  rw [e]
  have t1 : |(P.get i j).val - ∑ k ∈ range n, (L.get i k).val * (vget y k).val|
      ≤ γ * ((1 + γ) * ∑ k ∈ range n, |(L.get i k).val|
          * ∑ m ∈ range n, |(U.get k m).val| * |(vget x m).val|) := by
    refine hL.trans (mul_le_mul_of_nonneg_left ?_ hg)
    rw [Finset.mul_sum]
    refine Finset.sum_le_sum fun k hk => ?_
    have := hy' k (by simpa using hk)
    calc |(L.get i k).val| * |(vget y k).val|
        ≤ |(L.get i k).val|
          * ((1 + γ) * ∑ m ∈ range n, |(U.get k m).val| * |(vget x m).val|) :=
          mul_le_mul_of_nonneg_left this (abs_nonneg _)
      _ = _ := by ring
  have t2 : |∑ k ∈ range n, (L.get i k).val
        * ((vget y k).val - ∑ m ∈ range n, (U.get k m).val * (vget x m).val)|
      ≤ γ * ∑ k ∈ range n, |(L.get i k).val|
          * ∑ m ∈ range n, |(U.get k m).val| * |(vget x m).val| := by
    rw [Finset.mul_sum]
    refine (Finset.abs_sum_le_sum_abs _ _).trans (Finset.sum_le_sum fun k hk => ?_)
    rw [abs_mul]
    have := hrU k (by simpa using hk)
    calc |(L.get i k).val|
          * |(vget y k).val - ∑ m ∈ range n, (U.get k m).val * (vget x m).val|
        ≤ |(L.get i k).val|
          * (γ * ∑ m ∈ range n, |(U.get k m).val| * |(vget x m).val|) :=
          mul_le_mul_of_nonneg_left this (abs_nonneg _)
      _ = _ := by ring
  refine (abs_add_le _ _).trans ((add_le_add t1 t2).trans (le_of_eq ?_))
  ring

/-- **The columns of the computed inverse.**  Whenever `Arr2D::inverse` returns `B`, there are the
factors `L, U, P` the factorisation produced, and — provided they are triangular with non-zero
diagonals — every column of `B` satisfies the residual bound of the column solve:
`|P_ij − (L U B)_ij| ≤ (2γ_m + γ_m²)·(|L||U||B|)_ij`, `m = max(n, 2)`. -/
theorem inverse_column_residual (eps : Fl M) (A B : Mat (Fl M)) (h : inverse eps A = .ok B)
    (hu : ((max A.h 2 : ℕ) : ℝ) * M.u < 1) :
    ∃ L U P : Mat (Fl M), plu eps A = .ok (L, U, P) ∧
      ((∀ i, i < A.h → (L.get i i).val ≠ 0) → (∀ i, i < A.h → (U.get i i).val ≠ 0) →
       (∀ i k, i < A.h → i < k → k < A.h → (L.get i k).val = 0) →
       (∀ i k, i < A.h → k < i → (U.get i k).val = 0) →
       ∀ i j, i < A.h → j < A.h →
        |(P.get i j).val - ∑ k ∈ range A.h, (L.get i k).val
            * ∑ m ∈ range A.h, (U.get k m).val * (B.get m j).val|
          ≤ (2 * M.gamma (max A.h 2) + M.gamma (max A.h 2) ^ 2)
            * ∑ k ∈ range A.h, |(L.get i k).val|
              * ∑ m ∈ range A.h, |(U.get k m).val| * |(B.get m j).val|) := by
  obtain ⟨_, _, _, _, L, U, P, hp, hcols⟩ := inverse_ok_columns h
  refine ⟨L, U, P, hp, fun hdL hdU htL htU i j hi hj => ?_⟩
  obtain ⟨x, hx, hB⟩ := hcols j hj
  have := column_residual L U P A.h j x hx hdL hdU htL htU hu i hi
  have e1 : ∀ k, ∑ m ∈ range A.h, (U.get k m).val * (B.get m j).val
      = ∑ m ∈ range A.h, (U.get k m).val * (vget x m).val := fun k =>
    Finset.sum_congr rfl fun m hm => by rw [hB m (by simpa using hm)]
  have e2 : ∀ k, ∑ m ∈ range A.h, |(U.get k m).val| * |(B.get m j).val|
      = ∑ m ∈ range A.h, |(U.get k m).val| * |(vget x m).val| := fun k =>
    Finset.sum_congr rfl fun m hm => by rw [hB m (by simpa using hm)]
  simp only [e1, e2]
  exact this

/-- With exact arithmetic the residual vanishes: `L (U x) = P e_j`
(`SV.C10.column_solves`). -/
theorem column_residual_ideal (L U P : Mat (Fl FlModel.ideal)) (n j : ℕ)
    (x : Array (Fl FlModel.ideal)) (hx : column L U P n j = .ok x)
    (hdL : ∀ i, i < n → (L.get i i).val ≠ 0) (hdU : ∀ i, i < n → (U.get i i).val ≠ 0)
    (htL : ∀ i k, i < n → i < k → k < n → (L.get i k).val = 0)
    (htU : ∀ i k, i < n → k < i → (U.get i k).val = 0) :
    ∀ i, i < n →
      ∑ k ∈ range n, (L.get i k).val * ∑ m ∈ range n, (U.get k m).val * (vget x m).val
        = (P.get i j).val := by
  intro i hi
  have h := column_residual L U P n j x hx hdL hdU htL htU (by simp [FlModel.ideal]) i hi
  have hg : FlModel.ideal.gamma (max n 2) = 0 := by simp [FlModel.gamma, FlModel.ideal]
  rw [hg] at h
  norm_num at h
  exact (sub_eq_zero.mp h).symm

/-- **binary64, numerically**: `2γ_m + γ_m² ≤ 3·m·2⁻⁵²` for `m = max(n,2) ≤ 2⁵²`. -/
theorem column_residual_binary64 (L U P : Mat (Fl FlModel.binary64)) (n j : ℕ)
    (x : Array (Fl FlModel.binary64)) (hx : column L U P n j = .ok x)
    (hdL : ∀ i, i < n → (L.get i i).val ≠ 0) (hdU : ∀ i, i < n → (U.get i i).val ≠ 0)
    (htL : ∀ i k, i < n → i < k → k < n → (L.get i k).val = 0)
    (htU : ∀ i k, i < n → k < i → (U.get i k).val = 0) (hn : n ≤ 2 ^ 52) :
    ∀ i, i < n →
      |(P.get i j).val
          - ∑ k ∈ range n, (L.get i k).val * ∑ m ∈ range n, (U.get k m).val * (vget x m).val|
        ≤ 3 * ((max n 2 : ℕ) : ℝ) * (2⁻¹ : ℝ) ^ 52
          * ∑ k ∈ range n, |(L.get i k).val|
            * ∑ m ∈ range n, |(U.get k m).val| * |(vget x m).val| := by
  intro i hi
  obtain ⟨hu, hg⟩ := FlModel.binary64_gamma_le (n := max n 2) (max_le hn (by norm_num))
  have hg0 := FlModel.binary64.gamma_nonneg hu
  have hle1 : ((max n 2 : ℕ) : ℝ) * (2⁻¹ : ℝ) ^ 52 ≤ 1 := by
    have h1 : ((max n 2 : ℕ) : ℝ) ≤ 2 ^ 52 := by
      exact_mod_cast (max_le hn (by norm_num) : max n 2 ≤ 2 ^ 52)
    calc ((max n 2 : ℕ) : ℝ) * (2⁻¹ : ℝ) ^ 52 ≤ 2 ^ 52 * (2⁻¹ : ℝ) ^ 52 :=
          mul_le_mul_of_nonneg_right h1 (by positivity)
      _ = 1 := by norm_num
  refine (column_residual L U P n j x hx hdL hdU htL htU hu i hi).trans
    (mul_le_mul_of_nonneg_right ?_ (Finset.sum_nonneg fun k _ =>
      mul_nonneg (abs_nonneg _) (Finset.sum_nonneg fun m _ => by positivity)))
  nlinarith

/-! ## non-vacuity -/

/-- the hypotheses are satisfiable in a model with `u > 0` whose rounding is not the identity, and
there the column solve really leaves a residual: `L = [[1,0],[1,1]]`, `U = [[1,1],[0,1]]`, `P = I`,
column 0, `rnd t = t·(1 + 1/16)` (`u = 1/8`) -/
example : ∃ (M : FlModel) (L U P : Mat (Fl M)) (x : Array (Fl M)), 0 < M.u ∧
    column L U P 2 0 = .ok x ∧
    (∀ i, i < 2 → (L.get i i).val ≠ 0) ∧ (∀ i, i < 2 → (U.get i i).val ≠ 0) ∧
    (∀ i k, i < 2 → i < k → k < 2 → (L.get i k).val = 0) ∧
    (∀ i k, i < 2 → k < i → (U.get i k).val = 0) ∧ ((max 2 2 : ℕ) : ℝ) * M.u < 1 ∧
    ∑ k ∈ range 2, (L.get 1 k).val * ∑ m ∈ range 2, (U.get k m).val * (vget x m).val
      ≠ (P.get 1 0).val := by
  have h8 : (0 : ℝ) ≤ 1 / 8 ∧ (1 / 8 : ℝ) < 1 := by norm_num
  refine ⟨FlModel.skew (1 / 8) h8, ⟨2, 2, #[1, 0, 1, 1]⟩, ⟨2, 2, #[1, 1, 0, 1]⟩,
    ⟨2, 2, #[1, 0, 0, 1]⟩, _, by norm_num [FlModel.skew], rfl, ?_, ?_, ?_, ?_,
    by norm_num [FlModel.skew], ?_⟩
  · intro i hi
    have : i = 0 ∨ i = 1 := by omega
    rcases this with rfl | rfl <;> simp [Mat.get]
  · intro i hi
    have : i = 0 ∨ i = 1 := by omega
    rcases this with rfl | rfl <;> simp [Mat.get]
  · intro i k hi hik hk
    have : i = 0 ∧ k = 1 := by omega
    obtain ⟨rfl, rfl⟩ := this
    simp [Mat.get]
  · intro i k hi hki
    have : i = 1 ∧ k = 0 := by omega
    obtain ⟨rfl, rfl⟩ := this
    simp [Mat.get]
  · norm_num [backCore, backLoop, backStep, fwdCore, fwdStep, vget, vtab, Mat.get, sumFrom,
      List.range', List.range, List.range.loop, FlModel.skew, Finset.sum_range_succ]

end SV.Props.C10Rounding
