import SV.Model.C02
import SV.Lemmas.C17
/-!
Lemmas for the print / parse round trips of C17, part 4: a grammar for the multivariate parser model
`SV.C02.parse` (`parse_intermediate_polynomial`), restricted to what the printers produce — plain
decimal coefficients, single ASCII-letter variables, optional signed plain-decimal exponents (no
fractions) — and the theorem that every text whose white-space-free form is a rendering of that
grammar is accepted and read as its terms say (`parse_renderI`).

Abstract syntax: `ITermSyn = (neg, coef?, vars)`, `VarSyn = (letter, exponent?)`, `renderI`.
-/
namespace SV.C17
open SV SV.Text SV.C01 SV.C02

/-! ### character facts -/

/-- what the multivariate proofs need of the classification beyond `Sane`: ASCII digits are numeric,
ASCII letters are neither numeric nor white space (true of Rust's `char::is_numeric`/`is_whitespace`) -/
structure NumSane (cc : CharClass) : Prop where
  digit_numeric : ∀ c, isAsciiDigit c = true → cc.isNumeric c = true
  letter_not_numeric : ∀ c, isAsciiLetter c = true → cc.isNumeric c = false
  letter_not_ws : ∀ c, isAsciiLetter c = true → cc.isWs c = false

theorem letter_not_digit {c : Char} (h : isAsciiLetter c = true) : isAsciiDigit c = false := by
  cases hd : isAsciiDigit c with
  | false => rfl
  | true =>
    have h1 := (isAsciiLetter_iff c).1 h
    have h2 := (isAsciiDigit_iff c).1 hd
    omega

theorem letter_ne_dot {c : Char} (h : isAsciiLetter c = true) : c ≠ '.' := by
  rintro rfl; revert h; decide
theorem letter_ne_slash {c : Char} (h : isAsciiLetter c = true) : c ≠ '/' := by
  rintro rfl; revert h; decide
theorem letter_ne_dash {c : Char} (h : isAsciiLetter c = true) : c ≠ '-' := by
  rintro rfl; revert h; decide
theorem letter_ne_caret {c : Char} (h : isAsciiLetter c = true) : c ≠ '^' := by
  rintro rfl; revert h; decide
theorem letter_ne_plus {c : Char} (h : isAsciiLetter c = true) : c ≠ '+' := by
  rintro rfl; revert h; decide

theorem stdClass_numSane : NumSane stdClass where
  digit_numeric c h := by simp [stdClass, h]
  letter_not_numeric c h := by
    have hd := letter_not_digit h
    have ht : tableNumeric.contains c = false := by
      cases ht : tableNumeric.contains c with
      | false => rfl
      | true =>
        simp only [tableNumeric, List.contains_eq_mem, List.mem_cons, List.not_mem_nil, or_false,
          decide_eq_true_eq] at ht
        rcases ht with rfl | rfl | rfl <;> revert h <;> decide
    show (isAsciiDigit c || tableNumeric.contains c) = false
    rw [hd, ht]; rfl
  letter_not_ws c h := by
    have h1 := (isAsciiLetter_iff c).1 h
    cases hw : stdClass.isWs c with
    | false => rfl
    | true => have := stdClass_isWs c hw; omega

/-! ### abstract syntax -/

/-- a variable with an optional exponent `^[-]digits[.digits]` -/
structure VarSyn where
  name : Char
  exp : Option (Bool × UDec)

/-- one signed term `[coefficient]{variable[^exponent]}` -/
structure ITermSyn where
  neg : Bool
  coef : Option UDec
  vars : List VarSyn

def signText (neg : Bool) : List Char := if neg then ['-'] else []

def VarSyn.expText (x : VarSyn) : List Char :=
  match x.exp with
  | none => []
  | some (n, u) => '^' :: (signText n ++ u.render)

def VarSyn.render (x : VarSyn) : List Char := x.name :: x.expText

def varsText (vs : List VarSyn) : List Char := vs.flatMap VarSyn.render

/-- the term without its sign -/
def ITermSyn.renderAbs (t : ITermSyn) : List Char := renderCoef t.coef ++ varsText t.vars

/-- the piece of the normalised text that belongs to the term -/
def ITermSyn.renderPart (t : ITermSyn) : List Char := signText t.neg ++ t.renderAbs

/-- the polynomial text without white space: first term with `-` if negative, later terms with their
operator -/
def renderI : List ITermSyn → List Char
  | [] => []
  | t :: ts => t.renderPart ++ ts.flatMap fun t => (if t.neg then '-' else '+') :: t.renderAbs

structure VarSyn.WF (x : VarSyn) : Prop where
  letter : isAsciiLetter x.name = true
  exp_wf : ∀ n u, x.exp = some (n, u) → u.WF

structure ITermSyn.WF (t : ITermSyn) : Prop where
  coef_wf : ∀ u, t.coef = some u → u.WF
  vars_wf : ∀ x ∈ t.vars, x.WF
  nonempty : t.coef ≠ none ∨ t.vars ≠ []

/-- the exponent the parser computes for the variable (an omitted exponent is 1) -/
def VarSyn.num (x : VarSyn) : Num :=
  match x.exp with
  | none => Num.one
  | some (n, u) => .dec ⟨n, u.mant, u.fp.length⟩

/-- the coefficient the parser computes for the term (an omitted coefficient is ±1) -/
def ITermSyn.num (t : ITermSyn) : Num :=
  match t.coef with
  | none => if t.neg then Num.negOne else Num.one
  | some u => .dec ⟨t.neg, u.mant, u.fp.length⟩

/-- the variable list the parser builds: exponents of a repeated letter are added to its first
occurrence, then a stable sort by name -/
def readVars (vs : List VarSyn) : List (String × Num) :=
  (vs.foldl (fun acc x => addVar acc (String.singleton x.name) x.num) []).mergeSort
    (fun a b => a.1 ≤ b.1)

/-- the term the parser returns -/
def ITermSyn.read (t : ITermSyn) : ITerm := ⟨t.num, readVars t.vars⟩

/-! ### the characters of a rendering -/

/-- a text that is empty or starts with an ASCII letter: where the number scanners stop -/
def Stops (s : List Char) : Prop := s = [] ∨ ∃ c r, s = c :: r ∧ isAsciiLetter c = true

theorem varsText_stops {vs : List VarSyn} (h : ∀ x ∈ vs, x.WF) : Stops (varsText vs) := by
  cases vs with
  | nil => exact Or.inl rfl
  | cons x xs =>
    exact Or.inr ⟨x.name, x.expText ++ varsText xs, by simp [varsText, VarSyn.render],
      (h x (by simp)).letter⟩

/-- characters of a number: ASCII digit or `.` -/
def NumChar (c : Char) : Prop := isAsciiDigit c = true ∨ c = '.'

/-- characters of a term without its sign -/
def IPlain (c : Char) : Prop := isAsciiDigit c = true ∨ c = '.' ∨ c = '^' ∨ c = '-' ∨ isAsciiLetter c = true

theorem mem_signText {n : Bool} {c : Char} (h : c ∈ signText n) : c = '-' := by
  cases n <;> simp [signText] at h
  exact h

theorem mem_expText {x : VarSyn} (hx : x.WF) {c : Char} (h : c ∈ x.expText) :
    isAsciiDigit c = true ∨ c = '.' ∨ c = '^' ∨ c = '-' := by
  unfold VarSyn.expText at h
  rcases he : x.exp with _ | ⟨n, u⟩
  · rw [he] at h; simp at h
  · rw [he] at h
    simp only [List.mem_cons, List.mem_append] at h
    rcases h with h | h | h
    · exact Or.inr (Or.inr (Or.inl h))
    · exact Or.inr (Or.inr (Or.inr (mem_signText h)))
    · rcases UDec.mem_render (hx.exp_wf n u he) h with h | h
      · exact Or.inl h
      · exact Or.inr (Or.inl h)

theorem mem_varsText {vs : List VarSyn} (h : ∀ x ∈ vs, x.WF) {c : Char} (hc : c ∈ varsText vs) :
    IPlain c := by
  simp only [varsText, List.mem_flatMap, VarSyn.render, List.mem_cons] at hc
  obtain ⟨x, hx, hc⟩ := hc
  rcases hc with rfl | hc
  · exact Or.inr (Or.inr (Or.inr (Or.inr (h x hx).letter)))
  · rcases mem_expText (h x hx) hc with h | h | h | h
    · exact Or.inl h
    · exact Or.inr (Or.inl h)
    · exact Or.inr (Or.inr (Or.inl h))
    · exact Or.inr (Or.inr (Or.inr (Or.inl h)))

theorem mem_renderAbsI {t : ITermSyn} (ht : t.WF) {c : Char} (hc : c ∈ t.renderAbs) : IPlain c := by
  unfold ITermSyn.renderAbs at hc
  rcases List.mem_append.1 hc with h | h
  · rcases mem_renderCoef ht.coef_wf h with h | h
    · exact Or.inl h
    · exact Or.inr (Or.inl h)
  · exact mem_varsText ht.vars_wf h

theorem IPlain.ne_plus {c : Char} (h : IPlain c) : c ≠ '+' := by
  rcases h with h | rfl | rfl | rfl | h
  · exact digit_ne_plus h
  · decide
  · decide
  · decide
  · exact letter_ne_plus h

theorem IPlain.not_ws {cc : CharClass} (hcc : cc.Sane) (hn : NumSane cc) {c : Char} (h : IPlain c) :
    cc.isWs c = false := by
  rcases h with h | rfl | rfl | rfl | h
  · exact hcc.digit_not_ws c h
  · exact hcc.sym_not_ws.1
  · exact hcc.sym_not_ws.2.2.2
  · exact hcc.sym_not_ws.2.2.1
  · exact hn.letter_not_ws c h

theorem renderAbsI_ne_nil {t : ITermSyn} (ht : t.WF) : t.renderAbs ≠ [] := by
  unfold ITermSyn.renderAbs
  rcases ht.nonempty with h | h
  · rcases hc : t.coef with _ | u
    · exact absurd hc h
    · have := UDec.render_ne_nil (ht.coef_wf u hc)
      simp [renderCoef, this]
  · rcases hv : t.vars with _ | ⟨x, xs⟩
    · exact absurd hv h
    · simp [varsText, VarSyn.render]

theorem plus_not_mem_renderAbsI {t : ITermSyn} (ht : t.WF) : '+' ∉ t.renderAbs :=
  fun h => (mem_renderAbsI ht h).ne_plus rfl

theorem plus_not_mem_renderPartI {t : ITermSyn} (ht : t.WF) : '+' ∉ t.renderPart := by
  unfold ITermSyn.renderPart
  intro h
  rcases List.mem_append.1 h with h | h
  · have := mem_signText h; revert this; decide
  · exact plus_not_mem_renderAbsI ht h

theorem renderPartI_ne_nil {t : ITermSyn} (ht : t.WF) : t.renderPart ≠ [] := by
  unfold ITermSyn.renderPart
  simp [renderAbsI_ne_nil ht]

theorem renderPartI_ne_dash {t : ITermSyn} (ht : t.WF) : t.renderPart ≠ ['-'] := by
  unfold ITermSyn.renderPart signText
  have hne := renderAbsI_ne_nil ht
  cases t.neg with
  | true =>
    simp only [if_true, List.cons_append, List.nil_append, ne_eq, List.cons.injEq, true_and]
    exact hne
  | false =>
    simp only [Bool.false_eq_true, if_false, List.nil_append]
    -- a term without sign does not start with `-`
    intro h
    unfold ITermSyn.renderAbs at h
    rcases hc : t.coef with _ | u
    · rw [hc] at h
      simp only [renderCoef, List.nil_append] at h
      rcases varsText_stops ht.vars_wf with h0 | ⟨c, r, hcr, hl⟩
      · rw [h0] at h; simp at h
      · rw [hcr] at h
        simp only [List.cons.injEq] at h
        exact letter_ne_dash hl h.1
    · rw [hc] at h
      simp only [renderCoef] at h
      have hmem : '-' ∈ u.render := by
        have : '-' ∈ u.render ++ varsText t.vars := by rw [h]; simp
        rcases List.mem_append.1 this with h1 | h1
        · exact h1
        · exfalso
          have hr : u.render ≠ [] := UDec.render_ne_nil (ht.coef_wf u hc)
          rcases hur : u.render with _ | ⟨d, ds⟩
          · exact hr hur
          · rw [hur] at h; simp at h
            rw [h.2.2] at h1; simp at h1
      rcases UDec.mem_render (ht.coef_wf u hc) hmem with h1 | h1
      · exact digit_ne_dash h1 rfl
      · revert h1; decide

/-! ### `protectDash` -/

theorem pd_cons_ne {c : Char} (hc : c ≠ '-') (prev : Option Char) (cs : List Char) :
    protectDash prev (c :: cs) = c :: protectDash (some c) cs := by
  simp [protectDash, hc]

theorem pd_caret_dash (cs : List Char) :
    protectDash (some '^') ('-' :: cs) = '-' :: protectDash (some '-') cs := by
  simp [protectDash]

theorem pd_dash {prev : Option Char} (hp : prev ≠ some '^') (cs : List Char) :
    protectDash prev ('-' :: cs) = '+' :: '-' :: protectDash (some '-') cs := by
  simp [protectDash, hp]

/-- the character before the text that follows `a` -/
def lastOr : Option Char → List Char → Option Char
  | prev, [] => prev
  | _, c :: cs => lastOr (some c) cs

theorem pd_append (prev : Option Char) (a b : List Char) :
    protectDash prev (a ++ b) = protectDash prev a ++ protectDash (lastOr prev a) b := by
  induction a generalizing prev with
  | nil => rfl
  | cons c cs ih =>
    simp only [List.cons_append, protectDash, lastOr]
    split <;> simp [ih]

theorem lastOr_append (prev : Option Char) (a b : List Char) :
    lastOr prev (a ++ b) = lastOr (lastOr prev a) b := by
  induction a generalizing prev with
  | nil => rfl
  | cons c cs ih => simp only [List.cons_append, lastOr, ih]

theorem lastOr_mem {b : List Char} (hb : b ≠ []) (prev : Option Char) :
    ∃ c ∈ b, lastOr prev b = some c := by
  induction b generalizing prev with
  | nil => exact absurd rfl hb
  | cons c cs ih =>
    cases cs with
    | nil => exact ⟨c, by simp, rfl⟩
    | cons d ds =>
      obtain ⟨e, he, hl⟩ := ih (by simp) (some c)
      exact ⟨e, List.mem_cons_of_mem _ he, hl⟩

/-- the text is left alone whatever precedes it -/
def Stable (a : List Char) : Prop := ∀ prev, protectDash prev a = a

/-- the text does not make the next character follow a `^` -/
def NoCaretEnd (a : List Char) : Prop := ∀ prev, prev ≠ some '^' → lastOr prev a ≠ some '^'

theorem Stable.append {a b : List Char} (ha : Stable a) (hb : Stable b) : Stable (a ++ b) := by
  intro prev; rw [pd_append, ha, hb]

theorem NoCaretEnd.append {a b : List Char} (ha : NoCaretEnd a) (hb : NoCaretEnd b) :
    NoCaretEnd (a ++ b) := by
  intro prev hp; rw [lastOr_append]; exact hb _ (ha prev hp)

theorem stable_nil : Stable [] := fun _ => rfl
theorem noCaretEnd_nil : NoCaretEnd [] := fun _ hp => hp

theorem stable_of_no_dash {a : List Char} (h : '-' ∉ a) : Stable a := by
  induction a with
  | nil => exact stable_nil
  | cons c cs ih =>
    intro prev
    have hc : c ≠ '-' := by intro e; apply h; simp [e]
    have hcs : '-' ∉ cs := by intro e; apply h; simp [e]
    rw [pd_cons_ne hc, ih hcs]

theorem noCaretEnd_of_no_caret {a : List Char} (h : '^' ∉ a) : NoCaretEnd a := by
  intro prev hp
  by_cases ha : a = []
  · subst ha; exact hp
  · obtain ⟨c, hc, hl⟩ := lastOr_mem ha prev
    rw [hl]
    intro e
    simp only [Option.some.injEq] at e
    exact h (e ▸ hc)

/-- a non-empty text without `^` does not end in `^`, whatever precedes it -/
theorem lastOr_ne_caret {b : List Char} (hb : b ≠ []) (h : '^' ∉ b) (prev : Option Char) :
    lastOr prev b ≠ some '^' := by
  obtain ⟨c, hc, hl⟩ := lastOr_mem hb prev
  rw [hl]
  intro e
  simp only [Option.some.injEq] at e
  exact h (e ▸ hc)

theorem dash_not_mem_render {u : UDec} (hu : u.WF) : '-' ∉ u.render := by
  intro h
  rcases UDec.mem_render hu h with h | h
  · exact digit_ne_dash h rfl
  · revert h; decide

theorem caret_not_mem_render {u : UDec} (hu : u.WF) : '^' ∉ u.render := by
  intro h
  rcases UDec.mem_render hu h with h | h
  · exact digit_ne_caret h rfl
  · revert h; decide

theorem slash_not_mem_render {u : UDec} (hu : u.WF) : '/' ∉ u.render := by
  intro h
  rcases UDec.mem_render hu h with h | h
  · revert h; rw [isAsciiDigit_iff]; decide
  · revert h; decide

theorem VarSyn.stable {x : VarSyn} (hx : x.WF) : Stable x.render ∧ NoCaretEnd x.render := by
  unfold VarSyn.render VarSyn.expText
  have hl := letter_ne_dash hx.letter
  have hc := letter_ne_caret hx.letter
  rcases he : x.exp with _ | ⟨n, u⟩
  · simp only
    exact ⟨stable_of_no_dash (by simp [hl.symm]), noCaretEnd_of_no_caret (by simp [hc.symm])⟩
  · simp only
    have hu := hx.exp_wf n u he
    have hne := UDec.render_ne_nil hu
    constructor
    · intro prev
      rw [pd_cons_ne hl, pd_cons_ne (by decide)]
      cases n with
      | true =>
        simp only [signText, if_true, List.cons_append, List.nil_append]
        rw [pd_caret_dash, stable_of_no_dash (dash_not_mem_render hu)]
      | false =>
        simp only [signText, Bool.false_eq_true, if_false, List.nil_append]
        rw [stable_of_no_dash (dash_not_mem_render hu)]
    · intro prev _
      have e : x.name :: '^' :: (signText n ++ u.render) = (x.name :: '^' :: signText n) ++ u.render := by
        simp
      rw [e, lastOr_append]
      exact lastOr_ne_caret hne (caret_not_mem_render hu) _

theorem varsText_stable {vs : List VarSyn} (h : ∀ x ∈ vs, x.WF) :
    Stable (varsText vs) ∧ NoCaretEnd (varsText vs) := by
  induction vs with
  | nil => exact ⟨stable_nil, noCaretEnd_nil⟩
  | cons x xs ih =>
    have hx := VarSyn.stable (h x (by simp))
    have hxs := ih fun y hy => h y (by simp [hy])
    simp only [varsText, List.flatMap_cons]
    exact ⟨hx.1.append hxs.1, hx.2.append hxs.2⟩

theorem renderAbsI_stable {t : ITermSyn} (ht : t.WF) : Stable t.renderAbs ∧ NoCaretEnd t.renderAbs := by
  unfold ITermSyn.renderAbs
  have hv := varsText_stable ht.vars_wf
  rcases hc : t.coef with _ | u
  · simpa [renderCoef] using hv
  · have hu := ht.coef_wf u hc
    simp only [renderCoef]
    exact ⟨(stable_of_no_dash (dash_not_mem_render hu)).append hv.1,
      (noCaretEnd_of_no_caret (caret_not_mem_render hu)).append hv.2⟩

def IWellFormed (ts : List ITermSyn) : Prop := ∀ t ∈ ts, t.WF

theorem renderPartI_neg {t : ITermSyn} (h : t.neg = true) : t.renderPart = '-' :: t.renderAbs := by
  simp [ITermSyn.renderPart, signText, h]

theorem renderPartI_pos {t : ITermSyn} (h : t.neg = false) : t.renderPart = t.renderAbs := by
  simp [ITermSyn.renderPart, signText, h]

/-- the later terms after `protectDash`: each part preceded by `+` -/
theorem pd_tail (ts : List ITermSyn) (hts : IWellFormed ts) {prev : Option Char}
    (hp : prev ≠ some '^') :
    protectDash prev (ts.flatMap fun t => (if t.neg then '-' else '+') :: t.renderAbs) =
      ts.flatMap fun t => '+' :: t.renderPart := by
  induction ts generalizing prev with
  | nil => rfl
  | cons t ts ih =>
    have ht : t.WF := hts t (by simp)
    have hts' : IWellFormed ts := fun t' h' => hts t' (by simp [h'])
    have hst := renderAbsI_stable ht
    rw [List.flatMap_cons, List.flatMap_cons]
    cases hn : t.neg with
    | true =>
      rw [renderPartI_neg hn]
      simp only [if_true, List.cons_append]
      rw [pd_dash hp, pd_append, hst.1, ih hts' (hst.2 _ (by decide))]
    | false =>
      rw [renderPartI_pos hn]
      simp only [Bool.false_eq_true, if_false, List.cons_append]
      rw [pd_cons_ne (by decide), pd_append, hst.1, ih hts' (hst.2 _ (by decide))]

/-- the normalised text of a rendering: the parts, each preceded by `+` (the first one only if it is
negative) -/
theorem normalize_renderI (t : ITermSyn) (ts : List ITermSyn) (hts : IWellFormed (t :: ts)) :
    protectDash none (renderI (t :: ts)) =
      (if t.neg then ['+'] else []) ++ t.renderPart ++ ts.flatMap fun t => '+' :: t.renderPart := by
  have ht : t.WF := hts t (by simp)
  have hts' : IWellFormed ts := fun t' h' => hts t' (by simp [h'])
  have hst := renderAbsI_stable ht
  cases hn : t.neg with
  | true =>
    simp only [renderI, renderPartI_neg hn, if_true, List.cons_append, List.nil_append]
    rw [pd_dash (by simp), pd_append, hst.1, pd_tail ts hts' (hst.2 _ (by decide))]
  | false =>
    simp only [renderI, renderPartI_pos hn, Bool.false_eq_true, if_false, List.nil_append]
    rw [pd_append, hst.1, pd_tail ts hts' (hst.2 _ (by simp))]

theorem parts_renderI (ts : List ITermSyn) (hts : IWellFormed ts) :
    C02.parts (protectDash none (renderI ts)) = ts.map ITermSyn.renderPart := by
  cases ts with
  | nil => rfl
  | cons t ts =>
    have ht : t.WF := hts t (by simp)
    have hts' : IWellFormed ts := fun t' h' => hts t' (by simp [h'])
    have hq : '+' ∉ t.renderPart := plus_not_mem_renderPartI ht
    have hqs : ∀ r ∈ ts.map ITermSyn.renderPart, '+' ∉ r := by
      intro r hr
      obtain ⟨t', ht', rfl⟩ := List.mem_map.1 hr
      exact plus_not_mem_renderPartI (hts' t' ht')
    have hsplit := splitOn_join (sep := '+') t.renderPart (ts.map ITermSyn.renderPart) hq hqs
    rw [List.flatMap_map] at hsplit
    rw [normalize_renderI t ts hts]
    unfold C02.parts
    cases hn : t.neg with
    | true =>
      rw [if_pos rfl, List.append_assoc, List.singleton_append, splitOn, if_pos rfl, hsplit]
      rfl
    | false =>
      rw [if_neg (by simp), List.nil_append, hsplit]
      have hne := renderPartI_ne_nil ht
      rcases hrp : t.renderPart with _ | ⟨c, r⟩
      · exact absurd hrp hne
      · rw [List.map_cons, hrp]

theorem parts_renderI_ok (ts : List ITermSyn) (hts : IWellFormed ts) :
    (ts.map ITermSyn.renderPart).any (fun p => decide (p = [] ∨ p = ['-'])) = false := by
  rw [List.any_eq_false]
  intro p hp
  obtain ⟨t, ht, rfl⟩ := List.mem_map.1 hp
  simp [renderPartI_ne_nil (hts t ht), renderPartI_ne_dash (hts t ht)]

/-! ### the coefficient scan -/

theorem scanCoeff_stops (cc : CharClass) (hn : NumSane cc) (first : Bool) {s : List Char}
    (hs : Stops s) : scanCoeff cc first s = ([], s) := by
  rcases hs with rfl | ⟨c, r, rfl, hl⟩
  · rfl
  · unfold scanCoeff
    rw [if_neg]
    simp only [hn.letter_not_numeric c hl, letter_ne_dot hl, letter_ne_dash hl, letter_ne_slash hl]
    simp

theorem scanCoeff_take (cc : CharClass) (first : Bool) (c : Char) (cs : List Char)
    (h : cc.isNumeric c = true ∨ c = '.' ∨ (first = true ∧ c = '-') ∨ c = '/') :
    scanCoeff cc first (c :: cs) = (c :: (scanCoeff cc false cs).1, (scanCoeff cc false cs).2) := by
  rw [scanCoeff, if_pos h]

/-- digits and points are taken, up to where the variables start -/
theorem scanCoeff_number (cc : CharClass) (hn : NumSane cc) (first : Bool) {ds s : List Char}
    (hds : ∀ c ∈ ds, isAsciiDigit c = true ∨ c = '.') (hs : Stops s) :
    scanCoeff cc first (ds ++ s) = (ds, s) := by
  induction ds generalizing first with
  | nil => exact scanCoeff_stops cc hn first hs
  | cons d ds ih =>
    have hd : cc.isNumeric d = true ∨ d = '.' ∨ (first = true ∧ d = '-') ∨ d = '/' := by
      rcases hds d (by simp) with h | h
      · exact Or.inl (hn.digit_numeric d h)
      · exact Or.inr (Or.inl h)
    rw [List.cons_append, scanCoeff_take cc first d _ hd,
      ih false fun c hc => hds c (by simp [hc])]

/-- the coefficient scan on a part: sign and number, then the variables -/
theorem scanCoeff_part (cc : CharClass) (hn : NumSane cc) {t : ITermSyn} (ht : t.WF) :
    scanCoeff cc true t.renderPart = (signText t.neg ++ renderCoef t.coef, varsText t.vars) := by
  have hs := varsText_stops ht.vars_wf
  have hds : ∀ c ∈ renderCoef t.coef, isAsciiDigit c = true ∨ c = '.' :=
    fun c hc => mem_renderCoef ht.coef_wf hc
  unfold ITermSyn.renderPart ITermSyn.renderAbs signText
  cases t.neg with
  | true =>
    simp only [if_true, List.cons_append, List.nil_append]
    rw [scanCoeff_take cc true '-' _ (Or.inr (Or.inr (Or.inl ⟨rfl, rfl⟩))),
      scanCoeff_number cc hn false hds hs]
  | false =>
    simp only [Bool.false_eq_true, if_false, List.nil_append]
    exact scanCoeff_number cc hn true hds hs

theorem contains_slash_false {s : List Char} (h : '/' ∉ s) : s.contains '/' = false := by
  simpa [List.contains_eq_mem] using h

theorem coeffValue_part {t : ITermSyn} (ht : t.WF) :
    coeffValue (signText t.neg ++ renderCoef t.coef) = .ok t.num := by
  unfold ITermSyn.num
  rcases hc : t.coef with _ | u
  · cases t.neg <;> simp [coeffValue, signText, renderCoef]
  · have hu := ht.coef_wf u hc
    have hne := UDec.render_ne_nil hu
    have h1 : signText t.neg ++ u.render ≠ [] := by simp [hne]
    have h2 : signText t.neg ++ u.render ≠ ['-'] := by
      cases t.neg with
      | true => simp [signText, hne]
      | false =>
        simp only [signText, Bool.false_eq_true, if_false, List.nil_append]
        intro h
        exact dash_not_mem_render hu (by rw [h]; simp)
    have h3 : (signText t.neg ++ u.render).contains '/' = false := by
      apply contains_slash_false
      intro h
      rcases List.mem_append.1 h with h | h
      · have := mem_signText h; revert this; decide
      · exact slash_not_mem_render hu h
    simp only [renderCoef]
    unfold coeffValue
    rw [if_neg h1, if_neg h2, h3]
    simp only [Bool.false_eq_true, if_false]
    have := parseSignedDec_render hu t.neg
    unfold signText
    rw [this]

/-! ### the variable loop -/

theorem scanExp_take (c : Char) (cs : List Char)
    (h : isAsciiDigit c = true ∨ c = '.' ∨ c = '/' ∨ c = '-') :
    scanExp (c :: cs) = (c :: (scanExp cs).1, (scanExp cs).2) := by
  rw [scanExp, if_pos h]

theorem scanExp_stops {s : List Char} (hs : Stops s) : scanExp s = ([], s) := by
  rcases hs with rfl | ⟨c, r, rfl, hl⟩
  · rfl
  · unfold scanExp
    rw [if_neg]
    simp only [letter_not_digit hl, letter_ne_dot hl, letter_ne_dash hl, letter_ne_slash hl]
    simp

theorem scanExp_number {e s : List Char}
    (he : ∀ c ∈ e, isAsciiDigit c = true ∨ c = '.' ∨ c = '/' ∨ c = '-') (hs : Stops s) :
    scanExp (e ++ s) = (e, s) := by
  induction e with
  | nil => exact scanExp_stops hs
  | cons d ds ih =>
    rw [List.cons_append, scanExp_take d _ (he d (by simp)), ih fun c hc => he c (by simp [hc])]

theorem expValue_number {u : UDec} (hu : u.WF) (n : Bool) :
    expValue (signText n ++ u.render) = .ok (.dec ⟨n, u.mant, u.fp.length⟩) := by
  have h3 : (signText n ++ u.render).contains '/' = false := by
    apply contains_slash_false
    intro h
    rcases List.mem_append.1 h with h | h
    · have := mem_signText h; revert this; decide
    · exact slash_not_mem_render hu h
  unfold expValue
  rw [h3]
  simp only [Bool.false_eq_true, if_false]
  have := parseSignedDec_render hu n
  unfold signText
  rw [this]

theorem scanVars_nil (fuel : Nat) (acc : List (String × Num)) : scanVars fuel [] acc = .ok acc := by
  cases fuel <;> rfl

theorem scanVars_plain (fuel : Nat) {c : Char} (hc : isAsciiLetter c = true) {cs : List Char}
    (hcs : Stops cs) (acc : List (String × Num)) :
    scanVars (fuel + 1) (c :: cs) acc = scanVars fuel cs (addVar acc (String.singleton c) Num.one) := by
  rw [scanVars, if_pos hc]
  intro rest heq
  rcases hcs with rfl | ⟨d, r, rfl, hl⟩
  · simp at heq
  · simp only [List.cons.injEq] at heq
    exact letter_ne_caret hl heq.1

theorem scanVars_exp (fuel : Nat) {c : Char} (hc : isAsciiLetter c = true) (rest : List Char)
    (acc : List (String × Num)) :
    scanVars (fuel + 1) (c :: '^' :: rest) acc =
      match expValue (scanExp rest).1 with
      | .error e => .error e
      | .ok p => scanVars fuel (scanExp rest).2 (addVar acc (String.singleton c) p) := by
  rw [scanVars, if_pos hc]
  generalize scanExp rest = q
  rcases q with ⟨a, b⟩
  rfl

theorem varsText_cons (x : VarSyn) (xs : List VarSyn) :
    varsText (x :: xs) = x.name :: (x.expText ++ varsText xs) := by
  simp [varsText, VarSyn.render]

theorem scanVars_text (vs : List VarSyn) (h : ∀ x ∈ vs, x.WF) (fuel : Nat) (hf : vs.length ≤ fuel)
    (acc : List (String × Num)) :
    scanVars fuel (varsText vs) acc =
      .ok (vs.foldl (fun acc x => addVar acc (String.singleton x.name) x.num) acc) := by
  induction vs generalizing fuel acc with
  | nil => exact scanVars_nil fuel acc
  | cons x xs ih =>
    have hx := h x (by simp)
    have hxs : ∀ y ∈ xs, y.WF := fun y hy => h y (by simp [hy])
    have hstop := varsText_stops hxs
    obtain ⟨f, rfl⟩ : ∃ f, fuel = f + 1 := ⟨fuel - 1, by simp at hf; omega⟩
    have hf' : xs.length ≤ f := by simp at hf; omega
    rw [varsText_cons, List.foldl_cons]
    rcases he : x.exp with _ | ⟨n, u⟩
    · have hexp : x.expText = [] := by simp [VarSyn.expText, he]
      have hnum : x.num = Num.one := by simp [VarSyn.num, he]
      rw [hexp, hnum, List.nil_append, scanVars_plain f hx.letter hstop]
      exact ih hxs f hf' _
    · have hu := hx.exp_wf n u he
      have hexp : x.expText = '^' :: (signText n ++ u.render) := by simp [VarSyn.expText, he]
      have hnum : x.num = .dec ⟨n, u.mant, u.fp.length⟩ := by simp [VarSyn.num, he]
      have hchars : ∀ c ∈ signText n ++ u.render,
          isAsciiDigit c = true ∨ c = '.' ∨ c = '/' ∨ c = '-' := by
        intro c hc
        rcases List.mem_append.1 hc with h1 | h1
        · exact Or.inr (Or.inr (Or.inr (mem_signText h1)))
        · rcases UDec.mem_render hu h1 with h2 | h2
          · exact Or.inl h2
          · exact Or.inr (Or.inl h2)
      rw [hexp, hnum, List.cons_append, scanVars_exp f hx.letter, scanExp_number hchars hstop]
      simp only [expValue_number hu n]
      exact ih hxs f hf' _

theorem length_varsText_ge (vs : List VarSyn) : vs.length ≤ (varsText vs).length := by
  induction vs with
  | nil => simp [varsText]
  | cons x xs ih =>
    simp only [varsText, List.flatMap_cons, List.length_append, List.length_cons, VarSyn.render] at ih ⊢
    omega

/-! ### one part, all parts, the parser -/

theorem parsePart_render (cc : CharClass) (hn : NumSane cc) {t : ITermSyn} (ht : t.WF) :
    parsePart cc t.renderPart = .ok t.read := by
  unfold parsePart
  rw [scanCoeff_part cc hn ht]
  simp only [coeffValue_part ht]
  rw [scanVars_text t.vars ht.vars_wf _ (Nat.le_succ_of_le (length_varsText_ge t.vars))]
  rfl

theorem parseParts_render (cc : CharClass) (hn : NumSane cc) (ts : List ITermSyn)
    (hts : IWellFormed ts) :
    parseParts cc (ts.map ITermSyn.renderPart) = .ok (ts.map ITermSyn.read) := by
  induction ts with
  | nil => rfl
  | cons t ts ih =>
    have ht : t.WF := hts t (by simp)
    have hts' : IWellFormed ts := fun t' h' => hts t' (by simp [h'])
    simp only [List.map_cons, parseParts, parsePart_render cc hn ht, ih hts']

/-- the variable list of a parsed polynomial, as the parser computes it from the terms -/
def namesOf (ts : List ITerm) : List String :=
  (ts.flatMap fun t => t.vars.map (·.1)).eraseDups.mergeSort (fun a b => a ≤ b)

theorem stripWs_renderI {cc : CharClass} (hcc : cc.Sane) (hn : NumSane cc) {ts : List ITermSyn}
    (hts : IWellFormed ts) : stripWs cc (renderI ts) = renderI ts := by
  apply stripWs_eq_self
  intro c hc
  cases ts with
  | nil => simp [renderI] at hc
  | cons t ts =>
    simp only [renderI, ITermSyn.renderPart, List.mem_append, List.mem_flatMap, List.mem_cons] at hc
    rcases hc with (h | h) | ⟨t', ht', h | h⟩
    · rw [mem_signText h]; exact hcc.sym_not_ws.2.2.1
    · exact (mem_renderAbsI (hts t (by simp)) h).not_ws hcc hn
    · rw [h]; cases t'.neg
      · exact hcc.sym_not_ws.2.1
      · exact hcc.sym_not_ws.2.2.1
    · exact (mem_renderAbsI (hts t' (by simp [ht'])) h).not_ws hcc hn

/-- **The multivariate parser on (any spacing of) a rendering**: accepted, and the terms are read as
written — coefficient `±1` where omitted, exponent 1 where omitted, repeated letters merged by adding
exponents, variables sorted by name — with the variable list the sorted set of letters. -/
theorem parse_renderI {cc : CharClass} (hn : NumSane cc) {ts : List ITermSyn}
    (hts : IWellFormed ts) {s : List Char} (hs : stripWs cc s = renderI ts) :
    C02.parse cc s = .ok ⟨ts.map ITermSyn.read, namesOf (ts.map ITermSyn.read)⟩ := by
  simp only [C02.parse, C02.normalize, hs, parts_renderI ts hts, parts_renderI_ok ts hts,
    parseParts_render cc hn ts hts]
  rfl

end SV.C17
