"""C18 plug-in: the statement's defining formulas in exact rational arithmetic.

Every float is read from its bit pattern as an exact rational.  No root, exponential or logarithm
is taken in the oracle: the *square* of a returned deviation is compared with the exact variance
and the *n-th power* of a returned geometric mean with the exact product.

Rounding slack (u = 2^-53, n = sample length, d = the denominator n or n-1, M = max |x_i|), with the
derivation so that correct code can never trip it:

* mean.  A left-to-right sum of n terms has n-1 roundings, the division one more:
  |fl(mean) - mean| <= g_n * sum|x_i| / n with g_n = n*u/(1-n*u).  Allowed: 4*(n+1)*u*sum|x_i|/n.
  "min <= mean <= max" is checked with the same slack (in floating point the mean of 3 x 0.1 is
  0.10000000000000002 > max, so the clause can only hold to within rounding).
* deviation.  Let m^ = mean + e be the computed mean (|e| <= g_n*M).  sum (x_i-m^)^2 =
  d*var + n*e^2; the subtraction, square, the n-1 additions, the division and the square root each
  contribute a factor (1 + <=u), the last one twice in s^2.  Hence
  |s^2 - var| <= g_(n+7) * var + (1+g)*(n/d)*e^2 <= g_(n+7)*var + 2.1*(g_n*M)^2.
  Allowed: 4*(n+8)*u*var + 8*((n+1)*u*M)^2 + (n+8)*2^-1074.  The last term is the UNDERFLOW allowance, in exact units:
  a square of a deviation below 2^-537 is subnormal and is rounded to a multiple of 2^-1074 (error <= 2^-1075 each, n of
  them; additions of subnormals are exact; the division by d rounds once more), so s^2 is off by at most
  (n/d + 1) 2^-1075 < 3 * 2^-1075 beyond the relative terms; (n+8) 2^-1074 also covers implementations that divide
  before they add.  (It was 2^-1000 before the third seeded round: the clause was vacuous for samples below 2^-500; now
  it stays meaningful down to the subnormal results - a deviation of a sample of magnitude 1e-162 may be returned as 0
  or as sqrt(k 2^-1074), but not as 1e-150, inf or NaN.)  A sample of finite values below 1e150 has a finite exact
  variance: NaN and inf are failures at EVERY small magnitude (the exact formula never leaves the range downwards).
* relations.  translation (only when x_i + c is exact for every i, which the oracle verifies in
  rationals), scaling by k (only when k*x_i is exact) and sample-vs-population compare the two
  returned values through the sum of the two slacks above:  |s2^2 - s1^2|, |s2^2 - k^2 s1^2|,
  |(n-1)*s_s^2 - n*s_p^2|.
* geometric mean g = exp(mean(ln x)).  libm's ln and exp are within 1 ulp (2^-52 relative); the mean
  of the logarithms has absolute error <= (n+1)*2^-52*L, L = max|ln x_i|, so g has relative error
  <= (n+1)*2^-52*L + 2^-52 and g^n at most n times that (to first order; the quantity is < 1e-9
  for n <= 200).  Allowed: |g^n - prod x_i| <= 4*n*((n+1)*(L+1)+1)*2^-52 * prod x_i.
  Huge values (above 2^1000, far outside the statement's range) are judged by the same test; +inf is accepted there
  exactly when prod x_i (1 + slack) >= MAX^n, i.e. when the exact mean is within the allowance of the largest number.
  Tiny positive values (below 2^-1000, down to the smallest subnormal: inside the statement's range) have a tiny or
  subnormal geometric mean, which carries an absolute rounding error of up to 2^-1075: there the same two tests are made
  on the interval [g - 2^-1074, g + 2^-1074] around the returned g (lower end clamped at 0), and g must be finite and
  positive (the exact mean is >= min x_i >= 2^-1074, and exp(mean(ln x)) cannot round to 0 there).
"""
import struct, math
from fractions import Fraction

RULE = ("samples of length 0..200 with |x| <= 1e6 in eight shapes (uniform, small integers, dyadic, constant, tight cluster "
        "far from 0, magnitudes 1e-12..1e6 mixed, log-uniform, one outlier), the undefined cases n = 0 and n = 1 (sample "
        "kind) for every request, 200 x 1e6; every length 0..200 (and 201..1025) once per request kind; geometric means of "
        "samples whose products over chunks of 2..200 values under/overflow; whole samples of magnitude 1e-300..1e300; "
        "narrow samples at offsets 1e-100..1e100 of relative width 1e-1..1e-16; exact translations by 2^20..2^50; "
        "zero/sign patterns (all negative, zero maximum, signed zeros, symmetric); edge of the number range: samples whose values "
        "agree to within 1..8 ulps in every binade 2^-1074..2^19, deep-subnormal samples (k 2^-1074, k < 2^b, b = 1..52), whole "
        "samples of magnitude 1e-323..1e-290 and 1e-170..1e-150, exact translations / scalings of integer multiples of 2^-1074.."
        "2^-530, geometric means of subnormal / tiny positive values; NaN/inf/non-positive data at every "
        "position (correspondence only; a geometric mean of data that is not positive: returns-vs-panics only); non-trivial = the model's answer contains a number that is not NaN; "
        "distinct = distinct request lines")

U = Fraction(1, 2 ** 53)
QUANTUM = Fraction(1, 2 ** 1074)           # the smallest positive binary64 number
# Ranges in which the rounding model above is valid (no overflow of a sum of <= 1025 values / of a sum of squares,
# no subnormal geometric mean).  The property's own range (|x| <= 1e6) lies far inside; samples beyond these
# limits are generated too, but only compared with the model.
MEAN_MAX = 1e300
STD_MAX = 1e150
GEOM_MIN = 2.0 ** -1000
GEOM_MAX = 2.0 ** 1000
MAX_FLOAT = 1.7976931348623157e308


def fl(bits):
    return struct.unpack("<d", struct.pack("<Q", int(bits)))[0]


def isnan(x):
    return x != x


def read_vec(t, k):
    n = int(t[k])
    return [fl(b) for b in t[k + 1:k + 1 + n]], k + 1 + n


def fr(x):
    return Fraction(x)


def exact_mean(xs):
    return sum((fr(x) for x in xs), Fraction(0)) / len(xs)


def exact_var(xs, d):
    m = exact_mean(xs)
    return sum(((fr(x) - m) ** 2 for x in xs), Fraction(0)) / d


def mean_slack(xs):
    n = len(xs)
    return 4 * (n + 1) * U * sum((abs(fr(x)) for x in xs), Fraction(0)) / n + Fraction(1, 2 ** 1070)


def var_slack(xs, var):
    n = len(xs)
    M = max(abs(fr(x)) for x in xs)
    return 4 * (n + 8) * U * var + 8 * ((n + 1) * U * M) ** 2 + (n + 8) * QUANTUM


def denom(kind, n):
    return n if kind == "p" else max(n - 1, 0)


def finite(xs):
    return all(math.isfinite(x) for x in xs)


def check_mean(xs, got, what="mean"):
    if len(xs) == 0:
        return None if isnan(got) else f"{what} of the empty sample is {got!r}, not NaN"
    if not finite(xs) or max(abs(x) for x in xs) > MEAN_MAX:
        return None  # NaN / infinities, or a sum that may overflow: outside the property, correspondence only
    if isnan(got) or math.isinf(got):
        return f"{what} of a non-empty finite sample is {got!r}"
    m = exact_mean(xs)
    tol = mean_slack(xs)
    if abs(fr(got) - m) > tol:
        return f"{what} {got!r} differs from sum/n = {float(m)!r} by more than rounding"
    if fr(got) < fr(min(xs)) - tol or fr(got) > fr(max(xs)) + tol:
        return f"{what} {got!r} is outside [min, max] = [{min(xs)!r}, {max(xs)!r}]"
    return None


def check_std(kind, xs, got, what="std"):
    """returns (failure or None, exact variance or None, slack)"""
    n = len(xs)
    d = denom(kind, n)
    if d == 0:
        return (None if isnan(got) else f"{what} with denominator 0 (n={n}, kind {kind}) is {got!r}, not NaN"), None, None
    if not finite(xs) or max(abs(x) for x in xs) > STD_MAX:
        return None, None, None  # squares may overflow: outside the property, correspondence only
    if isnan(got) or math.isinf(got):
        return f"{what} of a finite sample with non-zero denominator is {got!r}", None, None
    if got < 0:
        return f"{what} is negative: {got!r}", None, None
    var = exact_var(xs, d)
    tol = var_slack(xs, var)
    if abs(fr(got) ** 2 - var) > tol:
        return (f"{what}^2 = {got * got!r} differs from sum (x-mean)^2/{d} = {float(var)!r} by more than rounding "
                f"(slack {float(tol)!r})"), var, tol
    return None, var, tol


def check_geom(xs, got):
    n = len(xs)
    if n == 0:
        return None if isnan(got) else f"geometric mean of the empty sample is {got!r}, not NaN"
    if not finite(xs) or any(x <= 0 for x in xs):
        return None  # outside the property's domain (positive data): see `compare` (only a panic is a disagreement)
    if isnan(got) or got <= 0 or (math.isinf(got) and max(xs) <= GEOM_MAX):
        return f"geometric mean of a positive sample is {got!r}"
    L = max(abs(math.log(x)) for x in xs)
    rel = 4 * n * ((n + 1) * (Fraction(L) + 1) + 1) * Fraction(1, 2 ** 52)
    prod = Fraction(1)
    for x in xs:
        prod *= fr(x)
    if math.isinf(got):
        # values above 2^1000 (far outside the statement's range): +inf is an answer "to within rounding" exactly when the
        # exact mean lies within the rounding allowance of the largest finite number (200 x f64::MAX: the sum of the
        # logarithms taken left to right overflows exp by an ulp, taken pairwise it does not)
        if prod * (1 + rel) >= Fraction(MAX_FLOAT) ** n:
            return None
        return (f"geometric mean overflowed to inf although the exact mean is below the largest finite number by more than "
                f"rounding (largest value {max(xs)!r})")
    if min(xs) < GEOM_MIN:
        # tiny / subnormal results: absolute rounding error of one quantum on top of the relative slack
        lo = max(fr(got) - QUANTUM, Fraction(0)); hi = fr(got) + QUANTUM
        if lo ** n * (1 - rel) > prod or hi ** n * (1 + rel) < prod:
            return (f"geometric mean {got!r} of tiny positive values: the {n}-th powers of {got!r} -+ 2^-1074 do not enclose the "
                    f"product of the sample to within rounding")
        if hi < fr(min(xs)) * (1 - rel) or lo > fr(max(xs)) * (1 + rel):
            return f"geometric mean {got!r} is outside [min, max]"
        return None
    if abs(fr(got) ** n - prod) > rel * prod:
        return (f"geometric mean {got!r}: its {n}-th power differs from the product of the sample by more than rounding "
                f"(relative {float(abs(fr(got) ** n - prod) / prod)!r} > {float(rel)!r})")
    if fr(got) < fr(min(xs)) * (1 - rel) or fr(got) > fr(max(xs)) * (1 + rel):
        return f"geometric mean {got!r} is outside [min, max]"
    return None


def oracle(req, impl):
    t = req.split()
    o = impl.split()
    if o and o[0] in ("panic", "harness-panic", "process-abort"):
        return "the implementation panicked"
    try:
        vals = [fl(x[1:]) for x in o]
    except Exception:
        return f"unreadable observation {impl!r}"
    cmd = t[0]
    if cmd == "mean":
        xs, _ = read_vec(t, 1)
        return check_mean(xs, vals[0])
    if cmd == "geom":
        xs, _ = read_vec(t, 1)
        return check_geom(xs, vals[0])
    if cmd == "std":
        xs, _ = read_vec(t, 2)
        return check_std(t[1], xs, vals[0])[0]
    if cmd in ("translate", "scale"):
        kind = t[1]
        c = fl(t[2])
        xs, _ = read_vec(t, 3)
        ys = [x + c for x in xs] if cmd == "translate" else [c * x for x in xs]
        f1, v1, t1 = check_std(kind, xs, vals[0], "std(x)")
        if f1:
            return f1
        f2, v2, t2 = check_std(kind, ys, vals[1], "std(transformed x)")
        if f2:
            return f2
        f3 = check_mean(xs, vals[2]) or check_mean(ys, vals[3], "mean(transformed x)")
        if f3:
            return f3
        if v1 is None or v2 is None:
            return None
        if cmd == "translate":
            exact = all(fr(y) == fr(x) + fr(c) for x, y in zip(xs, ys))
            if exact:
                if abs(fr(vals[1]) ** 2 - fr(vals[0]) ** 2) > t1 + t2:
                    return f"std(x + c) = {vals[1]!r} but std(x) = {vals[0]!r} (c = {c!r}, translation exact)"
                if abs(fr(vals[3]) - fr(vals[2]) - fr(c)) > mean_slack(xs) + mean_slack(ys):
                    return f"mean(x + c) = {vals[3]!r} but mean(x) + c = {vals[2] + c!r}"
        else:
            exact = all(fr(y) == fr(x) * fr(c) for x, y in zip(xs, ys))
            if exact:
                k2 = fr(c) ** 2
                if abs(fr(vals[1]) ** 2 - k2 * fr(vals[0]) ** 2) > t2 + k2 * t1:
                    return f"std(k x) = {vals[1]!r} but |k| std(x) = {abs(c) * vals[0]!r} (k = {c!r}, scaling exact)"
        return None
    if cmd == "samplepop":
        xs, _ = read_vec(t, 1)
        n = len(xs)
        fs, vs, ts = check_std("s", xs, vals[0], "std_sample")
        if fs:
            return fs
        fp, vp, tp = check_std("p", xs, vals[1], "std_population")
        if fp:
            return fp
        if vs is None or vp is None:
            return None
        # std_s = std_p * sqrt(n/(n-1))  <=>  (n-1) std_s^2 = n std_p^2
        if abs((n - 1) * fr(vals[0]) ** 2 - n * fr(vals[1]) ** 2) > (n - 1) * ts + n * tp:
            return f"(n-1) std_s^2 != n std_p^2: std_s = {vals[0]!r}, std_p = {vals[1]!r}, n = {n}"
        return None
    return f"unknown request {cmd}"


# ------------------------------------------------------------------ correspondence

_NO_RETURN = ("panic", "harness-panic", "process-abort", "timeout")


def _close_bits(a_tok, b_tok):
    """two `f<bits>` tokens: bit-equal, both NaN, equal as numbers (+-0), or within 1e-9 relative"""
    a, b = fl(a_tok[1:]), fl(b_tok[1:])
    if isnan(a) or isnan(b):
        return isnan(a) and isnan(b)
    if a == b:
        return True
    if math.isinf(a) or math.isinf(b):
        return False
    return abs(a - b) <= 1e-9 * max(abs(a), abs(b), 1e-300)


def compare(req, impl, model):
    """The framework's default relation (tokens exactly, `f<bits>` tokens numerically: bit-equal, both NaN, or within
    1e-9 relative - the deviation and the means "equal their defining formulas to within rounding", so last bits may
    move - or, when they differ more, both inside the allowance that the oracle itself grants for that field of that
    request, `_both_within_allowance`), with one exception: the geometric mean of a non-empty sample that contains a value that is not positive
    (zero, negative, NaN).  The statement and its quantifier constrain the geometric mean for "positive data" only; what
    is returned for such a sample (0, NaN, ...) is a convention the property does not fix, so there only "returns"
    against "panics / aborts" is compared.  The empty sample stays compared (NaN is owed there)."""
    if impl == model:
        return None
    ti, tm = impl.split(), model.split()
    t = req.split()
    if t and t[0] == "geom":
        try:
            xs, _ = read_vec(t, 1)
        except Exception:
            xs = None
        if xs and any(not (x > 0) for x in xs):
            if (bool(ti) and ti[0] in _NO_RETURN) != (bool(tm) and tm[0] in _NO_RETURN) or not ti or not tm:
                return f"outcome: impl `{impl[:40]}` model `{model[:40]}`"
            return None
    if len(ti) != len(tm):
        return "different number of fields"
    for k, (x, y) in enumerate(zip(ti, tm)):
        if x == y:
            continue
        if x[:1] == "f" and y[:1] == "f" and x[1:].isdigit() and y[1:].isdigit():
            if _close_bits(x, y) or _both_within_allowance(t, k, fl(x[1:]), fl(y[1:])):
                continue
        return f"field {k}: impl {x} model {y}"
    return None


def _field_of(t, k):
    """what field k of the answer to the request t is: ("mean" | "std" | "geom", deviation kind, sample)"""
    cmd = t[0]
    if cmd == "mean" and k == 0:
        return "mean", None, read_vec(t, 1)[0]
    if cmd == "geom" and k == 0:
        return "geom", None, read_vec(t, 1)[0]
    if cmd == "std" and k == 0:
        return "std", t[1], read_vec(t, 2)[0]
    if cmd == "samplepop" and k in (0, 1):
        return "std", "sp"[k], read_vec(t, 1)[0]
    if cmd in ("translate", "scale") and k in (0, 1, 2, 3):
        c = fl(t[2])
        xs = read_vec(t, 3)[0]
        if k in (1, 3):
            xs = [x + c for x in xs] if cmd == "translate" else [c * x for x in xs]
        return ("std" if k < 2 else "mean"), t[1], xs
    return None


def _both_within_allowance(t, k, a, b):
    """Both numbers are answers the property accepts for this field: each passes the oracle's own clause for it
    (`check_mean` / `check_std` / `check_geom`: the defining formula in exact rationals within the rounding allowance that
    is derived in the module docstring - relative to the DATA scale: 4(n+8) u var + 8 ((n+1) u max|x|)^2 + underflow for a
    deviation), and the clause is in force (the oracle does not abstain on this sample).  A deviation of nine values
    around 1e6 that differ by a few ulps is rounding noise (1e-9 from a left-to-right sum, 1e-10 or 0 from a pairwise
    one): compared relative to the result the two differ by 100 %, compared with what the statement promises ("equal
    their defining formulas to within rounding") they are the same answer.  NaN against a number, infinities and panics
    never pass (the clauses reject them)."""
    try:
        f = _field_of(t, k)
        if f is None:
            return False
        what, kind, xs = f
        if isnan(a) or isnan(b) or not xs or not finite(xs):
            return False
        if (math.isinf(a) or math.isinf(b)) and what != "geom":
            return False
        if what == "mean":
            if max(abs(x) for x in xs) > MEAN_MAX:
                return False
            return check_mean(xs, a) is None and check_mean(xs, b) is None
        if what == "std":
            fa, va, _ = check_std(kind, xs, a)
            if fa is not None or va is None:
                return False
            fb, vb, _ = check_std(kind, xs, b)
            return fb is None and vb is not None
        if what == "geom":
            if any(x <= 0 for x in xs):
                return False
            return check_geom(xs, a) is None and check_geom(xs, b) is None
    except Exception:
        return False
    return False


def nontrivial(req, model):
    for x in model.split():
        if x.startswith("f"):
            try:
                if not isnan(fl(x[1:])):
                    return True
            except Exception:
                pass
    return False


def tag(req, model):
    t = req.split()
    cmd = t[0]
    kind = t[1] if cmd in ("std", "translate", "scale") else ""
    try:
        n = int(t[{"mean": 1, "geom": 1, "samplepop": 1, "std": 2}.get(cmd, 3)])
    except Exception:
        n = -1
    size = "n=0" if n == 0 else "n=1" if n == 1 else "n=2..8" if n <= 8 else "n=9..200"
    m = model.split()
    nan = "nan" if (m and m[0].startswith("f") and isnan(fl(m[0][1:]))) else "num"
    return f"{cmd}{':' + kind if kind else ''}:{size}:{nan}"
