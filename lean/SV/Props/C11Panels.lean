import SV.Props.C11
import Mathlib.Algebra.BigOperators.Intervals
/-!
# C11 — accumulation order by panels is the same product

Companion of `SV.Props.C11` (added after seeding round 6b, DESIGN.md §17).  A cache-blocked product walks the shared
dimension in panels of `b` and **adds** each panel's partial sum into the entry.  In exact arithmetic (integers: the
statement's "exactly, for integer elements") that is the row-by-column sum for every panel width and every shared
dimension, including a ragged last panel:

* `sum_panels`: whole panels; `sum_panels_truncated`: the last panel cut at `K`;
* `dot_entry_panelled`: an entry of the model's `dot` equals the panel-wise accumulated sum, for every panel width.

So a panelled rewrite that accumulates is property-preserving (this is why the split-accumulator change C11-b2 is judged
benign), and the seeded change C11-s6a — which *overwrites* the entry with each panel's partial sum, i.e. returns the last
panel only — is exactly the rewrite that is not: `last_panel_is_not_the_sum` exhibits `K = 65`, `b = 64`, all terms 1.
-/
namespace SV.Props.C11Panels
open SV SV.C11 Finset

/-- whole panels: summing panel by panel is the straight sum -/
theorem sum_panels {M : Type} [AddCommMonoid M] (f : ℕ → M) (b P : ℕ) :
    ∑ p ∈ range P, ∑ k ∈ Ico (p * b) ((p + 1) * b), f k = ∑ k ∈ range (P * b), f k := by
  induction P with
  | zero => simp
  | succ P ih =>
    rw [sum_range_succ, ih, range_eq_Ico, range_eq_Ico,
      sum_Ico_consecutive f (Nat.zero_le _) (Nat.mul_le_mul_right b (Nat.le_succ P))]

/-- the last panel cut at `K` (any `K ≤ P·b`) -/
theorem sum_panels_truncated {M : Type} [AddCommMonoid M] (f : ℕ → M) (b P K : ℕ) (hK : K ≤ P * b) :
    ∑ p ∈ range P, ∑ k ∈ Ico (p * b) (min ((p + 1) * b) K), f k = ∑ k ∈ range K, f k := by
  have inner : ∀ p, ∑ k ∈ Ico (p * b) (min ((p + 1) * b) K), f k
      = ∑ k ∈ Ico (p * b) ((p + 1) * b), (if k < K then f k else 0) := by
    intro p
    rw [← sum_filter]
    congr 1
    ext k
    simp only [mem_Ico, mem_filter, lt_min_iff]
    tauto
  simp only [inner]
  rw [sum_panels (fun k => if k < K then f k else 0) b P, ← sum_filter]
  congr 1
  ext k
  simp only [mem_filter, mem_range]
  omega

variable {R : Type} [CommSemiring R] [Inhabited R]

/-- an entry of the model's product is the panel-wise accumulated sum, for every panel width `b > 0` -/
theorem dot_entry_panelled (a b m : Mat R) (hc : a.w = b.h) (hm : dot a b = .ok m) (w : ℕ) (hw : 0 < w) :
    ∀ i j, i < a.h → j < b.w →
      m.get i j = ∑ p ∈ range (a.w / w + 1), ∑ k ∈ Ico (p * w) (min ((p + 1) * w) a.w), a.get i k * b.get k j := by
  intro i j hi hj
  rw [SV.Props.C11.dot_entry a b m hc hm i j hi hj]
  symm
  apply sum_panels_truncated
  have := Nat.lt_div_mul_add hw (a := a.w)
  rw [Nat.add_mul, Nat.one_mul]
  omega

/-- the seeded rewrite returns the last panel only: with 65 terms equal to 1 and panels of 64 that is 1, not 65 -/
theorem last_panel_is_not_the_sum :
    (∑ _k ∈ Ico (1 * 64) (min ((1 + 1) * 64) 65), (1 : ℤ)) = 1 ∧ (∑ _k ∈ range 65, (1 : ℤ)) = 65 := by
  constructor <;> simp

end SV.Props.C11Panels
