import SV.Model.C01
import SV.Lemmas.Text
import SV.Lemmas.C01
import SV.Props.C01
/-!
# C16 — what follows the variable of a term is checked for EVERY term, whatever its coefficient

In the model of the simple (univariate) parser the term reader `C01.parseTerm` looks at the text after
the variable letter in every part of the normalised text; there is no path on which a term — for
instance one whose coefficient is a spelling of zero (`0`, `00`, `0.0`, `-0`) — is skipped before its
tail has been validated.  A tail that is neither empty nor `^digits` makes the term reader fail, for
every coefficient text, and the failure of one part is the failure of the whole parse.
-/
namespace SV.Props.C16Tail
open SV SV.Poly SV.Text SV.C01 SV.Props.C01

/-! ## the five concrete instances -/

/-- **`0x^`, `3 + 0x^`, `0x#`, `x+0x#3`, `0x(` are rejected** by the model (driver's character classes
and `MAX_POWER`), with the error of the tail — `InvalidExponent` for the empty exponent,
`UnexpectedChar` for the stray character — although the coefficient of the offending term is zero. -/
theorem zero_coeff_bad_tail_instances :
    parse stdClass SV.Gen.simpleMaxPower "0x^".toList = .error .invalidExponent ∧
    parse stdClass SV.Gen.simpleMaxPower "3 + 0x^".toList = .error .invalidExponent ∧
    parse stdClass SV.Gen.simpleMaxPower "0x#".toList = .error .unexpectedChar ∧
    parse stdClass SV.Gen.simpleMaxPower "x+0x#3".toList = .error .unexpectedChar ∧
    parse stdClass SV.Gen.simpleMaxPower "0x(".toList = .error .unexpectedChar :=
  ⟨rfl, rfl, rfl, rfl, rfl⟩

/-- the other spellings of zero are treated alike: `00x^`, `0.0x#`, `-0x(`, `1 - 0x^` -/
example :
    parse stdClass SV.Gen.simpleMaxPower "00x^".toList = .error .invalidExponent ∧
    parse stdClass SV.Gen.simpleMaxPower "0.0x#".toList = .error .unexpectedChar ∧
    parse stdClass SV.Gen.simpleMaxPower "-0x(".toList = .error .unexpectedChar ∧
    parse stdClass SV.Gen.simpleMaxPower "1 - 0x^".toList = .error .invalidExponent :=
  ⟨rfl, rfl, rfl, rfl⟩

/-! ## (1) the term reader -/

/-- a tail (text after the variable letter of a term) that is neither empty nor `^ds` with `ds` a
non-empty string of ASCII digits -/
def BadTail (t : List Char) : Prop :=
  t ≠ [] ∧ ∀ ds, t = '^' :: ds → ¬ (ds ≠ [] ∧ ds.all isAsciiDigit = true)

private theorem usize_none_of_bad (cap : Nat) {ds : List Char}
    (h : ¬ (ds ≠ [] ∧ ds.all isAsciiDigit = true)) : parseUsizeCapped cap ds = none := by
  unfold parseUsizeCapped
  rw [if_neg h]

/-- **A term with a bad tail is never read as a term — whatever its coefficient.**  For every
coefficient text `c` (valid or not: `3`, `0`, `00`, `0.0`, `-0`, empty, garbage) not containing the
variable letter `v`, and every tail `t` that is neither empty nor `^digits`, the model's term reader
`parseTerm` returns an error on `c v t`, and the error is one of `InvalidCoefficient` (only if `c` is
not a coefficient), `InvalidExponent`, `UnexpectedChar`.  The coefficient's VALUE plays no role: there
is no early exit for a zero coefficient. -/
theorem term_bad_tail_rejected (cap : Nat) (v : Char) {c t : List Char} (hc : v ∉ c)
    (ht : BadTail t) :
    parseTerm cap (some v) (c ++ v :: t) = .error .invalidCoefficient ∨
    parseTerm cap (some v) (c ++ v :: t) = .error .invalidExponent ∨
    parseTerm cap (some v) (c ++ v :: t) = .error .unexpectedChar := by
  obtain ⟨hne, hexp⟩ := ht
  simp only [parseTerm, splitAtChar_append _ hc]
  split
  · rename_i e heq
    left
    split at heq
    · cases heq
    · split at heq
      · cases heq
      · split at heq
        · cases heq
        · cases heq; rfl
  · right
    split
    · exact absurd rfl hne
    · rw [usize_none_of_bad cap (hexp _ rfl)]; exact Or.inl rfl
    · exact Or.inr rfl

/-- … in the form "an error, never a term". -/
theorem term_bad_tail_error (cap : Nat) (v : Char) {c t : List Char} (hc : v ∉ c) (ht : BadTail t) :
    ∃ e, parseTerm cap (some v) (c ++ v :: t) = .error e := by
  rcases term_bad_tail_rejected cap v hc ht with h | h | h <;> exact ⟨_, h⟩

/-- … and when the coefficient text IS a decimal (in particular any spelling of zero), the error is the
error of the tail: `InvalidExponent` after `^`, `UnexpectedChar` otherwise. -/
theorem term_bad_tail_valid_coeff (cap : Nat) (v : Char) {c t : List Char} {d : Dec} (hc : v ∉ c)
    (hd : parseDec c = some d) (ht : BadTail t) :
    parseTerm cap (some v) (c ++ v :: t) =
      .error (if t.head? = some '^' then .invalidExponent else .unexpectedChar) := by
  obtain ⟨hne, hexp⟩ := ht
  have h1 : ¬ (c = [] ∨ c = ['+']) := by
    rintro (rfl | rfl)
    · rw [show parseDec [] = none by decide] at hd; cases hd
    · rw [show parseDec ['+'] = none by decide] at hd; cases hd
  have h2 : c ≠ ['-'] := by
    rintro rfl
    rw [show parseDec ['-'] = none by decide] at hd; cases hd
  simp only [parseTerm, splitAtChar_append _ hc, hd, if_neg h1, if_neg h2]
  split
  · exact absurd rfl hne
  · rw [usize_none_of_bad cap (hexp _ rfl)]; rfl
  · rename_i _ hn
    cases t with
    | nil => exact absurd rfl hne
    | cons a t =>
      have ha : a ≠ '^' := fun e => hn t (by rw [e])
      simp [ha]

/-! ## (2) the whole parser -/

private theorem parseTerms_error_of_mem {cap : Nat} {varc : Option Char} {ps : List (List Char)}
    {p : List Char} (hp : p ∈ ps) {e : PErr} (he : parseTerm cap varc p = .error e) :
    ∃ e', parseTerms cap varc ps = .error e' := by
  induction ps with
  | nil => simp at hp
  | cons q ps ih =>
    rcases List.mem_cons.1 hp with rfl | hp
    · exact ⟨e, by simp only [parseTerms, he]⟩
    · obtain ⟨e', h'⟩ := ih hp
      simp only [parseTerms, h']
      split
      · exact ⟨_, rfl⟩
      · exact ⟨_, rfl⟩

/-- **One bad tail anywhere rejects the whole text.**  For every text `s`: if among the parts of the
normalised text (white space dropped, split at `+` / before `-`, exactly as the model splits) there is
one of the form `c v t` with `v` the text's variable letter (its first alphabetic character), `c` any
coefficient text without `v` — zero or not, valid or not — and `t` a bad tail, then `parse` returns an
error.  No position in the text, no coefficient value and no other term changes that. -/
theorem parse_zero_coeff_bad_tail (cc : CharClass) (cap : Nat) {s c t : List Char} {v : Char}
    (hv : (normalize cc s).find? cc.isAlpha = some v)
    (hp : c ++ v :: t ∈ parts (normalize cc s)) (hc : v ∉ c) (ht : BadTail t) :
    ∃ e, parse cc cap s = .error e := by
  obtain ⟨e, he⟩ := term_bad_tail_error cap v hc ht
  obtain ⟨e', he'⟩ := parseTerms_error_of_mem hp he
  unfold parse
  simp only [hv, he']
  split
  · exact ⟨_, rfl⟩
  · exact ⟨_, rfl⟩

/-- `x + 0x#3` by the theorem: the part `0x#3` has coefficient text `0` and the bad tail `#3`. -/
example : ∃ e, parse stdClass SV.Gen.simpleMaxPower "x + 0x#3".toList = .error e :=
  parse_zero_coeff_bad_tail stdClass _ (v := 'x') (c := ['0']) (t := ['#', '3']) (by decide) (by decide)
    (by decide) ⟨by decide, fun ds h => by simp at h⟩

private theorem mem_splitOn_after {sep : Char} {q post : List Char} (hq : sep ∉ q)
    (hpost : post = [] ∨ ∃ B, post = sep :: B) (A : List Char) :
    ∃ h tl, splitOn sep (A ++ sep :: (q ++ post)) = h :: tl ∧ q ∈ tl := by
  have h0 : ∃ tl, splitOn sep (q ++ post) = q :: tl := by
    rcases hpost with rfl | ⟨B, rfl⟩
    · exact ⟨[], by simpa using splitOn_of_not_mem hq⟩
    · exact ⟨_, splitOn_append B hq⟩
  induction A with
  | nil =>
    obtain ⟨tl, h⟩ := h0
    exact ⟨[], q :: tl, by simp [splitOn, h], List.mem_cons_self⟩
  | cons c A ih =>
    obtain ⟨h, tl, e, hm⟩ := ih
    by_cases hc : c = sep
    · exact ⟨[], h :: tl, by simp [splitOn, hc, e], List.mem_cons_of_mem _ hm⟩
    · exact ⟨c :: h, tl, by simp [splitOn, hc, e], hm⟩

/-- **The same at the level of the text**: if the normalised text (white space dropped, `-` → `+-`)
reads `… + c v t` up to its end or up to the next `+`, where the part `c v t` contains no `+`, `v` is
the text's variable letter, `v ∉ c` and `t` is a bad tail, then `parse` returns an error — whatever
stands before and after that part, and whatever the coefficient text `c` is (`c` starts with `-` for a
subtracted term). -/
theorem parse_bad_tail_in_text (cc : CharClass) (cap : Nat) {s A c t post : List Char} {v : Char}
    (hv : (normalize cc s).find? cc.isAlpha = some v)
    (hn : normalize cc s = A ++ '+' :: ((c ++ v :: t) ++ post))
    (hplus : '+' ∉ c ++ v :: t) (hpost : post = [] ∨ ∃ B, post = '+' :: B)
    (hc : v ∉ c) (ht : BadTail t) :
    ∃ e, parse cc cap s = .error e := by
  obtain ⟨h, tl, e, hm⟩ := mem_splitOn_after hplus hpost A
  refine parse_zero_coeff_bad_tail cc cap hv ?_ hc ht
  rw [hn]
  unfold parts
  rw [e]
  cases h with
  | nil => exact hm
  | cons a h => exact List.mem_cons_of_mem _ hm

/-- `3 - 0.0x^ + 2` by the text-level theorem: normalised `3+-0.0x^+2`, part `-0.0x^`. -/
example : ∃ e, parse stdClass SV.Gen.simpleMaxPower "3 - 0.0x^ + 2".toList = .error e :=
  parse_bad_tail_in_text stdClass _ (A := ['3']) (c := "-0.0".toList) (v := 'x') (t := ['^'])
    (post := "+2".toList) (by decide) (by decide) (by decide) (Or.inr ⟨_, rfl⟩) (by decide)
    ⟨by decide, fun ds h => by simp at h; subst h; simp⟩

/-! ## (3) a well-formed zero term is accepted, adds nothing, and still counts for the length -/

private theorem sum_drop_zero (ts : List TermSyn) (k : Nat) :
    ((ts.filter fun t => decide (t.pow = k)).map TermSyn.value).sum =
      ((ts.filter fun t => decide (t.pow = k) && decide (t.value ≠ 0)).map TermSyn.value).sum := by
  induction ts with
  | nil => rfl
  | cons t ts ih =>
    simp only [List.filter_cons]
    by_cases h1 : t.pow = k <;> by_cases h2 : t.value = 0 <;> simp [h1, h2, ih]

/-- **Terms with a zero coefficient are ordinary terms.**  For every well-formed term list (zero
coefficients allowed, in any spelling) and every text that renders it: the text is accepted; the vector
has `max power + 1` entries where the maximum is over ALL terms, the zero ones included (so `0x^5 + 1`
has 6 coefficients); and position `k` holds the sum of the NON-zero terms of power `k` — a zero term
contributes 0 to its position. -/
theorem term_zero_coeff_contributes_zero {cc : CharClass} (hcc : cc.Sane) (cap : Nat) {v : Char}
    (hv : cc.isAlpha v = true) (lead : Bool) {ts : List TermSyn} (hwf : WellFormed cap ts)
    {s : List Char} (hs : stripWs cc s = render v lead ts) :
    ∃ p, parse cc cap s = .ok p ∧ p.coeffs.length = maxPow ts + 1 ∧
      ∀ k, (p.coeffs.getD k Num.zero).val =
        ((ts.filter fun t => decide (t.pow = k) && decide (t.value ≠ 0)).map TermSyn.value).sum := by
  obtain ⟨p, hp, _, hlen, hval⟩ := SV.Props.C01.parse_render hcc cap hv lead hwf hs
  exact ⟨p, hp, hlen, fun k => by rw [hval k, sum_drop_zero]⟩

/-- `0x^5 + 1` in the model: six entries, the zero term's `+= 0` at position 5 included (evaluated by
the kernel). -/
theorem zero_term_fixes_length :
    parse stdClass SV.Gen.simpleMaxPower "0x^5 + 1".toList =
      .ok ⟨[.add .zero (.dec ⟨false, 1, 0⟩), .zero, .zero, .zero, .zero,
        .add .zero (.dec ⟨false, 0, 0⟩)], some 'x'⟩ := rfl

/-- … 6 coefficients with values `[1, 0, 0, 0, 0, 0]`. -/
example : ∃ p, parse stdClass SV.Gen.simpleMaxPower "0x^5 + 1".toList = .ok p ∧ p.coeffs.length = 6 ∧
    p.coeffs.map Num.val = [1, 0, 0, 0, 0, 0] := by
  refine ⟨_, zero_term_fixes_length, rfl, ?_⟩
  norm_num [Num.val, Dec.val, Num.zero]

end SV.Props.C16Tail
