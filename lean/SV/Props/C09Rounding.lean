import SV.Model.C09
import SV.Lemmas.Mat
import SV.Lemmas.LU
import SV.Lemmas.Rounding
import SV.Lemmas.RoundingNearest
import SV.Lemmas.RoundingC09
import SV.Lemmas.RoundingC09Plu
import SV.Lemmas.RoundingC09Mult
import SV.Lemmas.RoundingC09Ex
/-!
# C09, rounding half — the LU and PLU factorisations in floating-point arithmetic

`SV.Props.C09.lu_correct` / `plu_correct` prove over every ordered field that the factors multiply
back to `A` resp. `P A` (rounding error 0).  Here **the same definitions** `SV.C09.lu`, `SV.C09.plu`
(the models of `lu_decomposition`, `lu_pivot_decomposition`, operation by operation in the order of
the source) are run at the rounding scalar `Fl M` of `SV.Lemmas.Rounding`, where every `+ − × ÷` is
the exact real operation followed by a rounding of relative error `≤ u`, and the classical
**backward-error theorem of Gaussian elimination** is proved (Higham, *Accuracy and Stability of
Numerical Algorithms*, 2nd ed., Thm 9.3, for the operation order of this code) — the clause
"`L U` equals `A` (resp. `P A`) to within the componentwise bound `n·eps·|L||U|`" of the statement:

    L U = A + ΔA   exactly (as real matrices),      |ΔA| ≤ γ_n · |L||U|   componentwise,

`γ_n = n u/(1 − n u)`, `n` the order of the matrix, `L`, `U` the **computed** factors; with partial
pivoting the same for `P A` (row `i` of `P A` is row `σ i` of `A`; row swaps commit no error), and
there even with `γ_{n−1}`.  The bound does not involve the condition number of `A`; its size relative
to `|A|` is governed by the growth of `|L||U|`, which is what pivoting keeps small.

Counting what the loops really do, entry `(r, c)`, `m = min r c`:
* `lu` (Doolittle, dot-product form): `total = 0.0; total += lower[r][j]*upper[j][c]` (`j < m`) —
  the term `j` takes one multiplication and the additions from its own on, the model charging
  `0.0 + …` one rounding too (it assumes nothing about `rnd` but its relative accuracy):
  `m − j + 1 ≤ m + 1` roundings; then `A[r][c] − total` (one rounding) and, below the diagonal, the
  division by the pivot (one more): these are carried by the last term `l_rm·u_mc`.  All counts are
  `≤ n` (`lu_weights_upper`, `lu_weights_lower` are the fine forms).
* `plu` (in-place elimination, `kij` order): the entry is updated `m` times by
  `lu[r][c] -= lu[r][i]*lu[i][c]` and, below the diagonal, divided by the pivot: the term `i`
  carries `i + 1` roundings, the last term `m` resp. `m + 1`: all counts are `≤ n − 1`.

The pivot tests `|pivot| < eps` are comparisons of stored values and are exact; `f64::abs` of a
negative value is modelled as a negation, which the model charges one rounding, so a successful run
certifies `eps ≤ |pivot|·(1 + u)` (`eps ≤ |pivot|` in IEEE, where negation is exact) — in particular
every divisor is non-zero as soon as `eps > 0`.

The multiplier bound of partial pivoting survives in the form `|l_ij| ≤ (1+u)²/(1−u)`
(`plu_multipliers`; `= 1` for `u = 0`): the pivot search compares `f64::abs` values, and the model
charges the negation inside `abs` one rounding (in IEEE negation is exact and rounding monotone, so
there `|l_ij| ≤ 1` exactly; the model does not know that).  It plays no role in the backward error.

NOT covered: overflow, underflow (a subnormal product or quotient loses relative accuracy), NaN/∞,
the decimal→binary conversion of the inputs — see the header of `SV.Lemmas.Rounding`; no bound on
`|L||U|` in terms of `|A|` (the growth factor) is proved.
-/
namespace SV.Props.C09Rounding
open SV SV.C09 Finset

variable {M : FlModel}

/-- the models elaborate at the rounding scalar with no change -/
noncomputable example (eps : Fl M) (A : Mat (Fl M)) :
    Outcome DecompErr (Mat (Fl M) × Mat (Fl M)) := lu eps A
noncomputable example (eps : Fl M) (A : Mat (Fl M)) :
    Outcome DecompErr (Mat (Fl M) × Mat (Fl M) × Mat (Fl M)) := plu eps A

/-! ### vocabulary (that of `SV.Props.C09`, at the rounding scalar) -/

/-- a well-formed `n × n` array -/
def Square (n : ℕ) (X : Mat (Fl M)) : Prop := X.h = n ∧ X.w = n ∧ X.WF

/-- unit lower triangular: the stored diagonal is the constant `1`, the stored upper part `0` -/
def UnitLower (n : ℕ) (L : Mat (Fl M)) : Prop :=
  (∀ i, i < n → L.get i i = 1) ∧ ∀ i j, i < n → j < n → i < j → L.get i j = 0

/-- upper triangular: the stored lower part is the constant `0` -/
def Upper (n : ℕ) (U : Mat (Fl M)) : Prop := ∀ i j, i < n → j < n → j < i → U.get i j = 0

/-- `P` is the permutation matrix of `σ`: row `i` is the unit vector `e_{σ i}` -/
def IsPermMatrix (n : ℕ) (P : Mat (Fl M)) (σ : Equiv.Perm (Fin n)) : Prop :=
  ∀ i j : Fin n, P.get i j = if j = σ i then 1 else 0

/-- `(|L||U|)_ij` -/
noncomputable def absProd (n : ℕ) (L U : Mat (Fl M)) (i j : ℕ) : ℝ :=
  ∑ k ∈ range n, |(L.get i k).val| * |(U.get k j).val|

/-- `(L U)_ij`, the exact product of the computed factors -/
noncomputable def prod (n : ℕ) (L U : Mat (Fl M)) (i j : ℕ) : ℝ :=
  ∑ k ∈ range n, (L.get i k).val * (U.get k j).val

/-! ## plain LU (Doolittle) -/

/-- **Shape of the computed factors** (no hypothesis on `eps` or `u`).  Whenever `lu` returns
`(L, U)` at `Fl M`: the input was square, both factors are `n × n`, `L` is unit lower triangular and
`U` upper triangular *exactly* (the ones and zeros are stored constants), and every pivot that later
rows were divided by passed the guard: `eps ≤ |u_ii|·(1 + u)`. -/
theorem lu_shape {eps : Fl M} {A L U : Mat (Fl M)} (h : lu eps A = .ok (L, U)) :
    A.h = A.w ∧ Square A.h L ∧ Square A.h U ∧ UnitLower A.h L ∧ Upper A.h U ∧
    (∀ i, i + 1 < A.h → eps.val ≤ |(U.get i i).val| * (1 + M.u)) := by
  obtain ⟨hsq, inv⟩ := lu_ok_ent h
  refine ⟨hsq, inv.dims.1, inv.dims.2, ⟨?_, ?_⟩, ?_, ?_⟩
  · intro i hi; exact inv.Ld i hi hi
  · intro i j hi hj hij; exact inv.Lz i j hi hj (Or.inr hij)
  · intro i j hi hj hji; exact inv.Uz i j hi hj (Or.inr hji)
  · intro i hi; exact le_of_not_sabs_lt (inv.guard i (by omega) hi)

/-- every divisor of a successful run is non-zero -/
theorem lu_divisors_ne_zero {eps : Fl M} (heps : 0 < eps.val) {A L U : Mat (Fl M)}
    (h : lu eps A = .ok (L, U)) : ∀ i, i + 1 < A.h → (U.get i i).val ≠ 0 := by
  obtain ⟨_, inv⟩ := lu_ok_ent h
  intro i hi
  exact ne_zero_of_not_sabs_lt heps (inv.guard i (by omega) hi)

/-- **Weights form, upper triangle (Higham (9.4)).**  For `r ≤ c`:
`a_rc = Σ_{j ≤ r} l_rj·u_jc·t_j` **exactly**, where `t_r` (the term `l_rr·u_rc = u_rc`) is one
rounding factor and `t_j` (`j < r`) a product of `r − j + 1`. -/
theorem lu_weights_upper {eps : Fl M} {A L U : Mat (Fl M)} (h : lu eps A = .ok (L, U))
    {r c : ℕ} (hrc : r ≤ c) (hc : c < A.h) :
    ∃ t : ℕ → ℝ, M.Fac 1 (t r) ∧ (∀ j, j < r → M.Fac (r - j + 1) (t j)) ∧
      (A.get r c).val = ∑ j ∈ range (r + 1), (L.get r j).val * (U.get j c).val * t j :=
  luU_weights (lu_ok_ent h).2 hrc hc

/-- **Weights form, below the diagonal (Higham (9.5)).**  For `c < r`:
`a_rc = Σ_{j ≤ c} l_rj·u_jc·t_j` **exactly**, where `t_c` (the term of the pivot `l_rc·u_cc`) is a
product of two rounding factors and `t_j` (`j < c`) of `c − j + 1`. -/
theorem lu_weights_lower {eps : Fl M} (heps : 0 < eps.val) {A L U : Mat (Fl M)}
    (h : lu eps A = .ok (L, U)) {r c : ℕ} (hcr : c < r) (hr : r < A.h) :
    ∃ t : ℕ → ℝ, M.Fac 2 (t c) ∧ (∀ j, j < c → M.Fac (c - j + 1) (t j)) ∧
      (A.get r c).val = ∑ j ∈ range (c + 1), (L.get r j).val * (U.get j c).val * t j :=
  luL_weights heps (lu_ok_ent h).2 hcr hr

/-- **Weights form, every entry**: `a_ij = Σ_{k<n} l_ik·u_kj·t_k` exactly, every `t_k` an accumulated
factor of at most `n` roundings. -/
theorem lu_weights {eps : Fl M} (heps : 0 < eps.val) {A L U : Mat (Fl M)}
    (h : lu eps A = .ok (L, U)) {i j : ℕ} (hi : i < A.h) (hj : j < A.h) :
    ∃ t : ℕ → ℝ, (∀ k, M.Fac A.h (t k)) ∧
      (A.get i j).val = ∑ k ∈ range A.h, (L.get i k).val * (U.get k j).val * t k :=
  lu_entry_weights heps (lu_ok_ent h).2 hi hj

/-- **Backward error of the LU factorisation (Higham, Thm 9.3).**  `eps > 0`, `n·u < 1`.  Whenever
`lu` returns `(L, U)` for an `n × n` matrix, for all `i, j < n`

    |a_ij − Σ_k l_ik·u_kj| ≤ γ_n · Σ_k |l_ik|·|u_kj|,

the sums being exact real sums over the computed factors. -/
theorem lu_backward {eps : Fl M} (heps : 0 < eps.val) {A L U : Mat (Fl M)}
    (h : lu eps A = .ok (L, U)) (hu : (A.h : ℝ) * M.u < 1) :
    ∀ i j, i < A.h → j < A.h →
      |(A.get i j).val - ∑ k ∈ range A.h, (L.get i k).val * (U.get k j).val|
        ≤ M.gamma A.h * ∑ k ∈ range A.h, |(L.get i k).val| * |(U.get k j).val| := by
  intro i j hi hj
  obtain ⟨t, ht, ha⟩ := lu_weights heps h hi hj
  exact bound_of_weights A.h A.h L U _ i j t ht ha hu

/-- **The same as a perturbation of the input**: there is `ΔA` with `L U = A + ΔA` exactly and
`|ΔA| ≤ γ_n·|L||U|` componentwise. -/
theorem lu_backward_delta {eps : Fl M} (heps : 0 < eps.val) {A L U : Mat (Fl M)}
    (h : lu eps A = .ok (L, U)) (hu : (A.h : ℝ) * M.u < 1) :
    ∃ ΔA : ℕ → ℕ → ℝ,
      (∀ i j, i < A.h → j < A.h →
        ∑ k ∈ range A.h, (L.get i k).val * (U.get k j).val = (A.get i j).val + ΔA i j) ∧
      (∀ i j, i < A.h → j < A.h →
        |ΔA i j| ≤ M.gamma A.h * ∑ k ∈ range A.h, |(L.get i k).val| * |(U.get k j).val|) := by
  refine ⟨fun i j => ∑ k ∈ range A.h, (L.get i k).val * (U.get k j).val - (A.get i j).val,
    fun i j _ _ => by ring, fun i j hi hj => ?_⟩
  rw [abs_sub_comm]
  exact lu_backward heps h hu i j hi hj

/-- **Plain LU in floating point, the theorem of the statement**: shape of the factors and
`L U = A` to within `γ_n·|L||U|`. -/
theorem lu_correct_rounding {eps : Fl M} (heps : 0 < eps.val) {A L U : Mat (Fl M)}
    (h : lu eps A = .ok (L, U)) (hu : (A.h : ℝ) * M.u < 1) :
    A.h = A.w ∧ Square A.h L ∧ Square A.h U ∧ UnitLower A.h L ∧ Upper A.h U ∧
    (∀ i j, i < A.h → j < A.h →
      |(A.get i j).val - prod A.h L U i j| ≤ M.gamma A.h * absProd A.h L U i j) ∧
    (∀ i, i + 1 < A.h → eps.val ≤ |(U.get i i).val| * (1 + M.u)) := by
  obtain ⟨h1, h2, h3, h4, h5, h6⟩ := lu_shape h
  exact ⟨h1, h2, h3, h4, h5, lu_backward heps h hu, h6⟩

/-! ## LU with partial pivoting -/

/-- **Shape of the computed factors and the permutation.**  Whenever `plu` returns `(L, U, P)` at
`Fl M` (`eps > 0`): the input was square, the three results are `n × n`, `P` is the permutation matrix
of some `σ` and `P A` is `A` with its rows permuted by `σ` *exactly* (`(P A)_ij = a_{σ i, j}` as a real
sum: row swaps commit no error), `L` is unit lower triangular, `U` upper triangular, and every pivot
passed the guard. -/
theorem plu_shape {eps : Fl M} (heps : 0 < eps.val) {A L U P : Mat (Fl M)}
    (h : plu eps A = .ok (L, U, P)) :
    A.h = A.w ∧ Square A.h L ∧ Square A.h U ∧ Square A.h P ∧
    ∃ σ : Equiv.Perm (Fin A.h), IsPermMatrix A.h P σ ∧
      (∀ i j : Fin A.h,
        ∑ k ∈ range A.h, (P.get i k).val * (A.get k j).val = (A.get (σ i) j).val) ∧
      UnitLower A.h L ∧ Upper A.h U ∧
      (∀ i, i < A.h → eps.val ≤ |(U.get i i).val| * (1 + M.u)) := by
  obtain ⟨hsq, lu, σ, inv, hL, hU⟩ := plu_ok_fl heps h
  subst hL hU
  have hperm : ∀ i j : Fin A.h,
      P.get i j = if j = permFin σ A.h inv.fix i then 1 else 0 := by
    intro i j
    have := inv.perm i.val j.val i.isLt j.isLt
    simp only at this
    rw [this]
    by_cases hj : j = permFin σ A.h inv.fix i
    · rw [if_pos hj, if_pos (by rw [hj]; rfl)]
    · rw [if_neg hj, if_neg]
      intro hv
      apply hj
      ext
      rw [permFin_val]; exact hv
  refine ⟨hsq, ⟨rfl, rfl, Mat.tab_WF _ _ _⟩, ⟨rfl, rfl, Mat.tab_WF _ _ _⟩,
    ⟨inv.ph, inv.pw, inv.pwf⟩, permFin σ A.h inv.fix, hperm, ?_, ⟨?_, ?_⟩, ?_, ?_⟩
  · intro i j
    rw [Finset.sum_eq_single (σ i.val)]
    · rw [inv.perm i.val (σ i.val) i.isLt (perm_lt inv.fix i.isLt), if_pos rfl, Fl.one_val,
        one_mul]
      rfl
    · intro k hk hne
      rw [inv.perm i.val k i.isLt (mem_range.1 hk), if_neg hne, Fl.zero_val, zero_mul]
    · intro hn
      exact absurd (mem_range.2 (perm_lt inv.fix i.isLt)) hn
  · intro i hi
    rw [splitL_get' _ _ hi hi, if_pos rfl]
  · intro i j hi hj hij
    rw [splitL_get' _ _ hi hj, if_neg (by omega), if_neg (by omega)]
  · intro i j hi hj hji
    rw [splitU_get' _ _ hi hj, if_neg (by omega)]
  · intro i hi
    rw [splitU_get' _ _ hi hi, if_pos (le_refl i)]
    exact le_of_not_sabs_lt (inv.piv i hi)

/-- a permutation matrix determines its permutation -/
theorem isPermMatrix_unique {n : ℕ} {P : Mat (Fl M)} {σ σ' : Equiv.Perm (Fin n)}
    (h : IsPermMatrix n P σ) (h' : IsPermMatrix n P σ') : σ = σ' := by
  ext i
  have h1 := h i (σ i)
  have h2 := h' i (σ i)
  rw [if_pos rfl] at h1
  rw [h1] at h2
  by_cases he : σ i = σ' i
  · rw [he]
  · rw [if_neg he] at h2
    have := congrArg Fl.val h2
    simp at this

/-- **Weights form, every entry of `P A`.**  With `σ` the permutation `P` denotes:
`a_{σ i, j} = Σ_{k<n} l_ik·u_kj·t_k` exactly, every `t_k` an accumulated factor of at most `n − 1`
roundings (the fine counts are in `SV.C09.PluFl`: `k + 1` for the term `k < min i j`, `min i j` resp.
`min i j + 1` for the last one). -/
theorem plu_weights {eps : Fl M} (heps : 0 < eps.val) {A L U P : Mat (Fl M)}
    (h : plu eps A = .ok (L, U, P)) (σ : Equiv.Perm (Fin A.h)) (hσ : IsPermMatrix A.h P σ)
    (i j : Fin A.h) :
    ∃ t : ℕ → ℝ, (∀ k, M.Fac (A.h - 1) (t k)) ∧
      (A.get (σ i) j).val = ∑ k ∈ range A.h, (L.get i k).val * (U.get k j).val * t k := by
  obtain ⟨_, lu, τ, inv, hL, hU⟩ := plu_ok_fl heps h
  subst hL hU
  have hτ : IsPermMatrix A.h P (permFin τ A.h inv.fix) := by
    intro i j
    rw [inv.perm i.val j.val i.isLt j.isLt]
    by_cases hj : j = permFin τ A.h inv.fix i
    · rw [if_pos hj, if_pos (by rw [hj]; rfl)]
    · rw [if_neg hj, if_neg]
      intro hv
      apply hj
      ext
      rw [permFin_val]; exact hv
  rw [isPermMatrix_unique hσ hτ]
  exact plu_entry_weights inv i.isLt j.isLt

/-- **Backward error of the PLU factorisation (Higham, Thm 9.3 with row interchanges), sharp
constant.**  `eps > 0`, `(n−1)·u < 1`.  Whenever `plu` returns `(L, U, P)` for an `n × n` matrix and
`σ` is the permutation `P` denotes, for all `i, j`

    |a_{σ i, j} − Σ_k l_ik·u_kj| ≤ γ_{n−1} · Σ_k |l_ik|·|u_kj|. -/
theorem plu_backward_sharp {eps : Fl M} (heps : 0 < eps.val) {A L U P : Mat (Fl M)}
    (h : plu eps A = .ok (L, U, P)) (hu : ((A.h - 1 : ℕ) : ℝ) * M.u < 1)
    (σ : Equiv.Perm (Fin A.h)) (hσ : IsPermMatrix A.h P σ) (i j : Fin A.h) :
    |(A.get (σ i) j).val - ∑ k ∈ range A.h, (L.get i k).val * (U.get k j).val|
      ≤ M.gamma (A.h - 1) * ∑ k ∈ range A.h, |(L.get i k).val| * |(U.get k j).val| := by
  obtain ⟨t, ht, ha⟩ := plu_weights heps h σ hσ i j
  exact bound_of_weights A.h (A.h - 1) L U _ i j t ht ha hu

/-- **Backward error of the PLU factorisation**, with the constant `γ_n` of the statement:
`|a_{σ i, j} − Σ_k l_ik·u_kj| ≤ γ_n · Σ_k |l_ik|·|u_kj|`. -/
theorem plu_backward {eps : Fl M} (heps : 0 < eps.val) {A L U P : Mat (Fl M)}
    (h : plu eps A = .ok (L, U, P)) (hu : (A.h : ℝ) * M.u < 1)
    (σ : Equiv.Perm (Fin A.h)) (hσ : IsPermMatrix A.h P σ) (i j : Fin A.h) :
    |(A.get (σ i) j).val - ∑ k ∈ range A.h, (L.get i k).val * (U.get k j).val|
      ≤ M.gamma A.h * ∑ k ∈ range A.h, |(L.get i k).val| * |(U.get k j).val| := by
  have hu' := M.hyp_mono (Nat.sub_le A.h 1) hu
  refine (plu_backward_sharp heps h hu' σ hσ i j).trans
    (mul_le_mul_of_nonneg_right (M.gamma_mono (Nat.sub_le A.h 1) hu) ?_)
  exact Finset.sum_nonneg fun _ _ => mul_nonneg (abs_nonneg _) (abs_nonneg _)

/-- **The same against the exact product `P A`** (no permutation in the statement):
`|Σ_k p_ik·a_kj − Σ_k l_ik·u_kj| ≤ γ_n · Σ_k |l_ik|·|u_kj|` for all `i, j < n`. -/
theorem plu_backward_PA {eps : Fl M} (heps : 0 < eps.val) {A L U P : Mat (Fl M)}
    (h : plu eps A = .ok (L, U, P)) (hu : (A.h : ℝ) * M.u < 1) :
    ∀ i j, i < A.h → j < A.h →
      |∑ k ∈ range A.h, (P.get i k).val * (A.get k j).val
          - ∑ k ∈ range A.h, (L.get i k).val * (U.get k j).val|
        ≤ M.gamma A.h * ∑ k ∈ range A.h, |(L.get i k).val| * |(U.get k j).val| := by
  obtain ⟨_, _, _, _, σ, hσ, hPA, _⟩ := plu_shape heps h
  intro i j hi hj
  have := plu_backward heps h hu σ hσ ⟨i, hi⟩ ⟨j, hj⟩
  rw [← hPA ⟨i, hi⟩ ⟨j, hj⟩] at this
  exact this

/-- **As a perturbation of the input**: there is `ΔA` with `L U = P A + ΔA` exactly and
`|ΔA| ≤ γ_n·|L||U|` componentwise. -/
theorem plu_backward_delta {eps : Fl M} (heps : 0 < eps.val) {A L U P : Mat (Fl M)}
    (h : plu eps A = .ok (L, U, P)) (hu : (A.h : ℝ) * M.u < 1) :
    ∃ ΔA : ℕ → ℕ → ℝ,
      (∀ i j, i < A.h → j < A.h →
        ∑ k ∈ range A.h, (L.get i k).val * (U.get k j).val
          = ∑ k ∈ range A.h, (P.get i k).val * (A.get k j).val + ΔA i j) ∧
      (∀ i j, i < A.h → j < A.h →
        |ΔA i j| ≤ M.gamma A.h * ∑ k ∈ range A.h, |(L.get i k).val| * |(U.get k j).val|) := by
  refine ⟨fun i j => ∑ k ∈ range A.h, (L.get i k).val * (U.get k j).val
      - ∑ k ∈ range A.h, (P.get i k).val * (A.get k j).val,
    fun i j _ _ => by ring, fun i j hi hj => ?_⟩
  rw [abs_sub_comm]
  exact plu_backward_PA heps h hu i j hi hj

/-- **PLU in floating point, the theorem of the statement**: shape of the factors, `P` a permutation
matrix, and `L U = P A` to within `γ_n·|L||U|` (row `i` of `P A` is row `σ i` of `A`). -/
theorem plu_correct_rounding {eps : Fl M} (heps : 0 < eps.val) {A L U P : Mat (Fl M)}
    (h : plu eps A = .ok (L, U, P)) (hu : (A.h : ℝ) * M.u < 1) :
    A.h = A.w ∧ Square A.h L ∧ Square A.h U ∧ Square A.h P ∧
    ∃ σ : Equiv.Perm (Fin A.h), IsPermMatrix A.h P σ ∧
      (∀ i j : Fin A.h,
        ∑ k ∈ range A.h, (P.get i k).val * (A.get k j).val = (A.get (σ i) j).val) ∧
      UnitLower A.h L ∧ Upper A.h U ∧
      (∀ i j : Fin A.h,
        |(A.get (σ i) j).val - prod A.h L U i j| ≤ M.gamma A.h * absProd A.h L U i j) ∧
      (∀ i, i < A.h → eps.val ≤ |(U.get i i).val| * (1 + M.u)) := by
  obtain ⟨h1, h2, h3, h4, σ, h5, h6, h7, h8, h9⟩ := plu_shape heps h
  exact ⟨h1, h2, h3, h4, σ, h5, h6, h7, h8, fun i j => plu_backward heps h hu σ h5 i j, h9⟩

/-- **Multipliers.**  With partial pivoting every multiplier of the computed `L` satisfies
`|l_ij| ≤ (1+u)²/(1−u)` (`SV.C09.multBound`; the field theorem's `|l_ij| ≤ 1` up to the roundings of the
`abs` inside the pivot search and of the division). -/
theorem plu_multipliers {eps : Fl M} (heps : 0 < eps.val) {A L U P : Mat (Fl M)}
    (h : plu eps A = .ok (L, U, P)) :
    ∀ i j, i < A.h → j < i → |(L.get i j).val| ≤ (1 + M.u) ^ 2 / (1 - M.u) := by
  obtain ⟨lu, hm, hL, _⟩ := plu_ok_fl_mult heps h
  subst hL
  intro i j hi hji
  rw [splitL_get' _ _ hi (by omega), if_neg (by omega), if_pos hji]
  exact hm i j hi (by omega)

/-! ## exact arithmetic and binary64 -/

/-- With exact arithmetic (`u = 0`) the bound collapses to the reconstruction identity of
`SV.Props.C09.lu_correct`: `L U = A`. -/
theorem lu_backward_ideal {eps : Fl FlModel.ideal} (heps : 0 < eps.val)
    {A L U : Mat (Fl FlModel.ideal)} (h : lu eps A = .ok (L, U)) :
    ∀ i j, i < A.h → j < A.h →
      ∑ k ∈ range A.h, (L.get i k).val * (U.get k j).val = (A.get i j).val := by
  intro i j hi hj
  have hb := lu_backward heps h (by simp [FlModel.ideal]) i j hi hj
  rw [gamma_ideal, zero_mul] at hb
  exact (sub_eq_zero.mp (abs_nonpos_iff.mp hb)).symm

/-- … and to that of `SV.Props.C09.plu_correct`: `L U = P A`. -/
theorem plu_backward_ideal {eps : Fl FlModel.ideal} (heps : 0 < eps.val)
    {A L U P : Mat (Fl FlModel.ideal)} (h : plu eps A = .ok (L, U, P)) :
    ∀ i j, i < A.h → j < A.h →
      ∑ k ∈ range A.h, (L.get i k).val * (U.get k j).val
        = ∑ k ∈ range A.h, (P.get i k).val * (A.get k j).val := by
  intro i j hi hj
  have hb := plu_backward_PA heps h (by simp [FlModel.ideal]) i j hi hj
  rw [gamma_ideal, zero_mul] at hb
  exact (sub_eq_zero.mp (abs_nonpos_iff.mp hb)).symm

/-- with exact arithmetic the multiplier bound is the field theorem's `|l_ij| ≤ 1` -/
theorem plu_multipliers_ideal {eps : Fl FlModel.ideal} (heps : 0 < eps.val)
    {A L U P : Mat (Fl FlModel.ideal)} (h : plu eps A = .ok (L, U, P)) :
    ∀ i j, i < A.h → j < i → |(L.get i j).val| ≤ 1 := by
  intro i j hi hji
  have := plu_multipliers heps h i j hi hji
  simpa [FlModel.ideal] using this

/-- **binary64, numerically.**  For round-to-nearest with a 53-bit significand
(`FlModel.binary64`, no exponent limits) and `n ≤ 2⁵²` the hypothesis on `u` is automatic and
`|a_ij − (L U)_ij| ≤ n·2⁻⁵² · (|L||U|)_ij` — the `n·eps·|L||U|` of the statement, `eps = 2⁻⁵²`. -/
theorem lu_backward_binary64 {eps : Fl FlModel.binary64} (heps : 0 < eps.val)
    {A L U : Mat (Fl FlModel.binary64)} (h : lu eps A = .ok (L, U)) (hn : A.h ≤ 2 ^ 52) :
    ∀ i j, i < A.h → j < A.h →
      |(A.get i j).val - ∑ k ∈ range A.h, (L.get i k).val * (U.get k j).val|
        ≤ (A.h : ℝ) * (2⁻¹ : ℝ) ^ 52
          * ∑ k ∈ range A.h, |(L.get i k).val| * |(U.get k j).val| := by
  intro i j hi hj
  obtain ⟨hu, hg⟩ := FlModel.binary64_gamma_le hn
  refine (lu_backward heps h hu i j hi hj).trans
    (mul_le_mul_of_nonneg_right hg (Finset.sum_nonneg fun k _ => ?_))
  positivity

/-- the same with partial pivoting: `|(P A)_ij − (L U)_ij| ≤ n·2⁻⁵² · (|L||U|)_ij` -/
theorem plu_backward_binary64 {eps : Fl FlModel.binary64} (heps : 0 < eps.val)
    {A L U P : Mat (Fl FlModel.binary64)} (h : plu eps A = .ok (L, U, P)) (hn : A.h ≤ 2 ^ 52) :
    ∀ i j, i < A.h → j < A.h →
      |∑ k ∈ range A.h, (P.get i k).val * (A.get k j).val
          - ∑ k ∈ range A.h, (L.get i k).val * (U.get k j).val|
        ≤ (A.h : ℝ) * (2⁻¹ : ℝ) ^ 52
          * ∑ k ∈ range A.h, |(L.get i k).val| * |(U.get k j).val| := by
  intro i j hi hj
  obtain ⟨hu, hg⟩ := FlModel.binary64_gamma_le hn
  refine (plu_backward_PA heps h hu i j hi hj).trans
    (mul_le_mul_of_nonneg_right hg (Finset.sum_nonneg fun k _ => ?_))
  positivity

/-! ## non-vacuity

The hypotheses are satisfiable in a model with `u > 0` whose rounding is not the identity
(`rnd t = t·(1 + 1/16)`, `u = 1/8`, `2·u < 1`), and there the computed product really differs from the
input, so the bounds above are not `0 ≤ 0` (the runs are evaluated in `SV.Lemmas.RoundingC09Ex`). -/

/-- `lu` on `[[1, 1], [1, 2]]`, `eps = 1/4`: `(L U)₁₁ = r² + (2 − r⁴)·r ≠ 2`, `r = 17/16` -/
example : ∃ (M : FlModel) (eps : Fl M) (A L U : Mat (Fl M)), 0 < M.u ∧ 0 < eps.val ∧
    lu eps A = .ok (L, U) ∧ (A.h : ℝ) * M.u < 1 ∧
    ∑ k ∈ range A.h, (L.get 1 k).val * (U.get k 1).val ≠ (A.get 1 1).val := by
  obtain ⟨L, U, h⟩ := Ex.lu_ex_ok
  exact ⟨Ex.M8, Ex.epsx, Ex.Aex, L, U, by norm_num [FlModel.skew], by norm_num [Ex.epsx], h,
    by norm_num [FlModel.skew, Ex.Aex], Ex.lu_ex_differs h⟩

/-- `plu` on `[[1, 1], [2, 1]]`, `eps = 1/4`: the pivot search swaps the rows and
`(L U)₁₀ = (r/2)·2 = r ≠ 1 = (P A)₁₀` -/
example : ∃ (M : FlModel) (eps : Fl M) (A L U P : Mat (Fl M)), 0 < M.u ∧ 0 < eps.val ∧
    plu eps A = .ok (L, U, P) ∧ (A.h : ℝ) * M.u < 1 ∧ (P.get 0 0).val = 0 ∧
    ∑ k ∈ range A.h, (L.get 1 k).val * (U.get k 0).val
      ≠ ∑ k ∈ range A.h, (P.get 1 k).val * (A.get k 0).val := by
  refine ⟨Ex.M8, Ex.epsx, Ex.Bex, _, _, _, by norm_num [FlModel.skew], by norm_num [Ex.epsx],
    Ex.plu_ex_ok, by norm_num [FlModel.skew, Ex.Bex], ?_, Ex.plu_ex_differs⟩
  rw [Ex.Pfin, swapRows_get' _ (n := 2) rfl rfl 1 0 (by decide) (by decide)]
  simp [Mat.get_ident]

/-- the hypotheses of the `…_ideal` and `…_binary64` corollaries are satisfiable as well: the 1×1
matrix `[1]` is factored in every model (`n = 1`: no guard, no division) -/
example (M : FlModel) : ∃ L U, lu (⟨1⟩ : Fl M) ⟨1, 1, #[1]⟩ = .ok (L, U) := by
  refine Exists.intro ?_ (Exists.intro ?_ ?_)
  pick_goal 3
  unfold lu
  rw [if_neg (not_not.mpr rfl)]
  simp only [iter, luStep]
  rw [if_neg (fun h => absurd h.1 (by decide))]

end SV.Props.C09Rounding
