import SV.Model.Poly
import SV.Props.C02
import SV.Lemmas.C02Agree
import Mathlib.Algebra.BigOperators.Group.List.Basic
import Mathlib.Algebra.Ring.Defs
import Mathlib.Algebra.Order.Field.Basic
import Mathlib.Tactic.Ring
import Mathlib.Tactic.NormNum
/-!
# C02 — the multivariate evaluation sees the bindings only as a finite map, and is a sum over terms

`Poly.evalTerms` (model of `eval_intermediate_polynomial`) receives a *list* of bindings
`(name, value)`; the Rust code collects it into a `HashMap`.  The theorems here say that nothing else
of the list matters:

* `lookup_nil`, `lookup_snoc` — the model's `lookup` *is* the map built by inserting the bindings in
  order (a later binding of a name replaces an earlier one);
* `evalTerms_congr_lookup` (1) — two binding lists that agree as maps give the same outcome, value
  or error, for every term list and every power function (`evalTerms_congr_on_names`: it is enough that
  they agree on the names that occur in the polynomial);
* `evalTerms_perm_bindings` (1a) — permuting a binding list with pairwise distinct names changes
  nothing; `evalTerms_insert_unused` (1b) — nor does a binding, anywhere in the list, of a name that does not
  occur in the polynomial;
* `evalTerms_other_name_is_error`, `evalTerms_case_sensitive` (1c) — names are compared exactly: a
  binding of `"X"` is not a binding of `"x"`, although the two letters agree in `letter & 0x1f` (so a
  table with 32 slots indexed that way is not an implementation of this function);
* `evalTerms_append` (2) — evaluation of `ts₁ ++ ts₂` is the sum of the two evaluations, the first
  error in term order otherwise; `evalTerms_perm_terms` — in a commutative semiring a permutation of
  the terms does not change a successful value, nor the fact of success.
-/
set_option linter.unusedSectionVars false

namespace SV.Props.C02Bindings
open SV SV.Poly

/-! ### the binding list as a finite map -/
section Lookup
variable {S : Type}

private theorem lookup_eq_map (σ : List (String × S)) (w : String) :
    lookup σ w = (σ.reverse.find? (fun p => p.1 = w)).map (·.2) := by
  unfold lookup
  cases σ.reverse.find? (fun p => p.1 = w) <;> rfl

/-- The empty binding list binds nothing. -/
theorem lookup_nil (w : String) : lookup ([] : List (String × S)) w = none := rfl

/-- Two binding lists one after the other: the second list's binding of a name, when there is one,
hides the first list's. -/
theorem lookup_append (a b : List (String × S)) (w : String) :
    lookup (a ++ b) w = (lookup b w).or (lookup a w) := by
  simp only [lookup_eq_map, List.reverse_append, List.find?_append]
  cases List.find? (fun p => decide (p.1 = w)) b.reverse <;> simp

/-- A one-element binding list binds its own name, compared exactly, and nothing else. -/
theorem lookup_single (n : String) (x : S) (w : String) :
    lookup [(n, x)] w = if n = w then some x else none := by
  by_cases h : n = w <;> simp [lookup, h]

/-- **Duplicate rule: the last binding wins.**  Appending one more binding is `HashMap::insert`: the
new name is now bound to the new value whatever it was bound to before, every other name keeps its
binding.  With `lookup_nil` this determines `lookup` completely — it is the map obtained by inserting
the bindings in list order. -/
theorem lookup_snoc (σ : List (String × S)) (n : String) (x : S) (w : String) :
    lookup (σ ++ [(n, x)]) w = if n = w then some x else lookup σ w := by
  rw [lookup_append, lookup_single]
  by_cases h : n = w <;> simp [h]

/-- A name is bound only if it is the name of some binding in the list — exactly that string. -/
theorem lookup_some_mem (σ : List (String × S)) (w : String) (x : S) (h : lookup σ w = some x) :
    (w, x) ∈ σ := by
  rw [lookup_eq_map] at h
  obtain ⟨p, hp, rfl⟩ := Option.map_eq_some_iff.1 h
  have h1 := List.mem_of_find?_eq_some hp
  have h2 := List.find?_some hp
  simp only [decide_eq_true_eq] at h2
  rw [List.mem_reverse] at h1
  rw [← h2]
  exact h1

/-- If no binding in the list has exactly the name `w`, then `w` is unbound. -/
theorem lookup_none_of_not_mem (σ : List (String × S)) (w : String) (h : ∀ p ∈ σ, p.1 ≠ w) :
    lookup σ w = none := by
  cases hl : lookup σ w with
  | none => rfl
  | some x => exact absurd rfl (h _ (lookup_some_mem σ w x hl))

private theorem eq_of_nodup_fst : ∀ (σ : List (String × S)), (σ.map (·.1)).Nodup →
    ∀ p ∈ σ, ∀ q ∈ σ, p.1 = q.1 → p = q
  | [], _, p, hp, _, _, _ => by cases hp
  | r :: rs, hnd, p, hp, q, hq, he => by
    rw [List.map_cons, List.nodup_cons] at hnd
    rcases List.mem_cons.1 hp with rfl | hp' <;> rcases List.mem_cons.1 hq with rfl | hq'
    · rfl
    · exact absurd (List.mem_map.2 ⟨q, hq', he.symm⟩) hnd.1
    · exact absurd (List.mem_map.2 ⟨p, hp', he⟩) hnd.1
    · exact eq_of_nodup_fst rs hnd.2 p hp' q hq' he

/-- With pairwise distinct names the map is just the set of the bindings: `w` is bound to `x` exactly
when `(w, x)` is in the list. -/
theorem lookup_eq_some_iff_of_nodup (σ : List (String × S)) (hnd : (σ.map (·.1)).Nodup)
    (w : String) (x : S) : lookup σ w = some x ↔ (w, x) ∈ σ := by
  refine ⟨lookup_some_mem σ w x, fun hm => ?_⟩
  cases hl : lookup σ w with
  | none =>
    exfalso
    rw [lookup_eq_map, Option.map_eq_none_iff, List.find?_eq_none] at hl
    exact hl (w, x) (List.mem_reverse.2 hm) (by simp)
  | some y =>
    have hm' := lookup_some_mem σ w y hl
    have := eq_of_nodup_fst σ hnd _ hm' _ hm rfl
    rw [Prod.mk.injEq] at this
    rw [this.2]

/-- **A permutation of a binding list with pairwise distinct names is the same map.** -/
theorem lookup_perm (σ₁ σ₂ : List (String × S)) (hp : σ₁.Perm σ₂) (hnd : (σ₁.map (·.1)).Nodup)
    (w : String) : lookup σ₁ w = lookup σ₂ w := by
  have hnd2 : (σ₂.map (·.1)).Nodup := (hp.map _).nodup_iff.1 hnd
  cases h2 : lookup σ₂ w with
  | some x =>
    exact (lookup_eq_some_iff_of_nodup σ₁ hnd w x).2
      (hp.mem_iff.2 ((lookup_eq_some_iff_of_nodup σ₂ hnd2 w x).1 h2))
  | none =>
    cases h1 : lookup σ₁ w with
    | none => rfl
    | some x =>
      have := (lookup_eq_some_iff_of_nodup σ₂ hnd2 w x).2
        (hp.mem_iff.1 ((lookup_eq_some_iff_of_nodup σ₁ hnd w x).1 h1))
      rw [h2] at this
      cases this

/-- A binding of the name `n`, inserted anywhere in the list, does not change what any *other* name
is bound to. -/
theorem lookup_insert_other (a b : List (String × S)) (n : String) (x : S) (w : String)
    (hw : n ≠ w) : lookup (a ++ (n, x) :: b) w = lookup (a ++ b) w := by
  have : a ++ (n, x) :: b = a ++ ([(n, x)] ++ b) := rfl
  rw [this, lookup_append, lookup_append, lookup_append, lookup_single, if_neg hw]
  simp

end Lookup

/-! ### (1) the outcome depends on the bindings only through the map -/
section Congr
variable {S : Type} [Add S] [Mul S] [OfNat S 0]

private theorem termValue_congr (powf : S → S → S) (σ τ : String → Option S)
    (vars : List (String × S)) (acc : S) (h : ∀ p ∈ vars, σ p.1 = τ p.1) :
    termValue powf σ acc vars = termValue powf τ acc vars := by
  induction vars generalizing acc with
  | nil => rfl
  | cons p ps ih =>
    obtain ⟨v, e⟩ := p
    have hv : σ v = τ v := h (v, e) (by simp)
    rw [termValue, termValue, hv]
    cases τ v with
    | none => rfl
    | some x => exact ih _ (fun q hq => h q (by simp [hq]))

private theorem evalTermsFrom_congr (powf : S → S → S) (σ τ : String → Option S)
    (ts : List (Term S)) (acc : S) (h : ∀ t ∈ ts, ∀ p ∈ t.vars, σ p.1 = τ p.1) :
    evalTermsFrom powf σ acc ts = evalTermsFrom powf τ acc ts := by
  induction ts generalizing acc with
  | nil => rfl
  | cons t ts ih =>
    rw [evalTermsFrom, evalTermsFrom, termValue_congr powf σ τ t.vars t.coef (h t (by simp))]
    cases termValue powf τ t.coef t.vars with
    | error e => rfl
    | ok tv => exact ih _ (fun u hu => h u (by simp [hu]))

/-- **(1), sharp form.**  If two binding lists bind every name *that occurs in the polynomial* to
the same value (or both leave it unbound), the evaluation outcome — the value, or the
`VariableNotFound` error with its name — is the same.  Any scalar type, any power function. -/
theorem evalTerms_congr_on_names (powf : S → S → S) (ts : List (Term S)) (σ₁ σ₂ : List (String × S))
    (h : ∀ t ∈ ts, ∀ p ∈ t.vars, lookup σ₁ p.1 = lookup σ₂ p.1) :
    evalTerms powf ts σ₁ = evalTerms powf ts σ₂ :=
  evalTermsFrom_congr powf (lookup σ₁) (lookup σ₂) ts 0 h

/-- **(1) The evaluation depends on the binding list only as a finite map.**  Two binding lists with
the same `lookup` for every name (the last binding of a repeated name counts, see `lookup_snoc`) give
the same outcome, value or error, for every term list.  Order, repetition and length of the list are
invisible. -/
theorem evalTerms_congr_lookup (powf : S → S → S) (ts : List (Term S)) (σ₁ σ₂ : List (String × S))
    (h : ∀ w, lookup σ₁ w = lookup σ₂ w) : evalTerms powf ts σ₁ = evalTerms powf ts σ₂ :=
  evalTerms_congr_on_names powf ts σ₁ σ₂ (fun _ _ p _ => h p.1)

/-- **(1a) Permuting the bindings.**  If the names in the binding list are pairwise distinct, any
permutation of the list gives the same outcome (value or error). -/
theorem evalTerms_perm_bindings (powf : S → S → S) (ts : List (Term S)) (σ₁ σ₂ : List (String × S))
    (hp : σ₁.Perm σ₂) (hnd : (σ₁.map (·.1)).Nodup) :
    evalTerms powf ts σ₁ = evalTerms powf ts σ₂ :=
  evalTerms_congr_lookup powf ts σ₁ σ₂ (lookup_perm σ₁ σ₂ hp hnd)

/-- **(1b) An unused binding.**  A binding of a name that does not occur in the polynomial, inserted
anywhere in the binding list (in front, at the end, in between; whether or not the name is bound
already), does not change the outcome. -/
theorem evalTerms_insert_unused (powf : S → S → S) (ts : List (Term S)) (a b : List (String × S))
    (n : String) (x : S) (hn : ∀ t ∈ ts, ∀ p ∈ t.vars, p.1 ≠ n) :
    evalTerms powf ts (a ++ (n, x) :: b) = evalTerms powf ts (a ++ b) :=
  evalTerms_congr_on_names powf ts _ _
    (fun t ht p hp => lookup_insert_other a b n x p.1 (fun e => hn t ht p hp e.symm))

/-- Repeating a name: only its last binding is seen — every earlier binding of the same name can be
removed from the list without changing the outcome. -/
theorem evalTerms_shadowed (powf : S → S → S) (ts : List (Term S)) (a b c : List (String × S))
    (n : String) (x y : S) :
    evalTerms powf ts (a ++ (n, x) :: b ++ (n, y) :: c) = evalTerms powf ts (a ++ b ++ (n, y) :: c) := by
  apply evalTerms_congr_lookup
  intro w
  by_cases hw : n = w
  · have e1 : a ++ (n, x) :: b ++ (n, y) :: c = (a ++ (n, x) :: b) ++ ([(n, y)] ++ c) := by simp
    have e2 : a ++ b ++ (n, y) :: c = (a ++ b) ++ ([(n, y)] ++ c) := by simp
    rw [e1, e2, lookup_append, lookup_append _ ([(n, y)] ++ c), lookup_append [(n, y)] c,
      lookup_single, if_pos hw]
    cases lookup c w <;> simp
  · have e1 : a ++ (n, x) :: b ++ (n, y) :: c = a ++ (n, x) :: (b ++ (n, y) :: c) := by simp
    have e2 : a ++ b ++ (n, y) :: c = a ++ (b ++ (n, y) :: c) := by simp
    rw [e1, e2, lookup_insert_other _ _ _ _ _ hw]

end Congr

/-! ### (1c) names are compared exactly -/
section Exact

/-- The error names the variable that was looked up: if the first variable of the first term is
unbound, the outcome is `VariableNotFound` of exactly that name (any scalar type). -/
theorem evalTerms_first_unbound {S : Type} [Add S] [Mul S] [OfNat S 0] (powf : S → S → S) (c e : S)
    (n : String) (vs : List (String × S)) (ts : List (Term S)) (σ : List (String × S))
    (h : lookup σ n = none) :
    evalTerms powf (⟨c, (n, e) :: vs⟩ :: ts) σ = .error (.variableNotFound n) := by
  simp [evalTerms, evalTermsFrom, termValue, h]

variable {R : Type} [CommSemiring R]

/-- **(1c) A binding of another name is no binding.**  If the polynomial uses the name `n` and no
binding in the list has exactly the name `n` (whatever else the list binds — names that differ from
`n` only in case, names with the same hash, the same `letter & 0x1f`, …), the outcome is the
`VariableNotFound` error of an unbound name — never a number. -/
theorem evalTerms_other_name_is_error (powf : R → R → R) (ts : List (Term R)) (σ : List (String × R))
    (n : String) (huse : ∃ t ∈ ts, ∃ p ∈ t.vars, p.1 = n) (hσ : ∀ b ∈ σ, b.1 ≠ n) :
    ∃ v, evalTerms powf ts σ = .error (.variableNotFound v) ∧ lookup σ v = none := by
  obtain ⟨t, ht, p, hp, hn⟩ := huse
  exact SV.Props.C02.eval_missing_is_error powf ts σ
    ⟨t, ht, p, hp, by rw [hn]; exact lookup_none_of_not_mem σ n hσ⟩

private theorem singleton_ne {a b : Char} (h : a ≠ b) : String.singleton b ≠ String.singleton a := by
  intro e
  apply h
  have := congrArg String.toList e
  simpa using this.symm

/-- **(1c) for one-letter names** (all names the parser produces, `SV.Props.C02.parse_ok_variables_ascii`):
a polynomial that uses the letter `a`, evaluated with only a *different* character `b` bound, is the
missing-variable error.  In particular for `a = 'x'`, `b = 'X'`, which a table indexed by
`letter & 0x1f` cannot tell apart (`x_X_same_slot`). -/
theorem evalTerms_case_sensitive (powf : R → R → R) (ts : List (Term R)) (a b : Char) (hab : a ≠ b)
    (x : R) (huse : ∃ t ∈ ts, ∃ p ∈ t.vars, p.1 = String.singleton a) :
    ∃ v, evalTerms powf ts [(String.singleton b, x)] = .error (.variableNotFound v) ∧
      lookup [(String.singleton b, x)] v = none := by
  apply evalTerms_other_name_is_error powf ts _ _ huse
  intro p hp
  simp only [List.mem_cons, List.not_mem_nil, or_false] at hp
  subst hp
  exact singleton_ne hab

/-- `'x'` and `'X'` are different characters with the same five low bits (slot 24 of a 32-slot
table indexed by `letter & 0x1f`) — as are `'a'`/`'A'`, …, `'z'`/`'Z'`. -/
theorem x_X_same_slot : 'x' ≠ 'X' ∧ 'x'.toNat &&& 0x1f = 'X'.toNat &&& 0x1f := by decide

/-- **`c·x^e + …` with only `X` bound is `VariableNotFound("x")`**, for every coefficient, exponent,
value bound to `X`, every further factor and term, every power function. -/
theorem evalTerms_x_with_X_bound {S : Type} [Add S] [Mul S] [OfNat S 0] (powf : S → S → S)
    (c e val : S) (vs : List (String × S)) (ts : List (Term S)) :
    evalTerms powf (⟨c, ("x", e) :: vs⟩ :: ts) [("X", val)] = .error (.variableNotFound "x") :=
  evalTerms_first_unbound powf c e "x" vs ts _ (by rw [lookup_single, if_neg (by decide)])

end Exact

/-! ### (2) evaluation is a sum over the terms -/
section Sum
variable {R : Type} [Semiring R]

private theorem evalTermsFrom_append (powf : R → R → R) (σ : String → Option R)
    (ts₁ ts₂ : List (Term R)) (acc : R) :
    evalTermsFrom powf σ acc (ts₁ ++ ts₂) =
      match evalTermsFrom powf σ acc ts₁ with
      | .ok a => evalTermsFrom powf σ a ts₂
      | .error e => .error e := by
  induction ts₁ generalizing acc with
  | nil => rfl
  | cons t ts ih =>
    simp only [List.cons_append, evalTermsFrom]
    cases termValue powf σ t.coef t.vars with
    | error e => rfl
    | ok tv => exact ih _

private theorem evalTermsFrom_acc (powf : R → R → R) (σ : String → Option R)
    (ts : List (Term R)) (acc : R) :
    evalTermsFrom powf σ acc ts =
      match evalTermsFrom powf σ 0 ts with
      | .ok a => .ok (acc + a)
      | .error e => .error e := by
  induction ts generalizing acc with
  | nil => simp [evalTermsFrom]
  | cons t ts ih =>
    simp only [evalTermsFrom]
    cases termValue powf σ t.coef t.vars with
    | error e => rfl
    | ok tv =>
      simp only
      rw [ih (acc + tv), ih (0 + tv)]
      cases evalTermsFrom powf σ 0 ts with
      | error e => rfl
      | ok a => simp [add_assoc]

/-- **(2) Evaluation is a sum over the terms.**  The outcome for `ts₁ ++ ts₂` is: the error of `ts₁`
if `ts₁` fails; otherwise the error of `ts₂` if `ts₂` fails (terms are visited in order, so the error
reported is the first one in term order); otherwise the sum of the two values.  Any semiring, any
power function, any bindings. -/
theorem evalTerms_append (powf : R → R → R) (ts₁ ts₂ : List (Term R)) (σ : List (String × R)) :
    evalTerms powf (ts₁ ++ ts₂) σ =
      match evalTerms powf ts₁ σ with
      | .error e => .error e
      | .ok a =>
        match evalTerms powf ts₂ σ with
        | .error e => .error e
        | .ok b => .ok (a + b) := by
  unfold evalTerms
  rw [evalTermsFrom_append]
  cases h : evalTermsFrom powf (lookup σ) 0 ts₁ with
  | error e => rfl
  | ok a =>
    simp only
    rw [evalTermsFrom_acc]
    cases evalTermsFrom powf (lookup σ) 0 ts₂ <;> rfl

/-- When both parts evaluate, the whole evaluates to the sum. -/
theorem evalTerms_append_ok (powf : R → R → R) (ts₁ ts₂ : List (Term R)) (σ : List (String × R))
    (a b : R) (h₁ : evalTerms powf ts₁ σ = .ok a) (h₂ : evalTerms powf ts₂ σ = .ok b) :
    evalTerms powf (ts₁ ++ ts₂) σ = .ok (a + b) := by
  rw [evalTerms_append, h₁, h₂]

/-- The whole evaluates only if both parts do (no part's failure is swallowed), and then its value
is the sum of theirs. -/
theorem evalTerms_append_ok_iff (powf : R → R → R) (ts₁ ts₂ : List (Term R)) (σ : List (String × R))
    (c : R) : evalTerms powf (ts₁ ++ ts₂) σ = .ok c ↔
      ∃ a b, evalTerms powf ts₁ σ = .ok a ∧ evalTerms powf ts₂ σ = .ok b ∧ c = a + b := by
  rw [evalTerms_append]
  cases evalTerms powf ts₁ σ with
  | error e => simp
  | ok a =>
    cases evalTerms powf ts₂ σ with
    | error e => simp
    | ok b =>
      simp only [Except.ok.injEq, exists_and_left, exists_eq_left']
      exact eq_comm

end Sum

section PermTerms
variable {R : Type} [CommSemiring R]

private theorem bound_of_ok (powf : R → R → R) (ts : List (Term R)) (σ : List (String × R)) (a : R)
    (h : evalTerms powf ts σ = .ok a) :
    ∀ t ∈ ts, ∀ p ∈ t.vars, lookup σ p.1 = some ((lookup σ p.1).getD 0) := by
  intro t ht p hp
  cases hl : lookup σ p.1 with
  | some x => rfl
  | none =>
    obtain ⟨v, hv, _⟩ := SV.Props.C02.eval_missing_is_error powf ts σ ⟨t, ht, p, hp, hl⟩
    rw [h] at hv
    cases hv

/-- **Permuting the terms** (commutative semiring): a permutation of the term list evaluates
successfully exactly when the original does, and to the same value.  (When they fail, both fail with
`VariableNotFound`, but the name reported may differ: it is the first unbound one in term order.) -/
theorem evalTerms_perm_terms (powf : R → R → R) (ts₁ ts₂ : List (Term R)) (hp : ts₁.Perm ts₂)
    (σ : List (String × R)) (a : R) :
    evalTerms powf ts₁ σ = .ok a ↔ evalTerms powf ts₂ σ = .ok a := by
  have key : ∀ (u₁ u₂ : List (Term R)), u₁.Perm u₂ → evalTerms powf u₁ σ = .ok a →
      evalTerms powf u₂ σ = .ok a := by
    intro u₁ u₂ hu h
    have hb := bound_of_ok powf u₁ σ a h
    have h1 := SV.Props.C02.eval_eq_sum_prod powf u₁ σ (fun v => (lookup σ v).getD 0) hb
    have h2 := SV.Props.C02.eval_eq_sum_prod powf u₂ σ (fun v => (lookup σ v).getD 0)
      (fun t ht => hb t (hu.mem_iff.2 ht))
    rw [h2, ← (hu.map _).sum_eq, ← h1, h]
  exact ⟨key ts₁ ts₂ hp, key ts₂ ts₁ hp.symm⟩

/-- Permuting the terms of a polynomial whose evaluation fails: the permuted one fails too, with
`VariableNotFound` of some unbound name. -/
theorem evalTerms_perm_terms_error (powf : R → R → R) (ts₁ ts₂ : List (Term R)) (hp : ts₁.Perm ts₂)
    (σ : List (String × R)) (e : PErr) (h : evalTerms powf ts₁ σ = .error e) :
    ∃ v, evalTerms powf ts₂ σ = .error (.variableNotFound v) ∧ lookup σ v = none := by
  cases h2 : evalTerms powf ts₂ σ with
  | ok a =>
    rw [(evalTerms_perm_terms powf ts₁ ts₂ hp σ a).2 h2] at h
    cases h
  | error e' =>
    by_cases hex : ∃ t ∈ ts₂, ∃ p ∈ t.vars, lookup σ p.1 = none
    · obtain ⟨v, hv, hn⟩ := SV.Props.C02.eval_missing_is_error powf ts₂ σ hex
      rw [h2] at hv
      exact ⟨v, hv, hn⟩
    · exfalso
      have hb : ∀ t ∈ ts₂, ∀ p ∈ t.vars, lookup σ p.1 = some ((lookup σ p.1).getD 0) := by
        intro t ht p hp'
        cases hl : lookup σ p.1 with
        | some x => rfl
        | none => exact absurd ⟨t, ht, p, hp', hl⟩ hex
      rw [SV.Props.C02.eval_eq_sum_prod powf ts₂ σ (fun v => (lookup σ v).getD 0) hb] at h2
      cases h2

end PermTerms

/-! ### (1c) on what the parser returns -/
section Parsed
open SV.Text SV.C02Agree

/-- **(1c) end to end.**  For every text the parser model accepts, every name `n` in the variable list
it returns, and every binding list in which no binding is named exactly `n` — e.g. the text uses `x`
and the caller binds `X` — `eval_intermediate_polynomial` of the parsed polynomial (numbers read in
any field `K`) is the `VariableNotFound` error of an unbound name; it is never a number. -/
theorem parsed_eval_other_name_is_error {K : Type} [Field K] (powf : K → K → K) (cc : CharClass)
    (s : List Char) (p : C02.IParsed) (hp : C02.parse cc s = .ok p) (n : String)
    (hn : n ∈ p.variables) (σ : List (String × K)) (hσ : ∀ b ∈ σ, b.1 ≠ n) :
    ∃ v, evalTerms powf (instPoly K p).terms σ = .error (.variableNotFound v) ∧
      lookup σ v = none := by
  obtain ⟨t, ht, q, hq, hname⟩ := ((SV.Props.C02.parse_canonical cc s p hp).2.2.2 n).1 hn
  apply evalTerms_other_name_is_error powf _ σ n _ hσ
  exact ⟨instTerm K t, List.mem_map.2 ⟨t, ht, rfl⟩, (q.1, numK K q.2),
    List.mem_map.2 ⟨q, hq, rfl⟩, hname⟩

end Parsed

/-! ### non-vacuity over ℚ -/

/-- a power function on `ℚ` for the examples (natural exponents) -/
private def qpow (x e : ℚ) : ℚ := x ^ e.num.toNat

/-- `2·x²·y + 1` with `x ↦ 3, y ↦ 5` and then `x ↦ 1` again: the last binding of `x` is used. -/
example : evalTerms qpow [⟨2, [("x", 2), ("y", 1)]⟩, ⟨1, []⟩] [("x", 3), ("y", 5), ("x", 1)]
    = .ok 11 := by
  simp [evalTerms, evalTermsFrom, termValue, lookup, qpow]
  norm_num

/-- the same value with the bindings in another order and an unused `z` (instances of (1a), (1b)) -/
example : evalTerms qpow [⟨2, [("x", 2), ("y", 1)]⟩, ⟨1, []⟩] [("y", 5), ("z", 7), ("x", 1)]
    = evalTerms qpow [⟨2, [("x", 2), ("y", 1)]⟩, ⟨1, []⟩] [("x", 1), ("y", 5)] := by
  have h := evalTerms_insert_unused qpow [⟨2, [("x", 2), ("y", 1)]⟩, ⟨1, []⟩]
    [("y", 5)] [("x", 1)] "z" 7 (by decide)
  rw [show [("y", (5 : ℚ))] ++ ("z", (7 : ℚ)) :: [("x", (1 : ℚ))] = [("y", 5), ("z", 7), ("x", 1)] from rfl] at h
  rw [h]
  exact evalTerms_perm_bindings qpow _ _ _ (List.Perm.swap _ _ _) (by decide)

/-- `2·x²` with only `X` bound: the missing-variable error for `x`, not `2·5²`. -/
example : evalTerms qpow [⟨2, [("x", 2)]⟩] [("X", 5)] = .error (.variableNotFound "x") :=
  evalTerms_x_with_X_bound qpow 2 2 5 [] []

end SV.Props.C02Bindings
