import SV.Model.C17
import SV.Lemmas.C17
import SV.Lemmas.C17Simple
import SV.Lemmas.C17Model
import SV.Lemmas.C17InterValue
/-!
# C17 — printed polynomials read back as the same polynomial (round-trip theorems)

Property theorems only.  The printers are the models of `SV.Model.C17` (validated text for text against
the Rust `Display` impls and `to_polynomial_string`), the parsers are the models `SV.C01.parse` of
`parse_simple_polynomial` and `SV.C02.parse` of `parse_intermediate_polynomial`.

How one `f64` is spelled is a parameter of the printer models (`Item.text`); the theorems assume of it
what the harness checks on every text Rust produces:

* `IsSpelling t`        the text is a plain decimal spelling `digits[.digits]` with an integer digit
                        (Rust's `{}` and `{:.p}` of a finite `f64` never use an exponent);
* `ItemOK digits it c`  the item describes the number `c`: sign class, unit flag, and the value of the
                        text is `|c|` (default formatting, `digits = none`) resp. within `½·10⁻ᵈ` of
                        `|c|` (`digits = some d`).

Reading of "the value of the text is `|c|`" (DESIGN §3, decimal literals): numbers in the parser models
are the exact rationals of their spellings.  For `{:.d}` the hypothesis holds of the exact value of the
`f64` (Rust rounds the exact binary value correctly to `d` decimals).  For `{}` Rust prints the
shortest decimal that `f64::from_str` maps back to the same `f64`; the theorems then say that this very
spelling arrives, with its sign, at the right position (power, variable) of the parse result — identity
of the `f64`s follows with `from_str(to_string(x)) = x` of Rust's std, which the oracle checks on every
case (exactly, in rationals).

The univariate grammar (`UDec`, `TermSyn`, `render`) and `parse_render` come from C01; the multivariate
grammar (`ITermSyn`, `renderI`) and `parse_renderI` are in `SV.Lemmas.C17Inter`.

Sections: (1) zero trimming, (2) `Display for SimplePolynomial`, (3) `to_polynomial_string`,
(4) `Display for IntermediatePolynomial` / `Display for Term`.
-/
namespace SV.Props.C17Roundtrip
open SV SV.Text SV.C01 SV.C17

/-! ## (1) zero trimming keeps the value -/

/-- **Trimming keeps the value and stays readable.**  For every well-formed unsigned decimal spelling
`u` with at least one integer digit (what `{:.p}` prints, for every number `p` of fraction digits —
`p = u.fp.length` is arbitrary), the text left by `trimFraction` (trailing `0`s of the fraction, then a
trailing point) is again a well-formed spelling `u'` with the same integer digits and the SAME value;
all three number readers of the parsers (`parseUDec`; `parseDec` of the univariate parser, with or
without a sign in front; `parseSignedDec` of the multivariate parser) accept it and return that value. -/
theorem trim_preserves_value (u : UDec) (hu : u.WF) (hip : u.ip ≠ []) :
    ∃ u' : UDec, u'.WF ∧ u'.ip = u.ip ∧ trimFraction u.render = u'.render ∧ u'.value = u.value ∧
      parseUDec (trimFraction u.render) = some (u'.mant, u'.fp.length) ∧
      (∀ neg : Bool, ∃ d,
        parseDec ((if neg then ['-'] else []) ++ trimFraction u.render) = some d ∧
        parseSignedDec ((if neg then ['-'] else []) ++ trimFraction u.render) = some d ∧
        d.val = (if neg then -1 else 1) * u.value) := by
  have hwf := trimU_wf hu hip
  refine ⟨trimU u, hwf, trimU_ip u, trimFraction_render hu, trimU_value u, ?_, ?_⟩
  · rw [trimFraction_render hu]; exact parseUDec_render hwf
  · intro neg
    refine ⟨⟨neg, (trimU u).mant, (trimU u).fp.length⟩, ?_, ?_, ?_⟩
    · rw [trimFraction_render hu]; exact parseDec_render hwf neg
    · rw [trimFraction_render hu]; exact parseSignedDec_render hwf neg
    · rw [Dec.val_mk, trimU_value]

/-- the same on texts: a spelling stays a spelling of the same value -/
theorem trim_preserves_value_text {t : List Char} (h : IsSpelling t) :
    IsSpelling (trimFraction t) ∧ textValue (trimFraction t) = textValue t :=
  ⟨h.trim, textValue_trim h⟩

/-- `textValue` is the number the parser's decimal reader returns -/
theorem textValue_is_parsed {t : List Char} (h : IsSpelling t) (neg : Bool) :
    ∃ d, parseDec ((if neg then ['-'] else []) ++ t) = some d ∧
      d.val = (if neg then -1 else 1) * textValue t := parseDec_spelling h neg

/-- the trimming before the repair (D10): trailing `0`s, then a trailing `.`, of the WHOLE text -/
def trimOld (s : List Char) : List Char := trimEnd '.' (trimEnd '0' s)

/-- … does not keep the value: `{:.0}` of 10 is `"10"`, which it turns into `"1"` -/
example : trimOld "10".toList = "1".toList ∧ trimFraction "10".toList = "10".toList := by decide

example : (parseDec (trimOld "10".toList)).map Dec.val ≠ (parseDec "10".toList).map Dec.val := by
  have h1 : parseDec (trimOld "10".toList) = some ⟨false, 1, 0⟩ := by decide
  have h2 : parseDec "10".toList = some ⟨false, 10, 0⟩ := by decide
  rw [h1, h2]
  norm_num [Dec.val]

/-- The hypothesis "at least one integer digit" cannot be dropped (`".0"` would be trimmed to the empty
text); Rust's formatter always prints one (`0.5`, never `.5`). -/
example : trimFraction ".0".toList = [] ∧ parseDec [] = none := by decide

/-- non-vacuity: `"12.500"` is a spelling, is trimmed to `"12.5"`, value 25/2 -/
example : IsSpelling "12.500".toList ∧ trimFraction "12.500".toList = "12.5".toList ∧
    textValue "12.500".toList = 25 / 2 := by
  refine ⟨isSpelling_of_b (by decide), by decide, ?_⟩
  have : udecOf "12.500".toList = ⟨['1', '2'], ['5', '0', '0'], true⟩ := by
    simp [udecOf, splitAtChar]
  rw [textValue, this]
  have hm : digitsVal (['1', '2'] ++ ['5', '0', '0']) = 12500 := by decide
  simp only [UDec.value, UDec.mant, hm]
  norm_num

/-! ## (2) `Display for SimplePolynomial` reads back -/

/-- **What the parser reads from a printed coefficient vector** (all formatter precisions at once; the
value statement below follows from it).  Let `items` be the coefficients of a vector (position `k` =
power `k`), every non-zero one spelled as a plain decimal.  For every variable letter (`None` prints
`x`), every classification `cc` with the disjointness facts in which the blank is white space, and
both printing modes (`prec = true`: `{:.p}` texts with zero trimming):

* the parser accepts the printed text;
* the variable it reports is the letter iff some item above the constant is non-zero;
* the vector reaches exactly up to the highest non-zero item (one entry for the zero polynomial);
* position `k` reads as `readBack items k`: 0 for a zero or absent item, else sign × (1 if the
  coefficient was elided — unit flag set and `k ≠ 0` —, else the value of the item's text; under a
  precision that is also the value of the *trimmed* text that is actually printed). -/
theorem simple_display_readback {cc : CharClass} (hcc : cc.Sane) (hsp : cc.isWs ' ' = true) (cap : Nat)
    (prec : Bool) (var : Option Char) (hv : cc.isAlpha (var.getD 'x') = true) {items : List Item}
    (hlen : items.length ≤ cap + 1) (h : ItemsSpelled items) :
    ∃ p, parse cc cap (displaySimple prec var items) = .ok p ∧
      (p.var = some (var.getD 'x') ∨ p.var = none) ∧
      (p.var = some (var.getD 'x') ↔ ∃ k it, 1 ≤ k ∧ items[k]? = some it ∧ it.sign ≠ .zero) ∧
      (∀ k it, items[k]? = some it → it.sign ≠ .zero → k < p.coeffs.length) ∧
      (p.coeffs.length = 1 ∨ ∃ it, items[p.coeffs.length - 1]? = some it ∧ it.sign ≠ .zero) ∧
      ∀ k, (p.coeffs.getD k Num.zero).val = readBack items k := by
  obtain ⟨p, hp, hvar, hl, hval⟩ := parse_displaySimple hcc hsp cap prec var hv hlen h
  have hmax := maxPow_simpleTerms prec items
  have hw := writesVar_simpleTerms prec items
  refine ⟨p, hp, ?_, ?_, ?_, ?_, hval⟩
  · rw [hvar]; split <;> simp
  · rw [hvar, ← hw]; split <;> simp_all
  · intro k it hk hz
    rw [hl]; exact Nat.lt_succ_of_le (hmax.1 k it hk hz)
  · rw [hl, Nat.add_sub_cancel]
    rcases hmax.2 with h0 | h1
    · left; rw [h0]
    · right; exact h1

/-- **Default formatting: identical coefficients.**  If the items describe the rational coefficient
vector `cs` (`ItemsOK none`: signs, unit flags, and every text is a spelling whose value is `|c_k|` —
Rust's `{}` prints the shortest decimal that reads back to the same `f64`), the printed text is
accepted and position `k` of the result is `c_k`, for every `k` (0 beyond the end).  This covers the
sign and spacing rules, a leading `" - "`, unit-coefficient elision (the parser re-inserts exactly the
1 that was elided), skipped zero coefficients, and the zero polynomial.  (`prec` may be either mode:
trimming does not change a value.) -/
theorem simple_display_roundtrip {cc : CharClass} (hcc : cc.Sane) (hsp : cc.isWs ' ' = true) (cap : Nat)
    (prec : Bool) (var : Option Char) (hv : cc.isAlpha (var.getD 'x') = true) {items : List Item}
    {cs : List ℚ} (hlen : cs.length ≤ cap + 1) (h : ItemsOK none items cs) :
    ∃ p, parse cc cap (displaySimple prec var items) = .ok p ∧
      p.coeffs.length ≤ max cs.length 1 ∧
      ∀ k, (p.coeffs.getD k Num.zero).val = cs.getD k 0 := by
  obtain ⟨p, hp, _, _, _, hl, hval⟩ := simple_display_readback hcc hsp cap prec var hv
    (by rw [h.1]; exact hlen) h.spelled
  refine ⟨p, hp, ?_, fun k => by rw [hval k, readBack_exact h k]⟩
  rcases hl with h1 | ⟨it, hk, _⟩
  · rw [h1]; exact le_max_right _ _
  · have := (List.getElem?_eq_some_iff.1 hk).1
    rw [h.1] at this
    exact le_trans (by omega) (le_max_left _ _)

/-- **Precision formatting: within half a unit of the last decimal.**  If every text is a spelling
within `½·10⁻ᵈ` of `|c_k|` (`{:.d}` rounds to `d` decimals), the printed text — with its zeros trimmed —
is accepted and position `k` of the result is within `½·10⁻ᵈ` of `c_k`, for every `k`. -/
theorem simple_display_roundtrip_prec {cc : CharClass} (hcc : cc.Sane) (hsp : cc.isWs ' ' = true)
    (cap : Nat) (prec : Bool) (var : Option Char) (hv : cc.isAlpha (var.getD 'x') = true)
    {items : List Item} {cs : List ℚ} (d : Nat) (hlen : cs.length ≤ cap + 1)
    (h : ItemsOK (some d) items cs) :
    ∃ p, parse cc cap (displaySimple prec var items) = .ok p ∧
      p.coeffs.length ≤ max cs.length 1 ∧
      ∀ k, |(p.coeffs.getD k Num.zero).val - cs.getD k 0| ≤ 1 / 2 * (1 / 10 : ℚ) ^ d := by
  obtain ⟨p, hp, _, _, _, hl, hval⟩ := simple_display_readback hcc hsp cap prec var hv
    (by rw [h.1]; exact hlen) h.spelled
  refine ⟨p, hp, ?_, fun k => by rw [hval k]; exact readBack_prec h k⟩
  rcases hl with h1 | ⟨it, hk, _⟩
  · rw [h1]; exact le_max_right _ _
  · have := (List.getElem?_eq_some_iff.1 hk).1
    rw [h.1] at this
    exact le_trans (by omega) (le_max_left _ _)

/-- The two statements at the driver's classification and the code's `MAX_POWER` (65536): every
coefficient vector of up to 65537 entries, every alphabetic variable letter. -/
theorem simple_display_roundtrip_std (prec : Bool) (var : Option Char)
    (hv : stdClass.isAlpha (var.getD 'x') = true) {items : List Item} {cs : List ℚ}
    (hlen : cs.length ≤ 65537) :
    (ItemsOK none items cs →
      ∃ p, parse stdClass SV.Gen.simpleMaxPower (displaySimple prec var items) = .ok p ∧
        ∀ k, (p.coeffs.getD k Num.zero).val = cs.getD k 0) ∧
    (∀ d, ItemsOK (some d) items cs →
      ∃ p, parse stdClass SV.Gen.simpleMaxPower (displaySimple prec var items) = .ok p ∧
        ∀ k, |(p.coeffs.getD k Num.zero).val - cs.getD k 0| ≤ 1 / 2 * (1 / 10 : ℚ) ^ d) := by
  constructor
  · intro h
    obtain ⟨p, hp, _, hval⟩ := simple_display_roundtrip stdClass_sane (by decide)
      SV.Gen.simpleMaxPower prec var hv (by simpa [SV.Gen.simpleMaxPower] using hlen) h
    exact ⟨p, hp, hval⟩
  · intro d h
    obtain ⟨p, hp, _, hval⟩ := simple_display_roundtrip_prec stdClass_sane (by decide)
      SV.Gen.simpleMaxPower prec var hv d (by simpa [SV.Gen.simpleMaxPower] using hlen) h
    exact ⟨p, hp, hval⟩

/-- **The zero polynomial** (all coefficients zero, also the empty vector) is printed as `0` and reads
back as the zero polynomial `[0]` without a variable. -/
theorem zero_polynomial_roundtrip {cc : CharClass} (hcc : cc.Sane) (hsp : cc.isWs ' ' = true) (cap : Nat)
    (prec : Bool) (var : Option Char) (hv : cc.isAlpha (var.getD 'x') = true) {items : List Item}
    (hlen : items.length ≤ cap + 1) (hz : ∀ it ∈ items, it.sign = .zero) :
    displaySimple prec var items = ['0'] ∧
      ∃ p, parse cc cap ['0'] = .ok p ∧ p.var = none ∧ p.coeffs.length = 1 ∧
        ∀ k, (p.coeffs.getD k Num.zero).val = 0 := by
  have hd := displaySimple_zero prec var hz
  refine ⟨hd, ?_⟩
  have hsp' : ItemsSpelled items := fun it hit hne => absurd (hz it hit) hne
  obtain ⟨p, hp, hv1, hv2, _, hl, hval⟩ := simple_display_readback hcc hsp cap prec var hv hlen hsp'
  rw [hd] at hp
  have hnone : ∀ (k : Nat) (it : Item), items[k]? = some it → it.sign = .zero := fun k it hk =>
    hz it (List.mem_of_getElem? hk)
  refine ⟨p, hp, ?_, ?_, ?_⟩
  · rcases hv1 with h1 | h1
    · obtain ⟨k, it, _, hk, hne⟩ := hv2.1 h1
      exact absurd (hnone k it hk) hne
    · exact h1
  · rcases hl with h1 | ⟨it, hk, hne⟩
    · exact h1
    · exact absurd (hnone _ it hk) hne
  · intro k
    rw [hval k]
    unfold readBack
    cases hk : items[k]? with
    | none => rfl
    | some it => simp [rv, hnone k it hk]

/-! ### non-vacuity: `1 − 2.5x² + x³` -/

/-- the items of the coefficient vector `[1, 0, -2.5, 1]` under default formatting -/
def exItems : List Item :=
  [⟨.pos, true, "1".toList⟩, ⟨.zero, false, "0".toList⟩, ⟨.neg, false, "2.5".toList⟩,
    ⟨.pos, true, "1".toList⟩]

/-- … and under `{:.3}` -/
def exItemsP : List Item :=
  [⟨.pos, true, "1.000".toList⟩, ⟨.zero, false, "0.000".toList⟩, ⟨.neg, false, "2.500".toList⟩,
    ⟨.pos, true, "1.000".toList⟩]

/-- both are printed as `x^3 - 2.5x^2 + 1` (the models evaluated by the kernel) -/
example : displaySimple false (some 'x') exItems = "x^3 - 2.5x^2 + 1".toList ∧
    displaySimple true (some 'x') exItemsP = "x^3 - 2.5x^2 + 1".toList := by decide

/-- the hypotheses of `simple_display_roundtrip` are satisfiable: the items describe `[1, 0, -5/2, 1]` -/
theorem exItems_ok : ItemsOK none exItems [1, 0, -5 / 2, 1] := by
  have one : ItemOK none ⟨.pos, true, "1".toList⟩ 1 :=
    ⟨by simp [signOfQ], fun _ => by norm_num, fun _ => isSpelling_of_b (by decide), fun _ => by
      rw [textValue_of_parse (m := 1) (sc := 0) (by decide) (by decide)]; norm_num⟩
  have zero : ItemOK none ⟨.zero, false, "0".toList⟩ 0 :=
    ⟨by simp [signOfQ], fun h => by simp at h, fun h => absurd rfl h, fun h => absurd rfl h⟩
  have neg : ItemOK none ⟨.neg, false, "2.5".toList⟩ (-5 / 2) :=
    ⟨by norm_num [signOfQ], fun h => by simp at h, fun _ => isSpelling_of_b (by decide), fun _ => by
      rw [textValue_of_parse (m := 25) (sc := 1) (by decide) (by decide)]; norm_num [abs_of_neg]⟩
  exact .cons one (.cons zero (.cons neg (.cons one (.nil _))))

/-- … so the printed text `x^3 - 2.5x^2 + 1` reads back as exactly those coefficients -/
example : ∃ p, parse stdClass 65536 "x^3 - 2.5x^2 + 1".toList = .ok p ∧
    ∀ k, (p.coeffs.getD k Num.zero).val = ([1, 0, -5 / 2, 1] : List ℚ).getD k 0 := by
  obtain ⟨p, hp, _, hval⟩ := simple_display_roundtrip stdClass_sane (by decide) 65536 false (some 'x')
    (by decide) (by decide) exItems_ok
  exact ⟨p, hp, hval⟩

/-- the `{:.3}` items are within `½·10⁻³` (here exactly equal), and the trimmed text reads back -/
theorem exItemsP_ok : ItemsOK (some 3) exItemsP [1, 0, -5 / 2, 1] := by
  have one : ItemOK (some 3) ⟨.pos, true, "1.000".toList⟩ 1 :=
    ⟨by simp [signOfQ], fun _ => by norm_num, fun _ => isSpelling_of_b (by decide), fun _ => by
      show |textValue "1.000".toList - abs (1 : ℚ)| ≤ _
      rw [textValue_of_parse (m := 1000) (sc := 3) (by decide) (by decide)]; norm_num⟩
  have zero : ItemOK (some 3) ⟨.zero, false, "0.000".toList⟩ 0 :=
    ⟨by simp [signOfQ], fun h => by simp at h, fun h => absurd rfl h, fun h => absurd rfl h⟩
  have neg : ItemOK (some 3) ⟨.neg, false, "2.500".toList⟩ (-5 / 2) :=
    ⟨by norm_num [signOfQ], fun h => by simp at h, fun _ => isSpelling_of_b (by decide), fun _ => by
      show |textValue "2.500".toList - abs (-5 / 2 : ℚ)| ≤ _
      rw [textValue_of_parse (m := 2500) (sc := 3) (by decide) (by decide)]; norm_num [abs_of_neg]⟩
  exact .cons one (.cons zero (.cons neg (.cons one (.nil _))))

example : ∃ p, parse stdClass 65536 (displaySimple true (some 'x') exItemsP) = .ok p ∧
    ∀ k, |(p.coeffs.getD k Num.zero).val - ([1, 0, -5 / 2, 1] : List ℚ).getD k 0| ≤
      1 / 2 * (1 / 10 : ℚ) ^ 3 := by
  obtain ⟨p, hp, _, hval⟩ := simple_display_roundtrip_prec stdClass_sane (by decide) 65536 true
    (some 'x') (by decide) 3 (by decide) exItemsP_ok
  exact ⟨p, hp, hval⟩

/-- a leading `" - "` and an explicit unit constant: `[-1, -1]` is printed ` - x - 1` -/
example : displaySimple false none [⟨.neg, true, "1".toList⟩, ⟨.neg, true, "1".toList⟩] =
    " - x - 1".toList := by decide

/-! ## (3) `LinearModel::to_polynomial_string` reads back -/

/-- **What the parser reads from a model string.**  `items` are the coefficients of a fitted model in
ascending order, every non-zero one spelled as `-`? + plain decimal (`SignedSpelled`: the `-` is there
iff the coefficient is negative).  The text — parts joined by `" + "`, then `"+ -"` rewritten to `"- "` —
is accepted, the result is not longer than the coefficient vector, and position `k` reads as
`readBackM items k`: 0 for a zero or absent item, else sign × (1 if the coefficient was elided — unit
flag set and `k ≠ 0` —, else the value of the text after its sign). -/
theorem model_string_readback {cc : CharClass} (hcc : cc.Sane) (hsp : cc.isWs ' ' = true) (cap : Nat)
    (hx : cc.isAlpha 'x' = true) {items : List Item} (hlen : items.length ≤ cap + 1)
    (h : ItemsSignedSpelled items) :
    ∃ p, parse cc cap (modelString items) = .ok p ∧
      p.coeffs.length ≤ max items.length 1 ∧
      ∀ k, (p.coeffs.getD k Num.zero).val = readBackM items k := by
  obtain ⟨p, hp, _, hl, hval⟩ := parse_modelString hcc hsp cap hx hlen h
  exact ⟨p, hp, by rw [hl]; exact maxPow_modelTerms_lt items, hval⟩

/-- **The model string reads back within half a unit of the last printed decimal** (the code prints
`{:.5}`, so `d = 5`; the statement holds for every `d`): if every non-zero coefficient `c_k` is printed
as a signed spelling within `½·10⁻ᵈ` of it, unit coefficients (`±1`) being elided above the constant,
then the parser accepts `to_polynomial_string()` and position `k` of the result is within `½·10⁻ᵈ` of
`c_k`, for every `k`.  Covers the ascending order, skipped zero coefficients, the all-zero model (`0`),
a negative first part, and the `"+ -" → "- "` rewrite. -/
theorem model_string_roundtrip {cc : CharClass} (hcc : cc.Sane) (hsp : cc.isWs ' ' = true) (cap : Nat)
    (hx : cc.isAlpha 'x' = true) {items : List Item} {cs : List ℚ} (d : Nat)
    (hlen : cs.length ≤ cap + 1) (h : MItemsOK d items cs) :
    ∃ p, parse cc cap (modelString items) = .ok p ∧
      p.coeffs.length ≤ max cs.length 1 ∧
      ∀ k, |(p.coeffs.getD k Num.zero).val - cs.getD k 0| ≤ 1 / 2 * (1 / 10 : ℚ) ^ d := by
  obtain ⟨p, hp, hl, hval⟩ := model_string_readback hcc hsp cap hx (by rw [h.1]; exact hlen) h.spelled
  exact ⟨p, hp, by rw [← h.1]; exact hl, fun k => by rw [hval k]; exact readBackM_prec h k⟩

/-- The rewrite step in isolation, for every well-formed term list (not only those a model produces):
the parts of the terms joined by `" + "`, rewritten, are — up to white space — the rendering of the
terms; so the rewrite never changes what is read. -/
theorem plus_minus_rewrite_is_render {cc : CharClass} (hcc : cc.Sane) (hsp : cc.isWs ' ' = true)
    {cap : Nat} {v : Char} (hv : cc.isAlpha v = true) (t : TermSyn) (ts : List TermSyn)
    (hts : WellFormed cap (t :: ts)) :
    stripWs cc (replacePlusMinus (" + ".toList.intercalate ((t :: ts).map (TermSyn.renderPart v)))) =
      render v false (t :: ts) := stripWs_joined hcc hsp hv t ts hts

/-! ### non-vacuity: the model `1.5 − 2x + x² − x⁴` -/

/-- the items of the coefficients `[1.5, -2, 1, 0, -1]` (`{:.5}` texts of the signed values) -/
def exModel : List Item :=
  [⟨.pos, false, "1.50000".toList⟩, ⟨.neg, false, "-2.00000".toList⟩, ⟨.pos, true, "1.00000".toList⟩,
    ⟨.zero, false, "0.00000".toList⟩, ⟨.neg, true, "-1.00000".toList⟩]

example : modelString exModel = "1.50000 - 2.00000x + x^2 - x^4".toList := by decide

theorem exModel_ok : MItemsOK 5 exModel [3 / 2, -2, 1, 0, -1] := by
  have i0 : MItemOK 5 ⟨.pos, false, "1.50000".toList⟩ (3 / 2) :=
    ⟨by norm_num [signOfQ], fun h => by simp at h,
      fun _ => ⟨"1.50000".toList, isSpelling_of_b (by decide), by decide⟩, fun _ => by
      rw [show absText ⟨.pos, false, "1.50000".toList⟩ = "1.50000".toList by decide,
        textValue_of_parse (m := 150000) (sc := 5) (by decide) (by decide)]
      norm_num [abs_of_pos]⟩
  have i1 : MItemOK 5 ⟨.neg, false, "-2.00000".toList⟩ (-2) :=
    ⟨by norm_num [signOfQ], fun h => by simp at h,
      fun _ => ⟨"2.00000".toList, isSpelling_of_b (by decide), by decide⟩, fun _ => by
      rw [show absText ⟨.neg, false, "-2.00000".toList⟩ = "2.00000".toList by decide,
        textValue_of_parse (m := 200000) (sc := 5) (by decide) (by decide)]
      norm_num [abs_of_neg]⟩
  have i2 : MItemOK 5 ⟨.pos, true, "1.00000".toList⟩ 1 :=
    ⟨by norm_num [signOfQ], fun _ => by norm_num,
      fun _ => ⟨"1.00000".toList, isSpelling_of_b (by decide), by decide⟩, fun _ => by
      rw [show absText ⟨.pos, true, "1.00000".toList⟩ = "1.00000".toList by decide,
        textValue_of_parse (m := 100000) (sc := 5) (by decide) (by decide)]
      norm_num⟩
  have i3 : MItemOK 5 ⟨.zero, false, "0.00000".toList⟩ 0 :=
    ⟨by simp [signOfQ], fun h => by simp at h, fun h => absurd rfl h, fun h => absurd rfl h⟩
  have i4 : MItemOK 5 ⟨.neg, true, "-1.00000".toList⟩ (-1) :=
    ⟨by norm_num [signOfQ], fun _ => by norm_num,
      fun _ => ⟨"1.00000".toList, isSpelling_of_b (by decide), by decide⟩, fun _ => by
      rw [show absText ⟨.neg, true, "-1.00000".toList⟩ = "1.00000".toList by decide,
        textValue_of_parse (m := 100000) (sc := 5) (by decide) (by decide)]
      norm_num⟩
  exact .cons i0 (.cons i1 (.cons i2 (.cons i3 (.cons i4 (.nil _)))))

example : ∃ p, parse stdClass 65536 "1.50000 - 2.00000x + x^2 - x^4".toList = .ok p ∧
    ∀ k, |(p.coeffs.getD k Num.zero).val - ([3 / 2, -2, 1, 0, -1] : List ℚ).getD k 0| ≤
      1 / 2 * (1 / 10 : ℚ) ^ 5 := by
  obtain ⟨p, hp, _, hval⟩ := model_string_roundtrip stdClass_sane (by decide) 65536 (by decide) 5
    (by decide) exModel_ok
  exact ⟨p, hp, hval⟩

/-! ## (4) `Display for IntermediatePolynomial` and `Display for Term` read back

Parser: the model `SV.C02.parse` of `parse_intermediate_polynomial`.  The grammar of what the printers
produce (`ITermSyn`, `VarSyn`, `renderI`: plain-decimal coefficients, single ASCII letters, optional
signed plain-decimal exponents) is defined in `SV.Lemmas.C17Inter`. -/

/-- **Every text of the printers' grammar is accepted by the multivariate parser and read as written**
(any spacing): the terms in order, coefficient `±1` where omitted, exponent 1 where omitted, exponents
of a repeated letter added, variables of a term sorted by name; the variable list is the sorted set of
letters.  `NumSane` adds to `Sane` that ASCII digits are numeric and ASCII letters are neither numeric
nor white space (proved for the driver's classification: `std_class_numSane`). -/
theorem inter_parse_render {cc : CharClass} (hn : NumSane cc) {ts : List ITermSyn}
    (hts : IWellFormed ts) {s : List Char} (hs : stripWs cc s = renderI ts) :
    C02.parse cc s = .ok ⟨ts.map ITermSyn.read, namesOf (ts.map ITermSyn.read)⟩ :=
  parse_renderI hn hts hs

theorem std_class_numSane : NumSane stdClass := stdClass_numSane

/-- **What the parser reads from a printed multivariate polynomial**, as an equation, for both printing
modes.  Hypothesis per term (`InterItemOK`): a printed coefficient is a plain decimal spelling (of the
magnitude), every variable name is one ASCII letter, every printed exponent is `-`? + spelling.  No
hypothesis on order or repetition of variables: the result says what the parser makes of them
(`ITermSyn.read`: merge, then sort).  The empty polynomial is printed `0` and read as the single
constant term 0. -/
theorem inter_display_readback {cc : CharClass} (hcc : cc.Sane) (hn : NumSane cc)
    (hsp : cc.isWs ' ' = true) (prec : Bool) (terms : List ITermItems)
    (h : ∀ t ∈ terms, InterItemOK t) :
    C02.parse cc (displayInter prec terms) =
      .ok ⟨(interSyns prec terms).map ITermSyn.read,
        namesOf ((interSyns prec terms).map ITermSyn.read)⟩ :=
  parse_renderI hn (interSyns_wf prec h) (stripWs_displayInter hcc hn hsp prec terms h)

/-- **`Display for IntermediatePolynomial` reads back as the same polynomial.**  Let the printed terms
describe the rational terms `qs` (`InterTermOK digits`: sign, unit flag, coefficient text a spelling of
`|c|`, each variable an ASCII letter with exponent 1 if elided and else a signed spelling of the
exponent, letters of a term strictly ascending — the form the parser itself produces; "spelling of"
means equal for `digits = none` (default formatting) and within `½·10⁻ᵈ` for `digits = some d`).  Then
the printed text (either mode; under a precision with the zeros trimmed) is accepted and the parsed
terms are, one by one and in order, the terms `qs`: the same letters, coefficients and exponents equal
resp. within `½·10⁻ᵈ`.  Covers the leading `-`, `" + "`/`" - "`, unit-coefficient elision, exponent
elision, negative and fractional exponents. -/
theorem inter_display_roundtrip {cc : CharClass} (hcc : cc.Sane) (hn : NumSane cc)
    (hsp : cc.isWs ' ' = true) (prec : Bool) (digits : Option Nat) {terms : List ITermItems}
    {qs : List QTerm} (hne : terms ≠ []) (h : List.Forall₂ (InterTermOK digits) terms qs) :
    ∃ p, C02.parse cc (displayInter prec terms) = .ok p ∧
      List.Forall₂ (TermReads digits) p.terms qs ∧ p.variables = namesOf p.terms := by
  have hok : ∀ t ∈ terms, InterItemOK t := by
    intro t ht
    induction h with
    | nil => simp at ht
    | cons hab _ ih =>
      rcases List.mem_cons.1 ht with rfl | ht
      · exact hab.itemOK
      · exact ih (by
          intro e; subst e; simp at ht) ht
  refine ⟨_, inter_display_readback hcc hn hsp prec terms hok, ?_, rfl⟩
  simp only [interSyns, if_neg hne, List.map_map]
  rw [List.forall₂_map_left_iff]
  exact h.imp fun t q htq => htq.reads prec

/-- the empty polynomial: printed `0`, read as the constant term 0 with no variables -/
theorem inter_zero_roundtrip {cc : CharClass} (hcc : cc.Sane) (hn : NumSane cc)
    (hsp : cc.isWs ' ' = true) (prec : Bool) :
    displayInter prec [] = ['0'] ∧
      ∃ p, C02.parse cc ['0'] = .ok p ∧ p.variables = [] ∧
        ∃ c, p.terms = [⟨c, []⟩] ∧ c.val = 0 := by
  have hread : zeroI.read = ⟨zeroI.num, []⟩ := by
    have : readVars zeroI.vars = [] := by
      rw [readVars_sorted _ (by simp [zeroI])]; simp [zeroI]
    simp only [ITermSyn.read, this]
  refine ⟨rfl, _, inter_display_readback hcc hn hsp prec [] (fun t ht => by simp at ht), ?_,
    zeroI.num, ?_, ?_⟩
  · simp [interSyns, hread, namesOf]
  · simp [interSyns, hread]
  · simp [zeroI, ITermSyn.num, Dec.val, UDec.mant, digitsVal, digitVal]

/-- **`Display for Term` reads back as the same term** (parsed as a one-term polynomial): if the items
describe the rational term `q` (`TermTermOK`: the coefficient text is `-`? + spelling of `c`, elided
only if `c = 1` and there are variables; variables as above), the parser accepts the text and returns
exactly one term, which is `q`. -/
theorem term_display_roundtrip {cc : CharClass} (hcc : cc.Sane) (hn : NumSane cc)
    (digits : Option Nat) {t : ITermItems} {q : QTerm} (h : TermTermOK digits t q) :
    ∃ p, C02.parse cc (displayTerm t) = .ok p ∧ List.Forall₂ (TermReads digits) p.terms [q] := by
  have hwf : IWellFormed [termSyn t] := by
    intro t' ht'
    simp only [List.mem_cons, List.not_mem_nil, or_false] at ht'
    subst ht'
    exact termSyn_wf h.itemOK
  have hs : stripWs cc (displayTerm t) = renderI [termSyn t] := by
    rw [displayTerm_eq h.itemOK]
    exact stripWs_renderI hcc hn hwf
  refine ⟨_, parse_renderI hn hwf hs, ?_⟩
  simp only [List.map_cons, List.map_nil]
  exact .cons h.reads .nil

/-! ### non-vacuity: `-2.5x^2y^-0.5 + z` -/

/-- the items of `−2.5·x²·y^(−0.5) + z` -/
def exInter : List ITermItems :=
  [⟨⟨.neg, false, "2.5".toList⟩, [("x", ⟨.pos, false, "2".toList⟩), ("y", ⟨.neg, false, "-0.5".toList⟩)]⟩,
    ⟨⟨.pos, true, "1".toList⟩, [("z", ⟨.pos, true, "1".toList⟩)]⟩]

example : displayInter false exInter = "-2.5x^2y^-0.5 + z".toList := by decide

/-- … describe the rational terms `−5/2·x²·y^(−1/2)` and `z` -/
def exInterQ : List QTerm := [⟨-5 / 2, [('x', 2), ('y', -1 / 2)]⟩, ⟨1, [('z', 1)]⟩]

theorem exInter_ok : List.Forall₂ (InterTermOK none) exInter exInterQ := by
  have c1 : ICoefOK none ⟨.neg, false, "2.5".toList⟩ ((!false) = true ∨
      ([("x", ⟨.pos, false, "2".toList⟩), ("y", ⟨.neg, false, "-0.5".toList⟩)] :
        List (String × Item)) = []) (-5 / 2) :=
    ⟨by norm_num, fun h => by simp at h, fun _ => isSpelling_of_b (by decide), fun _ => by
      show textValue "2.5".toList = |(-5 / 2 : ℚ)|
      rw [textValue_of_parse (m := 25) (sc := 1) (by decide) (by decide)]; norm_num [abs_of_neg]⟩
  have ex : ExpOK none ⟨.pos, false, "2".toList⟩ 2 :=
    ⟨fun h => by simp at h, fun _ => ⟨false, "2".toList, isSpelling_of_b (by decide), by decide⟩,
      fun _ => by
        show signedValue (signText false ++ "2".toList) = 2
        rw [signedValue_of_parse false (m := 2) (sc := 0) (by decide) (by decide)]; norm_num⟩
  have ey : ExpOK none ⟨.neg, false, "-0.5".toList⟩ (-1 / 2) :=
    ⟨fun h => by simp at h, fun _ => ⟨true, "0.5".toList, isSpelling_of_b (by decide), by decide⟩,
      fun _ => by
        show signedValue (signText true ++ "0.5".toList) = -1 / 2
        rw [signedValue_of_parse true (m := 5) (sc := 1) (by decide) (by decide)]; norm_num⟩
  have c2 : ICoefOK none ⟨.pos, true, "1".toList⟩ ((!true) = true ∨
      ([("z", ⟨.pos, true, "1".toList⟩)] : List (String × Item)) = []) 1 :=
    ⟨by simp, fun _ => by norm_num, fun h => by simp at h, fun h => by simp at h⟩
  have ez : ExpOK none ⟨.pos, true, "1".toList⟩ 1 :=
    ⟨fun _ => rfl, fun h => by simp at h, fun h => by simp at h⟩
  exact .cons ⟨c1, .cons ⟨by decide, by decide, ex⟩ (.cons ⟨by decide, by decide, ey⟩ .nil), by simp⟩
    (.cons ⟨c2, .cons ⟨by decide, by decide, ez⟩ .nil, by simp⟩ .nil)

/-- … so `-2.5x^2y^-0.5 + z` is accepted and read as exactly those two terms -/
example : ∃ p, C02.parse stdClass "-2.5x^2y^-0.5 + z".toList = .ok p ∧
    List.Forall₂ (TermReads none) p.terms exInterQ := by
  obtain ⟨p, hp, hterms, _⟩ := inter_display_roundtrip stdClass_sane stdClass_numSane (by decide)
    false none (by simp [exInter]) exInter_ok
  exact ⟨p, hp, hterms⟩

/-- a `Term`: `−x^0.5` is printed `-1x^0.5` (the unit test is `== 1.0`) and read back as `−x^(1/2)` -/
def exTerm : ITermItems := ⟨⟨.neg, false, "-1".toList⟩, [("x", ⟨.pos, false, "0.5".toList⟩)]⟩

example : displayTerm exTerm = "-1x^0.5".toList := by decide

theorem exTerm_ok : TermTermOK none exTerm ⟨-1, [('x', 1 / 2)]⟩ := by
  have ex : ExpOK none ⟨.pos, false, "0.5".toList⟩ (1 / 2) :=
    ⟨fun h => by simp at h, fun _ => ⟨false, "0.5".toList, isSpelling_of_b (by decide), by decide⟩,
      fun _ => by
        show signedValue (signText false ++ "0.5".toList) = 1 / 2
        rw [signedValue_of_parse false (m := 5) (sc := 1) (by decide) (by decide)]; norm_num⟩
  exact ⟨fun h => by simp [exTerm] at h,
    fun _ => ⟨true, "1".toList, isSpelling_of_b (by decide), by decide⟩,
    fun _ => by
      show signedValue (signText true ++ "1".toList) = -1
      rw [signedValue_of_parse true (m := 1) (sc := 0) (by decide) (by decide)]; norm_num,
    .cons ⟨by decide, by decide, ex⟩ .nil, by simp⟩

example : ∃ p, C02.parse stdClass "-1x^0.5".toList = .ok p ∧
    List.Forall₂ (TermReads none) p.terms [⟨-1, [('x', 1 / 2)]⟩] :=
  term_display_roundtrip stdClass_sane stdClass_numSane none exTerm_ok

end SV.Props.C17Roundtrip
