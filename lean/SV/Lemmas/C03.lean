import SV.Model.C03
import SV.Lemmas.Poly
import Mathlib.Data.String.Basic
import Mathlib.Data.List.Sort
import Mathlib.Data.List.Nodup
import Mathlib.Algebra.BigOperators.Group.List.Basic
import Mathlib.Analysis.SpecialFunctions.Pow.Deriv
/-!
Helper lemmas for C03 (and C04): sortedness of variable lists, the value of a term list as a sum of
products, the power rule on one term.
-/
set_option linter.unusedSectionVars false
namespace SV.C03
open SV SV.Poly

/-! ### names, sortedness, `sortVars`, `variablesOf` -/
section order
variable {S : Type}

theorem strictSorted_iff (l : List String) : strictSorted l = true ↔ l.Pairwise (· < ·) := by
  induction l with
  | nil => simp [strictSorted]
  | cons a l ih =>
    cases l with
    | nil => simp [strictSorted]
    | cons b r =>
      simp only [strictSorted, Bool.and_eq_true, decide_eq_true_eq, ih]
      constructor
      · rintro ⟨hab, hbr⟩
        refine List.pairwise_cons.2 ⟨?_, hbr⟩
        intro c hc
        rcases List.mem_cons.1 hc with rfl | hc
        · exact hab
        · exact lt_trans hab ((List.pairwise_cons.1 hbr).1 c hc)
      · intro h
        have h' := List.pairwise_cons.1 h
        exact ⟨h'.1 b (List.mem_cons_self ..), h'.2⟩

theorem strictSorted_nodup {l : List String} (h : strictSorted l = true) : l.Nodup :=
  ((strictSorted_iff l).1 h).imp (fun hab => ne_of_lt hab)

theorem strictSorted_sublist {l l' : List String} (hs : l'.Sublist l) (h : strictSorted l = true) :
    strictSorted l' = true :=
  (strictSorted_iff l').2 (((strictSorted_iff l).1 h).sublist hs)

/-- the comparison `sortVars` sorts with -/
abbrev leVar : (String × S) → (String × S) → Bool := fun a b => decide (a.1 ≤ b.1)

theorem sortVars_eq (vs : List (String × S)) : sortVars vs = vs.mergeSort leVar := rfl

theorem sortVars_perm (vs : List (String × S)) : (sortVars vs).Perm vs :=
  List.mergeSort_perm vs _

theorem names_sortVars_perm (vs : List (String × S)) : (names (sortVars vs)).Perm (names vs) :=
  (sortVars_perm vs).map _

/-- a term whose variables are already in order is left alone by `sort_poly` -/
theorem sortVars_of_sorted {vs : List (String × S)} (h : strictSorted (names vs) = true) :
    sortVars vs = vs := by
  rw [sortVars_eq]
  apply List.mergeSort_of_pairwise
  have hp := (strictSorted_iff _).1 h
  rw [names, List.pairwise_map] at hp
  exact hp.imp (fun hab => by simpa using le_of_lt hab)

theorem sortVars_pairwise (vs : List (String × S)) :
    (sortVars vs).Pairwise (fun a b => a.1 ≤ b.1) := by
  have := List.pairwise_mergeSort (le := (leVar : (String × S) → _ → Bool))
    (fun a b c hab hbc => by
      simp only [decide_eq_true_eq] at hab hbc ⊢; exact le_trans hab hbc)
    (fun a b => by
      simp only [Bool.or_eq_true, decide_eq_true_eq]; exact le_total a.1 b.1) vs
  rw [sortVars_eq]
  exact this.imp (fun h => by simpa using h)

/-- sorting a term without repeated variables gives a strictly sorted term -/
theorem strictSorted_sortVars {vs : List (String × S)} (h : (names vs).Nodup) :
    strictSorted (names (sortVars vs)) = true := by
  rw [strictSorted_iff]
  have hnd : (names (sortVars vs)).Nodup := (names_sortVars_perm vs).nodup_iff.2 h
  have hle : (names (sortVars vs)).Pairwise (· ≤ ·) := by
    rw [names, List.pairwise_map]; exact sortVars_pairwise vs
  exact (hle.and hnd).imp (fun ⟨h1, h2⟩ => lt_of_le_of_ne h1 h2)

theorem nodup_eraseDups : ∀ (l : List String), l.eraseDups.Nodup
  | [] => by simp
  | a :: as => by
    rw [List.eraseDups_cons]
    have : (as.filter fun b => !b == a).length < as.length + 1 :=
      Nat.lt_succ_of_le (List.length_filter_le _ _)
    refine List.nodup_cons.2 ⟨?_, nodup_eraseDups _⟩
    simp
termination_by l => l.length

theorem mem_variablesOf (terms : List (Term S)) (v : String) :
    v ∈ variablesOf terms ↔ v ∈ termNames terms := by
  simp [variablesOf, termNames, names]

theorem strictSorted_variablesOf (terms : List (Term S)) :
    strictSorted (variablesOf terms) = true := by
  rw [strictSorted_iff]
  unfold variablesOf
  set l := (terms.flatMap fun t => t.vars.map (·.1)).eraseDups with hl
  have hnd : (l.mergeSort (fun a b => decide (a ≤ b))).Nodup :=
    (List.mergeSort_perm l _).nodup_iff.2 (nodup_eraseDups _)
  have hle := List.pairwise_mergeSort (le := fun (a b : String) => decide (a ≤ b))
    (fun a b c hab hbc => by
      simp only [decide_eq_true_eq] at hab hbc ⊢; exact le_trans hab hbc)
    (fun a b => by
      simp only [Bool.or_eq_true, decide_eq_true_eq]; exact le_total a b) l
  exact (hle.and hnd).imp (fun ⟨h1, h2⟩ => lt_of_le_of_ne (by simpa using h1) h2)

/-- two strictly sorted lists with the same members are equal -/
theorem strictSorted_ext {l l' : List String} (h : strictSorted l = true) (h' : strictSorted l' = true)
    (hm : ∀ v, v ∈ l ↔ v ∈ l') : l = l' := by
  have hp : l.Perm l' := (List.perm_ext_iff_of_nodup (strictSorted_nodup h) (strictSorted_nodup h')).2 hm
  exact List.Perm.eq_of_pairwise (le := (· < ·)) (fun a b _ _ hab hba => absurd hab (not_lt_of_gt hba))
    ((strictSorted_iff l).1 h) ((strictSorted_iff l').1 h') hp

end order


/-! ### the value of a term list: a sum of products -/
section value
variable {K : Type} [CommRing K]

/-- `Π powf (σ v) p` over the variables of a term -/
def varsVal (powf : K → K → K) (σ : String → K) (vs : List (String × K)) : K :=
  (vs.map fun vp => powf (σ vp.1) vp.2).prod

def termVal (powf : K → K → K) (σ : String → K) (t : Term K) : K := t.coef * varsVal powf σ t.vars

/-- `Σ_t c_t · Π_(v,p)∈t powf (σ v) p` -/
def polyVal (powf : K → K → K) (σ : String → K) (ts : List (Term K)) : K :=
  (ts.map (termVal powf σ)).sum

/-- the total assignment a binding list denotes (unbound names read 0; never relied on) -/
def valuation (bs : List (String × K)) : String → K := fun v => (lookup bs v).getD 0

@[simp] theorem varsVal_nil (powf : K → K → K) (σ : String → K) : varsVal powf σ [] = 1 := rfl
@[simp] theorem varsVal_cons (powf : K → K → K) (σ : String → K) (a : String × K) (vs) :
    varsVal powf σ (a :: vs) = powf (σ a.1) a.2 * varsVal powf σ vs := by
  simp [varsVal]
theorem varsVal_append (powf : K → K → K) (σ : String → K) (vs ws : List (String × K)) :
    varsVal powf σ (vs ++ ws) = varsVal powf σ vs * varsVal powf σ ws := by
  simp [varsVal]
@[simp] theorem polyVal_nil (powf : K → K → K) (σ : String → K) : polyVal powf σ [] = 0 := rfl
@[simp] theorem polyVal_cons (powf : K → K → K) (σ : String → K) (t : Term K) (ts) :
    polyVal powf σ (t :: ts) = termVal powf σ t + polyVal powf σ ts := by
  simp [polyVal]

theorem varsVal_perm (powf : K → K → K) (σ : String → K) {vs ws : List (String × K)}
    (h : vs.Perm ws) : varsVal powf σ vs = varsVal powf σ ws :=
  (h.map _).prod_eq

theorem varsVal_congr (powf : K → K → K) {σ τ : String → K} {vs : List (String × K)}
    (h : ∀ v ∈ names vs, σ v = τ v) : varsVal powf σ vs = varsVal powf τ vs := by
  induction vs with
  | nil => rfl
  | cons a vs ih =>
    rw [varsVal_cons, varsVal_cons, h a.1 (by simp [names]),
      ih (fun v hv => h v (by simp only [names, List.map_cons, List.mem_cons] at hv ⊢; exact Or.inr hv))]

theorem varsVal_update_of_not_mem (powf : K → K → K) (σ : String → K) (v : String) (t : K)
    {vs : List (String × K)} (h : v ∉ names vs) :
    varsVal powf (Function.update σ v t) vs = varsVal powf σ vs :=
  varsVal_congr powf (fun w hw => Function.update_of_ne (fun e => h (by rw [← e]; exact hw)) _ _)

theorem polyVal_sortVars (powf : K → K → K) (σ : String → K) (ts : List (Term K)) :
    polyVal powf σ (ts.map fun t => ⟨t.coef, sortVars t.vars⟩) = polyVal powf σ ts := by
  induction ts with
  | nil => rfl
  | cons t ts ih =>
    simp only [List.map_cons, polyVal_cons, ih, termVal]
    rw [varsVal_perm powf σ (sortVars_perm t.vars)]

/-- one term of `eval_intermediate_polynomial` when every variable is bound -/
theorem termValue_eq (powf : K → K → K) (σo : String → Option K) (σ : String → K)
    (acc : K) (vs : List (String × K)) (h : ∀ v ∈ names vs, σo v = some (σ v)) :
    termValue powf σo acc vs = .ok (acc * varsVal powf σ vs) := by
  induction vs generalizing acc with
  | nil => simp [termValue]
  | cons a vs ih =>
    obtain ⟨v, p⟩ := a
    have hv : σo v = some (σ v) := h v (by simp [names])
    simp only [termValue, hv]
    rw [ih _ (fun w hw => h w (by simp only [names, List.map_cons, List.mem_cons] at hw ⊢; exact Or.inr hw))]
    simp [mul_assoc]

theorem evalTermsFrom_eq (powf : K → K → K) (σo : String → Option K) (σ : String → K)
    (acc : K) (ts : List (Term K)) (h : ∀ v ∈ termNames ts, σo v = some (σ v)) :
    evalTermsFrom powf σo acc ts = .ok (acc + polyVal powf σ ts) := by
  induction ts generalizing acc with
  | nil => simp [evalTermsFrom]
  | cons t ts ih =>
    have ht : ∀ v ∈ names t.vars, σo v = some (σ v) := fun v hv =>
      h v (by simp only [termNames, List.flatMap_cons, List.mem_append]; exact Or.inl hv)
    simp only [evalTermsFrom, termValue_eq powf σo σ _ _ ht]
    rw [ih _ (fun v hv => h v (by
      simp only [termNames, List.flatMap_cons, List.mem_append] at hv ⊢; exact Or.inr hv))]
    simp [termVal, add_assoc]

/-- `eval_intermediate_polynomial` is the sum of products whenever the bindings cover the names
used by the terms (it never invents a value: the unbound case is an error, see the model) -/
theorem evalTerms_eq (powf : K → K → K) (ts : List (Term K)) (bs : List (String × K))
    (h : ∀ v ∈ termNames ts, (lookup bs v).isSome) :
    evalTerms powf ts bs = .ok (polyVal powf (valuation bs) ts) := by
  unfold evalTerms
  rw [evalTermsFrom_eq powf (lookup bs) (valuation bs) 0 ts]
  · simp
  · intro v hv
    have := h v hv
    cases hl : lookup bs v with
    | none => simp [hl] at this
    | some x => simp [valuation, hl]

omit [CommRing K] in
/-- a binding appended last overrides (`HashMap::collect`: the last binding of a name wins) -/
theorem lookup_append_single (bs : List (String × K)) (v : String) (t : K) (w : String) :
    lookup (bs ++ [(v, t)]) w = if v = w then some t else lookup bs w := by
  unfold lookup
  simp only [List.reverse_append, List.reverse_cons, List.reverse_nil, List.nil_append,
    List.cons_append, List.find?_cons]
  by_cases h : v = w
  · simp [h]
  · simp [h]

theorem valuation_append_single (bs : List (String × K)) (v : String) (t : K) :
    valuation (bs ++ [(v, t)]) = Function.update (valuation bs) v t := by
  funext w
  simp only [valuation, lookup_append_single, Function.update_apply]
  by_cases h : v = w
  · simp [h]
  · have h' : ¬ w = v := fun e => h e.symm
    simp [h, h']

end value

/-! ### the power rule on one term -/
section power
variable {K : Type} [Field K] [LinearOrder K]

theorem isZero_iff (x : K) : isZero x = true ↔ x = 0 := by
  simp only [isZero, Bool.and_eq_true, Bool.not_eq_eq_eq_not, Bool.not_true, decide_eq_false_iff_not,
    not_lt]
  constructor
  · rintro ⟨h1, h2⟩; exact le_antisymm h2 h1
  · rintro rfl; exact ⟨le_refl _, le_refl _⟩

theorem derivVars_none {v : String} {vs : List (String × K)} (h : v ∉ names vs) :
    derivVars v vs = none := by
  induction vs with
  | nil => rfl
  | cons a vs ih =>
    obtain ⟨w, p⟩ := a
    simp only [names, List.map_cons, List.mem_cons, not_or] at h
    have hw : ¬ w = v := fun e => h.1 e.symm
    simp only [derivVars, hw, if_false, ih h.2]

/-- `partial_derivative` on one term: the first (for a `NodupVars` term: the only) occurrence of the
variable carries the power rule; it is removed when its new power is zero -/
theorem derivVars_split {v : String} {vs : List (String × K)} (hv : v ∈ names vs) :
    ∃ pre p post, vs = pre ++ (v, p) :: post ∧ v ∉ names pre ∧
      derivVars v vs = some (p, pre ++ (if isZero (p - 1) then post else (v, p - 1) :: post)) := by
  induction vs with
  | nil => simp [names] at hv
  | cons a vs ih =>
    obtain ⟨w, p⟩ := a
    by_cases hw : w = v
    · subst hw
      exact ⟨[], p, vs, rfl, by simp [names], by simp [derivVars]⟩
    · have hv' : v ∈ names vs := by
        simp only [names, List.map_cons, List.mem_cons] at hv
        rcases hv with e | hv
        · exact absurd e.symm hw
        · exact hv
      obtain ⟨pre, q, post, hvs, hpre, hd⟩ := ih hv'
      refine ⟨(w, p) :: pre, q, post, by rw [hvs]; rfl, ?_, ?_⟩
      · simp only [names, List.map_cons, List.mem_cons, not_or]
        exact ⟨fun e => hw e.symm, hpre⟩
      · simp only [derivVars, hw, if_false, hd, List.cons_append]

theorem derivVars_isSome_iff {v : String} {vs : List (String × K)} :
    (derivVars v vs).isSome ↔ v ∈ names vs := by
  constructor
  · intro h
    by_contra hn
    rw [derivVars_none hn] at h
    simp at h
  · intro h
    obtain ⟨_, _, _, _, _, hd⟩ := derivVars_split h
    simp [hd]

/-- the names of a differentiated term are a sublist of the term's names -/
theorem derivVars_names_sublist {v : String} {vs vs' : List (String × K)} {m : K}
    (h : derivVars v vs = some (m, vs')) : (names vs').Sublist (names vs) := by
  have hv : v ∈ names vs := derivVars_isSome_iff.1 (by simp [h])
  obtain ⟨pre, p, post, hvs, _, hd⟩ := derivVars_split hv
  rw [h] at hd
  simp only [Option.some.injEq, Prod.mk.injEq] at hd
  rw [hd.2, hvs]
  simp only [names, List.map_append, List.map_cons]
  apply List.Sublist.append_left
  split
  · exact List.sublist_cons_self _ _
  · simp

end power

/-! ### closure: results are well-formed again -/
section closure
variable {K : Type} [Field K] [LinearOrder K]

theorem mem_termNames {S : Type} {terms : List (Term S)} {v : String} :
    v ∈ termNames terms ↔ ∃ t ∈ terms, v ∈ names t.vars := by
  simp [termNames]

theorem mem_termNames_sorted {S : Type} (d : List (Term S)) (v : String) :
    v ∈ termNames (d.map fun t => (⟨t.coef, sortVars t.vars⟩ : Term S)) ↔ v ∈ termNames d := by
  simp only [mem_termNames, List.mem_map]
  constructor
  · rintro ⟨t', ⟨t, ht, rfl⟩, hv⟩
    exact ⟨t, ht, (names_sortVars_perm t.vars).mem_iff.1 hv⟩
  · rintro ⟨t, ht, hv⟩
    exact ⟨_, ⟨t, ht, rfl⟩, (names_sortVars_perm t.vars).mem_iff.2 hv⟩

/-- what `sort_poly` + the rebuilt variable list produce is well-formed whenever no term repeats a
variable (shared by `partial_derivative` and `indefinite_integral_intermediate`) -/
theorem wf_sorted {S : Type} (d : List (Term S)) (hnd : ∀ t ∈ d, (names t.vars).Nodup) :
    WF (⟨d.map fun t => ⟨t.coef, sortVars t.vars⟩, variablesOf d⟩ : IPoly S) := by
  refine ⟨⟨?_, strictSorted_variablesOf d, ?_⟩, ?_⟩
  · intro t' ht'
    obtain ⟨t, ht, rfl⟩ := List.mem_map.1 ht'
    exact strictSorted_sortVars (hnd t ht)
  · intro v hv
    exact (mem_variablesOf d v).2 ((mem_termNames_sorted d v).1 hv)
  · intro v hv
    exact (mem_termNames_sorted d v).2 ((mem_variablesOf d v).1 hv)

theorem derivTerms_sublist (v : String) (ts : List (Term K)) :
    ∀ t' ∈ derivTerms v ts, ∃ t ∈ ts, (names t'.vars).Sublist (names t.vars) := by
  induction ts with
  | nil => simp [derivTerms]
  | cons t ts ih =>
    intro t' ht'
    cases hd : derivVars v t.vars with
    | none =>
      simp only [derivTerms, hd] at ht'
      obtain ⟨u, hu, hs⟩ := ih t' ht'
      exact ⟨u, List.mem_cons_of_mem _ hu, hs⟩
    | some r =>
      obtain ⟨m, vs'⟩ := r
      simp only [derivTerms, hd, List.mem_cons] at ht'
      rcases ht' with rfl | ht'
      · exact ⟨t, List.mem_cons_self .., derivVars_names_sublist hd⟩
      · obtain ⟨u, hu, hs⟩ := ih t' ht'
        exact ⟨u, List.mem_cons_of_mem _ hu, hs⟩

theorem partialDeriv_wf (ts : List (Term K)) (v : String) (h : TermsWF ts) :
    WF (partialDeriv ts v) := by
  unfold partialDeriv
  apply wf_sorted
  intro t' ht'
  obtain ⟨t, ht, hs⟩ := derivTerms_sublist v ts t' ht'
  exact (strictSorted_nodup (h t ht)).sublist hs

/-- differentiation introduces no variable -/
theorem partialDeriv_names (ts : List (Term K)) (v : String) :
    ∀ w ∈ termNames (partialDeriv ts v).terms, w ∈ termNames ts := by
  intro w hw
  unfold partialDeriv at hw
  rw [mem_termNames_sorted] at hw
  obtain ⟨t', ht', hw'⟩ := mem_termNames.1 hw
  obtain ⟨t, ht, hs⟩ := derivTerms_sublist v ts t' ht'
  exact mem_termNames.2 ⟨t, ht, hs.subset hw'⟩

omit [LinearOrder K] in
theorem integTerm_names (v : String) (t : Term K) :
    names (integTerm v t).vars = names t.vars ∨
      (v ∉ names t.vars ∧ names (integTerm v t).vars = names t.vars ++ [v]) := by
  unfold integTerm
  have key : ∀ (vs : List (String × K)),
      (∃ d vs', integVars v vs = some (d, vs') ∧ names vs' = names vs) ∨
        (integVars v vs = none ∧ v ∉ names vs) := by
    intro vs
    induction vs with
    | nil => right; simp [integVars, names]
    | cons a vs ih =>
      obtain ⟨w, p⟩ := a
      by_cases hw : w = v
      · left; subst hw; exact ⟨p + 1, (w, p + 1) :: vs, by simp [integVars], by simp [names]⟩
      · rcases ih with ⟨d, vs', h1, h2⟩ | ⟨h1, h2⟩
        · left
          exact ⟨d, (w, p) :: vs', by simp [integVars, hw, h1], by
            simp only [names, List.map_cons] at h2 ⊢; rw [h2]⟩
        · right
          refine ⟨by simp [integVars, hw, h1], ?_⟩
          simp only [names, List.map_cons, List.mem_cons, not_or]
          exact ⟨fun e => hw e.symm, h2⟩
  rcases key t.vars with ⟨d, vs', h1, h2⟩ | ⟨h1, h2⟩
  · left; simp only [h1]; exact h2
  · right; simp only [h1]; exact ⟨h2, by simp [names]⟩

theorem integInter_wf (ts : List (Term K)) (v : String) (h : TermsWF ts) :
    WF (integInter ts v) := by
  unfold integInter
  apply wf_sorted
  intro t' ht'
  obtain ⟨t, ht, rfl⟩ := List.mem_map.1 ht'
  have hnd := strictSorted_nodup (h t ht)
  rcases integTerm_names v t with h1 | ⟨hv, h1⟩
  · rw [h1]; exact hnd
  · rw [h1]
    exact List.nodup_append.2 ⟨hnd, by simp, by
      intro a ha b hb; simp only [List.mem_singleton] at hb; subst hb
      exact fun e => hv (e ▸ ha)⟩

/-- integration introduces at most the integration variable -/
theorem integInter_names (ts : List (Term K)) (v : String) :
    ∀ w ∈ termNames (integInter ts v).terms, w ∈ termNames ts ∨ w = v := by
  intro w hw
  unfold integInter at hw
  rw [mem_termNames_sorted] at hw
  obtain ⟨t', ht', hw'⟩ := mem_termNames.1 hw
  obtain ⟨t, ht, rfl⟩ := List.mem_map.1 ht'
  rcases integTerm_names v t with h1 | ⟨_, h1⟩
  · rw [h1] at hw'; exact Or.inl (mem_termNames.2 ⟨t, ht, hw'⟩)
  · rw [h1, List.mem_append, List.mem_singleton] at hw'
    rcases hw' with hw' | hw'
    · exact Or.inl (mem_termNames.2 ⟨t, ht, hw'⟩)
    · exact Or.inr hw'

omit [Field K] [LinearOrder K] in
theorem lookup_single (v : String) (x : K) : lookup [(v, x)] v = some x := by
  simp [lookup]

/-- a strictly sorted list all of whose members equal `v` has at most one element -/
theorem length_le_one_of_subset_singleton {l : List String} (h : strictSorted l = true) (v : String)
    (hm : ∀ w ∈ l, w = v) : l.length ≤ 1 := by
  match l, h, hm with
  | [], _, _ => simp
  | [_], _, _ => simp
  | a :: b :: r, h, hm =>
    have ha := hm a (by simp)
    have hb := hm b (by simp)
    have hnd := strictSorted_nodup h
    simp only [List.nodup_cons, List.mem_cons, not_or] at hnd
    exact absurd (ha.trans hb.symm) hnd.1.1

end closure

section real
open Real

/-- power rule for one term over ℝ (`powf = Real.rpow`): at every `x ≠ 0`, and at `0` when the
power of `v` is at least 1 -/
theorem hasDerivAt_varsVal (σ : String → ℝ) (v : String) (x : ℝ) {vs vs' : List (String × ℝ)} {m : ℝ}
    (hnd : (names vs).Nodup) (hd : derivVars v vs = some (m, vs'))
    (hdom : ∀ p, (v, p) ∈ vs → x ≠ 0 ∨ 1 ≤ p) :
    HasDerivAt (fun t => varsVal Real.rpow (Function.update σ v t) vs)
      (m * varsVal Real.rpow (Function.update σ v x) vs') x := by
  have hv : v ∈ names vs := derivVars_isSome_iff.1 (by simp [hd])
  obtain ⟨pre, p, post, hvs, hpre, hd'⟩ := derivVars_split hv
  rw [hd] at hd'
  simp only [Option.some.injEq, Prod.mk.injEq] at hd'
  obtain ⟨rfl, rfl⟩ := hd'
  subst hvs
  have hpost : v ∉ names post := by
    simp only [names, List.map_append, List.map_cons] at hnd
    have h2 := (List.nodup_append.1 hnd).2.1
    exact (List.nodup_cons.1 h2).1
  have hfun : (fun t => varsVal Real.rpow (Function.update σ v t) (pre ++ (v, m) :: post))
      = fun t => varsVal Real.rpow σ pre * (t ^ m * varsVal Real.rpow σ post) := by
    funext t
    rw [varsVal_append, varsVal_cons, varsVal_update_of_not_mem _ _ _ _ hpre,
      varsVal_update_of_not_mem _ _ _ _ hpost]
    simp [Real.rpow_eq_pow]
  rw [hfun]
  have hpow := Real.hasDerivAt_rpow_const (p := m) (hdom m (by simp))
  have h1 := (hpow.mul_const (varsVal Real.rpow σ post)).const_mul (varsVal Real.rpow σ pre)
  refine h1.congr_deriv ?_
  rw [varsVal_append, varsVal_update_of_not_mem _ _ _ _ hpre]
  by_cases hz : isZero (m - 1) = true
  · rw [if_pos hz, varsVal_update_of_not_mem _ _ _ _ hpost]
    have : m - 1 = 0 := (isZero_iff _).1 hz
    rw [this, Real.rpow_zero]
    ring
  · rw [if_neg hz, varsVal_cons, varsVal_update_of_not_mem _ _ _ _ hpost]
    simp only [Function.update_self, Real.rpow_eq_pow]
    ring

/-- the sum rule: `derivTerms` (the terms of `partial_derivative` before sorting) denotes the
partial derivative of the term list -/
theorem hasDerivAt_polyVal (σ : String → ℝ) (v : String) (x : ℝ) (ts : List (Term ℝ))
    (hnd : ∀ t ∈ ts, (names t.vars).Nodup)
    (hdom : ∀ t ∈ ts, ∀ p, (v, p) ∈ t.vars → x ≠ 0 ∨ 1 ≤ p) :
    HasDerivAt (fun t => polyVal Real.rpow (Function.update σ v t) ts)
      (polyVal Real.rpow (Function.update σ v x) (derivTerms v ts)) x := by
  induction ts with
  | nil => simpa [derivTerms] using hasDerivAt_const x (0 : ℝ)
  | cons t ts ih =>
    have ih' := ih (fun u hu => hnd u (List.mem_cons_of_mem _ hu))
      (fun u hu => hdom u (List.mem_cons_of_mem _ hu))
    simp only [polyVal_cons]
    cases hd : derivVars v t.vars with
    | none =>
      have hv : v ∉ names t.vars := fun h => by
        have := derivVars_isSome_iff.2 h; simp [hd] at this
      have hc : (fun s => termVal Real.rpow (Function.update σ v s) t + polyVal Real.rpow (Function.update σ v s) ts)
          = fun s => termVal Real.rpow σ t + polyVal Real.rpow (Function.update σ v s) ts := by
        funext s; simp only [termVal, varsVal_update_of_not_mem _ _ _ _ hv]
      rw [hc]
      simp only [derivTerms, hd]
      exact ih'.const_add _
    | some r =>
      obtain ⟨m, vs'⟩ := r
      simp only [derivTerms, hd, polyVal_cons]
      have h1 := (hasDerivAt_varsVal σ v x (hnd t (List.mem_cons_self ..)) hd
        (hdom t (List.mem_cons_self ..))).const_mul t.coef
      refine (h1.add ih').congr_deriv ?_
      simp only [termVal]
      ring

/-- `partial_derivative` (sorted terms) denotes the partial derivative -/
theorem hasDerivAt_partialDeriv (σ : String → ℝ) (v : String) (x : ℝ) (ts : List (Term ℝ))
    (hwf : TermsWF ts) (hdom : ∀ t ∈ ts, ∀ p, (v, p) ∈ t.vars → x ≠ 0 ∨ 1 ≤ p) :
    HasDerivAt (fun t => polyVal Real.rpow (Function.update σ v t) ts)
      (polyVal Real.rpow (Function.update σ v x) (partialDeriv ts v).terms) x := by
  unfold partialDeriv
  simp only [polyVal_sortVars]
  exact hasDerivAt_polyVal σ v x ts (fun t ht => strictSorted_nodup (hwf t ht)) hdom

end real

section value2
variable {K : Type} [CommRing K]

theorem polyVal_congr (powf : K → K → K) {σ τ : String → K} {ts : List (Term K)}
    (h : ∀ v ∈ termNames ts, σ v = τ v) : polyVal powf σ ts = polyVal powf τ ts := by
  induction ts with
  | nil => rfl
  | cons t ts ih =>
    rw [polyVal_cons, polyVal_cons, ih (fun v hv => h v (by
      simp only [termNames, List.flatMap_cons, List.mem_append] at hv ⊢; exact Or.inr hv))]
    simp only [termVal]
    rw [varsVal_congr powf (fun v hv => h v (by
      simp only [termNames, List.flatMap_cons, List.mem_append]; exact Or.inl hv))]

/-- `eval_univariate` of a usable polynomial with at most one variable, all of whose names are `v`
(its listed variable, or any name when it has none): the value with `v ↦ x` -/
theorem evalUni_eq {F : Type} [Field F] (powf : F → F → F) (p : IPoly F) (hu : Usable p)
    (h1 : p.variables.length ≤ 1) (v : String) (hv : ∀ w ∈ termNames p.terms, w = v) (x : F) :
    evalUni powf p x = .ok (polyVal powf (Function.update (valuation []) v x) p.terms) := by
  have hgt : ¬ p.variables.length > 1 := by omega
  unfold evalUni
  rw [if_neg hgt]
  cases hvs : p.variables with
  | nil =>
    have hno : ∀ w, w ∉ termNames p.terms := fun w hw => by
      have := hu.2.2 w hw; simp [hvs] at this
    simp only
    rw [evalTerms_eq powf p.terms [] (fun w hw => absurd hw (hno w))]
    exact congrArg _ (polyVal_congr _ (fun w hw => absurd hw (hno w)))
  | cons w r =>
    rw [hvs] at h1
    have hr : r = [] := by cases r with | nil => rfl | cons _ _ => simp at h1
    subst hr
    have hmem : ∀ u ∈ termNames p.terms, u = w := fun u hmu => by
      have := hu.2.2 u hmu; rw [hvs] at this; simpa using this
    simp only
    rw [evalTerms_eq powf p.terms [(w, x)] (fun u hmu => by rw [hmem u hmu]; simp [lookup_single])]
    refine congrArg _ (polyVal_congr _ (fun u hmu => ?_))
    have e1 : u = w := hmem u hmu
    have e2 : u = v := hv u hmu
    subst e1
    subst e2
    simp [valuation, lookup_single]

end value2

end SV.C03
