"""C06 plug-in: the property's oracle in exact rationals (written from the statement, not from the
model), plus request parsing shared with C07.

Clauses checked on the implementation's answer to `bisect <poly> <lo> <init> <hi> <tol> <itermax> <mode>`:

 1. never a panic (a panic, a wrapper mismatch or a dead harness is a failure);
 2. `init < lo` or `init > hi`  =>  an error value, returned before any loop pass ("rejected up front"; the statement
    does not name the error variant, so any `err` is accepted, and it does not forbid rejecting other inputs - an
    inside guess that is wrongly refused is seen by clause 4 and by the correspondence K);
 3. every `ok x`: x finite, lo <= x <= hi exactly, and |g(x)| < 1e-4 (+ rounding slack) with g the
    polynomial (root mode) or its exact derivative (extrema mode), evaluated in exact rationals from
    the bit patterns of the request;
 4. completeness: if g(lo)*g(hi) <= 0 (decided with a margin, see `sign_known`), the data are moderately scaled,
    the budget is ample and the tolerance is small enough FOR THE BRACKET, a value must be returned.  With
    X = max(|lo|,|hi|), D(t) = sum k|c_k|t^(k-1) >= max|g'| on [-t, t] and A(t) = sum |c_k| t^k:
      * moderately scaled:  D(max(X,1)) <= 1000; every term can be evaluated anywhere in the bracket (A(X) <= 1e300,
        and X^k <= 1e300 for every coefficient slot of a dense polynomial: `0 * inf` is NaN); the evaluation noise
        ~2e-15 A(X) is far below the gate (A(X) <= 2e7); no non-zero term is negligible at the scale of the bracket
        (|c_k| max(X,1)^k >= 1e-100);
      * ample budget: itermax >= 2000 (>= 2500 when X > 2^800): a bracket that straddles a root at 0 is halved
        log2(2X) + 1074 times before the midpoint underflows onto it, plus <= 60 passes to reach the last bit;
      * tolerance small enough for the bracket:  D(X) * (tol/100) * X <= 5e-5, half the gate.  Bisection stops at a
        midpoint x whose distance to the previous midpoint - the half width of the bracket that still holds the sign
        change - is below tol/100*|x| <= tol/100*X, so |g(x)| <= D(X)*tol/100*X + noise: the residual gate cannot fail.
        (This is the statement's "a value is returned" at EVERY scale: a bracket of width 1e-3 with a tolerance of
        0.05 % is judged, and so is a bracket at 2^1000 with a slope of 2^-1010; the earlier absolute form
        `tol*X <= 1e-6` left both to the correspondence K.)

Rounding slack of clause 3: the code evaluates g in f64 (n <= 8 terms, each a product of a coefficient
and a power computed by <= 6 multiplications); the absolute error is below 2n*u*sum|c_k||x|^k with
u = 1.1e-16, i.e. below 2e-15*sum|c_k||x|^k; the slack used is 1e-12*sum|c_k||x|^k (500x that), so a
correct implementation cannot trip it, while a wrong gate (1e-2 instead of 1e-4) is far outside.
"""
import struct, math
from fractions import Fraction as Fr

RULE = ("(round 5: an initial guess within a relative 1e-16..1e-3 of, or 1..1000 units in the last place from, but not equal to a value the solver computes - the first midpoint, the root, a second midpoint, a bracket end from inside - on both sides, at 0.001..100 times tol/100, on brackets with a sign change, moderate scaling, budget >= 2000 and the loosest tolerance 1e-12..1e-3 the converse clause accepts for the bracket) (round 4: a root at 0 with one bracket end 1..60 units of 2^-1074 [or of 2^-1073..2^-1060, or the smallest normals] away from it on either side and the other end ordinary [2^-40..2^10, arbitrary doubles], g = amp x prod (1 - x / q_j), amp (x^3 + x), amp x (x - c) with slopes 2^-6..2^9, both modes and polynomial types, tolerances the converse clause accepts) (round 3: a midpoint of exactly 0 at pass 1..4 AND a bracket narrower than the tolerance AND a residual at 0 above the gate [brackets [-3a,a], [-7a,a], [-a,3a], [-5a,3a] ... with a = m 2^-4..2^-22, m a power of two or a 21-bit mantissa; controls at scale 1, 2^-40, root at 0, zero midpoint at pass 0], brackets with ends within a few binades of f64::MAX (wider than f64::MAX half of the time at 2^1023) and of its square / cube root with slopes down to 2^-1070, brackets inside the subnormal range, brackets 0..6 units in the last place wide at every binade 2^-1060..2^1020, 2- / 3- / 4-byte and word-like variable names; the converse clause is judged at the scale of the bracket: slope * tol/100 * X <= half the gate) (hardening: the whole problem rescaled to every decade 1e-20..1e20 and binade 2^-70..2^60 with brackets of relative width 1e-15..1e6, one root of size 1e-20..1 among ordinary roots for the completeness clause, degrees 8..24, initial guesses one ulp outside the bracket, signed-zero brackets, roots on both ends and the midpoint, caps next to 2^16 / 2^31 / 2^32 / 2^63 / usize::MAX, other variable names) requests: polynomials built from chosen roots (degree 0..7; roots at 0, on either bracket end, double roots, "
        "complex pairs), arbitrary polynomials of both kinds, brackets ordered/reversed/degenerate, init on the ends, "
        "on the midpoint, inside, outside, tolerances 1e-12..1e3 and <= 0, caps 0..5000, both modes; non-trivial = the "
        "model returns a value (`ok`), so containment and the residual gate are exercised; distinct = distinct request lines")

GATE = Fr(1, 10000)


def fbits(tok):
    return struct.unpack("<d", struct.pack("<Q", int(tok)))[0]


def exact(x):
    return Fr(x)  # exact value of a finite double


def fl(q):
    """float for messages: a rational beyond the binary64 range prints as +-inf instead of raising"""
    try:
        return float(q)
    except OverflowError:
        return math.inf if q > 0 else -math.inf


class Req:
    pass


def read_name(t, i):
    n = int(t[i]); i += 1
    s = "".join(chr(int(c)) for c in t[i:i + n])
    return s, i + n


def read_poly(t, i, maxpow=64):
    """returns (kind, plain coefficient dict {power: Fraction} or None, magnitudes {power: sum of |coefficient| of the
    terms with that power} or None, i).  `None` = not a plain univariate polynomial with positive integer powers
    (several variables, unbound variable, other exponents, non-finite).  The magnitudes are what the rounding error
    of the code's term-by-term evaluation scales with (terms of equal power are NOT merged by the code).
    `maxpow`: largest exponent of an intermediate polynomial the caller is prepared to evaluate (C07 raises it to the
    grammar's limit and beyond and evaluates such powers in interval arithmetic).  A dense polynomial with more than
    200 slots keeps only its non-zero coefficients and the last slot (its length is the highest power the code raises
    x to)."""
    kind = t[i]; i += 1
    if kind == "S":
        i += 1  # variable
        n = int(t[i]); i += 1
        cs = [fbits(x) for x in t[i:i + n]]; i += n
        if not all(math.isfinite(c) for c in cs):
            return kind, None, None, i
        keep = [(k, c) for k, c in enumerate(cs) if n <= 200 or c != 0 or k == n - 1]
        return kind, {k: exact(c) for k, c in keep}, {k: abs(exact(c)) for k, c in keep}, i
    assert kind == "I"
    nt = int(t[i]); i += 1
    terms = []
    for _ in range(nt):
        c = fbits(t[i]); i += 1
        nv = int(t[i]); i += 1
        vs = []
        for _ in range(nv):
            name, i = read_name(t, i)
            p = fbits(t[i]); i += 1
            vs.append((name, p))
        terms.append((c, vs))
    m = int(t[i]); i += 1
    variables = []
    for _ in range(m):
        name, i = read_name(t, i)
        variables.append(name)
    if len(variables) > 1:
        return kind, None, None, i
    var = variables[0] if variables else None
    coeffs = {}
    mags = {}
    for c, vs in terms:
        if not math.isfinite(c):
            return kind, None, None, i
        k = 0
        for name, p in vs:
            # (an explicit `x^0` factor is excluded too: its derivative is `0*x^-1`, NaN at 0 by design)
            if name != var or not math.isfinite(p) or p < 1 or p != int(p) or p > maxpow:
                return kind, None, None, i
            k += int(p)
        coeffs[k] = coeffs.get(k, Fr(0)) + exact(c)
        mags[k] = mags.get(k, Fr(0)) + abs(exact(c))
    return kind, coeffs, mags, i


def deriv(cs):
    return {k - 1: c * k for k, c in cs.items() if k >= 1}


def ev(cs, x):
    return sum((c * x ** k for k, c in cs.items() if c != 0), Fr(0))


def absum(cs, x):
    ax = abs(x)
    return sum((abs(c) * ax ** k for k, c in cs.items() if c != 0), Fr(0))


def dbound(cs, X):
    """sum k |c_k| X^(k-1) >= max |g'| on [-X, X]"""
    return sum((k * abs(c) * X ** (k - 1) for k, c in cs.items() if k >= 1 and c != 0), Fr(0))


def d2bound(cs, X):
    """sum k(k-1) |c_k| X^(k-2) >= max |g''| on [-X, X]"""
    return sum((k * (k - 1) * abs(c) * X ** (k - 2) for k, c in cs.items() if k >= 2 and c != 0), Fr(0))


def representable(q):
    try:
        return Fr(float(q)) == q
    except OverflowError:
        return False


def float_exact_eval(cs, x, extrema_src=None):
    """True if evaluating sum c_k x^k in f64, left to right, incurs no rounding at all"""
    acc = Fr(0)
    for k in sorted(cs):
        p = x ** k
        t = cs[k] * p
        acc += t
        if not (representable(p) and representable(t) and representable(acc)):
            return False
    return True


def parse(req, maxpow=64):
    t = req.split()
    r = Req()
    r.cmd = t[0]
    r.kind, r.p, r.pabs, i = read_poly(t, 1, maxpow)
    r.rest = t[i:]
    return r


def parse_bisect(req):
    r = parse(req)
    lo, init, hi, tol = (fbits(x) for x in r.rest[:4])
    r.lo, r.init, r.hi, r.tol = lo, init, hi, tol
    r.itermax = int(r.rest[4])
    r.mode = r.rest[5]
    r.g = r.gabs = None
    r.gslots = 0
    if r.p is not None:
        r.g = r.p if r.mode == "root" else deriv(r.p)
        r.gabs = r.pabs if r.mode == "root" else deriv(r.pabs)
        # highest power the code raises x to (a dense polynomial keeps its zero coefficients)
        r.gslots = max(list(r.p) + [0]) - (0 if r.mode == "root" else 1)
    return r


def sign_known(g, gabs, x, all_exact):
    """sign of g(x) as the f64 code is certain to see it: +1/-1 when |g(x)| is far above the evaluation error,
    0 when g(x) = 0 exactly and the f64 evaluation is exact, None when too close to call"""
    v = ev(g, x)
    if abs(v) > Fr(1, 10 ** 9) * absum(gabs, x):
        return 1 if v > 0 else -1
    if v == 0 and all_exact:
        return 0
    return None


def oracle(req, impl):
    it = impl.split()
    if not it or it[0] in ("panic", "harness-panic", "process-abort", "wrapper-mismatch"):
        return "the call did not return a value or an error value: " + impl[:80]
    r = parse_bisect(req)
    nums = (r.lo, r.init, r.hi)
    if any(math.isnan(v) or math.isinf(v) for v in nums):
        return None       # non-finite bracket ends are outside the quantifier: only "no panic" (above) is demanded
    outside = r.init < r.lo or r.init > r.hi
    if outside:
        if it[0] != "err":
            return "init outside [lo, hi] was not rejected: " + impl[:60]
        # `err <Kind> <passes>`: up front = before the first loop pass (no evaluation of the target was counted)
        if len(it) >= 3 and it[2].isdigit() and int(it[2]) != 0:
            return "init outside [lo, hi] was not rejected up front: the error value came back only after %s loop passes: %s" % (it[2], impl[:60])
        return None
    if it[0] == "ok":
        x = fbits(it[1][1:])
        if not math.isfinite(x):
            return "returned value is not finite"
        if not (r.lo <= x <= r.hi):
            return f"returned x = {x!r} is outside [{r.lo!r}, {r.hi!r}]"
        if r.g is not None:
            xq = exact(x)
            res = abs(ev(r.g, xq))
            slack = Fr(1, 10 ** 12) * absum(r.gabs, xq)
            if not res < GATE + slack:
                return f"returned x = {x!r} has |g(x)| = {fl(res):.6g} >= 1e-4"
        return None
    # completeness
    if r.g is None or outside:
        return None
    if not (math.isfinite(r.tol) and r.tol > 0 and r.itermax >= 2000 and r.lo <= r.hi):
        return None
    X = max(abs(exact(r.lo)), abs(exact(r.hi)))
    if X > 2 ** 800 and r.itermax < 2500:
        return None
    X1 = max(X, Fr(1))
    if dbound(r.gabs, X1) > 1000:
        return None
    A = absum(r.gabs, X)
    if A > 2 * 10 ** 7:
        return None
    # a dense polynomial evaluates every slot `c_k * x.powi(k)`, zero coefficients included: no power may overflow
    if r.kind == "S" and r.gslots >= 1 and X > 1 and X ** r.gslots > 10 ** 300:
        return None
    if any(c != 0 and c * X1 ** k < Fr(1, 10 ** 100) for k, c in r.gabs.items()):
        return None
    if dbound(r.gabs, X) * exact(r.tol) * X > Fr(5, 1000):
        return None
    # exactness of the code's own derivative coefficients (extrema mode): c_k * k must be representable
    coeff_exact = all(representable(c) for c in r.g.values())
    merged = all(r.gabs.get(k, 0) == abs(c) for k, c in r.g.items())  # no two terms of equal power
    slo = sign_known(r.g, r.gabs, exact(r.lo), merged and coeff_exact and float_exact_eval(r.g, exact(r.lo)))
    shi = sign_known(r.g, r.gabs, exact(r.hi), merged and coeff_exact and float_exact_eval(r.g, exact(r.hi)))
    if slo is None or shi is None or slo * shi > 0:
        return None
    return ("g changes sign on the bracket (or vanishes on an end), is moderately scaled, budget >= 2000 and the "
            "tolerance is small, but no value was returned: " + impl[:60])


# ----------------------------------------------------------------------------- K: model vs implementation
#
# Answers are `ok f<x> <passes>` | `err <Kind> <passes>` | `panic` (C06 and C07 share this rule).
#  * ok / err / panic must agree, and two returned values must agree (bit-equal, both NaN, or 1e-9 relative - the
#    framework's default rule for floats): which x comes back is what the theorems about the model are about.
#  * two ERRORS agree whatever their kind: the statements say "an error value" / "rejected" and never name a variant.
#  * the pass count is evidence, not part of the statement (no clause speaks of the number of iterations; "no endless
#    loop" is the hang detection of ./check, "rejected up front" is clause 2 of the oracle): it is not compared.
#  * `marginal` (a trailing `~` the C07 harness appends): some stop test of this run was decided within rounding of its
#    threshold - see harness/src/c07.rs - so model and implementation may legitimately take different exits; such a
#    request is judged by S alone.

def _fbits(tok):
    if len(tok) < 2 or tok[0] != "f" or not tok[1:].isdigit():
        return None
    return fbits(tok[1:])


def _close(x, y):
    if x != x or y != y:
        return x != x and y != y
    if x == y:
        return True
    if math.isinf(x) or math.isinf(y):
        return False
    return abs(x - y) <= 1e-9 * max(abs(x), abs(y), 1e-300)


def compare(req, impl, model):
    ti, tm = impl.split(), model.split()
    marginal = bool(ti) and ti[-1] == "~"
    if marginal:
        ti = ti[:-1]
    if not ti or not tm:
        return "empty answer: impl %r model %r" % (impl[:60], model[:60])
    why = None
    if ti[0] != tm[0]:
        why = "field 0: impl %s model %s" % (ti[0], tm[0])
    elif ti[0] == "ok":
        x = _fbits(ti[1]) if len(ti) > 1 else None
        y = _fbits(tm[1]) if len(tm) > 1 else None
        if x is None or y is None or not _close(x, y):
            why = "field 1: impl %s model %s" % (" ".join(ti[1:2]), " ".join(tm[1:2]))
    elif ti[0] != "err" and ti != tm:
        why = "impl %s model %s" % (impl[:60], model[:60])
    if why is not None and marginal and ti[0] in ("ok", "err") and tm[0] in ("ok", "err"):
        return None
    return why


def nontrivial(req, model):
    return model.startswith("ok ")


def tag(req, model):
    t = req.split()
    m = model.split()
    out = m[0] if m else "empty"
    if out == "err":
        out = m[1].split(":")[0]
    return f"{t[0]}:{t[1]}:{t[-1]}:{out}"
