import SV.Lemmas.RoundingC09
/-!
Helper lemmas for the rounding analysis of the partial-pivoting factorisation `SV.C09.plu`
(`lu_pivot_decomposition`) at the rounding scalar `Fl M`: the loop invariant `PluFl`, the
floating-point counterpart of `SV.C09.PluInv` (same bookkeeping of the row permutation `σ`), whose
product clauses are **exact identities with accumulated rounding factors**.

What one pass `i` does to the entry `(k, j)` of the packed array, `k > i`:
* `j = i`: `lu[k][i] /= lu[i][i]` — one division;
* `j > i`: `lu[k][j] -= lu[k][i] * lu[i][j]` — one multiplication and one subtraction.
So the entry `(r, c)` of the work array after `s = min r i` eliminations satisfies

    (P A) r c = Σ_{k<s} l_rk · u_kc · t k  +  w_rc · t s,

where the term `k` carries `k + 1` roundings (its multiplication and the subtractions `0 … k−1`
that came before it, moved to the other side) and the current value `w_rc` carries the `s`
subtractions it went through.  A finished multiplier (`c < s`) is `w_rc / u_cc` rounded once more:
`c + 1` roundings on `l_rc · u_cc`.  Row swaps move whole rows, values and identities alike, and
commit no rounding error.  In the end every weight has at most `n − 1` roundings (there is no
`0.0 + …` here, and the last row/column is never eliminated *from*).
-/
set_option linter.unusedSectionVars false

namespace SV.C09
open SV Finset

/-! ### bookkeeping, any scalar type -/

section anyScalar
variable {S : Type} [Inhabited S] [Add S] [Sub S] [Mul S] [Div S] [Neg S] [OfNat S 0] [OfNat S 1]
  [LT S] [DecidableRel (α := S) (· < ·)]

/-- the search loop returns its start index or an index of the list -/
theorem pivot_fold_mem (v : Nat → S) (l : List Nat) (acc : Nat × S) :
    (l.foldl (fun (acc : Nat × S) k => if acc.2 < v k then (k, v k) else acc) acc).1 = acc.1 ∨
    (l.foldl (fun (acc : Nat × S) k => if acc.2 < v k then (k, v k) else acc) acc).1 ∈ l := by
  induction l generalizing acc with
  | nil => left; rfl
  | cons a l ih =>
    simp only [List.foldl_cons]
    by_cases hlt : acc.2 < v a
    · rw [if_pos hlt]
      rcases ih (a, v a) with h | h
      · right; rw [h]; exact List.mem_cons_self
      · right; exact List.mem_cons_of_mem _ h
    · rw [if_neg hlt]
      rcases ih acc with h | h
      · left; exact h
      · right; exact List.mem_cons_of_mem _ h

/-- the pivot row lies in `[i, n)` (any scalar type, whatever the comparison does) -/
theorem pivotRow_range (lu : Mat S) (n i : Nat) (hi : i < n) :
    i ≤ pivotRow lu n i ∧ pivotRow lu n i < n := by
  have h2 := pivot_fold_mem (fun k => sabs (lu.get k i)) (List.range' (i+1) (n - (i+1)))
    (i, sabs (lu.get i i))
  have hdef : pivotRow lu n i = ((List.range' (i+1) (n - (i+1))).foldl
      (fun (acc : Nat × S) k => if acc.2 < sabs (lu.get k i) then (k, sabs (lu.get k i)) else acc)
      (i, sabs (lu.get i i))).1 := rfl
  rw [← hdef] at h2
  rcases h2 with h2 | h2
  · simp only at h2; omega
  · rw [List.mem_range'_1] at h2
    omega

theorem swapRows_get' (M : Mat S) {n : Nat} (hh : M.h = n) (hw : M.w = n) (p q : Nat) {x c : Nat}
    (hx : x < n) (hc : c < n) :
    (M.swapRows p q).get x c = M.get (Equiv.swap p q x) c := by
  unfold Mat.swapRows
  rw [Mat.get_tab _ (by omega) (by omega), Equiv.swap_apply_def]
  by_cases h1 : x = p
  · simp [h1]
  · by_cases h2 : x = q
    · rw [if_neg h1, if_pos h2, if_neg h1, if_pos h2]
    · simp [h1, h2]

theorem pluElim_get' (n : Nat) (lu : Mat S) (i : Nat) {x c : Nat} (hx : x < n) (hc : c < n) :
    (pluElim n lu i).get x c =
      if i < x then
        (if c = i then lu.get x i / lu.get i i
         else if i < c then lu.get x c - lu.get x i / lu.get i i * lu.get i c else lu.get x c)
      else lu.get x c := by
  unfold pluElim
  rw [Mat.get_tab _ hx hc]

theorem splitL_get' (n : Nat) (lu : Mat S) {r c : Nat} (hr : r < n) (hc : c < n) :
    (splitL n lu).get r c = if r = c then 1 else if c < r then lu.get r c else 0 := by
  unfold splitL; rw [Mat.get_tab _ hr hc]

theorem splitU_get' (n : Nat) (lu : Mat S) {r c : Nat} (hr : r < n) (hc : c < n) :
    (splitU n lu).get r c = if r ≤ c then lu.get r c else 0 := by
  unfold splitU; rw [Mat.get_tab _ hr hc]

/-- the pivot search and swap: the state afterwards reads the old state through the transposition
`τ = swap (pivotRow) i`, which moves only rows of `[i, n)` -/
theorem pluSwap_get (n : Nat) (st : Mat S × Mat S) (i : Nat) (hi : i < n)
    (hh : st.1.h = n) (hw : st.1.w = n) (ph : st.2.h = n) (pw : st.2.w = n) :
    ∃ τ : Equiv.Perm ℕ, τ = Equiv.swap (pivotRow st.1 n i) i ∧
      (∀ k, k < i → τ k = k) ∧ (∀ x, n ≤ x → τ x = x) ∧
      (∀ x, x < n → τ x < n) ∧ (∀ x, min (τ x) i = min x i) ∧
      (∀ x c, x < n → c < n →
        (pluSwap n st i).1.get x c = st.1.get (τ x) c ∧
        (pluSwap n st i).2.get x c = st.2.get (τ x) c) ∧
      (pluSwap n st i).1.h = n ∧ (pluSwap n st i).1.w = n ∧
      (pluSwap n st i).2.h = n ∧ (pluSwap n st i).2.w = n ∧
      (st.2.WF → (pluSwap n st i).2.WF) := by
  obtain ⟨lu, p⟩ := st
  simp only at hh hw ph pw
  obtain ⟨hir, hrn⟩ := pivotRow_range lu n i hi
  set r := pivotRow lu n i with hr
  set τ : Equiv.Perm ℕ := Equiv.swap r i with hτ
  have τcases : ∀ x, (x = r ∧ τ x = i) ∨ (x = i ∧ τ x = r) ∨ (x ≠ r ∧ x ≠ i ∧ τ x = x) := by
    intro x
    by_cases h1 : x = r
    · left; exact ⟨h1, by rw [h1, hτ, Equiv.swap_apply_left]⟩
    · by_cases h2 : x = i
      · right; left; exact ⟨h2, by rw [h2, hτ, Equiv.swap_apply_right]⟩
      · right; right; exact ⟨h1, h2, by rw [hτ, Equiv.swap_apply_of_ne_of_ne h1 h2]⟩
  refine ⟨τ, rfl, ?_, ?_, ?_, ?_, ?_, ?_⟩
  · intro k hk
    rw [hτ, Equiv.swap_apply_of_ne_of_ne (by omega) (by omega)]
  · intro x hx
    rw [hτ, Equiv.swap_apply_of_ne_of_ne (by omega) (by omega)]
  · intro x hx
    rcases τcases x with ⟨_, e⟩ | ⟨_, e⟩ | ⟨_, _, e⟩ <;> rw [e] <;> omega
  · intro x
    rcases τcases x with ⟨e1, e⟩ | ⟨e1, e⟩ | ⟨_, _, e⟩ <;> rw [e] <;> omega
  · intro x c hx hc
    unfold pluSwap
    simp only
    by_cases hri : pivotRow lu n i = i
    · rw [if_pos hri]
      have : τ = Equiv.refl ℕ := by rw [hτ, hr, hri, Equiv.swap_self]
      rw [this]
      simp
    · rw [if_neg hri]
      simp only
      exact ⟨swapRows_get' lu hh hw _ _ hx hc, swapRows_get' p ph pw _ _ hx hc⟩
  · unfold pluSwap
    simp only
    by_cases hri : pivotRow lu n i = i
    · rw [if_pos hri]; exact ⟨hh, hw, ph, pw, fun h => h⟩
    · rw [if_neg hri]
      simp only [Mat.swapRows, Mat.tab_h, Mat.tab_w]
      exact ⟨hh, hw, ph, pw, fun _ => Mat.tab_WF _ _ _⟩

end anyScalar

/-! ### the loop invariant at `Fl M` -/

section rounding
variable {M : FlModel}

/-- State after `i` passes of `lu_pivot_decomposition` run at `Fl M`, `st = (lu, permutation)`, with
the row permutation `σ` applied so far (row `r` of the work array started as row `σ r` of the
input).  With `s = min r i` the number of eliminations row `r` went through:
* `up` — an entry that is still a "U / Schur complement" entry (`s ≤ c`):
  `A (σ r) c = Σ_{k<s} w_rk · w_kc · t k + w_rc · t s` **exactly**, `t k` a product of `k + 1`
  rounding factors, `t s` of `s`;
* `lo` — a finished multiplier (`c < s`):
  `A (σ r) c = Σ_{k<c} w_rk · w_kc · t k + w_rc · w_cc · t c`, `t c` a product of `c + 1` factors;
* `piv` — the finished pivots passed the guard. -/
structure PluFl (n : ℕ) (A : Mat (Fl M)) (eps : Fl M) (i : ℕ) (st : Mat (Fl M) × Mat (Fl M))
    (σ : Equiv.Perm ℕ) : Prop where
  hh : st.1.h = n
  hw : st.1.w = n
  ph : st.2.h = n
  pw : st.2.w = n
  pwf : st.2.WF
  fix : ∀ x, n ≤ x → σ x = x
  perm : ∀ r c, r < n → c < n → st.2.get r c = if c = σ r then 1 else 0
  up : ∀ r c, r < n → c < n → min r i ≤ c →
    ∃ t : ℕ → ℝ, M.Fac (min r i) (t (min r i)) ∧ (∀ k, k < min r i → M.Fac (k + 1) (t k)) ∧
      (A.get (σ r) c).val
        = ∑ k ∈ range (min r i), (st.1.get r k).val * (st.1.get k c).val * t k
          + (st.1.get r c).val * t (min r i)
  lo : ∀ r c, r < n → c < min r i →
    ∃ t : ℕ → ℝ, M.Fac (c + 1) (t c) ∧ (∀ k, k < c → M.Fac (k + 1) (t k)) ∧
      (A.get (σ r) c).val
        = ∑ k ∈ range c, (st.1.get r k).val * (st.1.get k c).val * t k
          + (st.1.get r c).val * (st.1.get c c).val * t c
  piv : ∀ k, k < i → ¬ (sabs (st.1.get k k) < eps)

theorem pluFl_init (A : Mat (Fl M)) (eps : Fl M) (n : ℕ) (hh : A.h = n) (hw : A.w = n) :
    PluFl n A eps 0 (A, Mat.ident n) 1 where
  hh := hh
  hw := hw
  ph := rfl
  pw := rfl
  pwf := Mat.tab_WF _ _ _
  fix := fun x _ => rfl
  perm := fun r c hr hc => by
    rw [Equiv.Perm.one_apply, Mat.get_ident hr hc]
    by_cases h : r = c
    · simp [h]
    · rw [if_neg h, if_neg (fun h' => h h'.symm)]
  up := fun r c _ _ _ => by
    refine ⟨fun _ => 1, ?_, ?_, ?_⟩
    · rw [Nat.min_zero]; exact FlModel.fac_zero_one
    · intro k hk; rw [Nat.min_zero] at hk; omega
    · simp
  lo := fun r c _ h => by simp at h
  piv := fun k h => by omega

/-- the pivot search and row swap: the invariant survives with `σ ∘ swap` -/
theorem pluSwap_fl {n : ℕ} {A : Mat (Fl M)} {eps : Fl M} {i : ℕ} {st : Mat (Fl M) × Mat (Fl M)}
    {σ : Equiv.Perm ℕ} (hi : i < n) (h : PluFl n A eps i st σ) :
    ∃ σ', PluFl n A eps i (pluSwap n st i) σ' := by
  obtain ⟨τ, _, τlt, τge, τbound, τmin, hget, d1, d2, d3, d4, d5⟩ :=
    pluSwap_get n st i hi h.hh h.hw h.ph h.pw
  refine ⟨σ * τ, ⟨d1, d2, d3, d4, d5 h.pwf, ?_, ?_, ?_, ?_, ?_⟩⟩
  · intro x hx
    rw [Equiv.Perm.mul_apply, τge x hx, h.fix x hx]
  · intro x c hx hc
    rw [(hget x c hx hc).2, Equiv.Perm.mul_apply]
    exact h.perm (τ x) c (τbound x hx) hc
  · intro x c hx hc hmin
    obtain ⟨t, h1, h2, h3⟩ := h.up (τ x) c (τbound x hx) hc (by rw [τmin]; exact hmin)
    rw [τmin] at h1 h2 h3
    refine ⟨t, h1, h2, ?_⟩
    rw [(hget x c hx hc).1, Equiv.Perm.mul_apply, h3]
    congr 1
    apply Finset.sum_congr rfl
    intro k hk
    have hk' : k < min x i := mem_range.1 hk
    have hkn : k < n := by omega
    rw [(hget x k hx hkn).1, (hget k c hkn hc).1, τlt k (by omega)]
  · intro x c hx hc
    have hcn : c < n := by omega
    have hci : c < i := by omega
    obtain ⟨t, h1, h2, h3⟩ := h.lo (τ x) c (τbound x hx) (by rw [τmin]; exact hc)
    refine ⟨t, h1, h2, ?_⟩
    rw [(hget x c hx hcn).1, (hget c c hcn hcn).1, τlt c hci, Equiv.Perm.mul_apply, h3]
    congr 1
    apply Finset.sum_congr rfl
    intro k hk
    have hk' : k < c := mem_range.1 hk
    have hkn : k < n := by omega
    rw [(hget x k hx hkn).1, (hget k c hkn hcn).1, τlt k (by omega)]
  · intro k hk
    have hkn : k < n := by omega
    rw [(hget k k hkn hkn).1, τlt k hk]
    exact h.piv k hk

/-- the elimination below a pivot that passed the guard -/
theorem pluElim_fl {n : ℕ} {A : Mat (Fl M)} {eps : Fl M} (heps : 0 < eps.val) {i : ℕ}
    {st : Mat (Fl M) × Mat (Fl M)} {σ : Equiv.Perm ℕ} (hi : i < n) (h : PluFl n A eps i st σ)
    (hpiv : ¬ (sabs (st.1.get i i) < eps)) :
    PluFl n A eps (i+1) (pluElim n st.1 i, st.2) σ := by
  obtain ⟨lu, p⟩ := st
  simp only at hpiv ⊢
  have hup := h.up; have hlo := h.lo; have hpv := h.piv
  simp only at hup hlo hpv
  have hd : (lu.get i i).val ≠ 0 := ne_zero_of_not_sabs_lt heps hpiv
  set lu' := pluElim n lu i with hlu'
  have rowle : ∀ x c, x < n → c < n → x ≤ i → lu'.get x c = lu.get x c := by
    intro x c hx hc hxi
    rw [hlu', pluElim_get' n lu i hx hc, if_neg (by omega)]
  have collt : ∀ x c, x < n → c < n → c < i → lu'.get x c = lu.get x c := by
    intro x c hx hc hci
    rw [hlu', pluElim_get' n lu i hx hc]
    split_ifs <;> first | rfl | omega
  have colm : ∀ x, x < n → i < x → lu'.get x i = lu.get x i / lu.get i i := by
    intro x hx hix
    rw [hlu', pluElim_get' n lu i hx hi, if_pos hix, if_pos rfl]
  have colgt : ∀ x c, x < n → c < n → i < x → i < c →
      lu'.get x c = lu.get x c - lu.get x i / lu.get i i * lu.get i c := by
    intro x c hx hc hix hic
    rw [hlu', pluElim_get' n lu i hx hc, if_pos hix, if_neg (by omega), if_pos hic]
  -- sums over `k < m ≤ i` of products `w_xk · w_kc` are untouched
  have hsum : ∀ (x c m : ℕ) (t : ℕ → ℝ), x < n → c < n → m ≤ i → m ≤ x →
      ∑ k ∈ range m, (lu'.get x k).val * (lu'.get k c).val * t k
        = ∑ k ∈ range m, (lu.get x k).val * (lu.get k c).val * t k := by
    intro x c m t hx hc hm hmx
    apply Finset.sum_congr rfl
    intro k hk
    have hk' : k < m := mem_range.1 hk
    rw [collt x k hx (by omega) (by omega), rowle k c (by omega) hc (by omega)]
  refine ⟨rfl, rfl, h.ph, h.pw, h.pwf, h.fix, h.perm, ?_, ?_, ?_⟩
  · -- up
    intro x c hx hc hmin
    by_cases hxi : x ≤ i
    · have e1 : min x (i+1) = x := by omega
      have e2 : min x i = x := by omega
      rw [e1] at hmin ⊢
      obtain ⟨t, h1, h2, h3⟩ := hup x c hx hc (by omega)
      rw [e2] at h1 h2 h3
      refine ⟨t, h1, h2, ?_⟩
      rw [hsum x c x t hx hc hxi (le_refl x), rowle x c hx hc hxi]
      exact h3
    · have hix : i < x := by omega
      have e1 : min x (i+1) = i + 1 := by omega
      have e2 : min x i = i := by omega
      rw [e1] at hmin ⊢
      have hic : i < c := by omega
      obtain ⟨t, h1, h2, h3⟩ := hup x c hx hc (by omega)
      rw [e2] at h1 h2 h3
      -- the two operations of the update
      obtain ⟨e, he, hmul⟩ := Fl.mul_fac (lu.get x i / lu.get i i) (lu.get i c)
      obtain ⟨d, hdf, hsub⟩ := Fl.sub_fac (lu.get x c) (lu.get x i / lu.get i i * lu.get i c)
      have hd0 : d ≠ 0 := hdf.pos.ne'
      refine ⟨fun k => if k = i + 1 then t i * d⁻¹ else if k = i then e * t i else t k,
        ?_, ?_, ?_⟩
      · simp only [if_true]
        exact h1.mul hdf.inv
      · intro k hk
        by_cases hki : k = i
        · subst hki
          simp only [show k ≠ k + 1 by omega, if_false, if_true]
          rw [Nat.add_comm]
          exact he.mul h1
        · simp only [show k ≠ i + 1 by omega, hki, if_false]
          exact h2 k (by omega)
      · rw [Finset.sum_range_succ]
        simp only [if_true, show i ≠ i + 1 by omega, if_false]
        have es : ∑ k ∈ range i, (lu'.get x k).val * (lu'.get k c).val
              * (if k = i + 1 then t i * d⁻¹ else if k = i then e * t i else t k)
            = ∑ k ∈ range i, (lu.get x k).val * (lu.get k c).val * t k := by
          rw [← hsum x c i t hx hc (le_refl i) (by omega)]
          apply Finset.sum_congr rfl
          intro k hk
          have hk' : k < i := mem_range.1 hk
          rw [if_neg (by omega), if_neg (by omega)]
        rw [es, colgt x c hx hc hix hic, colm x hx hix, rowle i c hi hc (le_refl i), h3, hsub,
          hmul]
        field_simp
        ring
  · -- lo
    intro x c hx hc
    have hcn : c < n := by omega
    by_cases hci : c < i
    · obtain ⟨t, h1, h2, h3⟩ := hlo x c hx (by omega)
      refine ⟨t, h1, h2, ?_⟩
      rw [hsum x c c t hx hcn (by omega) (by omega), collt x c hx hcn hci,
        collt c c hcn hcn hci]
      exact h3
    · have hce : c = i := by omega
      subst hce
      have hix : c < x := by omega
      have e2 : min x c = c := by omega
      obtain ⟨t, h1, h2, h3⟩ := hup x c hx hcn (by omega)
      rw [e2] at h1 h2 h3
      obtain ⟨d, hdf, hdiv⟩ := Fl.div_fac (lu.get x c) (lu.get c c)
      have hd0 : d ≠ 0 := hdf.pos.ne'
      refine ⟨fun k => if k = c then t c * d⁻¹ else t k, ?_, ?_, ?_⟩
      · simp only [if_true]
        exact h1.mul hdf.inv
      · intro k hk
        simp only [show k ≠ c by omega, if_false]
        exact (h2 k hk)
      · simp only [if_true]
        have es : ∑ k ∈ range c, (lu'.get x k).val * (lu'.get k c).val
              * (if k = c then t c * d⁻¹ else t k)
            = ∑ k ∈ range c, (lu.get x k).val * (lu.get k c).val * t k := by
          rw [← hsum x c c t hx hcn (le_refl c) (by omega)]
          apply Finset.sum_congr rfl
          intro k hk
          have hk' : k < c := mem_range.1 hk
          rw [if_neg (by omega)]
        rw [es, colm x hx hix, rowle c c hcn hcn (le_refl c), h3, hdiv]
        field_simp
  · -- piv
    intro k hk
    have hkn : k < n := by omega
    rw [rowle k k hkn hkn (by omega)]
    by_cases hki : k < i
    · exact hpv k hki
    · have : k = i := by omega
      rw [this]; exact hpiv

theorem pluStep_fl {n : ℕ} {A : Mat (Fl M)} {eps : Fl M} (heps : 0 < eps.val) {i : ℕ}
    {st st' : Mat (Fl M) × Mat (Fl M)} (hi : i < n) (h : ∃ σ, PluFl n A eps i st σ)
    (hs : pluStep eps n st i = some st') : ∃ σ, PluFl n A eps (i+1) st' σ := by
  obtain ⟨σ, h⟩ := h
  obtain ⟨σ', h'⟩ := pluSwap_fl hi h
  unfold pluStep at hs
  dsimp only at hs
  split_ifs at hs with hg
  simp only [Option.some.injEq] at hs
  subst hs
  exact ⟨σ', pluElim_fl heps hi h' hg⟩

/-- reading the invariant off a successful run -/
theorem plu_ok_fl {eps : Fl M} (heps : 0 < eps.val) {A L U P : Mat (Fl M)}
    (h : plu eps A = .ok (L, U, P)) :
    A.h = A.w ∧ ∃ lu σ, PluFl A.h A eps A.h (lu, P) σ ∧ L = splitL A.h lu ∧ U = splitU A.h lu := by
  unfold plu at h
  split_ifs at h with hsq
  dsimp only at h
  have hsq' : A.h = A.w := not_not.mp hsq
  cases hit : iter (pluStep eps A.h) A.h 0 (A, Mat.ident A.h) with
  | none => simp [hit] at h
  | some st =>
    simp only [hit, Outcome.ok.injEq, Prod.mk.injEq] at h
    obtain ⟨h1, h2, h3⟩ := h
    refine ⟨hsq', ?_⟩
    have := iter_inv (pluStep eps A.h) (fun i st => ∃ σ, PluFl A.h A eps i st σ) A.h
      (fun i s s' hi hI hs => pluStep_fl heps hi hI hs) A.h 0 _ _ (by omega)
      ⟨1, pluFl_init A eps A.h rfl hsq'.symm⟩ hit
    simp only [Nat.zero_add] at this
    obtain ⟨σ, hσ⟩ := this
    refine ⟨st.1, σ, ?_, h1.symm, h2.symm⟩
    rw [← h3]
    exact hσ

/-- **The final split, every entry.**  With `L = splitL lu`, `U = splitU lu` of the final packed
array: `A (σ r) c = Σ_{j<n} L r j · U j c · t j` exactly, every weight an accumulated factor of at most
`n − 1` roundings. -/
theorem plu_entry_weights {n : ℕ} {A : Mat (Fl M)} {eps : Fl M} {lu p : Mat (Fl M)}
    {σ : Equiv.Perm ℕ} (h : PluFl n A eps n (lu, p) σ) {r c : ℕ} (hr : r < n) (hc : c < n) :
    ∃ t : ℕ → ℝ, (∀ j, M.Fac (n - 1) (t j)) ∧
      (A.get (σ r) c).val
        = ∑ j ∈ range n, ((splitL n lu).get r j).val * ((splitU n lu).get j c).val * t j := by
  have hup := h.up; have hlo := h.lo
  simp only at hup hlo
  have em : min r n = r := by omega
  by_cases hrc : r ≤ c
  · obtain ⟨t, h1, h2, h3⟩ := hup r c hr hc (by omega)
    rw [em] at h1 h2 h3
    obtain ⟨t', ht', he⟩ := extend_weights (M := M) n r (n - 1)
      (fun j => ((splitL n lu).get r j).val * ((splitU n lu).get j c).val) t hr
      (fun j hj hjn => by
        rw [splitL_get' n lu hr hjn, if_neg (by omega), if_neg (by omega), Fl.zero_val, zero_mul])
      (fun j hj => by
        by_cases hjr : j = r
        · rw [hjr]; exact h1.mono (by omega)
        · exact (h2 j (by omega)).mono (by omega))
    refine ⟨t', ht', ?_⟩
    rw [← he, h3, Finset.sum_range_succ, splitL_get' n lu hr hr, if_pos rfl,
      splitU_get' n lu hr hc, if_pos hrc, Fl.one_val, one_mul]
    congr 1
    apply Finset.sum_congr rfl
    intro k hk
    have hk' : k < r := mem_range.1 hk
    rw [splitL_get' n lu hr (by omega), if_neg (by omega), if_pos hk',
      splitU_get' n lu (by omega) hc, if_pos (by omega)]
  · have hcr : c < r := by omega
    obtain ⟨t, h1, h2, h3⟩ := hlo r c hr (by omega)
    obtain ⟨t', ht', he⟩ := extend_weights (M := M) n c (n - 1)
      (fun j => ((splitL n lu).get r j).val * ((splitU n lu).get j c).val) t hc
      (fun j hj hjn => by
        rw [splitU_get' n lu hjn hc, if_neg (by omega), Fl.zero_val, mul_zero])
      (fun j hj => by
        by_cases hjc : j = c
        · rw [hjc]; exact h1.mono (by omega)
        · exact (h2 j (by omega)).mono (by omega))
    refine ⟨t', ht', ?_⟩
    rw [← he, h3, Finset.sum_range_succ, splitL_get' n lu hr hc, if_neg (by omega), if_pos hcr,
      splitU_get' n lu hc hc, if_pos (le_refl c)]
    congr 1
    apply Finset.sum_congr rfl
    intro k hk
    have hk' : k < c := mem_range.1 hk
    rw [splitL_get' n lu hr (by omega), if_neg (by omega), if_pos (by omega),
      splitU_get' n lu (by omega) hc, if_pos (by omega)]

end rounding

end SV.C09
