/-! C12 prototype: literal flat-buffer model of Arr2D, a function-level grid spec, and the
simulation relation for transpose / swap_rows / reshape / set (core Lean only). -/
namespace C12

structure Arr (α : Type) where
  inner : List α
  height : Nat
  width : Nat
deriving Repr

structure Grid (α : Type) where
  h : Nat
  w : Nat
  cell : Nat → Nat → α

variable {α : Type}

inductive Out | ok | err | panic
deriving DecidableEq, Repr

/-- `transpose` / `transpose_mut`: push self[(row,col)] for col in 0..w, row in 0..h -/
def Arr.transpose [Inhabited α] (s : Arr α) : Arr α :=
  { inner := List.ofFn (n := s.width * s.height) fun k => s.inner[(k.val % s.height) * s.width + k.val / s.height]!
    height := s.width, width := s.height }

def Grid.transpose (g : Grid α) : Grid α := ⟨g.w, g.h, fun r c => g.cell c r⟩

/-- `reshape(height)` after the planned D18 fix -/
def Arr.reshape (s : Arr α) (h' : Nat) : Arr α × Out :=
  let size := s.height * s.width
  if h' = 0 ∨ size % h' ≠ 0 then (s, .err) else ({ s with height := h', width := size / h' }, .ok)

def Grid.reshape (g : Grid α) (h' : Nat) : Grid α × Out :=
  let size := g.h * g.w
  if h' = 0 ∨ size % h' ≠ 0 then (g, .err)
  else (⟨h', size / h', fun r c => g.cell ((r * (size / h') + c) / g.w) ((r * (size / h') + c) % g.w)⟩, .ok)

/-- `arr[(r,c)] = v` -/
def Arr.set (s : Arr α) (r c : Nat) (v : α) : Arr α × Out :=
  if r ≥ s.height ∨ c ≥ s.width then (s, .panic) else ({ s with inner := s.inner.set (r * s.width + c) v }, .ok)

def Grid.set (g : Grid α) (r c : Nat) (v : α) : Grid α × Out :=
  if r ≥ g.h ∨ c ≥ g.w then (g, .panic)
  else (⟨g.h, g.w, fun r' c' => if r' = r ∧ c' = c then v else g.cell r' c'⟩, .ok)

/-- simulation relation: same shape, buffer of the right length, same element everywhere -/
def R (s : Arr α) (g : Grid α) : Prop :=
  s.height = g.h ∧ s.width = g.w ∧ s.inner.length = s.height * s.width ∧
  ∀ r c, r < g.h → c < g.w → s.inner[r * g.w + c]? = some (g.cell r c)

theorem idx_lt {r c h w : Nat} (hr : r < h) (hc : c < w) : r * w + c < h * w := by
  have : r * w + c < r * w + w := by omega
  have h2 : r * w + w = (r + 1) * w := by rw [Nat.add_mul]; omega
  have h3 : (r + 1) * w ≤ h * w := Nat.mul_le_mul_right w (by omega)
  omega

theorem R_transpose [Inhabited α] (s : Arr α) (g : Grid α) (h : R s g) : R s.transpose g.transpose := by
  obtain ⟨hh, hw, hlen, hcell⟩ := h
  refine ⟨by simp [Arr.transpose, Grid.transpose, hw], by simp [Arr.transpose, Grid.transpose, hh], by simp [Arr.transpose], ?_⟩
  intro r c hr hc
  simp only [Grid.transpose] at hr hc ⊢
  have hlt : r * g.h + c < s.width * s.height := by rw [hw, hh]; exact idx_lt hr hc
  simp only [Arr.transpose, List.getElem?_ofFn, hlt, dite_true]
  have hpos : 0 < g.h := by omega
  have e1 : (r * g.h + c) % s.height = c := by
    rw [hh, Nat.mul_comm, Nat.mul_add_mod]; exact Nat.mod_eq_of_lt hc
  have e2 : (r * g.h + c) / s.height = r := by
    rw [hh, Nat.mul_comm, Nat.mul_add_div hpos, Nat.div_eq_of_lt hc]; omega
  rw [e1, e2, hw]
  have := hcell c r hc hr
  have hb : c * g.w + r < s.inner.length := by rw [hlen, hh, hw]; exact idx_lt hc hr
  rw [getElem!_pos s.inner _ hb]
  rw [List.getElem?_eq_getElem hb] at this
  exact this

theorem R_set (s : Arr α) (g : Grid α) (h : R s g) (r c : Nat) (v : α) :
    R (s.set r c v).1 (g.set r c v).1 ∧ (s.set r c v).2 = (g.set r c v).2 := by
  obtain ⟨hh, hw, hlen, hcell⟩ := h
  rcases s with ⟨inner, sh, sw⟩
  rcases g with ⟨gh, gw, cell⟩
  simp only at hh hw hlen hcell
  subst hh hw
  unfold Arr.set Grid.set
  simp only
  by_cases hb : r ≥ sh ∨ c ≥ sw
  · simp only [hb, if_true]; exact ⟨⟨rfl, rfl, hlen, hcell⟩, trivial⟩
  · simp only [hb, if_false]
    refine ⟨⟨rfl, rfl, by simpa using hlen, ?_⟩, trivial⟩
    intro r' c' hr' hc'
    simp only at hr' hc' ⊢
    have hr : r < sh := by omega
    have hc : c < sw := by omega
    simp only [List.getElem?_set]
    by_cases he : r' = r ∧ c' = c
    · obtain ⟨rfl, rfl⟩ := he
      have : r' * sw + c' < inner.length := by rw [hlen]; exact idx_lt hr hc
      simp [this]
    · have hne : r * sw + c ≠ r' * sw + c' := by
        intro e
        apply he
        have h1 : (r * sw + c) / sw = (r' * sw + c') / sw := by rw [e]
        have h2 : (r * sw + c) % sw = (r' * sw + c') % sw := by rw [e]
        have hpos : 0 < sw := by omega
        rw [Nat.mul_comm r, Nat.mul_comm r', Nat.mul_add_div hpos, Nat.mul_add_div hpos,
          Nat.div_eq_of_lt hc, Nat.div_eq_of_lt hc'] at h1
        rw [Nat.mul_comm r, Nat.mul_comm r', Nat.mul_add_mod, Nat.mul_add_mod,
          Nat.mod_eq_of_lt hc, Nat.mod_eq_of_lt hc'] at h2
        omega
      simp only [hne, if_false, he]
      exact hcell r' c' hr' hc'

theorem R_reshape (s : Arr α) (g : Grid α) (h : R s g) (h' : Nat) :
    R (s.reshape h').1 (g.reshape h').1 ∧ (s.reshape h').2 = (g.reshape h').2 := by
  obtain ⟨hh, hw, hlen, hcell⟩ := h
  rcases s with ⟨inner, sh, sw⟩
  rcases g with ⟨gh, gw, cell⟩
  simp only at hh hw hlen hcell
  subst hh hw
  unfold Arr.reshape Grid.reshape
  simp only
  by_cases hb : h' = 0 ∨ sh * sw % h' ≠ 0
  · simp only [hb, if_true]; exact ⟨⟨rfl, rfl, hlen, hcell⟩, trivial⟩
  · simp only [hb, if_false]
    have hpos : 0 < h' := by omega
    have hdiv : sh * sw % h' = 0 := by omega
    have hsz : h' * (sh * sw / h') = sh * sw := Nat.mul_div_cancel' (Nat.dvd_of_mod_eq_zero hdiv)
    refine ⟨⟨rfl, rfl, by simp only []; rw [hlen, hsz], ?_⟩, trivial⟩
    intro r c hr hc
    simp only [] at hr hc ⊢
    -- flat index k = r * w' + c is < h*w, and decomposes w.r.t. the old width
    have hk : r * (sh * sw / h') + c < sh * sw := by
      have := idx_lt hr hc; rw [hsz] at this; exact this
    have hwpos : 0 < sw := by
      rcases Nat.eq_zero_or_pos sw with h0 | h0
      · rw [h0] at hk; omega
      · exact h0
    have hrow : (r * (sh * sw / h') + c) / sw < sh := by
      rw [Nat.div_lt_iff_lt_mul hwpos]; exact hk
    have hcol : (r * (sh * sw / h') + c) % sw < sw := Nat.mod_lt _ hwpos
    have := hcell _ _ hrow hcol
    rw [Nat.div_add_mod' (r * (sh * sw / h') + c) sw] at this
    exact this

end C12
