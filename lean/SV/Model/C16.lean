import SV.Model.C01
import SV.Model.C02
/-!
C16 driver: both parser models on arbitrary text.

    parse1 <text>                    → answer of the univariate parser model  (as `C01 parse`)
    parse2 <text>                    → answer of the multivariate parser model (as `C02 parse`)
    enumx <parser> <maxlen> <alphabet> <prefix>  → the same over the alphabet given in the request
    o1 / o2 / long …                 → `-` (oracle-only requests of the harness)
    enum <parser> <maxlen> <prefix>  → `<strings> <accepted> <fnv64>`: all strings over the 15-symbol
                                       alphabet that start with `prefix` and have length ≤ maxlen, in
                                       lexicographic-by-extension order, each parsed; the digest is
                                       FNV-1a over the canonical answers with `f64` bit patterns
                                       (a rejection is hashed as `err`, whatever its kind: the property
                                       says "a value or an error"; coefficients of a univariate text with
                                       two or more sign characters are hashed to 24 bits: `fmtNumCoarse`)

For the digest numbers must be binary64 values: a decimal literal `m / 10^s` with `m < 2^53` and
`s ≤ 22` is converted by one IEEE division of two exactly representable numbers, which is correctly
rounded (the classical fast path); the enumerated strings are at most 7 characters long, so every
literal is on that path.  `+` and `/` of `Text.Num` are the IEEE operations.
-/
namespace SV.C16
open SV SV.Text SV.Poly SV.Wire SV.PolyWire

def alphabet : List Char :=
  ['x', 'y', '2', '3', '0', '.', '^', '+', '-', '/', '*', '(', ')', ' ', '#']

def Dec.toFloat (d : Dec) : Float :=
  let v := Float.ofNat d.mant / Float.ofNat (10 ^ d.scale)
  if d.neg then -v else v

def Num.toFloat : Num → Float
  | .dec d => Dec.toFloat d
  | .div a b => Num.toFloat a / Num.toFloat b
  | .add a b => Num.toFloat a + Num.toFloat b

def fmtNumF (n : Num) : String := fmtF (Num.toFloat n)

def answer1 (fmt : Num → String) (s : List Char) : String :=
  match C01.parse stdClass SV.Gen.simpleMaxPower s with
  | .error e => fmtErr e
  | .ok p =>
    " ".intercalate (["ok", match p.var with | some c => toString c.toNat | none => "-",
      toString p.coeffs.length] ++ p.coeffs.map fmt)

def answer2 (fmt : Num → String) (s : List Char) : String :=
  match C02.parse stdClass s with
  | .error e => fmtErr e
  | .ok p =>
    " ".intercalate (["ok", "I", toString p.terms.length]
      ++ p.terms.map (fun t => " ".intercalate ([fmt t.coef, toString t.vars.length]
          ++ t.vars.map fun (v, e) => fmtName v ++ " " ++ fmt e))
      ++ [toString p.variables.length] ++ p.variables.map fmtName)

/-- Digest form of a coefficient of a univariate text with two or more sign characters (only such a text can have three
or more like terms): the value rounded to 24 significant bits.  "Like powers are summed" - the order in which the parser
adds them is not part of any property, and only sums of three or more terms depend on it (in the last bits).  Texts with
fewer sign characters, and the multivariate parser (which never adds terms), are hashed with all 64 bits. -/
def fmtNumCoarse (n : Num) : String :=
  "g" ++ toString (((Num.toFloat n).toBits + 268435456) >>> 29).toNat

def signCount (s : List Char) : Nat := (s.filter fun c => c == '+' || c == '-').length

def digestAnswer (parser : Nat) (s : List Char) : String :=
  if parser = 1 then answer1 (if signCount s ≥ 2 then fmtNumCoarse else fmtNumF) s else answer2 fmtNumF s

def fnvStep (h : UInt64) (b : UInt8) : UInt64 := (h ^^^ b.toUInt64) * 0x100000001b3

def fnvStr (h : UInt64) (s : String) : UInt64 :=
  fnvStep (s.toUTF8.foldl fnvStep h) 10

structure Acc where
  n : Nat := 0
  ok : Nat := 0
  h : UInt64 := 0xcbf29ce484222325

/-- visit `s`, then every extension of `s` by one alphabet symbol, depth first, while
`length ≤ maxlen` (`budget` = remaining extensions) -/
def enumFrom (alpha : List Char) (answer : List Char → String) : Nat → List Char → Acc → Acc
  | budget, s, acc =>
    let a := answer s
    let acc := { acc with n := acc.n + 1, ok := acc.ok + (if a.startsWith "ok" then 1 else 0),
                          -- "a value or an error": the digest hashes `err` for every rejection, whatever the kind
                          h := fnvStr acc.h (if a.startsWith "err" then "err" else a) }
    match budget with
    | 0 => acc
    | b + 1 => alpha.foldl (fun acc c => enumFrom alpha answer b (s ++ [c]) acc) acc

def handle (line : String) : String :=
  let p : P String := do
    let cmd ← tok
    match cmd with
    | "parse1" => do let s ← chars; return answer1 Num.show s
    | "parse2" => do let s ← chars; return answer2 Num.show s
    | "enum" => do
      let parser ← nat; let maxlen ← nat; let pre ← chars
      let acc := enumFrom alphabet (digestAnswer parser) (maxlen - pre.length) pre {}
      return s!"{acc.n} {acc.ok} {acc.h.toNat}"
    | "enumx" => do
      -- the same enumeration over an alphabet given in the request
      let parser ← nat; let maxlen ← nat; let alpha ← chars; let pre ← chars
      let acc := enumFrom alpha (digestAnswer parser) (maxlen - pre.length) pre {}
      return s!"{acc.n} {acc.ok} {acc.h.toNat}"
    -- requests judged by the harness oracle alone (characters outside the model's class table; texts of
    -- 10^5..10^6 characters): the answer is not compared
    | "o1" => do let _ ← chars; return "-"
    | "o2" => do let _ ← chars; return "-"
    | "long" => do let _ ← nat; let _ ← nat; let _ ← nat; return "-"
    | _ => fail
  match run p ((line.splitOn " | ").headD line) with
  | some s => s
  | none => "bad-request"

end SV.C16
