"""C08 plug-in: exact-rational oracle for `gaussian_elimination`, `back_substitution`,
`forward_substitution`, written from the property's statement (not from the Lean model).

Every number of a request / an answer is turned into a `fractions.Fraction` from its f64 bit pattern
(or from the `i<int>` spelling of a small integer), so every test below is exact.

Clauses decided here on the implementation's answer:

 1. backward error, equation by equation (so that it is invariant under the row scalings 2^-30..2^30):
        |sum_j a_ij x_j - b_i|  <=  2^10 * n * u * ( (sum_j |a_ij|) * max_j |x_j|  +  |b_i| )      u = 2^-53
    for every returned x.  Elimination with row pivoting computes the exact solution of (A + E) x = b with
    |E| <= ~3 n u |L||U| (Higham, Accuracy and Stability, Thm 9.4); row i of |L||U| is bounded by the growth
    factor times the scale of row i, which gives the form above with a constant of a few units: the largest
    ratio observed on the unmodified code is printed in the notes of every run (about 0.5, i.e. three orders
    of magnitude below 2^10).
    The sharper Oettli-Prager form with (|A||x|)_i in place of |a_i|_1 |x|_inf is NOT used: no LU-based solver
    satisfies it, because fill-in makes |L||U| non-zero where A is zero.  Witness on the unmodified code
    (and on any solver that takes row 1 as first pivot):
        A = [[-1,-1,2],[-2,2,-1],[2,0,0]], b = [3,-1,0]:  exact x = (0, 1/3, 5/3), computed x_0 = 1.4e-17, so the
        third equation 2 x_0 = 0 has residual 2.8e-17 against |A||x| + |b| = 2.8e-17 (ratio 1/(n u) ~ 3e15).
    2 of the 32 652 solved systems of the quick run are of this kind.
 1b. backward error, componentwise ("a componentwise backward error of a few rounding units"), in the only form an
    LU-based solver can satisfy (Higham, Thm 9.3/9.4: (A + dA) x^ = b with |dA| <= gamma_3n P^T |L^||U^|):
        |sum_j a_ij x_j - b_i|  <=  2^6 * n * u * ( (|L||U| |x|)_i + |b_i| )
    where L, U are the factors of the elimination of A with scaled partial pivoting (row maxima of the ORIGINAL rows as
    scales, largest scaled entry of the column as pivot, rows exchanged), computed HERE in exact rational arithmetic.
    |L||U| >= |A| entrywise, so the clause is first tried with |A| in place of |L||U| (Oettli-Prager; no elimination
    needed); only when that fails (fill-in: 1 in 10^4 ordinary systems, most of the tiny-entry family) the exact
    elimination is carried out.  The pivot order of the implementation is not observable; the oracle replays the choice in
    exact arithmetic and branches wherever the choice is not determined beyond doubt: a candidate i is admissible when
    its scaled magnitude, widened by 2^-20 relative and by the rounding uncertainty (2^10 n u + eta) (|L||U|)_ik / s_i of
    the computed entry (eta: the accumulated relative uncertainty of the pivots already used), reaches the best
    candidate's lower end.  The clause PASSES when the bound holds for SOME admissible
    order, FAILS when it is violated for EVERY admissible order (complete search), and abstains when the search is cut
    off (budget) or a pivot on the path is not significantly non-zero (below 2^20 n u of its cancellation scale: the exact
    factors then say nothing about the computed ones; such systems are refused at any tolerance of the statement).
    The constant: theory gives 3 (gamma_3n/(n u)); the largest ratio observed on the unmodified code is printed in the
    notes of every run.  This clause is what sees a dropped elimination step / a skipped "negligible" multiplier whose
    solution component is huge: the row-wise form of clause 1 cannot (|a_i|_1 |x|_inf is then astronomically large).
 2. an exactly singular A (exact rational rank < n) with tolerance >= 1e-12 must be refused with an error -
    never answered with a vector (zeros, NaNs or anything else).
 3. a system that is well conditioned *by a certificate the oracle checks itself in exact arithmetic* must not
    be refused when tol <= 1e-6:
      (a) n <= 3 and every row is a power of two times integers of size <= 2, det != 0
          (then every exact scaled pivot is >= 1/24);
      (b) rows strictly diagonally dominant by a factor 2;
      (c) the row-equilibrated matrix D^-1 A (D = diag of the row maxima) has ||(D^-1 A)^-1||_inf <= 1000.
          For every row-pivoted elimination the active block S is a Schur complement of a row permutation of
          D^-1 A, S^-1 is a sub-block of the permuted inverse, so the first column c of S has
          max|c_i| >= 1/||S^-1||_inf >= 1/||(D^-1 A)^-1||_inf >= 1e-3: the scaled pivot the code tests is the
          largest scaled entry of that column, three orders of magnitude above any tolerance <= 1e-6.
 4. non-square A, rhs of another length, the empty system, inconsistent nested rows: an error (of any kind: the
    statement does not name it, so neither this oracle nor the comparison with the model distinguishes error kinds);
    a panic is a failure for every `gauss` request.
 5. `back` / `forward`: when the call is inside its precondition (1 <= size for back; size <= both matrix
    dimensions and both slice lengths) it must not panic; with a non-zero diagonal the answer satisfies the
    triangular system in the form of clause 1, T = the triangle the routine is specified to read (the other
    triangle may hold anything: NaN and infinities are put there), AND componentwise (Higham, Thm 8.5:
    (T + dT) x^ = b with |dT| <= gamma_n |T|, no fill-in in a substitution):
        |sum_j t_ij x_j - b_i|  <=  2^6 * n * u * ( (|T||x|)_i + |b_i| ).

The harness adds to clause 5: the same call on a buffer already used by another call and on a buffer full of -inf must give
the same bits as on the NaN-filled one (the result may not depend on the previous contents of the output slice).

Clauses 1-3 and 5 use a purely relative rounding model; they are not asserted when an input magnitude lies outside
2^-340 .. 2^340.  Systems with entries outside that range - tiny / subnormal, near-overflow, and since the fourth seeded
round MIXED EXTREMES (subnormal rows next to normal ones, rows near 2^1000 next to ordinary ones) - are judged by clause 1b
with an absolute underflow allowance built from the exact multipliers and pivots of the order under test - see
`tiny_regime` and `lu_componentwise` - whenever a vector is returned at a tolerance >= 1e-12; an equation whose bound
(|L||U||x|)_i + |b_i| reaches 2^1024 is not judged, a NaN / infinite component is a failure on the certificate `_finite_owed`
(nothing in the exact elimination comes near the overflow threshold), a refusal of a system certified well conditioned
(clause 3) is a failure when the entries lie within 2^-990 .. 2^1000.  Two rows that differ by 2^1000 or more are outside
every clause (the multiplier larger row / pivot of the smaller row is not a number; the unmodified code then returns
NaN / inf components: counted in the notes of every run, `_multiplier_overflow`).

"identically for every accepted container type" is decided inside the harness (every other container kind
that can hold the numbers is called on the same request; any difference is a FAIL verdict).

Tolerances below 1e-12 (0, negative, 1e-300) are outside the statement ("whenever the caller's pivot tolerance
is above rounding level"): such requests are compared with the model (K) but clauses 2 and the finiteness
of x are not asserted for them.
"""
import struct, math
from fractions import Fraction

RULE = ("exhaustive: all 625 2x2 matrices over -2..2 x 4 right-hand sides x tol {1e-12,1e-9}; quick: 30 000 random / "
        "thorough: all 1 953 125 3x3 matrices over -2..2 (rhs, tolerance and container kind rotate); all shapes 0..4 x 0..4 "
        "x rhs lengths 0..4; 1x1 systems x tolerance corners; random real n<=10 with rows scaled by 2^-30..2^30; "
        "diagonally dominant; scaled small-integer; exactly singular by construction (zero/repeated row/column, row sums, "
        "thin integer products); pivot ties; triangular systems (with garbage in the other triangle, leading "
        "sub-systems, panicking calls). Each gauss request is also run through every other container kind that can "
        "hold its numbers (nested Vec of f64 owned/borrowed, &Arr2D<f64>, &Vec<Vec<i32>>, &Arr2D<i32>, &Vec<Vec<f32>>, "
        "&Arr2D<f32>, &Vec<Vec<u8>>, &Arr2D<u8>). Hardening families: nested vectors of every row-length tuple 0..4 for 2..4 rows; "
        "u8 matrices; every order 11..40 (48, 64 thorough) incl. triangular solves; rows scaled by 2^+-70 / 2^+-200, whole system "
        "at 2^-250..2^250, column scalings, tiny/huge/mixed right-hand sides, one tiny + one huge row, single entries 2^-60..2^-20; "
        "graded / already reduced columns (tail 10^-1..10^-17 of the head); last scaled pivot 10^-1..10^-17; scaled pivot equal to a "
        "dyadic tolerance; subnormal / near-overflow systems (correspondence only, and not where a component overflowed); sign patterns (all negative, negative row / "
        "column maxima), triangular / diagonal / permutation inputs with signed zeros, right-hand sides with leading / trailing "
        "zeros and unit vectors; near ties 1 +- 10^-t in the pivot column; NaN / inf in A, b, tol (correspondence only); "
        "triangular solves with NaN / inf / 1e300 in the triangle that must not be read, each repeated on a used buffer and on a "
        "buffer of -inf; larger non-square shapes and wrong rhs lengths at orders 10 and 40; tiny-times-huge (third seeded round): "
        "an entry 2^-53..2^-90 of its own row's maximum in the column of an unknown 2^53..2^94 times the others (and the mirror image: "
        "one entry 2^53..2^90 times the rest of its row, tiny unknown), n = 2..10, dense / dominant / banded / small-integer / dyadic "
        "(f32-representable) bases, rows shuffled, row scalings none / 2^+-30 / 2^+-100, the 2x2 instances for every exponent 50..95, "
        "triangular solves of the same kind; mixed extremes inside one system (fourth seeded round): subnormal rows (2^-1056..2^-1000) next "
        "to small normal rows (2^-70..2^-50), or rows near the top of the range (2^900..2^1010) next to ordinary ones, so that a subnormal "
        "multiplier meets a pivot-row entry 2^1000 times larger, n = 2..6, five bases, column scalings on the huge side, rows shuffled, "
        "the 2x2 / 3x3 instances for every exponent (judged by clause 1b with the underflow allowance); a few systems with row ratios "
        "above 2^1023 (model comparison). non-trivial = the model answers with a solution vector of length >= 1 or refuses as singular "
        "(shape errors and panics are trivial); distinct = distinct request lines")

U = Fraction(1, 2 ** 53)
C_BOUND = 2 ** 10
TOL_ROUNDING = Fraction(1e-12)            # "above rounding level": the f64 nearest 1e-12 (it is below 10^-12)
TOL_ACCEPT = Fraction(1e-6)
# The rounding model of clauses 1-3 and 5 (relative errors only) holds as long as nothing under- or overflows:
# every non-zero input magnitude within 2^-340 .. 2^340 keeps each product/quotient of three of them inside the
# normal range.  Systems outside (subnormal / near-overflow entries) are generated too, but only the discrete
# clauses (shape errors, no panic) and the comparison with the model apply to them.
SAFE_LO = Fraction(1, 2 ** 340)
SAFE_HI = Fraction(2 ** 340)


def in_safe_range(values):
    return all(v == 0 or SAFE_LO <= abs(v) <= SAFE_HI for v in values)

_cache = {}
_MISS = object()


def _bits_to_frac(b):
    f = struct.unpack("<d", struct.pack("<Q", b))[0]
    return Fraction(f) if math.isfinite(f) else None


def val(tok):
    """request token -> Fraction (None for NaN / inf)"""
    v = _cache.get(tok, _MISS)
    if v is _MISS:
        if tok[0] == "i":
            v = Fraction(int(tok[1:]))
        elif tok[0] == "f":
            v = _bits_to_frac(int(tok[1:]))
        else:
            v = _bits_to_frac(int(tok))
        if len(_cache) < 300000:
            _cache[tok] = v
    return v


def fval(tok):
    if tok[0] == "i":
        return float(int(tok[1:]))
    b = int(tok[1:]) if tok[0] == "f" else int(tok)
    return struct.unpack("<d", struct.pack("<Q", b))[0]


class Rd:
    def __init__(self, toks, k=0):
        self.t, self.k = toks, k

    def tok(self):
        x = self.t[self.k]; self.k += 1; return x

    def nat(self):
        return int(self.tok())

    def vec(self):
        n = self.nat()
        return [val(self.tok()) for _ in range(n)]

    def mat(self):
        h, w = self.nat(), self.nat()
        return h, w, [[val(self.tok()) for _ in range(w)] for _ in range(h)]


def parse_answer(ans):
    """-> ('ok', [Fraction|None]) | ('err', kind) | ('panic', None) | ('?', text)"""
    t = ans.split()
    if not t:
        return "?", ans
    if t[0] == "ok":
        n = int(t[1])
        return "ok", [val(x) for x in t[2:2 + n]]
    if t[0] == "err":
        return "err", t[1] if len(t) > 1 else ""
    if t[0] == "panic":
        return "panic", None
    return "?", ans


# ------------------------------------------------------------------ exact linear algebra

_PRIMES = (2 ** 61 - 1, 2 ** 89 - 1)


def _det_mod(A, p):
    """determinant modulo the prime p of the integer matrix obtained by multiplying every row of the dyadic matrix
    A by a power of two (zero <=> det(A) = 0 mod p)"""
    n = len(A)
    M = []
    for row in A:
        den = max(x.denominator for x in row)
        M.append([(x.numerator * (den // x.denominator)) % p for x in row])
    for k in range(n):
        piv = next((r for r in range(k, n) if M[r][k]), None)
        if piv is None:
            return 0
        M[k], M[piv] = M[piv], M[k]
        inv = pow(M[k][k], p - 2, p)
        Mk = M[k]
        for r in range(k + 1, n):
            f = M[r][k] * inv % p
            if f:
                Mr = M[r]
                for c in range(k + 1, n):
                    Mr[c] = (Mr[c] - f * Mk[c]) % p
    return 1


def probably_singular(A):
    """False = certainly non-singular (a non-zero determinant modulo a prime is a proof); True = singular modulo two
    large primes (exactly singular, up to a chance of about 2^-150)"""
    return all(_det_mod(A, p) == 0 for p in _PRIMES)


def singular(A):
    """exact: rank < n (closed forms up to order 3; above, a non-zero determinant modulo a prime proves regularity,
    otherwise fraction elimination with any non-zero pivot decides)"""
    n = len(A)
    if n == 1:
        return A[0][0] == 0
    if n == 2:
        return A[0][0] * A[1][1] - A[0][1] * A[1][0] == 0
    if n == 3:
        (a, b, c), (d, e, f), (g, h, i) = A
        return a * (e * i - f * h) - b * (d * i - f * g) + c * (d * h - e * g) == 0
    if n > 6 and not probably_singular(A):
        return False
    M = [row[:] for row in A]
    for k in range(n):
        p = next((r for r in range(k, n) if M[r][k] != 0), None)
        if p is None:
            return True
        M[k], M[p] = M[p], M[k]
        pk = M[k][k]
        for r in range(k + 1, n):
            if M[r][k] != 0:
                f = M[r][k] / pk
                Mr, Mk = M[r], M[k]
                for c in range(k + 1, n):
                    Mr[c] -= f * Mk[c]
    return False


def _v2(q):
    """2-adic valuation of a non-zero dyadic rational"""
    num, den = q.numerator, q.denominator
    return (num & -num).bit_length() - 1 - (den.bit_length() - 1)


def inv_norm_inf(A):
    """exact infinity norm of the inverse (Gauss-Jordan in rationals); None when singular"""
    n = len(A)
    M = [list(A[i]) + [Fraction(int(i == j)) for j in range(n)] for i in range(n)]
    for k in range(n):
        p = next((r for r in range(k, n) if M[r][k] != 0), None)
        if p is None:
            return None
        M[k], M[p] = M[p], M[k]
        pk = M[k][k]
        M[k] = [v / pk for v in M[k]]
        for r in range(n):
            if r != k and M[r][k] != 0:
                f = M[r][k]
                Mk = M[k]
                M[r] = [a - f * c for a, c in zip(M[r], Mk)]
    return max(sum(abs(v) for v in row[n:]) for row in M)


KAPPA_MAX = 1000


def certified_well_conditioned(A):
    """a certificate, checked here in exact arithmetic, that every scaled pivot of *any* row-pivoted
    elimination of A is far above 1e-6 (see the module docstring)"""
    n = len(A)
    # (b) rows strictly diagonally dominant by a factor 2
    if all(A[i][i] != 0 and abs(A[i][i]) >= 2 * sum(abs(A[i][j]) for j in range(n) if j != i) for i in range(n)):
        return "diagonally dominant"
    # (a) power-of-two row scalings of a small-integer matrix, n <= 3, invertible
    if n <= 3:
        small = True
        for row in A:
            nz = [x for x in row if x != 0]
            if not nz:
                return None
            v = min(_v2(x) for x in nz)
            s = Fraction(2) ** v
            if any((x / s).denominator != 1 or abs(x / s) > 2 for x in row):
                small = False
                break
        if small:
            return None if singular(A) else "small-integer invertible"
    # (c) the row-equilibrated matrix has an inverse of infinity norm <= 1000
    scale = [max(abs(x) for x in row) for row in A]
    if any(sc == 0 for sc in scale):
        return None
    if n > 6 and probably_singular(A):
        return None                       # no certificate (and no exact inversion of a large singular matrix)
    nrm = inv_norm_inf([[x / sc for x in row] for row, sc in zip(A, scale)])
    if nrm is not None and nrm <= KAPPA_MAX:
        return "row-equilibrated inverse norm %.3g" % float(nrm)
    return None


def residual_ratio(rows, cols_of, x, b, n):
    """max over rows i of |row_i . x - b_i| / (n u (|row_i|_1 |x|_inf + |b_i|)); None when a row has a non-zero
    residual against a zero denominator"""
    worst = Fraction(0)
    for i in range(len(rows)):
        cols = cols_of(i)
        r = -b[i]; s = Fraction(0)
        xmax = Fraction(0)
        for j in cols:
            a = rows[i][j]
            if a != 0:
                r += a * x[j]; s += abs(a)
        if r != 0:
            xmax = max(abs(x[j]) for j in cols_of(i))
            den = s * xmax + abs(b[i])
            if den == 0:
                return None
            q = abs(r) / (n * U * den)
            if q > worst:
                worst = q
    return worst


# ------------------------------------------------------------------ componentwise clause (1b)

C_COMP = 2 ** 6                           # theory: 3 (gamma_3n / (n u)); observed on the unmodified code: see the notes
TIE_REL = Fraction(1, 2 ** 20)            # candidates this close (relative) are both admissible
CU_FACTOR = 2 ** 10                       # rounding uncertainty of a computed entry: CU_FACTOR n u (|L||U|)_ik
PIVOT_SIGNIF = 2 ** 10                    # a pivot below PIVOT_SIGNIF * its uncertainty: the branch is not judged
LU_NODES = 300                            # search budget (elimination steps over all branches)
LU_NMAX = 24                              # exact elimination only up to this order (cost); larger: clause 1 only
INF_RATIO = Fraction(10 ** 40)
QUANTUM = Fraction(1, 2 ** 1074)          # the smallest positive binary64 number
TINY_HI = Fraction(2 ** 900)
OVERFLOW = Fraction(2 ** 1024)            # a bound that reaches this has left the number range
SUBNORMAL_X = Fraction(1, 2 ** 1021)      # a computed component below this may have lost bits to gradual underflow
BIG_OK = Fraction(2 ** 1000)              # "far from overflow"


def residuals(A, b, x, n):
    """exact r_i = a_i.x - b_i and d_i = (|A||x|)_i + |b_i|"""
    r = []; d = []
    ax = [abs(v) for v in x]
    for i in range(n):
        ri = -b[i]; di = abs(b[i])
        row = A[i]
        for j in range(n):
            a = row[j]
            if a != 0:
                t = a * x[j]
                ri += t; di += abs(t)
        r.append(ri); d.append(di)
    return r, d, ax


def _ratio(r, den, n):
    if r == 0:
        return Fraction(0)
    if den == 0:
        return INF_RATIO
    return abs(r) / (n * U * den)


def lu_componentwise(A, b, x, n, r=None, ax=None, quantum=None, info=None):
    """clause 1b with the exact |L||U| of scaled partial pivoting.  -> (verdict, ratio, orders)
    verdict True: the bound holds for an admissible pivot order; False: violated for every admissible order;
    None: not judged.  ratio = smallest over the orders evaluated of max_i |r_i| / (n u ((|L||U||x|)_i + |b_i|)).
    `quantum` (systems with entries outside 2^-340 .. 2^340 only, see `tiny_regime`): gradual underflow - a multiplier, a
    product or a quotient below 2^-1022 is rounded to a multiple of Q = 2^-1074, an ABSOLUTE error - is allowed for.  With the
    exact multipliers l_ik of the order under test, for the equation that ends up in position i the amount
        2^6 Q ( (i + 1)  +  sum_{k<=i} |l_ik| ((n - k) + |u_kk| [|x_k| < 2^-1021])
                         +  sum_j (min(i,j) + 1) |x_j|  +  sum_{j<i} |u_jj| |x_j| [|l_ij| < 2^-1021] )
    is taken off |r_i| first: the products factor * b_k; the products and the quotient of back-substitution row k, which
    reach equation i through l_ik; the products l_ik u_kj, and l_ij u_jj missing the entry it was computed from by Q |u_jj| / 2
    when the multiplier itself underflowed - each times the unknown it multiplies.  (`quantum`, the caller's coarser amount
    2^6 n^2 Q (1 + |x|_inf), stays allowed on top for systems whose rows are all of one magnitude, as before.)  Every
    computed entry of a row is uncertain by E_i more, E_i' = E_i + |l_ik| E_k + Q (1 + max_j |u_kj| [|l_ik| < 2^-1021]) per
    elimination step, and an equation whose bound (|L||U||x|)_i + |b_i| reaches 2^1024 is not judged (the formula of the
    statement leaves the number range).  `info` (a dict): receives the data of the leaves visited (orders, |L||U|, ...)."""
    if r is None:
        r, _, ax = residuals(A, b, x, n)
    if n > LU_NMAX:
        return None, None, 0
    scale0 = [max(abs(v) for v in row) for row in A]
    if any(sc == 0 for sc in scale0):
        return None, None, 0
    cu = CU_FACTOR * n * U
    zero = Fraction(0)
    # state: step k, rows M (current entries), W (accumulated |l||u| per row and column), scales, original indices
    # eta: accumulated relative uncertainty of the pivots met so far (a pivot known to 1e-4 only makes every later
    # multiplier and entry uncertain by as much); diag: |pivots| so far; EL (quantum mode): per row position the absolute
    # underflow uncertainty E_i of its current entries and the tuple of its multipliers |l_i0|, |l_i1|, ..
    uniform = quantum is not None and max(scale0) <= min(scale0) * 2 ** 340
    stack = [(0, [row[:] for row in A], [[zero] * n for _ in range(n)], scale0[:], list(range(n)), zero, zero, (),
              [(zero, ()) for _ in range(n)])]
    best = None
    unknown = False
    nodes = 0
    leaves = 0
    while stack:
        k, M, W, sc, orig, maxl, eta, diag, EL = stack.pop()
        if k == n - 1:
            # leaf: the last row is its own pivot row
            last = n - 1
            W[last] = W[last][:]
            W[last][last] += abs(M[last][last])
            worst = Fraction(0)
            extras = None
            if quantum is not None and any(w >= OVERFLOW / 2 for row in W for w in row):
                # an entry of |L||U| at 2^1023 or beyond: a multiplier or a partial sum may have overflowed under this order
                # (an infinite pivot then gives the finite but meaningless component c / inf = 0): not judged
                unknown = True
                continue
            if quantum is not None:
                dg = list(diag) + [abs(M[last][last])]
                extras = []
                for i in range(n):
                    li = list(EL[i][1]) + [Fraction(1)]          # |l_i0| .. |l_i,i-1|, l_ii = 1  (position i has i multipliers)
                    li = li[:i] + [Fraction(1)]
                    t = Fraction(i + 1)
                    for kk in range(i + 1):
                        t += li[kk] * ((n - kk) + (dg[kk] if ax[kk] < SUBNORMAL_X else 0))
                    for j in range(n):
                        if ax[j] != 0:
                            t += (min(i, j) + 1) * ax[j]
                            if j < i and li[j] < SUBNORMAL_X:
                                t += dg[j] * ax[j]
                    extras.append(C_COMP * QUANTUM * t + (quantum * (1 + maxl) if uniform else 0))
            if info is not None:
                info.setdefault("leaves", []).append({"W": [row[:] for row in W], "orig": orig[:], "maxl": maxl,
                                                       "diag": list(diag) + [abs(M[last][last])]})
            for i in range(n):
                o = orig[i]
                extra = extras[i] if extras is not None else None
                if r[o] == 0 or (extra is not None and abs(r[o]) <= extra):
                    continue
                Wi = W[i]
                den = abs(b[o])
                for j in range(n):
                    if Wi[j] != 0 and ax[j] != 0:
                        den += Wi[j] * ax[j]
                if quantum is not None and den >= OVERFLOW:
                    continue
                q = _ratio(r[o] if extra is None else abs(r[o]) - extra, den, n)
                if q > worst:
                    worst = q
            leaves += 1
            if best is None or worst < best:
                best = worst
            if best <= C_COMP:
                return True, best, leaves
            continue
        nodes += 1
        if nodes > LU_NODES:
            unknown = True
            break
        # candidates of column k
        rho = []; lo = []; hi = []
        for i in range(k, n):
            m = abs(M[i][k])
            rr = m / sc[i]
            dl = (cu + eta) * (W[i][k] + m) / sc[i]
            if quantum is not None:
                dl += (EL[i][0] + ((k + 1) * QUANTUM * (1 + maxl) if uniform else 0)) / sc[i]
            rho.append(rr)
            lo.append(rr * (1 - TIE_REL) - dl)
            hi.append(rr * (1 + TIE_REL) + dl)
        best_lo = max(lo)
        adm = [i for i in range(k, n) if hi[i - k] >= best_lo and (hi[i - k] > 0)]
        if not adm:
            unknown = True                # the column vanishes exactly: singular, nothing to judge
            continue
        if info is not None and len(adm) > 1:
            info["branched"] = True
        # most plausible candidate last (popped first): largest exact ratio, first index on ties
        adm.sort(key=lambda i: (rho[i - k], -i))
        for p in adm:
            m = abs(M[p][k])
            dp = (cu + eta) * (W[p][k] + m)
            if quantum is not None:
                dp += EL[p][0] + ((k + 1) * QUANTUM * (1 + maxl) if uniform else 0)
            if m == 0 or m < PIVOT_SIGNIF * dp:
                unknown = True            # not significantly non-zero: exact and computed factors may differ wildly
                if info is not None:
                    info["insignificant"] = True
                continue
            M2 = [row for row in M]; W2 = [row for row in W]; sc2 = sc[:]; or2 = orig[:]; EL2 = EL[:]
            if p != k:
                M2[k], M2[p] = M2[p], M2[k]
                W2[k], W2[p] = W2[p], W2[k]
                sc2[k], sc2[p] = sc2[p], sc2[k]
                or2[k], or2[p] = or2[p], or2[k]
                EL2[k], EL2[p] = EL2[p], EL2[k]
            Mk = M2[k]
            piv = Mk[k]
            absk = [abs(v) for v in Mk]
            Wk = W2[k][:]
            for j in range(k, n):
                Wk[j] += absk[j]          # l_kk = 1 times row k of U
            W2[k] = Wk
            ml = maxl
            if quantum is not None:
                Ek = EL2[k][0]
                umax = max(absk[k + 1:], default=zero)
            for i in range(k + 1, n):
                a = M2[i][k]
                if a == 0:
                    if quantum is not None:
                        EL2[i] = (EL2[i][0], EL2[i][1] + (zero,))
                    continue              # rows are shared between branches until modified
                l = a / piv
                al = abs(l)
                if quantum is not None:
                    EL2[i] = (EL2[i][0] + al * Ek + QUANTUM * (1 + (umax if al < SUBNORMAL_X else 0)), EL2[i][1] + (al,))
                if al > ml:
                    ml = al
                Mi = M2[i][:]; Wi = W2[i][:]
                Wi[k] += abs(a)           # |l_ik| |u_kk|
                Mi[k] = zero
                for j in range(k + 1, n):
                    u = Mk[j]
                    if u != 0:
                        Mi[j] -= l * u
                        Wi[j] += al * absk[j]
                M2[i] = Mi; W2[i] = Wi
            stack.append((k + 1, M2, W2, sc2, or2, ml, eta + dp / m, diag + (abs(piv),), EL2))
    if best is not None and best <= C_COMP:
        return True, best, leaves
    if unknown or best is None:
        return None, best, leaves
    return False, best, leaves


def componentwise(A, b, x, n, want_lu=False):
    """clause 1b.  -> (verdict, ratio, how): first with |A| in place of |L||U| (sufficient), then with the exact factors"""
    r, d, ax = residuals(A, b, x, n)
    qop = Fraction(0)
    for i in range(n):
        q = _ratio(r[i], d[i], n)
        if q > qop:
            qop = q
    if qop <= C_COMP and not want_lu:
        return True, qop, "|A||x|"
    v, q, orders = lu_componentwise(A, b, x, n, r, ax)
    if qop <= C_COMP:
        return True, (q if q is not None else qop), "|L||U||x|"
    return v, q, "|L||U||x| (%d pivot order%s)" % (orders, "" if orders == 1 else "s")


# ------------------------------------------------------------------ oracle

def gauss_oracle(h, w, A, b, tol, ans, want_ratio=False):
    kind, payload = parse_answer(ans)
    if kind == "panic":
        return "gaussian_elimination panicked"
    if kind == "?":
        return "unreadable answer: " + ans[:60]
    # (the statement asks for "errors rather than panics" and for a refusal "with an error": it names no error kind, so
    #  a change of kind alone is neither a violation of the property nor a disagreement with the model - see `compare`)
    if h != w:
        return None if kind == "err" else "non-square matrix (%dx%d) was not refused" % (h, w)
    if len(b) != h:
        return None if kind == "err" else "right-hand side of length %d for %d rows was not refused" % (len(b), h)
    n = h
    if n == 0:
        return None if kind == "err" else "the empty system was not refused"
    if any(x is None for row in A for x in row) or any(x is None for x in b) or tol is None:
        return None                       # NaN / inf inputs are outside the property
    if not in_safe_range([x for row in A for x in row] + list(b)):
        if want_ratio:
            return None
        return tiny_regime(A, b, tol, kind, payload, n)
    if kind == "ok":
        x = payload
        if len(x) != n:
            return "solution has %d components for %d unknowns" % (len(x), n)
        above = tol >= TOL_ROUNDING
        if above and singular(A):
            return "exactly singular matrix answered with a vector (tolerance %s)" % float(tol)
        if any(v is None for v in x):
            return "solution contains NaN/inf (tolerance %s)" % float(tol) if above else None
        q = residual_ratio(A, lambda i: range(n), x, b, n)
        if want_ratio == "comp":
            v, qc, how = componentwise(A, b, x, n, want_lu=True)
            return qc if v is not None else None
        if want_ratio:
            return q
        if q is None or q > C_BOUND:
            if not above and singular(A):
                return None               # tolerance below rounding level on a singular matrix: not constrained
            return "backward error: an equation has |a_i.x - b_i| > 2^10 n u (|a_i|_1 |x|_inf + |b_i|) (ratio to n u (..): %s)" % (
                "inf" if q is None else "%.3g" % float(q))
        v, qc, how = componentwise(A, b, x, n)
        if v is False:
            if not above and singular(A):
                return None
            return ("componentwise backward error: an equation has |a_i.x - b_i| > 2^6 n u ((|L||U||x|)_i + |b_i|), L U the exact "
                    "factors of scaled partial pivoting, for every admissible pivot order (ratio to n u (..): %s; %s)" % (
                        "inf" if qc is None or qc >= INF_RATIO else "%.3g" % float(qc), how))
        return None
    # refused
    if want_ratio:
        return None
    if tol <= TOL_ACCEPT:
        c = certified_well_conditioned(A)
        if c:
            return "well-conditioned system (%s) refused with `%s` at tolerance %s" % (c, payload, float(tol))
    return None


def solve_exact(A, b):
    """the exact rational solution of A x = b; None when singular"""
    n = len(A)
    M = [list(A[i]) + [b[i]] for i in range(n)]
    for k in range(n):
        p = next((r for r in range(k, n) if M[r][k] != 0), None)
        if p is None:
            return None
        M[k], M[p] = M[p], M[k]
        pk = M[k][k]
        for r in range(k + 1, n):
            if M[r][k] != 0:
                f = M[r][k] / pk
                Mr, Mk = M[r], M[k]
                for c in range(k, n + 1):
                    Mr[c] -= f * Mk[c]
    x = [Fraction(0)] * n
    for i in range(n - 1, -1, -1):
        x[i] = (M[i][n] - sum(M[i][j] * x[j] for j in range(i + 1, n))) / M[i][i]
    return x


def tiny_regime(A, b, tol, kind, x, n, strict=False):
    """THE EDGE OF THE NUMBER RANGE, downwards: systems with entries below 2^-340, down to subnormal entries (far below
    the statement's row scalings; generated since the third seeded round).  Products of a multiplier and a tiny entry are
    rounded to multiples of 2^-1074 there, so the relative rounding model of clauses 1 / 1b gets an ABSOLUTE allowance:
        |a_i.x - b_i| <= 2^6 n u ((|L||U||x|)_i + |b_i|) + 2^6 n^2 2^-1074 (1 + max|l|)(1 + |x|_inf)
    (each of the <= n updates of an entry, each product of a substitution sum is off by <= 2^-1075; an error in row k
    reaches equation i through the multiplier l_ik; the constant 2^6 is slack: the largest share observed on the
    unmodified code is 0.12 of one unit).  Only returned vectors at tolerances
    >= 1e-12 on non-singular matrices are judged; refusals and the singular-matrix clause are left to the comparison with
    the model (few significant bits: a well-conditioned subnormal matrix may legitimately look singular).  With `strict`
    the answer "passed" is returned when the vector was judged and satisfies the bound (None then means "not judged").  A vector with
    NaN / inf components is a failure when the oracle's own certificate says that nothing can go wrong: entries >= 2^-1050,
    certified well conditioned, exact solution below 2^900.  Entries above 2^340 (overflow side): not judged."""
    vals = [v for row in A for v in row] + list(b)
    huge = any(abs(v) > SAFE_HI for v in vals)
    if kind != "ok":
        # MIXED EXTREMES (fourth seeded round): a refusal of a system the oracle certifies itself as well conditioned (clause
        # 3) is a failure at every magnitude at which neither a multiplier nor a pivot can be touched by under- or
        # overflow: non-zero entries of A within 2^-990 .. 2^1000 and within 2^1010 of each other
        if kind == "err" and tol <= TOL_ACCEPT and n <= 12:
            nz = [abs(v) for row in A for v in row if v != 0]
            if nz and min(nz) >= Fraction(1, 2 ** 990) and max(nz) <= BIG_OK and max(nz) <= min(nz) * 2 ** 1010:
                c = certified_well_conditioned(A)
                if c:
                    return "well-conditioned system (%s; entries within 2^-990 .. 2^1000) refused with `%s` at tolerance %s" % (
                        c, x, float(tol))
        return None
    if tol < TOL_ROUNDING or n > 12:
        return None
    if len(x) != n:
        return "solution has %d components for %d unknowns" % (len(x), n)
    if singular(A):
        return None
    if any(v is None for v in x):
        if huge:
            why = _finite_owed(A, b, n)
            if why:
                return "solution contains NaN/inf although %s (tolerance %s)" % (why, float(tol))
            return None
        if all(v == 0 or abs(v) >= Fraction(1, 2 ** 1050) for row in A for v in row) and not _multiplier_overflow(A) \
                and certified_well_conditioned(A):
            xe = solve_exact(A, b)
            if xe is not None and all(abs(v) <= TINY_HI for v in xe):
                return ("solution contains NaN/inf on a tiny but well-conditioned system (entries >= 2^-1050, exact solution "
                        "below 2^900, tolerance %s)" % float(tol))
        return None
    if any(abs(v) > TINY_HI for v in x):
        return None
    r, d, ax = residuals(A, b, x, n)
    quantum = 2 ** 6 * n * n * QUANTUM * (1 + max(ax))
    if all(abs(r[i]) <= C_COMP * n * U * d[i] + quantum for i in range(n)):
        return "passed" if strict else None
    v, qc, orders = lu_componentwise(A, b, x, n, r, ax, quantum=quantum)
    if v is True and strict:
        return "passed"
    if v is False:
        return ("system with entries outside 2^-340 .. 2^340: an equation has |a_i.x - b_i| > 2^6 n u ((|L||U||x|)_i + |b_i|) + "
                "the underflow allowance 2^6 2^-1074 (n^2 (1 + max|l|)(1 + |x|_inf) + sum_j |u_jj||x_j| + ..) for every admissible "
                "pivot order (ratio of the excess to n u (..): %s)" % (
                    "inf" if qc is None or qc >= INF_RATIO else "%.3g" % float(qc)))
    return None


def _multiplier_overflow(A):
    """two rows of A differ in magnitude by 2^1000 or more: a multiplier "entry of the larger row over pivot of the smaller
    row" can leave the number range (2^1024), and then no floating-point elimination in this order has a finite answer.
    Scaled partial pivoting chooses pivot rows by RELATIVE size, so a row 2^1030 times smaller than another is as likely to
    become the pivot row as any; the unmodified code then returns NaN / inf components (an observation recorded in the notes
    of every run, see `finish`; the statement's row scalings are 2^-30 .. 2^30, and no clause of the oracle is asserted
    there)."""
    rm = [max(abs(v) for v in row) for row in A]
    rm = [v for v in rm if v != 0]
    return bool(rm) and max(rm) >= min(rm) * 2 ** 1000


def _finite_owed(A, b, n):
    """certificate (exact arithmetic) that nothing in the elimination and the back substitution of A x = b can overflow, so
    that a NaN / infinite component is a failure even with entries above 2^340: the pivot order of scaled partial pivoting
    is determined beyond doubt and every pivot is significant (`lu_componentwise` on the exact solution, no branching),
    |L||U|, the exact solution x and (1 + n max|l|) ((|L||U||x|)_i + |b_i|) stay below 2^1000, and
    || |A^-1| |L||U| ||_inf 2^6 n u <= 2^-10 (every perturbed system the computed solution can be the exact solution of then
    has a solution within a factor 2 of x).  Returns the reason or None."""
    if n > 8:
        return None
    xe = solve_exact(A, b)
    if xe is None or any(abs(v) > TINY_HI for v in xe):
        return None
    info = {}
    ax = [abs(v) for v in xe]
    v, q, orders = lu_componentwise(A, b, xe, n, [Fraction(0)] * n, ax, quantum=Fraction(0), info=info)
    if v is not True or info.get("branched") or info.get("insignificant") or len(info.get("leaves", [])) != 1:
        return None
    leaf = info["leaves"][0]
    W, orig, maxl = leaf["W"], leaf["orig"], leaf["maxl"]
    if any(w >= BIG_OK for row in W for w in row):
        return None
    top = max(sum(W[i][j] * ax[j] for j in range(n)) + abs(b[orig[i]]) for i in range(n))
    if (1 + n * maxl) * top >= BIG_OK:
        return None
    # |A^-1| |L||U| (rows of W are in elimination order: row i of W belongs to row orig[i] of A)
    cols = []
    for c in range(n):
        cols.append(solve_exact(A, [Fraction(int(k == c)) for k in range(n)]))    # column c of A^-1
    if any(col is None for col in cols):
        return None
    Wo = [None] * n
    for i in range(n):
        Wo[orig[i]] = W[i]
    norm = max(sum(sum(abs(cols[t][i]) * Wo[t][j] for t in range(n)) for j in range(n)) for i in range(n))
    if norm * C_COMP * n * U > Fraction(1, 2 ** 10):
        return None
    return ("nothing in the exact elimination comes near the overflow threshold (pivot order certain, |L||U| and |L||U||x| + |b| "
            "below 2^1000, exact solution below 2^900)")


def subst_oracle(back, h, w, A, size, b, ns, ans, want_ratio=False):
    kind, payload = parse_answer(ans)
    inside = size <= h and size <= w and size <= len(b) and size <= ns and (size >= 1 or not back)
    if kind == "panic":
        return "substitution panicked inside its precondition" if inside else None
    if kind != "ok":
        return "unreadable answer: " + ans[:60]
    if not inside:
        return None
    x = payload
    if len(x) != ns:
        return "solution slice changed length"
    # the harness hands over a slice pre-filled with NaN (a routine that leaves an entry unwritten, relying on
    # a zeroed buffer, then shows).  What happens to entries beyond `size` is not part of the statement (compared
    # with the model only).
    cols = (lambda i: range(i, size)) if back else (lambda i: range(0, i + 1))
    # only the triangle the routine is specified to read counts (the other one may hold NaN or infinities)
    tri = [A[i][j] for i in range(size) for j in cols(i)]
    if any(v is None for v in tri) or any(v is None for v in b[:size]):
        return None
    if any(A[i][i] == 0 for i in range(size)):
        return None                       # zero diagonal: division by zero, outside the clause
    if not in_safe_range(tri + list(b[:size])):
        return None                       # under-/overflow possible: the rounding model does not apply
    if any(v is None for v in x[:size]):
        return "solution contains NaN/inf on a triangular system with non-zero diagonal"
    q = residual_ratio([A[i] for i in range(size)], cols, x, b, max(size, 1))
    if want_ratio == "comp":
        return subst_componentwise(A, cols, x, b, size)
    if want_ratio:
        return q
    if q is None or q > C_BOUND:
        return "triangular solve: an equation has |t_i.x - b_i| > 2^10 n u (|t_i|_1 |x|_inf + |b_i|)"
    qc = subst_componentwise(A, cols, x, b, size)
    if qc > C_COMP:
        return ("triangular solve: an equation has |t_i.x - b_i| > 2^6 n u ((|T||x|)_i + |b_i|) (ratio to n u (..): %s)" % (
            "inf" if qc >= INF_RATIO else "%.3g" % float(qc)))
    return None


def subst_componentwise(A, cols, x, b, size):
    """max_i |t_i.x - b_i| / (n u ((|T||x|)_i + |b_i|)) over the triangle that is read"""
    worst = Fraction(0)
    n = max(size, 1)
    for i in range(size):
        r = -b[i]; d = abs(b[i])
        for j in cols(i):
            a = A[i][j]
            if a != 0:
                t = a * x[j]
                r += t; d += abs(t)
        q = _ratio(r, d, n)
        if q > worst:
            worst = q
    return worst


def _parse_gauss(req):
    t = req.split()
    cmd = t[0]
    rd = Rd(t, 2)
    if cmd == "gauss":
        h, w, A = rd.mat()
        jag = False
    else:
        nrows = rd.nat()
        rows = [rd.vec() for _ in range(nrows)]
        jag = any(len(r) != len(rows[0]) for r in rows)
        h, w, A = nrows, (len(rows[0]) if rows else 0), rows
    b = rd.vec()
    tol = val(rd.tok())
    return h, w, A, b, tol, jag


def oracle(req, impl):
    cmd = req[:req.index(" ")]
    if cmd == "gauss" or cmd == "gaussjag":
        h, w, A, b, tol, jag = _parse_gauss(req)
        if jag:
            k, _ = parse_answer(impl)
            return None if k == "err" else "nested Vec with rows of different lengths was not refused with an error"
        return gauss_oracle(h, w, A, b, tol, impl)
    if cmd == "back" or cmd == "forward":
        rd = Rd(req.split(), 1)
        h, w, A = rd.mat()
        size = rd.nat()
        b = rd.vec()
        ns = rd.nat()
        return subst_oracle(cmd == "back", h, w, A, size, b, ns, impl)
    return "unknown request"


# ------------------------------------------------------------------ correspondence

def _both_backward_stable(req, impl, model):
    """both answers are solutions in the sense of the property (exact backward-error test of clause 1 / 5): what
    separates them is the conditioning of the system, not the algorithm"""
    try:
        cmd = req[:req.index(" ")]
        qs = []
        for ans in (impl, model):
            if cmd in ("gauss", "gaussjag"):
                h, w, A, b, tol, jag = _parse_gauss(req)
                if jag or h != w or len(b) != h or h == 0:
                    return False
                if any(x is None for row in A for x in row) or any(x is None for x in b):
                    return False
                kind, x = parse_answer(ans)
                if kind != "ok" or len(x) != h or any(v is None for v in x):
                    return False
                if not in_safe_range([x for row in A for x in row] + list(b)):
                    # tiny regime: both vectors must have been judged by the absolute-allowance clause and satisfy it
                    if tiny_regime(A, b, tol, kind, x, h, strict=True) != "passed":
                        return False
                    qs.append(Fraction(0))
                    continue
                q = residual_ratio(A, lambda i: range(h), x, b, h)
                if q is not None and q <= C_BOUND and componentwise(A, b, x, h)[0] is False:
                    return False          # clause 1b violated: not a solution in the sense of the property
                qs.append(q)
            else:
                rd = Rd(req.split(), 1)
                h, w, A = rd.mat(); size = rd.nat(); b = rd.vec(); ns = rd.nat()
                if subst_oracle(cmd == "back", h, w, A, size, b, ns, ans) is not None:
                    return False
                q = subst_oracle(cmd == "back", h, w, A, size, b, ns, ans, want_ratio=True)
                if not isinstance(q, Fraction):
                    return False
                qs.append(q)
        return all(q is not None and q <= C_BOUND for q in qs)
    except Exception:
        return False


def compare(req, impl, model):
    """outcome (a vector / an error / a panic) exactly; WHICH error is not compared: the statement only says "refused
    with an error" and "get errors rather than panics" and names no kind (on the unmodified tree the kinds are
    identical; reporting the empty system through another variant is not a deviation the property can see).
    Solution vectors numerically: bit-equal / both NaN / equal infinities, or
    |a-b| <= 1e-9 * max(|impl|_inf, |model|_inf) (on the unmodified tree they are bit-identical); a larger difference
    is accepted when BOTH vectors pass the property's exact backward-error tests, clauses 1 and 1b (an ill-conditioned
    system amplifies a harmless re-association of the floating-point sums beyond any fixed envelope; for a tiny /
    subnormal system, where a fused multiply-add moves results by 1e-8, both must have been judged by `tiny_regime` and
    pass it), or when the system lies in the
    overflow regime (`_overflow_regime`)"""
    if impl == model:
        return None
    r = _compare_strict(req, impl, model)
    if r is not None and r.startswith("component") and _both_backward_stable(req, impl, model):
        return None
    if r is not None and (r.startswith("component") or r.startswith("model has non-finite")) \
            and _overflow_regime(req, impl, model):
        return None
    return r


def _overflow_regime(req, impl, model):
    """A `gauss` system with an entry outside 2^-340 .. 2^340 (the subnormal / near-overflow families: far outside the
    statement's "row scalings 2^-30..2^30", generated for panics and for the model only) on which at least one of the
    two solution vectors has a non-finite component: an intermediate product overflowed on one side.  Whether
    a_ij * x_j + s overflows depends on whether the product is rounded before the addition (a fused multiply-add or a
    re-associated sum moves that boundary); the property says nothing there and its oracle abstains.  Both sides must
    have returned a vector of the same length (outcome and length stay compared)."""
    try:
        cmd = req[:req.index(" ")]
        if cmd not in ("gauss", "gaussjag"):
            return False
        h, w, A, b, tol, jag = _parse_gauss(req)
        if jag or h != w or len(b) != h or h == 0:
            return False
        vals = [x for row in A for x in row] + list(b)
        if any(v is None for v in vals) or in_safe_range(vals):
            return False
        ki, xi = parse_answer(impl)
        km, xm = parse_answer(model)
        if ki != "ok" or km != "ok" or len(xi) != len(xm):
            return False
        return any(v is None for v in xi) or any(v is None for v in xm)
    except Exception:
        return False


def _compare_strict(req, impl, model):
    if impl == model:
        return None
    ti, tm = impl.split(), model.split()
    if not ti or not tm or ti[0] != tm[0]:
        return f"outcome: impl `{' '.join(ti[:2])}` model `{' '.join(tm[:2])}`"
    if ti[0] == "err":
        return None                       # two refusals: the statement does not name the error kind
    if ti[0] != "ok":
        return None if ti[:2] == tm[:2] else f"outcome: impl `{' '.join(ti[:2])}` model `{' '.join(tm[:2])}`"
    if len(ti) != len(tm) or ti[1] != tm[1]:
        return "solution lengths differ"
    a = [fval(x) for x in ti[2:]]
    b = [fval(x) for x in tm[2:]]
    if not all(math.isfinite(v) for v in b):
        # the model divided by an exactly zero pivot (tolerance <= 0 on a singular matrix) or overflowed: the
        # vector is garbage whose inf/NaN pattern depends on which of two tied rows was taken as pivot; the
        # observation compared is "a vector with a non-finite component"
        return None if not all(math.isfinite(v) for v in a) else "model has non-finite components, impl is finite"
    fin = [abs(v) for v in a + b if math.isfinite(v)]
    scale = max(fin + [1e-300])
    for k, (x, y) in enumerate(zip(a, b)):
        if math.isnan(x) or math.isnan(y):
            if math.isnan(x) and math.isnan(y):
                continue
            return f"component {k}: impl {x} model {y}"
        if x == y:
            continue
        if math.isinf(x) or math.isinf(y) or abs(x - y) > 1e-9 * scale:
            return f"component {k}: impl {x!r} model {y!r}"
    return None


def nontrivial(req, model):
    t = model.split()
    if not t:
        return False
    if t[0] == "ok":
        return len(t) > 2
    return t[:2] == ["err", "singular"]


def tag(req, model):
    r = req.split(); m = model.split()
    cmd = r[0]
    out = " ".join(m[:2]) if m and m[0] == "err" else (m[0] if m else "empty")
    if cmd in ("gauss",):
        return f"{cmd}:{r[1]}:n={r[2]}x{r[3]}:{out}" if r[2] != r[3] or int(r[2]) <= 3 else f"{cmd}:{r[1]}:n>3:{out}"
    return f"{cmd}:{out}"


def _has_nonfinite(ans):
    k, x = parse_answer(ans)
    return k == "ok" and any(v is None for v in x)


def finish(rows, tier):
    """whole-run obligations: completeness of the exhaustive spaces, and the observed rounding margin"""
    notes = []
    if len(rows) < 1000:
        return notes                      # a replay, not a generated run
    seen2, seen3 = set(), set()
    worst = Fraction(0); nworst = 0
    eligible = []
    for (req, impl, horc, model) in rows:
        if not req.startswith("gauss "):
            continue
        t = req.split()
        if t[2] == "2" and t[3] == "2" and all(x[0] == "i" and -2 <= int(x[1:]) <= 2 for x in t[4:8]):
            seen2.add(tuple(t[4:8]))
        elif t[2] == "3" and t[3] == "3" and all(x[0] == "i" and -2 <= int(x[1:]) <= 2 for x in t[4:13]):
            seen3.add(tuple(t[4:13]))
        elif t[2] == t[3] and impl.startswith("ok"):
            eligible.append((req, impl))
    # observed rounding margins on a sample spread over all families (every step-th solved system)
    step = max(1, len(eligible) // 1500)
    worstc = Fraction(0); nc = 0; nabst = 0; nop = 0
    for (req, impl) in eligible[::step]:
        h, w, A, b, tol, _ = _parse_gauss(req)
        if len(b) == h and h > 0 and tol is not None and tol >= TOL_ROUNDING:
            try:
                q = gauss_oracle(h, w, A, b, tol, impl, want_ratio=True)
            except Exception:
                q = None
            if isinstance(q, Fraction):
                nworst += 1
                if q > worst:
                    worst = q
                try:
                    kind, x = parse_answer(impl)
                    r, d, ax = residuals(A, b, x, h)
                    if any(_ratio(r[i], d[i], h) > C_COMP for i in range(h)):
                        nop += 1
                    v, qc, orders = lu_componentwise(A, b, x, h, r, ax)
                except Exception:
                    v, qc = None, None
                if v is None:
                    nabst += 1
                else:
                    nc += 1
                    if qc > worstc:
                        worstc = qc
    # systems whose rows differ by 2^1000 or more and that were answered with a non-finite vector (see `_multiplier_overflow`)
    nover = 0; exover = None
    for (req, impl) in eligible:
        if _has_nonfinite(impl):
            try:
                h, w, A, b, tol, _ = _parse_gauss(req)
                if all(v is not None for row in A for v in row) and _multiplier_overflow(A) and not singular(A):
                    nover += 1
                    if exover is None or len(req) < len(exover):
                        exover = req
            except Exception:
                pass
    if nover:
        notes.append(f"{nover} non-singular systems whose rows differ in magnitude by 2^1000 or more were answered with NaN / inf "
                     f"components (the multiplier `larger row / pivot of the smaller row` exceeds the number range; outside the "
                     f"statement's row scalings 2^-30..2^30, not asserted by any clause), e.g. `{exover[:300]}`")
    small2 = {m for m in seen2 if all(x[0] == "i" and -2 <= int(x[1:]) <= 2 for x in m)}
    notes.append(f"exhaustive 2x2 over -2..2: {len(small2)}/625 matrices")
    notes.append(f"3x3 over -2..2: {len(seen3)}/1953125 distinct matrices")
    notes.append(f"largest backward-error ratio |a_i.x-b_i|/(n u (|a_i|_1 |x|_inf+|b_i|)) over {nworst} non-exhaustive solved systems "
                 f"(every {step}-th of {len(eligible)}): {float(worst):.3g} (bound {C_BOUND})")
    notes.append(f"largest componentwise ratio |a_i.x-b_i|/(n u ((|L||U||x|)_i+|b_i|)), exact factors of scaled partial pivoting, over "
                 f"{nc} of them: {float(worstc):.3g} (bound {C_COMP}); not judged (pivot order undecidable / pivot at rounding level / "
                 f"order > {LU_NMAX}): {nabst}; the form with |A| in place of |L||U| (Oettli-Prager) fails on {nop}")
    if len(small2) != 625:
        notes.append("INCOMPLETE: the 2x2 space was not covered")
    if tier == "thorough" and len(seen3) != 1953125:
        notes.append("INCOMPLETE: the 3x3 space was not covered")
    return notes


def probe(req, impl):
    """measurement aid (not used by ./check): for a solved system with entries outside 2^-340 .. 2^340 the ratio of clause 1b
    (underflow allowance taken off) under the most plausible pivot order, and whether the oracle judged it"""
    if not req.startswith("gauss "):
        return {}
    h, w, A, b, tol, jag = _parse_gauss(req)
    kind, x = parse_answer(impl)
    if h != w or len(b) != h or h == 0 or h > 12 or any(v is None for row in A for v in row) or any(v is None for v in b) or tol is None:
        return {}
    vals = [v for row in A for v in row] + list(b)
    if in_safe_range(vals):
        return {}
    key = "huge" if any(abs(v) > SAFE_HI for v in vals) else "tiny"
    if kind != "ok":
        return {key + " refused": Fraction(1)}
    if any(v is None for v in x) or tol < TOL_ROUNDING or singular(A):
        return {key + " not judged": Fraction(1)}
    n = h
    r, d, ax = residuals(A, b, x, n)
    quantum = 2 ** 6 * n * n * QUANTUM * (1 + max(ax))
    v, qc, orders = lu_componentwise(A, b, x, n, r, ax, quantum=quantum)
    out = {key + " solved": Fraction(1)}
    if v is None:
        out[key + " abstained"] = Fraction(1)
    elif qc is not None:
        out[key + " ratio"] = qc
    return out
