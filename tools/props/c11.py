"""C11 plug-in: comparison ignores the payload of the shape error (the property says "a shape
error", not which numbers it carries)."""
import re
RULE = ("exhaustive: all shape pairs (h1,w1),(h2,w2) in 0..5 x 0..5 (1296) x 3 integer fillings for the checked "
        "product, one (quick) or four (thorough) operator forms per pair, dyadic float fillings, scalar forms on all "
        "shapes, random law triples; every shared and every outer dimension 6..40, 1x1 factors next to large matrices, "
        "large non-conforming pairs; element types i64, f64 and (values exact in the narrow type) i32, u8, f32; float scalar "
        "multiply/divide by +-0, +-inf, NaN, subnormal, huge, tiny and non-dyadic scalars on entries of every magnitude; "
        "float entries 2^-300..2^270 in products; laws also at f64/f32/i32 and for Arr2D::identity; "
        "hardening 4: OBJECT HISTORY - every dot / mul / smul / sdiv / transpose request is repeated (oracle only) on operands "
        "built through every constructor and conversion of the public API (full + writes, from_flat exact, from_flat padded "
        "with EVERY number of given items = spare capacity, padded + reshape / row swaps / rows_mut, nested vectors owned "
        "and borrowed, array literals incl. 0 x N, map, transposes incl. 0 x N from N empty rows, clone, clone_from into a "
        "larger (padded) array, TryFrom<&Arr2D>, results of a product / scalar product) and the ORIGINAL objects - never "
        "clones - are moved into / borrowed by the checked product and all four operator forms (both scalar ownership forms): "
        "every result must be the one of the plainly built operands (floats: inside the rounding bound), operands untouched, "
        "size() = h*w; extra shapes (k, n) in 2..8 x 1..10 (n > k, n = k, n < k) at all element types; DUPLICATES - equal "
        "operands (then also one object on both sides: a.dot(&a), &a * &a), a . a^T, constant matrices, repeated rows / "
        "columns, 1x1 operands equal to the entries; NEAR-STRUCTURE - identity / diagonal / permutation / symmetric / "
        "triangular / all-ones factors exact and with ONE entry moved by a relative 2^-20..2^-45, integer factors one unit off, "
        "scalars and 1x1 operands next to 1, -1, 1/2, 2 at every distance 2^-20..2^-52; non-trivial = the model's answer is a successful product with at least one "
        "entry (not an error, not an empty array); distinct = distinct request lines")

def _norm(s):
    return re.sub(r"err dotshape \d+ \d+", "err dotshape", s)


# --- the one facet the statement leaves open -------------------------------------------------------------
# "a non-conforming 1x1 left operand acts as a scalar (on the right it may act as a scalar OR BE REJECTED)".
# The model (= today's code) scales.  An implementation that rejects exactly those pairs is equally inside the
# statement, so the comparison accepts, for a product X . [[s]] with X not 1x1 and X.width != 1 (and only there),
# either the model's answer or the rejection (checked product: the shape error; operator: the empty matrix the
# operators substitute for every refused product; law requests: the side of the law that meets such a product
# first may be the shape error).  Everything else - conforming pairs incl. (m x 1).(1 x 1), the 1x1 LEFT operand,
# every other non-conforming pair, every value - is compared as before.

def _mats(req):
    """(cmd, [(h, w), ...]) - the shapes of the matrices of a product / law request"""
    t = req.split()
    cmd = t[0]
    k = 3 if cmd in ("mul", "smul", "sdiv") else 2
    shapes = []
    try:
        while k + 1 < len(t) and len(shapes) < 3:
            h, w = int(t[k]), int(t[k + 1])
            shapes.append((h, w))
            k += 2 + h * w
    except ValueError:
        pass
    return cmd, shapes


def _step(x, y):
    """shape of the model's checked product of shapes x . y -> (shape or None, optional?)"""
    if x == (1, 1):
        return y, False
    if y == (1, 1):
        return x, x[1] != 1           # non-conforming 1x1 right operand: scaling or rejection, both allowed
    if x[1] == y[0]:
        return (x[0], y[1]), False
    return None, False


def _chain_optional(steps):
    """steps: list of callables shape-so-far -> (x, y); True when the chain meets an optional product before any error"""
    cur = None
    for mk in steps:
        x, y = mk(cur)
        cur, opt = _step(x, y)
        if opt:
            return True
        if cur is None:
            return False
    return False


# --- float products: "float entries (rounding-bound oracle)" ----------------------------------------------
# Every entry of a conforming float product obeys, for ANY order of summation of the k rounded products,
#     |fl - sum_k a_ik b_kj|  <=  (k+1) * 2^-52 * sum_k |a_ik| |b_kj|          (f32: 2^-23)
# (SV.Props.C11Rounding.dot_entry_rounding_binary64).  S (harness/src/c11.rs `Grid::is_product`) judges the
# implementation's answer against this bound; K accepts two answers that differ by at most twice the bound (model
# and implementation each obey it; computed here in exact rational arithmetic from the request).  Integer products,
# shapes, errors, the operator-vs-checked-product agreement and the scalar forms stay exact.

def _fval(tok):
    import struct
    return struct.unpack("<d", struct.pack("<Q", int(tok)))[0]


def _float_product_request(req):
    """for `dot|mul f|g A B` with conforming shapes: (A, B) as lists of rows of floats, else None"""
    t = req.split()
    if len(t) < 2 or t[0] not in ("dot", "mul") or t[1] not in ("f", "g"):
        return None
    k = 3 if t[0] == "mul" else 2
    mats = []
    try:
        for _ in range(2):
            h, w = int(t[k]), int(t[k + 1])
            vals = [_fval(x) for x in t[k + 2:k + 2 + h * w]]
            if len(vals) != h * w:
                return None
            mats.append((h, w, vals))
            k += 2 + h * w
    except (ValueError, IndexError):
        return None
    (h1, w1, _), (h2, w2, _) = mats
    if w1 != h2:
        return None
    return mats


def _answer_entries(ans):
    """`[ok] h w f<bits>...` -> (h, w, [bits]) or None"""
    t = ans.split()
    if t and t[0] == "ok":
        t = t[1:]
    try:
        h, w = int(t[0]), int(t[1])
        ent = [int(x[1:]) for x in t[2:] if x.startswith("f")]
    except (ValueError, IndexError):
        return None
    if len(ent) != len(t) - 2 or len(ent) != h * w:
        return None
    return h, w, ent


def _bounds(req, mats):
    """per entry (row-major): (exact sum, bound) as Fractions; None when an operand entry is not finite"""
    from fractions import Fraction
    import math
    (h1, w1, a), (h2, w2, b) = mats
    if not all(math.isfinite(x) for x in a + b):
        return None
    eps = Fraction(1, 2 ** 52) if req.split()[1] == "f" else Fraction(1, 2 ** 23)
    tiny = Fraction(1, 2 ** 1074) if req.split()[1] == "f" else Fraction(1, 2 ** 149)
    fa = [Fraction(x) for x in a]
    fb = [Fraction(x) for x in b]
    out = []
    for i in range(h1):
        for j in range(w2):
            ex = Fraction(0)
            sc = Fraction(0)
            for l in range(w1):
                p = fa[i * w1 + l] * fb[l * w2 + j]
                ex += p
                sc += abs(p)
            out.append((ex, (w1 + 1) * eps * sc + (w1 + 1) * tiny))
    return out


def _float_product_close(req, ni, nm):
    """both answers are the product of the request up to the rounding bound of the statement"""
    from fractions import Fraction
    import math
    mats = _float_product_request(req)
    if mats is None:
        return False
    ei, em = _answer_entries(ni), _answer_entries(nm)
    if ei is None or em is None or ei[:2] != em[:2] or ni.split()[0] != nm.split()[0]:
        return False
    if (ei[0], ei[1]) != (mats[0][0], mats[1][1]):
        return False
    bd = _bounds(req, mats)
    if bd is None:
        return False
    for x, y, (_, bound) in zip(ei[2], em[2], bd):
        if x == y:
            continue
        fx, fy = _fval(x), _fval(y)
        if not (math.isfinite(fx) and math.isfinite(fy)):
            return False
        if abs(Fraction(fx) - Fraction(fy)) > 2 * bound:
            return False
    return True


def compare(req, impl, model):
    from __main__ import default_compare
    ni, nm = _norm(impl), _norm(model)
    d = default_compare(req, ni, nm)
    if d is None:
        return None
    if _float_product_close(req, ni, nm):
        return None
    cmd, sh = _mats(req)
    if cmd in ("dot", "mul") and len(sh) == 2:
        _, opt = _step(sh[0], sh[1])
        if opt and ni == ("err dotshape" if cmd == "dot" else "0 0"):
            return None
        return d
    if cmd in ("assoc", "tprod") and " R " in ni and " R " in nm and ni.startswith("L ") and nm.startswith("L "):
        if cmd == "assoc" and len(sh) == 3:
            a, b, c = sh
            lopt = _chain_optional([lambda _: (a, b), lambda ab: (ab, c)])
            ropt = _chain_optional([lambda _: (b, c), lambda bc: (a, bc)])
        elif cmd == "tprod" and len(sh) == 2:
            a, b = sh
            lopt = _chain_optional([lambda _: (a, b)])
            ropt = _chain_optional([lambda _: ((b[1], b[0]), (a[1], a[0]))])
        else:
            return d
        il, ir = ni[2:].split(" R ", 1)
        ml, mr = nm[2:].split(" R ", 1)
        for side, x, y, opt in (("L", il, ml, lopt), ("R", ir, mr, ropt)):
            dd = default_compare(req, x, y)
            if dd is not None and not (opt and x == "err dotshape"):
                return f"{side} side: {dd}"
        return None
    return d

def nontrivial(req, model):
    t = model.split()
    if not t or t[0] in ("err", "panic", "bad-request"):
        return False
    if t[0] == "L":
        return "ok" in t and not model.startswith("L err")
    # "ok h w ..." or "h w ..."
    nums = t[1:] if t[0] == "ok" else t
    return len(nums) > 2

def tag(req, model):
    r = req.split(); m = model.split()
    kind = m[0] if m else "empty"
    if kind not in ("ok", "err", "panic", "L"):
        kind = "mat"
    return f"{r[0]}:{r[1]}:{kind}"
